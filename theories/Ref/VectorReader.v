(* Independent readers for the three vector outputs (property C10), written from the format descriptions
   (PLRM 3rd ed. / DSC 3.0 for EPS, ISO 32000-1 for PDF, the PGF manual for the basic layer), not from segno's code.
   Definitions only.  Bytes/characters are Z.  All readers return pictures in DEVICE space (default user space
   after applying the document's own transformations), every number reduced with Qred so that equal rationals are
   syntactically equal.

   (a) [eps_read]   : DSC header (%!PS-Adobe-x EPSF-y, %%BoundingBox: four integers) and a PostScript subset:
                      numbers, /name, { ... } (not nested), bind, def, user-defined procedures, scale, newpath,
                      moveto, rmoveto, rlineto, setrgbcolor, clippath, fill (of the clip path only), stroke.
   (b) [pdf_read_content] : page-content subset  cm  m  l  re  S  f  rg  RG  w  q  Q ;
       [pdf_read_file] : file structure: trailing startxref / %%EOF, the xref table (20-byte entries), every in-use
                      entry k >= 1 that should denote an object must point at "k 0 obj", /Length and the stream of the
                      page content object, /MediaBox of the page object.
   (c) [pgf_read]   : \pgfsetlinewidth, \color, \pgfpathmoveto / \pgfpathlineto{\pgfqpoint{X unit}{Y unit}},
                      \pgfusepath{stroke} inside \begin{pgfpicture} ... \end{pgfpicture} (optionally wrapped in \href{..}{ }).

   Line caps are the default butt caps: a stroked segment of width w paints the rectangle of half-width w/2 around
   it and nothing beyond its end points; [seg_cells] turns such strokes into unit cells. *)
From Coq Require Import String Ascii.
From Coq Require Import ZArith List Bool QArith Qround.
From Segno Require Import Base.PyLite.
Import ListNotations.
Open Scope Z_scope.

Definition bytes := list Z.
Definition point := (Q * Q)%type.
Definition segment := (point * point)%type.          (* ((x1, y1), (x2, y2)) *)
Definition rgb := (Q * Q * Q)%type.

Inductive paint :=
| Stroke (color : rgb) (width : Q) (segs : list segment)
| FillRect (color : rgb) (lo hi : point)
| FillPage (color : rgb).                            (* fill of the whole clipping region (EPS: clippath fill) *)

(* ---------- lexical helpers ---------- *)
Definition is_ws (c : Z) : bool := (c =? 32) || (c =? 10) || (c =? 13) || (c =? 9) || (c =? 12) || (c =? 0).
Definition is_digit (c : Z) : bool := (48 <=? c) && (c <=? 57).
Definition nonempty (s : bytes) : bool := match s with [] => false | _ => true end.
Definition cons_hd (c : Z) (ps : list bytes) : list bytes :=
  match ps with p :: r => (c :: p) :: r | [] => [[c]] end.
Fixpoint split_by (f : Z -> bool) (s : bytes) : list bytes :=
  match s with
  | [] => [[]]
  | c :: r => if f c then [] :: split_by f r else cons_hd c (split_by f r)
  end.
(* maximal runs of non-white-space characters *)
Definition words (s : bytes) : list bytes := filter nonempty (split_by is_ws s).
Definition lines_of (s : bytes) : list bytes := split_by (Z.eqb 10) s.

Fixpoint bytes_eqb (a b : bytes) : bool :=
  match a, b with [], [] => true | x :: a', y :: b' => (x =? y) && bytes_eqb a' b' | _, _ => false end.
Fixpoint strip_prefix (p s : bytes) : option bytes :=
  match p with
  | [] => Some s
  | x :: p' => match s with y :: s' => if x =? y then strip_prefix p' s' else None | [] => None end
  end.
(* the text after the first occurrence of [pat] *)
Fixpoint find_after (pat s : bytes) : option bytes :=
  match strip_prefix pat s with
  | Some r => Some r
  | None => match s with [] => None | _ :: t => find_after pat t end
  end.
Fixpoint cut_first (sep : Z) (s : bytes) : option (bytes * bytes) :=
  match s with
  | [] => None
  | c :: r => if c =? sep then Some ([], r)
              else match cut_first sep r with Some (a, b) => Some (c :: a, b) | None => None end
  end.
Fixpoint span_digits (s : bytes) : bytes * bytes :=
  match s with
  | c :: r => if is_digit c then let '(d, t) := span_digits r in (c :: d, t) else ([], s)
  | [] => ([], [])
  end.
Fixpoint drop_while (f : Z -> bool) (s : bytes) : bytes :=
  match s with c :: r => if f c then drop_while f r else s | [] => [] end.
Definition digits_val (s : bytes) : Z := fold_left (fun a c => 10 * a + (c - 48)) s 0.
Definition all_digits (s : bytes) : bool := forallb is_digit s.
Definition lenB (s : bytes) : Z := Z.of_nat (List.length s).

Definition str_of (s : String.string) : bytes :=
  map (fun a => Z.of_N (Ascii.N_of_ascii a)) (String.list_ascii_of_string s).
Arguments str_of s%string.

Definition split_sign (s : bytes) : bool * bytes :=
  match s with
  | c :: r => if c =? 45 then (true, r) else if c =? 43 then (false, r) else (false, s)
  | [] => (false, s)
  end.
(* decimal number: [+-] digits [. digits]  (at least one digit) *)
Definition parse_number (s : bytes) : option Q :=
  let '(neg, s1) := split_sign s in
  let sgn (v : Z) := if neg then - v else v in
  let '(ip, rest) := span_digits s1 in
  match rest with
  | [] => if nonempty ip then Some (inject_Z (sgn (digits_val ip))) else None
  | 46 :: fr =>
      if all_digits fr && (nonempty ip || nonempty fr)
      then Some (Qmake (sgn (digits_val ip * 10 ^ lenB fr + digits_val fr)) (Z.to_pos (10 ^ lenB fr)))
      else None
  | _ => None
  end.
Definition parse_int (s : bytes) : option Z :=
  let '(neg, s1) := split_sign s in
  if nonempty s1 && all_digits s1 then Some (if neg then - digits_val s1 else digits_val s1) else None.

(* lexical tokens of PostScript / PDF content streams: numbers and everything else *)
Inductive tok := TNum (q : Q) | TWord (w : bytes).
Definition lex_word (w : bytes) : tok := match parse_number w with Some q => TNum q | None => TWord w end.

Fixpoint all_some {A} (l : list (option A)) : option (list A) :=
  match l with
  | [] => Some []
  | Some x :: r => match all_some r with Some xs => Some (x :: xs) | None => None end
  | None :: _ => None
  end.

Definition red_point (p : point) : point := (Qred (fst p), Qred (snd p)).
Definition red_seg (s : segment) : segment := (red_point (fst s), red_point (snd s)).
Definition red_rgb (c : rgb) : rgb := let '(r, g, b) := c in (Qred r, Qred g, Qred b).

(* ---------- (a) EPS ---------- *)
Inductive psval := PNum (q : Q) | PName (n : bytes) | PProc (body : list tok).
Inductive epath := EPSegs (segs : list segment) | EPClip.
Record eps_state := {
  e_stack : list psval;                    (* operand stack, top first *)
  e_dict : list (bytes * list tok);        (* userdict: procedures defined by the program *)
  e_proc : option (list tok);              (* Some body (reversed) while scanning { ... } *)
  e_sx : Q; e_sy : Q;                      (* CTM = diag(sx, sy): only `scale` is supported *)
  e_color : rgb;
  e_cur : option point;                    (* current point, device space *)
  e_path : epath;
  e_out : list paint }.
Definition eps_init : eps_state :=
  {| e_stack := []; e_dict := []; e_proc := None; e_sx := 1; e_sy := 1; e_color := (0, 0, 0)%Q;
     e_cur := None; e_path := EPSegs []; e_out := [] |}.

Fixpoint assoc_b {A} (k : bytes) (l : list (bytes * A)) : option A :=
  match l with [] => None | (k', v) :: r => if bytes_eqb k k' then Some v else assoc_b k r end.

Definition set_stack (st : eps_state) (s : list psval) : eps_state :=
  {| e_stack := s; e_dict := e_dict st; e_proc := e_proc st; e_sx := e_sx st; e_sy := e_sy st;
     e_color := e_color st; e_cur := e_cur st; e_path := e_path st; e_out := e_out st |}.

(* a built-in operator (or a number) *)
Definition eps_prim (t : tok) (st : eps_state) : option eps_state :=
  match t with
  | TNum q => Some (set_stack st (PNum q :: e_stack st))
  | TWord w =>
  if bytes_eqb w (str_of "bind") then
    match e_stack st with PProc _ :: _ => Some st | _ => None end
  else if bytes_eqb w (str_of "def") then
    match e_stack st with
    | PProc body :: PName n :: rest =>
        Some {| e_stack := rest; e_dict := (n, body) :: e_dict st; e_proc := e_proc st; e_sx := e_sx st; e_sy := e_sy st;
                e_color := e_color st; e_cur := e_cur st; e_path := e_path st; e_out := e_out st |}
    | _ => None end
  else if bytes_eqb w (str_of "scale") then
    match e_stack st with
    | PNum sy :: PNum sx :: rest =>
        Some {| e_stack := rest; e_dict := e_dict st; e_proc := e_proc st; e_sx := e_sx st * sx; e_sy := e_sy st * sy;
                e_color := e_color st; e_cur := e_cur st; e_path := e_path st; e_out := e_out st |}
    | _ => None end
  else if bytes_eqb w (str_of "setrgbcolor") then
    match e_stack st with
    | PNum b :: PNum g :: PNum r :: rest =>
        Some {| e_stack := rest; e_dict := e_dict st; e_proc := e_proc st; e_sx := e_sx st; e_sy := e_sy st;
                e_color := (r, g, b); e_cur := e_cur st; e_path := e_path st; e_out := e_out st |}
    | _ => None end
  else if bytes_eqb w (str_of "newpath") then
    Some {| e_stack := e_stack st; e_dict := e_dict st; e_proc := e_proc st; e_sx := e_sx st; e_sy := e_sy st;
            e_color := e_color st; e_cur := None; e_path := EPSegs []; e_out := e_out st |}
  else if bytes_eqb w (str_of "moveto") then
    match e_stack st, e_path st with
    | PNum y :: PNum x :: rest, EPSegs _ =>
        Some {| e_stack := rest; e_dict := e_dict st; e_proc := e_proc st; e_sx := e_sx st; e_sy := e_sy st;
                e_color := e_color st; e_cur := Some (e_sx st * x, e_sy st * y)%Q; e_path := e_path st; e_out := e_out st |}
    | _, _ => None end
  else if bytes_eqb w (str_of "rmoveto") then
    match e_stack st, e_cur st, e_path st with
    | PNum dy :: PNum dx :: rest, Some (cx, cy), EPSegs _ =>
        Some {| e_stack := rest; e_dict := e_dict st; e_proc := e_proc st; e_sx := e_sx st; e_sy := e_sy st;
                e_color := e_color st; e_cur := Some (cx + e_sx st * dx, cy + e_sy st * dy)%Q;
                e_path := e_path st; e_out := e_out st |}
    | _, _, _ => None end
  else if bytes_eqb w (str_of "rlineto") then
    match e_stack st, e_cur st, e_path st with
    | PNum dy :: PNum dx :: rest, Some (cx, cy), EPSegs segs =>
        let p := (cx + e_sx st * dx, cy + e_sy st * dy)%Q in
        Some {| e_stack := rest; e_dict := e_dict st; e_proc := e_proc st; e_sx := e_sx st; e_sy := e_sy st;
                e_color := e_color st; e_cur := Some p; e_path := EPSegs (segs ++ [((cx, cy), p)]); e_out := e_out st |}
    | _, _, _ => None end
  else if bytes_eqb w (str_of "clippath") then
    Some {| e_stack := e_stack st; e_dict := e_dict st; e_proc := e_proc st; e_sx := e_sx st; e_sy := e_sy st;
            e_color := e_color st; e_cur := None; e_path := EPClip; e_out := e_out st |}
  else if bytes_eqb w (str_of "fill") then
    match e_path st with
    | EPClip =>
        Some {| e_stack := e_stack st; e_dict := e_dict st; e_proc := e_proc st; e_sx := e_sx st; e_sy := e_sy st;
                e_color := e_color st; e_cur := None; e_path := EPSegs [];
                e_out := e_out st ++ [FillPage (red_rgb (e_color st))] |}
    | _ => None end
  else if bytes_eqb w (str_of "stroke") then
    match e_path st with
    | EPSegs segs =>
        if Qeq_bool (e_sx st) (e_sy st) then     (* default line width 1 user unit, isotropic CTM only *)
        Some {| e_stack := e_stack st; e_dict := e_dict st; e_proc := e_proc st; e_sx := e_sx st; e_sy := e_sy st;
                e_color := e_color st; e_cur := None; e_path := EPSegs [];
                e_out := e_out st ++ [Stroke (red_rgb (e_color st)) (Qred (e_sx st)) (map red_seg segs)] |}
        else None
    | _ => None end
  else None
  end.

Fixpoint fold_opt {A S} (f : A -> S -> option S) (l : list A) (st : S) : option S :=
  match l with
  | [] => Some st
  | a :: r => match f a st with Some st' => fold_opt f r st' | None => None end
  end.

Definition set_proc (st : eps_state) (p : option (list tok)) : eps_state :=
  {| e_stack := e_stack st; e_dict := e_dict st; e_proc := p; e_sx := e_sx st; e_sy := e_sy st;
     e_color := e_color st; e_cur := e_cur st; e_path := e_path st; e_out := e_out st |}.

Definition eps_tok (t : tok) (st : eps_state) : option eps_state :=
  match e_proc st with
  | Some body =>
      match t with
      | TWord [125] => Some (set_stack (set_proc st None) (PProc (rev body) :: e_stack st))
      | TWord [123] => None
      | _ => Some (set_proc st (Some (t :: body)))
      end
  | None =>
      match t with
      | TNum _ => eps_prim t st
      | TWord [123] => Some (set_proc st (Some []))
      | TWord (47 :: name) => Some (set_stack st (PName name :: e_stack st))
      | TWord w => match assoc_b w (e_dict st) with
                   | Some body => fold_opt eps_prim body st
                   | None => eps_prim t st
                   end
      end
  end.

Definition is_comment (l : bytes) : bool := match l with 37 :: _ => true | _ => false end.
Definition eps_program_words (file : bytes) : list bytes :=
  flat_map (fun l => if is_comment l then [] else words l) (lines_of file).

Fixpoint first_some {A B} (f : A -> option B) (l : list A) : option B :=
  match l with [] => None | a :: r => match f a with Some b => Some b | None => first_some f r end end.

Definition eps_bbox (file : bytes) : option (Z * Z * Z * Z) :=
  first_some (fun l => match strip_prefix (str_of "%%BoundingBox:") l with
                       | Some r => match all_some (map parse_int (words r)) with
                                   | Some [a; b; c; d] => Some (a, b, c, d)
                                   | _ => None end
                       | None => None end) (lines_of file).

Record eps_doc := { eps_box : Z * Z * Z * Z; eps_paint : list paint }.

Definition eps_read (file : bytes) : option eps_doc :=
  match lines_of file with
  | first :: _ =>
      match strip_prefix (str_of "%!PS-Adobe-") first, find_after (str_of " EPSF-") first, eps_bbox file with
      | Some _, Some _, Some box =>
          match fold_opt eps_tok (map lex_word (eps_program_words file)) eps_init with
          | Some st => match e_proc st with
                       | None => Some {| eps_box := box; eps_paint := e_out st |}
                       | Some _ => None end
          | None => None end
      | _, _, _ => None end
  | [] => None end.

(* ---------- (b) PDF ---------- *)
Definition matrix6 := (Q * Q * Q * Q * Q * Q)%type.
(* M x CTM: the new matrix is applied first *)
Definition mat_mul (m ctm : matrix6) : matrix6 :=
  let '(a, b, c, d, e, f) := m in let '(A, B, C, D, E, F) := ctm in
  (a * A + b * C, a * B + b * D, c * A + d * C, c * B + d * D, e * A + f * C + E, e * B + f * D + F)%Q.
Definition mat_apply (ctm : matrix6) (x y : Q) : point :=
  let '(A, B, C, D, E, F) := ctm in (A * x + C * y + E, B * x + D * y + F)%Q.
(* uniform scale factor of a CTM without rotation/skew *)
Definition mat_scale (ctm : matrix6) : option Q :=
  let '(A, B, C, D, E, F) := ctm in
  if Qeq_bool B 0 && Qeq_bool C 0 && Qeq_bool A D then Some A else None.

Inductive pelem := ESeg (s : segment) | ERect (lo hi : point).
Record gstate := { g_ctm : matrix6; g_fill : rgb; g_stroke : rgb; g_lw : Q }.
Record pdf_state := {
  p_g : gstate; p_saved : list gstate; p_ops : list Q;       (* operands, last first *)
  p_cur : option point; p_path : list pelem; p_out : list paint }.
Definition pdf_init : pdf_state :=
  {| p_g := {| g_ctm := (1, 0, 0, 1, 0, 0)%Q; g_fill := (0, 0, 0)%Q; g_stroke := (0, 0, 0)%Q; g_lw := 1 |};
     p_saved := []; p_ops := []; p_cur := None; p_path := []; p_out := [] |}.

Definition segs_of (p : list pelem) : option (list segment) :=
  all_some (map (fun e => match e with ESeg s => Some s | _ => None end) p).
Definition rects_of (p : list pelem) : option (list (point * point)) :=
  all_some (map (fun e => match e with ERect a b => Some (a, b) | _ => None end) p).

Definition with_g (st : pdf_state) (g : gstate) : pdf_state :=
  {| p_g := g; p_saved := p_saved st; p_ops := []; p_cur := p_cur st; p_path := p_path st; p_out := p_out st |}.

Definition pdf_op (w : bytes) (st : pdf_state) : option pdf_state :=
  let g := p_g st in
  if bytes_eqb w (str_of "cm") then
    match p_ops st with
    | [f; e; d; c; b; a] =>
        Some (with_g st {| g_ctm := mat_mul (a, b, c, d, e, f) (g_ctm g); g_fill := g_fill g; g_stroke := g_stroke g; g_lw := g_lw g |})
    | _ => None end
  else if bytes_eqb w (str_of "w") then
    match p_ops st with
    | [lw] => Some (with_g st {| g_ctm := g_ctm g; g_fill := g_fill g; g_stroke := g_stroke g; g_lw := lw |})
    | _ => None end
  else if bytes_eqb w (str_of "rg") then
    match p_ops st with
    | [b; gg; r] => Some (with_g st {| g_ctm := g_ctm g; g_fill := (r, gg, b); g_stroke := g_stroke g; g_lw := g_lw g |})
    | _ => None end
  else if bytes_eqb w (str_of "RG") then
    match p_ops st with
    | [b; gg; r] => Some (with_g st {| g_ctm := g_ctm g; g_fill := g_fill g; g_stroke := (r, gg, b); g_lw := g_lw g |})
    | _ => None end
  else if bytes_eqb w (str_of "q") then
    match p_ops st with
    | [] => Some {| p_g := g; p_saved := g :: p_saved st; p_ops := []; p_cur := p_cur st; p_path := p_path st; p_out := p_out st |}
    | _ => None end
  else if bytes_eqb w (str_of "Q") then
    match p_ops st, p_saved st with
    | [], g' :: rest => Some {| p_g := g'; p_saved := rest; p_ops := []; p_cur := p_cur st; p_path := p_path st; p_out := p_out st |}
    | _, _ => None end
  else if bytes_eqb w (str_of "m") then
    match p_ops st with
    | [y; x] => Some {| p_g := g; p_saved := p_saved st; p_ops := []; p_cur := Some (mat_apply (g_ctm g) x y);
                        p_path := p_path st; p_out := p_out st |}
    | _ => None end
  else if bytes_eqb w (str_of "l") then
    match p_ops st, p_cur st with
    | [y; x], Some c =>
        let p := mat_apply (g_ctm g) x y in
        Some {| p_g := g; p_saved := p_saved st; p_ops := []; p_cur := Some p;
                p_path := p_path st ++ [ESeg (c, p)]; p_out := p_out st |}
    | _, _ => None end
  else if bytes_eqb w (str_of "re") then
    match p_ops st with
    | [h; wd; y; x] =>
        let lo := mat_apply (g_ctm g) x y in
        Some {| p_g := g; p_saved := p_saved st; p_ops := []; p_cur := Some lo;
                p_path := p_path st ++ [ERect lo (mat_apply (g_ctm g) (x + wd) (y + h))]; p_out := p_out st |}
    | _ => None end
  else if bytes_eqb w (str_of "S") then
    match p_ops st, segs_of (p_path st), mat_scale (g_ctm g) with
    | [], Some segs, Some k =>
        Some {| p_g := g; p_saved := p_saved st; p_ops := []; p_cur := None; p_path := [];
                p_out := p_out st ++ [Stroke (red_rgb (g_stroke g)) (Qred (g_lw g * k)) (map red_seg segs)] |}
    | _, _, _ => None end
  else if bytes_eqb w (str_of "f") then
    match p_ops st, rects_of (p_path st) with
    | [], Some rects =>
        Some {| p_g := g; p_saved := p_saved st; p_ops := []; p_cur := None; p_path := [];
                p_out := p_out st ++ map (fun r => FillRect (red_rgb (g_fill g)) (red_point (fst r)) (red_point (snd r))) rects |}
    | _, _ => None end
  else None.

Definition pdf_tok (t : tok) (st : pdf_state) : option pdf_state :=
  match t with
  | TNum q => Some {| p_g := p_g st; p_saved := p_saved st; p_ops := q :: p_ops st; p_cur := p_cur st;
                      p_path := p_path st; p_out := p_out st |}
  | TWord w => pdf_op w st
  end.

(* the painting done by a page content stream (uncompressed) *)
Definition pdf_read_content (content : bytes) : option (list paint) :=
  match fold_opt pdf_tok (map lex_word (words content)) pdf_init with
  | Some st => match p_ops st, p_path st with [], [] => Some (p_out st) | _, _ => None end
  | None => None
  end.

(* --- file structure --- *)
Definition is_eol (c : Z) : bool := (c =? 13) || (c =? 10).
Definition skipnZ {A} (n : Z) (l : list A) : list A := skipn (Z.to_nat n) l.
Definition firstnZ {A} (n : Z) (l : list A) : list A := firstn (Z.to_nat n) l.

(* "startxref" EOL offset EOL "%%EOF" [EOL] at the very end of the file *)
Definition pdf_startxref (file : bytes) : option Z :=
  let r := drop_while is_eol (rev file) in
  match strip_prefix (rev (str_of "%%EOF")) r with
  | Some r1 =>
      let r2 := drop_while is_eol r1 in
      let '(ds, r3) := span_digits r2 in
      if nonempty ds then
        match strip_prefix (rev (str_of "startxref")) (drop_while is_eol r3) with
        | Some _ => Some (digits_val (rev ds))
        | None => None end
      else None
  | None => None
  end.

(* one 20-byte entry: nnnnnnnnnn ggggg n|f EOL(2 bytes) *)
Definition xref_entry (e : bytes) : option (Z * Z * bool) :=
  match e with
  | [o0;o1;o2;o3;o4;o5;o6;o7;o8;o9; 32; g0;g1;g2;g3;g4; 32; k; e1; e2] =>
      let off := [o0;o1;o2;o3;o4;o5;o6;o7;o8;o9] in let gen := [g0;g1;g2;g3;g4] in
      if all_digits off && all_digits gen && ((k =? 110) || (k =? 102))
         && (((e1 =? 32) && is_eol e2) || ((e1 =? 13) && (e2 =? 10)))
      then Some (digits_val off, digits_val gen, k =? 110) else None
  | _ => None
  end.
Fixpoint xref_entries (n : nat) (s : bytes) : option (list (Z * Z * bool) * bytes) :=
  match n with
  | O => Some ([], s)
  | S k => match xref_entry (firstn 20 s) with
           | Some e => match xref_entries k (skipn 20 s) with
                       | Some (es, r) => Some (e :: es, r)
                       | None => None end
           | None => None end
  end.
(* xref section with a single subsection starting at object 0; returns the entries and the text after them *)
Definition pdf_xref_at (s : bytes) : option (list (Z * Z * bool) * bytes) :=
  match strip_prefix (str_of "xref") s with
  | Some r =>
      let r := drop_while is_eol r in
      let '(d0, r1) := span_digits r in
      match r1 with
      | 32 :: r2 =>
          let '(dn, r3) := span_digits r2 in
          if nonempty d0 && (digits_val d0 =? 0) && nonempty dn
          then xref_entries (Z.to_nat (digits_val dn)) (drop_while is_eol r3)
          else None
      | _ => None end
  | None => None
  end.
Definition pdf_xref (file : bytes) (pos : Z) : option (list (Z * Z * bool) * bytes) :=
  pdf_xref_at (skipnZ pos file).

(* does object number k start at byte offset off ("k 0 obj")? *)
Fixpoint dec_digits (fuel : nat) (n : Z) : bytes :=
  match fuel with
  | O => []
  | S f => (if n <? 10 then [] else dec_digits f (n / 10)) ++ [48 + n mod 10]
  end.
Definition obj_header (k : Z) : bytes := dec_digits (S (Z.to_nat (Z.log2 k))) k ++ str_of " 0 obj".
Definition object_at (file : bytes) (k off : Z) : option bytes :=
  if (0 <=? off) && (off <? lenB file) then strip_prefix (obj_header k) (skipnZ off file) else None.

(* /Length n ... stream EOL <n bytes> EOL endstream of the object whose body text is [body] *)
Definition pdf_stream_of (body : bytes) : option (Z * bytes) :=
  match find_after (str_of "/Length") body with
  | Some r =>
      let '(ds, r1) := span_digits (drop_while is_ws r) in
      if nonempty ds then
        let n := digits_val ds in
        match find_after (str_of "stream") r1 with
        | Some r2 =>
            match (match r2 with 13 :: 10 :: d => Some d | 10 :: d => Some d | _ => None end) with
            | Some data =>
                if n <=? lenB data then
                  match strip_prefix (str_of "endstream") (drop_while is_eol (skipnZ n data)) with
                  | Some _ => Some (n, firstnZ n data)
                  | None => None end
                else None
            | None => None end
        | None => None end
      else None
  | None => None
  end.

(* /MediaBox [a b c d] *)
Definition pdf_mediabox_of (body : bytes) : option (list Q) :=
  match find_after (str_of "/MediaBox") body with
  | Some r =>
      match drop_while is_ws r with
      | 91 :: r1 => match cut_first 93 r1 with
                    | Some (inner, _) => all_some (map parse_number (words inner))
                    | None => None end
      | _ => None end
  | None => None
  end.

Record pdf_doc := {
  pd_xref_pos : Z;
  pd_entries : list (Z * Z * bool);        (* (offset, generation, in use) for object 0, 1, 2, ... *)
  pd_mediabox : list Q;
  pd_length : Z;                           (* value of /Length of the content stream *)
  pd_stream : bytes }.                     (* the (still compressed) content stream *)

(* [nobj] = number of objects the document defines (segno: 5); object 3 = page, object 4 = its contents *)
Definition pdf_read_file (nobj : Z) (file : bytes) : option pdf_doc :=
  match strip_prefix (str_of "%PDF-1.") file, pdf_startxref file with
  | Some _, Some pos =>
      match pdf_xref file pos with
      | Some (entries, after) =>
          match strip_prefix (str_of "trailer") after with
          | Some _ =>
              let body k := match nth_error entries (Z.to_nat k) with
                            | Some (off, _, true) => object_at file k off
                            | _ => None end in
              if forallb (fun k => match body k with Some _ => true | None => false end)
                         (map Z.of_nat (seq 1 (Z.to_nat nobj)))
              then
                match body 3, body 4 with
                | Some b3, Some b4 =>
                    match pdf_mediabox_of b3, pdf_stream_of b4 with
                    | Some box, Some (n, data) =>
                        Some {| pd_xref_pos := pos; pd_entries := entries; pd_mediabox := box;
                                pd_length := n; pd_stream := data |}
                    | _, _ => None end
                | _, _ => None end
              else None
          | None => None end
      | None => None end
  | _, _ => None
  end.

(* ---------- (c) PGF ---------- *)
Definition is_numch (c : Z) : bool := is_digit c || (c =? 45) || (c =? 46) || (c =? 43).
Fixpoint span_by (f : Z -> bool) (s : bytes) : bytes * bytes :=
  match s with
  | c :: r => if f c then let '(d, t) := span_by f r in (c :: d, t) else ([], s)
  | [] => ([], [])
  end.
(* "12.5pt" -> (12.5, "pt") *)
Definition pgf_dimen (s : bytes) : option (Q * bytes) :=
  let '(n, u) := span_by is_numch s in
  match parse_number n with Some q => Some (q, u) | None => None end.
(* "{<dimen>}" followed by rest *)
Definition pgf_braced (s : bytes) : option (bytes * bytes) :=
  match s with 123 :: r => cut_first 125 r | _ => None end.
(* "\pgfqpoint{X}{Y}}" *)
Definition pgf_qpoint (s : bytes) : option (Q * Q * bytes) :=
  match strip_prefix (str_of "{\pgfqpoint") s with
  | Some r =>
      match pgf_braced r with
      | Some (xs, r1) =>
          match pgf_braced r1 with
          | Some (ys, [125]) =>
              match pgf_dimen xs, pgf_dimen ys with
              | Some (x, u), Some (y, u') => if bytes_eqb u u' then Some (x, y, u) else None
              | _, _ => None end
          | _ => None end
      | None => None end
  | None => None
  end.

Record pgf_state := {
  t_open : bool; t_closed : bool; t_href : bool;
  t_lw : option (Q * bytes); t_color : option bytes;
  t_cur : option point; t_segs : list segment; t_units : list bytes;
  t_out : list (option bytes * Q * list segment) }.     (* colour name (None = current text colour), width, segments *)
Definition pgf_init : pgf_state :=
  {| t_open := false; t_closed := false; t_href := false; t_lw := None; t_color := None; t_cur := None;
     t_segs := []; t_units := []; t_out := [] |}.

Definition pgf_line (l0 : bytes) (st : pgf_state) : option pgf_state :=
  let l := drop_while (Z.eqb 32) l0 in
  if t_closed st then (if nonempty l then None else Some st) else
  match l with
  | [] => Some st
  | 37 :: _ => Some st                                                    (* comment *)
  | _ =>
    if negb (t_open st) then
      (* \begin{pgfpicture}, optionally preceded by \href{url}{ *)
      let '(href, l1) := match strip_prefix (str_of "\href{") l with
                         | Some r => match cut_first 125 r with
                                     | Some (_, 123 :: r1) => (true, r1)
                                     | _ => (false, l) end
                         | None => (false, l) end in
      if bytes_eqb l1 (str_of "\begin{pgfpicture}") then
        Some {| t_open := true; t_closed := false; t_href := href; t_lw := t_lw st; t_color := t_color st;
                t_cur := None; t_segs := []; t_units := []; t_out := [] |}
      else None
    else
    match strip_prefix (str_of "\pgfsetlinewidth") l with
    | Some r =>
        match pgf_braced r with
        | Some (d, []) => match pgf_dimen d with
                          | Some (q, u) =>
                              Some {| t_open := true; t_closed := false; t_href := t_href st; t_lw := Some (q, u);
                                      t_color := t_color st; t_cur := t_cur st; t_segs := t_segs st;
                                      t_units := t_units st; t_out := t_out st |}
                          | None => None end
        | _ => None end
    | None =>
    match strip_prefix (str_of "\color") l with
    | Some r =>
        match pgf_braced r with
        | Some (c, []) => Some {| t_open := true; t_closed := false; t_href := t_href st; t_lw := t_lw st;
                                  t_color := Some c; t_cur := t_cur st; t_segs := t_segs st;
                                  t_units := t_units st; t_out := t_out st |}
        | _ => None end
    | None =>
    match strip_prefix (str_of "\pgfpathmoveto") l with
    | Some r =>
        match pgf_qpoint r with
        | Some (x, y, u) => Some {| t_open := true; t_closed := false; t_href := t_href st; t_lw := t_lw st;
                                    t_color := t_color st; t_cur := Some (x, y); t_segs := t_segs st;
                                    t_units := t_units st ++ [u]; t_out := t_out st |}
        | None => None end
    | None =>
    match strip_prefix (str_of "\pgfpathlineto") l with
    | Some r =>
        match pgf_qpoint r, t_cur st with
        | Some (x, y, u), Some c =>
            Some {| t_open := true; t_closed := false; t_href := t_href st; t_lw := t_lw st;
                    t_color := t_color st; t_cur := Some (x, y); t_segs := t_segs st ++ [(c, (x, y))];
                    t_units := t_units st ++ [u]; t_out := t_out st |}
        | _, _ => None end
    | None =>
    if bytes_eqb l (str_of "\pgfusepath{stroke}") then
      match t_lw st with
      | Some (w, u) =>
          if forallb (bytes_eqb u) (t_units st) then
          Some {| t_open := true; t_closed := false; t_href := t_href st; t_lw := t_lw st;
                  t_color := t_color st; t_cur := None; t_segs := []; t_units := [];
                  t_out := t_out st ++ [(t_color st, Qred w, map red_seg (t_segs st))] |}
          else None
      | None => None end
    else if bytes_eqb l (str_of "\end{pgfpicture}" ++ (if t_href st then [125] else [])) then
      match t_segs st with
      | [] => Some {| t_open := true; t_closed := true; t_href := t_href st; t_lw := t_lw st;
                      t_color := t_color st; t_cur := None; t_segs := []; t_units := []; t_out := t_out st |}
      | _ => None end
    else None
    end end end end
  end.

Record pgf_doc := { pgf_unit : option bytes; pgf_strokes : list (option bytes * Q * list segment) }.
Definition pgf_read (file : bytes) : option pgf_doc :=
  match fold_opt pgf_line (lines_of file) pgf_init with
  | Some st => if t_closed st then
                 Some {| pgf_unit := match t_lw st with Some (_, u) => Some u | None => None end;
                         pgf_strokes := t_out st |}
               else None
  | None => None
  end.

(* ---------- unit cells painted by horizontal butt-capped strokes ---------- *)
(* a horizontal segment (x1, y) -> (x2, y) of width [w] drawn on a grid of pitch [s] whose row 0 has its TOP edge at
   device height [top]: the cells (column, row) it covers exactly; None if it is not aligned to the grid *)
Definition is_int (q : Q) : bool := Qeq_bool (inject_Z (Qfloor q)) q.
Definition seg_cells (s top w : Q) (sg : segment) : option (list (Z * Z)) :=
  let '((x1, y1), (x2, y2)) := sg in
  let c1 := (x1 / s)%Q in let c2 := (x2 / s)%Q in
  let r := ((top - y1) / s - (1 # 2))%Q in
  if Qeq_bool y1 y2 && Qeq_bool w s && is_int c1 && is_int c2 && is_int r && Qle_bool c1 c2
  then Some (map (fun c => (c, Qfloor r)) (zrange (Qfloor c1) (Qfloor c2)))
  else None.
Fixpoint concat_some {A} (l : list (option (list A))) : option (list A) :=
  match l with
  | [] => Some []
  | Some x :: r => match concat_some r with Some xs => Some (x ++ xs) | None => None end
  | None :: _ => None
  end.
Definition stroke_cells (s top w : Q) (segs : list segment) : option (list (Z * Z)) :=
  concat_some (map (seg_cells s top w) segs).
