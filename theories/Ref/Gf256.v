(* GF(256) as ISO/IEC 18004 defines it (x^8+x^4+x^3+x^2+1, alpha = 2), derived from the log / antilog
   tables (frozen reference IsoData.GALIOS_*, tied to the current source by Tie/TieTables.v):
   the tables are checked to be the powers of alpha under multiplication-by-x modulo 0x11D, and the
   field laws are *proved* from that (no 256^3 brute force). *)
From Coq Require Import ZArith List Bool Lia.
From Segno Require Import Base.PyLite Ref.IsoData.
Import ListNotations.
Open Scope Z_scope.

Definition gexp (k : Z) : Z := nth (Z.to_nat k) GALIOS_EXP 0.      (* index < 510, as make_blocks uses it *)
Definition glog (a : Z) : Z := nth (Z.to_nat a) GALIOS_LOG 0.
Definition gmul (a b : Z) : Z := if (a =? 0) || (b =? 0) then 0 else gexp (glog a + glog b).
Definition elt (a : Z) : Prop := 0 <= a < 256.
Arguments gexp : simpl never.
Arguments glog : simpl never.
Arguments gmul : simpl never.

(* multiplication by x modulo the ISO polynomial 0x11D, written from the definition of the field *)
Definition xtime (a : Z) : Z := let s := Z.shiftl a 1 in if 256 <=? s then Z.lxor s 285 else s.

Lemma all256 x : elt x -> In x (zrange 0 256). Proof. intros; apply zrange_In; assumption. Qed.
Lemma all510 x : 0 <= x < 510 -> In x (zrange 0 510). Proof. intros; apply zrange_In; assumption. Qed.

(* finite facts, by kernel computation *)
Lemma table_lengths : length GALIOS_EXP = 510%nat /\ length GALIOS_LOG = 256%nat.
Proof. split; reflexivity. Qed.
Lemma explog_ok : forallb (fun a => (a =? 0) || ((gexp (glog a) =? a) && (0 <=? glog a) && (glog a <? 255))) (zrange 0 256) = true.
Proof. vm_compute. reflexivity. Qed.
Lemma logexp_ok : forallb (fun k => (glog (gexp k) =? k mod 255) && negb (gexp k =? 0) && (0 <=? gexp k) && (gexp k <? 256)) (zrange 0 510) = true.
Proof. vm_compute. reflexivity. Qed.
(* the antilog table is alpha^k with alpha = x: exp(0) = 1, exp(k+1) = x * exp(k) mod 0x11D *)
Lemma exp_is_alpha_powers : (gexp 0 =? 1) && forallb (fun k => gexp (k + 1) =? xtime (gexp k)) (zrange 0 509) = true.
Proof. vm_compute. reflexivity. Qed.
Lemma xtime_is_gmul2 : forallb (fun a => gmul 2 a =? xtime a) (zrange 0 256) = true.
Proof. vm_compute. reflexivity. Qed.
Lemma xtime_lin_ok : forallb (fun b => forallb (fun c => gmul 2 (Z.lxor b c) =? Z.lxor (gmul 2 b) (gmul 2 c)) (zrange 0 256)) (zrange 0 256) = true.
Proof. vm_compute. reflexivity. Qed.
Lemma lxor_ok : forallb (fun b => forallb (fun c => (0 <=? Z.lxor b c) && (Z.lxor b c <? 256)) (zrange 0 256)) (zrange 0 256) = true.
Proof. vm_compute. reflexivity. Qed.

Lemma gexp_glog a : elt a -> a <> 0 -> gexp (glog a) = a /\ 0 <= glog a < 255.
Proof.
  intros Ha Hz. pose proof explog_ok as H. rewrite forallb_forall in H.
  specialize (H a (all256 a Ha)). apply Z.eqb_neq in Hz. rewrite Hz in H. cbn [orb] in H.
  apply andb_true_iff in H. destruct H as [H H3]. apply andb_true_iff in H. destruct H as [H1 H2].
  apply Z.eqb_eq in H1. apply Z.leb_le in H2. apply Z.ltb_lt in H3. auto.
Qed.
Lemma glog_gexp k : 0 <= k < 510 -> glog (gexp k) = k mod 255 /\ gexp k <> 0 /\ elt (gexp k).
Proof.
  intros Hk. pose proof logexp_ok as H. rewrite forallb_forall in H.
  specialize (H k (all510 k Hk)).
  apply andb_true_iff in H. destruct H as [H H4]. apply andb_true_iff in H. destruct H as [H H3].
  apply andb_true_iff in H. destruct H as [H1 H2].
  apply Z.eqb_eq in H1. apply negb_true_iff, Z.eqb_neq in H2. apply Z.leb_le in H3. apply Z.ltb_lt in H4.
  unfold elt. auto.
Qed.
Lemma gexp_mod k : 0 <= k < 510 -> gexp k = gexp (k mod 255).
Proof.
  intros Hk. destruct (glog_gexp k Hk) as (H1 & H2 & H3).
  destruct (gexp_glog (gexp k) H3 H2) as [H4 _]. rewrite H1 in H4. auto.
Qed.

Lemma gmul_elt a b : elt a -> elt b -> elt (gmul a b).
Proof.
  intros Ha Hb. unfold gmul. destruct (a =? 0) eqn:Ea; cbn [orb]. unfold elt; lia.
  destruct (b =? 0) eqn:Eb; cbn [orb]. unfold elt; lia.
  apply Z.eqb_neq in Ea, Eb. destruct (gexp_glog a Ha Ea), (gexp_glog b Hb Eb). apply glog_gexp. lia.
Qed.
Lemma gmul_comm a b : gmul a b = gmul b a.
Proof. unfold gmul. rewrite orb_comm, Z.add_comm. reflexivity. Qed.
Lemma gmul_0_l a : gmul 0 a = 0. Proof. reflexivity. Qed.
Lemma gmul_0_r a : gmul a 0 = 0. Proof. rewrite gmul_comm. reflexivity. Qed.
Lemma gmul_nz a b : elt a -> elt b -> a <> 0 -> b <> 0 -> gmul a b <> 0 /\ glog (gmul a b) = (glog a + glog b) mod 255.
Proof.
  intros Ha Hb Ea Eb. unfold gmul. apply Z.eqb_neq in Ea as Ea', Eb as Eb'. rewrite Ea', Eb'. cbn [orb].
  destruct (gexp_glog a Ha Ea), (gexp_glog b Hb Eb).
  destruct (glog_gexp (glog a + glog b)) as (H3 & H4 & H5). lia. auto.
Qed.
Lemma gmul_integral a b : elt a -> elt b -> gmul a b = 0 -> a = 0 \/ b = 0.
Proof.
  intros Ha Hb H. destruct (Z.eq_dec a 0); auto. destruct (Z.eq_dec b 0); auto.
  destruct (gmul_nz a b Ha Hb n n0). contradiction.
Qed.
Lemma gmul_nz_eq a b : a <> 0 -> b <> 0 -> gmul a b = gexp (glog a + glog b).
Proof. intros Ea Eb. unfold gmul. apply Z.eqb_neq in Ea, Eb. now rewrite Ea, Eb. Qed.
Lemma gmul_assoc a b c : elt a -> elt b -> elt c -> gmul a (gmul b c) = gmul (gmul a b) c.
Proof.
  intros Ha Hb Hc.
  destruct (Z.eq_dec a 0) as [->|Ea]. now rewrite !gmul_0_l.
  destruct (Z.eq_dec b 0) as [->|Eb]. now rewrite gmul_0_l, !gmul_0_r, gmul_0_l.
  destruct (Z.eq_dec c 0) as [->|Ec]. now rewrite !gmul_0_r.
  destruct (gmul_nz b c Hb Hc Eb Ec) as [N1 L1]. destruct (gmul_nz a b Ha Hb Ea Eb) as [N2 L2].
  destruct (gexp_glog a Ha Ea) as [_ la], (gexp_glog b Hb Eb) as [_ lb], (gexp_glog c Hc Ec) as [_ lc].
  rewrite (gmul_nz_eq a (gmul b c) Ea N1), (gmul_nz_eq (gmul a b) c N2 Ec), L1, L2.
  assert (Hm1: 0 <= (glog b + glog c) mod 255 < 255) by (apply Z.mod_pos_bound; lia).
  assert (Hm2: 0 <= (glog a + glog b) mod 255 < 255) by (apply Z.mod_pos_bound; lia).
  rewrite (gexp_mod (glog a + _)) by lia. rewrite (gexp_mod (_ + glog c)) by lia.
  f_equal. rewrite Zplus_mod_idemp_r. rewrite Zplus_mod_idemp_l. f_equal. lia.
Qed.
Lemma gmul_1_l a : elt a -> gmul 1 a = a.
Proof.
  intros Ha. destruct (Z.eq_dec a 0) as [->|Ea]. reflexivity.
  unfold gmul. apply Z.eqb_neq in Ea as E. rewrite E. cbn [orb Z.eqb].
  change (glog 1) with 0. rewrite Z.add_0_l. apply gexp_glog; auto.
Qed.

(* distributivity via alpha-induction *)
Lemma gexp_succ k : 0 <= k < 254 -> gexp (k + 1) = gmul 2 (gexp k).
Proof.
  intros Hk. destruct (glog_gexp k) as (H1 & H2 & H3). lia.
  unfold gmul. apply Z.eqb_neq in H2 as ->. cbn [orb Z.eqb]. change (glog 2) with 1. rewrite H1.
  rewrite Z.mod_small by lia. f_equal. lia.
Qed.
Lemma xtime_lin b c : elt b -> elt c -> gmul 2 (Z.lxor b c) = Z.lxor (gmul 2 b) (gmul 2 c).
Proof.
  intros Hb Hc. pose proof xtime_lin_ok as H. rewrite forallb_forall in H.
  specialize (H b (all256 b Hb)). rewrite forallb_forall in H. specialize (H c (all256 c Hc)). now apply Z.eqb_eq in H.
Qed.
Lemma lxor_elt a b : elt a -> elt b -> elt (Z.lxor a b).
Proof.
  intros Ha Hb. pose proof lxor_ok as H. rewrite forallb_forall in H.
  specialize (H a (all256 a Ha)). rewrite forallb_forall in H. specialize (H b (all256 b Hb)).
  apply andb_true_iff in H. destruct H as [H1 H2]. apply Z.leb_le in H1. apply Z.ltb_lt in H2. unfold elt; auto.
Qed.
Lemma gmul_distr_exp (k : nat) : forall b c, (Z.of_nat k < 255) -> elt b -> elt c ->
  gmul (gexp (Z.of_nat k)) (Z.lxor b c) = Z.lxor (gmul (gexp (Z.of_nat k)) b) (gmul (gexp (Z.of_nat k)) c).
Proof.
  induction k as [|k IH]; intros b c Hk Hb Hc.
  - change (gexp (Z.of_nat 0)) with 1. rewrite !gmul_1_l; auto using lxor_elt.
  - replace (Z.of_nat (S k)) with (Z.of_nat k + 1) by lia. rewrite gexp_succ by lia.
    destruct (glog_gexp (Z.of_nat k)) as (_ & _ & He). lia.
    assert (E2: elt 2) by (unfold elt; lia).
    rewrite <- !gmul_assoc; auto using lxor_elt.
    rewrite IH; auto; try lia. apply xtime_lin; apply gmul_elt; auto.
Qed.
Theorem gmul_distr a b c : elt a -> elt b -> elt c -> gmul a (Z.lxor b c) = Z.lxor (gmul a b) (gmul a c).
Proof.
  intros Ha Hb Hc. destruct (Z.eq_dec a 0) as [->|Ea]. now rewrite !gmul_0_l.
  destruct (gexp_glog a Ha Ea) as [H1 H2]. rewrite <- H1.
  rewrite <- (Z2Nat.id (glog a)) by lia. apply gmul_distr_exp; auto. rewrite Z2Nat.id; lia.
Qed.
