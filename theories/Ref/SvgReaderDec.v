(* Companion of SvgReader.v for documents whose LENGTHS and SCALE FACTORS are arbitrary decimal numbers
   (fractional scaling factors such as 2.25 or 3.3: width="95.69999999999999", transform="scale(3.3)").
   SvgReader.v keeps every number in half units and therefore rejects such documents; here width / height / viewBox
   and transform="scale(s)" are read as exact rationals (Q, reduced with Qred), everything else -- the XML layer,
   the well-formedness checks, the path-data interpreter (half units: path coordinates of a module grid are integers
   and halves whatever the scale) and the geometry -- is SvgReader's.  Written from the XML 1.0 / SVG 1.1
   specifications, not from segno's code.  Definitions only. *)
From Coq Require Import String Ascii.
From Coq Require Import ZArith List Bool QArith.
From Segno Require Import Ref.SvgReader.
Import ListNotations.
Open Scope Z_scope.

(* ------------------------------------------------------------------ decimal numbers *)
Fixpoint span_digits (s : text) : text * text :=
  match s with
  | c :: r => if is_digit c then let '(d, t) := span_digits r in (c :: d, t) else ([], s)
  | [] => ([], [])
  end.
Definition digits_val (s : text) : Z := fold_left (fun a c => 10 * a + (c - 48)) s 0.
Definition nonempty (s : text) : bool := match s with [] => false | _ => true end.
Definition lenT (s : text) : Z := Z.of_nat (List.length s).

(* [-] digits [. digits] with at least one digit; no exponent *)
Definition parse_decimal (s : text) : option Q :=
  let '(neg, s1) := match s with 45 :: r => (true, r) | _ => (false, s) end in
  let sgn (v : Z) := if neg then - v else v in
  let '(ip, rest) := span_digits s1 in
  match rest with
  | [] => if nonempty ip then Some (inject_Z (sgn (digits_val ip))) else None
  | 46 :: fr =>
      if forallb is_digit fr && (nonempty ip || nonempty fr)
      then Some (Qred (Qmake (sgn (digits_val ip * 10 ^ lenT fr + digits_val fr)) (Z.to_pos (10 ^ lenT fr))))
      else None
  | _ => None
  end.

Definition cons_hd (c : Z) (ps : list text) : list text :=
  match ps with p :: r => (c :: p) :: r | [] => [[c]] end.
Fixpoint split_by (f : Z -> bool) (s : text) : list text :=
  match s with
  | [] => [[]]
  | c :: r => if f c then [] :: split_by f r else cons_hd c (split_by f r)
  end.
(* a white space / comma separated list of numbers *)
Definition parse_decimals (s : text) : option (list Q) :=
  map_opt parse_decimal (filter nonempty (split_by (fun c => is_ws c || (c =? 44)) s)).

Fixpoint span_numq (s : text) : text * text :=
  match s with
  | [] => ([], [])
  | c :: r => if is_digit c || (c =? 46) || (c =? 45) then let '(a, b) := span_numq r in (c :: a, b) else ([], s)
  end.
(* a length: number followed by an optional unit identifier (letters or "%") *)
Definition parse_length_q (s : text) : option (Q * text) :=
  let '(num, unit) := span_numq s in
  match parse_decimal num with
  | Some q => if forallb (fun c => is_letter c || (c =? 37)) unit then Some (q, unit) else None
  | None => None
  end.
(* transform="scale(s)" or "scale(s s)" *)
Definition parse_scale_q (s : text) : option Q :=
  match SvgReader.strip_prefix (txt "scale(") s with
  | Some r =>
      match rev r with
      | 41 :: body => match parse_decimals (rev body) with
                      | Some [q] => Some q
                      | Some [q1; q2] => if Qeq_bool q1 q2 then Some q1 else None
                      | _ => None
                      end
      | _ => None
      end
  | None => None
  end.

(* ------------------------------------------------------------------ document *)
Record qpath := {
  qp_stroke : option text; qp_stroke_opacity : option text; qp_fill : option text; qp_class : option text;
  qp_scales : list Q;          (* scale factors of the enclosing groups, outermost first, then the path's own *)
  qp_segs : list lseg }.       (* path data in the path's user space, half units *)

Record qdoc := {
  qd_width : option (Q * text); qd_height : option (Q * text); qd_viewbox : option (list Q);
  qd_version : option text; qd_xmlns : option text; qd_id : option text; qd_class : option text;
  qd_title : option text; qd_desc : option text;
  qd_paths : list qpath }.

Inductive qframe := QSvg | QG (scale : option Q) | QTitle | QDesc.
Record qstate := { q_stack : list qframe; q_seen_root : bool; q_doc : qdoc }.

Definition empty_qdoc : qdoc :=
  {| qd_width := None; qd_height := None; qd_viewbox := None; qd_version := None; qd_xmlns := None; qd_id := None;
     qd_class := None; qd_title := None; qd_desc := None; qd_paths := [] |}.
Definition q_set_title (d : qdoc) (t : option text) : qdoc :=
  {| qd_width := qd_width d; qd_height := qd_height d; qd_viewbox := qd_viewbox d; qd_version := qd_version d;
     qd_xmlns := qd_xmlns d; qd_id := qd_id d; qd_class := qd_class d; qd_title := t; qd_desc := qd_desc d; qd_paths := qd_paths d |}.
Definition q_set_desc (d : qdoc) (t : option text) : qdoc :=
  {| qd_width := qd_width d; qd_height := qd_height d; qd_viewbox := qd_viewbox d; qd_version := qd_version d;
     qd_xmlns := qd_xmlns d; qd_id := qd_id d; qd_class := qd_class d; qd_title := qd_title d; qd_desc := t; qd_paths := qd_paths d |}.
Definition q_add_path (d : qdoc) (p : qpath) : qdoc :=
  {| qd_width := qd_width d; qd_height := qd_height d; qd_viewbox := qd_viewbox d; qd_version := qd_version d;
     qd_xmlns := qd_xmlns d; qd_id := qd_id d; qd_class := qd_class d; qd_title := qd_title d; qd_desc := qd_desc d;
     qd_paths := qd_paths d ++ [p] |}.

Fixpoint q_group_scales (stack : list qframe) : list Q :=      (* innermost first *)
  match stack with
  | QG (Some s) :: r => s :: q_group_scales r
  | _ :: r => q_group_scales r
  | [] => []
  end.
Definition q_in_container (stack : list qframe) : bool :=
  match stack with QSvg :: _ | QG _ :: _ => true | _ => false end.

Definition q_read_root (attrs : list (text * text)) : option qdoc :=
  opt_bind (decode_attrs attrs) (fun a =>
  opt_bind (opt_attr (txt "width") a parse_length_q) (fun w =>
  opt_bind (opt_attr (txt "height") a parse_length_q) (fun h =>
  opt_bind (opt_attr (txt "viewBox") a parse_decimals) (fun vb =>
  Some {| qd_width := w; qd_height := h; qd_viewbox := vb; qd_version := lookup (txt "version") a;
          qd_xmlns := lookup (txt "xmlns") a; qd_id := lookup (txt "id") a; qd_class := lookup (txt "class") a;
          qd_title := None; qd_desc := None; qd_paths := [] |})))).

Definition q_read_path (stack : list qframe) (attrs : list (text * text)) : option qpath :=
  opt_bind (decode_attrs attrs) (fun a =>
  opt_bind (opt_attr (txt "transform") a parse_scale_q) (fun own =>
  opt_bind (lookup (txt "d") a) (fun d =>
  opt_bind (parse_path_data d) (fun segs =>
  (* a stroke is 1 user unit wide with butt caps unless the document says otherwise: reject documents that do *)
  match lookup (txt "stroke-width") a, lookup (txt "stroke-linecap") a, lookup (txt "style") a with
  | None, None, None =>
      Some {| qp_stroke := lookup (txt "stroke") a; qp_stroke_opacity := lookup (txt "stroke-opacity") a;
              qp_fill := lookup (txt "fill") a; qp_class := lookup (txt "class") a;
              qp_scales := rev (q_group_scales stack) ++ (match own with Some s => [s] | None => [] end);
              qp_segs := segs |}
  | _, _, _ => None
  end)))).

Definition qstep (st : option qstate) (ev : xev) : option qstate :=
  match st with
  | None => None
  | Some s =>
      let stack := q_stack s in
      let d := q_doc s in
      match ev with
      | EText t =>
          match stack with
          | QTitle :: _ => opt_bind (unescape t) (fun u =>
                           Some {| q_stack := stack; q_seen_root := q_seen_root s; q_doc := q_set_title d (Some u) |})
          | QDesc :: _ => opt_bind (unescape t) (fun u =>
                          Some {| q_stack := stack; q_seen_root := q_seen_root s; q_doc := q_set_desc d (Some u) |})
          | _ => if forallb is_ws t then Some s else None
          end
      | EOpen n attrs =>
          if text_eqb n (txt "svg") then
            match stack, q_seen_root s with
            | [], false => opt_bind (q_read_root attrs) (fun d' =>
                           Some {| q_stack := [QSvg]; q_seen_root := true; q_doc := d' |})
            | _, _ => None
            end
          else if text_eqb n (txt "title") then
            match stack, qd_title d with
            | QSvg :: _, None => opt_bind (decode_attrs attrs) (fun _ =>
                 Some {| q_stack := QTitle :: stack; q_seen_root := true; q_doc := q_set_title d (Some []) |})
            | _, _ => None
            end
          else if text_eqb n (txt "desc") then
            match stack, qd_desc d with
            | QSvg :: _, None => opt_bind (decode_attrs attrs) (fun _ =>
                 Some {| q_stack := QDesc :: stack; q_seen_root := true; q_doc := q_set_desc d (Some []) |})
            | _, _ => None
            end
          else if text_eqb n (txt "g") then
            if q_in_container stack then
              opt_bind (decode_attrs attrs) (fun a =>
              opt_bind (opt_attr (txt "transform") a parse_scale_q) (fun sc =>
              Some {| q_stack := QG sc :: stack; q_seen_root := true; q_doc := d |}))
            else None
          else None
      | EEmpty n attrs =>
          if text_eqb n (txt "path") then
            if q_in_container stack then
              opt_bind (q_read_path stack attrs) (fun p =>
              Some {| q_stack := stack; q_seen_root := true; q_doc := q_add_path d p |})
            else None
          else None
      | EClose n =>
          match stack with
          | QSvg :: r => if text_eqb n (txt "svg") then Some {| q_stack := r; q_seen_root := true; q_doc := d |} else None
          | QG _ :: r => if text_eqb n (txt "g") then Some {| q_stack := r; q_seen_root := true; q_doc := d |} else None
          | QTitle :: r => if text_eqb n (txt "title") then Some {| q_stack := r; q_seen_root := true; q_doc := d |} else None
          | QDesc :: r => if text_eqb n (txt "desc") then Some {| q_stack := r; q_seen_root := true; q_doc := d |} else None
          | [] => None
          end
      end
  end.

Definition q_read_events (evs : list xev) : option qdoc :=
  match fold_left qstep evs (Some {| q_stack := []; q_seen_root := false; q_doc := empty_qdoc |}) with
  | Some s => match q_stack s, q_seen_root s with [], true => Some (q_doc s) | _, _ => None end
  | None => None
  end.

Definition read_svg_q (doc : text) : option qdoc := opt_bind (lex doc) q_read_events.

(* ------------------------------------------------------------------ geometry *)
(* the page in user units: the viewBox if there is one, else width x height given without unit *)
Definition page_user_q (d : qdoc) : option (Q * Q) :=
  match qd_viewbox d with
  | Some [x; y; w; h] => if Qeq_bool x 0 && Qeq_bool y 0 then Some (w, h) else None
  | Some _ => None
  | None => match qd_width d, qd_height d with
            | Some (w, []), Some (h, []) => Some (w, h)
            | _, _ => None
            end
  end.
(* the single uniform scale factor applying to a path (1 = identity); nested scales are not handled *)
Definition path_scale_q (p : qpath) : option Q :=
  match qp_scales p with [] => Some 1%Q | [s] => Some s | _ => None end.

(* the geometry of a path in its own user space is SvgReader's (cells of unit strokes, filled rectangle) *)
Definition as_svg_path (p : qpath) : svg_path :=
  {| p_stroke := qp_stroke p; p_stroke_opacity := qp_stroke_opacity p; p_fill := qp_fill p; p_class := qp_class p;
     p_scales := []; p_segs := qp_segs p |}.
Definition stroke_cells_q (p : qpath) : option (list (Z * Z)) := stroke_cells (as_svg_path p).
Definition fill_rect_q (p : qpath) : option (Z * Z * Z * Z) := fill_rect (as_svg_path p).
