(* What a raster / text rendering of a symbol must show (properties C09, C11): pixel (x, y) of the
   (size + 2*border) * scale square depicts module (y div scale - border, x div scale - border);
   everything outside the symbol is quiet zone (light). Written independently of segno.utils. *)
From Coq Require Import ZArith List Bool Lia.
From Segno Require Import Base.PyLite.
Import ListNotations.
Open Scope Z_scope.

Definition module_at (rows : list (list Z)) (size i j : Z) : Z :=
  if (0 <=? i) && (i <? size) && (0 <=? j) && (j <? size)
  then nth (Z.to_nat j) (nth (Z.to_nat i) rows []) 0 else 0.
Definition pixel_spec (rows : list (list Z)) (size scale border x y : Z) : Z :=
  module_at rows size (y / scale - border) (x / scale - border).
Definition image_side (size scale border : Z) : Z := (size + 2 * border) * scale.
Definition pixel_grid (rows : list (list Z)) (size scale border : Z) : list (list Z) :=
  let n := image_side size scale border in
  map (fun y => map (fun x => pixel_spec rows size scale border x y) (zrange 0 n)) (zrange 0 n).
(* default quiet zone: 4 modules for QR, 2 for Micro QR *)
Definition default_border (size : Z) : Z := if size <? 21 then 2 else 4.
