(* An independent PNG reader written from the PNG specification (W3C PNG, 2nd ed. / ISO 15948), not from
   segno's writer.  Definitions only.

   Supported subset: colour type 0 (greyscale) and 3 (indexed) with bit depth 1, 2, 4 or 8, compression method 0,
   filter method 0 with filter types 0 (None) and 2 (Up), no interlacing.  Anything else, and every violation of
   the chunk syntax (signature, length, CRC, order, missing PLTE, wrong data size, palette index out of range),
   makes the reader return [None].

   DEFLATE is not modelled: [inflate] is a section variable standing for zlib decompression.

   A file is a [list Z] of bytes.  The result is (width, height, rows of RGBA pixels). *)
From Coq Require Import ZArith List Bool Lia.
Import ListNotations.
Open Scope Z_scope.

Definition rgba : Type := (Z * Z * Z * Z)%type.

(* ---------- CRC (PNG spec 5.5): x^32+x^26+x^23+x^22+x^16+x^12+x^11+x^10+x^8+x^7+x^5+x^4+x^2+x+1, register
   preset to all ones, message bits fed least significant bit of each byte first, result complemented.
   Bit-serial definition: one message bit per step. ---------- *)
Definition crc_feed_bit (reg : Z) (bit : bool) : Z :=
  let reg' := reg / 2 in
  if xorb (Z.odd reg) bit then Z.lxor reg' 3988292384 else reg'.
Definition bits_lsb_first (byte : Z) : list bool :=
  map (fun i => Z.odd (byte / 2 ^ i)) [0; 1; 2; 3; 4; 5; 6; 7].
Definition crc_ref (msg : list Z) : Z :=
  Z.lxor (fold_left crc_feed_bit (flat_map bits_lsb_first msg) 4294967295) 4294967295.

(* ---------- integers, slicing ---------- *)
Definition be_uint (l : list Z) : Z := fold_left (fun acc b => acc * 256 + b) l 0.
Definition take (n : Z) (l : list Z) : option (list Z * list Z) :=
  if (0 <=? n) && (n <=? Z.of_nat (List.length l))
  then Some (firstn (Z.to_nat n) l, skipn (Z.to_nat n) l) else None.
Fixpoint list_eqb (a b : list Z) : bool :=
  match a, b with
  | [], [] => true
  | x :: a', y :: b' => (x =? y) && list_eqb a' b'
  | _, _ => false
  end.

Definition SIGNATURE : list Z := [137; 80; 78; 71; 13; 10; 26; 10].
Definition IHDR : list Z := [73; 72; 68; 82].
Definition PLTE : list Z := [80; 76; 84; 69].
Definition IDAT : list Z := [73; 68; 65; 84].
Definition IEND : list Z := [73; 69; 78; 68].
Definition tRNS : list Z := [116; 82; 78; 83].

(* ---------- chunk layer: length (<= 2^31-1), type, data, CRC over type+data; IEND is last ---------- *)
Fixpoint parse_chunks (fuel : nat) (l : list Z) : option (list (list Z * list Z)) :=
  match fuel with
  | O => None
  | S f =>
      match l with
      | l1 :: l2 :: l3 :: l4 :: t1 :: t2 :: t3 :: t4 :: rest =>
          let n := be_uint [l1; l2; l3; l4] in
          let ty := [t1; t2; t3; t4] in
          if 2147483647 <? n then None else
          match take n rest with
          | Some (data, c1 :: c2 :: c3 :: c4 :: rest') =>
              if be_uint [c1; c2; c3; c4] =? crc_ref (ty ++ data) then
                if list_eqb ty IEND then
                  match data, rest' with [], [] => Some [(ty, data)] | _, _ => None end
                else
                  match parse_chunks f rest' with
                  | Some cs => Some ((ty, data) :: cs)
                  | None => None
                  end
              else None
          | _ => None
          end
      | _ => None
      end
  end.

(* ---------- IHDR ---------- *)
Record ihdr := { ih_width : Z; ih_height : Z; ih_depth : Z; ih_ctype : Z }.
Definition parse_ihdr (d : list Z) : option ihdr :=
  match d with
  | [w1; w2; w3; w4; h1; h2; h3; h4; depth; ctype; compression; filter; interlace] =>
      let w := be_uint [w1; w2; w3; w4] in
      let h := be_uint [h1; h2; h3; h4] in
      if (1 <=? w) && (w <=? 2147483647) && (1 <=? h) && (h <=? 2147483647)
         && ((depth =? 1) || (depth =? 2) || (depth =? 4) || (depth =? 8))
         && ((ctype =? 0) || (ctype =? 3))
         && (compression =? 0) && (filter =? 0) && (interlace =? 0)
      then Some {| ih_width := w; ih_height := h; ih_depth := depth; ih_ctype := ctype |}
      else None
  | _ => None
  end.

(* ---------- the chunks after IHDR.  Order rules: PLTE at most once and before IDAT; tRNS at most once, before
   IDAT and (colour type 3) after PLTE; IDAT chunks consecutive; unknown ancillary chunks (bit 5 of the first
   type byte set) are skipped, unknown critical chunks are an error; IEND is last (guaranteed by parse_chunks). *)
Record cstate := {
  cs_plte : option (list Z);
  cs_trns : option (list Z);
  cs_idat : option (list Z);            (* concatenated IDAT data once an IDAT chunk has been seen *)
  cs_idat_closed : bool                 (* a non-IDAT chunk followed the IDAT run *)
}.
Definition is_ancillary (ty : list Z) : bool := Z.odd (hd 0 ty / 32).

Fixpoint scan_chunks (ctype : Z) (cs : list (list Z * list Z)) (st : cstate) : option cstate :=
  match cs with
  | [] => None                                   (* no IEND *)
  | (ty, data) :: rest =>
      if list_eqb ty IEND then (match rest with [] => Some st | _ => None end)
      else if list_eqb ty IHDR then None
      else if list_eqb ty IDAT then
        if cs_idat_closed st then None else
        scan_chunks ctype rest
          {| cs_plte := cs_plte st; cs_trns := cs_trns st;
             cs_idat := Some (match cs_idat st with Some d => d ++ data | None => data end);
             cs_idat_closed := false |}
      else
        let closed := match cs_idat st with Some _ => true | None => false end in
        if list_eqb ty PLTE then
          match cs_plte st, cs_trns st, cs_idat st with
          | None, None, None =>
              scan_chunks ctype rest {| cs_plte := Some data; cs_trns := None; cs_idat := None; cs_idat_closed := false |}
          | _, _, _ => None
          end
        else if list_eqb ty tRNS then
          match cs_trns st, cs_idat st with
          | None, None =>
              if (ctype =? 3) && (match cs_plte st with None => true | Some _ => false end) then None else
              scan_chunks ctype rest {| cs_plte := cs_plte st; cs_trns := Some data; cs_idat := None; cs_idat_closed := false |}
          | _, _ => None
          end
        else if is_ancillary ty then
          scan_chunks ctype rest {| cs_plte := cs_plte st; cs_trns := cs_trns st; cs_idat := cs_idat st; cs_idat_closed := closed |}
        else None
  end.

(* ---------- scanlines ---------- *)
Definition row_bytes (width depth : Z) : Z := (width * depth + 7) / 8.

Fixpoint split_rows (h : nat) (rb : Z) (raw : list Z) : option (list (Z * list Z)) :=
  match h with
  | O => match raw with [] => Some [] | _ => None end
  | S h' =>
      match raw with
      | [] => None
      | ft :: rest =>
          match take rb rest with
          | Some (row, rest') =>
              match split_rows h' rb rest' with Some rs => Some ((ft, row) :: rs) | None => None end
          | None => None
          end
      end
  end.

(* filter type 0: Recon(x) = Filt(x); type 2: Recon(x) = Filt(x) + Recon(b) mod 256, b = byte above
   (zero for the first scanline) *)
Fixpoint unfilter (prev : list Z) (rows : list (Z * list Z)) : option (list (list Z)) :=
  match rows with
  | [] => Some []
  | (ft, r) :: rs =>
      let cur := if ft =? 0 then Some r
                 else if ft =? 2 then Some (map (fun '(x, b) => (x + b) mod 256) (combine r prev))
                 else None in
      match cur with
      | Some c => match unfilter c rs with Some t => Some (c :: t) | None => None end
      | None => None
      end
  end.

(* samples of one byte, leftmost sample in the high-order bits *)
Fixpoint byte_samples (depth : Z) (k : nat) (byte : Z) : list Z :=
  match k with
  | O => []
  | S k' => (byte / 2 ^ (depth * Z.of_nat k')) mod 2 ^ depth :: byte_samples depth k' byte
  end.
Definition row_samples (width depth : Z) (row : list Z) : list Z :=
  firstn (Z.to_nat width) (flat_map (byte_samples depth (Z.to_nat (8 / depth))) row).

(* ---------- samples to pixels ---------- *)
Fixpoint plte_entries (d : list Z) : option (list (Z * Z * Z)) :=
  match d with
  | [] => Some []
  | r :: g :: b :: rest => match plte_entries rest with Some t => Some ((r, g, b) :: t) | None => None end
  | _ => None
  end.

Definition grey_pixel (depth : Z) (trns : option Z) (v : Z) : rgba :=
  let g := v * 255 / (2 ^ depth - 1) in
  (g, g, g, match trns with Some t => if v =? t then 0 else 255 | None => 255 end).
Definition palette_pixel (pal : list (Z * Z * Z)) (alphas : list Z) (v : Z) : option rgba :=
  match nth_error pal (Z.to_nat v) with
  | Some (r, g, b) => Some (r, g, b, nth (Z.to_nat v) alphas 255)
  | None => None
  end.

Fixpoint map_opt {A B} (f : A -> option B) (l : list A) : option (list B) :=
  match l with
  | [] => Some []
  | x :: r => match f x, map_opt f r with Some y, Some t => Some (y :: t) | _, _ => None end
  end.

(* samples -> pixels.  Greyscale: 0 = black, 2^depth-1 = white, an optional tRNS chunk (2 bytes) names the
   transparent sample value.  Indexed: PLTE has 1 .. 2^depth entries, tRNS (optional) gives the alpha of the first
   entries, the others are opaque; every sample must be a valid palette index. *)
Definition decode_pixels (depth ctype : Z) (plte trns : option (list Z)) (samples : list (list Z))
  : option (list (list rgba)) :=
  if ctype =? 0 then
    match plte, trns with
    | None, None => Some (map (map (grey_pixel depth None)) samples)
    | None, Some [t1; t2] => Some (map (map (grey_pixel depth (Some (be_uint [t1; t2])))) samples)
    | _, _ => None
    end
  else
    match plte with
    | None => None
    | Some pd =>
        match plte_entries pd with
        | None => None
        | Some pal =>
            let n := Z.of_nat (List.length pal) in
            let alphas := match trns with Some a => a | None => [] end in
            if (1 <=? n) && (n <=? 2 ^ depth) && (Z.of_nat (List.length alphas) <=? n) then
              map_opt (map_opt (palette_pixel pal alphas)) samples
            else None
        end
    end.

Section Reader.
  (* zlib decompression *)
  Variable inflate : list Z -> option (list Z).

  Definition decode_image (h : ihdr) (st : cstate) : option (Z * Z * list (list rgba)) :=
    match cs_idat st with
    | None => None
    | Some z =>
        match inflate z with
        | None => None
        | Some raw =>
            let depth := ih_depth h in
            match split_rows (Z.to_nat (ih_height h)) (row_bytes (ih_width h) depth) raw with
            | None => None
            | Some frows =>
                match unfilter (repeat 0 (Z.to_nat (row_bytes (ih_width h) depth))) frows with
                | None => None
                | Some rows =>
                    match decode_pixels depth (ih_ctype h) (cs_plte st) (cs_trns st)
                                        (map (row_samples (ih_width h) depth) rows) with
                    | Some px => Some (ih_width h, ih_height h, px)
                    | None => None
                    end
                end
            end
        end
    end.

  Definition read_png (file : list Z) : option (Z * Z * list (list rgba)) :=
    match take 8 file with
    | Some (sig, rest) =>
        if list_eqb sig SIGNATURE then
          match parse_chunks (List.length rest) rest with
          | Some ((ty, d) :: cs) =>
              if list_eqb ty IHDR then
                match parse_ihdr d with
                | Some h =>
                    match scan_chunks (ih_ctype h) cs
                            {| cs_plte := None; cs_trns := None; cs_idat := None; cs_idat_closed := false |} with
                    | Some st => decode_image h st
                    | None => None
                    end
                | None => None
                end
              else None
          | _ => None
          end
        else None
    | None => None
    end.
End Reader.
