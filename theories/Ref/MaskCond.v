(* ISO/IEC 18004 Table 10 -- data mask pattern generation conditions, written from the standard.
   i = row, j = column. Micro QR patterns 00,01,10,11 are QR patterns 001,100,110,111. *)
From Coq Require Import ZArith List Bool.
Import ListNotations.
Open Scope Z_scope.
Definition iso_mask (k i j : Z) : bool :=
  match k with
  | 0 => (i + j) mod 2 =? 0
  | 1 => i mod 2 =? 0
  | 2 => j mod 3 =? 0
  | 3 => (i + j) mod 3 =? 0
  | 4 => (i / 2 + j / 3) mod 2 =? 0
  | 5 => (i * j) mod 2 + (i * j) mod 3 =? 0
  | 6 => ((i * j) mod 2 + (i * j) mod 3) mod 2 =? 0
  | _ => ((i + j) mod 2 + (i * j) mod 3) mod 2 =? 0
  end.
Definition micro_mask_index (k : Z) : Z := match k with 0 => 1 | 1 => 4 | 2 => 6 | _ => 7 end.
Definition iso_mask_for (micro : bool) (k : Z) : Z -> Z -> bool :=
  iso_mask (if micro then micro_mask_index k else k).
