(* ISO/IEC 18004 Annex C / Annex D, written from the standard: format information is the
   BCH(15,5) codeword of the 5 data bits (generator x^10+x^8+x^5+x^4+x^2+x+1) XOR 101010000010010
   (QR) resp. 100010001000101 (Micro QR); version information is the (18,6) Golay codeword
   (generator x^12+x^11+x^10+x^9+x^8+x^5+x^2+1) of the 6-bit version number. *)
From Coq Require Import ZArith List Bool Lia.
From Segno Require Import Base.PyLite.
Import ListNotations.
Open Scope Z_scope.

(* remainder of the GF(2) polynomial [a] (degree < gdeg + n) modulo [g] (degree gdeg) *)
Fixpoint gf2_rem (n : nat) (a g : Z) (gdeg : Z) : Z :=
  match n with
  | O => a
  | S k => let i := gdeg + Z.of_nat k in
           gf2_rem k (if Z.testbit a i then Z.lxor a (Z.shiftl g (Z.of_nat k)) else a) g gdeg
  end.

Definition bch15_5 (d : Z) : Z := Z.lor (Z.shiftl d 10) (gf2_rem 5 (Z.shiftl d 10) 1335 10).   (* 0x537 *)
Definition golay18_6 (v : Z) : Z := Z.lor (Z.shiftl v 12) (gf2_rem 6 (Z.shiftl v 12) 7973 12). (* 0x1F25 *)

Definition format_word_qr (d : Z) : Z := Z.lxor (bch15_5 d) 21522.     (* 0x5412 *)
Definition format_word_micro (d : Z) : Z := Z.lxor (bch15_5 d) 17477.  (* 0x4445 *)

Fixpoint popcount (n : nat) (a : Z) : Z :=
  match n with O => 0 | S k => (if Z.testbit a (Z.of_nat k) then 1 else 0) + popcount k a end.
Definition hamming_z (n : nat) (a b : Z) : Z := popcount n (Z.lxor a b).

(* the 32 format codewords are pairwise at distance >= 7 (so 3 bit errors are correctable),
   the 34 version codewords at distance >= 8 *)
Lemma bch15_5_distance :
  forallb (fun a => forallb (fun b => (a =? b) || (7 <=? hamming_z 15 (bch15_5 a) (bch15_5 b)))
                            (zrange 0 32)) (zrange 0 32) = true.
Proof. vm_compute. reflexivity. Qed.
Lemma golay18_6_distance :
  forallb (fun a => forallb (fun b => (a =? b) || (8 <=? hamming_z 18 (golay18_6 a) (golay18_6 b)))
                            (zrange 7 41)) (zrange 7 41) = true.
Proof. vm_compute. reflexivity. Qed.
(* the codewords are multiples of the generator: remainder of the whole word is zero *)
Lemma bch15_5_codeword : forallb (fun d => gf2_rem 5 (bch15_5 d) 1335 10 =? 0) (zrange 0 32) = true.
Proof. vm_compute. reflexivity. Qed.
Lemma golay18_6_codeword : forallb (fun v => gf2_rem 6 (golay18_6 v) 7973 12 =? 0) (zrange 0 64) = true.
Proof. vm_compute. reflexivity. Qed.
