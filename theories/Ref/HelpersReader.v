(* Independent readers for the payload formats produced by segno/helpers.py, written from the format
   descriptions (MeCard / WIFI "KEY:value;" syntax with backslash escapes, RFC 2425/2426 content lines,
   RFC 3986 percent-encoding + RFC 3629 UTF-8, RFC 5870 geo URIs, EPC069-12 line layout), not from segno's code.
   Strings and byte strings are [list Z].  Definitions only. *)
From Coq Require Import ZArith List Bool.
Import ListNotations.
Open Scope Z_scope.

Definition nonempty_b (s : list Z) : bool := match s with [] => false | _ => true end.

Fixpoint all_some {A} (l : list (option A)) : option (list A) :=
  match l with
  | [] => Some []
  | Some x :: r => match all_some r with Some xs => Some (x :: xs) | None => None end
  | None :: _ => None
  end.

Fixpoint strip_prefix (p s : list Z) : option (list Z) :=
  match p with
  | [] => Some s
  | x :: p' => match s with y :: s' => if x =? y then strip_prefix p' s' else None | [] => None end
  end.

(* prepend a character to the first piece *)
Definition cons_hd (c : Z) (ps : list (list Z)) : list (list Z) :=
  match ps with p :: r => (c :: p) :: r | [] => [[c]] end.

(* plain split at every occurrence of [sep] (str.split(sep)) *)
Fixpoint split_char (sep : Z) (s : list Z) : list (list Z) :=
  match s with
  | [] => [[]]
  | c :: r => if c =? sep then [] :: split_char sep r else cons_hd c (split_char sep r)
  end.

(* split at the first occurrence of [sep] *)
Fixpoint cut_first (sep : Z) (s : list Z) : option (list Z * list Z) :=
  match s with
  | [] => None
  | c :: r => if c =? sep then Some ([], r)
              else match cut_first sep r with Some (a, b) => Some (c :: a, b) | None => None end
  end.

(* ---------------------------------------------------------------------------------------------- *)
(* (a) MeCard-style syntax: a backslash escapes the following character.  The scanner state [esc] is true
   when the previous character was an escaping backslash (i.e. the current position is preceded by an odd
   number of backslashes). *)

(* state after scanning s *)
Fixpoint final_esc (esc : bool) (s : list Z) : bool :=
  match s with [] => esc | c :: r => final_esc (negb esc && (c =? 92)) r end.

(* does s contain an unescaped [sep]? *)
Fixpoint has_unescaped (sep : Z) (esc : bool) (s : list Z) : bool :=
  match s with
  | [] => false
  | c :: r => (negb esc && (c =? sep)) || has_unescaped sep (negb esc && (c =? 92)) r
  end.

(* split at every unescaped [sep]; the pieces keep their escapes *)
Fixpoint split_esc (sep : Z) (esc : bool) (s : list Z) : list (list Z) :=
  match s with
  | [] => [[]]
  | c :: r => if negb esc && (c =? sep) then [] :: split_esc sep false r
              else cons_hd c (split_esc sep (negb esc && (c =? 92)) r)
  end.

(* split at the first unescaped [sep] *)
Fixpoint cut_esc (sep : Z) (esc : bool) (s : list Z) : option (list Z * list Z) :=
  match s with
  | [] => None
  | c :: r => if negb esc && (c =? sep) then Some ([], r)
              else match cut_esc sep (negb esc && (c =? 92)) r with
                   | Some (a, b) => Some (c :: a, b)
                   | None => None
                   end
  end.

(* remove one backslash before any character (a trailing lone backslash is kept) *)
Fixpoint unescape_bs (esc : bool) (s : list Z) : list Z :=
  match s with
  | [] => if esc then [92] else []
  | c :: r => if esc then c :: unescape_bs false r
              else if c =? 92 then unescape_bs true r
              else c :: unescape_bs false r
  end.
Definition unescape (s : list Z) : list Z := unescape_bs false s.

(* number of backslashes at the end of s *)
Fixpoint trailing_bs_from (n : nat) (s : list Z) : nat :=
  match s with [] => n | c :: r => if c =? 92 then trailing_bs_from (S n) r else trailing_bs_from O r end.
Definition trailing_bs (s : list Z) : nat := trailing_bs_from O s.

(* "KEY:value" -> (KEY, unescaped value) *)
Definition mecard_parse_field (piece : list Z) : option (list Z * list Z) :=
  match cut_esc 58 false piece with
  | Some (k, v) => Some (k, unescape v)
  | None => None
  end.

(* the raw pieces between unescaped ';' after the scheme prefix ("MECARD:" / "WIFI:") *)
Definition mecard_pieces_read (prefix s : list Z) : option (list (list Z)) :=
  match strip_prefix prefix s with
  | Some body => Some (split_esc 59 false body)
  | None => None
  end.

(* the fields: every non-empty piece must be KEY:value (empty pieces come from the ";;" terminator) *)
Definition mecard_read (prefix s : list Z) : option (list (list Z * list Z)) :=
  match mecard_pieces_read prefix s with
  | Some ps => all_some (map mecard_parse_field (filter nonempty_b ps))
  | None => None
  end.

(* components of a comma separated value (MeCard ADR), each unescaped *)
Definition mecard_components (raw : list Z) : list (list Z) := map unescape (split_esc 44 false raw).

(* ---------------------------------------------------------------------------------------------- *)
(* (b) vCard 3.0 (RFC 2425 / 2426) *)

(* split at CRLF *)
Fixpoint split_crlf (s : list Z) : list (list Z) :=
  match s with
  | [] => [[]]
  | c :: r => match r with
              | d :: r' => if (c =? 13) && (d =? 10) then [] :: split_crlf r' else cons_hd c (split_crlf r)
              | [] => [[c]]
              end
  end.

(* RFC 2425 5.8.1 unfolding: a line starting with SPACE or HTAB continues the previous line *)
Fixpoint unfold_lines (ls : list (list Z)) : list (list Z) :=
  match ls with
  | [] => []
  | l :: r => match unfold_lines r with
              | (c :: n) :: r' => if (c =? 32) || (c =? 9) then (l ++ n) :: r' else l :: (c :: n) :: r'
              | other => l :: other
              end
  end.

Definition vcard_content_lines (s : list Z) : list (list Z) := unfold_lines (split_crlf s).

(* RFC 2426 text value escapes: \\ \, \; \n \N *)
Fixpoint vcard_unescape_st (esc : bool) (s : list Z) : list Z :=
  match s with
  | [] => if esc then [92] else []
  | c :: r => if esc then (if (c =? 110) || (c =? 78) then 10 else c) :: vcard_unescape_st false r
              else if c =? 92 then vcard_unescape_st true r
              else c :: vcard_unescape_st false r
  end.
Definition vcard_unescape (s : list Z) : list Z := vcard_unescape_st false s.

(* the text must end with CRLF (last piece empty); every other content line is "name:value", split at the
   first ':' (none of the names used here contains a quoted parameter value) *)
Definition vcard_read (s : list Z) : option (list (list Z * list Z)) :=
  let ls := vcard_content_lines s in
  match last ls [0] with
  | [] => all_some (map (cut_first 58) (removelast ls))
  | _ => None
  end.

(* components of a structured value (ADR, N): split at unescaped ';', unescape each *)
Definition vcard_components (raw : list Z) : list (list Z) := map vcard_unescape (split_esc 59 false raw).

(* ---------------------------------------------------------------------------------------------- *)
(* decimal numbers: -?digits(.digits)?   ->  (negative, mantissa, scale) = +-mantissa / 10^scale *)

Definition is_digit (c : Z) : bool := (48 <=? c) && (c <=? 57).
Definition val_digits (l : list Z) : Z := fold_left (fun a d => 10 * a + (d - 48)) l 0.

Definition parse_unsigned (s : list Z) : option (Z * Z) :=
  match cut_first 46 s with
  | Some (i, f) =>
      if nonempty_b i && forallb is_digit i && nonempty_b f && forallb is_digit f
      then Some (val_digits (i ++ f), Z.of_nat (length f)) else None
  | None => if nonempty_b s && forallb is_digit s then Some (val_digits s, 0) else None
  end.

Definition parse_decimal (s : list Z) : option (bool * Z * Z) :=
  match s with
  | [] => None
  | c :: r =>
    if c =? 45 then match parse_unsigned r with Some (m, sc) => Some (true, m, sc) | None => None end
    else match parse_unsigned s with Some (m, sc) => Some (false, m, sc) | None => None end
  end.

(* ---------------------------------------------------------------------------------------------- *)
(* (c) URIs: percent-decoding (to bytes), strict UTF-8 decoding, mailto / geo structure *)

Definition hexval (c : Z) : option Z :=
  if (48 <=? c) && (c <=? 57) then Some (c - 48)
  else if (65 <=? c) && (c <=? 70) then Some (c - 55)
  else if (97 <=? c) && (c <=? 102) then Some (c - 87)
  else None.

Fixpoint unquote (s : list Z) : list Z :=
  match s with
  | [] => []
  | c :: r =>
    if c =? 37 then
      match r with
      | h :: l :: r' => match hexval h, hexval l with
                        | Some a, Some b => (16 * a + b) :: unquote r'
                        | _, _ => c :: unquote r
                        end
      | _ => c :: unquote r
      end
    else c :: unquote r
  end.

Definition is_cont (b : Z) : bool := (128 <=? b) && (b <? 192).
Definition ocons (c : Z) (o : option (list Z)) : option (list Z) :=
  match o with Some l => Some (c :: l) | None => None end.

(* RFC 3629: shortest form only, no surrogates, at most U+10FFFF *)
Fixpoint utf8_decode (bs : list Z) : option (list Z) :=
  match bs with
  | [] => Some []
  | b0 :: r =>
    if b0 <? 0 then None
    else if b0 <? 128 then ocons b0 (utf8_decode r)
    else if b0 <? 192 then None
    else if b0 <? 224 then
      match r with
      | b1 :: r1 =>
        let c := (b0 - 192) * 64 + (b1 - 128) in
        if is_cont b1 && (128 <=? c) then ocons c (utf8_decode r1) else None
      | _ => None
      end
    else if b0 <? 240 then
      match r with
      | b1 :: b2 :: r2 =>
        let c := (b0 - 224) * 4096 + (b1 - 128) * 64 + (b2 - 128) in
        if is_cont b1 && is_cont b2 && (2048 <=? c) && negb ((55296 <=? c) && (c <=? 57343))
        then ocons c (utf8_decode r2) else None
      | _ => None
      end
    else if b0 <? 248 then
      match r with
      | b1 :: b2 :: b3 :: r3 =>
        let c := (b0 - 240) * 262144 + (b1 - 128) * 4096 + (b2 - 128) * 64 + (b3 - 128) in
        if is_cont b1 && is_cont b2 && is_cont b3 && (65536 <=? c) && (c <? 1114112)
        then ocons c (utf8_decode r3) else None
      | _ => None
      end
    else None
  end.

(* percent-encoded UTF-8 text -> code points *)
Definition uri_text (s : list Z) : option (list Z) := utf8_decode (unquote s).

(* "mailto:" to-part [ "?" key "=" value *( "&" key "=" value ) ]  ->  (raw to-part, [(key, raw value)]) *)
Definition mailto_read (s : list Z) : option (list Z * list (list Z * list Z)) :=
  match strip_prefix [109; 97; 105; 108; 116; 111; 58] s with
  | None => None
  | Some rest =>
    match cut_first 63 rest with
    | None => Some (rest, [])
    | Some (to, query) =>
      match all_some (map (cut_first 61) (split_char 38 query)) with
      | Some kvs => Some (to, kvs)
      | None => None
      end
    end
  end.

(* "geo:" lat "," lon *)
Definition geo_read (s : list Z) : option ((bool * Z * Z) * (bool * Z * Z)) :=
  match strip_prefix [103; 101; 111; 58] s with
  | None => None
  | Some rest =>
    match cut_first 44 rest with
    | Some (a, b) => match parse_decimal a, parse_decimal b with
                     | Some x, Some y => Some (x, y)
                     | _, _ => None
                     end
    | None => None
    end
  end.

(* ---------------------------------------------------------------------------------------------- *)
(* (d) EPC069-12: the payload is a sequence of lines separated by LF *)
Definition epc_read_lines (s : list Z) : list (list Z) := split_char 10 s.

(* "EUR" amount *)
Definition epc_read_amount (line : list Z) : option (bool * Z * Z) :=
  match strip_prefix [69; 85; 82] line with
  | Some r => parse_decimal r
  | None => None
  end.
