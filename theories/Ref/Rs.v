(* Reed-Solomon over GF(256): the field as a ring (no axioms: subset type with decidable bound),
   polynomial evaluation, the LFSR remainder and its correctness for ANY data length, minimum distance
   (>= ec+1) by Vandermonde elimination, and unique decoding within floor(ec/2) errors. *)
From Coq Require Import ZArith List Bool Lia Ring Eqdep_dec Arith.
From Segno Require Import Base.PyLite Ref.IsoData Ref.Gf256.
Import ListNotations.
Open Scope Z_scope.

(* the field as a subset type; equality of elements = equality of the underlying N (bool proofs are unique, no axiom) *)
Definition F := { a : Z | ((0 <=? a) && (a <? 256)) = true }.
Definition val (x:F) : Z := proj1_sig x.
Lemma val_elt x : elt (val x). Proof. destruct x as [a H]. cbn. apply andb_true_iff in H. destruct H as [H1 H2]. apply Z.leb_le in H1. apply Z.ltb_lt in H2. unfold elt; auto. Qed.
Lemma F_eq x y : val x = val y -> x = y.
Proof. destruct x as [a Ha], y as [b Hb]. cbn. intros ->. f_equal. apply (UIP_dec bool_dec). Qed.
Lemma elt_b a : elt a -> ((0 <=? a) && (a <? 256)) = true.
Proof. intros [H1 H2]. apply andb_true_iff. split; [now apply Z.leb_le | now apply Z.ltb_lt]. Qed.
Definition mkF (a:Z) (H: elt a) : F := exist _ a (elt_b a H).
Lemma elt0 : elt 0. Proof. unfold elt; lia. Qed.
Lemma elt1 : elt 1. Proof. unfold elt; lia. Qed.
Definition f0 : F := mkF 0 elt0.
Definition f1 : F := mkF 1 elt1.
Definition fadd (x y:F) : F := mkF (Z.lxor (val x) (val y)) (lxor_elt _ _ (val_elt x) (val_elt y)).
Definition fmul (x y:F) : F := mkF (gmul (val x) (val y)) (gmul_elt _ _ (val_elt x) (val_elt y)).
Lemma F_ring : ring_theory f0 f1 fadd fmul fadd (fun x => x) eq.
Proof. constructor; intros; apply F_eq; cbn.
  - apply Z.lxor_0_l. - apply Z.lxor_comm. - symmetry; apply Z.lxor_assoc.
  - apply gmul_1_l, val_elt. - apply gmul_comm. - apply gmul_assoc; apply val_elt.
  - rewrite (gmul_comm _ (val z)), gmul_distr, !(gmul_comm (val z)); auto using val_elt.
  - reflexivity. - apply Z.lxor_nilpotent. Qed.
Add Ring F_ring_inst : F_ring.
Lemma fmul_integral x y : fmul x y = f0 -> x = f0 \/ y = f0.
Proof. intros H. apply (f_equal val) in H. cbn in H. destruct (gmul_integral _ _ (val_elt x) (val_elt y) H); [left|right]; now apply F_eq. Qed.
Lemma fadd_self x : fadd x x = f0. Proof. apply F_eq. cbn. apply Z.lxor_nilpotent. Qed.

(* polynomials, highest degree first (codeword order) *)
Definition peval_from (acc:F) (p:list F) (x:F) : F := fold_left (fun a c => fadd (fmul a x) c) p acc.
Definition peval p x := peval_from f0 p x.
Fixpoint fpow (x:F) (n:nat) : F := match n with O => f1 | S k => fmul x (fpow x k) end.
Lemma peval_from_app acc p q x : peval_from acc (p ++ q) x = peval_from (peval_from acc p x) q x.
Proof. apply fold_left_app. Qed.
Lemma peval_from_lin acc p x : peval_from acc p x = fadd (fmul acc (fpow x (length p))) (peval_from f0 p x).
Proof. revert acc. induction p as [|c p IH]; intros acc; cbn [peval_from fold_left length fpow].
  - ring.
  - change (fold_left _ p ?a) with (peval_from a p x). rewrite IH. rewrite (IH (fadd (fmul f0 x) c)). ring. Qed.
Fixpoint zipadd (u v : list F) : list F := match u, v with a::u', b::v' => fadd a b :: zipadd u' v' | _, _ => [] end.
Lemma zipadd_length u : forall v, length u = length v -> length (zipadd u v) = length u.
Proof. induction u as [|a u IH]; intros [|b v] H; try discriminate; cbn; auto. Qed.
Lemma peval_zipadd u : forall v x, length u = length v -> peval_from f0 (zipadd u v) x = fadd (peval_from f0 u x) (peval_from f0 v x).
Proof. induction u as [|a u IH]; intros [|b v] x H; try discriminate; cbn [zipadd].
  - cbn. ring.
  - cbn [peval_from fold_left]. change (fold_left _ ?p ?a) with (peval_from a p x).
    rewrite (peval_from_lin (fadd (fmul f0 x) (fadd a b))), (peval_from_lin (fadd (fmul f0 x) a)), (peval_from_lin (fadd (fmul f0 x) b)).
    cbn in H. injection H as H. rewrite IH by auto. rewrite zipadd_length by auto. rewrite H. ring. Qed.
Lemma peval_scale f p x : peval_from f0 (map (fmul f) p) x = fmul f (peval_from f0 p x).
Proof. induction p as [|c p IH] using rev_ind. cbn. ring.
  rewrite map_app, !peval_from_app. cbn [map peval_from fold_left]. change (fold_left _ ?q ?a) with (peval_from a q x). rewrite IH. ring. Qed.

Lemma char2_eq u t : fadd u t = f0 -> t = u.
Proof. intros R. transitivity (fadd t (fadd u u)). rewrite fadd_self. ring. transitivity (fadd (fadd u t) u). ring. rewrite R. ring. Qed.

(* Reed-Solomon remainder as an LFSR; gs = generator coefficients below the (monic) leading one *)
Section RS.
Variable gs : list F.
Definition ec := length gs.
Definition step (r:list F) (d:F) : list F :=
  let f := fadd d (hd f0 r) in zipadd (tl r ++ [f0]) (map (fmul f) gs).
Definition rs_rem (data:list F) : list F := fold_left step data (repeat f0 ec).
Lemma step_length r d : length r = ec -> ec <> O -> length (step r d) = ec.
Proof. intros Hr Hz. unfold step. rewrite zipadd_length; rewrite app_length, map_length || idtac; destruct r; cbn in *; try lia; rewrite ?app_length; cbn; unfold ec in *; lia. Qed.
Variable rho : F.
Hypothesis root : peval_from f1 gs rho = f0.      (* the monic generator vanishes at rho *)
Lemma gs_val : peval_from f0 gs rho = fpow rho ec.
Proof. pose proof root as R. rewrite peval_from_lin in R. fold ec in R.
  apply char2_eq. etransitivity; [|exact R]. ring. Qed.
Lemma step_inv D r d : length r = ec -> ec <> O ->
  peval_from (peval D rho) r rho = f0 -> peval_from (peval (D ++ [d]) rho) (step r d) rho = f0.
Proof. intros Hr Hz Inv. destruct r as [|h t]; [cbn in Hr; lia|]. cbn in Hr.
  unfold step. cbn [hd tl]. set (f:=fadd d h).
  unfold peval. rewrite peval_from_app. cbn [peval_from fold_left]. fold (peval D rho). set (A:=peval D rho) in *.
  rewrite peval_from_lin. rewrite peval_zipadd by (rewrite app_length, map_length; cbn; unfold ec in *; lia).
  rewrite zipadd_length by (rewrite app_length, map_length; cbn; unfold ec in *; lia).
  rewrite peval_scale, gs_val. rewrite !peval_from_app. cbn [peval_from fold_left]. fold (peval_from f0 t rho).
  rewrite app_length. cbn [length].
  cbn [peval_from fold_left] in Inv. fold (peval_from (fadd (fmul A rho) h) t rho) in Inv. rewrite peval_from_lin in Inv.
  assert (Ht: (length t + 1 = ec)%nat) by lia. rewrite Ht.
  replace ec with (S (length t)) by lia. cbn [fpow].
  set (T:=peval_from f0 t rho) in *. set (P:=fpow rho (length t)) in *.
  (* Inv : (A*rho + h)*P + T = 0 ;  goal: (A*rho+d)*(rho*P) + ((0*rho + T)*rho + 0 ... *)
  assert (E: T = fmul (fadd (fmul A rho) h) P) by (apply char2_eq; exact Inv).
  rewrite E. unfold f.
  set (X := fadd (fadd (fmul (fmul (fmul A rho) rho) P) (fmul (fmul d rho) P)) (fmul (fmul h rho) P)).
  transitivity (fadd X X); [unfold X; ring | apply fadd_self]. Qed.

Theorem rs_rem_correct : ec <> O -> forall data, peval (data ++ rs_rem data) rho = f0.
Proof. intros Hz data. unfold rs_rem.
  assert (G: forall D r, length r = ec -> peval_from (peval D rho) r rho = f0 ->
             length (fold_left step data r) = ec /\ peval_from (peval (D ++ data) rho) (fold_left step data r) rho = f0).
  { induction data as [|d data IH]; intros D r Hr Inv; cbn [fold_left].
    - rewrite app_nil_r. auto.
    - replace (D ++ d :: data) with ((D ++ [d]) ++ data) by (now rewrite <- app_assoc).
      apply IH. apply step_length; auto. apply step_inv; auto. }
  destruct (G [] (repeat f0 ec)) as [_ H].
  - apply repeat_length.
  - unfold peval at 1. cbn [peval_from fold_left]. clear. induction ec as [|n IH]; cbn [repeat peval_from fold_left]. reflexivity.
    replace (fadd (fmul f0 rho) f0) with f0 by ring. exact IH.
  - unfold peval at 1. rewrite peval_from_app. exact H. Qed.
End RS.
Print Assumptions rs_rem_correct.

(* power sums  S_k = sum_j e_j * X_j^k  over a list of (locator, value) terms *)
Definition term := (F * F)%type.
Fixpoint psum (ts:list term) (k:nat) : F :=
  match ts with [] => f0 | (X,e)::r => fadd (fmul e (fpow X k)) (psum r k) end.
Definition elim (X0:F) (ts:list term) : list term := map (fun t => (fst t, fmul (snd t) (fadd (fst t) X0))) ts.
Lemma elim_fst X0 ts : map fst (elim X0 ts) = map fst ts.
Proof. unfold elim. rewrite map_map. reflexivity. Qed.
Lemma elim_length X0 ts : length (elim X0 ts) = length ts. Proof. apply map_length. Qed.
Lemma psum_elim X0 ts k : psum (elim X0 ts) k = fadd (psum ts (S k)) (fmul X0 (psum ts k)).
Proof. induction ts as [|[X e] r IH]; cbn [elim map psum fst snd fpow]. ring.
  fold (elim X0 r). rewrite IH. ring. Qed.
Lemma fadd_eq0 x y : fadd x y = f0 -> x = y.
Proof. intros H. symmetry. apply char2_eq. exact H. Qed.

(* Vandermonde by elimination: w distinct locators, w vanishing power sums => all values are zero *)
Theorem vandermonde_zero : forall (w:nat) (ts:list term), length ts = w -> NoDup (map fst ts) ->
  (forall k, (k < w)%nat -> psum ts k = f0) -> Forall (fun t => snd t = f0) ts.
Proof. induction w as [|w IH]; intros ts Hl Hnd Hs.
  - destruct ts; [constructor|discriminate].
  - destruct ts as [|[X0 e0] r]; [discriminate|]. cbn in Hl. injection Hl as Hl.
    cbn [map fst] in Hnd. inversion Hnd as [|? ? Hnotin Hnd']; subst.
    assert (Hr: Forall (fun t => snd t = f0) (elim X0 r)).
    { apply IH. now rewrite elim_length. now rewrite elim_fst.
      intros k Hk. rewrite psum_elim.
      pose proof (Hs (S k) ltac:(lia)) as H1. pose proof (Hs k ltac:(lia)) as H2.
      cbn [psum fpow] in H1, H2.
      (* psum r (S k) + X0 * psum r k  =  (e0 X0^(k+1) + psum r (S k)) + X0 (e0 X0^k + psum r k)  in char 2 *)
      transitivity (fadd (fadd (fmul e0 (fmul X0 (fpow X0 k))) (psum r (S k))) (fmul X0 (fadd (fmul e0 (fpow X0 k)) (psum r k)))).
      - set (u := fmul e0 (fmul X0 (fpow X0 k))).
        transitivity (fadd (fadd (psum r (S k)) (fmul X0 (psum r k))) (fadd u u)). rewrite fadd_self; ring. unfold u; ring.
      - rewrite H1, H2. ring. }
    assert (Hr0: Forall (fun t => snd t = f0) r).
    { rewrite Forall_forall in *. intros [X e] Hin. cbn.
      assert (Hin': In (X, fmul e (fadd X X0)) (elim X0 r)) by (unfold elim; apply in_map_iff; exists (X,e); auto).
      specialize (Hr _ Hin'). cbn in Hr. destruct (fmul_integral _ _ Hr) as [|Hx]; auto.
      exfalso. apply Hnotin. apply fadd_eq0 in Hx. subst X0. apply in_map_iff. exists (X,e); auto. }
    constructor; auto. cbn.
    pose proof (Hs O ltac:(lia)) as H0. cbn [psum fpow] in H0.
    assert (Hp: psum r 0 = f0).
    { clear -Hr0. induction r as [|[X e] r IHr]; cbn [psum fpow]. reflexivity.
      inversion Hr0; subst. cbn in H1. subst e. rewrite IHr by auto. ring. }
    rewrite Hp in H0. rewrite <- H0. ring. Qed.
Print Assumptions vandermonde_zero.

(* ---- from codewords to power sums ---- *)
Definition fis0 (x:F) : bool := Z.eqb (val x) 0.
Lemma fis0_true x : fis0 x = true <-> x = f0.
Proof. unfold fis0. rewrite Z.eqb_eq. split; intros H. now apply F_eq. now subst. Qed.
Lemma fpow_add x a b : fpow x (a + b) = fmul (fpow x a) (fpow x b).
Proof. induction a as [|a IH]; cbn [fpow Nat.add]. ring. rewrite IH. ring. Qed.
Lemma fpow_mul x a b : fpow (fpow x a) b = fpow x (a * b).
Proof. induction b as [|b IH]; cbn [fpow]. now rewrite Nat.mul_0_r. rewrite IH, <- fpow_add. f_equal. lia. Qed.
Lemma fpow_comm x a b : fpow (fpow x a) b = fpow (fpow x b) a.
Proof. rewrite !fpow_mul. f_equal. lia. Qed.

Definition alpha : F := mkF 2 ltac:(unfold elt; lia).
Definition apow (m:nat) : F := fpow alpha m.
(* codeword (highest degree first) -> (locator, value) terms; locator of the coefficient of x^m is alpha^m *)
Fixpoint terms (c:list F) : list term := match c with [] => [] | c0::r => (apow (List.length r), c0) :: terms r end.
Lemma peval_cons c0 r x : peval (c0 :: r) x = fadd (fmul c0 (fpow x (length r))) (peval r x).
Proof. unfold peval. cbn [peval_from fold_left]. change (fold_left _ r ?a) with (peval_from a r x).
  rewrite peval_from_lin. ring. Qed.
Lemma peval_terms c i : peval c (apow i) = psum (terms c) i.
Proof. induction c as [|c0 r IH]. reflexivity. rewrite peval_cons, IH. cbn [terms psum]. unfold apow. now rewrite fpow_comm. Qed.
Lemma terms_length c : length (terms c) = length c. Proof. induction c; cbn; auto. Qed.
Lemma terms_fst c : map fst (terms c) = map apow (rev (seq 0 (length c))).
Proof. induction c as [|c0 r IH]. reflexivity. cbn [terms map fst length]. rewrite seq_S, rev_app_distr. cbn. now rewrite IH. Qed.

(* alpha has order 255: its powers below 255 are pairwise distinct (from the table facts) *)
Lemma apow_val m : (m < 255)%nat -> val (apow m) = gexp (Z.of_nat m).
Proof. induction m as [|m IH]; intros H. reflexivity.
  unfold apow in *. cbn [fpow]. cbn [val fmul mkF proj1_sig]. change (val alpha) with 2. rewrite IH by lia.
  replace (Z.of_nat (S m)) with (Z.of_nat m + 1) by lia. rewrite gexp_succ by lia. reflexivity. Qed.
Lemma apow_inj a b : (a < 255)%nat -> (b < 255)%nat -> apow a = apow b -> a = b.
Proof. intros Ha Hb H. apply (f_equal val) in H. rewrite !apow_val in H by auto.
  apply (f_equal glog) in H. destruct (glog_gexp (Z.of_nat a)) as [E1 _]; [lia|]. destruct (glog_gexp (Z.of_nat b)) as [E2 _]; [lia|].
  rewrite E1, E2 in H. rewrite !Z.mod_small in H by lia. lia. Qed.
Lemma locators_nodup n : (n <= 255)%nat -> NoDup (map apow (rev (seq 0 n))).
Proof. intros Hn. assert (G: forall l, NoDup l -> (forall a, In a l -> (a < 255)%nat) -> NoDup (map apow l)).
  { induction 1 as [|a l Ha Hl IH]; intros Hb; cbn; constructor.
    - intro Hin. apply in_map_iff in Hin. destruct Hin as (b & Hb1 & Hb2).
      apply apow_inj in Hb1; [subst; contradiction| |]; apply Hb; [now right|now left].
    - apply IH. intros; apply Hb; now right. }
  apply G. apply NoDup_rev, seq_NoDup. intros a Ha. rewrite <- in_rev, in_seq in Ha. lia. Qed.

Definition support (ts:list term) := filter (fun t => negb (fis0 (snd t))) ts.
Lemma psum_support ts k : psum (support ts) k = psum ts k.
Proof. induction ts as [|[X e] r IH]; cbn [support filter psum snd]. reflexivity.
  destruct (fis0 e) eqn:E; cbn [negb]. apply fis0_true in E. subst e. fold (support r). rewrite IH. ring.
  cbn [psum]. fold (support r). now rewrite IH. Qed.
Lemma NoDup_map_filter {A B} (f:A->B) (p:A->bool) l : NoDup (map f l) -> NoDup (map f (filter p l)).
Proof. induction l as [|a l IH]; cbn; intros H. constructor. inversion H; subst.
  destruct (p a); cbn; auto. constructor; auto. intro Hin. apply H2. apply in_map_iff in Hin. destruct Hin as (x & Hx & Hin).
  apply filter_In in Hin. apply in_map_iff. exists x. tauto. Qed.
Definition weight (c:list F) : nat := length (filter (fun x => negb (fis0 x)) c).
Lemma support_weight c : length (support (terms c)) = weight c.
Proof. unfold support, weight. induction c as [|c0 r IH]; cbn [terms filter snd]. reflexivity. destruct (fis0 c0); cbn; auto. Qed.

(* Minimum distance > ec: a word of length <= 255 with ec vanishing syndromes and weight <= ec is zero *)
Theorem rs_min_distance (ec:nat) (c:list F) : (length c <= 255)%nat ->
  (forall i, (i < ec)%nat -> peval c (apow i) = f0) -> (weight c <= ec)%nat -> Forall (fun x => x = f0) c.
Proof. intros Hn Hs Hw.
  assert (Hz: Forall (fun t => snd t = f0) (support (terms c))).
  { apply (vandermonde_zero (weight c)). apply support_weight.
    apply NoDup_map_filter. rewrite terms_fst. now apply locators_nodup.
    intros k Hk. rewrite psum_support, <- peval_terms. apply Hs. lia. }
  (* every term of the support is non-zero by construction, so the support is empty *)
  assert (He: support (terms c) = []).
  { destruct (support (terms c)) as [|[X e] r] eqn:E; auto. exfalso.
    assert (Hin: In (X,e) (support (terms c))) by (rewrite E; now left).
    apply filter_In in Hin. destruct Hin as [_ Hne]. cbn in Hne.
    inversion Hz; subst. cbn in H1. subst e. now rewrite (proj2 (fis0_true f0) eq_refl) in Hne. }
  clear -He. induction c as [|c0 r IH]; constructor.
  - cbn [terms support filter snd] in He. destruct (fis0 c0) eqn:E. now apply fis0_true. discriminate.
  - apply IH. cbn [terms support filter snd] in He. destruct (fis0 c0); [exact He|discriminate]. Qed.
Print Assumptions rs_min_distance.

(* ---- unique decoding within floor(ec/2) errors ---- *)
Definition hamming (a b:list F) : nat := weight (zipadd a b).
Lemma peval_add a b x : length a = length b -> peval (zipadd a b) x = fadd (peval a x) (peval b x).
Proof. intros. unfold peval. now apply peval_zipadd. Qed.
Lemma weight_cons x l : weight (x :: l) = ((if fis0 x then 0 else 1) + weight l)%nat.
Proof. unfold weight. cbn [filter]. destruct (fis0 x); reflexivity. Qed.
Lemma fadd_is0 x y : fis0 (fadd x y) = true <-> x = y.
Proof. rewrite fis0_true. split. apply fadd_eq0. intros ->. apply fadd_self. Qed.
Lemma hamming_triangle : forall r c c', length r = length c -> length r = length c' ->
  (hamming c c' <= hamming r c + hamming r c')%nat.
Proof. unfold hamming. induction r as [|x r IH]; intros [|y c] [|z c'] H1 H2; try discriminate; cbn [zipadd]. cbn; lia.
  rewrite !weight_cons. injection H1 as H1. injection H2 as H2. specialize (IH c c' H1 H2).
  destruct (fis0 (fadd y z)) eqn:E1; destruct (fis0 (fadd x y)) eqn:E2; destruct (fis0 (fadd x z)) eqn:E3; try lia.
  apply fadd_is0 in E2, E3. subst. rewrite (proj2 (fadd_is0 z z) eq_refl) in E1. discriminate. Qed.
Lemma zipadd_zero : forall a b, length a = length b -> Forall (fun x => x = f0) (zipadd a b) -> a = b.
Proof. induction a as [|x a IH]; intros [|y b] H HF; try discriminate; auto. cbn [zipadd] in HF. inversion HF; subst.
  f_equal. now apply fadd_eq0. apply IH; auto. Qed.
Definition codeword (ec:nat) (c:list F) : Prop := forall i, (i < ec)%nat -> peval c (apow i) = f0.
Theorem rs_unique_decoding (ec t:nat) (r c c':list F) :
  (length r <= 255)%nat -> length r = length c -> length r = length c' ->
  codeword ec c -> codeword ec c' -> (hamming r c <= t)%nat -> (hamming r c' <= t)%nat -> (2 * t <= ec)%nat -> c = c'.
Proof. intros Hn H1 H2 Hc Hc' Hd Hd' Ht. apply zipadd_zero. congruence.
  apply (rs_min_distance ec).
  - rewrite zipadd_length by congruence. lia.
  - intros i Hi. rewrite peval_add by congruence. rewrite Hc, Hc' by auto. ring.
  - pose proof (hamming_triangle r c c' H1 H2). unfold hamming in *. lia. Qed.
Print Assumptions rs_unique_decoding.
