(* Symbol geometry written from ISO/IEC 18004 clause 6.3 and Annex E (not from segno's code). *)
From Coq Require Import ZArith List Bool Lia.
From Segno Require Import Base.PyLite.
Import ListNotations.
Open Scope Z_scope.

(* versions: M1..M4 = -3..0, QR 1..40 (the numbering the implementation uses) *)
Definition all_versions : list Z := zrange (-3) 41.
Definition is_micro_version (v : Z) : bool := v <? 1.
Definition size_of_version (v : Z) : Z := if 0 <? v then 17 + 4 * v else 9 + 2 * (v + 4).
Definition all_sizes : list Z := map size_of_version all_versions.
Definition is_micro_size (size : Z) : bool := size <? 21.
Definition version_of_size (size : Z) : Z := if size <? 21 then (size - 9) / 2 - 4 else (size - 17) / 4.

(* Annex E by formula: first centre 6, last size-7, evenly spaced (step even, rounded up), n = v/7+2 centres *)
Definition align_centres (v : Z) : list Z :=
  if v <? 2 then [] else
  let n := v / 7 + 2 in
  let step := if v =? 32 then 26 else (v * 4 + n * 2 + 1) / (n * 2 - 2) * 2 in
  let size := 17 + 4 * v in
  6 :: rev (map (fun k => size - 7 - k * step) (zrange 0 (n - 1))).

Definition near (cs : list Z) (x : Z) : option Z := find (fun a => Z.abs (x - a) <=? 2) cs.
(* Some dark? when (i,j) lies in a 5x5 alignment pattern; the three centres that would overlap
   finder patterns carry none *)
Definition in_align (cs : list Z) (i j : Z) : option bool :=
  match near cs i, near cs j with
  | Some a, Some b =>
      let lst := last cs 0 in
      if ((a =? 6) && (b =? 6)) || ((a =? 6) && (b =? lst)) || ((a =? lst) && (b =? 6)) then None
      else Some (negb (Z.max (Z.abs (i - a)) (Z.abs (j - b)) =? 1))
  | _, _ => None
  end.

Inductive mtype := Finder | Separator | Timing | Alignment | Format | Version | DarkModule | Data | Quiet.

Definition mtype_eqb (a b : mtype) : bool :=
  match a, b with
  | Finder, Finder | Separator, Separator | Timing, Timing | Alignment, Alignment | Format, Format
  | Version, Version | DarkModule, DarkModule | Data, Data | Quiet, Quiet => true
  | _, _ => false end.

(* [cs] = align_centres of the version (passed in so that it is computed once per symbol) *)
Definition iso_type (size : Z) (cs : list Z) (i j : Z) : mtype :=
  if negb ((0 <=? i) && (i <? size) && (0 <=? j) && (j <? size)) then Quiet else
  let micro := is_micro_size size in
  let v := version_of_size size in
  let in_finder ci cj := (Z.abs (i - ci) <=? 3) && (Z.abs (j - cj) <=? 3) in
  let in_sep ci cj := (Z.abs (i - ci) <=? 4) && (Z.abs (j - cj) <=? 4) in
  if in_finder 3 3 || (negb micro && (in_finder 3 (size - 4) || in_finder (size - 4) 3)) then Finder else
  if in_sep 3 3 || (negb micro && (in_sep 3 (size - 4) || in_sep (size - 4) 3)) then Separator else
  if micro then
    if (i =? 0) || (j =? 0) then Timing else
    if ((i =? 8) && (1 <=? j) && (j <=? 8)) || ((j =? 8) && (1 <=? i) && (i <=? 8)) then Format else Data
  else
  match in_align cs i j with
  | Some _ => Alignment
  | None =>
    if (i =? 6) || (j =? 6) then Timing else
    if (i =? size - 8) && (j =? 8) then DarkModule else
    if ((i =? 8) && ((j <=? 8) || (size - 8 <=? j))) || ((j =? 8) && ((i <=? 8) || (size - 7 <=? i))) then Format else
    if (7 <=? v) && (((i <? 6) && (size - 11 <=? j) && (j <=? size - 9))
                     || ((j <? 6) && (size - 11 <=? i) && (i <=? size - 9))) then Version
    else Data
  end.

Definition cheb (i j ci cj : Z) : Z := Z.max (Z.abs (i - ci)) (Z.abs (j - cj)).

(* value ISO prescribes for a function-pattern module (None: format/version/data, specified elsewhere) *)
Definition iso_function_value (size : Z) (cs : list Z) (i j : Z) : option bool :=
  match iso_type size cs i j with
  | Finder =>
      let d := if (i <=? 6) && (j <=? 6) then cheb i j 3 3
               else if i <=? 6 then cheb i j 3 (size - 4) else cheb i j (size - 4) 3 in
      Some (negb (d =? 2))
  | Separator => Some false
  | Timing => Some (if is_micro_size size then Z.even (i + j) else Z.even (i + j))
  | Alignment => in_align cs i j
  | DarkModule => Some true
  | _ => None
  end.

(* ISO Figure 25: positions of format bit k (0 = least significant); QR has two copies *)
Definition format_pos_qr_1 (k : Z) : Z * Z :=
  if k <=? 5 then (k, 8) else if k =? 6 then (7, 8) else if k =? 7 then (8, 8)
  else if k =? 8 then (8, 7) else (8, 14 - k).
Definition format_pos_qr_2 (size k : Z) : Z * Z :=
  if k <=? 7 then (8, size - 1 - k) else (size - 15 + k, 8).
Definition format_pos_micro (k : Z) : Z * Z :=
  if k <=? 7 then (k + 1, 8) else (8, 15 - k).
(* ISO Figure 27: version bit k (0 = least significant) *)
Definition version_pos_ll (size k : Z) : Z * Z := (size - 11 + k mod 3, k / 3).
Definition version_pos_ur (size k : Z) : Z * Z := (k / 3, size - 11 + k mod 3).

(* type code as published in segno.consts TYPE_* (documented public values) *)
Definition code_of (t : mtype) (dark : bool) : Z :=
  match t with
  | Finder => if dark then 1536 else 6 | Separator => 8 | Timing => if dark then 3072 else 12
  | Alignment => if dark then 2560 else 10 | Format => if dark then 3584 else 14
  | Version => if dark then 4096 else 16 | DarkModule => 512
  | Data => if dark then 1024 else 4 | Quiet => 18 end.
