(* Independent readers for the text-like output formats, written from the format descriptions
   (not from segno's writers): plain text grids, XBM (X BitMap, C source), XPM3 (X PixMap, C source),
   ANSI/ECMA-48 terminal output (SGR sequences + blanks) and Unicode half-block terminal output.
   A text is a list of code points.  Definitions only. *)
From Coq Require Import ZArith List Bool Lia.
From Coq Require String Ascii.
Import Coq.Strings.String.StringSyntax.
Delimit Scope string_scope with string.
From Segno Require Import Base.PyLite.
Import ListNotations.
Open Scope Z_scope.

Fixpoint asc (s : String.string) : list Z :=
  match s with
  | String.EmptyString => []
  | String.String a r => Z.of_nat (Ascii.nat_of_ascii a) :: asc r
  end.
Arguments asc s%string.

Definition obind {A B} (o : option A) (f : A -> option B) : option B :=
  match o with Some a => f a | None => None end.
Notation "'olet' x <- o ; k" := (obind o (fun x => k)) (at level 200, x pattern, o at level 100, k at level 200).

Fixpoint map_opt {A B} (f : A -> option B) (l : list A) : option (list B) :=
  match l with
  | [] => Some []
  | x :: r => olet y <- f x; olet t <- map_opt f r; Some (y :: t)
  end.

(* ---- lexical helpers ---- *)
Definition is_digit (c : Z) : bool := (48 <=? c) && (c <=? 57).
Definition is_blank (c : Z) : bool := (c =? 32) || (c =? 9).
Definition is_space (c : Z) : bool := is_blank c || (c =? 10) || (c =? 13).

Fixpoint read_digits (l : list Z) (acc : Z) : Z * list Z :=
  match l with
  | c :: r => if is_digit c then read_digits r (10 * acc + (c - 48)) else (acc, l)
  | [] => (acc, [])
  end.
(* an unsigned decimal number; at least one digit *)
Definition read_nat (l : list Z) : option (Z * list Z) :=
  match l with
  | c :: _ => if is_digit c then Some (read_digits l 0) else None
  | [] => None
  end.

Fixpoint strip_prefix (p l : list Z) : option (list Z) :=
  match p, l with
  | [], _ => Some l
  | x :: p', y :: l' => if x =? y then strip_prefix p' l' else None
  | _ :: _, [] => None
  end.
Definition is_prefix (p l : list Z) : bool := match strip_prefix p l with Some _ => true | None => false end.
Definition ends_with (suffix s : list Z) : bool := is_prefix (rev suffix) (rev s).

Fixpoint skip_blanks (l : list Z) : list Z :=
  match l with c :: r => if is_blank c then skip_blanks r else l | [] => [] end.
(* at least one blank *)
Definition blanks1 (l : list Z) : option (list Z) :=
  match l with c :: r => if is_blank c then Some (skip_blanks r) else None | [] => None end.
(* the maximal prefix of non-space characters *)
Fixpoint token (l : list Z) : list Z * list Z :=
  match l with
  | c :: r => if is_space c then ([], l) else let '(t, rest) := token r in (c :: t, rest)
  | [] => ([], [])
  end.
(* the text after the first occurrence of character c *)
Fixpoint after_char (c : Z) (l : list Z) : option (list Z) :=
  match l with [] => None | x :: r => if x =? c then Some r else after_char c r end.

Definition hex_value (c : Z) : option Z :=
  if (48 <=? c) && (c <=? 57) then Some (c - 48)
  else if (97 <=? c) && (c <=? 102) then Some (c - 87)
  else if (65 <=? c) && (c <=? 70) then Some (c - 55) else None.

(* =====================================================================================================
   TXT: every line is a sequence of `light` / `dark` tokens, lines end with LF.  0 = light, 1 = dark.
   The two tokens are parameters of the reader (the format has no header).  A token that matched is
   skipped as a whole (`skip` counts the characters of it still to be passed over). *)
Fixpoint txt_scan (dark light : list Z) (l : list Z) (skip : nat) (cur : list Z) (acc : list (list Z)) : option (list (list Z)) :=
  match l with
  | [] => match skip with
          | O => Some (rev (match cur with [] => acc | _ => rev cur :: acc end))
          | S _ => None end
  | c :: r =>
      match skip with
      | S k => txt_scan dark light r k cur acc
      | O =>
          if is_prefix light l then
            match light with [] => None | _ :: t => txt_scan dark light r (length t) (0 :: cur) acc end
          else if is_prefix dark l then
            match dark with [] => None | _ :: t => txt_scan dark light r (length t) (1 :: cur) acc end
          else if c =? 10 then txt_scan dark light r O [] (rev cur :: acc)
          else None
      end
  end.
Definition read_txt (dark light : list Z) (text : list Z) : option (list (list Z)) :=
  txt_scan dark light text O [] [].

(* =====================================================================================================
   XBM:  #define <name>_width W NL  #define <name>_height H NL  ... { 0x.., 0x.., ... };
   Each row occupies ceil(W/8) bytes; bit k (LSB = 0) of byte j of a row is pixel 8*j + k; 1 = dark (foreground).
   Result: (W, H, rows) with H rows of W pixels; refused unless exactly H * ceil(W/8) bytes are present. *)
Definition read_define (suffix : list Z) (l : list Z) : option (Z * list Z) :=
  olet l1 <- strip_prefix (asc "#define") l;
  olet l2 <- blanks1 l1;
  let '(tok, l3) := token l2 in
  if ends_with suffix tok then
    olet l4 <- blanks1 l3;
    olet nl5 <- read_nat l4;
    let '(n, l5) := nl5 in
    match skip_blanks l5 with
    | 10 :: r => Some (n, r)
    | _ => None
    end
  else None.

Inductive xbm_state := XSep | XZero | XHex (v : option Z) | XEnd.
(* what a character means between two items *)
Definition xbm_sep_step (c : Z) : option xbm_state :=
  if is_space c || (c =? 44) then Some XSep
  else if c =? 48 then Some XZero
  else if c =? 125 then Some XEnd
  else None.
Fixpoint xbm_items (l : list Z) (st : xbm_state) (acc : list Z) : option (list Z) :=
  match l with
  | [] => match st with XEnd => Some (rev acc) | _ => None end
  | c :: r =>
      match st with
      | XSep => olet st' <- xbm_sep_step c; xbm_items r st' acc
      | XZero => if (c =? 120) || (c =? 88) then xbm_items r (XHex None) acc else None
      | XHex v =>
          match hex_value c with
          | Some d => xbm_items r (XHex (Some (16 * (match v with Some x => x | None => 0 end) + d))) acc
          | None =>
              match v with
              | None => None
              | Some b => if b <? 256 then olet st' <- xbm_sep_step c; xbm_items r st' (b :: acc) else None
              end
          end
      | XEnd => if is_space c || (c =? 59) then xbm_items r XEnd acc else None
      end
  end.

Definition byte_bits (v : Z) : list Z := map (fun k => (v / 2 ^ k) mod 2) [0; 1; 2; 3; 4; 5; 6; 7].
Fixpoint xbm_grid (h bpr w : nat) (bytes : list Z) : list (list Z) :=
  match h with
  | O => []
  | S h' => firstn w (flat_map byte_bits (firstn bpr bytes)) :: xbm_grid h' bpr w (skipn bpr bytes)
  end.

Definition read_xbm (text : list Z) : option (Z * Z * list (list Z)) :=
  olet wl <- read_define (asc "_width") text;
  let '(w, l1) := wl in
  olet hl <- read_define (asc "_height") l1;
  let '(h, l2) := hl in
  olet l3 <- after_char 123 l2;
  olet bytes <- xbm_items l3 XSep [];
  let bpr := (w + 7) / 8 in
  if lenZ bytes =? h * bpr
  then Some (w, h, xbm_grid (Z.to_nat h) (Z.to_nat bpr) (Z.to_nat w) bytes)
  else None.

(* =====================================================================================================
   XPM3: a C source starting with the comment /* XPM */ whose string literals are, in this order,
   the values "W H ncolors cpp", ncolors colour entries "<cpp chars> c <colour>", and H pixel rows of W*cpp
   characters.  Result: (W, H, rows) where every pixel is the colour specification of its entry. *)
Inductive c_state := CsOut | CsSlash | CsComment | CsStar | CsStr.
Fixpoint c_strings (l : list Z) (st : c_state) (cur : list Z) (acc : list (list Z)) : option (list (list Z)) :=
  match l with
  | [] => match st with CsOut | CsSlash => Some (rev acc) | _ => None end
  | c :: r =>
      match st with
      | CsOut => if c =? 34 then c_strings r CsStr [] acc
                else if c =? 47 then c_strings r CsSlash [] acc
                else c_strings r CsOut [] acc
      | CsSlash => if c =? 42 then c_strings r CsComment [] acc
                  else if c =? 34 then c_strings r CsStr [] acc
                  else if c =? 47 then c_strings r CsSlash [] acc
                  else c_strings r CsOut [] acc
      | CsComment => if c =? 42 then c_strings r CsStar [] acc else c_strings r CsComment [] acc
      | CsStar => if c =? 47 then c_strings r CsOut [] acc
                 else if c =? 42 then c_strings r CsStar [] acc
                 else c_strings r CsComment [] acc
      | CsStr => if c =? 34 then c_strings r CsOut [] (rev cur :: acc)
                else if (c =? 92) || (c =? 10) then None          (* no escapes / line breaks inside XPM strings *)
                else c_strings r CsStr (c :: cur) acc
      end
  end.

Fixpoint chunks (fuel n : nat) (l : list Z) : list (list Z) :=
  match fuel with
  | O => []
  | S f => match l with [] => [] | _ => firstn n l :: chunks f n (skipn n l) end
  end.
Fixpoint str_eq (a b : list Z) : bool :=
  match a, b with [], [] => true | x :: a', y :: b' => (x =? y) && str_eq a' b' | _, _ => false end.
Fixpoint lookup {A} (k : list Z) (t : list (list Z * A)) : option A :=
  match t with [] => None | (k', v) :: r => if str_eq k k' then Some v else lookup k r end.

(* "<cpp chars> c <colour>" *)
Definition xpm_color_entry (cpp : nat) (s : list Z) : option (list Z * list Z) :=
  if (length s <? cpp)%nat then None else
  olet l1 <- blanks1 (skipn cpp s);
  match l1 with
  | 99 :: l2 => olet col <- blanks1 l2;
                match col with [] => None | _ => Some (firstn cpp s, col) end
  | _ => None
  end.

Definition xpm_values (s : list Z) : option (Z * Z * Z * Z) :=
  olet a <- read_nat (skip_blanks s); let '(w, r1) := a in
  olet r1' <- blanks1 r1;
  olet b <- read_nat r1'; let '(h, r2) := b in
  olet r2' <- blanks1 r2;
  olet c <- read_nat r2'; let '(nc, r3) := c in
  olet r3' <- blanks1 r3;
  olet d <- read_nat r3'; let '(cpp, r4) := d in
  match skip_blanks r4 with [] => Some (w, h, nc, cpp) | _ => None end.

Definition read_xpm (text : list Z) : option (Z * Z * list (list (list Z))) :=
  olet _ <- strip_prefix (asc "/* XPM */") text;
  olet strs <- c_strings text CsOut [] [];
  match strs with
  | [] => None
  | values :: rest =>
      olet v <- xpm_values values;
      let '(w, h, nc, cpp) := v in
      if cpp <? 1 then None else
      let ncn := Z.to_nat nc in let cppn := Z.to_nat cpp in
      if negb (lenZ rest =? nc + h) then None else
      olet table <- map_opt (xpm_color_entry cppn) (firstn ncn rest);
      olet rows <- map_opt (fun s => if lenZ s =? w * cpp
                                     then map_opt (fun k => lookup k table) (chunks (length s) cppn s)
                                     else None) (skipn ncn rest);
      Some (w, h, rows)
  end.

(* =====================================================================================================
   ANSI terminal: the text is what a terminal receives.  Interpreted: LF (next row), SPACE (a blank glyph,
   shown in the current background) and CSI <n> m (select graphic rendition) with n = 0 / none (reset),
   7 (reverse video on), 27 (reverse video off), 49 (default background colour).  No other colour is ever
   selected, so a blank shows the foreground colour when reverse video is on and the background colour
   otherwise.  Convention of the output: a cell is two blanks wide; foreground colour = light module (0),
   background colour = dark module (1). *)
Inductive term_state := TText | TEsc | TCsi (n : option Z).
Fixpoint pair_cells (l : list Z) : option (list Z) :=
  match l with
  | [] => Some []
  | a :: b :: r => if a =? b then olet t <- pair_cells r; Some (a :: t) else None
  | [_] => None
  end.
Definition sgr_apply (n : option Z) (reverse : bool) : option bool :=
  match n with
  | None => Some false
  | Some n => if n =? 0 then Some false else if n =? 7 then Some true else if n =? 27 then Some false
              else if n =? 49 then Some reverse else None
  end.
Fixpoint term_run (l : list Z) (st : term_state) (reverse : bool) (cur : list Z) (acc : list (list Z)) : option (list (list Z)) :=
  match l with
  | [] => match st, cur with TText, [] => Some (rev acc) | _, _ => None end
  | c :: r =>
      match st with
      | TText => if c =? 27 then term_run r TEsc reverse cur acc
                 else if c =? 32 then term_run r TText reverse ((if reverse then 0 else 1) :: cur) acc
                 else if c =? 10 then olet row <- pair_cells (rev cur); term_run r TText reverse [] (row :: acc)
                 else None
      | TEsc => if c =? 91 then term_run r (TCsi None) reverse cur acc else None
      | TCsi n => if is_digit c then term_run r (TCsi (Some (10 * (match n with Some x => x | None => 0 end) + (c - 48)))) reverse cur acc
                  else if c =? 109 then olet rv <- sgr_apply n reverse; term_run r TText rv cur acc
                  else None
      end
  end.
Definition read_terminal (text : list Z) : option (list (list Z)) := term_run text TText false [] [].

(* =====================================================================================================
   Compact terminal: every character shows two vertically stacked cells.  U+2580 inks the upper half,
   U+2584 the lower half, U+2588 both, SPACE none.  Same convention as above: ink (foreground) = light (0),
   no ink (terminal background) = dark (1).  A text of n lines yields 2n rows. *)
Definition half_blocks (c : Z) : option (Z * Z) :=
  if c =? 32 then Some (1, 1)
  else if c =? 9600 then Some (0, 1)
  else if c =? 9604 then Some (1, 0)
  else if c =? 9608 then Some (0, 0)
  else None.
Fixpoint compact_run (l : list Z) (top bottom : list Z) (acc : list (list Z)) : option (list (list Z)) :=
  match l with
  | [] => match top with [] => Some (rev acc) | _ => None end
  | c :: r =>
      if c =? 10 then compact_run r [] [] (rev bottom :: rev top :: acc)
      else olet tb <- half_blocks c; compact_run r (fst tb :: top) (snd tb :: bottom) acc
  end.
Definition read_terminal_compact (text : list Z) : option (list (list Z)) := compact_run text [] [] [].
