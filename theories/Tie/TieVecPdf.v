(* TieVecPdf: the mechanically translated segno.writers.write_pdf (build/gen/SrcVecPdf.v, written by gen/translate_vector.py
   from the current source) is the hand-written model Model/Vector.v write_pdf -- for EVERY matrix (any number of rows of any
   lengths, any cell values), matrix size, scale (int or float), border, dark / light colour of the model's typed domain and
   every compresslevel, ALL error cases included (scale <= 0, negative border, malformed colours: [src_write_pdf_error]).

   Parameters of the translated function (C code, not translated) and what is assumed about them:
   * ext_zlib_compress  -- zlib.compress(data, level): NOTHING is assumed; the model's `deflate` is `fun d => compress d level`;
   * ext_time_strftime, ext_time_timezone -- time.strftime(format), time.timezone: arbitrary; the model's opaque `date` is
                           [pdf_date] = strftime("%Y%m%d%H%M%S") ++ format(tz // 3600, '+03d') ++ "'" ++ format(abs(tz) % 60, '02d')
                           ++ "'" (the format strings are those of the source: a change breaks the bridge); the stamp must be
                           ASCII (the source encodes the Info object as ASCII: UnicodeEncodeError otherwise, the model has no
                           such check);
   * ext_float_repr     -- '{}'.format(x) for the colour operands x = 1 / 255.0 * c (binary64, computed by the kernel:
                           [c255]): assumed to be the model's [pdf_component color_text c] ("0.0", "1.0", the model's own
                           parameter color_text otherwise) and ASCII, for the 256 bytes ([frepr_ok]);
   * ext_q_repr         -- repr of a float given by its exact value: assumed to print the exact decimal expansion
                           (Vector.float_repr) on the floats THIS run prints ([pdf_repr_ok]): y = height + border - 0.5, and for
                           a float scale the scale and the page size.  For an int scale only y ([src_write_pdf_int]).
   The hypotheses are needed only when the call succeeds: [src_write_pdf_gen] asks for them under "pdf_words .. = Ok _".
   f.tell() is the number of bytes written by this call (PySemVec.py_tell): the stream starts at position 0, as
   Model/Vector.v pdf_file assumes. *)
From Coq Require Import String.
From Coq Require Import ZArith QArith List Bool Lia.
From Coq Require PrimFloat.
From Segno Require Import Base.PyLite Base.PySem Base.PySemExt Base.PySemGen Base.PySemIO Base.PySemSeg Base.PySemColor Base.PySemVec.
From Segno Require Import Model.Iter Model.Color Model.Vector.
From Segno Require Lemmas.NetpbmLemmas Lemmas.VectorLemmas Tie.TieColor.
From Segno Require Import Tie.TieUtils Tie.TieUtilsIter Tie.TieWrCommon Tie.TieVecCommon.
From SegnoSrc Require SrcTables.
From SegnoSrc Require Import SrcUtils SrcUtilsIter SrcColor SrcVecCommon SrcVecPdf.
Import ListNotations.
Open Scope Z_scope.

Ltac eval_lit :=
  repeat match goal with
         | |- context [lit ?s] => let v := eval vm_compute in (lit s) in change (lit s) with v
         end.
Ltac norm_app := unfold py_write, py_stream_new; repeat rewrite <- app_assoc; cbn [app].


(* ------------------------------------------------------------------ 5. write_pdf *)
Definition pdf_date (strf : list Z -> list Z) (tz : Z) : str :=
  strf (lit "%Y%m%d%H%M%S") ++ py_fmt_0d true 3 (tz / 3600) ++ [39] ++ py_fmt_0d false 2 (Z.abs tz mod 60) ++ [39].
Definition frepr_ok (ext : py_float -> list Z) (color_text : Z -> str) : Prop :=
  forall c, 0 <= c <= 255 -> ext (c255 c) = pdf_component color_text c /\ all_ascii (pdf_component color_text c).
Definition pdf_repr_ok (ext : Q -> list Z) (w h : Z) (scale : pynum) (border : option Z) : Prop :=
  let b := Iter.get_border w h border in
  repr_ok ext scale /\ repr_ok ext (pn_mul (PInt (w + 2 * b)) scale) /\ repr_ok ext (pn_mul (PInt (h + 2 * b)) scale)
  /\ repr_okq ext (inject_Z (h + b) - (1 # 2)).
Definition pdf_params_ok ext_q ext_f (strf : list Z -> list Z) color_text w h scale border : Prop :=
  pdf_repr_ok ext_q w h scale border /\ frepr_ok ext_f color_text /\ all_ascii (strf (lit "%Y%m%d%H%M%S")).

Import TieColor.

Lemma whb_ok_inv w h scale border W H b : valid_width_height_and_border w h scale border = Ok (W, H, b) ->
  b = Iter.get_border w h border /\ W = pn_mul (PInt (w + 2 * b)) scale /\ H = pn_mul (PInt (h + 2 * b)) scale.
Proof.
  unfold valid_width_height_and_border. destruct (Iter.check_valid_scale scale); cbn [bind]; [|discriminate].
  destruct (Iter.check_valid_border _); cbn [bind]; [|discriminate]. cbv zeta. intros E. inversion E; subst. auto.
Qed.


Lemma ascii_join sep ws : all_ascii sep -> Forall all_ascii ws -> all_ascii (Vector.join sep ws).
Proof.
  intros Hs. induction ws as [|x [|y r] IH]; intros H; [reflexivity| |].
  - now inversion H.
  - inversion H; subst. change (Vector.join sep (x :: y :: r)) with (x ++ sep ++ Vector.join sep (y :: r)).
    repeat apply ascii_app; auto.
Qed.
Lemma ascii_lit_dec (l : list Z) : forallb py_is_ascii l = true -> all_ascii l.
Proof. auto. Qed.
Lemma ascii_pdf_lines ls : Forall all_ascii (flat_map pdf_line_words ls).
Proof.
  induction ls as [|l r IH]; cbn [flat_map]; [constructor|].
  apply Forall_app. split; [|assumption]. unfold pdf_line_words.
  repeat constructor; try apply ascii_dec; reflexivity.
Qed.
Lemma Forall_concat' {A} (P : A -> Prop) (ls : list (list A)) : Forall (Forall P) ls -> Forall P (concat ls).
Proof. induction 1; cbn [concat]; [constructor|]. apply Forall_app. now split. Qed.


Lemma ascii_cons x l : py_is_ascii x = true -> all_ascii l -> all_ascii (x :: l).
Proof. unfold all_ascii. intros Hx Hl. cbn [forallb]. now rewrite Hx, Hl. Qed.
Ltac solve_ascii :=
  first [ solve [reflexivity] |
  repeat match goal with
  | |- all_ascii (_ ++ _) => apply ascii_app
  | |- all_ascii (_ :: _) => apply ascii_cons; [reflexivity|]
  | |- all_ascii [] => reflexivity
  | |- all_ascii (py_str_int _) => apply py_str_int_ascii
  | |- all_ascii (Vector.dec _) => apply ascii_dec
  | |- all_ascii (py_fmt_0d _ _ _) => apply ascii_fmt_0d
  | |- all_ascii (pad0 _ _) => apply ascii_pad0
  | |- all_ascii SrcTables.CREATOR => reflexivity
  | |- all_ascii _ => assumption
  end ].
Ltac eval_str_int :=
  repeat match goal with
         | |- context [py_str_int (Zpos ?p)] => let v := eval vm_compute in (py_str_int (Zpos p)) in change (py_str_int (Zpos p)) with v
         end.


Lemma py_for_cons_next {X S A} (x : X) (r : list X) (body : X -> S -> res (ctl A S)) (s s' : S) :
  body x s = Ok (CNext s') -> py_for (x :: r) body s = py_for r body s'.
Proof. intros H. cbn [py_for]. now rewrite H. Qed.


(* pdf_file with the six positions as arguments (the model computes them with nested lets) *)
Definition pdf_file_at (w h date : str) (graphic : list Z) (p1 p2 p3 p4 p5 p6 : Z) : list Z :=
  let glen := lenZ graphic in
  let object_pos := [p1; p2; p3; p4; p5; p6] in
  pdf_header ++ pdf_obj1 ++ pdf_obj2 ++ pdf_obj3 w h ++ pdf_obj4_head glen ++ graphic ++ pdf_obj4_tail
  ++ pdf_obj5 date
  ++ lit "xref" ++ crlf ++ lit "0 " ++ Vector.dec (lenZ object_pos + 1) ++ crlf ++ lit "0000000000 65535 f" ++ crlf
  ++ flat_map pdf_xref_entry object_pos
  ++ lit "trailer <</Size " ++ Vector.dec (lenZ object_pos + 1) ++ lit "/Root 1 0 R/Info 5 0 R>>" ++ crlf
  ++ lit "startxref" ++ crlf ++ Vector.dec p6 ++ crlf ++ lit "%%EOF" ++ crlf.
Lemma pdf_file_at_eq w h date graphic :
  pdf_file w h date graphic =
  let p1 := lenZ pdf_header in
  let p2 := p1 + lenZ pdf_obj1 in
  let p3 := p2 + lenZ pdf_obj2 in
  let p4 := p3 + lenZ (pdf_obj3 w h) in
  let p5 := p4 + lenZ (pdf_obj4_head (lenZ graphic)) + lenZ graphic + lenZ pdf_obj4_tail in
  let p6 := p5 + lenZ (pdf_obj5 date) in
  pdf_file_at w h date graphic p1 p2 p3 p4 p5 p6.
Proof. reflexivity. Qed.
Lemma tell_app f s : py_tell (f ++ s) = py_tell f + lenZ s.
Proof. unfold py_tell. apply VectorLemmas.lenZ_app. Qed.
Lemma tell_nonneg f : 0 <= py_tell f.
Proof. apply VectorLemmas.lenZ_nonneg. Qed.

Theorem src_write_pdf_gen :
  forall ext_q ext_f strf tz compress color_text matrix w h scale border dark light level,
  ((exists ws, pdf_words color_text matrix w h scale border dark light = Ok ws) ->
   pdf_params_ok ext_q ext_f strf color_text w h scale border) ->
  src_write_pdf ext_q ext_f strf tz compress matrix [w; h] (to_vnum scale) border (to_py_color dark) (option_map to_py_color light) level
  = Vector.write_pdf (fun d => compress d level) color_text matrix w h (pdf_date strf tz) scale border dark light.
Proof.
  intros ext_q ext_f strf tz compress color_text matrix w h scale border dark light level Hok.
  unfold src_write_pdf, Vector.write_pdf, pdf_content. cbv zeta beta.
  rewrite src_valid_whb_v_is_model.
  unfold pdf_words in *.
  destruct (valid_width_height_and_border w h scale border) as [[[W H] b]|e] eqn:Ewhb; cbn [bind whb_v]; [|reflexivity].
  destruct (whb_ok_inv _ _ _ _ _ _ _ Ewhb) as (Hb & HW & HH).
  unfold pdf_params_ok, pdf_repr_ok in Hok. cbv zeta in Hok. rewrite <- Hb, <- HW, <- HH in Hok.
  set (ls := Iter.matrix_to_lines matrix 0 0 (-1 # 1)%Q) in *.
  set (y := (inject_Z (h + b) - (1 # 2))%Q) in *.
  set (PAR := (repr_ok ext_q scale /\ repr_ok ext_q W /\ repr_ok ext_q H /\ repr_okq ext_q y) /\ frepr_ok ext_f color_text
              /\ all_ascii (strf (lit "%Y%m%d%H%M%S"))) in *.
  (* the part after the colours, for any list of commands collected so far *)
  match goal with |- bind ?X1 (fun c => bind ?B (fun t => bind (@?X2 c t) ?R)) = _ => set (rest := R) end.
  assert (Hrest : forall chunks : list (list str),
            Forall (fun ws => ws <> []) chunks -> Forall (Forall all_ascii) chunks -> PAR ->
            rest (map (Vector.join sp) chunks) =
            Ok (pdf_file (pn_text W) (pn_text H) (pdf_date strf tz)
                  (compress (Vector.join sp (concat chunks ++ [lit "1"; lit "0"; lit "0"; lit "1"; Vector.dec b; float_repr y; lit "cm"]
                                               ++ flat_map pdf_line_words ls ++ [lit "S"])) level))).
  { intros chunks Hne Hasc ((Hrs & HrW & HrH & Hry) & Hfr & Hdate). subst rest. cbv beta.
    rewrite src_get_symbol_size_v_unit. cbn [bind].
    match goal with |- context [py_index [?a; ?b0] 1] => change (py_index [a; b0] 1) with (Ok b0) end. cbn [bind].
    change (inject_Z (-1)) with (-1 # 1)%Q. change (inject_Z 0) with 0%Q.
    rewrite lines_tag_is_model. cbn [bind]. fold ls.
    set (cm := [lit "1"; lit "0"; lit "0"; lit "1"; Vector.dec b; float_repr y; lit "cm"]).
    match goal with |- context [py_encode_ascii (py_join [32] ?L)] =>
      assert (HL : L = map (Vector.join [32]) (chunks ++ [cm] ++ map pdf_line_words ls ++ [[lit "S"]])) end.
    { rewrite !map_app, !map_map. cbn [map]. rewrite <- !app_assoc. f_equal. f_equal.
      - f_equal. replace (h + 2 * 0) with h by lia. cbn [py_vnum_add py_vnum_sub py_vnum_bin py_vnum_q].
        fold y. rewrite (vnum_str_flt ext_q y Hry), py_str_int_vdec. unfold cm, sp. eval_lit. cbn [Vector.join]. norm_app. reflexivity.
      - f_equal. apply map_ext. intros l. unfold tag_line. rewrite !vnum_tag_int, !vnum_str_int.
        unfold pdf_line_words, sp. eval_lit. cbn [Vector.join]. norm_app. reflexivity. }
    rewrite HL, py_join_vjoin.
    rewrite join_chunks.
    2:{ repeat (apply Forall_app; split); try assumption.
        - repeat constructor. discriminate.
        - apply Forall_forall. intros ws Hws. apply in_map_iff in Hws. destruct Hws as (l & <- & _). discriminate.
        - repeat constructor. discriminate. }
    rewrite !concat_app. cbn [concat]. rewrite !app_nil_r. rewrite <- flat_map_concat_map.
    set (words := concat chunks ++ cm ++ flat_map pdf_line_words ls ++ [lit "S"]).
    assert (Hw : all_ascii (Vector.join [32] words)).
    { apply ascii_join; [reflexivity|]. unfold words. repeat (apply Forall_app; split).
      - now apply Forall_concat'.
      - unfold cm. repeat constructor; try apply ascii_dec; try apply ascii_float_repr; reflexivity.
      - apply ascii_pdf_lines.
      - repeat constructor. }
    rewrite (py_encode_ascii_ok _ Hw). cbn [bind].
    set (G := compress (Vector.join [32] words) level).
    change (compress (Vector.join sp words) level) with G.
    rewrite (vnum_str_pn ext_q W HrW), (vnum_str_pn ext_q H HrH).
    pose proof (ascii_pn_text W) as HaW. pose proof (ascii_pn_text H) as HaH.
    set (WT := pn_text W) in *. set (HT := pn_text H) in *.
    assert (Hd : all_ascii (strf [37; 89; 37; 109; 37; 100; 37; 72; 37; 77; 37; 83])) by exact Hdate.
    clearbody WT HT G. clear Hw HL.
    unfold py_stream_new.
    match goal with |- context [py_for _ _ (?f, _)] => set (f0 := f) end.
    Ltac obj_step :=
      erewrite py_for_cons_next;
        [|cbv beta iota; cbn [app lenZ length Z.of_nat Pos.of_succ_nat Pos.succ]; eval_str_int;
          rewrite write_string_ok by solve_ascii; cbn [bind]; reflexivity].
    obj_step. match goal with |- context [py_for _ _ (?f, _)] => set (f1 := f) end.
    obj_step. match goal with |- context [py_for _ _ (?f, _)] => set (f2 := f) end.
    obj_step. match goal with |- context [py_for _ _ (?f, _)] => set (f3 := f) end.
    obj_step. match goal with |- context [py_for _ _ (?f, _)] => set (f4 := f) end.
    cbn [py_for]. cbv beta iota.
    set (f5 := py_write (py_write f4 G) _).
    cbn [app lenZ length Z.of_nat Pos.of_succ_nat Pos.succ]. eval_str_int.
    rewrite write_string_ok by solve_ascii. cbn [bind].
    match goal with |- context [py_tell ?f] => match f with f5 ++ _ => set (f6 := f) end end.
    change (6 + 1) with 7. eval_str_int.
    rewrite write_string_ok by solve_ascii. cbn [bind].
    match goal with |- context [py_for _ _ ?f] => set (f7 := f) end.
    change (py_fmt_0d false 5 0) with [48; 48; 48; 48; 48].
    Ltac xref_step :=
      erewrite py_for_cons_next;
        [|cbv beta; rewrite write_string_ok by solve_ascii; cbn [bind]; reflexivity].
    do 6 xref_step. cbn [py_for]. cbv beta iota.
    rewrite write_string_ok by solve_ascii. cbn [bind].
    rewrite write_string_ok by solve_ascii. cbn [bind].
    set (D := pdf_date strf tz).
    assert (E0 : f0 = pdf_header) by reflexivity.
    assert (E1 : f1 = f0 ++ pdf_obj1) by (subst f1; unfold py_write; f_equal).
    assert (E2 : f2 = f1 ++ pdf_obj2) by (subst f2; unfold py_write; f_equal).
    assert (E3 : f3 = f2 ++ pdf_obj3 WT HT).
    { subst f3. unfold py_write, pdf_obj3, crlf, sp. eval_lit. f_equal; repeat rewrite <- app_assoc; try reflexivity. }
    assert (E4 : f4 = f3 ++ pdf_obj4_head (lenZ G)).
    { subst f4. unfold py_write, pdf_obj4_head, crlf. eval_lit. rewrite py_str_int_vdec. f_equal; repeat rewrite <- app_assoc; try reflexivity. }
    assert (E5 : f5 = (f4 ++ G) ++ pdf_obj4_tail) by (subst f5; reflexivity).
    assert (E6 : f6 = f5 ++ pdf_obj5 D).
    { subst f6. unfold pdf_obj5, D, pdf_date, Vector.CREATOR, SrcTables.CREATOR, crlf. eval_lit. f_equal; repeat rewrite <- app_assoc; try reflexivity. }
    assert (E7 : f7 = f6 ++ lit "xref" ++ crlf ++ lit "0 " ++ [55] ++ crlf ++ lit "0000000000 65535 f" ++ crlf).
    { subst f7. unfold py_write. f_equal. }
    clearbody f7 f6 f5 f4 f3 f2 f1 f0.
    rewrite !fmt_0d_pad0 by apply tell_nonneg. rewrite py_str_int_vdec.
    rewrite pdf_file_at_eq. cbv zeta.
    assert (P0 : lenZ pdf_header = py_tell f0) by (now rewrite E0).
    assert (P1 : py_tell f0 + lenZ pdf_obj1 = py_tell f1) by (now rewrite E1, tell_app).
    assert (P2 : py_tell f1 + lenZ pdf_obj2 = py_tell f2) by (now rewrite E2, tell_app).
    assert (P3 : py_tell f2 + lenZ (pdf_obj3 WT HT) = py_tell f3) by (now rewrite E3, tell_app).
    assert (P5 : py_tell f3 + lenZ (pdf_obj4_head (lenZ G)) + lenZ G + lenZ pdf_obj4_tail = py_tell f5)
      by (now rewrite E5, E4, !tell_app).
    assert (P6 : py_tell f5 + lenZ (pdf_obj5 D) = py_tell f6) by (now rewrite E6, tell_app).
    fold D. rewrite P0, P1, P2, P3, P5, P6.
    f_equal. unfold pdf_file_at. cbv zeta. cbn [flat_map]. unfold pdf_xref_entry.
    match goal with |- context [lenZ [?a; ?b0; ?c; ?d; ?e; ?g]] => change (lenZ [a; b0; c; d; e; g] + 1) with 7 end.
    change (Vector.dec 7) with [55].
    rewrite E7, E6, E5, E4, E3, E2, E1, E0.
    unfold crlf. eval_lit. change (Z.to_nat 10) with 10%nat.
    repeat rewrite <- app_assoc. cbn [app]. reflexivity. }
  clearbody rest.
  (* the command of a colour, the scale command *)
  set (colcmd := fun (r g b0 : Z) (op : str) => [pdf_component color_text r; pdf_component color_text g; pdf_component color_text b0; op]).
  set (sccmds := if pn_ne_one scale then [[pn_text scale; lit "0"; lit "0"; pn_text scale; lit "0"; lit "0"; lit "cm"]] else []).
  assert (Hsc_ne : Forall (fun ws : list str => ws <> []) sccmds) by (unfold sccmds; destruct (pn_ne_one scale); repeat constructor; discriminate).
  assert (Hsc_as : Forall (Forall all_ascii) sccmds).
  { unfold sccmds; destruct (pn_ne_one scale); repeat constructor; try apply ascii_pn_text; reflexivity. }
  destruct light as [cl|]; cbn [option_map].
  - rewrite src_to_floats_is_model.
    destruct (color_to_rgb cl) as [rgbl|e] eqn:El; cbn [bind]; [|reflexivity].
    destruct (rgb3 cl rgbl El) as (lr & lg & lb & -> & Hlr & Hlg & Hlb).
    cbn [map].
    change (nthZ [c255 lr; c255 lg; c255 lb] 0) with (Ok (c255 lr)).
    change (nthZ [c255 lr; c255 lg; c255 lb] 1) with (Ok (c255 lg)).
    change (nthZ [c255 lr; c255 lg; c255 lb] 2) with (Ok (c255 lb)). cbn [bind].
    rewrite src_color_is_black_is_model. cbn [bind].
    destruct (color_is_black dark) eqn:Eblk; cbn [negb bind].
    +
      assert (HP : PAR) by (apply Hok; eexists; cbn [bind]; reflexivity).
      pose proof HP as ((Hrs & HrW & HrH & Hry) & Hfr & Hdate).
      rewrite vnum_ne_one.
      match goal with |- rest ?C = _ => replace C with (map (Vector.join sp) ([colcmd lr lg lb (lit "rg"); [lit "0"; lit "0"; pn_text W; pn_text H; lit "re"]; [lit "f"; lit "q"]] ++ sccmds)) end.
      2:{ unfold sccmds, colcmd. rewrite ?(vnum_str_pn ext_q _ Hrs), ?(vnum_str_pn ext_q W HrW), ?(vnum_str_pn ext_q H HrH).
          rewrite (proj1 (Hfr lr Hlr)), (proj1 (Hfr lg Hlg)), (proj1 (Hfr lb Hlb)).
          destruct (pn_ne_one scale); unfold sp; eval_lit; cbn [map Vector.join app]; norm_app; reflexivity. }
      rewrite Hrest; [| | |exact HP].
      * do 4 f_equal. unfold sccmds, colcmd. destruct (pn_ne_one scale); cbn [concat app]; reflexivity.
      * repeat (apply Forall_app; split); try exact Hsc_ne; repeat constructor; discriminate.
      * repeat match goal with
               | |- Forall _ (_ ++ _) => apply Forall_app; split
               | |- Forall _ sccmds => exact Hsc_as
               | |- Forall _ (_ :: _) => constructor
               | |- Forall _ [] => constructor
               | |- Forall _ (colcmd _ _ _ _) => unfold colcmd
               | |- all_ascii (pdf_component _ _) => apply Hfr; assumption
               | |- all_ascii (pn_text _) => apply ascii_pn_text
               | |- all_ascii _ => reflexivity
               end.
    +
      rewrite src_to_floats_is_model.
      destruct (color_to_rgb dark) as [rgbd|e] eqn:Ed; cbn [bind]; [|reflexivity].
      destruct (rgb3 dark rgbd Ed) as (dr & dg & db & -> & Hdr & Hdg & Hdb).
      cbn [map].
      change (nthZ [c255 dr; c255 dg; c255 db] 0) with (Ok (c255 dr)).
      change (nthZ [c255 dr; c255 dg; c255 db] 1) with (Ok (c255 dg)).
      change (nthZ [c255 dr; c255 dg; c255 db] 2) with (Ok (c255 db)). cbn [bind].
      assert (HP : PAR) by (apply Hok; eexists; cbn [bind]; reflexivity).
      pose proof HP as ((Hrs & HrW & HrH & Hry) & Hfr & Hdate).
      rewrite vnum_ne_one.
      match goal with |- rest ?C = _ => replace C with (map (Vector.join sp) ([colcmd lr lg lb (lit "rg"); [lit "0"; lit "0"; pn_text W; pn_text H; lit "re"]; [lit "f"; lit "q"]] ++ sccmds ++ [colcmd dr dg db (lit "RG")])) end.
      2:{ unfold sccmds, colcmd. rewrite ?(vnum_str_pn ext_q _ Hrs), ?(vnum_str_pn ext_q W HrW), ?(vnum_str_pn ext_q H HrH).
          rewrite (proj1 (Hfr lr Hlr)), (proj1 (Hfr lg Hlg)), (proj1 (Hfr lb Hlb)). rewrite (proj1 (Hfr dr Hdr)), (proj1 (Hfr dg Hdg)), (proj1 (Hfr db Hdb)).
          destruct (pn_ne_one scale); unfold sp; eval_lit; cbn [map Vector.join app]; norm_app; reflexivity. }
      rewrite Hrest; [| | |exact HP].
      * do 4 f_equal. unfold sccmds, colcmd. destruct (pn_ne_one scale); cbn [concat app]; reflexivity.
      * repeat (apply Forall_app; split); try exact Hsc_ne; repeat constructor; discriminate.
      * repeat match goal with
               | |- Forall _ (_ ++ _) => apply Forall_app; split
               | |- Forall _ sccmds => exact Hsc_as
               | |- Forall _ (_ :: _) => constructor
               | |- Forall _ [] => constructor
               | |- Forall _ (colcmd _ _ _ _) => unfold colcmd
               | |- all_ascii (pdf_component _ _) => apply Hfr; assumption
               | |- all_ascii (pn_text _) => apply ascii_pn_text
               | |- all_ascii _ => reflexivity
               end.
  - rewrite src_color_is_black_is_model. cbn [bind].
    destruct (color_is_black dark) eqn:Eblk; cbn [negb bind].
    +
      assert (HP : PAR) by (apply Hok; eexists; cbn [bind]; reflexivity).
      pose proof HP as ((Hrs & HrW & HrH & Hry) & Hfr & Hdate).
      rewrite vnum_ne_one.
      match goal with |- rest ?C = _ => replace C with (map (Vector.join sp) (sccmds)) end.
      2:{ unfold sccmds, colcmd. rewrite ?(vnum_str_pn ext_q _ Hrs), ?(vnum_str_pn ext_q W HrW), ?(vnum_str_pn ext_q H HrH).
          
          destruct (pn_ne_one scale); unfold sp; eval_lit; cbn [map Vector.join app]; norm_app; reflexivity. }
      rewrite Hrest; [| | |exact HP].
      * do 4 f_equal. unfold sccmds, colcmd. destruct (pn_ne_one scale); cbn [concat app]; reflexivity.
      * repeat (apply Forall_app; split); try exact Hsc_ne; repeat constructor; discriminate.
      * repeat match goal with
               | |- Forall _ (_ ++ _) => apply Forall_app; split
               | |- Forall _ sccmds => exact Hsc_as
               | |- Forall _ (_ :: _) => constructor
               | |- Forall _ [] => constructor
               | |- Forall _ (colcmd _ _ _ _) => unfold colcmd
               | |- all_ascii (pdf_component _ _) => apply Hfr; assumption
               | |- all_ascii (pn_text _) => apply ascii_pn_text
               | |- all_ascii _ => reflexivity
               end.
    +
      rewrite src_to_floats_is_model.
      destruct (color_to_rgb dark) as [rgbd|e] eqn:Ed; cbn [bind]; [|reflexivity].
      destruct (rgb3 dark rgbd Ed) as (dr & dg & db & -> & Hdr & Hdg & Hdb).
      cbn [map].
      change (nthZ [c255 dr; c255 dg; c255 db] 0) with (Ok (c255 dr)).
      change (nthZ [c255 dr; c255 dg; c255 db] 1) with (Ok (c255 dg)).
      change (nthZ [c255 dr; c255 dg; c255 db] 2) with (Ok (c255 db)). cbn [bind].
      assert (HP : PAR) by (apply Hok; eexists; cbn [bind]; reflexivity).
      pose proof HP as ((Hrs & HrW & HrH & Hry) & Hfr & Hdate).
      rewrite vnum_ne_one.
      match goal with |- rest ?C = _ => replace C with (map (Vector.join sp) (sccmds ++ [colcmd dr dg db (lit "RG")])) end.
      2:{ unfold sccmds, colcmd. rewrite ?(vnum_str_pn ext_q _ Hrs), ?(vnum_str_pn ext_q W HrW), ?(vnum_str_pn ext_q H HrH).
          rewrite (proj1 (Hfr dr Hdr)), (proj1 (Hfr dg Hdg)), (proj1 (Hfr db Hdb)).
          destruct (pn_ne_one scale); unfold sp; eval_lit; cbn [map Vector.join app]; norm_app; reflexivity. }
      rewrite Hrest; [| | |exact HP].
      * do 4 f_equal. unfold sccmds, colcmd. destruct (pn_ne_one scale); cbn [concat app]; reflexivity.
      * repeat (apply Forall_app; split); try exact Hsc_ne; repeat constructor; discriminate.
      * repeat match goal with
               | |- Forall _ (_ ++ _) => apply Forall_app; split
               | |- Forall _ sccmds => exact Hsc_as
               | |- Forall _ (_ :: _) => constructor
               | |- Forall _ [] => constructor
               | |- Forall _ (colcmd _ _ _ _) => unfold colcmd
               | |- all_ascii (pdf_component _ _) => apply Hfr; assumption
               | |- all_ascii (pn_text _) => apply ascii_pn_text
               | |- all_ascii _ => reflexivity
               end.
Qed.

Theorem src_write_pdf_is_model :
  forall ext_q ext_f strf tz compress color_text matrix w h scale border dark light level,
  pdf_repr_ok ext_q w h scale border -> frepr_ok ext_f color_text -> all_ascii (strf (lit "%Y%m%d%H%M%S")) ->
  src_write_pdf ext_q ext_f strf tz compress matrix [w; h] (to_vnum scale) border (to_py_color dark) (option_map to_py_color light) level
  = Vector.write_pdf (fun d => compress d level) color_text matrix w h (pdf_date strf tz) scale border dark light.
Proof. intros. apply src_write_pdf_gen. intros _. split; [assumption|split; assumption]. Qed.

(* an int scale: the only float printed through ext_q_repr is y = height + border - 0.5 *)
Corollary src_write_pdf_int :
  forall ext_q ext_f strf tz compress color_text matrix w h (s : Z) border dark light level,
  repr_okq ext_q (inject_Z (h + Iter.get_border w h border) - (1 # 2)) -> frepr_ok ext_f color_text ->
  all_ascii (strf (lit "%Y%m%d%H%M%S")) ->
  src_write_pdf ext_q ext_f strf tz compress matrix [w; h] (PVInt s) border (to_py_color dark) (option_map to_py_color light) level
  = Vector.write_pdf (fun d => compress d level) color_text matrix w h (pdf_date strf tz) (PInt s) border dark light.
Proof.
  intros. apply (src_write_pdf_is_model _ _ _ _ _ _ _ _ _ (PInt s)); try assumption.
  unfold pdf_repr_ok. cbv zeta. cbn [pn_mul repr_ok]. repeat split. assumption.
Qed.

(* every error case, without any hypothesis about the parameters: invalid scale / border, malformed colours *)
Corollary src_write_pdf_error :
  forall ext_q ext_f strf tz compress color_text matrix w h scale border dark light level e,
  pdf_words color_text matrix w h scale border dark light = Err e ->
  src_write_pdf ext_q ext_f strf tz compress matrix [w; h] (to_vnum scale) border (to_py_color dark) (option_map to_py_color light) level
  = Err e.
Proof.
  intros ext_q ext_f strf tz compress color_text matrix w h scale border dark light level e He.
  rewrite (src_write_pdf_gen ext_q ext_f strf tz compress color_text).
  - unfold Vector.write_pdf, pdf_content. now rewrite He.
  - intros [ws Hws]. congruence.
Qed.

Lemma valid_whb_err_gen w h scale border e : valid_width_height_and_border w h scale border = Err e -> e = ValueError.
Proof.
  unfold valid_width_height_and_border, Iter.check_valid_scale, Iter.check_valid_border.
  destruct (q_lebz (q_of scale) 0); cbn [bind]; [intros E; now inversion E|].
  destruct border as [b|]; cbn [option_map bind]; [|discriminate].
  destruct (negb _ || _); cbn [bind]; [intros E; now inversion E|discriminate].
Qed.

(* ... and the only exception is ValueError *)
Corollary src_write_pdf_raises_only_ValueError :
  forall color_text matrix w h scale border dark light e,
  pdf_words color_text matrix w h scale border dark light = Err e -> e = ValueError.
Proof.
  intros color_text matrix w h scale border dark light e. unfold pdf_words.
  destruct (valid_width_height_and_border w h scale border) as [[[W H] b]|e0] eqn:Ewhb; cbn [bind].
  - destruct light as [cl|].
    + destruct (color_to_rgb cl) as [rgb|e1] eqn:El; cbn [bind].
      * destruct (color_is_black dark); cbn [bind]; [discriminate|].
        destruct (color_to_rgb dark) as [rgbd|e2] eqn:Ed; cbn [bind]; [discriminate|].
        intros E; inversion E; subst. eapply NetpbmLemmas.color_to_rgb_err; eassumption.
      * intros E; inversion E; subst. eapply NetpbmLemmas.color_to_rgb_err; eassumption.
    + cbn [bind]. destruct (color_is_black dark); cbn [bind]; [discriminate|].
      destruct (color_to_rgb dark) as [rgbd|e2] eqn:Ed; cbn [bind]; [discriminate|].
      intros E; inversion E; subst. eapply NetpbmLemmas.color_to_rgb_err; eassumption.
  - intros E; inversion E; subst. eapply valid_whb_err_gen; eassumption.
Qed.

Print Assumptions src_write_pdf_gen.
Print Assumptions src_write_pdf_is_model.
Print Assumptions src_write_pdf_int.
Print Assumptions src_write_pdf_error.
Print Assumptions src_write_pdf_raises_only_ValueError.
