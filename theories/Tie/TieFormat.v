(* Bridge theorems: calc_format_info of segno/encoder.py, translated statement by statement from the CURRENT source
   (SegnoSrc.SrcFormat, written by gen/translate.py with the Python semantics of Base/PySem.v), equal the hand-written
   model.  Re-checked by coqc on every run: a change of the Python source changes the generated file, and a change
   of behaviour breaks the theorem.  The proofs case-split on the comparisons instead of relying on syntactic
   equality, so behaviour-preserving rewrites of the source do not break them.  See DESIGN.md 11.7. *)
From Coq Require Import String.
From Coq Require Import ZArith List Bool Lia ZifyBool.
From Segno Require Import Base.PyLite Base.PySem Ref.IsoData Model.Bits Model.Segment Model.Version Model.Stream Model.Matrix Model.Encode.
From Segno Require Tie.TieTables.
From Segno Require Import Tie.TieBase.
From SegnoSrc Require SrcTables.
From SegnoSrc Require Import SrcFormat.
Import ListNotations.
Open Scope Z_scope.

(* ------------------------------------------------------------------ 2. calc_format_info *)
Lemma micro_level_codes_nonneg :
  forallb (fun vr => forallb (fun ke => 0 <=? snd ke) (snd vr)) ERROR_LEVEL_TO_MICRO_MAPPING = true.
Proof. vm_compute. reflexivity. Qed.

Lemma micro_level_code_nonneg version row error e :
  getZ version ERROR_LEVEL_TO_MICRO_MAPPING = Ok row -> getOZ error row = Ok e -> 0 <= e.
Proof.
  unfold getZ, getOZ. intros Hrow He.
  destruct (assocZ version ERROR_LEVEL_TO_MICRO_MAPPING) as [row'|] eqn:Hr; [|discriminate].
  injection Hrow as ->. apply assocZ_In' in Hr.
  destruct (assocOZ error row) as [e'|] eqn:Hl; [|discriminate].
  injection He as ->. apply assocOZ_In' in Hl. destruct Hl as [k Hk].
  pose proof micro_level_codes_nonneg as H. rewrite forallb_forall in H. specialize (H _ Hr).
  cbn [snd] in H. rewrite forallb_forall in H. specialize (H _ Hk). cbn [snd] in H. lia.
Qed.

(* guard: Python's negative indices wrap around (FORMAT_INFO[-1] is the last entry) while the model's [nthZ]
   rejects them, so the two agree for mask patterns >= 0 (normalize_mask admits 0..7 only). *)
Theorem src_calc_format_info_is_model : forall (version : Z) (error : option Z) (mask : Z),
  0 <= mask ->
  src_calc_format_info version error mask = Matrix.calc_format_info version error mask.
Proof.
  intros version error mask Hmask. unfold src_calc_format_info, Matrix.calc_format_info. tie_tables.
  cbv zeta. rewrite Z.gtb_ltb. destruct (0 <? version) eqn:Ev.
  - unfold oz_eqb, ERROR_LEVEL_L, ERROR_LEVEL_H, ERROR_LEVEL_Q.
    destruct error as [e|].
    + destruct (e =? 1) eqn:E1; [|destruct (e =? 2) eqn:E2; [|destruct (e =? 3) eqn:E3]];
        (rewrite py_index_nonneg by lia);
        match goal with |- context [nthZ ?l ?i] => destruct (nthZ l i) as [fi|ex] eqn:Hfi end;
        cbn [bind]; rewrite ?Z.add_0_r in *; congruence.
    + rewrite py_index_nonneg by lia. rewrite Z.add_0_r.
      destruct (nthZ FORMAT_INFO mask) as [fi|ex]; reflexivity.
  - destruct (getZ version ERROR_LEVEL_TO_MICRO_MAPPING) as [row|ex] eqn:Hrow; cbn [bind]; [|reflexivity].
    destruct (getOZ error row) as [e|ex] eqn:He; cbn [bind]; [|reflexivity].
    pose proof (micro_level_code_nonneg _ _ _ _ Hrow He) as Hnn.
    assert (0 <= Z.shiftl e 2) by (apply Z.shiftl_nonneg; lia).
    rewrite py_index_nonneg by lia.
    destruct (nthZ FORMAT_INFO_MICRO (mask + Z.shiftl e 2)) as [fi|ex]; reflexivity.
Qed.

Print Assumptions src_calc_format_info_is_model.
