(* Bridge: the mechanically translated API layer of segno/__init__.py (build/gen/SrcApiQr.v, gen/translate_api.py): QRCode.__init__,
   make / make_qr / make_micro / make_sequence (argument plumbing), the properties and methods of QRCode.
   ROUTE EQUALITIES on the translated code, for all arguments / all keyword dictionaries: which arguments a wrapper forwards and
   which it fixes; QRCode.save = writers.save; png_data_uri / svg_data_uri / svg_inline against what save() writes with the same
   keyword arguments.  (The composition of make* with the model of encode() is in Tie/TieApiMake.v.) *)
From Coq Require Import ZArith QArith List Bool Lia String.
From Segno Require Import Base.PyLite Base.PySem Base.PySemExt Base.PySemGen Base.PySemIO Base.PySemColor Base.PySemVec Base.PySemSvg
  Base.PySemRoute Base.PySemApi Ref.IsoData Model.Color Model.Route.
From Segno Require Model.Iter Tie.TieUtils.
From Segno Require Import Tie.TieApiUri.
From SegnoSrc Require SrcTables SrcFit SrcMode SrcUtils SrcUtilsIter SrcUtilsVerbose SrcEncodeTop SrcWrText SrcApiUri SrcApiQr.
Import ListNotations.
Open Scope Z_scope.

Lemma bind_ret' {A} (r : res A) : (do x <- r; Ok x) = r.
Proof. now destruct r. Qed.

(* ------------------------------------------------------------------ QRCode.__init__ *)
(* the object QRCode(code) is: the six slots, from the fields of the namedtuple encoder.Code; IndexError for an empty matrix *)
Theorem src_QRCode_init_spec (matrix : list (list Z)) (version : Z) (error : option Z) (mask : Z) (segments : py_segs) :
  SrcApiQr.src_QRCode_init (matrix, version, error, mask, segments)
  = do row0 <- py_index matrix 0;
    do mode <- (if lenZ (segs_segments segments) =? 1
                then do s <- py_index (segs_segments segments) 0; Ok (Some (seg_mode s)) else Ok None);
    Ok {| qr_matrix := matrix; qr_mask := mask; qr__version := version; qr__error := error; qr__mode := mode;
          qr__matrix_size := [lenZ row0; lenZ matrix] |}.
Proof. reflexivity. Qed.

(* ------------------------------------------------------------------ make, make_qr, make_micro, make_sequence *)
Section Make.
  Variable ext_eci : option String.string -> res Z.
  Variable ext_eval : list (list Z) -> Z -> Z -> res Z.

  (* make(..) = QRCode(encoder.encode(..)): all nine arguments forwarded, in this order *)
  Theorem src_make_bytes_spec content error version mode mask encoding eci micro boost_error :
    SrcApiQr.src_make_bytes ext_eci ext_eval content error version mode mask encoding eci micro boost_error
    = do code <- SrcEncodeTop.src_encode_bytes ext_eci ext_eval content error version mode mask encoding eci micro boost_error;
      SrcApiQr.src_QRCode_init code.
  Proof. unfold SrcApiQr.src_make_bytes. destruct (SrcEncodeTop.src_encode_bytes _ _ _ _ _ _ _ _ _ _ _); [apply bind_ret'|reflexivity]. Qed.
  Theorem src_make_items_spec content error version mode mask encoding eci micro boost_error :
    SrcApiQr.src_make_items ext_eci ext_eval content error version mode mask encoding eci micro boost_error
    = do code <- SrcEncodeTop.src_encode_items ext_eci ext_eval content error version mode mask encoding eci micro boost_error;
      SrcApiQr.src_QRCode_init code.
  Proof. unfold SrcApiQr.src_make_items. destruct (SrcEncodeTop.src_encode_items _ _ _ _ _ _ _ _ _ _ _); [apply bind_ret'|reflexivity]. Qed.

  (* make_qr(args) = make(args with micro=False) *)
  Theorem src_make_qr_bytes_is_make content error version mode mask encoding eci boost_error :
    SrcApiQr.src_make_qr_bytes ext_eci ext_eval content error version mode mask encoding eci boost_error
    = SrcApiQr.src_make_bytes ext_eci ext_eval content error version mode mask encoding eci (Some false) boost_error.
  Proof. unfold SrcApiQr.src_make_qr_bytes. apply bind_ret'. Qed.
  Theorem src_make_qr_items_is_make content error version mode mask encoding eci boost_error :
    SrcApiQr.src_make_qr_items ext_eci ext_eval content error version mode mask encoding eci boost_error
    = SrcApiQr.src_make_items ext_eci ext_eval content error version mode mask encoding eci (Some false) boost_error.
  Proof. unfold SrcApiQr.src_make_qr_items. apply bind_ret'. Qed.

  (* make_micro(args) = make(args with micro=True); make_micro has no `eci` parameter: make's default False *)
  Theorem src_make_micro_bytes_is_make content error version mode mask encoding boost_error :
    SrcApiQr.src_make_micro_bytes ext_eci ext_eval content error version mode mask encoding boost_error
    = SrcApiQr.src_make_bytes ext_eci ext_eval content error version mode mask encoding false (Some true) boost_error.
  Proof. unfold SrcApiQr.src_make_micro_bytes. apply bind_ret'. Qed.
  Theorem src_make_micro_items_is_make content error version mode mask encoding boost_error :
    SrcApiQr.src_make_micro_items ext_eci ext_eval content error version mode mask encoding boost_error
    = SrcApiQr.src_make_items ext_eci ext_eval content error version mode mask encoding false (Some true) boost_error.
  Proof. unfold SrcApiQr.src_make_micro_items. apply bind_ret'. Qed.
End Make.

(* make_sequence(..) = QRCodeSequence(map(QRCode, encoder.encode_sequence(..))): seven arguments forwarded by keyword, `eci` is not
   (encode_sequence's default False); the items in order, the first exception wins *)
Theorem src_make_sequence_bytes_spec ext_encode_sequence content error version mode mask encoding boost_error symbol_count :
  SrcApiQr.src_make_sequence_bytes ext_encode_sequence content error version mode mask encoding boost_error symbol_count
  = do codes <- ext_encode_sequence content error version mode mask encoding false boost_error symbol_count;
    pya_map_res SrcApiQr.src_QRCode_init codes.
Proof. unfold SrcApiQr.src_make_sequence_bytes. destruct (ext_encode_sequence _ _ _ _ _ _ _ _ _); [apply bind_ret'|reflexivity]. Qed.

(* ------------------------------------------------------------------ properties, symbol_size, matrix_iter *)
Theorem src_QRCode_is_micro_spec self : SrcApiQr.src_QRCode_is_micro self = Ok (qr__version self <? 1).
Proof. reflexivity. Qed.

Theorem src_QRCode_default_border_size_spec self :
  SrcApiQr.src_QRCode_default_border_size self = SrcUtils.src_get_default_border_size (qr__matrix_size self).
Proof. unfold SrcApiQr.src_QRCode_default_border_size. apply bind_ret'. Qed.
Corollary src_QRCode_default_border_size_is_model self w h :
  qr__matrix_size self = [w; h] -> SrcApiQr.src_QRCode_default_border_size self = Ok (Iter.get_default_border_size w h).
Proof. intros H. rewrite src_QRCode_default_border_size_spec, H. apply TieUtils.src_get_default_border_size_is_model. Qed.

Theorem src_QRCode_mode_spec self :
  SrcApiQr.src_QRCode_mode self
  = match qr__mode self with Some m => do n <- SrcMode.src_get_mode_name m; Ok (Some n) | None => Ok None end.
Proof. reflexivity. Qed.

Theorem src_QRCode_symbol_size_spec self scale border :
  SrcApiQr.src_QRCode_symbol_size self scale border = SrcUtils.src_get_symbol_size (qr__matrix_size self) scale border.
Proof. unfold SrcApiQr.src_QRCode_symbol_size. apply bind_ret'. Qed.
Corollary src_QRCode_symbol_size_is_model self w h scale border :
  qr__matrix_size self = [w; h] ->
  SrcApiQr.src_QRCode_symbol_size self scale border
  = (let b := Iter.get_border w h border in Ok [inject_Z (w + 2 * b) * scale; inject_Z (h + 2 * b) * scale]%Q).
Proof. intros H. rewrite src_QRCode_symbol_size_spec, H. apply TieUtils.src_get_symbol_size_is_model. Qed.

(* matrix_iter(scale, border, verbose): utils.matrix_iter_verbose if verbose else utils.matrix_iter, on the stored matrix / size *)
Theorem src_QRCode_matrix_iter_spec self scale border (verbose : bool) :
  SrcApiQr.src_QRCode_matrix_iter self scale border (DBool verbose)
  = if verbose then SrcUtilsVerbose.src_matrix_iter_verbose (qr_matrix self) (qr__matrix_size self) scale border
    else SrcUtilsIter.src_matrix_iter (qr_matrix self) (qr__matrix_size self) scale border.
Proof. unfold SrcApiQr.src_QRCode_matrix_iter. cbn [pya_truthy bind]. destruct verbose; apply bind_ret'. Qed.

(* ------------------------------------------------------------------ methods with **kw *)
Ltac kw_keys_qr :=
  cbn [existsb pyr_assoc pyr_str_in pyr_str_eqb filter fst snd negb orb andb app Z.eqb Pos.eqb map
       SrcApiQr.K_self SrcApiQr.K_compact
       SrcApiUri.K_matrix SrcApiUri.K_matrix_size SrcApiUri.K_out SrcApiUri.K_scale SrcApiUri.K_border SrcApiUri.K_xmldecl
       SrcApiUri.K_svgns SrcApiUri.K_unit SrcApiUri.K_encoding SrcApiUri.K_nl SrcApiUri.K_compresslevel
       SrcApiUri.K_encode_minimal SrcApiUri.K_omit_charset SrcApiUri.K_kind].

Lemma kw_rest_id names (d : py_kw) : pya_kw_has names d = false -> pya_kw_rest names d = d.
Proof.
  unfold pya_kw_has, pya_kw_rest. induction d as [|[k v] r IH]; cbn [existsb filter fst]; [reflexivity|].
  intros H. apply orb_false_iff in H as [H1 H2]. rewrite H1. cbn [negb]. now rewrite IH.
Qed.
Lemma kw_has_incl n1 n2 (d : py_kw) :
  forallb (fun k => pyr_str_in k n2) n1 = true -> pya_kw_has n2 d = false -> pya_kw_has n1 d = false.
Proof.
  intros Hin H. rewrite kw_has_find in *. destruct (existsb (fun k => kw_has1 k d) n1) eqn:E; [|reflexivity].
  apply existsb_exists in E as (k & Hk & Hh). rewrite forallb_forall in Hin. specialize (Hin k Hk). apply str_in_In in Hin.
  rewrite <- H. symmetry. apply existsb_exists. now exists k.
Qed.

Lemma kw_rest_nonempty k names (d : py_kw) : kw_has1 k d = true -> pyr_str_in k names = false -> pya_kw_rest names d <> [].
Proof.
  unfold kw_has1, pya_kw_find, pya_kw_rest. intros H Hn. induction d as [|[k' v] r IH]; cbn [pyr_assoc] in H; [discriminate|].
  cbn [filter fst]. destruct (pyr_str_eqb k k') eqn:E.
  - apply str_eqb_eq in E. subst k'. rewrite Hn. discriminate.
  - destruct (negb (pyr_str_in k' names)); [discriminate|exact (IH H)].
Qed.

Lemma kw_rest_drop1 k names (d : py_kw) : kw_has1 k d = false -> pya_kw_rest (k :: names) d = pya_kw_rest names d.
Proof.
  unfold kw_has1, pya_kw_find. intros H. unfold pya_kw_rest. apply filter_ext_in. intros [k' v] Hin. cbn [fst].
  cbn [pyr_str_in existsb]. fold (pyr_str_in k' names). destruct (pyr_str_eqb k' k) eqn:E; [|reflexivity].
  apply str_eqb_eq in E. subst k'. exfalso. clear -H Hin.
  induction d as [|[k2 v2] r IH]; [contradiction|]. cbn [pyr_assoc] in H. destruct (pyr_str_eqb k k2) eqn:E2; [discriminate|].
  destruct Hin as [Heq|Hin]; [injection Heq as -> ->; now rewrite str_eqb_refl in E2|exact (IH H Hin)].
Qed.

Section Methods.
  Variable ext_q_repr : Q -> list Z.
  Variable ext_float_repr : py_float -> list Z.
  Variable ext_re_sub : list Z -> list Z -> list Z -> list Z.
  Variable ext__color_to_rgb_or_rgba : option py_color -> bool -> res (list Z).
  Variable ext_crc32 : list Z -> Z.
  Variable ext_compress : list Z -> Z -> list Z.
  Variable ext_set_order : list (list Z) -> list (list Z).
  Variable ext_time_strftime : list Z -> list Z.
  Variable ext_textwrap_wrap : list Z -> Z -> list (list Z).
  Variable ext_time_timezone : Z.
  Variable ext_zlib_compress : list Z -> Z -> list Z.
  Variable ext__color_to_rgb : option py_color -> res (list Z).
  Variable ext__color_to_rgb_xpm : py_color -> res (list Z).
  Variable ext_codec_encode : list Z -> list Z -> res (list Z).
  Variable ext_gzip : py_out -> py_dyn -> list Z -> list Z.
  Variable ext_codec_decode : list Z -> list Z -> res (list Z).
  Variable ext_quote : list Z -> list Z -> list Z.
  Variable ext_replace_quotes : list Z -> list Z.

  Definition wsave := save ext_q_repr ext_float_repr ext_re_sub ext__color_to_rgb_or_rgba ext_crc32 ext_compress ext_set_order
                        ext_time_strftime ext_textwrap_wrap ext_time_timezone ext_zlib_compress ext__color_to_rgb ext__color_to_rgb_xpm
                        ext_codec_encode ext_gzip.
  Definition qsave := SrcApiQr.src_QRCode_save ext_q_repr ext_float_repr ext_re_sub ext__color_to_rgb_or_rgba ext_crc32 ext_compress
                        ext_set_order ext_time_strftime ext_textwrap_wrap ext_time_timezone ext_zlib_compress ext__color_to_rgb
                        ext__color_to_rgb_xpm ext_codec_encode ext_gzip.
  Definition qsave_kw := SrcApiQr.src_QRCode_save_kw ext_q_repr ext_float_repr ext_re_sub ext__color_to_rgb_or_rgba ext_crc32
                           ext_compress ext_set_order ext_time_strftime ext_textwrap_wrap ext_time_timezone ext_zlib_compress
                           ext__color_to_rgb ext__color_to_rgb_xpm ext_codec_encode ext_gzip.
  Definition wsvg := write_svg_kw ext_q_repr ext_float_repr ext_re_sub.
  Definition wpng := write_png_kw ext__color_to_rgb_or_rgba ext_crc32 ext_compress ext_set_order.

  Definition save_names : list (list Z) := [SrcApiUri.K_matrix; SrcApiUri.K_matrix_size; SrcApiUri.K_out; SrcApiUri.K_kind].

  (* QRCode.save(out, kind, **kw) = writers.save(self.matrix, self._matrix_size, out, kind, **kw): the stored matrix and size, `out`
     and `kind` as given, the SAME keyword dictionary; TypeError if kw names one of the four positional parameters *)
  Theorem src_QRCode_save_is_save self out kind (kw : py_kw) :
    qsave self out kind kw
    = if pya_kw_has save_names kw then Err TypeErr else wsave (qr_matrix self) (qr__matrix_size self) out kind kw.
  Proof.
    unfold qsave, SrcApiQr.src_QRCode_save, SrcApiUri.src_save_kw4. cbv zeta. rewrite bind_ret'. unfold pya_kw_check_pos.
    fold save_names. destruct (pya_kw_has save_names kw) eqn:H; [reflexivity|]. cbn [bind]. now rewrite (kw_rest_id _ _ H).
  Qed.

  (* ---- png_data_uri *)
  Definition qpng_uri := SrcApiQr.src_QRCode_png_data_uri ext__color_to_rgb_or_rgba ext_crc32 ext_compress ext_set_order ext_codec_encode.

  (* png_data_uri( **kw) = writers.as_png_data_uri(self.matrix, self._matrix_size, **kw) *)
  Theorem src_QRCode_png_data_uri_is_as_png_data_uri self (kw : py_kw) :
    qpng_uri self kw
    = as_png_data_uri_kw ext__color_to_rgb_or_rgba ext_crc32 ext_compress ext_set_order ext_codec_encode
        (qr_matrix self) (qr__matrix_size self) kw.
  Proof. unfold qpng_uri, SrcApiQr.src_QRCode_png_data_uri. cbv zeta. apply bind_ret'. Qed.

  (* C12, PNG: for EVERY keyword dictionary that does not name matrix / matrix_size / out / kind (with one of these both routes raise
     TypeError), the data URI is "data:image/png;base64," + base64 of exactly what qr.save(<stream>, kind='png', **kw) writes *)
  Theorem png_data_uri_is_save self out (kw : py_kw) (k : list Z) :
    lower k = k_png -> pya_kw_has save_names kw = false ->
    qpng_uri self kw
    = do w <- qsave self out (Some k) kw;
      do b <- pya_bin_write ext_codec_encode [] w;
      do t <- pya_decode_ascii (pya_b64encode b);
      Ok (png_uri_prefix ++ t).
  Proof.
    intros Hk Hkw. rewrite src_QRCode_png_data_uri_is_as_png_data_uri, src_as_png_data_uri_is_write_png.
    rewrite src_QRCode_save_is_save, Hkw. unfold wsave. erewrite src_save_kind_png; [reflexivity|exact Hk].
  Qed.
  Theorem png_data_uri_TypeError self (kw : py_kw) : pya_kw_has save_names kw = true -> qpng_uri self kw = Err TypeErr.
  Proof.
    intros H. rewrite src_QRCode_png_data_uri_is_as_png_data_uri, src_as_png_data_uri_is_write_png.
    unfold write_png_kw, SrcApiUri.src_write_png_kw, SrcApiUri.src_write_png_kw. cbv zeta.
    unfold pya_kw_check_pos at 1. unfold pya_kw_check_pos at 1. unfold pya_kw_check_unexpected.
    destruct (pya_kw_has [SrcApiUri.K_matrix; SrcApiUri.K_matrix_size; SrcApiUri.K_out] kw) eqn:E1; [reflexivity|]. cbn [bind].
    (* then `kind` is the offending key: an unexpected keyword argument of write_png *)
    assert (Hkind : kw_has1 SrcApiUri.K_kind kw = true).
    { unfold save_names in H. rewrite kw_has_find in H, E1. cbn [existsb] in H, E1. rewrite !orb_false_r in *.
      apply orb_false_iff in E1 as [E1 E2]. apply orb_false_iff in E2 as [E2 E3]. now rewrite E1, E2, E3 in H. }
    match goal with |- context [if ?c then Err TypeErr else Ok tt] => destruct c; [reflexivity|] end. cbn [bind].
    rewrite kw_rest_rest.
    match goal with |- context [pya_kw_rest ?n kw] =>
      pose proof (kw_rest_nonempty SrcApiUri.K_kind n kw Hkind eq_refl) as Hne; destruct (pya_kw_rest n kw); [congruence|reflexivity]
    end.
  Qed.

  (* ---- svg_data_uri *)
  Definition qsvg_uri_kw :=
    SrcApiQr.src_QRCode_svg_data_uri_kw ext_q_repr ext_float_repr ext_re_sub ext_codec_encode ext_quote ext_replace_quotes.
  Definition wsvg_uri_kw := as_svg_data_uri_kw ext_q_repr ext_float_repr ext_re_sub ext_codec_encode ext_quote ext_replace_quotes.

  (* qr.svg_data_uri( **d) = writers.as_svg_data_uri(self.matrix, self._matrix_size, **d) for EVERY keyword dictionary: the four
     parameters the method names itself (xmldecl, encode_minimal, omit_charset, nl; default False) are passed on as given, and their
     defaults are those of as_svg_data_uri *)
  Theorem src_QRCode_svg_data_uri_is_as_svg_data_uri self (d : py_kw) :
    kw_has1 SrcApiQr.K_self d = false ->
    qsvg_uri_kw self d = wsvg_uri_kw (qr_matrix self) (qr__matrix_size self) d.
  Proof.
    intros Hself. unfold qsvg_uri_kw, SrcApiQr.src_QRCode_svg_data_uri_kw, SrcApiQr.src_QRCode_svg_data_uri. cbv zeta.
    unfold pya_kw_check_pos at 1. rewrite kw_has_find. cbn [existsb]. rewrite Hself. cbn [orb bind].
    unfold pya_kw_merge. rewrite kw_has_find. cbn [map fst existsb]. rewrite !kw_has1_rest. kw_vm. cbn [negb andb orb bind].
    rewrite bind_ret'. fold wsvg_uri_kw. unfold wsvg_uri_kw. rewrite !src_as_svg_data_uri_is_write_svg.
    unfold svg_uri_kw, pya_kw_check_pos. rewrite !kw_has_find. cbn [existsb].
    rewrite ?kw_rest_app', ?kw_rest_rest, ?kw_has1_app_rest, ?kw_arg_app_rest. kw_vm. cbn [app negb andb orb].
    rewrite (kw_rest_drop1 SrcApiQr.K_self _ d Hself). kw_rest_same d. Timeout 60 reflexivity.
  Qed.

  (* ---- svg_inline *)
  Definition qsvg_inline :=
    SrcApiQr.src_QRCode_svg_inline ext_q_repr ext_float_repr ext_re_sub ext__color_to_rgb_or_rgba ext_crc32 ext_compress ext_set_order
      ext_time_strftime ext_textwrap_wrap ext_time_timezone ext_zlib_compress ext__color_to_rgb ext__color_to_rgb_xpm ext_codec_encode
      ext_gzip ext_codec_decode.
  Definition inline_fixed : py_kw :=
    [(SrcApiUri.K_xmldecl, DBool false); (SrcApiUri.K_svgns, DBool false); (SrcApiUri.K_nl, DBool false)].
  Definition inline_names : list (list Z) :=
    [SrcApiUri.K_kind; SrcApiUri.K_xmldecl; SrcApiUri.K_svgns; SrcApiUri.K_nl; SrcApiQr.K_self; SrcApiUri.K_out; SrcApiUri.K_matrix;
     SrcApiUri.K_matrix_size].

  (* C12, svg_inline: for EVERY keyword dictionary kw that does not name kind / xmldecl / svgns / nl (TypeError, below) nor a
     positional parameter: svg_inline( **kw) decodes -- with kw.get('encoding', 'utf-8') -- the bytes of what
     write_svg(matrix, matrix_size, <binary stream>, xmldecl=False, svgns=False, nl=False, **kw) writes *)
  Theorem src_QRCode_svg_inline_is_write_svg self (kw : py_kw) :
    pya_kw_has inline_names kw = false ->
    qsvg_inline self kw
    = do w <- wsvg (qr_matrix self) (qr__matrix_size self) (inline_fixed ++ kw);
      do b <- pya_bin_write ext_codec_encode [] w;
      do n <- pya_codec_name (pya_kw_arg SrcApiUri.K_encoding (DStr utf_8) kw);
      ext_codec_decode n b.
  Proof.
    intros H. unfold qsvg_inline, SrcApiQr.src_QRCode_svg_inline. cbv zeta.
    unfold pya_kw_merge. cbn [map fst].
    rewrite (kw_has_incl [SrcApiUri.K_kind; SrcApiUri.K_xmldecl; SrcApiUri.K_svgns; SrcApiUri.K_nl] inline_names kw eq_refl H).
    cbn [bind]. unfold SrcApiQr.src_QRCode_save_kw.
    unfold pya_kw_check_pos at 1. rewrite kw_has_find. cbn [existsb]. rewrite !kw_has1_app'. kw_vm.
    rewrite (kw_has_split _ _ H SrcApiQr.K_self eq_refl), (kw_has_split _ _ H SrcApiUri.K_out eq_refl). cbn [orb bind].
    rewrite kw_arg_app'. kw_vm. cbn [pya_ostr bind]. rewrite kw_rest_app'. kw_vm. cbn [app].
    rewrite (kw_rest_id _ kw (kw_has_incl [SrcApiQr.K_self; SrcApiUri.K_out; SrcApiUri.K_kind] inline_names kw eq_refl H)).
    fold qsave. rewrite src_QRCode_save_is_save.
    match goal with |- context [pya_kw_has save_names ?D] => replace (pya_kw_has save_names D) with false end.
    2:{ symmetry. cbn [pya_kw_has existsb fst]. fold (pya_kw_has save_names kw). kw_vm. cbn [orb].
        apply (kw_has_incl save_names inline_names kw eq_refl H). }
    unfold wsave. erewrite src_save_kind_svg; [|reflexivity]. unfold wsvg, write_svg_kw, inline_fixed, pya_bin_new, utf_8.
    match goal with |- bind ?X _ = bind ?Y _ => change Y with X; destruct X as [w|e]; [|reflexivity] end. cbn [bind].
    destruct (pya_bin_write ext_codec_encode [] w); [|reflexivity]. cbn [bind].
    destruct (pya_codec_name _); [|reflexivity]. cbn [bind]. apply bind_ret'.
  Qed.
  (* one of the four keywords svg_inline fixes given again: TypeError (got multiple values for keyword argument) *)
  Theorem src_QRCode_svg_inline_TypeError self (kw : py_kw) :
    pya_kw_has [SrcApiUri.K_kind; SrcApiUri.K_xmldecl; SrcApiUri.K_svgns; SrcApiUri.K_nl] kw = true -> qsvg_inline self kw = Err TypeErr.
  Proof. intros H. unfold qsvg_inline, SrcApiQr.src_QRCode_svg_inline. cbv zeta. unfold pya_kw_merge. cbn [map fst]. now rewrite H. Qed.
  (* if the codec decodes what it encoded (this run), svg_inline returns the text write_svg produced *)
  Corollary src_QRCode_svg_inline_text self (kw : py_kw) (e t b : list Z) :
    pya_kw_has inline_names kw = false ->
    wsvg (qr_matrix self) (qr__matrix_size self) (inline_fixed ++ kw) = Ok (PWText (Some e) t) ->
    pya_kw_arg SrcApiUri.K_encoding (DStr utf_8) kw = DStr e ->
    ext_codec_encode e t = Ok b -> ext_codec_decode e b = Ok t ->
    qsvg_inline self kw = Ok t.
  Proof.
    intros H Hw He Henc Hdec. rewrite (src_QRCode_svg_inline_is_write_svg self kw H), Hw. cbn [bind pya_bin_write app].
    rewrite Henc. cbn [bind]. rewrite He. cbn [pya_codec_name bind]. exact Hdec.
  Qed.

  (* ---- terminal *)
  Definition win32 : list Z := [119; 105; 110; 51; 50].
  (* terminal(out, border, compact) writes what write_terminal_compact / write_terminal write, to `out or sys.stdout`; on Windows
     without `out` (the console API path, ctypes) nothing is claimed *)
  Theorem src_QRCode_terminal_spec plat self (out : option py_out) (border : option Z) (compact : bool) :
    (compact = false -> out = None -> pyr_str_eqb plat win32 = false) ->
    SrcApiQr.src_QRCode_terminal plat self out (pya_of_oint border) (DBool compact)
    = do t <- (if compact then SrcWrText.src_write_terminal_compact (qr_matrix self) (qr__matrix_size self) border
               else SrcWrText.src_write_terminal (qr_matrix self) (qr__matrix_size self) border);
      Ok (pya_or_stdout out, PWText None t).
  Proof.
    intros Hwin. unfold SrcApiQr.src_QRCode_terminal. cbv zeta. cbn [pya_truthy bind]. destruct compact.
    - unfold SrcApiUri.src_write_terminal_compact_kw4. kw_eval. rewrite pya_oint_of. cbn [bind].
      destruct (SrcWrText.src_write_terminal_compact _ _ _); reflexivity.
    - replace (match out with None => true | Some _ => false end && pyr_str_eqb plat [119; 105; 110; 51; 50]) with false.
      2:{ destruct out; [reflexivity|]. cbn [andb]. symmetry. now apply Hwin. }
      unfold SrcApiUri.src_write_terminal_kw4. kw_eval. rewrite pya_oint_of. cbn [bind].
      destruct (SrcWrText.src_write_terminal _ _ _); reflexivity.
  Qed.
  Theorem src_QRCode_terminal_windows self border :
    SrcApiQr.src_QRCode_terminal win32 self None border (DBool false) = Err pya_unmodelled.
  Proof. reflexivity. Qed.
End Methods.

Print Assumptions src_QRCode_init_spec.
Print Assumptions src_make_bytes_spec.
Print Assumptions src_make_qr_bytes_is_make.
Print Assumptions src_make_micro_bytes_is_make.
Print Assumptions src_make_qr_items_is_make.
Print Assumptions src_make_micro_items_is_make.
Print Assumptions src_make_sequence_bytes_spec.
Print Assumptions src_QRCode_symbol_size_is_model.
Print Assumptions src_QRCode_matrix_iter_spec.
Print Assumptions src_QRCode_save_is_save.
Print Assumptions src_QRCode_png_data_uri_is_as_png_data_uri.
Print Assumptions png_data_uri_is_save.
Print Assumptions png_data_uri_TypeError.
Print Assumptions src_QRCode_svg_data_uri_is_as_svg_data_uri.
Print Assumptions src_QRCode_svg_inline_is_write_svg.
Print Assumptions src_QRCode_svg_inline_TypeError.
Print Assumptions src_QRCode_svg_inline_text.
Print Assumptions src_QRCode_terminal_spec.

(* ------------------------------------------------------------------ the call protocol on examples (outcomes observed on CPython 3.12) *)
(* qr.png_data_uri(out=1): write_png() got multiple values for argument 'out';  (kind='png') / (foo=1): unexpected keyword argument;
   (matrix=1): as_png_data_uri() got multiple values for argument 'matrix';  qr.svg_inline(nl=True) / (kind='png'): save() got multiple
   values for keyword argument;  qr.svg_data_uri(self=1);  qr.terminal(foo=1) -- all TypeError, whatever the symbol *)
Example protocol_examples e1 e2 e3 e4 e5 e6 e7 e8 e9 e10 e11 e12 e13 e14 e15 e16 e17 e18 (self : py_qrcode) :
  (SrcApiQr.src_QRCode_png_data_uri_kw e4 e5 e6 e7 e14 self [(SrcApiUri.K_out, DInt 1)],
   SrcApiQr.src_QRCode_png_data_uri_kw e4 e5 e6 e7 e14 self [(SrcApiUri.K_kind, DStr k_png)],
   SrcApiQr.src_QRCode_png_data_uri_kw e4 e5 e6 e7 e14 self [([102; 111; 111], DInt 1)],
   SrcApiQr.src_QRCode_png_data_uri_kw e4 e5 e6 e7 e14 self [(SrcApiUri.K_matrix, DInt 1)],
   SrcApiQr.src_QRCode_svg_inline_kw e1 e2 e3 e4 e5 e6 e7 e8 e9 e10 e11 e12 e13 e14 e15 e16 self [(SrcApiUri.K_nl, DBool true)],
   SrcApiQr.src_QRCode_svg_inline_kw e1 e2 e3 e4 e5 e6 e7 e8 e9 e10 e11 e12 e13 e14 e15 e16 self [(SrcApiUri.K_kind, DStr k_png)],
   SrcApiQr.src_QRCode_svg_data_uri_kw e1 e2 e3 e14 e17 e18 self [(SrcApiQr.K_self, DInt 1)],
   SrcApiQr.src_QRCode_terminal_kw [] self [([102; 111; 111], DInt 1)])
  = (Err TypeErr, Err TypeErr, Err TypeErr, Err TypeErr, Err TypeErr, Err TypeErr, Err TypeErr, Err TypeErr).
Proof. reflexivity. Qed.
