(* Shared by the bridge files: a for-loop whose body neither breaks nor returns is a monadic fold; folds over nested
   ranges are folds over the flattened list of cells. *)
From Coq Require Import ZArith List Bool Lia.
From Segno Require Import Base.PyLite Base.PySem.
Import ListNotations.
Open Scope Z_scope.

(* ------------------------------------------------------------------ loops that never break or return are folds *)
Fixpoint fold_res {Y S} (f : Y -> S -> res S) (ys : list Y) (s : S) : res S :=
  match ys with [] => Ok s | y :: r => do s' <- f y s; fold_res f r s' end.

Lemma py_for_fold {Y S} (f : Y -> S -> res S) (body : Y -> S -> res (ctl void S)) :
  (forall y s, body y s = do s' <- f y s; Ok (CNext s')) ->
  forall ys s, py_for ys body s = do s' <- fold_res f ys s; Ok (inr s').
Proof.
  intros Hb. induction ys as [|y r IH]; intros s; cbn [py_for fold_res]; [reflexivity|].
  rewrite Hb. destruct (f y s) as [s'|e]; cbn [bind]; [apply IH|reflexivity].
Qed.

Lemma fold_res_flat_map {X Y S} (f : Y -> S -> res S) (cs : X -> list Y) : forall xs s,
  fold_res f (flat_map cs xs) s = fold_res (fun x s => fold_res f (cs x) s) xs s.
Proof.
  induction xs as [|x r IH]; intros s; cbn [flat_map fold_res]; [reflexivity|].
  assert (Happ : forall a b s0, fold_res f (a ++ b) s0 = do s1 <- fold_res f a s0; fold_res f b s1).
  { induction a as [|y a IHa]; intros b s0; cbn [app fold_res]; [reflexivity|].
    destruct (f y s0); cbn [bind]; [apply IHa|reflexivity]. }
  rewrite Happ. destruct (fold_res f (cs x) s); cbn [bind]; [apply IH|reflexivity].
Qed.

Lemma fold_res_ext {Y S} (f g : Y -> S -> res S) : (forall y s, f y s = g y s) -> forall ys s, fold_res f ys s = fold_res g ys s.
Proof. intros H. induction ys as [|y r IH]; intros s; cbn [fold_res]; [reflexivity|]. rewrite H. destruct (g y s); cbn [bind]; auto. Qed.

Lemma fold_res_map {X Y S} (f : Y -> S -> res S) (g : X -> Y) : forall xs s, fold_res f (map g xs) s = fold_res (fun x => f (g x)) xs s.
Proof. induction xs as [|x r IH]; intros s; cbn [map fold_res]; [reflexivity|]. destruct (f (g x) s); cbn [bind]; auto. Qed.


Lemma fold_res_app {Y S} (f : Y -> S -> res S) : forall a b s,
  fold_res f (a ++ b) s = do s1 <- fold_res f a s; fold_res f b s1.
Proof.
  induction a as [|y a IHa]; intros b s; cbn [app fold_res]; [reflexivity|].
  destruct (f y s); cbn [bind]; [apply IHa|reflexivity].
Qed.
