(* Shared by the bridge files that write bits into a Buffer: Buffer.append_bits / to_binary on the source side
   (PySem.py_bits_of) is the model's [bits_of]; extending a buffer of bits by bits. *)
From Coq Require Import ZArith List Bool Lia ZifyBool.
From Segno Require Import Base.PyLite Base.PySem Model.Bits Model.Segment Model.Stream.
From Segno Require Import Tie.TieBase.
Import ListNotations.
Open Scope Z_scope.

Lemma land1_testbit x n : 0 <= n -> Z.land (Z.shiftr x n) 1 = bit_z (Z.testbit x n).
Proof.
  intros Hn. change 1 with (Z.ones 1). rewrite Z.land_ones by lia. change (2 ^ 1) with 2.
  rewrite <- Z.bit0_mod, Z.shiftr_spec by lia. cbn [Z.add]. now destruct (Z.testbit x n).
Qed.

Lemma zrange_aux_snoc n : forall a, zrange_aux (S n) a = zrange_aux n a ++ [a + Z.of_nat n].
Proof.
  induction n as [|n IH]; intros a.
  - cbn. now replace (a + 0) with a by lia.
  - change (zrange_aux (S (S n)) a) with (a :: zrange_aux (S n) (a + 1)). rewrite IH. cbn [zrange_aux app].
    do 2 f_equal. f_equal. lia.
Qed.

Lemma py_bits_of_bits val len : py_bits_of val len = bitsZ (bits_of val len).
Proof.
  unfold py_bits_of, zrange, bits_of. rewrite Z.sub_0_r. induction (Z.to_nat len) as [|n IH]; [reflexivity|].
  rewrite zrange_aux_snoc, rev_app_distr. cbn [rev app map bits_of_aux bitsZ]. rewrite land1_testbit by lia.
  f_equal. exact IH.
Qed.

Lemma bits_are_bytes l : forallb is_byte (bitsZ l) = true.
Proof. induction l as [|[|] r IH]; cbn; auto. Qed.
Lemma extend_bits a b : py_buf_extend (bitsZ a) (bitsZ b) = Ok (bitsZ (a ++ b)).
Proof. unfold py_buf_extend. now rewrite bits_are_bytes, bitsZ_app. Qed.
Lemma append_bits_src a val len : py_buf_extend (bitsZ a) (py_bits_of val len) = Ok (bitsZ (a ++ bits_of val len)).
Proof. rewrite py_bits_of_bits. apply extend_bits. Qed.
