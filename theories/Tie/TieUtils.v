(* Bridge theorems: get_default_border_size, get_border, get_symbol_size, check_valid_scale, check_valid_border of
   segno/utils.py, translated statement by statement from the CURRENT source (SegnoSrc.SrcUtils, written by
   gen/translate_utils.py with the Python semantics of Base/PySem.v + Base/PySemGen.v), equal the hand-written model
   (Model/Iter.v) and the size formulas the serializer models use.  Re-checked by coqc on every run: a change of the
   Python source changes the generated file, and a change of behaviour breaks a theorem.  See DESIGN.md 11.8.

   Typing (Python is untyped; the theorems speak about arguments of these types):
     matrix_size : a tuple of ints, [w; h] in the theorems (any other length raises ValueError at the unpacking);
     border      : None or an int for get_border / get_symbol_size (the documented type), None or any number
                   for check_valid_border (which is the function that rejects the other numbers);
     scale       : a number (int or finite float) given by its exact rational value [q_of scale]. *)
From Coq Require Import ZArith QArith List Bool Lia ZifyBool.
From Segno Require Import Base.PyLite Base.PySem Base.PySemGen Model.Iter.
From Segno Require Model.Vector.
From SegnoSrc Require Import SrcUtils.
Import ListNotations.
Open Scope Z_scope.

(* ------------------------------------------------------------------ 1. get_default_border_size, get_border *)
Theorem src_get_default_border_size_is_model : forall w h : Z,
  src_get_default_border_size [w; h] = Ok (Iter.get_default_border_size w h).
Proof.
  intros w h. unfold src_get_default_border_size, Iter.get_default_border_size. cbn [py_unpack2 bind]. f_equal.
  (* case analysis instead of syntactic equality: `17 < width and height == width` would pass as well *)
  repeat match goal with |- context [if ?c then _ else _] => let E := fresh "E" in destruct c eqn:E end;
    try reflexivity; lia.
Qed.

(* a matrix_size that is not a pair is rejected like Python rejects the unpacking *)
Theorem src_get_default_border_size_not_pair : forall ms : list Z,
  length ms <> 2%nat -> src_get_default_border_size ms = Err ValueError.
Proof.
  intros ms Hlen. unfold src_get_default_border_size.
  destruct ms as [|a [|b [|c r]]]; cbn [py_unpack2 bind]; try reflexivity. now cbn in Hlen.
Qed.

Theorem src_get_border_is_model : forall (w h : Z) (border : option Z),
  src_get_border [w; h] border = Ok (Iter.get_border w h border).
Proof.
  intros w h border. unfold src_get_border, Iter.get_border.
  destruct border as [b|]; cbn [bind]; [reflexivity|].
  rewrite src_get_default_border_size_is_model. reflexivity.
Qed.

(* ------------------------------------------------------------------ 2. get_symbol_size *)
(* the two numbers every serializer model computes: (width + 2 * border) * scale, (height + 2 * border) * scale *)
Theorem src_get_symbol_size_is_model : forall (w h : Z) (scale : Q) (border : option Z),
  src_get_symbol_size [w; h] scale border =
  let b := Iter.get_border w h border in
  Ok [(inject_Z (w + 2 * b) * scale)%Q; (inject_Z (h + 2 * b) * scale)%Q].
Proof.
  intros w h scale border. unfold src_get_symbol_size, Iter.get_border.
  destruct border as [b|]; cbn [py_unpack2 bind]; [reflexivity|].
  rewrite src_get_default_border_size_is_model. reflexivity.
Qed.

Lemma inject_Z_mult_eq (a b : Z) : (inject_Z a * inject_Z b)%Q = inject_Z (a * b).
Proof. reflexivity. Qed.

(* an int scale gives ints: the (width, height) of Model/Netpbm.v, TextFmt.v, Png.v *)
Corollary src_get_symbol_size_int : forall (w h scale : Z) (border : option Z),
  src_get_symbol_size [w; h] (inject_Z scale) border =
  let b := Iter.get_border w h border in
  Ok [inject_Z ((w + 2 * b) * scale); inject_Z ((h + 2 * b) * scale)].
Proof.
  intros w h scale border. rewrite src_get_symbol_size_is_model. cbv zeta. now rewrite !inject_Z_mult_eq.
Qed.

(* Python `int * number` as Model/Vector.v has it (valid_width_height_and_border), seen through q_of *)
Corollary src_get_symbol_size_pynum : forall (w h : Z) (scale : pynum) (border : option Z),
  src_get_symbol_size [w; h] (q_of scale) border =
  let b := Iter.get_border w h border in
  Ok [q_of (Vector.pn_mul (PInt (w + 2 * b)) scale); q_of (Vector.pn_mul (PInt (h + 2 * b)) scale)].
Proof.
  intros w h scale border. rewrite src_get_symbol_size_is_model. cbv zeta.
  destruct scale as [z|q]; reflexivity.
Qed.

(* ------------------------------------------------------------------ 3. check_valid_scale, check_valid_border *)
Theorem src_check_valid_scale_is_model : forall scale : pynum,
  src_check_valid_scale (q_of scale) = Iter.check_valid_scale scale.
Proof. intros scale. reflexivity. Qed.

Lemma py_int_q_of (n : pynum) : py_int_q (q_of n) = py_int n.
Proof. destruct n as [z|q]; [apply py_int_q_inject|reflexivity]. Qed.

Theorem src_check_valid_border_is_model : forall border : option pynum,
  src_check_valid_border (option_map q_of border) = Iter.check_valid_border border.
Proof.
  intros [b|]; [|reflexivity]. unfold src_check_valid_border, Iter.check_valid_border. cbn [option_map].
  rewrite py_int_q_of. reflexivity.
Qed.

(* the documented domain: border is None or an int *)
Corollary src_check_valid_border_int : forall border : option Z,
  src_check_valid_border (option_map inject_Z border) = Iter.check_valid_border (option_map PInt border).
Proof. intros [b|]; [|reflexivity]. exact (src_check_valid_border_is_model (Some (PInt b))). Qed.

(* what the checks decide, in plain terms *)
Corollary src_check_valid_scale_spec : forall q : Q,
  src_check_valid_scale q = if Qle_bool q 0 then Err ValueError else Ok tt.
Proof. reflexivity. Qed.
Corollary src_check_valid_border_int_spec : forall b : Z,
  src_check_valid_border (Some (inject_Z b)) = if b <? 0 then Err ValueError else Ok tt.
Proof.
  intros b. unfold src_check_valid_border. rewrite py_int_q_inject.
  unfold py_q_eq, py_q_lt. rewrite (proj2 (Qeq_bool_iff _ _) (Qeq_refl _)). cbn [negb orb].
  unfold Qle_bool, inject_Z. cbn [Qnum Qden]. rewrite !Z.mul_1_r.
  destruct (0 <=? b) eqn:E1, (b <? 0) eqn:E2; try reflexivity; lia.
Qed.

Print Assumptions src_get_default_border_size_is_model.
Print Assumptions src_get_default_border_size_not_pair.
Print Assumptions src_get_border_is_model.
Print Assumptions src_get_symbol_size_is_model.
Print Assumptions src_get_symbol_size_int.
Print Assumptions src_get_symbol_size_pynum.
Print Assumptions src_check_valid_scale_is_model.
Print Assumptions src_check_valid_border_is_model.
Print Assumptions src_check_valid_border_int.
Print Assumptions src_check_valid_border_int_spec.
