(* Bridge theorem: make_mecard_data of segno/helpers.py, translated statement by statement from the CURRENT source
   (SegnoSrc.SrcHelpersMecard, written by gen/translate_helpers.py), equals the hand-written model (Model/Helpers.v) for ALL
   arguments of the declared types: name a str; reading / memo / nickname / birthday / the seven address parts a str or
   None; the multi-valued arguments email / phone / videophone / url given as the list of their strings (the argument
   encoding of the model: None, '' and () are [], a single str s is [s]; `isinstance(val, str)` is decided by that typing).
   No parameter, no hypothesis.  What the proof goes through: the field order, `make_multifield`, the `if x:` tests, the
   try / except AttributeError around `birthday.strftime` (a str has no strftime: PySemStr.py_str_no_attr), `any(adr_properties)`,
   `'ADR:{0},{1},{2},{3},{4},{5},{6};'.format( *adr_data)` (PySemStr.py_str_format; the IndexError branch is not reachable
   with seven items), the closing ';' and `''.join(data)`.
   Re-checked by coqc on every run.  See DESIGN.md 11.13. *)
From Coq Require Import ZArith List Bool Lia.
From Segno Require Import Base.PyLite Base.PySem Base.PySemStr Model.Color Model.Helpers.
From Segno Require Import Tie.TieHelpersEsc.
From SegnoSrc Require Import SrcHelpersEsc SrcHelpersMecard.
Import ListNotations.
Open Scope Z_scope.

Lemma mecard_multi_piece (esc : list Z -> list Z) K l : (forall s, esc s = escape_mecard s) ->
  map (fun i => K ++ [58] ++ esc i ++ [59]) l = mecard_multi K l.
Proof. intros He. apply map_ext. intros i. now rewrite He. Qed.

Lemma mecard_adr_true props : existsb py_ostr_truthy props = true ->
  mecard_adr props = [K_ADR ++ [58] ++ Helpers.join [44] (map (fun o => escape_mecard (or_empty o)) props) ++ [59]].
Proof. intros H. unfold mecard_adr. change (existsb truthy props) with (existsb py_ostr_truthy props). now rewrite H. Qed.
Lemma mecard_adr_false props : existsb py_ostr_truthy props = false -> mecard_adr props = [].
Proof. intros H. unfold mecard_adr. change (existsb truthy props) with (existsb py_ostr_truthy props). now rewrite H. Qed.

Lemma py_ostr_or_empty o : py_ostr_or o [] = or_empty o.
Proof. destruct o as [[|c s]|]; reflexivity. Qed.


Theorem src_make_mecard_data_is_model_args :
  forall (name : list Z) (reading : option (list Z)) (email phone videophone : list (list Z))
         (memo nickname birthday : option (list Z)) (url : list (list Z))
         (pobox roomno houseno city prefecture zipcode country : option (list Z)),
  src_make_mecard_data name reading email phone videophone memo nickname birthday url pobox roomno houseno city prefecture
                       zipcode country
  = Ok (make_mecard_data {| mc_name := name; mc_reading := reading; mc_email := email; mc_phone := phone;
                            mc_videophone := videophone; mc_memo := memo; mc_nickname := nickname; mc_birthday := birthday;
                            mc_url := url; mc_pobox := pobox; mc_roomno := roomno; mc_houseno := houseno; mc_city := city;
                            mc_prefecture := prefecture; mc_zipcode := zipcode; mc_country := country |}).
Proof.
  intros.
  match goal with |- _ = Ok (make_mecard_data ?r) => set (a := r) end.
  unfold src_make_mecard_data.
  pose proof src_escape_mecard_is_model as He. set (esc := src__escape_mecard) in *. clearbody esc.
  cbv zeta. cbv beta.
  rewrite !multifield_map, !(mecard_multi_piece esc _ _ He).
  rewrite !(opt_append _ _ (fun x => _ ++ esc x ++ [59])).
  destruct birthday as [[|bc bs]|]; cbn [py_ostr_truthy py_ostr_get py_str_no_attr bind].
  all: destruct (existsb py_ostr_truthy [pobox; roomno; houseno; city; prefecture; zipcode; country]) eqn:Eadr.
  all: cbn [map]; rewrite ?py_ostr_or_empty.
  all: cbv [py_str_format nth_error Z.to_nat Pos.to_nat Pos.iter_op Init.Nat.add Z.ltb Z.compare bind].
  all: rewrite !(opt_append _ _ (fun x => _ ++ esc x ++ [59])).
  all: rewrite !He.
  all: rewrite py_str_join_is_model, join_nil_concat.
  all: unfold make_mecard_data, mecard_pieces.
  all: first [rewrite (mecard_adr_true (mecard_adr_props a) Eadr) | rewrite (mecard_adr_false (mecard_adr_props a) Eadr)].
  all: unfold mecard_adr_props, mecard_opt, mecard_field, a.
  all: cbn [mc_name mc_reading mc_email mc_phone mc_videophone mc_memo mc_nickname mc_birthday mc_url mc_pobox mc_roomno mc_houseno
       mc_city mc_prefecture mc_zipcode mc_country].
  all: rewrite <- !app_assoc, !concat_app.
  all: cbn [map Helpers.join concat truthy or_empty].
  all: rewrite <- ?app_assoc.
  all: reflexivity.
Qed.

(* the same statement over the argument record of the model *)
Theorem src_make_mecard_data_is_model : forall a : mecard_args,
  src_make_mecard_data (mc_name a) (mc_reading a) (mc_email a) (mc_phone a) (mc_videophone a) (mc_memo a) (mc_nickname a)
                       (mc_birthday a) (mc_url a) (mc_pobox a) (mc_roomno a) (mc_houseno a) (mc_city a) (mc_prefecture a)
                       (mc_zipcode a) (mc_country a)
  = Ok (make_mecard_data a).
Proof. intros []. apply src_make_mecard_data_is_model_args. Qed.

Print Assumptions src_make_mecard_data_is_model.
