(* Bridge theorems: write_terminator, write_padding_bits, write_pad_codewords of segno/encoder.py, translated statement by statement from the CURRENT source
   (SegnoSrc.SrcPad, written by gen/translate.py with the Python semantics of Base/PySem.v), equal the hand-written
   model.  Re-checked by coqc on every run: a change of the Python source changes the generated file, and a change
   of behaviour breaks the theorem.  The proofs case-split on the comparisons instead of relying on syntactic
   equality, so behaviour-preserving rewrites of the source do not break them.  See DESIGN.md 11.7. *)
From Coq Require Import String.
From Coq Require Import ZArith List Bool Lia ZifyBool.
From Segno Require Import Base.PyLite Base.PySem Ref.IsoData Model.Bits Model.Segment Model.Version Model.Stream Model.Matrix Model.Encode.
From Segno Require Tie.TieTables.
From Segno Require Import Tie.TieBase.
From SegnoSrc Require SrcTables.
From SegnoSrc Require Import SrcPad.
Import ListNotations.
Open Scope Z_scope.

(* ------------------------------------------------------------------ 3. terminator, padding bits, pad codewords *)
Theorem src_write_terminator_is_model : forall (buff : bits) (capacity : Z) (ver : option Z),
  src_write_terminator (bitsZ buff) capacity ver (lenZ buff)
  = do r <- Stream.write_terminator buff capacity ver; Ok (bitsZ r).
Proof.
  intros buff capacity ver. unfold src_write_terminator, Stream.write_terminator. tie_tables.
  destruct (getOZ ver TERMINATOR_LENGTH) as [t|ex]; cbn [bind]; [|reflexivity].
  rewrite extend_zeros. reflexivity.
Qed.

Lemma is_m1_m3_src version :
  (version =? -3) || ((version =? -1) || false) = is_m1_m3 version.
Proof. unfold is_m1_m3, VERSION_M1, VERSION_M3. now rewrite orb_false_r. Qed.

Theorem src_write_padding_bits_is_model : forall (buff : bits) (version : Z),
  src_write_padding_bits (bitsZ buff) version (lenZ buff)
  = Ok (bitsZ (Stream.write_padding_bits buff version)).
Proof.
  intros buff version. unfold src_write_padding_bits, Stream.write_padding_bits.
  rewrite is_m1_m3_src. destruct (is_m1_m3 version); cbn [negb bind]; [reflexivity|].
  rewrite extend_zeros. reflexivity.
Qed.

Definition src_pad_codewords : list (list Z) := [[1; 1; 1; 0; 1; 1; 0; 0]; [0; 0; 0; 1; 0; 0; 0; 1]].

Lemma pad_step i b :
  (do t <- py_index src_pad_codewords (i mod 2); do b' <- py_buf_extend (bitsZ b) t; Ok (@CNext void _ b'))
  = Ok (CNext (bitsZ (b ++ pad_codeword i))).
Proof.
  unfold pad_codeword. rewrite bitsZ_app.
  assert (Hm : i mod 2 = 0 \/ i mod 2 = 1) by (pose proof (Z.mod_pos_bound i 2); lia).
  destruct Hm as [-> | ->]; reflexivity.
Qed.

Lemma pad_loop n : forall start b,
  py_for (A:=void) (zrange_aux n start)
    (fun i st' => let buff := st' in
       do t'1 <- py_index src_pad_codewords (i mod 2); do buff0 <- py_buf_extend buff t'1; Ok (CNext buff0))
    (bitsZ b)
  = Ok (inr (bitsZ (b ++ flat_map pad_codeword (zrange_aux n start)))).
Proof.
  induction n as [|n IH]; intros start b; cbn [zrange_aux py_for flat_map].
  - now rewrite app_nil_r.
  - cbv zeta. rewrite pad_step. rewrite IH. now rewrite <- app_assoc.
Qed.

Theorem src_write_pad_codewords_is_model : forall (buff : bits) (version capacity : Z),
  src_write_pad_codewords (bitsZ buff) version capacity (lenZ buff)
  = Ok (bitsZ (Stream.write_pad_codewords buff version capacity)).
Proof.
  intros buff version capacity. unfold src_write_pad_codewords, Stream.write_pad_codewords.
  cbv zeta. rewrite is_m1_m3_src. fold src_pad_codewords. unfold pad_codewords, zrange.
  destruct (is_m1_m3 version).
  - destruct (lenZ buff <? capacity - 4) eqn:El; cbn [bind].
    + rewrite extend_zeros. cbn [bind]. rewrite pad_loop. cbn [bind].
      rewrite lenZ_bitsZ, extend_zeros. cbn [bind]. rewrite <- !app_assoc. reflexivity.
    + rewrite lenZ_bitsZ, extend_zeros. reflexivity.
  - rewrite pad_loop. reflexivity.
Qed.

Print Assumptions src_write_terminator_is_model.
Print Assumptions src_write_padding_bits_is_model.
Print Assumptions src_write_pad_codewords_is_model.
