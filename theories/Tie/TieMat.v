(* The module matrix seen from both sides.  The translated sources (PySem) keep it as Python does: a list of rows of
   integers (0 light, 1 dark, 2 = not yet set), mutated by py_set2 / py_set_slice2.  The hand-written model keeps a
   finite map [mat] of the cells that are set.  [to_rows size m] is the list-of-rows picture of a model matrix; the
   lemmas below say that each primitive store on [to_rows size m] is the corresponding [mset] / [set_all]. *)
From Coq Require Import ZArith List Bool Lia ZifyBool FMapPositive.
From Segno Require Import Base.PyLite Base.PySem Model.Bits Model.Matrix.
Import ListNotations.
Open Scope Z_scope.

Definition cellZ (o : option bool) : Z := match o with None => 2 | Some b => bit_z b end.
Definition row_of (size : Z) (m : mat) (i : Z) : list Z := map (fun j => cellZ (mget size m i j)) (zrange 0 size).
Definition to_rows (size : Z) (m : mat) : list (list Z) := map (row_of size m) (zrange 0 size).

(* ---- lists indexed by zrange ---- *)
Lemma zrange_aux_nth n : forall a k, (k < n)%nat -> nth_error (zrange_aux n a) k = Some (a + Z.of_nat k).
Proof.
  induction n as [|n IH]; intros a k Hk; [lia|]. cbn [zrange_aux].
  destruct k as [|k]; cbn [nth_error]; [f_equal; lia|]. rewrite IH by lia. f_equal. lia.
Qed.

Lemma lenZ_map {A B} (f : A -> B) l : lenZ (map f l) = lenZ l.
Proof. unfold lenZ. now rewrite map_length. Qed.
Lemma lenZ_zrange0 n : 0 <= n -> lenZ (zrange 0 n) = n.
Proof. intros H. unfold lenZ, zrange. rewrite zrange_aux_length. lia. Qed.

Lemma nthZ_map_zrange {A} (f : Z -> A) n k : 0 <= k < n -> nthZ (map f (zrange 0 n)) k = Ok (f k).
Proof.
  intros Hk. unfold nthZ. destruct (k <? 0) eqn:E; [lia|]. rewrite nth_error_map. unfold zrange.
  rewrite zrange_aux_nth by lia. cbn. f_equal. f_equal. lia.
Qed.

Lemma upd_map_zrange_aux {A} (f : Z -> A) x n : forall a k,
  upd_nat (map f (zrange_aux n a)) k x = map (fun z => if z =? a + Z.of_nat k then x else f z) (zrange_aux n a).
Proof.
  induction n as [|n IH]; intros a k; [reflexivity|]. cbn [zrange_aux map].
  destruct k as [|k]; cbn [upd_nat].
  - replace (a =? a + Z.of_nat 0) with true by lia. f_equal.
    apply map_ext_in. intros z Hz. apply zrange_aux_In_inv in Hz. destruct (z =? a + Z.of_nat 0) eqn:E; [lia|reflexivity].
  - replace (a =? a + Z.of_nat (S k)) with false by lia. f_equal. rewrite IH.
    apply map_ext. intros z. replace (a + 1 + Z.of_nat k) with (a + Z.of_nat (S k)) by lia. reflexivity.
Qed.
Lemma upd_map_zrange {A} (f : Z -> A) x n k : 0 <= k ->
  upd_nat (map f (zrange 0 n)) (Z.to_nat k) x = map (fun z => if z =? k then x else f z) (zrange 0 n).
Proof.
  intros Hk. unfold zrange. rewrite upd_map_zrange_aux. apply map_ext. intros z.
  replace (0 + Z.of_nat (Z.to_nat k)) with k by lia. reflexivity.
Qed.

(* ---- the finite map ---- *)
Lemma idx_inj s i j i' j' :
  0 <= i -> 0 <= j < s -> 0 <= i' -> 0 <= j' < s -> idx s i j = idx s i' j' -> i = i' /\ j = j'.
Proof.
  unfold idx. intros Hi Hj Hi' Hj' H.
  apply Z2Pos.inj in H; [|nia|nia].
  assert (Hii : i = i').
  { destruct (Z.lt_trichotomy i i') as [Hlt|[Heq|Hgt]]; [exfalso; nia|exact Heq|exfalso; nia]. }
  subst i'. split; [reflexivity|lia].
Qed.

Lemma mget_mset s m i j b i' j' :
  0 <= i -> 0 <= j < s -> 0 <= i' -> 0 <= j' < s ->
  mget s (mset s m i j b) i' j' = if (i =? i') && (j =? j') then Some b else mget s m i' j'.
Proof.
  intros Hi Hj Hi' Hj'. unfold mget, mset.
  destruct (Pos.eqb_spec (idx s i j) (idx s i' j')) as [Heq|Hne].
  - rewrite Heq, PM.gss. apply idx_inj in Heq; try assumption. destruct Heq as [-> ->].
    now rewrite !Z.eqb_refl.
  - rewrite PM.gso by congruence.
    destruct ((i =? i') && (j =? j')) eqn:E; [|reflexivity]. exfalso. apply Hne. f_equal; lia.
Qed.

Lemma set_all_app s m a b : set_all s m (a ++ b) = set_all s (set_all s m a) b.
Proof. unfold set_all. apply fold_left_app. Qed.
Lemma set_all_cons s m i j b r : set_all s m ((i, j, b) :: r) = set_all s (mset s m i j b) r.
Proof. reflexivity. Qed.
Lemma set_all_nil s m : set_all s m [] = m.
Proof. reflexivity. Qed.

Lemma set_all_res_app s l1 : forall m l2,
  set_all_res s m (l1 ++ l2) = do m1 <- set_all_res s m l1; set_all_res s m1 l2.
Proof.
  induction l1 as [|[[i j] rb] r IH]; intros m l2; [reflexivity|]. cbn [app set_all_res].
  destruct rb as [b|e]; cbn [bind]; [apply IH|reflexivity].
Qed.

(* cells whose values are all present *)
Lemma set_all_res_ok s cells : forall m,
  set_all_res s m (map (fun c => (fst (fst c), snd (fst c), Ok (snd c))) cells) = Ok (set_all s m cells).
Proof.
  induction cells as [|[[i j] b] r IH]; intros m; [reflexivity|]. cbn [map set_all_res fst snd bind]. apply IH.
Qed.

(* ---- dimensions ---- *)
Lemma lenZ_to_rows size m : 0 <= size -> lenZ (to_rows size m) = size.
Proof. intros H. unfold to_rows. now rewrite lenZ_map, lenZ_zrange0. Qed.
Lemma lenZ_row_of size m i : 0 <= size -> lenZ (row_of size m i) = size.
Proof. intros H. unfold row_of. now rewrite lenZ_map, lenZ_zrange0. Qed.

Lemma norm_index_pyi size i : 0 <= pyi size i < size -> py_norm_index size i = Ok (pyi size i).
Proof.
  intros H. unfold py_norm_index, pyi in *. destruct (i <? 0); destruct (0 <=? _) eqn:E1; try lia;
    destruct (_ <? size) eqn:E2; try lia; reflexivity.
Qed.

Lemma row_index_repr size m i : 0 <= size -> 0 <= pyi size i < size ->
  py_row_index (to_rows size m) i = Ok (pyi size i).
Proof. intros Hs H. unfold py_row_index. rewrite lenZ_to_rows by assumption. now apply norm_index_pyi. Qed.

Lemma pyi_nonneg size i : 0 <= i -> pyi size i = i.
Proof. intros H. unfold pyi. destruct (i <? 0) eqn:E; [lia|reflexivity]. Qed.

(* ---- one cell ---- *)
Lemma row_of_mset size m i j b i' : 0 <= i < size -> 0 <= j < size -> 0 <= i' < size ->
  row_of size (mset size m i j b) i' =
  if i' =? i then map (fun z => if z =? j then bit_z b else cellZ (mget size m i z)) (zrange 0 size)
  else row_of size m i'.
Proof.
  intros Hi Hj Hi'. unfold row_of. destruct (i' =? i) eqn:E.
  - assert (i' = i) by lia. subst i'. apply map_ext_in. intros z Hz. apply zrange_In_inv in Hz.
    rewrite mget_mset by lia. rewrite Z.eqb_refl. cbn [andb]. rewrite (Z.eqb_sym j z).
    destruct (z =? j); reflexivity.
  - apply map_ext_in. intros z Hz. apply zrange_In_inv in Hz. rewrite mget_mset by lia.
    rewrite (Z.eqb_sym i i'), E. reflexivity.
Qed.

Theorem set2_repr size m i j b :
  0 <= pyi size i < size -> 0 <= pyi size j < size ->
  py_set2 (to_rows size m) i j (bit_z b) = Ok (to_rows size (mset size m (pyi size i) (pyi size j) b)).
Proof.
  intros Hi Hj. assert (Hs : 0 <= size) by lia.
  unfold py_set2. rewrite row_index_repr by assumption. cbn [bind].
  unfold to_rows at 1. rewrite nthZ_map_zrange by assumption. cbn [bind].
  unfold py_set_item. replace (is_byte (bit_z b)) with true by (now destruct b).
  rewrite lenZ_row_of by assumption. rewrite norm_index_pyi by assumption. cbn [bind]. f_equal.
  unfold to_rows. rewrite upd_map_zrange by lia.
  apply map_ext_in. intros i' Hi'. apply zrange_In_inv in Hi'.
  rewrite row_of_mset by lia. destruct (i' =? pyi size i); [|reflexivity].
  unfold row_of. apply upd_map_zrange. lia.
Qed.

(* with row = matrix[i] bound before: the index is already normalised *)
Corollary set2_repr_nn size m i j b :
  0 <= i < size -> 0 <= pyi size j < size ->
  py_set2 (to_rows size m) i j (bit_z b) = Ok (to_rows size (mset size m i (pyi size j) b)).
Proof.
  intros Hi Hj. assert (E : pyi size i = i) by (apply pyi_nonneg; lia).
  rewrite set2_repr; [now rewrite E | rewrite E; lia | assumption].
Qed.

Lemma get2_repr size m i j : 0 <= pyi size i < size -> 0 <= pyi size j < size ->
  py_get2 (to_rows size m) i j = Ok (cellZ (mget size m (pyi size i) (pyi size j))).
Proof.
  intros Hi Hj. assert (Hs : 0 <= size) by lia. unfold py_get2, py_index.
  change (Z.of_nat (length (to_rows size m))) with (lenZ (to_rows size m)).
  rewrite lenZ_to_rows by assumption. fold (pyi size i). unfold to_rows.
  rewrite nthZ_map_zrange by assumption. cbn [bind].
  change (Z.of_nat (length (row_of size m (pyi size i)))) with (lenZ (row_of size m (pyi size i))).
  rewrite lenZ_row_of by assumption. fold (pyi size j).
  unfold row_of. now rewrite nthZ_map_zrange.
Qed.

(* ---- a slice of a row: row[j : j + n] = values ---- *)
Lemma firstn_map_zrange_aux {A} (f : Z -> A) n : forall a k, (k <= n)%nat ->
  firstn k (map f (zrange_aux n a)) = map f (zrange_aux k a).
Proof.
  induction n as [|n IH]; intros a k Hk.
  - assert (k = 0)%nat by lia. subst. reflexivity.
  - destruct k as [|k]; [reflexivity|]. cbn [zrange_aux map firstn]. f_equal. apply IH. lia.
Qed.
Lemma skipn_map_zrange_aux {A} (f : Z -> A) n : forall a k, (k <= n)%nat ->
  skipn k (map f (zrange_aux n a)) = map f (zrange_aux (n - k) (a + Z.of_nat k)).
Proof.
  induction n as [|n IH]; intros a k Hk.
  - assert (k = 0)%nat by lia. subst. reflexivity.
  - destruct k as [|k].
    + cbn [skipn]. replace (a + Z.of_nat 0) with a by lia. now rewrite Nat.sub_0_r.
    + cbn [zrange_aux map skipn]. rewrite IH by lia. replace (a + 1 + Z.of_nat k) with (a + Z.of_nat (S k)) by lia.
      reflexivity.
Qed.
Lemma zrange_aux_app n1 : forall n2 a, zrange_aux (n1 + n2) a = zrange_aux n1 a ++ zrange_aux n2 (a + Z.of_nat n1).
Proof.
  induction n1 as [|n1 IH]; intros n2 a; cbn [zrange_aux Nat.add app].
  - now replace (a + Z.of_nat 0) with a by lia.
  - f_equal. rewrite IH. do 2 f_equal. lia.
Qed.

(* cells (i, j + c, f c) for c in range(n), as the model writes them *)
Definition slice_cells (i j n : Z) (f : Z -> bool) : list (Z * Z * bool) :=
  map (fun c => (i, j + c, f c)) (zrange 0 n).

Lemma mget_set_slice size i j f : forall n m i' z, 0 <= i < size -> 0 <= j -> j + Z.of_nat n <= size ->
  0 <= i' < size -> 0 <= z < size ->
  mget size (set_all size m (map (fun c => (i, j + c, f c)) (zrange_aux n 0))) i' z =
  if (i' =? i) && (j <=? z) && (z <? j + Z.of_nat n) then Some (f (z - j)) else mget size m i' z.
Proof.
  induction n as [|n IH]; intros m i' z Hi Hj Hn Hi' Hz.
  - cbn [zrange_aux map]. rewrite set_all_nil.
    destruct (i' =? i) eqn:E0, (j <=? z) eqn:E1, (z <? j + Z.of_nat 0) eqn:E2; cbn [andb]; try reflexivity; lia.
  - replace (S n) with (n + 1)%nat by lia. rewrite zrange_aux_app, map_app, set_all_app. cbn [zrange_aux map].
    rewrite set_all_cons, set_all_nil. rewrite mget_mset by lia. rewrite IH by lia.
    destruct (i =? i') eqn:E1, (j + (0 + Z.of_nat n) =? z) eqn:E2; cbn [andb].
    + replace (i' =? i) with true by lia. replace (j <=? z) with true by lia.
      replace (z <? j + Z.of_nat (n + 1)) with true by lia. cbn [andb]. do 2 f_equal. lia.
    + replace (i' =? i) with true by lia. cbn [andb].
      destruct (j <=? z) eqn:E3; cbn [andb]; [|reflexivity].
      destruct (z <? j + Z.of_nat n) eqn:E4; destruct (z <? j + Z.of_nat (n + 1)) eqn:E5; try reflexivity; lia.
    + replace (i' =? i) with false by lia. reflexivity.
    + replace (i' =? i) with false by lia. reflexivity.
Qed.

Lemma map_zrange_aux_shift {A} (F : Z -> A) j n : forall a,
  map (fun z => F (z - j)) (zrange_aux n (a + j)) = map F (zrange_aux n a).
Proof.
  induction n as [|n IH]; intros a; [reflexivity|]. cbn [zrange_aux map]. f_equal; [f_equal; lia|].
  replace (a + j + 1) with (a + 1 + j) by lia. apply IH.
Qed.

(* row[j : j + n] = vals on lists indexed by zrange *)
Lemma splice_map_zrange {A} (g h : Z -> A) size j n : 0 <= j -> 0 <= n -> j + n <= size ->
  firstn (Z.to_nat j) (map g (zrange 0 size)) ++ map h (zrange 0 n) ++ skipn (Z.to_nat (j + n)) (map g (zrange 0 size))
  = map (fun z => if (j <=? z) && (z <? j + n) then h (z - j) else g z) (zrange 0 size).
Proof.
  intros Hj Hn Hjn. unfold zrange. rewrite !Z.sub_0_r.
  rewrite firstn_map_zrange_aux by lia. rewrite skipn_map_zrange_aux by lia.
  replace (Z.to_nat size) with (Z.to_nat j + (Z.to_nat n + (Z.to_nat size - Z.to_nat (j + n))))%nat at 2 by lia.
  rewrite !zrange_aux_app, !map_app. f_equal; [|f_equal].
  - apply map_ext_in. intros z Hz. apply zrange_aux_In_inv in Hz. destruct (j <=? z) eqn:E; [lia|reflexivity].
  - rewrite <- (map_zrange_aux_shift h j (Z.to_nat n) 0).
    replace (0 + Z.of_nat (Z.to_nat j)) with (0 + j) by lia.
    apply map_ext_in. intros z Hz. apply zrange_aux_In_inv in Hz.
    destruct (j <=? z) eqn:E1; [|lia]. destruct (z <? j + n) eqn:E2; [reflexivity|lia].
  - replace (0 + Z.of_nat (Z.to_nat j) + Z.of_nat (Z.to_nat n)) with (0 + Z.of_nat (Z.to_nat (j + n))) by lia.
    apply map_ext_in. intros z Hz. apply zrange_aux_In_inv in Hz.
    destruct (z <? j + n) eqn:E2; [lia|]. now rewrite andb_false_r.
Qed.

Theorem set_slice2_repr size m i j n f :
  0 <= pyi size i < size -> 0 <= j -> 0 <= n -> j + n <= size ->
  py_set_slice2 (to_rows size m) i j (j + n) (map (fun c => bit_z (f c)) (zrange 0 n))
  = Ok (to_rows size (set_all size m (slice_cells (pyi size i) j n f))).
Proof.
  intros Hi Hj Hn Hjn. assert (Hs : 0 <= size) by lia.
  unfold py_set_slice2. rewrite row_index_repr by assumption. cbn [bind].
  unfold to_rows at 1. rewrite nthZ_map_zrange by assumption. cbn [bind].
  unfold py_set_slice.
  replace (forallb is_byte (map (fun c => bit_z (f c)) (zrange 0 n))) with true.
  2:{ symmetry. apply forallb_forall. intros x Hx. apply in_map_iff in Hx. destruct Hx as [c [<- _]]. now destruct (f c). }
  cbn [bind]. f_equal. rewrite lenZ_row_of by assumption.
  unfold py_clip. destruct (j <? 0) eqn:E1; [lia|]. destruct (j + n <? 0) eqn:E2; [lia|].
  rewrite !Z.min_l by lia. rewrite Z.max_r by lia.
  unfold row_of at 1 2. rewrite splice_map_zrange by lia.
  unfold to_rows. rewrite upd_map_zrange by lia.
  apply map_ext_in. intros i' Hi'. apply zrange_In_inv in Hi'.
  unfold row_of. destruct (i' =? pyi size i) eqn:Ei.
  - assert (Hii : i' = pyi size i) by lia. rewrite Hii.
    apply map_ext_in. intros z Hz. apply zrange_In_inv in Hz.
    unfold slice_cells, zrange. rewrite Z.sub_0_r. rewrite mget_set_slice by lia.
    replace (j + Z.of_nat (Z.to_nat n)) with (j + n) by lia. rewrite Z.eqb_refl. cbn [andb].
    destruct ((j <=? z) && (z <? j + n)); reflexivity.
  - apply map_ext_in. intros z Hz. apply zrange_In_inv in Hz.
    unfold slice_cells, zrange. rewrite Z.sub_0_r. rewrite mget_set_slice by lia.
    rewrite Ei. reflexivity.
Qed.

Lemma pyi_neg size i : i < 0 -> pyi size i = i + size.
Proof. intros H. unfold pyi. destruct (i <? 0) eqn:E; [reflexivity|lia]. Qed.

Corollary set2_repr_pos size m i j b : 0 <= i < size -> 0 <= j < size ->
  py_set2 (to_rows size m) i j (bit_z b) = Ok (to_rows size (mset size m i j b)).
Proof.
  intros Hi Hj. assert (Ei : pyi size i = i) by (apply pyi_nonneg; lia).
  assert (Ej : pyi size j = j) by (apply pyi_nonneg; lia).
  rewrite set2_repr; [now rewrite Ei, Ej | rewrite Ei; lia | rewrite Ej; lia].
Qed.

Corollary row_index_repr_pos size m i : 0 <= i < size -> py_row_index (to_rows size m) i = Ok i.
Proof.
  intros Hi. assert (Ei : pyi size i = i) by (apply pyi_nonneg; lia).
  rewrite row_index_repr; [now rewrite Ei | lia | rewrite Ei; lia].
Qed.

Lemma pyi_range_pos size i : 0 <= i < size -> 0 <= pyi size i < size.
Proof. intros H. rewrite pyi_nonneg; lia. Qed.
Lemma pyi_range_neg size i : - size <= i < 0 -> 0 <= pyi size i < size.
Proof. intros H. rewrite pyi_neg; lia. Qed.
Ltac pyi_solve := solve [apply pyi_range_pos; lia | apply pyi_range_neg; lia | lia].
