(* Bridge theorems for the colour helpers of segno/writers.py, translated by gen/translate_colors.py into
   build/gen/SrcColor.v: every translated function equals the hand-written model Model/Color.v for every colour value of the
   model's type (a str given by its code points, or a tuple of ints), the ValueError cases included.

   Floats.  The model gives a float alpha as an integer number of 1/10000 ([Color.alpha_value]); the translated code
   computes with binary64 floats (PrimFloat).  [units_float u] is the float Python writes u/10000 -- the correctly rounded
   quotient, float('0.51') for u = 5100 -- and [tag_rgba] turns the model's tuple into the tuple of ints / floats the code
   returns.  Facts about float computations are obtained by evaluation over the 256 alpha bytes only (no float axiom). *)
From Coq Require Import ZArith List Bool Lia.
From Coq Require PrimFloat.
From Coq Require String Ascii.
Import Coq.Strings.String.StringSyntax.
From Segno Require Import Base.PyLite Base.PyCase Base.PySem Base.PySemExt Base.PySemIO Base.PySemColor Model.Color.
From Segno Require Model.Svg.
From Segno Require Tie.TieTables.
From SegnoSrc Require Import SrcColor.
From SegnoSrc Require SrcTables.
Import ListNotations.
Open Scope Z_scope.

(* the colour arguments of the translated functions (PySemIO.py_color) seen from the model (Color.pycolor) *)
Definition to_py_color (c : pycolor) : py_color :=
  match c with CStr s => PyCStr s | CTuple t => PyCTuple t end.

Definition units_float (u : Z) : py_float := PrimFloat.div (py_float_of_Z u) (py_float_of_Z 10000).
Definition tag_alpha (af : bool) (a : Z) : py_cnum := if af then PyNFlt (units_float a) else PyNInt a.
Definition tag_rgba (af : bool) (l : list Z) : list py_cnum :=
  match l with [r; g; b; a] => [PyNInt r; PyNInt g; PyNInt b; tag_alpha af a] | _ => map PyNInt l end.

Lemma bind_ret' {A} (r : res A) : (do x <- r; Ok x) = r.
Proof. now destruct r. Qed.

Lemma map_eq_In {A B} (f g : A -> B) l x : map f l = map g l -> In x l -> f x = g x.
Proof.
  induction l as [|y r IH]; cbn [map In]; intros Hm Hin; [contradiction|].
  injection Hm as H1 H2. destruct Hin as [->|Hin]; auto.
Qed.

(* ------------------------------------------------------------------ 1. _alpha_value *)
(* the float code (int -> float, / 255.0, '%.02f' %, float(), the dict of shortcuts) run by the kernel for every byte *)
Lemma alpha_sweep :
  map (fun c => src__alpha_value (PyNInt c) true) (zrange 0 256)
  = map (fun c => do a <- alpha_value c true; Ok (tag_alpha true a)) (zrange 0 256).
Proof. vm_compute. reflexivity. Qed.

Theorem src_alpha_value_is_model : forall (c : Z) (af : bool),
  src__alpha_value (PyNInt c) af = do a <- alpha_value c af; Ok (tag_alpha af a).
Proof.
  intros c af. destruct ((0 <=? c) && (c <=? 255)) eqn:Er.
  - destruct af.
    + apply (map_eq_In _ _ _ c alpha_sweep). apply zrange_In. apply andb_true_iff in Er. destruct Er as [E1 E2].
      apply Z.leb_le in E1. apply Z.leb_le in E2. lia.
    + unfold src__alpha_value, alpha_value. unfold Z.leb in Er |- *. rewrite Er. reflexivity.
  - unfold src__alpha_value, alpha_value. unfold Z.leb in Er |- *. rewrite Er. now destruct af.
Qed.
Print Assumptions src_alpha_value_is_model.

(* ------------------------------------------------------------------ 2. str helpers, int(s, 16) *)
Definition HEXCH : list Z := [48; 49; 50; 51; 52; 53; 54; 55; 56; 57; 97; 98; 99; 100; 101; 102; 65; 66; 67; 68; 69; 70].
Definition is_hexb (c : Z) : bool := memZ c HEXCH.
Definition hv (c : Z) : Z := match hexval c with Some v => v | None => 0 end.
Definition pairval (a b : Z) : Z := 16 * hv a + hv b.

Lemma py_list_eqb_str_eqb a : forall b, py_list_eqb a b = str_eqb a b.
Proof. induction a as [|x a IH]; intros [|y b]; cbn [py_list_eqb str_eqb]; try reflexivity; now rewrite IH. Qed.

Lemma lenZ_nonneg {A} (l : list A) : 0 <= lenZ l.
Proof. unfold lenZ. lia. Qed.

Lemma find_suffix_single c : forall l pos, 0 <= pos -> (0 <=? py_find_suffix [c] l pos) = memZ c l.
Proof.
  induction l as [|x r IH]; intros pos Hp; cbn [py_find_suffix py_starts_with memZ existsb].
  - reflexivity.
  - rewrite andb_true_r. destruct (c =? x); cbn [orb].
    + apply Z.leb_le. lia.
    + apply IH. lia.
Qed.

(* c in '<literal>' for a one-character str c *)
Lemma py_str_in_single c hay : py_str_in [c] hay = memZ c hay.
Proof.
  unfold py_str_in, py_find. unfold py_clip. replace (0 <? 0) with false by reflexivity.
  rewrite Z.min_l by apply lenZ_nonneg. change (lenZ [c]) with 1.
  destruct hay as [|x r].
  - reflexivity.
  - replace (lenZ (x :: r) <? 0 + 1) with false.
    2:{ symmetry. apply Z.ltb_ge. unfold lenZ. cbn [length]. lia. }
    change (skipn (Z.to_nat 0) (x :: r)) with (x :: r). now apply find_suffix_single.
Qed.

Lemma py_all_hex l : py_all (map (fun c => py_str_in c HEXCH) (py_str_chars l)) = forallb is_hexb l.
Proof.
  unfold py_all, py_str_chars. induction l as [|c r IH]; cbn [map forallb]; [reflexivity|].
  rewrite IH. now rewrite py_str_in_single.
Qed.

Lemma memZ_In x l : memZ x l = true <-> In x l.
Proof.
  unfold memZ. rewrite existsb_exists. split.
  - intros (y & Hy & E). apply Z.eqb_eq in E. now subst.
  - intros H. exists x. split; [assumption|apply Z.eqb_refl].
Qed.

(* the characters the source accepts are those with a hexadecimal value in the model *)
Lemma is_hexb_hexval c : is_hexb c = match hexval c with Some _ => true | None => false end.
Proof.
  unfold is_hexb. destruct (memZ c HEXCH) eqn:E.
  - apply memZ_In in E. unfold HEXCH in E. cbn [In] in E.
    repeat (destruct E as [<-|E]; [reflexivity|]). contradiction.
  - unfold hexval.
    destruct ((48 <=? c) && (c <=? 57)) eqn:E1; [|destruct ((97 <=? c) && (c <=? 102)) eqn:E2; [|destruct ((65 <=? c) && (c <=? 70)) eqn:E3; [|reflexivity]]];
      exfalso; (assert (Hin : In c HEXCH); [|apply memZ_In in Hin; congruence]); unfold HEXCH; cbn [In];
      match goal with H : _ && _ = true |- _ => apply andb_true_iff in H; destruct H as [Ha Hb]; apply Z.leb_le in Ha; apply Z.leb_le in Hb end; lia.
Qed.

(* int(two hex digits, 16), for the 22 x 22 pairs of accepted characters *)
Lemma int16_sweep :
  forallb (fun a => forallb (fun b => match py_int_str16 [a; b], int16_2 a b with
                                      | Ok x, Ok y => (x =? pairval a b) && (y =? pairval a b)
                                      | _, _ => false end) HEXCH) HEXCH = true.
Proof. vm_compute. reflexivity. Qed.

Lemma int16_pair a b : is_hexb a = true -> is_hexb b = true ->
  py_int_str16 [a; b] = Ok (pairval a b) /\ int16_2 a b = Ok (pairval a b).
Proof.
  intros Ha Hb. apply memZ_In in Ha. apply memZ_In in Hb.
  pose proof int16_sweep as H. rewrite forallb_forall in H. specialize (H a Ha). rewrite forallb_forall in H. specialize (H b Hb).
  destruct (py_int_str16 [a; b]) as [x|e]; [|discriminate]. destruct (int16_2 a b) as [y|e]; [|discriminate].
  apply andb_true_iff in H. destruct H as [H1 H2]. apply Z.eqb_eq in H1. apply Z.eqb_eq in H2. now subst.
Qed.

Lemma int16_2_bad a b : is_hexb a && is_hexb b = false -> int16_2 a b = Err ValueError.
Proof.
  rewrite !is_hexb_hexval. unfold int16_2. destruct (hexval a), (hexval b); cbn; intros H; try reflexivity; discriminate.
Qed.

Lemma pairs_hex_bad : forall n l, (length l <= n)%nat -> forallb is_hexb l = false -> pairs_hex l = Err ValueError.
Proof.
  induction n as [|n IH]; intros l Hl Hf.
  - destruct l; [discriminate|cbn in Hl; lia].
  - destruct l as [|a [|b r]]; [discriminate|reflexivity|].
    cbn [pairs_hex]. cbn [forallb] in Hf. rewrite andb_assoc in Hf.
    destruct (is_hexb a && is_hexb b) eqn:Eab.
    + apply andb_true_iff in Eab. destruct Eab as [Ea Eb]. destruct (int16_pair a b Ea Eb) as [_ ->]. cbn [bind].
      cbn [andb] in Hf. rewrite IH; [reflexivity| |assumption]. cbn [length] in Hl. lia.
    + now rewrite int16_2_bad.
Qed.

(* ------------------------------------------------------------------ 3. _hex_to_rgb_or_rgba *)
Definition strip (s : list Z) : list Z := match s with c0 :: rest => if c0 =? 35 then rest else s | [] => [] end.
Definition expand (body : list Z) : list Z :=
  if (2 <? lenZ body) && (lenZ body <? 5) then flat_map (fun c => [c; c]) body else body.

(* the translated function after the expansion step (the text of build/gen/SrcColor.v; src_hex_unfold checks it by conversion) *)
Definition src_parse (color : list Z) (alpha_float : bool) : res (list py_cnum) :=
 (let color_len := (lenZ color) in
 (if (orb (negb (orb (Z.eqb color_len 6) (orb (Z.eqb color_len 8) false))) (negb (py_all (map (fun c => (py_str_in c HEXCH)) (py_str_chars color)))))
 then Err ValueError
 else (do t'3 <- (py_range3 0 color_len 2);
 (do t'5 <- (py_seq_res (map (fun i => (do t'4 <- (py_int_str16 (py_slice color i (Z.add i 2)));
 (Ok t'4))) t'3));
 (let res_py := (py_cnums_of_ints t'5) in
 (do res_py <- (if (andb alpha_float (Z.eqb color_len 8))
 then (do t'6 <- (py_index res_py 3);
 (do t'7 <- (src__alpha_value t'6 alpha_float);
 (let res_py := ((py_slice res_py 0 3) ++ [t'7]) in
 (Ok res_py))))
 else (Ok res_py));
 Ok res_py)))))).

Lemma src_hex_unfold color af :
  src__hex_to_rgb_or_rgba color af =
  (let color := if py_list_eqb (py_slice color 0 1) [35] then py_slice_from color 1 else color in
   do color <- (if (2 <? lenZ color) && (lenZ color <? 5)
                then (do t <- py_seq_res (map (fun i => do t1 <- py_str_index color i; Ok (py_repeat t1 2)) (zrange 0 (lenZ color)));
                      Ok (py_join [] t))
                else Ok color);
   src_parse color af).
Proof. reflexivity. Qed.

Definition model_parse (color : list Z) (af : bool) : res (list Z) :=
  if negb ((lenZ color =? 6) || (lenZ color =? 8)) then Err ValueError else
  do vals <- pairs_hex color;
  if af && (lenZ color =? 8) then
    match vals with [r; g; b; a] => do a' <- alpha_value a af; Ok [r; g; b; a'] | _ => Err ValueError end
  else Ok vals.

Lemma model_hex_unfold s af : hex_to_rgb_or_rgba s af = model_parse (expand (strip s)) af.
Proof. destruct s as [|c0 rest]; reflexivity. Qed.

Lemma strip_src s : (if py_list_eqb (py_slice s 0 1) [35] then py_slice_from s 1 else s) = strip s.
Proof.
  destruct s as [|c0 rest]; [reflexivity|].
  assert (H1 : py_slice (c0 :: rest) 0 1 = [c0]).
  { unfold py_slice, py_clip. replace (0 <? 0) with false by reflexivity. replace (1 <? 0) with false by reflexivity.
    rewrite (Z.min_l 0) by apply lenZ_nonneg. rewrite (Z.min_l 1) by (unfold lenZ; cbn [length]; lia). reflexivity. }
  rewrite H1. cbn [py_list_eqb strip]. rewrite andb_true_r. reflexivity.
Qed.

Lemma len_explicit {A} (l : list A) :
  (lenZ l = 3 -> exists a b c, l = [a; b; c]) /\
  (lenZ l = 4 -> exists a b c d, l = [a; b; c; d]) /\
  (lenZ l = 6 -> exists a b c d e f, l = [a; b; c; d; e; f]) /\
  (lenZ l = 8 -> exists a b c d e f g h, l = [a; b; c; d; e; f; g; h]).
Proof.
  unfold lenZ.
  destruct l as [|a [|b [|c [|d [|e [|f [|g [|h [|i t]]]]]]]]]; cbn [length]; repeat split; intros H; try lia.
  - now exists a, b, c.
  - now exists a, b, c, d.
  - now exists a, b, c, d, e, f.
  - now exists a, b, c, d, e, f, g, h.
Qed.

Lemma expand_src body :
  (if (2 <? lenZ body) && (lenZ body <? 5)
   then (do t <- py_seq_res (map (fun i => do t1 <- py_str_index body i; Ok (py_repeat t1 2)) (zrange 0 (lenZ body)));
         Ok (py_join [] t))
   else Ok body) = Ok (expand body).
Proof.
  unfold expand. destruct ((2 <? lenZ body) && (lenZ body <? 5)) eqn:E; [|reflexivity].
  apply andb_true_iff in E. destruct E as [E1 E2]. apply Z.ltb_lt in E1. apply Z.ltb_lt in E2.
  assert (Hl : lenZ body = 3 \/ lenZ body = 4) by lia.
  destruct (len_explicit body) as (H3 & H4 & _).
  destruct Hl as [Hl|Hl].
  - destruct (H3 Hl) as (a & b & c & ->). reflexivity.
  - destruct (H4 Hl) as (a & b & c & d & ->). reflexivity.
Qed.

Arguments py_int_str16 : simpl never.
Arguments int16_2 : simpl never.
Arguments src__alpha_value : simpl never.
Arguments alpha_value : simpl never.
Arguments is_hexb : simpl never.

Lemma parse_ok color af : src_parse color af = do r <- model_parse color af; Ok (tag_rgba af r).
Proof.
  unfold src_parse, model_parse. cbv zeta. rewrite py_all_hex. rewrite orb_false_r.
  destruct ((lenZ color =? 6) || (lenZ color =? 8)) eqn:El; cbn [negb orb]; [|reflexivity].
  destruct (forallb is_hexb color) eqn:Eh; cbn [negb].
  2:{ rewrite (pairs_hex_bad (length color) color (le_n _) Eh). reflexivity. }
  destruct (len_explicit color) as (_ & _ & H6 & H8).
  apply orb_true_iff in El. destruct El as [El|El]; apply Z.eqb_eq in El.
  - destruct (H6 El) as (d1 & d2 & d3 & d4 & d5 & d6 & ->). clear H6 H8 El.
    cbn [forallb] in Eh. repeat (apply andb_true_iff in Eh; destruct Eh as [?E Eh]).
    destruct (int16_pair d1 d2) as [S1 M1]; try assumption.
    destruct (int16_pair d3 d4) as [S2 M2]; try assumption.
    destruct (int16_pair d5 d6) as [S3 M3]; try assumption.
    change (lenZ [d1; d2; d3; d4; d5; d6]) with 6. change (6 =? 8) with false. rewrite andb_false_r.
    change (py_range3 0 6 2) with (Ok [0; 2; 4]). cbn [bind map].
    change (py_slice [d1; d2; d3; d4; d5; d6] 0 (0 + 2)) with [d1; d2].
    change (py_slice [d1; d2; d3; d4; d5; d6] 2 (2 + 2)) with [d3; d4].
    change (py_slice [d1; d2; d3; d4; d5; d6] 4 (4 + 2)) with [d5; d6].
    rewrite S1, S2, S3. cbn [pairs_hex]. rewrite M1, M2, M3. reflexivity.
  - destruct (H8 El) as (d1 & d2 & d3 & d4 & d5 & d6 & d7 & d8 & ->). clear H6 H8 El.
    cbn [forallb] in Eh. repeat (apply andb_true_iff in Eh; destruct Eh as [?E Eh]).
    destruct (int16_pair d1 d2) as [S1 M1]; try assumption.
    destruct (int16_pair d3 d4) as [S2 M2]; try assumption.
    destruct (int16_pair d5 d6) as [S3 M3]; try assumption.
    destruct (int16_pair d7 d8) as [S4 M4]; try assumption.
    change (lenZ [d1; d2; d3; d4; d5; d6; d7; d8]) with 8. change (8 =? 8) with true. rewrite andb_true_r.
    change (py_range3 0 8 2) with (Ok [0; 2; 4; 6]). cbn [bind map].
    change (py_slice [d1; d2; d3; d4; d5; d6; d7; d8] 0 (0 + 2)) with [d1; d2].
    change (py_slice [d1; d2; d3; d4; d5; d6; d7; d8] 2 (2 + 2)) with [d3; d4].
    change (py_slice [d1; d2; d3; d4; d5; d6; d7; d8] 4 (4 + 2)) with [d5; d6].
    change (py_slice [d1; d2; d3; d4; d5; d6; d7; d8] 6 (6 + 2)) with [d7; d8].
    rewrite S1, S2, S3, S4. cbn [pairs_hex]. rewrite M1, M2, M3, M4. cbn [bind py_seq_res py_cnums_of_ints map].
    destruct af; cbn [andb]; [|reflexivity].
    change (py_index [PyNInt (pairval d1 d2); PyNInt (pairval d3 d4); PyNInt (pairval d5 d6); PyNInt (pairval d7 d8)] 3)
      with (Ok (PyNInt (pairval d7 d8))).
    cbn [bind]. rewrite src_alpha_value_is_model.
    destruct (alpha_value (pairval d7 d8) true) as [a|e]; reflexivity.
Qed.

Theorem src_hex_to_rgb_or_rgba_is_model : forall (s : list Z) (af : bool),
  src__hex_to_rgb_or_rgba s af = do r <- hex_to_rgb_or_rgba s af; Ok (tag_rgba af r).
Proof.
  intros s af. rewrite src_hex_unfold, model_hex_unfold. cbv zeta. rewrite strip_src, expand_src. cbn [bind]. apply parse_ok.
Qed.
Print Assumptions src_hex_to_rgb_or_rgba_is_model.

(* ------------------------------------------------------------------ 4. _color_to_rgba *)
(* every value a float alpha can take, in the model's unit *)
Definition alpha_units : list Z := map (fun c => match alpha_value c true with Ok a => a | Err _ => 0 end) (zrange 0 256).
Definition alpha_ok (af : bool) (a : Z) : Prop := af = true -> In a alpha_units.

Lemma alpha_value_units c a af : alpha_value c af = Ok a -> alpha_ok af a.
Proof.
  intros H ->. unfold alpha_units. apply in_map_iff. exists c. rewrite H. split; [reflexivity|].
  apply zrange_In. unfold alpha_value in H. destruct ((0 <=? c) && (c <=? 255)) eqn:E; [|discriminate].
  apply andb_true_iff in E. destruct E as [E1 E2]. apply Z.leb_le in E1. apply Z.leb_le in E2. lia.
Qed.
Lemma opaque_units af : alpha_ok af (opaque af).
Proof. intros ->. apply memZ_In. vm_compute. reflexivity. Qed.

Lemma alpha_value_err c af e : alpha_value c af = Err e -> e = ValueError.
Proof. unfold alpha_value. destruct ((0 <=? c) && (c <=? 255)); [destruct af; [destruct (assocZ c _)|]; discriminate|]. now intros [= <-]. Qed.

Lemma int16_2_err a b e : int16_2 a b = Err e -> e = ValueError.
Proof. unfold int16_2. destruct (hexval a), (hexval b); try discriminate; now intros [= <-]. Qed.

Lemma pairs_hex_err : forall n l e, (length l <= n)%nat -> pairs_hex l = Err e -> e = ValueError.
Proof.
  induction n as [|n IH]; intros l e Hl.
  - destruct l; [discriminate|cbn in Hl; lia].
  - destruct l as [|a [|b r]]; [discriminate|now intros [= <-]|].
    cbn [pairs_hex]. destruct (int16_2 a b) as [v|e1] eqn:E1; cbn [bind].
    + destruct (pairs_hex r) as [t|e2] eqn:E2; cbn [bind]; [discriminate|]. intros [= <-]. apply (IH r); [cbn [length] in Hl; lia|assumption].
    + intros [= <-]. now apply (int16_2_err a b).
Qed.

(* what the model's hex parser returns: three ints, or four with the alpha in the selected unit; it only raises ValueError *)
Lemma model_parse_shape color af :
  match model_parse color af with
  | Ok l => (exists r g b, l = [r; g; b]) \/ (exists r g b a, l = [r; g; b; a] /\ alpha_ok af a)
  | Err e => e = ValueError
  end.
Proof.
  unfold model_parse. destruct ((lenZ color =? 6) || (lenZ color =? 8)) eqn:El; cbn [negb]; [|reflexivity].
  destruct (len_explicit color) as (_ & _ & H6 & H8).
  destruct (pairs_hex color) as [vals|e] eqn:Ep; cbn [bind].
  2:{ now apply (pairs_hex_err (length color) color). }
  apply orb_true_iff in El. destruct El as [El|El]; apply Z.eqb_eq in El.
  - destruct (H6 El) as (d1 & d2 & d3 & d4 & d5 & d6 & ->).
    change (lenZ [d1; d2; d3; d4; d5; d6] =? 8) with false. rewrite andb_false_r.
    cbn [pairs_hex] in Ep. destruct (int16_2 d1 d2), (int16_2 d3 d4), (int16_2 d5 d6); cbn [bind] in Ep; try discriminate.
    injection Ep as <-. left. eauto.
  - destruct (H8 El) as (d1 & d2 & d3 & d4 & d5 & d6 & d7 & d8 & ->).
    change (lenZ [d1; d2; d3; d4; d5; d6; d7; d8] =? 8) with true. rewrite andb_true_r.
    cbn [pairs_hex] in Ep. destruct (int16_2 d1 d2), (int16_2 d3 d4), (int16_2 d5 d6), (int16_2 d7 d8); cbn [bind] in Ep; try discriminate.
    injection Ep as <-. destruct af.
    + destruct (alpha_value a2 true) as [a'|e] eqn:Ea; cbn [bind].
      * right. exists a, a0, a1, a'. split; [reflexivity|]. now apply (alpha_value_units a2).
      * now apply (alpha_value_err a2 true).
    + right. exists a, a0, a1, a2. split; [reflexivity|]. intros Hf. discriminate.
Qed.

Lemma hex_shape s af :
  match hex_to_rgb_or_rgba s af with
  | Ok l => (exists r g b, l = [r; g; b]) \/ (exists r g b a, l = [r; g; b; a] /\ alpha_ok af a)
  | Err e => e = ValueError
  end.
Proof. rewrite model_hex_unfold. apply model_parse_shape. Qed.

Lemma rgba_shape c af l : color_to_rgba c af = Ok l -> exists r g b a, l = [r; g; b; a] /\ alpha_ok af a.
Proof.
  unfold color_to_rgba. destruct c as [s|parts].
  - destruct (assoc_str (py_lower s) Ref.IsoData.NAME2RGB) as [[[r g] b]|].
    + intros [= <-]. exists r, g, b, (opaque af). split; [reflexivity|apply opaque_units].
    + pose proof (hex_shape s af) as Hs. destruct (hex_to_rgb_or_rgba s af) as [v|e].
      * destruct Hs as [(r & g & b & ->)|(r & g & b & a & -> & Ha)]; intros [= <-].
        -- exists r, g, b, (opaque af). split; [reflexivity|apply opaque_units].
        -- exists r, g, b, a. now split.
      * subst e. discriminate.
  - destruct parts as [|r [|g [|b [|a [|x t]]]]]; try discriminate.
    + destruct (_ && _); [|discriminate]. intros [= <-]. exists r, g, b, (opaque af). split; [reflexivity|apply opaque_units].
    + destruct (_ && _); [|discriminate]. destruct (alpha_value a af) as [a'|e] eqn:Ea; cbn [bind]; [|discriminate].
      intros [= <-]. exists r, g, b, a'. split; [reflexivity|]. now apply (alpha_value_units a).
Qed.

Lemma units_float_one : units_float 10000 = py_float_of_Z 1.
Proof. vm_compute. reflexivity. Qed.

Lemma name2rgb_src k : forall tbl,
  py_name2rgb_get tbl k = match assoc_str k tbl with Some (r, g, b) => Ok [r; g; b] | None => Err KeyErr end.
Proof.
  induction tbl as [|[k' [[r g] b]] t IH]; cbn [py_name2rgb_get assoc_str]; [reflexivity|].
  rewrite py_list_eqb_str_eqb. destruct (str_eqb k k'); [reflexivity|apply IH].
Qed.

Lemma src_rgba_tuple parts af :
  src__color_to_rgba (PyCTuple parts) af = do r <- color_to_rgba (CTuple parts) af; Ok (tag_rgba af r).
Proof.
  destruct parts as [|r [|g [|b [|a [|x t]]]]]; try reflexivity.
  - unfold src__color_to_rgba, color_to_rgba. cbv zeta.
    change (lenZ [r; g; b]) with 3. change (py_enumerate_from 0 (py_slice [r; g; b] 0 3)) with [(0, r); (1, g); (2, b)].
    cbn [py_for Z.leb Z.eqb andb orb negb].
    destruct ((0 <=? r) && (r <=? 255)); cbn [negb orb andb]; [|reflexivity].
    destruct ((0 <=? g) && (g <=? 255)); cbn [negb orb andb]; [|reflexivity].
    destruct ((0 <=? b) && (b <=? 255)); cbn [negb orb andb]; [|reflexivity].
    destruct af; cbn; rewrite ?units_float_one; reflexivity.
  - unfold src__color_to_rgba, color_to_rgba. cbv zeta.
    change (lenZ [r; g; b; a]) with 4. change (py_enumerate_from 0 (py_slice [r; g; b; a] 0 3)) with [(0, r); (1, g); (2, b)].
    cbn [py_for Z.leb Z.eqb andb orb negb].
    destruct ((0 <=? r) && (r <=? 255)); cbn [negb orb andb]; [|reflexivity].
    destruct ((0 <=? g) && (g <=? 255)); cbn [negb orb andb]; [|reflexivity].
    destruct ((0 <=? b) && (b <=? 255)); cbn [negb orb andb]; [|reflexivity].
    change (py_index [r; g; b; a] 3) with (Ok a). cbn [bind app Pos.eqb]. rewrite src_alpha_value_is_model.
    destruct (alpha_value a af) as [a'|e]; reflexivity.
  - unfold src__color_to_rgba, color_to_rgba. cbv zeta.
    replace ((3 <=? lenZ (r :: g :: b :: a :: x :: t)) && (lenZ (r :: g :: b :: a :: x :: t) <=? 4)) with false; [reflexivity|].
    symmetry. apply andb_false_iff. right. apply Z.leb_gt. unfold lenZ. cbn [length]. lia.
Qed.

Lemma src_rgba_str s af :
  src__color_to_rgba (PyCStr s) af = do r <- color_to_rgba (CStr s) af; Ok (tag_rgba af r).
Proof.
  unfold src__color_to_rgba, color_to_rgba. cbv zeta.
  rewrite name2rgb_src, TieTables.tie_NAME2RGB. change (py_str_lower s) with (py_lower s).
  destruct (assoc_str (py_lower s) Ref.IsoData.NAME2RGB) as [[[r g] b]|]; cbn [bind].
  - destruct af; cbn; rewrite ?units_float_one; reflexivity.
  - rewrite src_hex_to_rgb_or_rgba_is_model. pose proof (hex_shape s af) as Hs.
    destruct (hex_to_rgb_or_rgba s af) as [v|e]; cbn [bind].
    + destruct Hs as [(r & g & b & ->)|(r & g & b & a & -> & _)].
      * destruct af; cbn; rewrite ?units_float_one; reflexivity.
      * reflexivity.
    + subst e. reflexivity.
Qed.

Theorem src_color_to_rgba_is_model : forall (c : pycolor) (af : bool),
  src__color_to_rgba (to_py_color c) af = do r <- color_to_rgba c af; Ok (tag_rgba af r).
Proof. intros [s|parts] af; [apply src_rgba_str|apply src_rgba_tuple]. Qed.
Print Assumptions src_color_to_rgba_is_model.

(* ------------------------------------------------------------------ 5. _color_to_rgb_or_rgba, _color_to_rgb *)
(* `alpha == 1.0` on the floats that can occur, against `alpha == 10000` in the model's unit *)
Lemma opaque_float_sweep :
  forallb (fun a => Bool.eqb (py_cnum_eqb (PyNFlt (units_float a)) (PyNFlt (py_float_of_Z 1))) (a =? 10000)) alpha_units = true.
Proof. vm_compute. reflexivity. Qed.

Lemma opaque_test af a : alpha_ok af a ->
  py_cnum_eqb (tag_alpha af a) (if af then PyNFlt (py_float_of_Z 1) else PyNInt 255) = (a =? opaque af).
Proof.
  intros Ha. destruct af; [|reflexivity]. cbn [tag_alpha opaque].
  pose proof opaque_float_sweep as H. rewrite forallb_forall in H. specialize (H a (Ha eq_refl)).
  now apply Bool.eqb_prop in H.
Qed.

Theorem src_color_to_rgb_or_rgba_is_model : forall (c : pycolor) (af : bool),
  src__color_to_rgb_or_rgba (to_py_color c) af = do r <- color_to_rgb_or_rgba c af; Ok (tag_rgba af r).
Proof.
  intros c af. unfold src__color_to_rgb_or_rgba, color_to_rgb_or_rgba. rewrite src_color_to_rgba_is_model.
  destruct (color_to_rgba c af) as [l|e] eqn:El; cbn [bind]; [|reflexivity].
  destruct (rgba_shape c af l El) as (r & g & b & a & -> & Ha). cbv zeta.
  change (py_index (tag_rgba af [r; g; b; a]) 3) with (Ok (tag_alpha af a)). cbn [bind].
  rewrite (opaque_test af a Ha). destruct (a =? opaque af); reflexivity.
Qed.
Print Assumptions src_color_to_rgb_or_rgba_is_model.

Lemma rgb_or_rgba_shape c af l : color_to_rgb_or_rgba c af = Ok l ->
  (exists r g b, l = [r; g; b]) \/ (exists r g b a, l = [r; g; b; a]).
Proof.
  unfold color_to_rgb_or_rgba. destruct (color_to_rgba c af) as [v|e] eqn:El; cbn [bind]; [|discriminate].
  destruct (rgba_shape c af v El) as (r & g & b & a & -> & _). destruct (a =? opaque af); intros [= <-]; [left|right]; eauto.
Qed.

(* the result of _color_to_rgb is a tuple of three ints *)
Theorem src_color_to_rgb_is_model : forall (c : pycolor),
  src__color_to_rgb (to_py_color c) = do r <- color_to_rgb c; Ok (map PyNInt r).
Proof.
  intros c. unfold src__color_to_rgb, color_to_rgb. rewrite src_color_to_rgb_or_rgba_is_model.
  destruct (color_to_rgb_or_rgba c true) as [l|e] eqn:El; cbn [bind]; [|reflexivity].
  destruct (rgb_or_rgba_shape c true l El) as [(r & g & b & ->)|(r & g & b & a & ->)]; reflexivity.
Qed.
Print Assumptions src_color_to_rgb_is_model.

(* ------------------------------------------------------------------ 6. _color_is_black, _color_is_white *)
Lemma int_float_one z : py_int_float_eqb z (py_float_of_Z 1) = (z =? 1).
Proof. unfold py_int_float_eqb. change (py_float_int_val (py_float_of_Z 1)) with (Some 1). reflexivity. Qed.

Lemma cnums_ints_eqb : forall p q, py_cnums_eqb (py_cnums_of_ints p) (py_cnums_of_ints q) = py_list_eqb p q.
Proof.
  unfold py_cnums_of_ints. induction p as [|x p IH]; intros [|y q]; cbn [map py_cnums_eqb py_list_eqb py_cnum_eqb]; try reflexivity.
  now rewrite IH.
Qed.

Lemma cnums_alpha1_eqb p r g b :
  py_cnums_eqb (py_cnums_of_ints p) [PyNInt r; PyNInt g; PyNInt b; PyNFlt (py_float_of_Z 1)] = py_list_eqb p [r; g; b; 1].
Proof.
  unfold py_cnums_of_ints. destruct p as [|x1 [|x2 [|x3 [|x4 [|x5 t]]]]]; cbn [map py_cnums_eqb py_list_eqb py_cnum_eqb]; try reflexivity; now rewrite int_float_one.
Qed.

(* a tuple of ints against one of the literal tuples of the membership tests *)
Ltac z_lit x := destruct x as [|x|x]; try reflexivity; repeat (destruct x as [x|x|]; try reflexivity).

Lemma black_tuple p : color_is_black (CTuple p) = py_list_eqb p [0; 0; 0] || (py_list_eqb p [0; 0; 0; 255] || (py_list_eqb p [0; 0; 0; 1] || false)).
Proof.
  destruct p as [|a [|b [|c [|d [|e t]]]]]; try reflexivity.
  - z_lit a.
  - z_lit a. z_lit b.
  - z_lit a. z_lit b. z_lit c.
  - z_lit a. z_lit b. z_lit c. z_lit d.
  - z_lit a. z_lit b. z_lit c. z_lit d.
Qed.
Lemma white_tuple p : color_is_white (CTuple p) = py_list_eqb p [255; 255; 255] || (py_list_eqb p [255; 255; 255; 255] || (py_list_eqb p [255; 255; 255; 1] || false)).
Proof.
  destruct p as [|a [|b [|c [|d [|e t]]]]]; try reflexivity.
  - z_lit a.
  - z_lit a. z_lit b.
  - z_lit a. z_lit b. z_lit c.
  - z_lit a. z_lit b. z_lit c. z_lit d.
  - z_lit a. z_lit b. z_lit c. z_lit d.
Qed.

Theorem src_color_is_black_is_model : forall (c : pycolor), src__color_is_black (to_py_color c) = Ok (color_is_black c).
Proof.
  intros [s|p]; unfold src__color_is_black; cbn [to_py_color py_color_lower bind].
  - cbn [py_color_eq_str py_color_eq_tuple color_is_black]. rewrite !orb_false_r, orb_assoc. reflexivity.
  - cbn [py_color_eq_str py_color_eq_tuple orb]. rewrite black_tuple, !cnums_ints_eqb.
    rewrite cnums_alpha1_eqb. reflexivity.
Qed.
Theorem src_color_is_white_is_model : forall (c : pycolor), src__color_is_white (to_py_color c) = Ok (color_is_white c).
Proof.
  intros [s|p]; unfold src__color_is_white; cbn [to_py_color py_color_lower bind].
  - cbn [py_color_eq_str py_color_eq_tuple color_is_white]. rewrite !orb_false_r, orb_assoc. reflexivity.
  - cbn [py_color_eq_str py_color_eq_tuple orb]. rewrite white_tuple, !cnums_ints_eqb. rewrite cnums_alpha1_eqb. reflexivity.
Qed.
Print Assumptions src_color_is_black_is_model.
Print Assumptions src_color_is_white_is_model.

(* ------------------------------------------------------------------ 7. _make_colormap (square symbols: QR and Micro QR) *)
Definition to_oc (c : ocolor) : option py_color := option_map to_py_color c.
(* an option that was not given is `False` in Python (None here); a given one may itself be None (transparent) *)
Definition to_ooc (o : option ocolor) : option (option py_color) := option_map to_oc o.
Definition to_py_colormap (cm : list (Z * ocolor)) : list (Z * option py_color) := map (fun kv => (fst kv, to_oc (snd kv))) cm.

Lemma pick_src (x : option ocolor) (d : ocolor) :
  match to_ooc x with Some y => y | None => to_oc d end = to_oc (pick x d).
Proof. now destruct x. Qed.

Theorem src_make_colormap_is_model : forall (w : Z) (o : color_opts),
  src__make_colormap w w (to_oc (o_dark o)) (to_oc (o_light o))
    (to_ooc (o_finder_dark o)) (to_ooc (o_finder_light o)) (to_ooc (o_data_dark o)) (to_ooc (o_data_light o))
    (to_ooc (o_version_dark o)) (to_ooc (o_version_light o)) (to_ooc (o_format_dark o)) (to_ooc (o_format_light o))
    (to_ooc (o_alignment_dark o)) (to_ooc (o_alignment_light o)) (to_ooc (o_timing_dark o)) (to_ooc (o_timing_light o))
    (to_ooc (o_separator o)) (to_ooc (o_dark_module o)) (to_ooc (o_quiet_zone o))
  = to_py_colormap (make_colormap w o).
Proof.
  intros w o. unfold src__make_colormap, make_colormap. cbv zeta. rewrite Z.eqb_refl. cbn [negb].
  rewrite !pick_src.
  destruct (w <? 45); [destruct (w <? 21)|]; reflexivity.
Qed.
Print Assumptions src_make_colormap_is_model.

(* ------------------------------------------------------------------ 8. _color_to_webcolor (Model/Svg.v) *)
Definition byteP (x : Z) : Prop := 0 <= x <= 255.

Lemma hexval_range c x : hexval c = Some x -> 0 <= x <= 15.
Proof.
  unfold hexval. destruct ((48 <=? c) && (c <=? 57)) eqn:E1; [|destruct ((97 <=? c) && (c <=? 102)) eqn:E2; [|destruct ((65 <=? c) && (c <=? 70)) eqn:E3; [|discriminate]]];
    intros [= <-]; match goal with H : _ && _ = true |- _ => apply andb_true_iff in H; destruct H as [Ha Hb]; apply Z.leb_le in Ha; apply Z.leb_le in Hb end; lia.
Qed.
Lemma int16_2_range a b v : int16_2 a b = Ok v -> byteP v.
Proof.
  unfold int16_2. destruct (hexval a) as [x|] eqn:Ea; [|discriminate]. destruct (hexval b) as [y|] eqn:Eb; [|discriminate].
  intros H. replace v with (16 * x + y) by congruence. apply hexval_range in Ea. apply hexval_range in Eb. unfold byteP. lia.
Qed.

Lemma name_table_bytes :
  forallb (fun kv : list Z * (Z * Z * Z) => let '(r, g, b) := snd kv in
             (0 <=? r) && (r <=? 255) && ((0 <=? g) && (g <=? 255)) && ((0 <=? b) && (b <=? 255))) Ref.IsoData.NAME2RGB = true.
Proof. vm_compute. reflexivity. Qed.
Lemma assoc_str_In {A} k : forall (l : list (str * A)) v, assoc_str k l = Some v -> exists k', In (k', v) l.
Proof.
  induction l as [|[k' v'] t IH]; cbn [assoc_str]; intros v; [discriminate|].
  destruct (str_eqb k k'); [intros [= <-]; exists k'; now left|]. intros H. destruct (IH v H) as (k2 & Hin). exists k2. now right.
Qed.
Lemma ok3_bytes r g b :
  (0 <=? r) && (r <=? 255) && ((0 <=? g) && (g <=? 255)) && ((0 <=? b) && (b <=? 255)) = true -> byteP r /\ byteP g /\ byteP b.
Proof.
  intros H. repeat (apply andb_true_iff in H; destruct H as [H ?H]).
  repeat match goal with H : (_ <=? _) = true |- _ => apply Z.leb_le in H end. unfold byteP. lia.
Qed.

Lemma model_parse_bytes color af l : model_parse color af = Ok l -> Forall byteP (firstn 3 l).
Proof.
  unfold model_parse. destruct ((lenZ color =? 6) || (lenZ color =? 8)) eqn:El; cbn [negb]; [|discriminate].
  destruct (len_explicit color) as (_ & _ & H6 & H8).
  apply orb_true_iff in El. destruct El as [El|El]; apply Z.eqb_eq in El.
  - destruct (H6 El) as (d1 & d2 & d3 & d4 & d5 & d6 & ->).
    change (lenZ [d1; d2; d3; d4; d5; d6] =? 8) with false. rewrite andb_false_r. cbn [pairs_hex].
    destruct (int16_2 d1 d2) as [v1|] eqn:E1; [|discriminate]. destruct (int16_2 d3 d4) as [v2|] eqn:E2; [|discriminate].
    destruct (int16_2 d5 d6) as [v3|] eqn:E3; [|discriminate]. cbn [bind]. intros [= <-].
    cbn [firstn]. repeat constructor; eapply int16_2_range; eassumption.
  - destruct (H8 El) as (d1 & d2 & d3 & d4 & d5 & d6 & d7 & d8 & ->).
    change (lenZ [d1; d2; d3; d4; d5; d6; d7; d8] =? 8) with true. rewrite andb_true_r. cbn [pairs_hex].
    destruct (int16_2 d1 d2) as [v1|] eqn:E1; [|discriminate]. destruct (int16_2 d3 d4) as [v2|] eqn:E2; [|discriminate].
    destruct (int16_2 d5 d6) as [v3|] eqn:E3; [|discriminate]. destruct (int16_2 d7 d8) as [v4|] eqn:E4; [|discriminate]. cbn [bind].
    assert (Hb : Forall byteP [v1; v2; v3]) by (repeat constructor; eapply int16_2_range; eassumption).
    destruct af; [destruct (alpha_value v4 true); cbn [bind]; [|discriminate]|]; intros [= <-]; exact Hb.
Qed.

Lemma rgba_bytes c af r g b a : color_to_rgba c af = Ok [r; g; b; a] -> byteP r /\ byteP g /\ byteP b.
Proof.
  unfold color_to_rgba. destruct c as [s|parts].
  - destruct (assoc_str (py_lower s) Ref.IsoData.NAME2RGB) as [[[r0 g0] b0]|] eqn:En.
    + intros [= <- <- <- _]. destruct (assoc_str_In _ _ _ En) as (k' & Hin).
      pose proof name_table_bytes as Ht. rewrite forallb_forall in Ht. specialize (Ht _ Hin). cbn [snd] in Ht. now apply ok3_bytes.
    + pose proof (hex_shape s af) as Hs. destruct (hex_to_rgb_or_rgba s af) as [v|e] eqn:Eh; [|subst e; discriminate].
      assert (Hb : Forall byteP (firstn 3 v)) by (rewrite model_hex_unfold in Eh; exact (model_parse_bytes _ _ _ Eh)).
      destruct Hs as [(r1 & g1 & b1 & ->)|(r1 & g1 & b1 & a1 & -> & _)]; intros [= <- <- <- _]; cbn [firstn] in Hb;
        inversion Hb as [|? ? Hr Hb2]; inversion Hb2 as [|? ? Hg Hb3]; inversion Hb3 as [|? ? Hbb _]; auto.
  - destruct parts as [|r0 [|g0 [|b0 [|a0 [|x t]]]]]; try discriminate.
    + destruct (_ && _) eqn:E; [|discriminate]. intros [= <- <- <- _]. now apply ok3_bytes.
    + destruct (_ && _) eqn:E; [|discriminate]. destruct (alpha_value a0 af); cbn [bind]; [|discriminate]. intros [= <- <- <- _]. now apply ok3_bytes.
Qed.

Lemma rgb_or_rgba_full c l : color_to_rgb_or_rgba c true = Ok l ->
  (exists r g b, l = [r; g; b] /\ byteP r /\ byteP g /\ byteP b) \/
  (exists r g b a, l = [r; g; b; a] /\ byteP r /\ byteP g /\ byteP b /\ In a alpha_units).
Proof.
  unfold color_to_rgb_or_rgba. destruct (color_to_rgba c true) as [v|e] eqn:El; cbn [bind]; [|discriminate].
  destruct (rgba_shape c true v El) as (r & g & b & a & -> & Ha). destruct (rgba_bytes c true r g b a El) as (Hr & Hg & Hb).
  destruct (a =? opaque true); intros [= <-]; [left; exists r, g, b|right; exists r, g, b, a]; unfold byteP in *; repeat split; try lia; apply Ha; reflexivity.
Qed.

(* str(int) and format(int, '02x') on colour components *)
Lemma fmt_sweep : map py_fmt_02x (zrange 0 256) = map Svg.fmt02x (zrange 0 256) /\ map py_str_int (zrange 0 256) = map Svg.dec (zrange 0 256).
Proof. split; vm_compute; reflexivity. Qed.
Lemma byte_In v : byteP v -> In v (zrange 0 256).
Proof. unfold byteP. intros H. apply zrange_In. lia. Qed.
Lemma fmt02x_src v : byteP v -> py_fmt_02x v = [Svg.hexdigit (v / 16); Svg.hexdigit (v mod 16)] /\ Svg.fmt02x v = [Svg.hexdigit (v / 16); Svg.hexdigit (v mod 16)].
Proof.
  intros Hv. rewrite (map_eq_In _ _ _ v (proj1 fmt_sweep) (byte_In v Hv)). unfold Svg.fmt02x.
  replace (v <? 0) with false by (symmetry; apply Z.ltb_ge; unfold byteP in Hv; lia). now split.
Qed.
Lemma str_int_src v : byteP v -> py_str_int v = Svg.dec v.
Proof. intros Hv. exact (map_eq_In _ _ _ v (proj2 fmt_sweep) (byte_In v Hv)). Qed.

Definition to_py_webcolor (w : Svg.webcolor) : py_webcolor :=
  match w with Svg.WPlain s => PyWPlain s | Svg.WAlpha s a => PyWAlpha s (PyNFlt (units_float a)) end.
(* repr(float) -- CPython's shortest round-trip representation, a parameter of the translated function -- is only assumed on the
   alpha values that can occur: it prints the float written u/10000 as that decimal (Svg.alpha_str) *)
Definition float_repr_ok (ext : py_float -> list Z) : Prop := forall u, In u alpha_units -> ext (units_float u) = Svg.alpha_str u.

(* the `optimize` block on hx = '#' + three two-character groups *)
Ltac solve_hx A1 A2 B1 B2 C1 C2 :=
  change (Svg.lit "#d2b48c") with [35; 100; 50; 98; 52; 56; 99]; change (Svg.lit "#ff0000") with [35; 102; 102; 48; 48; 48; 48];
  change (Svg.lit "tan") with [116; 97; 110]; change (Svg.lit "red") with [114; 101; 100];
  change (str_eqb [35; A1; A2; B1; B2; C1; C2] [35; 100; 50; 98; 52; 56; 99]) with (py_list_eqb [35; A1; A2; B1; B2; C1; C2] [35; 100; 50; 98; 52; 56; 99]);
  change (str_eqb [35; A1; A2; B1; B2; C1; C2] [35; 102; 102; 48; 48; 48; 48]) with (py_list_eqb [35; A1; A2; B1; B2; C1; C2] [35; 102; 102; 48; 48; 48; 48]);
  destruct (py_list_eqb [35; A1; A2; B1; B2; C1; C2] [35; 100; 50; 98; 52; 56; 99]); [reflexivity|];
  destruct (py_list_eqb [35; A1; A2; B1; B2; C1; C2] [35; 102; 102; 48; 48; 48; 48]); [reflexivity|];
  change (py_str_index [35; A1; A2; B1; B2; C1; C2] 1) with (Ok [A1]);
  change (py_str_index [35; A1; A2; B1; B2; C1; C2] 2) with (Ok [A2]);
  change (py_str_index [35; A1; A2; B1; B2; C1; C2] 3) with (Ok [B1]);
  change (py_str_index [35; A1; A2; B1; B2; C1; C2] 4) with (Ok [B2]);
  change (py_str_index [35; A1; A2; B1; B2; C1; C2] 5) with (Ok [C1]);
  change (py_str_index [35; A1; A2; B1; B2; C1; C2] 6) with (Ok [C2]);
  cbn [bind py_list_eqb]; rewrite !andb_true_r;
  destruct (A1 =? A2); cbn [bind andb]; [|reflexivity];
  destruct (B1 =? B2); cbn [bind andb]; [|reflexivity];
  destruct (C1 =? C2); cbn [bind andb]; reflexivity.

Theorem src_color_to_webcolor_is_model : forall (ext : py_float -> list Z) (c : pycolor) (allow_css3_colors : bool),
  float_repr_ok ext ->
  src__color_to_webcolor ext (to_py_color c) allow_css3_colors true
  = do w <- Svg.color_to_webcolor c allow_css3_colors; Ok (to_py_webcolor w).
Proof.
  intros ext c allow Hext. unfold src__color_to_webcolor, Svg.color_to_webcolor.
  rewrite src_color_is_black_is_model. cbn [bind]. destruct (color_is_black c); [reflexivity|].
  rewrite src_color_is_white_is_model. cbn [bind]. destruct (color_is_white c); [reflexivity|].
  rewrite src_color_to_rgb_or_rgba_is_model.
  destruct (color_to_rgb_or_rgba c true) as [l|e] eqn:El; cbn [bind]; [|reflexivity].
  destruct (rgb_or_rgba_full c l El) as [(r & g & b & -> & Hr & Hg & Hb)|(r & g & b & a & -> & Hr & Hg & Hb & Ha)]; cbv zeta;
    destruct (fmt02x_src r Hr) as [S1 M1]; destruct (fmt02x_src g Hg) as [S2 M2]; destruct (fmt02x_src b Hb) as [S3 M3].
  - change (lenZ (tag_rgba true [r; g; b]) =? 4) with false. cbv iota.
    change (nthZ (tag_rgba true [r; g; b]) 0) with (Ok (PyNInt r)).
    change (nthZ (tag_rgba true [r; g; b]) 1) with (Ok (PyNInt g)).
    change (nthZ (tag_rgba true [r; g; b]) 2) with (Ok (PyNInt b)).
    cbn [bind]. rewrite S1, S2, S3. cbn [app bind to_py_webcolor]. unfold Svg.hex_optimized. rewrite M1, M2, M3. cbn [app].
    solve_hx (Svg.hexdigit (r / 16)) (Svg.hexdigit (r mod 16)) (Svg.hexdigit (g / 16)) (Svg.hexdigit (g mod 16)) (Svg.hexdigit (b / 16)) (Svg.hexdigit (b mod 16)).
  - change (lenZ (tag_rgba true [r; g; b; a]) =? 4) with true. cbv iota. destruct allow.
    + change (nthZ (tag_rgba true [r; g; b; a]) 0) with (Ok (PyNInt r)).
      change (nthZ (tag_rgba true [r; g; b; a]) 1) with (Ok (PyNInt g)).
      change (nthZ (tag_rgba true [r; g; b; a]) 2) with (Ok (PyNInt b)).
      change (nthZ (tag_rgba true [r; g; b; a]) 3) with (Ok (PyNFlt (units_float a))).
      cbn [bind to_py_webcolor]. rewrite (Hext a Ha), !str_int_src by assumption. reflexivity.
    + change (py_index (tag_rgba true [r; g; b; a]) 3) with (Ok (PyNFlt (units_float a))). cbn [bind].
      change (py_slice (tag_rgba true [r; g; b; a]) 0 3) with [PyNInt r; PyNInt g; PyNInt b].
      change (nthZ [PyNInt r; PyNInt g; PyNInt b] 0) with (Ok (PyNInt r)).
      change (nthZ [PyNInt r; PyNInt g; PyNInt b] 1) with (Ok (PyNInt g)).
      change (nthZ [PyNInt r; PyNInt g; PyNInt b] 2) with (Ok (PyNInt b)).
      cbn [bind]. rewrite S1, S2, S3. cbn [app bind to_py_webcolor]. unfold Svg.hex_optimized. rewrite M1, M2, M3. cbn [app].
      solve_hx (Svg.hexdigit (r / 16)) (Svg.hexdigit (r mod 16)) (Svg.hexdigit (g / 16)) (Svg.hexdigit (g mod 16)) (Svg.hexdigit (b / 16)) (Svg.hexdigit (b mod 16)).
Qed.
Print Assumptions src_color_to_webcolor_is_model.

(* the hypothesis on repr(float) is what CPython 3.12 prints: repr of the floats written 0.51, 0.0, 1.0, 0.5, 0.0625, 0.02 *)
Example alpha_str_examples :
  map Svg.alpha_str [5100; 0; 10000; 5000; 625; 200] = [[48; 46; 53; 49]; [48; 46; 48]; [49; 46; 48]; [48; 46; 53]; [48; 46; 48; 54; 50; 53]; [48; 46; 48; 50]].
Proof. vm_compute. reflexivity. Qed.

(* ------------------------------------------------------------------ 9. what is refused, and how (C14) *)
Lemma color_to_rgba_err c af e : color_to_rgba c af = Err e -> e = ValueError.
Proof.
  unfold color_to_rgba. destruct c as [s|parts].
  - destruct (assoc_str (py_lower s) Ref.IsoData.NAME2RGB) as [[[r g] b]|]; [discriminate|].
    pose proof (hex_shape s af) as Hs. destruct (hex_to_rgb_or_rgba s af) as [v|e0].
    + destruct Hs as [(r & g & b & ->)|(r & g & b & a & -> & _)]; discriminate.
    + subst e0. now intros [= <-].
  - destruct parts as [|r [|g [|b [|a [|x t]]]]]; try (now intros [= <-]).
    + destruct (_ && _); [discriminate|now intros [= <-]].
    + destruct (_ && _); [|now intros [= <-]]. destruct (alpha_value a af) as [a'|e0] eqn:Ea; cbn [bind]; [discriminate|].
      intros [= <-]. now apply (alpha_value_err a af).
Qed.

(* the translated conversions raise nothing but ValueError (in particular never the marker py_unmodelled), for every colour *)
Theorem src_color_to_rgba_raises_only_ValueError c af e : src__color_to_rgba (to_py_color c) af = Err e -> e = ValueError.
Proof.
  rewrite src_color_to_rgba_is_model. destruct (color_to_rgba c af) as [l|e0] eqn:El; cbn [bind]; [discriminate|].
  intros [= <-]. now apply (color_to_rgba_err c af).
Qed.
Theorem src_color_to_rgb_or_rgba_raises_only_ValueError c af e : src__color_to_rgb_or_rgba (to_py_color c) af = Err e -> e = ValueError.
Proof.
  rewrite src_color_to_rgb_or_rgba_is_model. unfold color_to_rgb_or_rgba.
  destruct (color_to_rgba c af) as [l|e0] eqn:El; cbn [bind].
  - destruct (rgba_shape c af l El) as (r & g & b & a & -> & _). destruct (a =? opaque af); discriminate.
  - intros [= <-]. now apply (color_to_rgba_err c af).
Qed.
Theorem src_color_to_rgb_raises_only_ValueError c e : src__color_to_rgb (to_py_color c) = Err e -> e = ValueError.
Proof.
  rewrite src_color_to_rgb_is_model. unfold color_to_rgb.
  destruct (color_to_rgb_or_rgba c true) as [l|e0] eqn:El; cbn [bind].
  - destruct (lenZ l =? 3); cbn [bind]; [discriminate|now intros [= <-]].
  - intros [= <-]. apply (src_color_to_rgb_or_rgba_raises_only_ValueError c true).
    rewrite src_color_to_rgb_or_rgba_is_model, El. reflexivity.
Qed.

(* a tuple that has neither three nor four items *)
Theorem src_tuple_wrong_length parts af : length parts <> 3%nat -> length parts <> 4%nat ->
  src__color_to_rgba (PyCTuple parts) af = Err ValueError.
Proof.
  intros H3 H4. rewrite src_rgba_tuple. destruct parts as [|r [|g [|b [|a [|x t]]]]]; cbn [length] in H3, H4; try congruence; reflexivity.
Qed.
(* a colour component outside 0 .. 255 *)
Theorem src_tuple_component_out_of_range r g b rest af : ~ (byteP r /\ byteP g /\ byteP b) ->
  src__color_to_rgba (PyCTuple (r :: g :: b :: rest)) af = Err ValueError.
Proof.
  intros Hn. rewrite src_rgba_tuple. cbn [color_to_rgba].
  destruct ((0 <=? r) && (r <=? 255) && ((0 <=? g) && (g <=? 255)) && ((0 <=? b) && (b <=? 255))) eqn:E.
  - exfalso. apply Hn. now apply ok3_bytes.
  - destruct rest as [|a [|x t]]; reflexivity.
Qed.
(* an alpha component outside 0 .. 255 *)
Theorem src_tuple_alpha_out_of_range r g b a af : ~ byteP a -> src__color_to_rgba (PyCTuple [r; g; b; a]) af = Err ValueError.
Proof.
  intros Hn. rewrite src_rgba_tuple. cbn [color_to_rgba].
  destruct (_ && _); [|reflexivity]. unfold alpha_value.
  replace ((0 <=? a) && (a <=? 255)) with false; [reflexivity|].
  symmetry. apply andb_false_iff. unfold byteP in Hn.
  destruct (0 <=? a) eqn:E1; [right|now left]. apply Z.leb_le in E1. apply Z.leb_gt. lia.
Qed.
(* a str that is no colour name and, with one leading '#' removed and #RGB / #RGBA doubled, has not 6 or 8 characters or
   has a character outside 0-9 a-f A-F *)
Theorem src_str_malformed s af :
  assoc_str (py_lower s) Ref.IsoData.NAME2RGB = None ->
  (lenZ (expand (strip s)) <> 6 /\ lenZ (expand (strip s)) <> 8) \/ forallb is_hexb (expand (strip s)) = false ->
  src__color_to_rgba (PyCStr s) af = Err ValueError.
Proof.
  intros Hn Hbad. rewrite src_rgba_str. cbn [color_to_rgba]. rewrite Hn, model_hex_unfold. unfold model_parse.
  destruct ((lenZ (expand (strip s)) =? 6) || (lenZ (expand (strip s)) =? 8)) eqn:El; cbn [negb]; [|reflexivity].
  destruct Hbad as [[H6 H8]|Hf].
  - apply orb_true_iff in El. destruct El as [El|El]; apply Z.eqb_eq in El; congruence.
  - now rewrite (pairs_hex_bad (length (expand (strip s))) _ (le_n _) Hf).
Qed.
Print Assumptions src_color_to_rgb_raises_only_ValueError.
Print Assumptions src_str_malformed.

(* examples, evaluated on the translated code: '#12345', '#ggg', 'nocolor', (0, 0, 256), (1, 2), (0, 0, 0, 300), '#+1+2+3' (int('+1', 16)
   would accept the sign: the character test refuses it first), '' *)
Example refused_examples :
  map (fun c => src__color_to_rgb c)
    [PyCStr [35; 49; 50; 51; 52; 53]; PyCStr [35; 103; 103; 103]; PyCStr [110; 111; 99; 111; 108; 111; 114]; PyCTuple [0; 0; 256];
     PyCTuple [1; 2]; PyCTuple [0; 0; 0; 300]; PyCStr [35; 43; 49; 43; 50; 43; 51]; PyCStr []]
  = repeat (Err ValueError) 8.
Proof. vm_compute. reflexivity. Qed.

(* str.lower() beyond ASCII (DESIGN.md 11.14.1; was the "Finding (model imprecision)" of 11.14): Python lowers the Kelvin
   sign U+212A to 'k', so 'blacK' written with it IS black and 'darKblue' is (0, 0, 139) -- on CPython 3.12, on the
   translated code and, since PyCase.py_lower, in the model; 'ındigo' (dotless i U+0131, lower() keeps it) and 'İndigo'
   (U+0130 lowers to 'i' + U+0307) are no colour names. *)
Example kelvin_agreement_examples :
  let blacK := [98; 108; 97; 99; 8490] in let darKblue := [100; 97; 114; 8490; 98; 108; 117; 101] in
  let idotless := [305; 110; 100; 105; 103; 111] in let Idot := [304; 110; 100; 105; 103; 111] in
     src__color_to_rgb (PyCStr blacK) = Ok [PyNInt 0; PyNInt 0; PyNInt 0] /\ color_to_rgb (CStr blacK) = Ok [0; 0; 0]
  /\ src__color_is_black (PyCStr blacK) = Ok true /\ color_is_black (CStr blacK) = true
  /\ src__color_to_rgb (PyCStr darKblue) = Ok [PyNInt 0; PyNInt 0; PyNInt 139] /\ color_to_rgb (CStr darKblue) = Ok [0; 0; 139]
  /\ src__color_to_rgb (PyCStr idotless) = Err ValueError /\ color_to_rgb (CStr idotless) = Err ValueError
  /\ src__color_to_rgb (PyCStr Idot) = Err ValueError /\ color_to_rgb (CStr Idot) = Err ValueError.
Proof. cbv zeta. repeat apply conj; vm_compute; reflexivity. Qed.
