(* Bridge theorems: boost_error_level of segno/encoder.py, translated statement by statement from the CURRENT source
   (SegnoSrc.SrcBoost, written by gen/translate.py with the Python semantics of Base/PySem.v), equal the hand-written
   model.  Re-checked by coqc on every run: a change of the Python source changes the generated file, and a change
   of behaviour breaks the theorem.  The proofs case-split on the comparisons instead of relying on syntactic
   equality, so behaviour-preserving rewrites of the source do not break them.  See DESIGN.md 11.7. *)
From Coq Require Import String.
From Coq Require Import ZArith List Bool Lia ZifyBool.
From Segno Require Import Base.PyLite Base.PySem Ref.IsoData Model.Bits Model.Segment Model.Version Model.Stream Model.Matrix Model.Encode.
From Segno Require Tie.TieTables.
From Segno Require Import Tie.TieBase Tie.TieFit.
From SegnoSrc Require SrcTables.
From SegnoSrc Require Import SrcFit SrcBoost.
Import ListNotations.
Open Scope Z_scope.

(* ------------------------------------------------------------------ 4c. boost_error_level *)
Lemma py_index_of_nonneg x l k : py_index_of x l = Ok k -> 0 <= k.
Proof.
  revert k. induction l as [|y r IH]; intros k; cbn [py_index_of]; [discriminate|].
  destruct (x =? y); [intros [= <-]; lia|].
  destruct (py_index_of x r) as [k'|ex]; cbn [bind]; [|discriminate].
  intros [= <-]. specialize (IH k' eq_refl). lia.
Qed.

Lemma slice_after_index x l :
  (do k <- py_index_of x l; Ok (py_slice_from l (k + 1))) = drop_through x l.
Proof.
  induction l as [|y r IH]; cbn [py_index_of drop_through]; [reflexivity|].
  destruct (x =? y); cbn [bind].
  - unfold py_slice_from. reflexivity.
  - destruct (py_index_of x r) as [k|ex] eqn:Hk; cbn [bind] in *; [|exact IH].
    rewrite <- IH. pose proof (py_index_of_nonneg _ _ _ Hk) as Hnn. f_equal.
    unfold py_slice_from. destruct (k + 1 + 1 <? 0) eqn:E1; [lia|]. destruct (k + 1 <? 0) eqn:E2; [lia|].
    replace (Z.to_nat (k + 1 + 1)) with (S (Z.to_nat (k + 1))) by lia. reflexivity.
Qed.

Lemma boost_loop_src version len : forall higher e,
  py_for (A:=void) higher
    (fun error_level st' => let error := st' in
       do t'3 <- getZ version SYMBOL_CAPACITY; do t'4 <- getOZ (Some error_level) t'3;
       if t'4 >=? len then (let error0 := Some error_level in Ok (CNext error0)) else Ok (CBrk error))
    (Some e)
  = do e' <- boost_loop version len higher e; Ok (inr (Some e')).
Proof.
  induction higher as [|l r IH]; intros e; cbn [py_for boost_loop]; [reflexivity|].
  cbv zeta. unfold capacity.
  destruct (getZ version SYMBOL_CAPACITY) as [row|ex]; cbn [bind]; [|reflexivity].
  destruct (getOZ (Some l) row) as [cap|ex]; cbn [bind]; [|reflexivity].
  rewrite Z.geb_leb. destruct (len <=? cap); [apply IH|reflexivity].
Qed.

Theorem src_boost_error_level_is_model :
  forall (version : Z) (error : option Z) (segs : list segment) (eci is_sa : bool),
  src_boost_error_level version error (to_py_segs segs) eci is_sa
  = Version.boost_error_level version error segs eci is_sa.
Proof.
  intros version error segs eci is_sa.
  unfold src_boost_error_level, Version.boost_error_level. tie_tables.
  cbv zeta. rewrite src_len_is_model, src_bit_length_with_overhead_is_model.
  destruct error as [e|]; [|reflexivity].
  unfold ERROR_LEVEL_H. rewrite !orb_false_r.
  destruct (e =? 2) eqn:Ee; cbn [negb andb orb]; [reflexivity|].
  destruct (lenZ segs =? 1) eqn:El; cbn [negb]; [|reflexivity].
  match goal with |- bind ?X _ = _ =>
    assert (HX : X = Ok (boost_levels version))
      by (unfold boost_levels, VERSION_M4, ERROR_LEVEL_L, ERROR_LEVEL_M, ERROR_LEVEL_Q, ERROR_LEVEL_H;
          destruct (version <? 1); [destruct (version <? 0)|]; reflexivity);
    rewrite HX; clear HX end.
  cbn [bind].
  destruct (Version.bit_length_with_overhead segs version eci is_sa) as [len|ex]; cbn [bind]; [|reflexivity].
  unfold py_index_of_oz. rewrite <- slice_after_index.
  destruct (py_index_of e (boost_levels version)) as [k|ex]; cbn [bind]; [|reflexivity].
  rewrite boost_loop_src.
  destruct (boost_loop version len (py_slice_from (boost_levels version) (k + 1)) e) as [e'|ex]; reflexivity.
Qed.

Print Assumptions src_boost_error_level_is_model.
