(* Bridge theorem: write_segment of segno/encoder.py, translated statement by statement from the CURRENT source
   (SegnoSrc.SrcSeg), equals the hand-written model (Model/Stream.v).  get_eci_assignment_number (codecs.lookup) is not
   translated: it is a parameter of the translated function, related to the model by a hypothesis.
   Re-checked by coqc on every run.  See DESIGN.md 11.7. *)
From Coq Require Import String.
From Coq Require Import ZArith List Bool Lia ZifyBool.
From Segno Require Import Base.PyLite Base.PySem Ref.IsoData Model.Bits Model.Segment Model.Version Model.Stream.
From Segno Require Tie.TieTables.
From Segno Require Import Tie.TieBase Tie.TieBits.
From SegnoSrc Require SrcTables.
From SegnoSrc Require Import SrcSeg.
Import ListNotations.
Open Scope Z_scope.

Theorem src_write_segment_is_model :
  forall (ext : option String.string -> res Z) (buff : bits) (s : segment) (ver : option Z) (ver_range : Z) (eci : bool),
  ext (option_map e_name (s_enc s)) = eci_number (s_enc s) ->
  src_write_segment ext (bitsZ buff) (to_py_seg s) ver ver_range eci
  = do r <- Stream.write_segment s ver ver_range eci; Ok (bitsZ (buff ++ r)).
Proof.
  intros ext buff s ver ver_range eci Hext. unfold src_write_segment, Stream.write_segment. tie_tables.
  rewrite ?TieTables.tie_MODE_TO_MICRO_MODE_MAPPING. cbv zeta.
  change (seg_mode (to_py_seg s)) with (s_mode s). change (seg_char_count (to_py_seg s)) with (s_count s).
  change (seg_bits (to_py_seg s)) with (bitsZ (s_bits s)).
  change (seg_encoding (to_py_seg s)) with (option_map e_name (s_enc s)).
  unfold MODE_BYTE, MODE_ECI, MODE_HANZI, VERSION_M1.
  assert (Henc : negb (match option_map e_name (s_enc s) with Some x_ => String.eqb x_ DEFAULT_BYTE_ENCODING | None => false end)
                 = negb (enc_is_default (s_enc s))) by (unfold enc_is_default; destruct (s_enc s); reflexivity).
  rewrite Henc, Hext. rewrite <- andb_assoc.
  destruct (eci && ((s_mode s =? 4) && negb (enc_is_default (s_enc s)))); cbn [bind];
    [rewrite append_bits_src; cbn [bind]; destruct (eci_number (s_enc s)) as [n|e]; cbn [bind];
       [rewrite append_bits_src; cbn [bind]|reflexivity]|].
  all: destruct ver as [v|]; cbn [bind];
    [rewrite Z.gtb_ltb; destruct (-3 <? v); cbn [bind];
       [destruct (getZ (s_mode s) MODE_TO_MICRO_MODE_MAPPING) as [mm|e]; cbn [bind];
          [rewrite append_bits_src; cbn [bind]|reflexivity]|]
    |rewrite append_bits_src; cbn [bind]; destruct (s_mode s =? 13); cbn [bind];
       [rewrite append_bits_src; cbn [bind]|]].
  all: unfold cci_length; destruct (getZ (s_mode s) CHAR_COUNT_INDICATOR_LENGTH) as [row|e]; cbn [bind]; [|reflexivity];
    destruct (getZ ver_range row) as [cci|e]; cbn [bind]; [|reflexivity];
    rewrite append_bits_src; cbn [bind]; rewrite extend_bits; cbn [bind];
    rewrite <- ?app_assoc; cbn [app]; rewrite <- ?app_assoc; reflexivity.
Qed.

Print Assumptions src_write_segment_is_model.
