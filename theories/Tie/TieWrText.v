(* Bridge theorems: the text serializers write_txt, write_xbm, write_xpm (with color_to_rgb_hex), write_terminal of
   segno/writers.py, translated statement by statement from the CURRENT source (SegnoSrc.SrcWrText, written by
   gen/translate_writers.py; the output stream is the list of everything written, Base/PySemIO.v), equal the hand-written
   models of Model/TextFmt.v for EVERY matrix of the declared size (induction over the rows; no finite sweep), every
   scale, border, name and colour argument, errors included.  Re-checked by coqc on every run.  See DESIGN.md 11.12. *)
From Coq Require Import ZArith QArith List Bool Lia.
From Coq Require String Ascii.
Import Coq.Strings.String.StringSyntax.
From Segno Require Import Base.PyLite Base.PySem Base.PySemGen Base.PySemIO Model.Iter Model.Color Model.TextFmt.
From Segno Require Import Tie.TieUtils Tie.TieUtilsIter Tie.TieWrCommon.
From SegnoSrc Require Import SrcUtils SrcUtilsIter SrcWrCommon SrcWrText.
Import ListNotations.
Open Scope Z_scope.

(* ------------------------------------------------------------------ 1. write_txt *)
Theorem src_write_txt_is_model : forall (matrix : list (list Z)) (w h : Z) (border : option Z) (dark light : list Z),
  well_formed matrix w h ->
  src_write_txt matrix [w; h] border dark light = TextFmt.write_txt matrix w h border dark light.
Proof.
  intros matrix w h border dark light Hwf. unfold src_write_txt, TextFmt.write_txt. cbv zeta.
  rewrite (src_matrix_iter_z matrix w h 1 border Hwf).
  destruct (check_valid_border (oborder border)) as [[]|e]; cbn [bind]; [|reflexivity].
  destruct (check_valid_scale (PInt 1)) as [[]|e]; cbn [bind]; [|reflexivity].
  rewrite (py_for_emit _ _ (txt_line dark light)).
  - rewrite py_seq_res_text_map_res.
    destruct (map_res (txt_line dark light) _) as [ls|e]; cbn [bind]; reflexivity.
  - intros row acc _. unfold txt_line. rewrite <- py_seq_res_text_map_res.
    replace (map (fun i => do t <- py_index [light; dark] i; Ok t) row) with (map (fun i => py_index [light; dark] i) row)
      by (apply map_ext; intros i; now rewrite bind_ret').
    destruct (py_seq_res (map _ row)) as [cs|e]; cbn [bind]; [|reflexivity].
    unfold py_write. now rewrite py_join_nil_concat, <- app_assoc.
Qed.

(* ------------------------------------------------------------------ text normalisation *)
Ltac eval_cps :=
  repeat match goal with
         | |- context [cps ?s] => let v := eval vm_compute in (cps s) in change (cps s) with v
         end.
Ltac norm_app := unfold py_write, py_stream_new; repeat rewrite <- app_assoc; cbn [app].

(* ------------------------------------------------------------------ 2. write_xbm *)
Lemma grouper_chunk8_fuel f : forall l, (length l <= f)%nat -> py_grouper_fuel f 8 0 l = chunk8 l.
Proof.
  induction f as [|f IH]; intros l Hl.
  - destruct l; [reflexivity|cbn in Hl; lia].
  - destruct l as [|a [|b [|c [|d [|e [|g [|i [|j r]]]]]]]];
      try (cbn [py_grouper_fuel py_take_fill_with skipn chunk8 app repeat firstn]; rewrite ?py_grouper_fuel_nil; reflexivity).
    cbn [py_grouper_fuel py_take_fill_with skipn chunk8]. f_equal. apply IH. cbn [length] in Hl. lia.
Qed.
Lemma grouper_chunk8 l : py_grouper 8 0 l = chunk8 l.
Proof. unfold py_grouper. cbn [Z.leb Z.compare]. change (Z.to_nat 8) with 8%nat. now apply grouper_chunk8_fuel. Qed.

Lemma xbm_items_seq row :
  py_seq_res (map (fun bits => do t <- py_reduce (fun x y => Z.shiftl x 1 + y) (rev bits); Ok ([48; 120] ++ py_fmt_02x t))
                  (py_grouper 8 0 row))
  = Ok (map xbm_item (chunk8 row)).
Proof.
  rewrite <- grouper_chunk8. apply py_seq_res_all_ok. intros bits Hin.
  apply py_grouper_item_length in Hin. change (Z.to_nat 8) with 8%nat in Hin.
  rewrite py_reduce_shift.
  - reflexivity.
  - intro Hr. apply (f_equal (@length Z)) in Hr. rewrite rev_length, Hin in Hr. discriminate.
Qed.

Definition xbm_line (h : Z) (p : Z * list Z) : list Z :=
  cps "    " ++ xbm_row_items (snd p) ++ (if fst p <? h then [44; 10] else [10]).

Lemma xbm_rows_flat_map h : forall rows i, flat_map (xbm_line h) (py_enumerate_from i rows) = xbm_rows i h rows.
Proof.
  induction rows as [|row r IH]; intros i.
  - now rewrite py_enumerate_from_nil.
  - rewrite py_enumerate_from_cons. cbn [flat_map xbm_rows]. rewrite IH. unfold xbm_line. cbn [fst snd].
    now rewrite <- !app_assoc.
Qed.

Theorem src_write_xbm_is_model : forall (matrix : list (list Z)) (w h scale : Z) (border : option Z) (name : list Z),
  well_formed matrix w h ->
  src_write_xbm matrix [w; h] scale border name = TextFmt.write_xbm matrix w h scale border name.
Proof.
  intros matrix w h scale border name Hwf. unfold src_write_xbm, TextFmt.write_xbm. cbv zeta.
  rewrite src_valid_whb_is_model.
  destruct (valid_width_height_and_border w h scale border) as [[[wp hp] b]|e] eqn:Ev; cbn [bind whb_list py_unpack3]; [|reflexivity].
  destruct (valid_whb_ok _ _ _ _ _ Ev) as (_ & _ & Hp). injection Hp as Hwp Hhp Hb. rewrite Hb.
  rewrite (src_matrix_iter_after_whb _ _ _ _ _ _ Hwf Ev). cbn [bind].
  rewrite (py_for_emit_ok _ _ (xbm_line hp)).
  - rewrite xbm_rows_flat_map. eval_cps. norm_app. reflexivity.
  - intros [i row] acc _. rewrite xbm_items_seq. cbn [bind]. unfold xbm_line, xbm_row_items. cbn [fst snd].
    eval_cps. norm_app. rewrite py_join_join. now destruct (i <? hp).
Qed.

(* ------------------------------------------------------------------ 3. color_to_rgb_hex, write_xpm *)
(* the colour arguments of the translated functions (PySemIO.py_color) seen from the model (Color.pycolor) *)
Definition to_py_color (c : pycolor) : py_color :=
  match c with CStr s => PyCStr s | CTuple t => PyCTuple t end.

Lemma color_to_rgb_length c rgb : color_to_rgb c = Ok rgb -> exists r g b, rgb = [r; g; b].
Proof.
  unfold color_to_rgb. destruct (color_to_rgb_or_rgba c true) as [l|e]; cbn [bind]; [|discriminate].
  destruct (lenZ l =? 3) eqn:E; [|discriminate]. intros [= <-].
  apply Z.eqb_eq in E. unfold lenZ in E.
  destruct l as [|r [|g [|b [|x t]]]]; cbn [length] in E; try lia. now exists r, g, b.
Qed.

(* _color_to_rgb is not translated: it is the parameter ext of the translated callers, assumed to be the model's *)
Definition ext_rgb_ok (ext : py_color -> res (list Z)) : Prop := forall c, ext (to_py_color c) = color_to_rgb c.

Theorem src_color_to_rgb_hex_is_model : forall ext (c : pycolor), ext_rgb_ok ext ->
  src_color_to_rgb_hex ext (to_py_color c) = TextFmt.color_to_rgb_hex c.
Proof.
  intros ext c Hext. unfold src_color_to_rgb_hex, TextFmt.color_to_rgb_hex. rewrite Hext.
  destruct (color_to_rgb c) as [rgb|e] eqn:Ec; cbn [bind]; [|reflexivity].
  destruct (color_to_rgb_length _ _ Ec) as (r & g & b & ->). reflexivity.
Qed.

Lemma src_xpm_color ext (c : option pycolor) : ext_rgb_ok ext ->
  match option_map to_py_color c with
  | Some c' => do t <- src_color_to_rgb_hex ext c'; Ok t
  | None => Ok [78; 111; 110; 101]
  end = xpm_color c.
Proof.
  intros Hext. destruct c as [c|]; cbn [option_map xpm_color]; [|reflexivity].
  now rewrite bind_ret', src_color_to_rgb_hex_is_model.
Qed.

Lemma concat_map_singleton {A B} (g : A -> B) (l : list A) : concat (map (fun x => [g x]) l) = map g l.
Proof. induction l as [|x r IH]; cbn [map concat app]; [reflexivity|]. now rewrite IH. Qed.

Definition xpm_line (h : Z) (p : Z * list Z) : list Z :=
  [34] ++ map xpm_pixel (snd p) ++ [34] ++ (if fst p <? h - 1 then [44] else []) ++ [10].

Lemma xpm_rows_flat_map h : forall rows i, flat_map (xpm_line h) (py_enumerate_from i rows) = xpm_rows i h rows.
Proof.
  induction rows as [|row r IH]; intros i.
  - now rewrite py_enumerate_from_nil.
  - rewrite py_enumerate_from_cons. cbn [flat_map xpm_rows]. rewrite IH. unfold xpm_line. cbn [fst snd].
    now rewrite <- !app_assoc.
Qed.

Theorem src_write_xpm_is_model : forall ext (matrix : list (list Z)) (w h scale : Z) (border : option Z)
    (dark light : option pycolor) (name : list Z),
  ext_rgb_ok ext -> well_formed matrix w h ->
  src_write_xpm ext matrix [w; h] scale border (option_map to_py_color dark) (option_map to_py_color light) name
  = TextFmt.write_xpm matrix w h scale border dark light name.
Proof.
  intros ext matrix w h scale border dark light name Hext Hwf. unfold src_write_xpm, TextFmt.write_xpm. cbv zeta.
  rewrite src_valid_whb_is_model.
  destruct (valid_width_height_and_border w h scale border) as [[[wp hp] b]|e] eqn:Ev; cbn [bind whb_list py_unpack3]; [|reflexivity].
  destruct (valid_whb_ok _ _ _ _ _ Ev) as (_ & _ & Hp). injection Hp as Hwp Hhp Hb. rewrite Hb.
  rewrite (src_xpm_color ext dark Hext).
  destruct (xpm_color dark) as [stroke|e]; cbn [bind]; [|reflexivity].
  rewrite (src_xpm_color ext light Hext).
  destruct (xpm_color light) as [bg|e]; cbn [bind]; [|reflexivity].
  rewrite (src_matrix_iter_after_whb _ _ _ _ _ _ Hwf Ev). cbn [bind].
  rewrite (py_for_emit_ok _ _ (xpm_line hp)).
  - rewrite xpm_rows_flat_map. eval_cps. norm_app. reflexivity.
  - intros [i row] acc _. unfold xpm_line. cbn [fst snd]. rewrite py_join_nil_concat.
    rewrite !concat_app. cbn [concat]. rewrite !app_nil_r.
    replace (map (fun b0 : Z => if negb (negb (b0 =? 0)) then [32] else [88]) row)
      with (map (fun b0 : Z => [xpm_pixel b0]) row)
      by (apply map_ext; intros b0; unfold xpm_pixel; now destruct (b0 =? 0)).
    rewrite concat_map_singleton. norm_app. reflexivity.
Qed.

(* ------------------------------------------------------------------ 4. write_terminal *)
(* the three writes at the end of a run of equal cells, as the source has them (twice) *)
Definition src_flush (colours : list (list Z)) (cnt : Z) (f : list Z) (prev_bit : Z) : res (list Z) :=
  if negb (cnt =? 0)
  then do t <- py_index colours prev_bit;
       Ok (py_write (py_write (py_write f t) (py_repeat [32; 32] cnt)) [27; 91; 48; 109])
  else Ok f.

Lemma py_repeat_spaces cnt : py_repeat [32; 32] cnt = repeat 32 (Z.to_nat (2 * cnt)).
Proof.
  unfold py_repeat. replace (Z.to_nat (2 * cnt)) with (2 * Z.to_nat cnt)%nat by lia.
  induction (Z.to_nat cnt) as [|k IH]; [reflexivity|].
  cbn [repeat concat app]. rewrite IH. replace (2 * S k)%nat with (S (S (2 * k))) by lia. reflexivity.
Qed.

Lemma src_flush_spec cnt f prev : src_flush term_colours cnt f prev = do t <- term_flush prev cnt; Ok (f ++ t).
Proof.
  unfold src_flush, term_flush. destruct (cnt =? 0); cbn [negb bind]; [now rewrite app_nil_r|].
  destruct (py_index term_colours prev) as [c|e]; cbn [bind]; [|reflexivity].
  unfold py_write. rewrite py_repeat_spaces. now rewrite <- !app_assoc.
Qed.

(* the body of the inner loop `for bit in row` on the state (cnt, f, prev_bit) *)
Definition term_inner_body (colours : list (list Z)) (bit : Z) (st : Z * list Z * Z) : res (ctl void (Z * list Z * Z)) :=
  let '(cnt, f, prev_bit) := st in
  if bit =? prev_bit then Ok (CNext (cnt + 1, f, prev_bit))
  else do f2 <- src_flush colours cnt f prev_bit; Ok (CNext (1, f2, bit)).

Lemma term_row_loop : forall row cnt f prev,
  match py_for row (term_inner_body term_colours) (cnt, f, prev) with
  | Err e => Err e
  | Ok (inl r) => match r return res (ctl void (list Z)) with end
  | Ok (inr st) => let '(cnt', f', prev') := st in
                   do f2 <- src_flush term_colours cnt' f' prev'; Ok (CNext (py_write f2 [10]))
  end = do t <- term_row row prev cnt; Ok (CNext (f ++ t)).
Proof.
  induction row as [|bit r IH]; intros cnt f prev.
  - cbn [py_for term_row]. rewrite src_flush_spec.
    destruct (term_flush prev cnt) as [t|e]; cbn [bind]; [|reflexivity]. unfold py_write. now rewrite <- app_assoc.
  - cbn [py_for term_row term_inner_body]. destruct (bit =? prev).
    + apply IH.
    + rewrite src_flush_spec. destruct (term_flush prev cnt) as [t|e]; cbn [bind]; [|reflexivity].
      rewrite IH. destruct (term_row r bit 1) as [rest|e]; cbn [bind]; [|reflexivity]. now rewrite <- app_assoc.
Qed.

Theorem src_write_terminal_is_model : forall (matrix : list (list Z)) (w h : Z) (border : option Z),
  well_formed matrix w h ->
  src_write_terminal matrix [w; h] border = TextFmt.write_terminal matrix w h border.
Proof.
  intros matrix w h border Hwf. unfold src_write_terminal, TextFmt.write_terminal. cbv zeta.
  rewrite (src_matrix_iter_z matrix w h 1 border Hwf).
  destruct (check_valid_border (oborder border)) as [[]|e]; cbn [bind]; [|reflexivity].
  destruct (check_valid_scale (PInt 1)) as [[]|e]; cbn [bind]; [|reflexivity].
  rewrite (py_for_emit _ _ (fun row => term_row row (-1) 0)).
  - rewrite py_seq_res_text_map_res.
    destruct (map_res _ _) as [ls|e]; cbn [bind]; reflexivity.
  - intros row acc _.
    rewrite <- (term_row_loop row 0 acc (-1)).
    erewrite py_for_ext with (g := term_inner_body term_colours).
    + destruct (py_for row (term_inner_body term_colours) (0, acc, -1)) as [[r|[[cnt' f'] prev']]|e]; reflexivity.
    + intros bit [[cnt f] prev] _. unfold term_inner_body.
      destruct (bit =? prev); cbn [bind]; [reflexivity|].
      unfold src_flush. destruct (negb (cnt =? 0)); cbn [bind]; [|reflexivity].
      change (map (fun i : Z => [27; 91] ++ py_str_int i ++ [109]) [7; 49]) with term_colours.
      destruct (py_index term_colours prev) as [c|e]; reflexivity.
Qed.

(* ------------------------------------------------------------------ 5. write_terminal_compact *)
Definition src_blocks : list (list Z * list Z) := [([1; 1], [32]); ([0; 1], [9600]); ([1; 0], [9604]); ([0; 0], [9608])].

Lemma src_block x y : py_getL [x; y] src_blocks = do c <- compact_block x y; Ok [c].
Proof.
  unfold src_blocks, compact_block. cbn [py_getL py_list_eqb]. rewrite !andb_true_r.
  destruct (x =? 1), (y =? 1), (x =? 0), (y =? 0); reflexivity.
Qed.

Lemma src_compact_cells (l : list (Z * Z)) :
  py_seq_res (map (fun pair => do t <- py_getL pair src_blocks; Ok t) (map (fun p => [fst p; snd p]) l))
  = do cs <- map_res (fun p => compact_block (fst p) (snd p)) l; Ok (map (fun c => [c]) cs).
Proof.
  induction l as [|[x y] r IH]; cbn [map py_seq_res map_res fst snd]; [reflexivity|].
  rewrite bind_ret', src_block. destruct (compact_block x y) as [c|e]; cbn [bind]; [|reflexivity].
  rewrite IH. destruct (map_res _ r) as [cs|e]; reflexivity.
Qed.

Lemma zip_inf_none (top : list Z) : py_zip_inf top None 1 = py_zip_inf top (Some (repeat 1 (length top))) 1.
Proof.
  unfold py_zip_inf. induction top as [|x r IH]; cbn [map length repeat combine fst snd]; [reflexivity|]. now rewrite IH.
Qed.

Definition compact_pair (p : list Z * option (list Z)) : res (list Z) :=
  compact_line (fst p) (match snd p with Some b => b | None => repeat 1 (length (fst p)) end).

Lemma src_compact_line (top : list Z) (ob : option (list Z)) :
  (do t <- py_seq_res (map (fun pair => do t <- py_getL pair src_blocks; Ok t) (py_zip_inf top ob 1));
   Ok (py_join [] t ++ [10])) = compact_pair (top, ob).
Proof.
  unfold compact_pair, compact_line. cbn [fst snd].
  destruct ob as [b|]; [|rewrite zip_inf_none]; unfold py_zip_inf; rewrite src_compact_cells;
    (destruct (map_res _ _) as [cs|e]; cbn [bind]; [|reflexivity]);
    now rewrite py_join_nil_concat, concat_map_singleton, map_id.
Qed.

Lemma pair_ind {A} (P : list A -> Prop) :
  P [] -> (forall a, P [a]) -> (forall a b r, P r -> P (a :: b :: r)) -> forall l, P l.
Proof.
  intros H0 H1 H2 l. assert (H : P l /\ forall a, P (a :: l)); [|exact (proj1 H)].
  induction l as [|x r [IHa IHb]]; split; auto.
Qed.

Lemma compact_lines_pairs (rows : list (list Z)) :
  (do ls <- py_seq_res (map compact_pair (py_pairs_fill rows)); Ok (concat ls)) = compact_lines rows.
Proof.
  induction rows as [|top|top bottom r IH] using pair_ind; cbn [py_pairs_fill map py_seq_res compact_lines].
  - reflexivity.
  - unfold compact_pair at 1. cbn [fst snd]. destruct (compact_line top _) as [l|e]; cbn [bind concat]; [|reflexivity].
    now rewrite app_nil_r.
  - unfold compact_pair at 1. cbn [fst snd]. destruct (compact_line top bottom) as [l|e]; cbn [bind]; [|reflexivity].
    rewrite <- IH. destruct (py_seq_res _) as [ls|e]; reflexivity.
Qed.

Theorem src_write_terminal_compact_is_model : forall (matrix : list (list Z)) (w h : Z) (border : option Z),
  well_formed matrix w h ->
  src_write_terminal_compact matrix [w; h] border = TextFmt.write_terminal_compact matrix w h border.
Proof.
  intros matrix w h border Hwf. unfold src_write_terminal_compact, TextFmt.write_terminal_compact. cbv zeta.
  rewrite (src_matrix_iter_z matrix w h 1 border Hwf).
  destruct (check_valid_border (oborder border)) as [[]|e]; cbn [bind]; [|reflexivity].
  destruct (check_valid_scale (PInt 1)) as [[]|e]; cbn [bind]; [|reflexivity].
  fold src_blocks.
  rewrite (py_for_emit _ _ compact_pair).
  - rewrite <- compact_lines_pairs. destruct (py_seq_res _) as [ls|e]; reflexivity.
  - intros [top ob] acc _. rewrite <- src_compact_line.
    destruct (py_seq_res _) as [t|e]; cbn [bind]; [|reflexivity]. unfold py_write. now rewrite <- app_assoc.
Qed.

Print Assumptions src_write_txt_is_model.
Print Assumptions src_write_terminal_compact_is_model.
Print Assumptions src_write_terminal_is_model.
Print Assumptions src_color_to_rgb_hex_is_model.
Print Assumptions src_write_xpm_is_model.
Print Assumptions src_write_xbm_is_model.
