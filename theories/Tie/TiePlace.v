(* Bridge theorem: add_codewords (zig-zag placement of the final message) of segno/encoder.py, translated statement by
   statement from the CURRENT source (SegnoSrc.SrcPlace), equals the hand-written model (Model/Matrix.v: visit_order,
   place_visit), the matrix seen through [to_rows] (Tie/TieMat.v).  Any odd size >= 9, any matrix, any codewords.
   Re-checked by coqc on every run.  See DESIGN.md 11.7. *)
From Coq Require Import ZArith List Bool Lia ZifyBool FMapPositive.
From Segno Require Import Base.PyLite Base.PySem Ref.IsoData Model.Bits Model.Matrix.
From Segno Require Import Tie.TieBase Tie.TieMat Tie.TieLoops.
From SegnoSrc Require Import SrcPlace.
Import ListNotations.
Open Scope Z_scope.

(* ------------------------------------------------------------------ one cell *)
Definition cell_step (cw : list Z) (ij : Z * Z) (st : Z * list (list Z)) : res (Z * list (list Z)) :=
  let '(i, j) := ij in let '(idx, M) := st in
  do t2 <- py_row_index M i;
  do t3 <- py_get2 M t2 j;
  if (t3 =? 2) && (idx <? lenZ cw)
  then do t4 <- py_index cw idx; do M' <- py_set2 M t2 j t4; Ok (idx + 1, M')
  else Ok (idx, M).

Definition mstep (size : Z) (bs : bits) (ij : Z * Z) (st : Z * mat) : Z * mat :=
  let '(i, j) := ij in let '(idx, m) := st in
  match mget size m i j, nth_error bs (Z.to_nat idx) with
  | None, Some b => (idx + 1, mset size m i j b)
  | _, _ => (idx, m)
  end.

Lemma nthZ_bitsZ bs k b : nth_error bs k = Some b -> nthZ (bitsZ bs) (Z.of_nat k) = Ok (bit_z b).
Proof.
  intros H. unfold nthZ. destruct (Z.of_nat k <? 0) eqn:E; [lia|]. rewrite Nat2Z.id. unfold bitsZ.
  rewrite nth_error_map, H. reflexivity.
Qed.

Lemma cell_step_repr size bs i j idx m : 0 <= i < size -> 0 <= j < size -> 0 <= idx ->
  cell_step (bitsZ bs) (i, j) (idx, to_rows size m)
  = Ok (fst (mstep size bs (i, j) (idx, m)), to_rows size (snd (mstep size bs (i, j) (idx, m)))).
Proof.
  intros Hi Hj Hidx. unfold cell_step, mstep. rewrite row_index_repr_pos by lia. cbn [bind].
  rewrite get2_repr by pyi_solve. cbn [bind]. rewrite !pyi_nonneg by lia. rewrite lenZ_bitsZ.
  destruct (mget size m i j) as [b|] eqn:Hg.
  - replace (cellZ (Some b) =? 2) with false by (destruct b; reflexivity). cbn [andb].
    destruct (nth_error bs (Z.to_nat idx)); reflexivity.
  - cbn [cellZ]. rewrite Z.eqb_refl. cbn [andb].
    destruct (nth_error bs (Z.to_nat idx)) as [b|] eqn:Hn.
    + assert (Hlt : (Z.to_nat idx < length bs)%nat) by (apply nth_error_Some; congruence).
      replace (idx <? lenZ bs) with true by (unfold lenZ; lia).
      rewrite py_index_nonneg by lia. replace idx with (Z.of_nat (Z.to_nat idx)) at 1 by lia.
      rewrite (nthZ_bitsZ _ _ _ Hn). cbn [bind]. rewrite set2_repr_pos by lia. reflexivity.
    + apply nth_error_None in Hn. replace (idx <? lenZ bs) with false by (unfold lenZ; lia). reflexivity.
Qed.

Lemma cells_fold size bs : forall cells idx m, Forall (fun ij => 0 <= fst ij < size /\ 0 <= snd ij < size) cells -> 0 <= idx ->
  fold_res (cell_step (bitsZ bs)) cells (idx, to_rows size m)
  = Ok (fst (fold_left (fun st ij => mstep size bs ij st) cells (idx, m)),
        to_rows size (snd (fold_left (fun st ij => mstep size bs ij st) cells (idx, m)))).
Proof.
  induction cells as [|[i j] r IH]; intros idx m Hc Hidx; cbn [fold_res fold_left]; [reflexivity|].
  inversion Hc as [|? ? [Hi Hj] Hr]; subst. cbn [fst snd] in Hi, Hj.
  rewrite cell_step_repr by assumption. cbn [bind].
  destruct (mstep size bs (i, j) (idx, m)) as [idx' m'] eqn:Hs. cbn [fst snd].
  apply IH; [assumption|]. unfold mstep in Hs.
  destruct (mget size m i j), (nth_error bs (Z.to_nat idx)); injection Hs as <- <-; lia.
Qed.

Lemma skipn_nth {A} (l : list A) k x : nth_error l k = Some x -> skipn k l = x :: skipn (S k) l.
Proof.
  revert k. induction l as [|y l IH]; intros [|k] H; cbn in H; try discriminate.
  - now injection H as ->.
  - cbn [skipn]. now apply IH.
Qed.

Lemma mstep_place size bs : forall cells idx m, 0 <= idx ->
  let st := fold_left (fun st ij => mstep size bs ij st) cells (idx, m) in
  place_visit size m cells (skipn (Z.to_nat idx) bs) = (snd st, skipn (Z.to_nat (fst st)) bs) /\ 0 <= fst st.
Proof.
  induction cells as [|[i j] r IH]; intros idx m Hidx; cbn [fold_left place_visit fst snd]; [split; [reflexivity|assumption]|].
  assert (Hs : mstep size bs (i, j) (idx, m) =
               match mget size m i j, nth_error bs (Z.to_nat idx) with
               | None, Some b => (idx + 1, mset size m i j b) | _, _ => (idx, m) end) by reflexivity.
  rewrite Hs. clear Hs. destruct (mget size m i j) as [b0|] eqn:Hg.
  - apply IH; assumption.
  - destruct (nth_error bs (Z.to_nat idx)) as [b|] eqn:Hn.
    + rewrite (skipn_nth _ _ _ Hn). specialize (IH (idx + 1) (mset size m i j b) ltac:(lia)).
      replace (Z.to_nat (idx + 1)) with (S (Z.to_nat idx)) in IH by lia. exact IH.
    + assert (Hs : skipn (Z.to_nat idx) bs = []) by (apply skipn_all2; apply nth_error_None; assumption).
      rewrite Hs. specialize (IH idx m Hidx). rewrite Hs in IH. exact IH.
Qed.

Lemma mstep_bound size bs : forall cells idx m,
  fst (fold_left (fun st ij => mstep size bs ij st) cells (idx, m)) <= Z.max idx (lenZ bs).
Proof.
  induction cells as [|[i j] r IH]; intros idx m; cbn [fold_left fst]; [lia|].
  unfold mstep at 2. destruct (mget size m i j); [eapply Z.le_trans; [apply IH|lia]|].
  destruct (nth_error bs (Z.to_nat idx)) eqn:Hn; [|eapply Z.le_trans; [apply IH|lia]].
  assert (Hlt : (Z.to_nat idx < length bs)%nat) by (apply nth_error_Some; congruence).
  eapply Z.le_trans; [apply IH|]. unfold lenZ. lia.
Qed.

(* ------------------------------------------------------------------ range(size - 1, 0, -2) *)
Lemma py_range_aux_map step : forall n a k0,
  py_range_aux n a step = map (fun k => a + step * (k - k0)) (zrange_aux n k0).
Proof.
  induction n as [|n IH]; intros a k0; [reflexivity|]. cbn [py_range_aux zrange_aux map]. f_equal; [lia|].
  rewrite (IH (a + step) (k0 + 1)). apply map_ext. intros k. lia.
Qed.

Lemma rights_list size : 1 <= size ->
  py_range3 (size - 1) 0 (-2) = Ok (map (fun k => size - 1 - 2 * k) (zrange 0 ((size - 1 + 1) / 2))).
Proof.
  intros Hs. unfold py_range3. cbn [Z.eqb Z.ltb Z.compare Z.opp]. f_equal.
  rewrite (py_range_aux_map (-2) _ (size - 1) 0). unfold zrange.
  replace ((size - 1 - 0 - -2 - 1) / 2) with ((size - 1 + 1) / 2 - 0) by (rewrite Z.sub_0_r; f_equal; lia).
  apply map_ext. intros k. lia.
Qed.

(* ------------------------------------------------------------------ add_codewords *)
Definition cell_of (size : Z) (micro : bool) (inc right vertical z : Z) : Z * Z :=
  let j := right - z in
  let up0 := Z.land (right + inc) 2 =? 0 in
  let upwards := if micro then up0 else xorb up0 (j <? 6) in
  let i := if upwards then size - 1 - vertical else vertical in
  (i, j).

Definition adj_right (micro : bool) (right0 : Z) : Z := if negb micro && (right0 <=? 6) then right0 - 1 else right0.

Lemma visit_order_cells size version :
  visit_order size version =
  flat_map (fun k => flat_map (fun vertical =>
      map (cell_of size (version <? 1) (if (version =? VERSION_M1) || (version =? VERSION_M3) then 2 else 0)
                   (adj_right (version <? 1) (size - 1 - 2 * k)) vertical) [0; 1])
    (zrange 0 size)) (zrange 0 ((size - 1 + 1) / 2)).
Proof. reflexivity. Qed.

Lemma cells_in_range size version : 9 <= size -> Z.odd size = true ->
  Forall (fun ij => 0 <= fst ij < size /\ 0 <= snd ij < size) (visit_order size version).
Proof.
  intros Hs Hodd. rewrite visit_order_cells. apply Forall_forall. intros [i j] Hin.
  apply in_flat_map in Hin. destruct Hin as [k [Hk Hin]]. apply zrange_In_inv in Hk.
  apply in_flat_map in Hin. destruct Hin as [v [Hv Hin]]. apply zrange_In_inv in Hv.
  apply in_map_iff in Hin. destruct Hin as [z [Hz Hin]].
  assert (Hz01 : z = 0 \/ z = 1) by (cbn in Hin; intuition).
  assert (Hq : exists q, size = 2 * q + 1).
  { exists (size / 2). pose proof (Z.div_mod size 2 ltac:(lia)) as Hd. rewrite Zmod_odd, Hodd in Hd. lia. }
  destruct Hq as [q Hq]. assert (Hk2 : (size - 1 + 1) / 2 = q) by (subst size; replace (2 * q + 1 - 1 + 1) with (1 + q * 2) by lia; rewrite Z.div_add by lia; reflexivity).
  rewrite Hk2 in Hk. unfold cell_of, adj_right in Hz. cbv zeta in Hz.
  assert (Hi := f_equal fst Hz). assert (Hj := f_equal snd Hz). cbn [fst snd] in Hi, Hj |- *. clear Hz Hin.
  split.
  - destruct (if version <? 1 then _ else _); lia.
  - destruct (negb (version <? 1) && (size - 1 - 2 * k <=? 6)); lia.
Qed.

Lemma fold_cells_nested cw (c : Z -> Z -> Z * Z) vs zs s :
  fold_res (fun v s1 => fold_res (fun z s2 => cell_step cw (c v z) s2) zs s1) vs s
  = fold_res (cell_step cw) (flat_map (fun v => map (c v) zs) vs) s.
Proof.
  rewrite fold_res_flat_map. apply fold_res_ext. intros v s1. now rewrite fold_res_map.
Qed.

Theorem src_add_codewords_is_model : forall (size : Z) (m : mat) (codewords : bits) (version : Z),
  9 <= size -> Z.odd size = true ->
  src_add_codewords (to_rows size m) (bitsZ codewords) version
  = do m' <- Matrix.add_codewords size version m codewords; Ok (to_rows size m').
Proof.
  intros size m cw version Hs Hodd. unfold src_add_codewords, Matrix.add_codewords. cbv zeta.
  rewrite lenZ_to_rows by lia. rewrite rights_list by lia. cbn [bind].
  set (micro := version <? 1).
  set (inc := if negb ((version =? -3) || ((version =? -1) || false)) then 0 else 2).
  assert (Hinc : inc = (if (version =? VERSION_M1) || (version =? VERSION_M3) then 2 else 0)).
  { subst inc. unfold VERSION_M1, VERSION_M3. rewrite orb_false_r. destruct ((version =? -3) || (version =? -1)); reflexivity. }
  (* innermost loop: one cell *)
  assert (Hinner : forall right vertical z (s : Z * list (list Z)),
    (let '(idx, matrix) := s in
     let j := right - z in
     let upwards := Z.land (right + inc) 2 =? 0 in
     let upwards0 := if negb micro then (let upwards1 := xorb upwards (j <? 6) in upwards1) else upwards in
     let i := if upwards0 then size - 1 - vertical else vertical in
     do t'2 <- py_row_index matrix i;
     do t'3 <- py_get2 matrix t'2 j;
     do (idx0, matrix0) <- (if (t'3 =? 2) && (idx <? lenZ (bitsZ cw))
                             then do t'4 <- py_index (bitsZ cw) idx;
                                  do matrix1 <- py_set2 matrix t'2 j t'4;
                                  let idx1 := idx + 1 in Ok (idx1, matrix1)
                             else Ok (idx, matrix));
     Ok (@CNext void _ (idx0, matrix0)))
    = do s' <- cell_step (bitsZ cw) (cell_of size micro inc right vertical z) s; Ok (CNext s')).
  { intros right vertical z [idx M]. unfold cell_step, cell_of. cbv zeta.
    replace (if negb micro then xorb (Z.land (right + inc) 2 =? 0) (right - z <? 6) else Z.land (right + inc) 2 =? 0)
      with (if micro then Z.land (right + inc) 2 =? 0 else xorb (Z.land (right + inc) 2 =? 0) (right - z <? 6))
      by (destruct micro; reflexivity).
    destruct (py_row_index M _) as [t2|e]; cbn [bind]; [|reflexivity].
    destruct (py_get2 M t2 (right - z)) as [t3|e]; cbn [bind]; [|reflexivity].
    destruct ((t3 =? 2) && (idx <? lenZ (bitsZ cw))); cbn [bind]; [|reflexivity].
    destruct (py_index (bitsZ cw) idx) as [t4|e]; cbn [bind]; [|reflexivity].
    destruct (py_set2 M t2 (right - z) t4) as [M'|e]; reflexivity. }
  (* the three loops are folds over the cells *)
  rewrite (py_for_fold
    (fun right0 s => fold_res (fun vertical s1 => fold_res (fun z s2 => cell_step (bitsZ cw) (cell_of size micro inc (adj_right micro right0) vertical z) s2) [0; 1] s1) (zrange 0 size) s)).
  2:{ intros right0 [idx M]. cbv zeta.
      replace (if negb micro && (right0 <=? 6) then right0 - 1 else right0) with (adj_right micro right0) by reflexivity.
      rewrite (py_for_fold (fun vertical s1 => fold_res (fun z s2 => cell_step (bitsZ cw) (cell_of size micro inc (adj_right micro right0) vertical z) s2) [0; 1] s1)).
      2:{ intros vertical [idx1 M1].
          rewrite (py_for_fold (fun z s2 => cell_step (bitsZ cw) (cell_of size micro inc (adj_right micro right0) vertical z) s2)).
          2:{ intros z s2. apply Hinner. }
          change (zrange 0 2) with [0; 1].
          destruct (fold_res _ [0; 1] (idx1, M1)) as [[idx2 M2]|e]; reflexivity. }
      destruct (fold_res _ (zrange 0 size) (idx, M)) as [[idx2 M2]|e]; reflexivity. }
  (* ... which are the model's visiting order *)
  rewrite fold_res_map.
  erewrite fold_res_ext; [|intros k s; apply fold_cells_nested].
  rewrite <- (fold_res_flat_map (cell_step (bitsZ cw))).
  rewrite Hinc. subst micro. rewrite <- visit_order_cells.
  rewrite cells_fold by (try apply cells_in_range; assumption || lia). cbn [bind].
  pose proof (mstep_place size cw (visit_order size version) 0 m (Z.le_refl 0)) as HP. cbv zeta in HP.
  pose proof (mstep_bound size cw (visit_order size version) 0 m) as HB.
  destruct (fold_left (fun st ij => mstep size cw ij st) (visit_order size version) (0, m)) as [idx' m'] eqn:Hfold.
  cbn [fst snd] in HP, HB |- *. destruct HP as [HP Hidx']. change (Z.to_nat 0) with 0%nat in HP. cbn [skipn] in HP.
  rewrite HP. rewrite lenZ_bitsZ.
  destruct (skipn (Z.to_nat idx') cw) as [|b rest] eqn:Hrest.
  - assert (Hlen : (length cw <= Z.to_nat idx')%nat).
    { destruct (Nat.le_gt_cases (length cw) (Z.to_nat idx')) as [H|H]; [exact H|].
      exfalso. assert (Hl : length (skipn (Z.to_nat idx') cw) = (length cw - Z.to_nat idx')%nat) by apply skipn_length.
      rewrite Hrest in Hl. cbn in Hl. lia. }
    replace (idx' =? lenZ cw) with true by (unfold lenZ in *; lia). reflexivity.
  - assert (Hlen : (Z.to_nat idx' < length cw)%nat).
    { destruct (Nat.le_gt_cases (length cw) (Z.to_nat idx')) as [H|H]; [|exact H].
      exfalso. rewrite skipn_all2 in Hrest by exact H. discriminate. }
    replace (idx' =? lenZ cw) with false by (unfold lenZ in *; lia). reflexivity.
Qed.

Print Assumptions src_add_codewords_is_model.
