(* Bridge: segno.make / make_qr / make_micro as translated (build/gen/SrcApiQr.v, gen/translate_api.py) composed with the bridge of
   encoder.encode() (Tie/TieEncodeTop.v): the object the factory functions return is QRCode.__init__ applied to the MODEL's
   result (Model/Args.v encode_args) for the same arguments -- make_qr with micro=False, make_micro with micro=True and eci=False --
   and they raise what the model raises.  C14: "arguments are honoured or refused with ValueError" holds through the wrappers. *)
From Coq Require Import String.
From Coq Require Import ZArith List Bool Lia.
From Segno Require Import Base.PyLite Base.PySem Base.PySemSeg Base.PySemGlue Base.PySemApi Ref.IsoData Model.Bits Model.Segment
  Model.Version Model.Stream Model.Matrix Model.Encode Model.Color Model.Args.
From Segno Require Import Tie.TieBase Tie.TieSegments Tie.TieNorm Tie.TieEncodeFinal Tie.TieEncodeTop Tie.TieMaskScores Tie.TieApiQr.
From SegnoSrc Require SrcMaskScores SrcEncodeTop SrcSeqBody SrcApiQr.
Import ListNotations.
Open Scope Z_scope.

Section MakeModel.
  Variable ext_eci : option String.string -> res Z.

  Definition make_bytes := SrcApiQr.src_make_bytes ext_eci (SrcMaskScores.src_evaluate_mask 179).
  Definition make_items := SrcApiQr.src_make_items ext_eci (SrcMaskScores.src_evaluate_mask 179).

  (* the QRCode object for the model's result *)
  Definition qrcode_of (c : code) : res py_qrcode := SrcApiQr.src_QRCode_init (code_view c).

  Theorem src_make_bytes_is_model (content : list Z) (error version mode mask : option Z) (encoding : option enc)
          (eci : bool) (micro : option bool) (boost : bool) :
    enc_named encoding ->
    (forall m segs, prepare_data (parts_bytes content encoding m) = Ok segs -> eci_lookup_agrees ext_eci segs) ->
    make_bytes content error version mode mask (option_map e_name encoding) eci micro boost
    = do c <- encode_args (parts_bytes content encoding) (pyval_of_oz error) (pyval_of_oz version) (pyval_of_oz mode)
                          (pyval_of_oz mask) eci (pyval_of_obool micro) boost;
      qrcode_of c.
  Proof.
    intros Hn He. unfold make_bytes. rewrite src_make_bytes_spec, (src_encode_bytes_is_encode_args ext_eci) by assumption.
    destruct (encode_args _ _ _ _ _ _ _ _); reflexivity.
  Qed.
  Theorem src_make_items_is_model (items : list mitem) (error version mode mask : option Z) (encoding : option enc)
          (eci : bool) (micro : option bool) (boost : bool) :
    enc_named encoding -> Forall item_named items ->
    (forall m segs, prepare_data (parts_items items encoding m) = Ok segs -> eci_lookup_agrees ext_eci segs) ->
    make_items (map to_pitem items) error version mode mask (option_map e_name encoding) eci micro boost
    = do c <- encode_args (parts_items items encoding) (pyval_of_oz error) (pyval_of_oz version) (pyval_of_oz mode)
                          (pyval_of_oz mask) eci (pyval_of_obool micro) boost;
      qrcode_of c.
  Proof.
    intros Hn Hi He. unfold make_items. rewrite src_make_items_spec, (src_encode_items_is_encode_args ext_eci) by assumption.
    destruct (encode_args _ _ _ _ _ _ _ _); reflexivity.
  Qed.

  (* make_qr: the model with micro = False; make_micro: micro = True, eci = False *)
  Corollary src_make_qr_bytes_is_model content error version mode mask (encoding : option enc) eci boost :
    enc_named encoding ->
    (forall m segs, prepare_data (parts_bytes content encoding m) = Ok segs -> eci_lookup_agrees ext_eci segs) ->
    SrcApiQr.src_make_qr_bytes ext_eci (SrcMaskScores.src_evaluate_mask 179) content error version mode mask
      (option_map e_name encoding) eci boost
    = do c <- encode_args (parts_bytes content encoding) (pyval_of_oz error) (pyval_of_oz version) (pyval_of_oz mode)
                          (pyval_of_oz mask) eci (VBool false) boost;
      qrcode_of c.
  Proof. intros Hn He. rewrite src_make_qr_bytes_is_make. now apply (src_make_bytes_is_model _ _ _ _ _ _ _ (Some false)). Qed.
  Corollary src_make_micro_bytes_is_model content error version mode mask (encoding : option enc) boost :
    enc_named encoding ->
    (forall m segs, prepare_data (parts_bytes content encoding m) = Ok segs -> eci_lookup_agrees ext_eci segs) ->
    SrcApiQr.src_make_micro_bytes ext_eci (SrcMaskScores.src_evaluate_mask 179) content error version mode mask
      (option_map e_name encoding) boost
    = do c <- encode_args (parts_bytes content encoding) (pyval_of_oz error) (pyval_of_oz version) (pyval_of_oz mode)
                          (pyval_of_oz mask) false (VBool true) boost;
      qrcode_of c.
  Proof. intros Hn He. rewrite src_make_micro_bytes_is_make. now apply (src_make_bytes_is_model _ _ _ _ _ _ false (Some true)). Qed.
  Corollary src_make_qr_items_is_model items error version mode mask (encoding : option enc) eci boost :
    enc_named encoding -> Forall item_named items ->
    (forall m segs, prepare_data (parts_items items encoding m) = Ok segs -> eci_lookup_agrees ext_eci segs) ->
    SrcApiQr.src_make_qr_items ext_eci (SrcMaskScores.src_evaluate_mask 179) (map to_pitem items) error version mode mask
      (option_map e_name encoding) eci boost
    = do c <- encode_args (parts_items items encoding) (pyval_of_oz error) (pyval_of_oz version) (pyval_of_oz mode)
                          (pyval_of_oz mask) eci (VBool false) boost;
      qrcode_of c.
  Proof. intros Hn Hi He. rewrite src_make_qr_items_is_make. now apply (src_make_items_is_model _ _ _ _ _ _ _ (Some false)). Qed.
  Corollary src_make_micro_items_is_model items error version mode mask (encoding : option enc) boost :
    enc_named encoding -> Forall item_named items ->
    (forall m segs, prepare_data (parts_items items encoding m) = Ok segs -> eci_lookup_agrees ext_eci segs) ->
    SrcApiQr.src_make_micro_items ext_eci (SrcMaskScores.src_evaluate_mask 179) (map to_pitem items) error version mode mask
      (option_map e_name encoding) boost
    = do c <- encode_args (parts_items items encoding) (pyval_of_oz error) (pyval_of_oz version) (pyval_of_oz mode)
                          (pyval_of_oz mask) false (VBool true) boost;
      qrcode_of c.
  Proof. intros Hn Hi He. rewrite src_make_micro_items_is_make. now apply (src_make_items_is_model _ _ _ _ _ _ false (Some true)). Qed.

  (* whatever the model refuses, the factory functions refuse with the same exception (the object is never built) *)
  Corollary src_make_bytes_raises content error version mode mask (encoding : option enc) eci micro boost e :
    enc_named encoding ->
    (forall m segs, prepare_data (parts_bytes content encoding m) = Ok segs -> eci_lookup_agrees ext_eci segs) ->
    encode_args (parts_bytes content encoding) (pyval_of_oz error) (pyval_of_oz version) (pyval_of_oz mode) (pyval_of_oz mask) eci
      (pyval_of_obool micro) boost = Err e ->
    make_bytes content error version mode mask (option_map e_name encoding) eci micro boost = Err e.
  Proof. intros Hn He Hm. rewrite src_make_bytes_is_model by assumption. now rewrite Hm. Qed.
End MakeModel.

(* make_sequence with the parameter ext_encode_sequence instantiated by the TRANSLATED encode_sequence (build/gen/SrcSeqBody.v,
   gen/translate_seqbody.py, DESIGN.md 11.19; its bridge to Model/Sequence.v is Tie/TieSeqBody.v): the types fit, `eci` is False *)
Theorem src_make_sequence_bytes_translated ext_eci ext_eval content error version mode mask encoding boost_error symbol_count :
  SrcApiQr.src_make_sequence_bytes (SrcSeqBody.src_encode_sequence ext_eci ext_eval) content error version mode mask encoding
    boost_error symbol_count
  = do codes <- SrcSeqBody.src_encode_sequence ext_eci ext_eval content error version mode mask encoding false boost_error symbol_count;
    pya_map_res SrcApiQr.src_QRCode_init codes.
Proof. apply src_make_sequence_bytes_spec. Qed.

Print Assumptions src_make_bytes_is_model.
Print Assumptions src_make_sequence_bytes_translated.
Print Assumptions src_make_items_is_model.
Print Assumptions src_make_qr_bytes_is_model.
Print Assumptions src_make_micro_bytes_is_model.
Print Assumptions src_make_qr_items_is_model.
Print Assumptions src_make_micro_items_is_model.
Print Assumptions src_make_bytes_raises.
