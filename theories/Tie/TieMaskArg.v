(* Bridge theorems: normalize_mask of segno/encoder.py, translated statement by statement from the CURRENT source
   (SegnoSrc.SrcMaskArg, written by gen/translate.py with the Python semantics of Base/PySem.v), equal the hand-written
   model.  Re-checked by coqc on every run: a change of the Python source changes the generated file, and a change
   of behaviour breaks the theorem.  The proofs case-split on the comparisons instead of relying on syntactic
   equality, so behaviour-preserving rewrites of the source do not break them.  See DESIGN.md 11.7. *)
From Coq Require Import String.
From Coq Require Import ZArith List Bool Lia ZifyBool.
From Segno Require Import Base.PyLite Base.PySem Ref.IsoData Model.Bits Model.Segment Model.Version Model.Stream Model.Matrix Model.Encode.
From Segno Require Tie.TieTables.
From Segno Require Import Tie.TieBase.
From SegnoSrc Require SrcTables.
From SegnoSrc Require Import SrcMaskArg.
Import ListNotations.
Open Scope Z_scope.

(* ------------------------------------------------------------------ 5. normalize_mask (mask already an int or None) *)
Theorem src_normalize_mask_is_model : forall (mask : option Z) (is_micro : bool),
  src_normalize_mask mask is_micro = Encode.normalize_mask_int mask is_micro.
Proof.
  intros mask is_micro. unfold src_normalize_mask, Encode.normalize_mask_int.
  destruct mask as [k|]; [|reflexivity]. cbn [bind]. cbv zeta.
  destruct is_micro; destruct (0 <=? k), (k <? 4), (k <? 8); reflexivity.
Qed.

Print Assumptions src_normalize_mask_is_model.
