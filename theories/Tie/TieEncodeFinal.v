(* _encode of segno/encoder.py with NO assumed callee but codecs.lookup: the parameter [ext_eval] (= evaluate_mask) of the
   translated _encode (SegnoSrc.SrcEncode, bridge theorems Tie/TieEncode.v, Tie/TieEncodeFull.v) is instantiated with the
   translated evaluate_mask / mask_scores (SegnoSrc.SrcMaskScores), whose bridge theorem (Tie/TieMaskScores.v,
   Tie/TieMaskFull.src_evaluate_mask_to_rows) holds for the 44 symbol sizes.  _encode only ever passes matrices of size
   calc_matrix_size version to evaluate_mask -- that is the form of the hypothesis of TieEncode.src_encode_is_model_at --
   and for -3 <= version <= 40 this size is one of the 44 (TieEncode.size_facts).
   What remains a parameter: [ext_eci] = get_eci_assignment_number (Python's codecs.lookup(name).name looked up in
   consts.ECI_ASSIGNMENT_NUM); its hypothesis is stated explicitly below.
   Re-checked by coqc on every run.  See DESIGN.md 11.10. *)
From Coq Require Import String.
From Coq Require Import ZArith List Bool Lia FMapPositive.
From Segno Require Import Base.PyLite Base.PySem Ref.IsoData Model.Bits Model.Segment Model.Version
     Model.Stream Model.Matrix Model.Encode.
From Segno Require Lemmas.GeomLemmas.
From Segno Require Import Tie.TieBase Tie.TieMat Tie.TieFnPat Tie.TieMask Tie.TieEncode Tie.TieEncodeFull Tie.TieMaskScores Tie.TieMaskFull.
From SegnoSrc Require Import SrcEncode SrcMaskScores.
Import ListNotations.
Open Scope Z_scope.

(* the one remaining assumed callee: for every segment of the run, get_eci_assignment_number applied to the encoding NAME
   the Python segment carries gives what the model computes from the codec's canonical name (e_canon, an oracle input of
   the model: the result of codecs.lookup) *)
Definition eci_lookup_agrees (ext_eci : option String.string -> res Z) (segs : list segment) : Prop :=
  forall s, In s segs -> ext_eci (option_map e_name (s_enc s)) = eci_number (s_enc s).

(* guards: a version -3 .. 40; a requested mask in range (normalize_mask); the fuel of the while loop in
   n3_pattern_occurrences is at least size + 2; codecs.lookup as above.  Nothing is assumed about evaluate_mask. *)
Theorem src_encode_is_model_final_fuel :
  forall (ext_eci : option String.string -> res Z) (fuel : nat)
         (segs : list segment) (error : option Z) (version : Z) (mask : option Z) (eci boost : bool) (sa : option sa_info),
  -3 <= version <= 40 ->
  eci_lookup_agrees ext_eci segs ->
  (Z.to_nat (Encode.calc_matrix_size version) + 2 <= fuel)%nat ->
  match mask with Some k => 0 <= k < (if version <? 1 then 4 else 8) | None => True end ->
  src__encode ext_eci (src_evaluate_mask fuel) (to_py_segs segs) error version mask eci boost (option_map sa_list sa)
  = do r <- encode_core_mat segs error version mask eci boost sa;
    let '(m6, error', mask') := r in
    Ok (to_rows (Encode.calc_matrix_size version) m6, version, error', mask', to_py_segs segs).
Proof.
  intros ext_eci fuel segs error version mask eci boost sa Hv Heci Hfuel Hmask.
  destruct (size_facts version Hv) as [_ [Hin _]].
  apply src_encode_is_model_at; try assumption.
  - intros mk Hmk. apply src_evaluate_mask_to_rows; assumption.
  - apply hplaced_holds.
Qed.

(* 179 iterations are enough for every symbol (size <= 177) *)
Theorem src_encode_is_model_final :
  forall (ext_eci : option String.string -> res Z)
         (segs : list segment) (error : option Z) (version : Z) (mask : option Z) (eci boost : bool) (sa : option sa_info),
  -3 <= version <= 40 ->
  eci_lookup_agrees ext_eci segs ->
  match mask with Some k => 0 <= k < (if version <? 1 then 4 else 8) | None => True end ->
  src__encode ext_eci (src_evaluate_mask 179) (to_py_segs segs) error version mask eci boost (option_map sa_list sa)
  = do r <- encode_core_mat segs error version mask eci boost sa;
    let '(m6, error', mask') := r in
    Ok (to_rows (Encode.calc_matrix_size version) m6, version, error', mask', to_py_segs segs).
Proof.
  intros ext_eci segs error version mask eci boost sa Hv Heci Hmask.
  apply src_encode_is_model_final_fuel; try assumption.
  destruct (size_facts version Hv) as [_ [Hin _]].
  pose proof (all_sizes_nonneg _ Hin) as Hs. lia.
Qed.

(* ------------------------------------------------------------------ the result as the model's record [code] *)
(* format / version information only add values: a matrix in which every module has a value stays so *)
Lemma find_mset_some size m i j b p : PM.find p m <> None -> PM.find p (mset size m i j b) <> None.
Proof. intros Hp. rewrite GeomLemmas.find_mset. destruct (Pos.eqb (idx size i j) p); [discriminate|exact Hp]. Qed.

Lemma find_set_all_some size cells : forall m p, PM.find p m <> None -> PM.find p (set_all size m cells) <> None.
Proof.
  induction cells as [|[[i j] b] r IH]; intros m p Hp; [exact Hp|].
  rewrite set_all_cons. apply IH. apply find_mset_some. exact Hp.
Qed.

Lemma set_all_full size m cells : full size m -> full size (set_all size m cells).
Proof. intros Hf i j Hi Hj. unfold mget. apply find_set_all_some. exact (Hf i j Hi Hj). Qed.

Lemma mset_full size m i j b : full size m -> full size (mset size m i j b).
Proof. intros Hf a c Ha Hc. unfold mget. apply find_mset_some. exact (Hf a c Ha Hc). Qed.

Lemma add_format_info_full size version error mask m m' :
  full size m -> Matrix.add_format_info size version error mask m = Ok m' -> full size m'.
Proof.
  intros Hf H. unfold Matrix.add_format_info in H. cbv zeta in H.
  destruct (Matrix.calc_format_info version error mask) as [fi|e]; cbn [bind] in H; [|discriminate H].
  apply GeomLemmas.Ok_inj in H. subst m'.
  destruct (version <? 1); [exact (set_all_full _ _ _ Hf)|exact (mset_full _ _ _ _ _ (set_all_full _ _ _ Hf))].
Qed.

Lemma add_version_info_full size version m m' :
  full size m -> Matrix.add_version_info size version m = Ok m' -> full size m'.
Proof.
  intros Hf H. unfold Matrix.add_version_info in H. destruct (version <? 7); [apply GeomLemmas.Ok_inj in H; subst m'; exact Hf|].
  destruct (nthZ VERSION_INFO (version - 7)) as [vi|e]; cbn [bind] in H; [|discriminate H].
  apply GeomLemmas.Ok_inj in H. subst m'. exact (set_all_full _ _ _ Hf).
Qed.

(* every module of the matrix a successful run returns has a value: no placeholder 2 survives *)
Lemma encode_core_mat_full segs error version mask eci boost sa m6 e k :
  encode_core_mat segs error version mask eci boost sa = Ok (m6, e, k) -> full (Encode.calc_matrix_size version) m6.
Proof.
  unfold encode_core_mat. cbv zeta. intros H.
  apply GeomLemmas.bind_ok in H. destruct H as (error0 & _ & H).
  apply GeomLemmas.bind_ok in H. destruct H as (buff & Hbuff & H).
  apply GeomLemmas.bind_ok in H. destruct H as (final & Hfinal & H).
  apply GeomLemmas.bind_ok in H. destruct H as (m1 & Hm1 & H).
  apply GeomLemmas.bind_ok in H. destruct H as (m2 & Hm2 & H).
  apply GeomLemmas.bind_ok in H. destruct H as (m3 & Hm3 & H).
  apply GeomLemmas.bind_ok in H. destruct H as ([k4 m4] & Hm4 & H).
  apply GeomLemmas.bind_ok in H. destruct H as (m5 & Hm5 & H).
  apply GeomLemmas.bind_ok in H. destruct H as (m6' & Hm6 & H).
  injection H as <- _ _.
  pose proof (hplaced_holds segs version eci sa error0 buff final m1 m2 m3 Hbuff Hfinal Hm1 Hm2 Hm3) as Hf3.
  destruct (GeomLemmas.find_best_mask_shape _ _ _ _ _ Hm4) as (fm & _ & -> & _).
  pose proof (apply_mask_full _ _ _ (mask_fn (Encode.calc_matrix_size version <? 21) k4) (region_in_range _ fm) Hf3) as Hf4.
  exact (add_version_info_full _ _ _ _ (add_format_info_full _ _ _ _ _ _ Hf4 Hm5) Hm6).
Qed.

(* THE bridge theorem of _encode in one equation: the translated _encode (with the translated evaluate_mask) returns
   exactly what the model's encode_core returns -- the matrix as rows of 0/1 integers ([zbits] = map bit_z), the version,
   the (possibly boosted) level, the mask, the Segments object -- and raises exactly when encode_core does, with the same
   exception.  Guards as above. *)
Theorem src_encode_is_encode_core :
  forall (ext_eci : option String.string -> res Z)
         (segs : list segment) (error : option Z) (version : Z) (mask : option Z) (eci boost : bool) (sa : option sa_info),
  -3 <= version <= 40 ->
  eci_lookup_agrees ext_eci segs ->
  match mask with Some k => 0 <= k < (if version <? 1 then 4 else 8) | None => True end ->
  src__encode ext_eci (src_evaluate_mask 179) (to_py_segs segs) error version mask eci boost (option_map sa_list sa)
  = do code <- Encode.encode_core segs error version mask eci boost sa;
    Ok (map zbits (c_matrix code), c_version code, c_error code, c_mask code, to_py_segs (c_segments code)).
Proof.
  intros ext_eci segs error version mask eci boost sa Hv Heci Hmask.
  rewrite (src_encode_is_model_final ext_eci segs error version mask eci boost sa Hv Heci Hmask).
  rewrite encode_core_mat_spec.
  destruct (encode_core_mat segs error version mask eci boost sa) as [[[m6 e] k]|x] eqn:Hcore; cbn [bind]; [|reflexivity].
  cbn [c_matrix c_version c_error c_mask c_segments].
  rewrite (to_rows_full _ m6 (encode_core_mat_full _ _ _ _ _ _ _ _ _ _ Hcore)). reflexivity.
Qed.

Print Assumptions src_encode_is_model_final_fuel.
Print Assumptions src_encode_is_model_final.
Print Assumptions src_encode_is_encode_core.
