(* Bridge theorems: version_range, is_mode_supported, find_minimum_version_for_mode of segno/encoder.py, translated statement by statement from the CURRENT source
   (SegnoSrc.SrcVersion, written by gen/translate.py with the Python semantics of Base/PySem.v), equal the hand-written
   model.  Re-checked by coqc on every run: a change of the Python source changes the generated file, and a change
   of behaviour breaks the theorem.  The proofs case-split on the comparisons instead of relying on syntactic
   equality, so behaviour-preserving rewrites of the source do not break them.  See DESIGN.md 11.7. *)
From Coq Require Import String.
From Coq Require Import ZArith List Bool Lia ZifyBool.
From Segno Require Import Base.PyLite Base.PySem Ref.IsoData Model.Bits Model.Segment Model.Version Model.Stream Model.Matrix Model.Encode.
From Segno Require Tie.TieTables.
From Segno Require Import Tie.TieBase.
From SegnoSrc Require SrcTables.
From SegnoSrc Require Import SrcVersion.
Import ListNotations.
Open Scope Z_scope.

(* ------------------------------------------------------------------ 1. version_range *)
Theorem src_version_range_is_model : forall version : Z,
  src_version_range version = Version.version_range version.
Proof.
  intros version. unfold src_version_range, Version.version_range,
    VERSION_RANGE_01_09, VERSION_RANGE_10_26, VERSION_RANGE_27_40.
  split_ifs; try reflexivity; lia.
Qed.

(* ------------------------------------------------------------------ 4a. is_mode_supported, find_minimum_version_for_mode *)
Theorem src_is_mode_supported_is_model : forall mode ver : Z,
  src_is_mode_supported mode ver = Version.is_mode_supported mode ver.
Proof.
  intros mode ver. unfold src_is_mode_supported, Version.is_mode_supported. tie_tables.
  cbv zeta. rewrite Z.gtb_ltb. unfold getZ.
  destruct (assocZ mode SUPPORTED_MODES) as [l|]; reflexivity.
Qed.

Lemma first_supported_loop mode : forall vs,
  match py_for vs (fun v (st' : unit) => do t'1 <- src_is_mode_supported mode v;
                                        if t'1 then Ok (CRet v) else Ok (CNext tt)) tt with
  | Err e' => Err e'
  | Ok (inl r') => Ok r'
  | Ok (inr st') => Ok 1
  end = first_supported mode vs.
Proof.
  induction vs as [|v r IH]; cbn [py_for first_supported]; [reflexivity|].
  rewrite src_is_mode_supported_is_model.
  destruct (Version.is_mode_supported mode v) as [[|]|ex]; cbn [bind]; try reflexivity.
  exact IH.
Qed.

Theorem src_find_minimum_version_for_mode_is_model : forall mode : Z,
  src_find_minimum_version_for_mode mode = Version.find_minimum_version_for_mode mode.
Proof.
  intros mode. unfold src_find_minimum_version_for_mode, Version.find_minimum_version_for_mode. tie_tables.
  apply first_supported_loop.
Qed.

Print Assumptions src_version_range_is_model.
Print Assumptions src_is_mode_supported_is_model.
Print Assumptions src_find_minimum_version_for_mode_is_model.
