(* Bridge theorems: the PNG serializer write_png of segno/writers.py (with its nested helpers png_color / chunk / scanline and the
   wrapper that @colorful puts around it), translated statement by statement from the CURRENT source (SegnoSrc.SrcPng, written by
   gen/translate_png.py; Python semantics Base/PySemPng.v), equals the hand-written model Model/Png.v for EVERY matrix, scale,
   border, dpi and colour set of the model's typed domain (induction over the rows, the groups of samples and the colour map; no
   sampling), all error cases included: both sides raise the same exception.

   Parameters of the translated function (C code / translated elsewhere) and what is assumed of them:
     ext_crc32     zlib.crc32        forall b, ext_crc32 b = Png.crc32 b   (the bytewise CRC of the model, equal to the bit-serial
                                     specification: PngLemmas.crc32_matches_spec)
     ext_compress  zlib.compress     forall d, ext_compress d compresslevel = deflate d   (the model's section variable)
     ext_set_order the order in which CPython iterates over set(xs) (hash table layout)
                                     forall l, Permutation (ext_set_order l) (py_set_items l)   (it lists the distinct items)
     ext__color_to_rgb_or_rgba       instantiated with the function translated from the source (SrcColor.v through the typing shim
                                     of TieWrColorFull.v): no hypothesis left
   Guards:
     square symbols (matrix_size = (size, size), as the model); the alignment matrix is the one the translated make_matrix /
     add_alignment_patterns build (the model takes it as a parameter; as in TieWrNetpbm.src_write_ppm_is_model);
     write_png_cm (the function under @colorful, on the colormap dict): the dict has distinct keys and at most 16 entries -- with
     more than 16 colours a packed sample may exceed a byte, Python's bytearray() then raises ValueError while the model packs
     without a check; every dict that _make_colormap builds qualifies, so write_png itself has no such guard;
     [colours_ok]: once converted, no two distinct RGBA colours of the colour set share their (R, G, B) (they would differ in
     alpha only).  sorted() is stable, so for such a pair the palette order is the set's iteration order; the model keeps the order
     of first occurrence, CPython does not (write_png(dark='#00000008', data_dark='#00000002') yields the palette entries in the
     other order: a model imprecision, the image is the same).  Under the guard the result is the same for EVERY iteration order
     (section 4b);
     dpi: Python computes int(dpi // 0.0254) in binary64, the model the exact quotient dpi * 5000 / 127.  The _gen theorems take
     their agreement FOR THE GIVEN dpi as the hypothesis [dpi_float_ok]; the other theorems need dpi <= DPI_SWEPT (None, 0 and
     negative values included), for which the float code is run by the kernel ([dpi_sweep_all], no float axiom).
   Re-checked by coqc on every run.  See DESIGN.md 11.16. *)
From Coq Require Import ZArith QArith List Bool Lia ZifyBool PrimFloat Permutation Sorted.
From Segno Require Import Base.PyLite Base.PySem Base.PySemGen Base.PySemIO Base.PySemExt Base.PySemColor Base.PySemPng.
From Segno Require Import Ref.IsoData Model.Iter Model.Color Model.Png Lemmas.PngLemmas.
From Segno Require Model.TextFmt Lemmas.NetpbmLemmas.
From Segno Require Import Tie.TieUtils Tie.TieUtilsIter Tie.TieUtilsVerbose Tie.TieWrCommon Tie.TieColor Tie.TieWrColorFull.
From Segno Require Tie.TieWrNetpbm.
From SegnoSrc Require Import SrcUtils SrcUtilsVerbose SrcFnPat SrcWrCommon SrcColor SrcPng.
From SegnoSrc Require SrcTables.
Import ListNotations.
Open Scope Z_scope.

(* ================================================================== 0. the generated definition, stage by stage *)
(* The stages below restate the text of build/gen/SrcPng.v with names; [src_write_png_unfold] checks the restatement against
   the generated definition by conversion -- this is where every textual change of the source is caught first. *)
Section Stages.
  Variable ext : option py_color -> bool -> res (list Z).
  Variable crc : list Z -> Z.
  Variable comp : list Z -> Z -> list Z.
  Variable seto : list (list Z) -> list (list Z).

  Definition s_chunk (name data : list Z) : res (list Z) :=
    let chunk_head := name ++ data in
    do t1 <- py_struct_pack [62; 73] [lenZ data];
    do t2 <- py_struct_pack [62; 73] [crc chunk_head];
    Ok ((t1 ++ chunk_head) ++ t2).

  Definition s_dpi (dpi : option Z) : res (option Z) :=
    if match dpi with None => false | Some x_ => negb (x_ =? 0) end
    then do t2 <- match dpi with Some x_ => Ok x_ | None => Err TypeErr end;
         do _ <- (if t2 <? 0 then Err ValueError else Ok tt);
         do t3 <- py_float_of_int t2;
         do t4 <- py_float_floordiv t3 (0x1.a027525460aa6p-6)%float;
         do t5 <- py_int_of_float t4;
         Ok (Some t5)
    else Ok dpi.

  Definition s_transparent : list Z := [-1; -1; -1; -1].
  Definition s_black : list Z := [0; 0; 0].
  Definition s_white : list Z := [255; 255; 255].

  Definition s_png_color (clr : option py_color) : res (list Z) :=
    do t <- match clr with Some clr => (do t' <- ext (Some clr) false; Ok t') | None => Ok s_transparent end;
    Ok t.

  Definition s_clr_map (colormap : list (Z * option py_color)) : res (list (Z * list Z)) :=
    py_seq_res (map (fun k => do t6 <- getZ k colormap; do t7 <- s_png_color t6; Ok (k, t7)) (py_dict_keys colormap)).

  Definition s_palette (clr_map : list (Z * list Z)) : res (list (list Z)) :=
    py_sorted_by_key py_list_ltb (py_itemgetter3 0 1 2) (seto (py_dict_values clr_map)).

  Definition s_is_grey (palette : list (list Z)) : bool :=
    (lenZ palette =? 2) && py_all (map (fun clr => py_mem_list clr [s_transparent; s_black; s_white]) palette).

  (* the branch `if not is_greyscale: .. elif is_transparent: ..` : (clr_map, palette, png_bit_depth, png_trans_idx) *)
  Definition s_plan (clr_map : list (Z * list Z)) (palette : list (list Z)) : res (list (Z * list Z) * list (list Z) * Z * option Z) :=
    let is_transparent := py_mem_list s_transparent palette in
    let number_of_colors := lenZ palette in
    let png_bit_depth := 1 in
    if negb (s_is_grey palette)
    then (let png_bit_depth := (if number_of_colors >? 2 then (if number_of_colors <? 5 then 2 else 4) else png_bit_depth) in
          do palette <- py_sorted_by_key (py_reversed_ltb Z.ltb) py_len_key palette;
          do (clr_map, palette, png_trans_idx) <-
             (if is_transparent
              then (let png_trans_idx := 0 in
                    do t11 <- (if lenZ palette >? 1 then (do t10 <- py_index palette 1; Ok (lenZ t10 =? 3)) else Ok false);
                    let rgb_values := (if t11 then py_name2rgb_values SrcTables.NAME2RGB
                                       else map (fun clr => clr ++ [0]) (py_name2rgb_values SrcTables.NAME2RGB)) in
                    do t12 <- py_next_first (map (fun clr => clr) (filter (fun clr => negb (py_mem_list clr palette)) rgb_values));
                    do palette <- py_list_set_item palette 0 t12;
                    let clr_map := py_dict_update clr_map (map (fun '(module_type, clr) => (module_type, t12))
                                                             (filter (fun '(module_type, clr) => py_list_eqb clr s_transparent) clr_map)) in
                    Ok (clr_map, palette, Some png_trans_idx))
              else Ok (clr_map, palette, None));
          Ok (clr_map, palette, png_bit_depth, png_trans_idx))
    else (do (palette, png_trans_idx) <-
             (if is_transparent
              then (let palette := (if py_mem_list s_black palette then [s_black; s_transparent] else palette) in
                    do t13 <- py_index_of_list s_transparent palette;
                    Ok (palette, Some t13))
              else Ok (palette, None));
          Ok (clr_map, palette, png_bit_depth, png_trans_idx)).

  Definition s_scanline (png_bit_depth : Z) (row filter_type : list Z) : res (list Z) :=
    do t116 <- (do c115 <- py_seq_res (map (fun e => do t114 <- py_reduce (fun x y => Z.shiftl x png_bit_depth + y) e; Ok t114)
                                          (py_grouper (8 / png_bit_depth) 0 row));
                Ok (filter_type ++ c115));
    do t117 <- py_bytearray t116;
    Ok t117.

  Definition s_verbose (number_of_colors : Z) (clr_map : list (Z * list Z)) : res bool :=
    if number_of_colors >? 2 then Ok true
    else do t15 <- py_any_res (map (fun '(mt, clr) => do t14 <- getZ (if negb (Z.shiftr mt 8 =? 0) then 1536 else 18) clr_map;
                                                      Ok (negb (py_list_eqb clr t14))) clr_map);
         Ok t15.

  Definition s_index (verbose : bool) (matrix : list (list Z)) (matrix_size : list Z) (clr_map : list (Z * list Z))
                     (palette : list (list Z)) : res (list (Z * Z) * res (list (list Z))) :=
    if verbose
    then (let miter := src_matrix_iter_verbose matrix matrix_size (inject_Z 1) (Some 0) in
          do t18 <- py_seq_res (map (fun '(module_type, clr) => do t17 <- py_index_of_list clr palette; Ok (module_type, t17)) clr_map);
          Ok (t18, miter))
    else (let miter := Ok matrix in
          do t19 <- getZ 18 clr_map;
          do t20 <- py_index_of_list t19 palette;
          let color_index := [(18, t20)] in
          do t21 <- getZ 18 color_index;
          do t22 <- getZ 1536 clr_map;
          do t23 <- py_index_of_list t22 palette;
          let color_index := py_dict_update color_index [(0, t21); (1, t23)] in
          Ok (color_index, miter)).

  Definition s_rows (color_index : list (Z * Z)) (miter : res (list (list Z))) : res (list (res (list Z))) :=
    do xs <- miter; Ok (map (fun r => py_seq_res (map (fun b => do t24 <- getZ b color_index; Ok t24) r)) xs).

  Definition s_borders (bd : Z) (color_index : list (Z * Z)) (width border scale : Z) : res (list Z * list Z) :=
    if border >? 0
    then (do t26 <- getZ 18 color_index;
          do t27 <- s_scanline bd (py_it_repeat t26 width) [0];
          Ok (py_repeat (py_repeat t27 border) scale, py_repeat (py_repeat [t26] border) scale))
    else Ok (@nil Z, @nil Z).

  Definition s_scale (bd : Z) (miter : res (list (res (list Z)))) (width scale : Z) : res (res (list (res (list Z))) * list Z) :=
    if scale >? 1
    then (do t28 <- s_scanline bd (py_it_repeat 0 width) [2];
          Ok ((do xs <- miter; Ok (map (fun row => do t29 <- row; Ok (concat (map (fun b => py_it_repeat b scale) t29))) xs)),
              py_repeat t28 (scale - 1)))
    else Ok (miter, @nil Z).

  Definition s_loop_body (bd : Z) (vertical_border same_as_above : list Z) (row : res (list Z)) (idat : list Z)
    : res (ctl void (list Z)) :=
    do t33 <- (do c32 <- row; Ok (vertical_border ++ c32 ++ vertical_border));
    do t34 <- s_scanline bd t33 [0];
    Ok (CNext ((idat ++ t34) ++ same_as_above)).

  Definition s_tail (width height bd png_color_type : Z) (dpi : option Z) (is_greyscale is_transparent : bool)
                    (palette : list (list Z)) (png_trans_idx : option Z) (idat : list Z) (compresslevel : Z) : res (list Z) :=
    let f := py_stream_new in
    let f := py_write f [137; 80; 78; 71; 13; 10; 26; 10] in
    do t35 <- py_struct_pack [62; 50; 73; 53; 66] [width; height; bd; png_color_type; 0; 0; 0];
    do t36 <- s_chunk [73; 72; 68; 82] t35;
    let f := py_write f t36 in
    do f <- (if match dpi with None => false | Some x_ => negb (x_ =? 0) end
             then (do t37 <- py_struct_int dpi;
                   do t38 <- py_struct_int dpi;
                   do t39 <- py_struct_pack [62; 76; 76; 66] [t37; t38; 1];
                   do t40 <- s_chunk [112; 72; 89; 115] t39;
                   Ok (py_write f t40))
             else Ok f);
    do f <- (if negb is_greyscale
             then (do t42 <- py_seq_res (map (fun clr => do t41 <- py_struct_pack [62; 51; 66] (py_slice clr 0 3); Ok t41) palette);
                   do t43 <- s_chunk [80; 76; 84; 69] (py_join (@nil Z) t42);
                   let f := py_write f t43 in
                   do t44 <- py_index palette 0;
                   do f <- (if lenZ t44 >? 3
                            then (do t47 <- py_seq_res (map (fun clr => do t45 <- py_index clr 3;
                                                                       do t46 <- py_struct_pack [62; 66] [t45]; Ok t46)
                                                            (filter (fun clr => lenZ clr >? 3) palette));
                                  do t48 <- s_chunk [116; 82; 78; 83] (py_join (@nil Z) t47);
                                  Ok (py_write f t48))
                            else (do f <- (if is_transparent
                                           then (do t49 <- py_struct_int png_trans_idx;
                                                 do t50 <- py_struct_pack [62; 66] [t49];
                                                 do t51 <- s_chunk [116; 82; 78; 83] t50;
                                                 Ok (py_write f t51))
                                           else Ok f);
                                  Ok f));
                   Ok f)
             else (do f <- (if is_transparent
                            then (do t52 <- py_struct_int png_trans_idx;
                                  do t53 <- py_struct_pack [62; 49; 72] [t52];
                                  do t54 <- s_chunk [116; 82; 78; 83] t53;
                                  Ok (py_write f t54))
                            else Ok f);
                   Ok f));
    do t55 <- s_chunk [73; 68; 65; 84] (comp idat compresslevel);
    let f := py_write f t55 in
    do t56 <- s_chunk [73; 69; 78; 68] (@nil Z);
    Ok (py_write f t56).

  (* everything after `dpi` has its final value *)
  Definition s_after (matrix : list (list Z)) (matrix_size : list Z) (colormap : list (Z * option py_color))
                     (scale compresslevel width height border : Z) (dpi : option Z) : res (list Z) :=
    do clr_map <- s_clr_map colormap;
    do palette <- s_palette clr_map;
    let is_transparent := py_mem_list s_transparent palette in
    let number_of_colors := lenZ palette in
    let is_greyscale := s_is_grey palette in
    let png_color_type := (if is_greyscale then 0 else 3) in
    do (clr_map, palette, png_bit_depth, png_trans_idx) <- s_plan clr_map palette;
    do verbose <- s_verbose number_of_colors clr_map;
    do (color_index, miter) <- s_index verbose matrix matrix_size clr_map palette;
    let miter := s_rows color_index miter in
    do (horizontal_border, vertical_border) <- s_borders png_bit_depth color_index width border scale;
    do (miter, same_as_above) <- s_scale png_bit_depth miter width scale;
    do t31 <- miter;
    match py_for (A:=void) t31 (s_loop_body png_bit_depth vertical_border same_as_above) horizontal_border with
    | Err e' => Err e'
    | Ok (inl r') => match r' return _ with end
    | Ok (inr idat) =>
        s_tail width height png_bit_depth png_color_type dpi is_greyscale is_transparent palette png_trans_idx
               (idat ++ horizontal_border) compresslevel
    end.

  Definition s_write_png (matrix : list (list Z)) (matrix_size : list Z) (colormap : list (Z * option py_color))
                         (scale : Z) (border : option Z) (compresslevel : Z) (dpi : option Z) : res (list Z) :=
    do t1 <- src__valid_width_height_and_border matrix_size scale border;
    do (width, height, border) <- py_unpack3 t1;
    do dpi <- s_dpi dpi;
    s_after matrix matrix_size colormap scale compresslevel width height border dpi.
End Stages.

Lemma src_write_png_unfold ext crc comp seto matrix matrix_size colormap scale border compresslevel dpi :
  src_write_png ext crc comp seto matrix matrix_size colormap scale border compresslevel dpi
  = s_write_png ext crc comp seto matrix matrix_size colormap scale border compresslevel dpi.
Proof. reflexivity. Qed.

(* ================================================================== 1. small correspondences *)
Lemma bind_ok {A B} (a : A) (f : A -> res B) : bind (Ok a) f = f a.
Proof. reflexivity. Qed.

Lemma eqb_clr a b : py_list_eqb a b = clr_eqb a b.
Proof. apply TieWrNetpbm.py_list_eqb_str_eqb. Qed.

Lemma mem_clr c l : py_mem_list c l = clr_mem c l.
Proof.
  unfold py_mem_list, clr_mem. induction l as [|x l IH]; cbn [existsb]; [reflexivity|]. now rewrite eqb_clr, IH.
Qed.

Lemma index_of_list_clr c l : py_index_of_list c l = index_of c l.
Proof.
  induction l as [|x l IH]; cbn [py_index_of_list index_of]; [reflexivity|]. rewrite eqb_clr, IH. reflexivity.
Qed.

Lemma seq_res_map_res {A B} (g : A -> res B) (l : list A) : py_seq_res (map g l) = map_res g l.
Proof.
  induction l as [|x r IH]; cbn [map py_seq_res map_res]; [reflexivity|].
  destruct (g x) as [y|e]; cbn [bind]; [|reflexivity]. now rewrite IH.
Qed.

Lemma set_items_dedup l : py_set_items l = dedup l.
Proof.
  induction l as [|x l IH]; cbn [py_set_items dedup]; [reflexivity|]. rewrite IH. reflexivity.
Qed.

Lemma assocZ_NoDup {A} (l : list (Z * A)) k v : NoDup (map fst l) -> In (k, v) l -> assocZ k l = Some v.
Proof.
  induction l as [|[k' v'] l IH]; intros Hnd Hin; [destruct Hin|]. cbn [map fst] in Hnd. inversion Hnd as [|? ? Hni Hnd']; subst.
  cbn [assocZ]. destruct Hin as [Heq|Hin].
  - injection Heq as -> ->. now rewrite Z.eqb_refl.
  - destruct (k =? k') eqn:E.
    + apply Z.eqb_eq in E. subst k'. exfalso. apply Hni. apply in_map_iff. exists (k, v). split; [reflexivity|assumption].
    + now apply IH.
Qed.

(* ================================================================== 2. dpi *)
(* Python: int(dpi // 0.0254) in binary64; the model: the exact quotient dpi * 5000 / 127.  They agree on the swept range
   (evaluated by the kernel); the general theorem takes the agreement for the given dpi as a hypothesis. *)
Definition dpi_src (d : Z) : res Z :=
  do t3 <- py_float_of_int d; do t4 <- py_float_floordiv t3 (0x1.a027525460aa6p-6)%float; py_int_of_float t4.
Definition dpi_float_ok (dpi : option Z) : Prop :=
  match dpi with Some d => 0 < d -> dpi_src d = Ok (dpi_to_ppm d) | None => True end.

Definition DPI_SWEPT : Z := 100000.
Fixpoint dpi_sweep (n : nat) (d : Z) : bool :=
  match n with
  | O => true
  | S k => match dpi_src d with Ok v => (v =? dpi_to_ppm d) && dpi_sweep k (d + 1) | Err _ => false end
  end.
Lemma dpi_sweep_spec n : forall d0 d, dpi_sweep n d0 = true -> d0 <= d < d0 + Z.of_nat n -> dpi_src d = Ok (dpi_to_ppm d).
Proof.
  induction n as [|n IH]; intros d0 d Hs Hd; [lia|]. cbn [dpi_sweep] in Hs.
  destruct (dpi_src d0) as [v|e] eqn:E; [|discriminate]. apply andb_true_iff in Hs. destruct Hs as [Hv Hs].
  destruct (Z.eq_dec d d0) as [->|Hne].
  - rewrite E. apply Z.eqb_eq in Hv. now subst.
  - apply (IH (d0 + 1)); [assumption|lia].
Qed.
Lemma dpi_sweep_all : dpi_sweep (Z.to_nat DPI_SWEPT) 1 = true.
Proof. vm_cast_no_check (eq_refl true). Qed.
Definition dpi_swept (dpi : option Z) : Prop := match dpi with Some d => d <= DPI_SWEPT | None => True end.
Lemma dpi_swept_ok dpi : dpi_swept dpi -> dpi_float_ok dpi.
Proof.
  destruct dpi as [d|]; [|exact (fun _ => I)]. cbn [dpi_swept dpi_float_ok]. intros Hle Hpos.
  apply (dpi_sweep_spec (Z.to_nat DPI_SWEPT) 1 d dpi_sweep_all). unfold DPI_SWEPT in *. lia.
Qed.

(* Python keeps a dpi of 0 (falsy: no pHYs chunk is written), the model turns it into None *)
Lemma s_dpi_zero : s_dpi (Some 0) = Ok (Some 0).
Proof. reflexivity. Qed.
Lemma s_dpi_is_model dpi : dpi_float_ok dpi -> dpi <> Some 0 -> s_dpi dpi = png_dpi dpi.
Proof.
  intros Hok Hnz. unfold s_dpi, png_dpi. destruct dpi as [d|]; [|reflexivity].
  destruct (d =? 0) eqn:E0; [exfalso; apply Hnz; f_equal; lia|]. cbn [negb bind].
  destruct (d <? 0) eqn:Eneg; cbn [bind]; [reflexivity|].
  cbn [dpi_float_ok] in Hok. specialize (Hok ltac:(lia)). unfold dpi_src in Hok.
  destruct (py_float_of_int d) as [x|e]; cbn [bind] in Hok |- *; [|discriminate].
  destruct (py_float_floordiv x _) as [q|e]; cbn [bind] in Hok |- *; [|discriminate].
  rewrite Hok. reflexivity.
Qed.

(* ================================================================== 3. clr_map = {k: png_color(colormap[k]) for k in colormap} *)
Definition ext_ok (ext : option py_color -> bool -> res (list Z)) : Prop :=
  forall c, ext (Some (to_py_color c)) false = color_to_rgb_or_rgba c false.

Lemma s_png_color_is_model ext (c : ocolor) : ext_ok ext -> s_png_color ext (to_oc c) = png_color c.
Proof.
  intros Hext. unfold s_png_color, png_color, to_oc. destruct c as [c|]; cbn [option_map]; [|reflexivity].
  rewrite Hext. now destruct (color_to_rgb_or_rgba c false).
Qed.

Lemma keys_to_py_colormap cm : py_dict_keys (to_py_colormap cm) = map fst cm.
Proof. unfold py_dict_keys, to_py_colormap. rewrite map_map. reflexivity. Qed.

Lemma assocZ_to_py_colormap cm k : assocZ k (to_py_colormap cm) = option_map to_oc (assocZ k cm).
Proof.
  unfold to_py_colormap. induction cm as [|[k' v] cm IH]; cbn [map assocZ fst snd]; [reflexivity|].
  destruct (k =? k'); [reflexivity|exact IH].
Qed.

Lemma s_clr_map_is_model ext cm : ext_ok ext -> NoDup (map fst cm) -> s_clr_map ext (to_py_colormap cm) = png_clr_map cm.
Proof.
  intros Hext Hnd. unfold s_clr_map, png_clr_map. rewrite keys_to_py_colormap.
  assert (Hgen : forall l, (forall k c, In (k, c) l -> assocZ k cm = Some c) ->
            py_seq_res (map (fun k => do t6 <- getZ k (to_py_colormap cm); do t7 <- s_png_color ext t6; Ok (k, t7)) (map fst l))
            = map_res (fun '(mt, c) => do v <- png_color c; Ok (mt, v)) l).
  { induction l as [|[k c] l IH]; intros Hl; cbn [map py_seq_res map_res fst]; [reflexivity|].
    unfold getZ at 1. rewrite assocZ_to_py_colormap, (Hl k c (or_introl eq_refl)). cbn [option_map bind].
    rewrite (s_png_color_is_model ext c Hext). destruct (png_color c) as [v|e]; cbn [bind]; [|reflexivity].
    rewrite IH by (intros k' c' Hin; apply Hl; now right). reflexivity. }
  apply Hgen. intros k c Hin. now apply assocZ_NoDup.
Qed.

(* the keys of clr_map are those of the colour map; every colour has 3 or 4 items *)
Definition len34 (c : list Z) : Prop := length c = 3%nat \/ length c = 4%nat.

Lemma rgb_or_rgba_len34 c l : color_to_rgb_or_rgba c false = Ok l -> len34 l.
Proof.
  unfold color_to_rgb_or_rgba. intros H. destruct (color_to_rgba c false) as [rgba|e] eqn:E; cbn [bind] in H; [|discriminate].
  destruct (NetpbmLemmas.color_to_rgba_ok c false rgba E) as (r & g & b & a & -> & _).
  destruct (a =? opaque false); injection H as <-; [left|right]; reflexivity.
Qed.

Lemma png_color_len34 oc c : png_color oc = Ok c -> len34 c.
Proof.
  destruct oc as [pc|]; cbn [png_color]; [apply rgb_or_rgba_len34|]. intros H. injection H as <-. right. reflexivity.
Qed.

Lemma clr_map_facts cm clr_map : png_clr_map cm = Ok clr_map ->
  map fst clr_map = map fst cm /\ Forall len34 (map snd clr_map).
Proof.
  intros H. apply clr_map_rel in H. induction H as [|[k o] [k' c] cm clr_map [Hk Hc] HF [IH1 IH2]]; [split; [reflexivity|constructor]|].
  cbn [fst snd map] in *. subst k'. split; [now rewrite IH1|]. constructor; [now apply (png_color_len34 o)|assumption].
Qed.

(* ================================================================== 4. palette = sorted(set(clr_map.values()), key=itemgetter(0, 1, 2)) *)
Definition key3 (c : list Z) : list Z := [nth 0 c 0; nth 1 c 0; nth 2 c 0].
Definition keyed (c : list Z) : list Z * list Z := (key3 c, c).

Lemma itemgetter_key3 c : (3 <= length c)%nat -> py_itemgetter3 0 1 2 c = Ok (key3 c).
Proof.
  intros Hl. destruct c as [|a [|b [|d r]]]; cbn [length] in Hl; try lia.
  unfold py_itemgetter3, py_index, nthZ. cbn [Z.ltb Z.compare Z.to_nat nth_error Pos.to_nat Pos.iter_op Nat.add bind]. reflexivity.
Qed.

Lemma list_ltb_key3 a b : py_list_ltb (key3 a) (key3 b) = key_ltb a b.
Proof.
  unfold key3, key_ltb. cbn [py_list_ltb]. now rewrite andb_false_r, orb_false_r.
Qed.

Lemma insert_keyed_stable x : forall acc,
  py_insert_keyed py_list_ltb (keyed x) (map keyed acc) = map keyed (insert_stable x acc).
Proof.
  induction acc as [|y acc IH]; cbn [map py_insert_keyed insert_stable]; [reflexivity|].
  cbn [keyed fst]. rewrite list_ltb_key3. destruct (key_ltb x y); cbn [map]; [reflexivity|]. now rewrite <- IH.
Qed.

Lemma sort_keyed_stable : forall l acc,
  fold_left (fun a x => py_insert_keyed py_list_ltb x a) (combine (map key3 l) l) (map keyed acc)
  = map keyed (fold_left (fun a x => insert_stable x a) l acc).
Proof.
  induction l as [|x l IH]; intros acc; cbn [map combine fold_left]; [reflexivity|].
  change (key3 x, x) with (keyed x). rewrite insert_keyed_stable. apply IH.
Qed.

Lemma sorted_key3_sort_rgb l : Forall (fun c => (3 <= length c)%nat) l ->
  py_sorted_by_key py_list_ltb (py_itemgetter3 0 1 2) l = Ok (sort_rgb l).
Proof.
  intros Hl. unfold py_sorted_by_key.
  rewrite (py_seq_res_map_ok (py_itemgetter3 0 1 2) key3).
  - cbn [bind]. unfold py_sort_keyed, sort_rgb. pose proof (sort_keyed_stable l []) as Hs. cbn [map] in Hs. rewrite Hs.
    rewrite map_map. cbn [keyed snd]. now rewrite map_id.
  - intros c Hc. rewrite Forall_forall in Hl. now apply itemgetter_key3, Hl.
Qed.

Lemma len34_ge3 c : len34 c -> (3 <= length c)%nat.
Proof. intros [H|H]; lia. Qed.

Lemma Forall_dedup (P : list Z -> Prop) l : Forall P l -> Forall P (dedup l).
Proof. intros H. rewrite Forall_forall in *. intros c Hc. apply H. apply (proj1 (dedup_In c l)). exact Hc. Qed.
Lemma Forall_sort_rgb (P : list Z -> Prop) l : Forall P l -> Forall P (sort_rgb l).
Proof. intros H. rewrite Forall_forall in *. intros c Hc. apply H. apply (proj1 (sort_rgb_In c l)). exact Hc. Qed.

Definition palette0 (clr_map : list (Z * list Z)) : list (list Z) := sort_rgb (dedup (map snd clr_map)).

(* the palette as the source computes it: the set is iterated in the order [seto] *)
Definition palette_src (seto : list (list Z) -> list (list Z)) (clr_map : list (Z * list Z)) : list (list Z) :=
  sort_rgb (seto (map snd clr_map)).

Lemma s_palette_is_model seto clr_map : Forall len34 (seto (map snd clr_map)) ->
  s_palette seto clr_map = Ok (palette_src seto clr_map).
Proof.
  intros H. unfold s_palette, palette_src, py_dict_values. apply sorted_key3_sort_rgb.
  eapply Forall_impl; [|exact H]. apply len34_ge3.
Qed.

Lemma palette0_len34 clr_map : Forall len34 (map snd clr_map) -> Forall len34 (palette0 clr_map).
Proof. intros H. now apply Forall_sort_rgb, Forall_dedup. Qed.

(* ------------------------------------------------------------------ 4b. the iteration order of the set *)
(* sorted() is stable, so the palette could depend on the order in which the set is iterated -- but only through colours with
   equal sort keys.  Two sorted lists with the same items, distinct items having distinct keys, are the same list. *)
Definition kle (a b : list Z) : Prop := key_ltb b a = false.

Lemma key_ltb_asym a b : key_ltb a b = true -> key_ltb b a = false.
Proof. unfold key_ltb. cbv zeta. lia. Qed.
Lemma ltb_kle_trans x y z : key_ltb x y = true -> kle y z -> kle x z.
Proof. unfold kle, key_ltb. cbv zeta. lia. Qed.
Lemma kle_antisym a b : kle a b -> kle b a -> key3 a = key3 b.
Proof.
  unfold kle, key_ltb, key3. cbv zeta. intros H1 H2.
  assert (nth 0 a 0 = nth 0 b 0) by lia. assert (nth 1 a 0 = nth 1 b 0) by lia. assert (nth 2 a 0 = nth 2 b 0) by lia. congruence.
Qed.

Lemma insert_stable_perm x : forall l, Permutation (insert_stable x l) (x :: l).
Proof.
  induction l as [|y l IH]; cbn [insert_stable]; [reflexivity|]. destruct (key_ltb x y); [reflexivity|].
  rewrite IH. apply perm_swap.
Qed.
Lemma sort_rgb_perm l : Permutation (sort_rgb l) l.
Proof.
  unfold sort_rgb. assert (H : forall acc, Permutation (fold_left (fun a x => insert_stable x a) l acc) (l ++ acc)).
  { induction l as [|x l IH]; intros acc; cbn [fold_left app]; [reflexivity|]. rewrite IH, insert_stable_perm.
    symmetry. apply Permutation_middle. }
  rewrite H. now rewrite app_nil_r.
Qed.

Lemma insert_stable_sorted x : forall l, StronglySorted kle l -> StronglySorted kle (insert_stable x l).
Proof.
  induction l as [|y l IH]; intros Hs; cbn [insert_stable]; [repeat constructor|].
  apply StronglySorted_inv in Hs. destruct Hs as [Hs Hy]. destruct (key_ltb x y) eqn:E.
  - constructor; [constructor; assumption|]. constructor; [now apply key_ltb_asym|].
    rewrite Forall_forall in *. intros z Hz. apply (ltb_kle_trans x y z E). now apply Hy.
  - constructor; [now apply IH|]. rewrite Forall_forall in *. intros z Hz. apply insert_stable_In in Hz.
    destruct Hz as [->|Hz]; [exact E|now apply Hy].
Qed.
Lemma sort_rgb_sorted l : StronglySorted kle (sort_rgb l).
Proof.
  unfold sort_rgb. assert (H : forall acc, StronglySorted kle acc -> StronglySorted kle (fold_left (fun a x => insert_stable x a) l acc)).
  { induction l as [|x l IH]; intros acc Hacc; cbn [fold_left]; [assumption|]. apply IH. now apply insert_stable_sorted. }
  apply H. constructor.
Qed.

Lemma filter_sorted (P : list Z -> bool) l : StronglySorted kle l -> StronglySorted kle (filter P l).
Proof.
  induction l as [|x l IH]; intros Hs; cbn [filter]; [constructor|]. apply StronglySorted_inv in Hs. destruct Hs as [Hs Hx].
  destruct (P x); [|now apply IH]. constructor; [now apply IH|]. rewrite Forall_forall in *. intros z Hz. apply filter_In in Hz. now apply Hx.
Qed.
Lemma perm_filter {A} (P : A -> bool) l1 l2 : Permutation l1 l2 -> Permutation (filter P l1) (filter P l2).
Proof.
  induction 1 as [|x l1 l2 H IH|x y l|l1 l2 l3 H1 IH1 H2 IH2]; cbn [filter].
  - constructor.
  - destruct (P x); [now constructor|assumption].
  - destruct (P x), (P y); try reflexivity. apply perm_swap.
  - now transitivity (filter P l2).
Qed.

Lemma sorted_unique : forall l1 l2, StronglySorted kle l1 -> StronglySorted kle l2 -> Permutation l1 l2 ->
  (forall a b, In a l1 -> In b l1 -> key3 a = key3 b -> a = b) -> l1 = l2.
Proof.
  induction l1 as [|a l1 IH]; intros l2 H1 H2 Hp Hk.
  - apply Permutation_nil in Hp. now subst.
  - destruct l2 as [|b l2]; [apply Permutation_sym, Permutation_nil in Hp; discriminate|].
    apply StronglySorted_inv in H1. destruct H1 as [H1 Ha]. apply StronglySorted_inv in H2. destruct H2 as [H2 Hb].
    assert (Hab : a = b).
    { assert (Hina : In a (b :: l2)) by (apply (Permutation_in a Hp); now left).
      assert (Hinb : In b (a :: l1)) by (apply (Permutation_in b (Permutation_sym Hp)); now left).
      destruct Hina as [->|Hina]; [reflexivity|]. destruct Hinb as [->|Hinb]; [reflexivity|].
      rewrite Forall_forall in Ha, Hb. apply Hk; [now left|now right|]. apply kle_antisym; [now apply Ha|now apply Hb]. }
    subst b. f_equal. apply IH; try assumption.
    + now apply Permutation_cons_inv in Hp.
    + intros x y Hx Hy. apply Hk; now right.
Qed.

(* the guard: no two distinct RGBA colours with the same (R, G, B), i.e. that differ in alpha only.  (Two RGB colours with the same
   key are the same colour; an RGB and an RGBA colour are separated by the second sort, by length.) *)
Definition rgba_keys_distinct (cols : list (list Z)) : Prop :=
  forall a b, In a cols -> In b cols -> length a = 4%nat -> length b = 4%nat -> key3 a = key3 b -> a = b.

(* without the guard the order matters: the stable sort keeps two such colours in the order in which the set yields them *)
Example set_order_matters : sort_rgb [[0; 0; 0; 8]; [0; 0; 0; 2]] <> sort_rgb [[0; 0; 0; 2]; [0; 0; 0; 8]].
Proof. vm_compute. discriminate. Qed.

Lemma key3_len3 c : length c = 3%nat -> key3 c = c.
Proof. destruct c as [|x [|y [|z0 [|w t]]]]; cbn [length]; intros H; try discriminate. reflexivity. Qed.

Lemma mem_perm c l1 l2 : Permutation l1 l2 -> clr_mem c l1 = clr_mem c l2.
Proof.
  intros Hp. apply eq_true_iff_eq. rewrite !clr_mem_In. split; apply Permutation_in; [assumption|now apply Permutation_sym].
Qed.
Lemma forallb_perm {A} (f : A -> bool) l1 l2 : Permutation l1 l2 -> forallb f l1 = forallb f l2.
Proof.
  intros Hp. apply eq_true_iff_eq. rewrite !forallb_forall. split; intros H x Hx; apply H.
  - now apply (Permutation_in x (Permutation_sym Hp)).
  - now apply (Permutation_in x Hp).
Qed.


(* ================================================================== 5. the palette / bit depth / transparency plan *)
(* palette.sort(key=len, reverse=True): on colours of 3 or 4 items the stable sort is "RGBA colours first" *)
Definition klen (c : list Z) : Z * list Z := (lenZ c, c).
Definition F4 (l : list (list Z)) : Prop := Forall (fun c => length c = 4%nat) l.
Definition F3 (l : list (list Z)) : Prop := Forall (fun c => length c = 3%nat) l.

Lemma ins_rgba x : length x = 4%nat -> forall A B, F4 A -> F3 B ->
  py_insert_keyed (py_reversed_ltb Z.ltb) (klen x) (map klen (A ++ B)) = map klen (A ++ x :: B).
Proof.
  intros Hx. induction A as [|a A IH]; intros B HA HB.
  - cbn [app]. destruct B as [|b B]; [reflexivity|]. cbn [map py_insert_keyed klen fst]. unfold py_reversed_ltb.
    inversion HB as [|? ? Hb HB']; subst.
    replace (lenZ b <? lenZ x) with true by (unfold lenZ; rewrite Hx, Hb; reflexivity). reflexivity.
  - inversion HA as [|? ? Ha HA']; subst. cbn [app map py_insert_keyed klen fst]. unfold py_reversed_ltb at 1.
    replace (lenZ a <? lenZ x) with false by (unfold lenZ; rewrite Hx, Ha; reflexivity). f_equal. now apply IH.
Qed.

Lemma ins_rgb x : length x = 3%nat -> forall L, Forall len34 L ->
  py_insert_keyed (py_reversed_ltb Z.ltb) (klen x) (map klen L) = map klen (L ++ [x]).
Proof.
  intros Hx. induction L as [|a L IH]; intros HL; [reflexivity|].
  inversion HL as [|? ? Ha HL']; subst. cbn [app map py_insert_keyed klen fst]. unfold py_reversed_ltb at 1.
  replace (lenZ a <? lenZ x) with false by (unfold lenZ; destruct Ha as [Ha|Ha]; rewrite Hx, Ha; reflexivity).
  f_equal. now apply IH.
Qed.

Lemma F34_len34 A B : F4 A -> F3 B -> Forall len34 (A ++ B).
Proof.
  intros HA HB. apply Forall_app. split; (eapply Forall_impl; [|eassumption]); intros c Hc; [right|left]; exact Hc.
Qed.

Lemma sort_len_fold : forall l A B, Forall len34 l -> F4 A -> F3 B ->
  fold_left (fun a x => py_insert_keyed (py_reversed_ltb Z.ltb) x a) (combine (map (@lenZ Z) l) l) (map klen (A ++ B))
  = map klen ((A ++ filter is_rgba l) ++ (B ++ filter (fun c => negb (is_rgba c)) l)).
Proof.
  induction l as [|x l IH]; intros A B Hl HA HB; cbn [map combine fold_left filter].
  - now rewrite !app_nil_r.
  - inversion Hl as [|? ? Hx Hl']; subst. change (lenZ x, x) with (klen x). destruct Hx as [Hx|Hx].
    + replace (is_rgba x) with false by (unfold is_rgba, lenZ; rewrite Hx; reflexivity). cbn [negb].
      rewrite (ins_rgb x Hx (A ++ B) (F34_len34 A B HA HB)). rewrite <- app_assoc.
      rewrite (IH A (B ++ [x]) Hl' HA).
      * now rewrite <- !app_assoc.
      * apply Forall_app. split; [assumption|]. constructor; [assumption|constructor].
    + replace (is_rgba x) with true by (unfold is_rgba, lenZ; rewrite Hx; reflexivity). cbn [negb].
      rewrite (ins_rgba x Hx A B HA HB).
      change (A ++ x :: B) with (A ++ [x] ++ B). rewrite app_assoc.
      rewrite (IH (A ++ [x]) B Hl').
      * now rewrite <- !app_assoc.
      * apply Forall_app. split; [assumption|]. constructor; [assumption|constructor].
      * assumption.
Qed.

Lemma sorted_len_desc l : Forall len34 l ->
  py_sorted_by_key (py_reversed_ltb Z.ltb) py_len_key l = Ok (sort_len_desc l).
Proof.
  intros Hl. unfold py_sorted_by_key. rewrite (py_seq_res_map_ok py_len_key (@lenZ Z)) by reflexivity. cbn [bind].
  unfold py_sort_keyed. pose proof (sort_len_fold l [] [] Hl (Forall_nil _) (Forall_nil _)) as Hs. cbn [app map] in Hs.
  rewrite Hs. rewrite map_map. cbn [klen snd]. rewrite map_id. reflexivity.
Qed.

Lemma next_first_find {A} (f : A -> bool) l :
  py_next_first (map (fun c => c) (filter f l)) = match find f l with Some x => Ok x | None => Err AssertErr end.
Proof.
  induction l as [|x l IH]; cbn [filter find map]; [reflexivity|]. destruct (f x); [reflexivity|exact IH].
Qed.

Lemma dict_set_skip {V} (pre : list (Z * V)) k c v suf : ~ In k (map fst pre) ->
  py_dict_set (pre ++ (k, c) :: suf) k v = pre ++ (k, v) :: suf.
Proof.
  induction pre as [|[k' c'] pre IH]; intros Hni; cbn [app py_dict_set].
  - now rewrite Z.eqb_refl.
  - cbn [map fst In] in Hni. destruct (k =? k') eqn:E; [exfalso; apply Hni; left; lia|]. f_equal. apply IH. tauto.
Qed.

Lemma dict_update_replace (P : list Z -> bool) (tc : list Z) : forall (suf pre : list (Z * list Z)),
  NoDup (map fst (pre ++ suf)) ->
  py_dict_update (map (fun '(k, c) => (k, if P c then tc else c)) pre ++ suf)
                 (map (fun '(k, c) => (k, tc)) (filter (fun '(k, c) => P c) suf))
  = map (fun '(k, c) => (k, if P c then tc else c)) (pre ++ suf).
Proof.
  unfold py_dict_update. induction suf as [|[k c] suf IH]; intros pre Hnd; cbn [filter map fold_left].
  - now rewrite !app_nil_r.
  - assert (Hni : ~ In k (map fst pre)).
    { rewrite map_app in Hnd. cbn [map fst] in Hnd. apply NoDup_remove_2 in Hnd. intros Hin. apply Hnd. apply in_or_app. now left. }
    assert (Hnd' : NoDup (map fst ((pre ++ [(k, c)]) ++ suf))) by (now rewrite <- app_assoc).
    specialize (IH (pre ++ [(k, c)]) Hnd'). rewrite map_app in IH. cbn [map] in IH. rewrite <- !app_assoc in IH. cbn [app] in IH.
    destruct (P c) eqn:EP; cbn [map fold_left fst snd].
    + rewrite dict_set_skip.
      * exact IH.
      * rewrite map_map. intros Hin. apply Hni. apply in_map_iff in Hin. destruct Hin as ([k1 c1] & Hk & Hin). cbn [fst] in Hk.
        apply in_map_iff. exists (k1, c1). split; [destruct (P c1); exact Hk|assumption].
    + exact IH.
Qed.

Lemma py_all_map {A} (f : A -> bool) l : py_all (map f l) = forallb f l.
Proof. unfold py_all. induction l as [|x l IH]; cbn [map forallb]; [reflexivity|]. now rewrite IH. Qed.

Lemma s_is_grey_is_model pal :
  s_is_grey pal = (lenZ pal =? 2) && forallb (fun c => clr_mem c [png_transparent; png_black; png_white]) pal.
Proof.
  unfold s_is_grey. rewrite py_all_map. reflexivity.
Qed.

Lemma name_rgbs_src : py_name2rgb_values SrcTables.NAME2RGB = name_rgbs.
Proof. rewrite TieTables.tie_NAME2RGB. reflexivity. Qed.

(* the plan does not depend on the order in which the set was iterated *)
Section SetOrder.
  Variable seto : list (list Z) -> list (list Z).
  Variable clr_map : list (Z * list Z).
  Hypothesis Hperm : Permutation (seto (map snd clr_map)) (py_set_items (map snd clr_map)).
  Hypothesis Hlen : Forall len34 (map snd clr_map).
  Hypothesis Hkeys : rgba_keys_distinct (map snd clr_map).

  Let A := palette_src seto clr_map.
  Let B := palette0 clr_map.

  Lemma seto_In c : In c (seto (map snd clr_map)) -> In c (map snd clr_map).
  Proof. intros H. apply (Permutation_in c Hperm) in H. rewrite set_items_dedup in H. exact (proj1 (dedup_In c _) H). Qed.

  Lemma seto_len34 : Forall len34 (seto (map snd clr_map)).
  Proof. apply Forall_forall. intros c Hc. rewrite Forall_forall in Hlen. now apply Hlen, seto_In. Qed.

  Lemma palette_perm : Permutation A B.
  Proof.
    unfold A, B, palette_src, palette0. rewrite !sort_rgb_perm. rewrite <- set_items_dedup. exact Hperm.
  Qed.

  Lemma A_In c : In c A -> In c (map snd clr_map).
  Proof. unfold A, palette_src. intros H. apply (Permutation_in c (sort_rgb_perm _)) in H. now apply seto_In. Qed.

  Lemma A_len34 : Forall len34 A.
  Proof. apply Forall_forall. intros c Hc. rewrite Forall_forall in Hlen. now apply Hlen, A_In. Qed.

  Lemma filter_class_eq (P : list Z -> bool) (n : nat) : (n = 3%nat \/ n = 4%nat) ->
    (forall c, In c A -> P c = true -> length c = n) -> filter P A = filter P B.
  Proof.
    intros Hn HP. apply sorted_unique.
    - apply filter_sorted, sort_rgb_sorted.
    - apply filter_sorted, sort_rgb_sorted.
    - apply perm_filter, palette_perm.
    - intros a b Ha Hb Hk. apply filter_In in Ha. apply filter_In in Hb. destruct Ha as [Ha Pa], Hb as [Hb Pb].
      pose proof (HP a Ha Pa) as La. pose proof (HP b Hb Pb) as Lb. destruct Hn as [-> | ->].
      + rewrite (key3_len3 a La), (key3_len3 b Lb) in Hk. exact Hk.
      + apply Hkeys; try assumption; now apply A_In.
  Qed.

  Lemma sort_len_desc_perm : sort_len_desc A = sort_len_desc B.
  Proof.
    unfold sort_len_desc. f_equal.
    - apply (filter_class_eq is_rgba 4); [now right|]. intros c Hc Hr. pose proof A_len34 as H. rewrite Forall_forall in H.
      destruct (H c Hc) as [L|L]; [|exact L]. unfold is_rgba, lenZ in Hr. rewrite L in Hr. discriminate.
    - apply (filter_class_eq (fun c => negb (is_rgba c)) 3); [now left|]. intros c Hc Hr. pose proof A_len34 as H. rewrite Forall_forall in H.
      destruct (H c Hc) as [L|L]; [exact L|]. unfold is_rgba, lenZ in Hr. rewrite L in Hr. discriminate.
  Qed.

  Lemma grey_perm : s_is_grey B = true -> A = B.
  Proof.
    intros Hg. rewrite s_is_grey_is_model in Hg. apply andb_true_iff in Hg. destruct Hg as [_ Hall].
    rewrite <- (forallb_perm _ A B palette_perm) in Hall. rewrite forallb_forall in Hall.
    apply sorted_unique; [apply sort_rgb_sorted|apply sort_rgb_sorted|apply palette_perm|].
    intros a b Ha Hb Hk. apply Hall in Ha. apply Hall in Hb. apply clr_mem_In in Ha. apply clr_mem_In in Hb.
    cbn [In] in Ha, Hb.
    destruct Ha as [<-|[<-|[<-|[]]]], Hb as [<-|[<-|[<-|[]]]]; try reflexivity; discriminate Hk.
  Qed.

  Lemma flags_perm : clr_mem png_transparent A = clr_mem png_transparent B /\ lenZ A = lenZ B /\ s_is_grey A = s_is_grey B.
  Proof.
    pose proof palette_perm as Hp. split; [now apply mem_perm|]. assert (Hl : lenZ A = lenZ B) by (unfold lenZ; now rewrite (Permutation_length Hp)).
    split; [exact Hl|]. rewrite !s_is_grey_is_model, Hl. f_equal. now apply forallb_perm.
  Qed.

  Lemma s_plan_perm : s_plan clr_map A = s_plan clr_map B.
  Proof.
    destruct flags_perm as (Hm & Hl & Hg). destruct (s_is_grey B) eqn:Eg; [now rewrite (grey_perm Eg)|].
    unfold s_plan. cbv zeta. change py_mem_list with clr_mem. change s_transparent with png_transparent. rewrite Hm, Hl, Hg, Eg. cbn [negb].
    rewrite (sorted_len_desc A A_len34), (sorted_len_desc B (palette0_len34 clr_map Hlen)), sort_len_desc_perm. reflexivity.
  Qed.
End SetOrder.

Definition plan_tuple (p : png_plan) : list (Z * list Z) * list (list Z) * Z * option Z :=
  (pl_clr_map p, pl_palette p, pl_depth p, pl_trans_idx p).

Lemma s_plan_is_model clr_map : NoDup (map fst clr_map) -> Forall len34 (map snd clr_map) ->
  s_plan clr_map (palette0 clr_map) = do p <- png_make_plan clr_map; Ok (plan_tuple p).
Proof.
  intros Hnd Hlen. unfold s_plan, png_make_plan. fold (palette0 clr_map).
  pose proof (palette0_len34 clr_map Hlen) as Hpal. set (pal := palette0 clr_map) in *.
  rewrite s_is_grey_is_model. cbv zeta. change py_mem_list with clr_mem. change s_transparent with png_transparent. change s_black with png_black.
  destruct ((lenZ pal =? 2) && forallb (fun c => clr_mem c [png_transparent; png_black; png_white]) pal) eqn:Eg; cbn [negb].
  - (* greyscale *)
    destruct (clr_mem png_transparent pal) eqn:Et; cbn [bind]; [|reflexivity].
    rewrite index_of_list_clr.
    destruct (index_of png_transparent (if clr_mem png_black pal then [png_black; png_transparent] else pal)) as [ti|e];
      cbn [bind]; reflexivity.
  - (* indexed colour *)
    rewrite (sorted_len_desc pal Hpal). cbn [bind].
    rewrite (Z.gtb_ltb (lenZ pal) 2).
    destruct (clr_mem png_transparent pal) eqn:Et; cbn [bind]; [|reflexivity].
    destruct (sort_len_desc pal) as [|q0 rest] eqn:Es.
    + (* an empty palette does not contain the placeholder *)
      exfalso. pose proof (sort_len_desc_length pal) as Hl. rewrite Es in Hl. destruct pal as [|c0 pal']; [discriminate Et|discriminate Hl].
    + assert (Ht11 : (if lenZ (q0 :: rest) >? 1 then do t10 <- py_index (q0 :: rest) 1; Ok (lenZ t10 =? 3) else Ok false)
                     = Ok (match rest with p1 :: _ => lenZ p1 =? 3 | [] => false end)).
      { destruct rest as [|p1 rest']; [reflexivity|].
        replace (lenZ (q0 :: p1 :: rest') >? 1) with true by (unfold lenZ; cbn [length]; lia). reflexivity. }
      rewrite Ht11. cbn [bind]. rewrite name_rgbs_src, next_first_find.
      set (cands := if match rest with p1 :: _ => lenZ p1 =? 3 | [] => false end then name_rgbs else map (fun c => c ++ [0]) name_rgbs).
      destruct (find (fun c => negb (clr_mem c (q0 :: rest))) cands) as [tc|]; cbn [bind]; [|reflexivity].
      replace (py_list_set_item (q0 :: rest) 0 tc) with (@Ok (list (list Z)) (tc :: rest)).
      2:{ unfold py_list_set_item, py_norm_index. cbn [Z.ltb Z.compare Z.leb].
          replace (0 <? lenZ (q0 :: rest)) with true by (unfold lenZ; cbn [length]; lia). reflexivity. }
      cbn [bind]. unfold plan_tuple. cbn [pl_clr_map pl_palette pl_depth pl_trans_idx].
      pose proof (dict_update_replace (fun c => py_list_eqb c png_transparent) tc clr_map [] Hnd) as Hu. cbn [app map] in Hu.
      rewrite Hu. reflexivity.
Qed.

(* what the later stages need to know about a plan *)
Lemma plan_facts clr_map p : png_make_plan clr_map = Ok p ->
  let pal := palette0 clr_map in
  pl_grey p = s_is_grey pal
  /\ pl_transparent p = clr_mem png_transparent pal
  /\ pl_ncolors p = lenZ pal
  /\ length (pl_palette p) = length pal
  /\ pl_depth p = (if pl_grey p then 1 else bd_of (lenZ pal))
  /\ (pl_transparent p = false -> pl_trans_idx p = None)
  /\ (pl_transparent p = true -> exists ti, pl_trans_idx p = Some ti /\ 0 <= ti < lenZ (pl_palette p))
  /\ map fst (pl_clr_map p) = map fst clr_map.
Proof.
  intros H pal. unfold png_make_plan in H. fold (palette0 clr_map) in H. fold pal in H. rewrite s_is_grey_is_model.
  destruct ((lenZ pal =? 2) && forallb (fun c => clr_mem c [png_transparent; png_black; png_white]) pal) eqn:Eg.
  - destruct (clr_mem png_transparent pal) eqn:Et.
    + destruct (index_of png_transparent (if clr_mem png_black pal then [png_black; png_transparent] else pal)) as [ti|e] eqn:Ei;
        cbn [bind] in H; [|discriminate]. injection H as <-. cbn [pl_grey pl_transparent pl_ncolors pl_palette pl_depth pl_trans_idx pl_clr_map].
      repeat split; try reflexivity; try discriminate.
      * destruct (clr_mem png_black pal); [|reflexivity]. apply andb_true_iff in Eg. destruct Eg as [Eg _]. unfold lenZ in Eg. cbn [length]. lia.
      * intros _. exists ti. split; [reflexivity|]. now destruct (index_of_spec _ _ _ Ei).
    + injection H as <-. cbn [pl_grey pl_transparent pl_ncolors pl_palette pl_depth pl_trans_idx pl_clr_map].
      repeat split; try reflexivity; try discriminate.
  - fold (bd_of (lenZ pal)) in H. destruct (clr_mem png_transparent pal) eqn:Et.
    + destruct (sort_len_desc pal) as [|q0 rest] eqn:Es; [discriminate|].
      destruct (find _ _) as [tc|]; [|discriminate]. injection H as <-.
      cbn [pl_grey pl_transparent pl_ncolors pl_palette pl_depth pl_trans_idx pl_clr_map].
      pose proof (sort_len_desc_length pal) as Hl. rewrite Es in Hl. cbn [length] in Hl.
      repeat split; try reflexivity; try discriminate.
      * cbn [length]. exact Hl.
      * intros _. exists 0. split; [reflexivity|]. unfold lenZ. cbn [length]. lia.
      * rewrite map_map. apply map_ext. now intros [mt c].
    + injection H as <-. cbn [pl_grey pl_transparent pl_ncolors pl_palette pl_depth pl_trans_idx pl_clr_map].
      repeat split; try reflexivity; try discriminate. apply sort_len_desc_length.
Qed.

Lemma palette0_length clr_map : (length (palette0 clr_map) <= length clr_map)%nat.
Proof.
  unfold palette0. rewrite sort_rgb_length. etransitivity; [apply dedup_length|]. now rewrite map_length.
Qed.

Lemma plan_depth clr_map p : png_make_plan clr_map = Ok p -> (length clr_map <= 16)%nat ->
  depth_ok (pl_depth p) /\ lenZ (pl_palette p) <= 2 ^ pl_depth p.
Proof.
  intros Hp H16. destruct (plan_facts clr_map p Hp) as (Hg & _ & _ & Hlen & Hd & _).
  pose proof (palette0_length clr_map) as Hpl. unfold lenZ in *. rewrite Hlen, Hd.
  destruct (pl_grey p).
  - split; [left; reflexivity|]. symmetry in Hg. unfold s_is_grey in Hg. apply andb_true_iff in Hg. destruct Hg as [Hg _]. unfold lenZ in Hg. lia.
  - apply bd_of_ok. lia.
Qed.

(* ================================================================== 6. which iterator, which colour index *)
Lemma any_res_differs full : forall l,
  py_any_res (map (fun '(mt, clr) => do t14 <- getZ (if negb (Z.shiftr mt 8 =? 0) then 1536 else 18) full;
                                     Ok (negb (py_list_eqb clr t14))) l) = any_differs full l.
Proof.
  induction l as [|[mt c] l IH]; cbn [map py_any_res any_differs]; [reflexivity|].
  unfold is_dark_type. change TYPE_FINDER_PATTERN_DARK with 1536. change TYPE_QUIET_ZONE with 18.
  destruct (getZ (if negb (Z.shiftr mt 8 =? 0) then 1536 else 18) full) as [ref|e]; cbn [bind]; [|reflexivity].
  rewrite eqb_clr. destruct (negb (clr_eqb c ref)); [reflexivity|exact IH].
Qed.

Lemma s_verbose_is_model p : s_verbose (pl_ncolors p) (pl_clr_map p) = png_use_verbose p.
Proof.
  unfold s_verbose, png_use_verbose. rewrite Z.gtb_ltb. destruct (2 <? pl_ncolors p); [reflexivity|].
  rewrite any_res_differs. now destruct (any_differs (pl_clr_map p) (pl_clr_map p)).
Qed.

Definition ci_equiv (a b : list (Z * Z)) : Prop := forall k, assocZ k a = assocZ k b.

Definition s_miter (verbose : bool) (matrix : list (list Z)) (ms : list Z) : res (list (list Z)) :=
  if verbose then src_matrix_iter_verbose matrix ms (inject_Z 1) (Some 0) else Ok matrix.

Lemma s_index_is_model p verbose matrix ms :
  match s_index verbose matrix ms (pl_clr_map p) (pl_palette p), png_color_index p verbose with
  | Ok (ci1, miter), Ok ci2 => ci_equiv ci1 ci2 /\ miter = s_miter verbose matrix ms
  | Err e1, Err e2 => e1 = e2
  | _, _ => False
  end.
Proof.
  unfold s_index, png_color_index, s_miter. destruct verbose.
  - assert (He : py_seq_res (map (fun '(module_type, clr) => do t17 <- py_index_of_list clr (pl_palette p); Ok (module_type, t17)) (pl_clr_map p))
                 = map_res (fun '(mt, c) => do i <- index_of c (pl_palette p); Ok (mt, i)) (pl_clr_map p)).
    { rewrite seq_res_map_res. induction (pl_clr_map p) as [|[mt c] l IH]; cbn [map_res]; [reflexivity|].
      rewrite index_of_list_clr, IH. reflexivity. }
    rewrite He. destruct (map_res _ (pl_clr_map p)) as [ci|e]; cbn [bind]; [|reflexivity]. split; [intros k; reflexivity|reflexivity].
  - change TYPE_QUIET_ZONE with 18. change TYPE_FINDER_PATTERN_DARK with 1536.
    destruct (getZ 18 (pl_clr_map p)) as [qc|e]; cbn [bind]; [|reflexivity]. rewrite index_of_list_clr.
    destruct (index_of qc (pl_palette p)) as [qi|e]; cbn [bind]; [|reflexivity].
    change (getZ 18 [(18, qi)]) with (@Ok Z qi). cbn [bind].
    destruct (getZ 1536 (pl_clr_map p)) as [dc|e]; cbn [bind]; [|reflexivity]. rewrite index_of_list_clr.
    destruct (index_of dc (pl_palette p)) as [di|e]; cbn [bind]; [|reflexivity].
    split; [|reflexivity]. intros k. change (py_dict_update [(18, qi)] [(0, qi); (1, di)]) with [(18, qi); (0, qi); (1, di)].
    cbn [assocZ].
    destruct (k =? 18) eqn:E18, (k =? 0) eqn:E0, (k =? 1) eqn:E1; try reflexivity; lia.
Qed.

Lemma getZ_equiv a b k : ci_equiv a b -> getZ k a = @getZ Z k b.
Proof. intros H. unfold getZ. now rewrite H. Qed.

(* ================================================================== 7. scanline *)
Lemma take_fill_firstn n : forall l, py_take_fill_with n 0 l = firstn n l ++ repeat 0 (n - length (firstn n l)).
Proof.
  induction n as [|n IH]; intros l; [reflexivity|]. destruct l as [|x r]; cbn [py_take_fill_with firstn length app Nat.sub repeat].
  - specialize (IH []). rewrite firstn_nil in IH. cbn [length app] in IH. rewrite Nat.sub_0_r in IH. now rewrite IH.
  - now rewrite IH.
Qed.

Lemma grouper_pack_samples bd k : forall fuel row,
  map (pack_group bd) (py_grouper_fuel fuel k 0 row) = pack_samples fuel k bd row.
Proof.
  induction fuel as [|f IH]; intros row; [reflexivity|]. destruct row as [|x r]; [reflexivity|].
  cbn [py_grouper_fuel pack_samples map]. rewrite take_fill_firstn, IH. reflexivity.
Qed.

Lemma reduce_pack_group bd e : 0 <= bd -> e <> [] ->
  py_reduce (fun x y => Z.shiftl x bd + y) e = Ok (pack_group bd e).
Proof.
  intros Hbd He. destruct e as [|a r]; [congruence|]. unfold py_reduce, pack_group. cbn [fold_left]. f_equal.
  rewrite Z.mul_0_l, Z.add_0_l. apply fold_left_ext_f. intros x y. now rewrite Z.shiftl_mul_pow2.
Qed.

Lemma bytes_forallb l : Forall (fun b => 0 <= b < 256) l -> forallb is_byte l = true.
Proof.
  intros H. apply forallb_forall. intros b Hb. rewrite Forall_forall in H. specialize (H b Hb). unfold is_byte. lia.
Qed.

Lemma s_scanline_ok bd ft row : depth_ok bd -> 0 <= ft < 256 -> Forall (sample_ok bd) row ->
  s_scanline bd row [ft] = Ok (scanline bd ft row).
Proof.
  intros Hbd Hft Hrow. destruct (depth_ok_k bd Hbd) as (Hpos & Hk & _). unfold s_scanline.
  assert (Hk' : 0 < 8 / bd) by lia.
  rewrite (py_seq_res_map_ok _ (pack_group bd)).
  - cbn [bind]. unfold py_grouper. replace (8 / bd <=? 0) with false by lia.
    rewrite grouper_pack_samples. unfold py_bytearray. cbn [app].
    replace (forallb is_byte (ft :: pack_samples (length row) (Z.to_nat (8 / bd)) bd row)) with true.
    + reflexivity.
    + symmetry. apply bytes_forallb. constructor; [assumption|]. now apply pack_samples_bytes.
  - intros e He. rewrite reduce_pack_group; [reflexivity|lia|].
    apply py_grouper_item_length in He. intros ->. cbn [length] in He. lia.
Qed.

Lemma sample_ok_0' bd : depth_ok bd -> sample_ok bd 0.
Proof. intros [-> | [-> | ->]]; unfold sample_ok; lia. Qed.

(* ================================================================== 8. borders, "Up" rows, the IDAT loop *)
Definition ci_ok (bd : Z) (ci : list (Z * Z)) : Prop := forall k v, getZ k ci = Ok v -> sample_ok bd v.

Lemma concat_repeat_singleton {A} (x : A) n : concat (repeat [x] n) = repeat x n.
Proof. induction n as [|n IH]; cbn [repeat concat app]; [reflexivity|]. now rewrite IH. Qed.

Lemma concat_repeat_concat {A} (l : list A) a b : concat (repeat (concat (repeat l a)) b) = concat (repeat l (a * b)).
Proof.
  induction b as [|b IH]; [now rewrite Nat.mul_0_r|]. cbn [repeat concat]. rewrite IH.
  replace (a * S b)%nat with (a + a * b)%nat by lia. now rewrite repeat_app, concat_app.
Qed.

Lemma py_repeat_repeat {A} (l : list A) a b : 0 <= a -> 0 <= b ->
  py_repeat (py_repeat l a) b = concat (repeat l (Z.to_nat (a * b))).
Proof. intros Ha Hb. unfold py_repeat. rewrite concat_repeat_concat. f_equal. f_equal. lia. Qed.

Definition m_hb (bd width scale b qz : Z) : list Z :=
  concat (repeat (scanline bd 0 (repeat qz (Z.to_nat width))) (Z.to_nat (b * scale))).
Definition m_vb (scale b qz : Z) : list Z := repeat qz (Z.to_nat (b * scale)).
Definition m_same (bd width scale : Z) : list Z :=
  concat (repeat (scanline bd 2 (repeat 0 (Z.to_nat width))) (Z.to_nat (scale - 1))).

Lemma s_borders_is_model bd ci width b scale : depth_ok bd -> ci_ok bd ci -> 0 <= b -> 0 <= scale ->
  s_borders bd ci width b scale
  = do qz <- (if 0 <? b then getZ TYPE_QUIET_ZONE ci else Ok 0); Ok (m_hb bd width scale b qz, m_vb scale b qz).
Proof.
  intros Hbd Hci Hb Hs. unfold s_borders. rewrite Z.gtb_ltb. change TYPE_QUIET_ZONE with 18.
  destruct (0 <? b) eqn:E.
  - destruct (getZ 18 ci) as [qz|e] eqn:Eq; cbn [bind]; [|reflexivity].
    unfold py_it_repeat. rewrite (s_scanline_ok bd 0 _ Hbd ltac:(lia)) by (apply Forall_repeat; now apply (Hci 18)).
    cbn [bind]. unfold m_hb, m_vb. rewrite !py_repeat_repeat by assumption. now rewrite concat_repeat_singleton.
  - cbn [bind]. unfold m_hb, m_vb. replace b with 0 by lia. reflexivity.
Qed.

Definition row_res (scale : Z) (ci : list (Z * Z)) (r : list Z) : res (list Z) :=
  do t <- map_res (fun b => getZ b ci) r; Ok (repeat_each scale t).

Lemma idx_row_src (ci : list (Z * Z)) r : py_seq_res (map (fun b => do t24 <- getZ b ci; Ok t24) r) = map_res (fun b => getZ b ci) r.
Proof.
  rewrite seq_res_map_res. induction r as [|b r IH]; cbn [map_res]; [reflexivity|].
  destruct (getZ b ci); cbn [bind]; [|reflexivity]. now rewrite IH.
Qed.

Lemma s_scale_is_model bd ci miter width scale : depth_ok bd -> 1 <= scale ->
  s_scale bd (s_rows ci miter) width scale
  = Ok ((do xs <- miter; Ok (map (row_res scale ci) xs)), m_same bd width scale).
Proof.
  intros Hbd Hs. unfold s_scale, s_rows. rewrite Z.gtb_ltb. destruct (1 <? scale) eqn:E.
  - unfold py_it_repeat at 1. rewrite (s_scanline_ok bd 2 _ Hbd ltac:(lia)) by (apply Forall_repeat; now apply sample_ok_0').
    cbn [bind]. f_equal. f_equal. destruct miter as [xs|e]; cbn [bind]; [|reflexivity]. f_equal. rewrite map_map.
    apply map_ext. intros r. rewrite idx_row_src. unfold row_res.
    destruct (map_res (fun b => getZ b ci) r) as [t|e]; cbn [bind]; [|reflexivity]. f_equal.
    unfold repeat_each, py_it_repeat. now rewrite flat_map_concat_map.
  - assert (scale = 1) by lia. subst scale. unfold m_same. cbn [Z.sub Z.to_nat repeat concat Z.add Z.opp Z.pos_sub]. f_equal. f_equal.
    destruct miter as [xs|e]; cbn [bind]; [|reflexivity]. f_equal. apply map_ext. intros r. rewrite idx_row_src. unfold row_res.
    destruct (map_res (fun b => getZ b ci) r) as [t|e]; cbn [bind]; [|reflexivity]. now rewrite repeat_each_1.
Qed.

Lemma map_res_getZ_ok bd ci : ci_ok bd ci -> forall r t, map_res (fun b => getZ b ci) r = Ok t -> Forall (sample_ok bd) t.
Proof.
  intros Hci. induction r as [|b r IH]; intros t H; cbn [map_res] in H.
  - injection H as <-. constructor.
  - destruct (getZ b ci) as [v|e] eqn:Ev; cbn [bind] in H; [|discriminate].
    destruct (map_res (fun b0 => getZ b0 ci) r) as [t'|e] eqn:Et; cbn [bind] in H; [|discriminate].
    injection H as <-. constructor; [now apply (Hci b)|now apply IH].
Qed.

Lemma idat_loop bd ci scale vb same : depth_ok bd -> ci_ok bd ci -> Forall (sample_ok bd) vb ->
  forall xs acc,
  py_for (A:=void) (map (row_res scale ci) xs) (s_loop_body bd vb same) acc
  = do rows <- map_res (fun row => map_res (fun b => getZ b ci) row) xs;
    Ok (inr (acc ++ flat_map (fun r => scanline bd 0 (vb ++ repeat_each scale r ++ vb) ++ same) rows)).
Proof.
  intros Hbd Hci Hvb. induction xs as [|r xs IH]; intros acc; cbn [map py_for map_res bind flat_map].
  - now rewrite app_nil_r.
  - unfold s_loop_body at 1, row_res at 1.
    destruct (map_res (fun b => getZ b ci) r) as [t|e] eqn:Et; cbn [bind]; [|reflexivity].
    rewrite (s_scanline_ok bd 0 _ Hbd ltac:(lia)).
    2:{ apply Forall_app. split; [assumption|]. apply Forall_app. split; [|assumption].
        apply Forall_repeat_each. now apply (map_res_getZ_ok bd ci Hci r). }
    cbn [bind]. rewrite IH. destruct (map_res _ xs) as [rows|e]; cbn [bind flat_map]; [|reflexivity].
    now rewrite <- !app_assoc.
Qed.

(* ================================================================== 9. struct.pack, chunk, the chunks written *)
Lemma struct_pack_ws fmt ws vals : py_struct_items fmt None = Some ws ->
  py_struct_pack (62 :: fmt) vals = if lenZ ws =? lenZ vals then py_struct_pack_items ws vals else Err TypeErr.
Proof. intros H. unfold py_struct_pack. now rewrite H. Qed.

Lemma be_bytes_4 n : py_be_bytes 4 n = be32 n.
Proof.
  unfold be32. cbn [py_be_bytes]. change (256 ^ Z.of_nat 3) with 16777216. change (256 ^ Z.of_nat 2) with 65536.
  change (256 ^ Z.of_nat 1) with 256. change (256 ^ Z.of_nat 0) with 1. now rewrite Z.div_1_r.
Qed.
Lemma be_bytes_1 n : 0 <= n < 256 -> py_be_bytes 1 n = [n].
Proof. intros H. cbn [py_be_bytes]. change (256 ^ Z.of_nat 0) with 1. rewrite Z.div_1_r, Z.mod_small by lia. reflexivity. Qed.
Lemma be_bytes_2 n : 0 <= n < 65536 -> py_be_bytes 2 n = [n / 256; n mod 256].
Proof.
  intros H. cbn [py_be_bytes]. change (256 ^ Z.of_nat 1) with 256. change (256 ^ Z.of_nat 0) with 1.
  rewrite Z.div_1_r. f_equal. apply Z.mod_small. lia.
Qed.

(* one item of w bytes *)
Lemma pack_item_4 n rest vals :
  py_struct_pack_items (4 :: rest) (n :: vals)
  = do a <- pack_u32 n; do t <- py_struct_pack_items rest vals; Ok (a ++ t).
Proof.
  cbn [py_struct_pack_items]. unfold pack_u32. change (256 ^ 4) with 4294967296. change (Z.to_nat 4) with 4%nat.
  destruct ((0 <=? n) && (n <? 4294967296)); cbn [bind]; [|reflexivity]. now rewrite be_bytes_4.
Qed.
Lemma pack_item_1 n rest vals :
  py_struct_pack_items (1 :: rest) (n :: vals)
  = do a <- pack_u8 n; do t <- py_struct_pack_items rest vals; Ok (a ++ t).
Proof.
  cbn [py_struct_pack_items]. unfold pack_u8. change (256 ^ 1) with 256. change (Z.to_nat 1) with 1%nat.
  replace (n <=? 255) with (n <? 256) by lia.
  destruct ((0 <=? n) && (n <? 256)) eqn:E; cbn [bind]; [|reflexivity]. rewrite be_bytes_1 by lia. reflexivity.
Qed.
Lemma pack_item_2 n rest vals :
  py_struct_pack_items (2 :: rest) (n :: vals)
  = do a <- pack_u16 n; do t <- py_struct_pack_items rest vals; Ok (a ++ t).
Proof.
  cbn [py_struct_pack_items]. unfold pack_u16. change (256 ^ 2) with 65536. change (Z.to_nat 2) with 2%nat.
  destruct ((0 <=? n) && (n <? 65536)) eqn:E; cbn [bind]; [|reflexivity]. rewrite be_bytes_2 by lia. reflexivity.
Qed.

Lemma pack_I n : py_struct_pack [62; 73] [n] = pack_u32 n.
Proof.
  rewrite (struct_pack_ws [73] [4]) by reflexivity. change (lenZ [4] =? lenZ [n]) with true. cbv iota.
  rewrite pack_item_4. destruct (pack_u32 n) as [a|e]; cbn [bind py_struct_pack_items]; [|reflexivity]. now rewrite app_nil_r.
Qed.
Lemma pack_B n : py_struct_pack [62; 66] [n] = pack_u8 n.
Proof.
  rewrite (struct_pack_ws [66] [1]) by reflexivity. change (lenZ [1] =? lenZ [n]) with true. cbv iota.
  rewrite pack_item_1. destruct (pack_u8 n) as [a|e]; cbn [bind py_struct_pack_items]; [|reflexivity]. now rewrite app_nil_r.
Qed.
Lemma pack_1H n : py_struct_pack [62; 49; 72] [n] = pack_u16 n.
Proof.
  rewrite (struct_pack_ws [49; 72] [2]) by reflexivity. change (lenZ [2] =? lenZ [n]) with true. cbv iota.
  rewrite pack_item_2. destruct (pack_u16 n) as [a|e]; cbn [bind py_struct_pack_items]; [|reflexivity]. now rewrite app_nil_r.
Qed.
Lemma pack_LLB d : py_struct_pack [62; 76; 76; 66] [d; d; 1] = do x <- pack_u32 d; Ok (x ++ x ++ [1]).
Proof.
  rewrite (struct_pack_ws [76; 76; 66] [4; 4; 1]) by reflexivity. change (lenZ [4; 4; 1] =? lenZ [d; d; 1]) with true. cbv iota.
  rewrite !pack_item_4, pack_item_1. destruct (pack_u32 d) as [a|e]; cbn [bind py_struct_pack_items]; reflexivity.
Qed.
Lemma pack_ihdr w bd ct : (bd = 1 \/ bd = 2 \/ bd = 4) -> (ct = 0 \/ ct = 3) ->
  py_struct_pack [62; 50; 73; 53; 66] [w; w; bd; ct; 0; 0; 0] = do x <- pack_u32 w; Ok (x ++ x ++ [bd; ct; 0; 0; 0]).
Proof.
  intros Hbd Hct. rewrite (struct_pack_ws [50; 73; 53; 66] [4; 4; 1; 1; 1; 1; 1]) by reflexivity.
  change (lenZ [4; 4; 1; 1; 1; 1; 1] =? lenZ [w; w; bd; ct; 0; 0; 0]) with true. cbv iota.
  rewrite !pack_item_4, !pack_item_1. destruct (pack_u32 w) as [a|e]; cbn [bind]; [|reflexivity].
  destruct Hbd as [-> | [-> | ->]], Hct as [-> | ->]; reflexivity.
Qed.
Lemma pack_3B c : (do t41 <- py_struct_pack [62; 51; 66] (py_slice c 0 3); Ok t41) = plte_entry c.
Proof.
  rewrite TieWrNetpbm.py_slice_0_3. unfold plte_entry. rewrite (struct_pack_ws [51; 66] [1; 1; 1]) by reflexivity.
  destruct (firstn 3 c) as [|r [|g [|b [|x t]]]] eqn:E; try reflexivity.
  - change (lenZ [1; 1; 1] =? lenZ [r; g; b]) with true. cbv iota. rewrite !pack_item_1.
    destruct (pack_u8 r) as [r'|e]; cbn [bind]; [|reflexivity]. destruct (pack_u8 g) as [g'|e]; cbn [bind]; [|reflexivity].
    destruct (pack_u8 b) as [b'|e]; cbn [bind py_struct_pack_items]; [|reflexivity]. now rewrite app_nil_r.
  - exfalso. pose proof (firstn_le_length 3 c) as Hl. rewrite E in Hl. cbn [length] in Hl. lia.
Qed.

Section Tail.
  Variable deflate : list Z -> list Z.
  Variable crc : list Z -> Z.
  Variable comp : list Z -> Z -> list Z.
  Variable compresslevel : Z.
  Hypothesis Hcrc : forall b, crc b = Png.crc32 b.
  Hypothesis Hcomp : forall d, comp d compresslevel = deflate d.

  Lemma s_chunk_is_model name data : s_chunk crc name data = chunk name data.
  Proof.
    unfold s_chunk, chunk. cbv zeta. rewrite !pack_I, Hcrc.
    destruct (pack_u32 (lenZ data)) as [a|e]; cbn [bind]; [|reflexivity].
    destruct (pack_u32 (crc32 (name ++ data))) as [b|e]; cbn [bind]; [|reflexivity]. now rewrite <- !app_assoc.
  Qed.

  (* the model's serialisation of a layout, as one function *)
  Definition m_tail (p : png_plan) (width : Z) (ppm : option Z) (raw : list Z) : res (list Z) :=
    do pre <- png_pre_chunks p width ppm;
    do pre_b <- map_res chunk_bytes pre;
    do idat <- chunk T_IDAT (deflate raw);
    do iend <- chunk T_IEND [];
    Ok (png_signature ++ concat pre_b ++ idat ++ iend).

  Lemma plte_src palette :
    py_seq_res (map (fun clr => do t41 <- py_struct_pack [62; 51; 66] (py_slice clr 0 3); Ok t41) palette) = map_res plte_entry palette.
  Proof.
    rewrite seq_res_map_res. induction palette as [|c l IH]; cbn [map_res]; [reflexivity|]. now rewrite pack_3B, IH.
  Qed.

  Lemma trns_src palette :
    py_seq_res (map (fun clr => do t45 <- py_index clr 3; do t46 <- py_struct_pack [62; 66] [t45]; Ok t46)
                    (filter (fun clr => lenZ clr >? 3) palette))
    = map_res (fun c => match nth_error c 3 with Some a => pack_u8 a | None => Err IndexErr end) (filter is_rgba palette).
  Proof.
    rewrite seq_res_map_res. replace (filter (fun clr => lenZ clr >? 3) palette) with (filter is_rgba palette).
    2:{ apply filter_ext. intros c. unfold is_rgba. now rewrite Z.gtb_ltb. }
    induction (filter is_rgba palette) as [|c l IH]; cbn [map_res]; [reflexivity|]. rewrite IH.
    unfold py_index, nthZ. cbn [Z.ltb Z.compare]. change (Z.to_nat 3) with 3%nat.
    destruct (nth_error c 3) as [a|]; cbn [bind]; [|reflexivity]. rewrite pack_B. now destruct (pack_u8 a).
  Qed.

  Lemma chunk_small name data : lenZ data < 4294967296 ->
    exists bytes, chunk name data = Ok bytes.
  Proof. intros H. eexists. now apply chunk_ok. Qed.

  Lemma map_res_app_inv {A B} (f : A -> res B) l1 l2 :
    map_res f (l1 ++ l2) = do a <- map_res f l1; do b <- map_res f l2; Ok (a ++ b).
  Proof.
    induction l1 as [|x l1 IH]; cbn [app map_res bind].
    - now destruct (map_res f l2).
    - destruct (f x) as [y|e]; cbn [bind]; [|reflexivity]. rewrite IH.
      destruct (map_res f l1) as [a|e]; cbn [bind]; [|reflexivity]. now destruct (map_res f l2).
  Qed.

  Ltac small_chunk name data c H :=
    let Hs := fresh "Hs" in
    assert (Hs : lenZ data < 4294967296); [|destruct (chunk_small name data Hs) as [c H]; clear Hs].

  Ltac fin_stream :=
    unfold py_write, py_stream_new, png_signature; cbn [concat app]; rewrite ?concat_app; cbn [concat app];
    rewrite <- ?app_assoc; cbn [app]; rewrite ?app_nil_r; reflexivity.

  Lemma s_tail_is_model p W ppm raw :
    depth_ok (pl_depth p) ->
    (pl_transparent p = false -> pl_trans_idx p = None) ->
    (pl_transparent p = true -> exists ti, pl_trans_idx p = Some ti) ->
    (pl_grey p = false -> pl_palette p <> []) ->
    lenZ (pl_palette p) <= 16 ->
    (forall v, ppm = Some v -> v <> 0) ->
    s_tail crc comp W W (pl_depth p) (if pl_grey p then 0 else 3) ppm (pl_grey p) (pl_transparent p) (pl_palette p)
           (pl_trans_idx p) raw compresslevel
    = m_tail p W ppm raw.
  Proof.
    intros Hbd Htf Htt Hne H16 Hppm. unfold s_tail, m_tail, png_pre_chunks, png_colour_chunks. cbv zeta. rewrite Hcomp.
    unfold T_IHDR, T_pHYs, T_PLTE, T_tRNS, T_IDAT, T_IEND.
    rewrite pack_ihdr by (try exact Hbd; destruct (pl_grey p); auto).
    destruct (pack_u32 W) as [w|e] eqn:EW; cbn [bind]; [|reflexivity].
    apply pack_u32_inv in EW. destruct EW as [-> HW]. rewrite ?s_chunk_is_model.
    set (d0 := be32 W ++ be32 W ++ [pl_depth p; if pl_grey p then 0 else 3; 0; 0; 0]).
    small_chunk [73; 72; 68; 82] d0 c0 Hc0.
    { unfold d0, lenZ. rewrite !app_length, !be32_length. cbn [length]. lia. }
    rewrite Hc0. cbn [bind].
    (* pHYs *)
    assert (Hphys : exists physl,
      (if match ppm with None => false | Some x_ => negb (x_ =? 0) end
       then do t37 <- py_struct_int ppm; do t38 <- py_struct_int ppm; do t39 <- py_struct_pack [62; 76; 76; 66] [t37; t38; 1];
            do t40 <- s_chunk crc [112; 72; 89; 115] t39; Ok (py_write (py_write (py_write py_stream_new [137; 80; 78; 71; 13; 10; 26; 10]) c0) t40)
       else Ok (py_write (py_write py_stream_new [137; 80; 78; 71; 13; 10; 26; 10]) c0))
      = (do phys <- match ppm with Some d => do x <- pack_u32 d; Ok [([112; 72; 89; 115], x ++ x ++ [1])] | None => Ok [] end;
         do pb <- map_res chunk_bytes phys; Ok (physl phys pb))
      /\ forall phys pb, physl phys pb = [137; 80; 78; 71; 13; 10; 26; 10] ++ c0 ++ concat pb).
    { exists (fun _ pb => [137; 80; 78; 71; 13; 10; 26; 10] ++ c0 ++ concat pb). split; [|reflexivity].
      destruct ppm as [v|]; cbn [bind map_res concat].
      - replace (negb (v =? 0)) with true by (specialize (Hppm v eq_refl); lia). cbn [py_struct_int bind]. rewrite pack_LLB.
        destruct (pack_u32 v) as [x|e] eqn:Ev; cbn [bind map_res]; [|reflexivity]. rewrite s_chunk_is_model.
        unfold chunk_bytes. cbn [fst snd]. unfold T_pHYs.
        destruct (chunk [112; 72; 89; 115] (x ++ x ++ [1])) as [c1|e]; cbn [bind concat]; [|reflexivity].
        fin_stream.
      - fin_stream. }
    destruct Hphys as (physl & Hphys & Hphysl). rewrite Hphys. clear Hphys.
    destruct (match ppm with Some d => do x <- pack_u32 d; Ok [([112; 72; 89; 115], x ++ x ++ [1])] | None => Ok [] end) as [phys|e] eqn:Ephys;
      cbn [bind]; [|reflexivity].
    assert (Hphys_ok : exists pb, map_res chunk_bytes phys = Ok pb).
    { destruct ppm as [v|]; [|injection Ephys as <-; now exists []].
      destruct (pack_u32 v) as [x|e] eqn:Ev; cbn [bind] in Ephys; [|discriminate]. injection Ephys as <-.
      apply pack_u32_inv in Ev. destruct Ev as [-> _]. cbn [map_res]. unfold chunk_bytes. cbn [fst snd].
      small_chunk [112; 72; 89; 115] (be32 v ++ be32 v ++ [1]) c1 Hc1.
      { unfold lenZ. rewrite !app_length, !be32_length. cbn [length]. lia. }
      rewrite Hc1. cbn [bind]. now eexists. }
    destruct Hphys_ok as [pb Hpb]. rewrite Hpb. cbn [bind]. rewrite Hphysl.
    (* the colour chunks *)
    destruct (pl_grey p) eqn:Eg; cbn [negb].
    - (* greyscale *)
      destruct (pl_transparent p) eqn:Et.
      + destruct (Htt eq_refl) as [ti Hti]. rewrite Hti. cbn [py_struct_int bind]. rewrite pack_1H.
        destruct (pack_u16 ti) as [t|e] eqn:Eti; cbn [bind]; [|reflexivity]. rewrite ?s_chunk_is_model.
        cbn [map_res]. unfold chunk_bytes at 1. cbn [fst snd]. rewrite Hc0. cbn [bind].
        rewrite map_res_app_inv, Hpb. cbn [bind map_res]. unfold chunk_bytes. cbn [fst snd]. unfold T_tRNS, T_IDAT, T_IEND.
        destruct (chunk [116; 82; 78; 83] t) as [c2|e]; cbn [bind]; [|reflexivity].
        destruct (chunk [73; 68; 65; 84] (deflate raw)) as [ci|e]; cbn [bind]; [|reflexivity].
        destruct (chunk [73; 69; 78; 68] []) as [ce|e]; cbn [bind]; [|reflexivity].
        fin_stream.
      + rewrite (Htf eq_refl). cbn [bind map_res]. rewrite ?s_chunk_is_model. unfold chunk_bytes at 1. cbn [fst snd]. rewrite Hc0. cbn [bind].
        rewrite app_nil_r, Hpb. cbn [bind]. unfold T_IDAT, T_IEND.
        destruct (chunk [73; 68; 65; 84] (deflate raw)) as [ci|e]; cbn [bind]; [|reflexivity].
        destruct (chunk [73; 69; 78; 68] []) as [ce|e]; cbn [bind]; [|reflexivity].
        fin_stream.
    - (* indexed colour *)
      rewrite plte_src. unfold plte_data.
      destruct (map_res plte_entry (pl_palette p)) as [pl|e] eqn:Epl; cbn [bind]; [|reflexivity].
      rewrite py_join_nil_concat, ?s_chunk_is_model.
      assert (Hpd : lenZ (concat pl) = 3 * lenZ (pl_palette p)).
      { destruct (plte_data_ok (pl_palette p) (concat pl)) as (_ & H & _); [unfold plte_data; now rewrite Epl|exact H]. }
      small_chunk [80; 76; 84; 69] (concat pl) c2 Hc2; [lia|]. rewrite Hc2. cbn [bind].
      destruct (pl_palette p) as [|q0 rest] eqn:Epal; [exfalso; now apply Hne|].
      change (py_index (q0 :: rest) 0) with (@Ok (list Z) q0). cbn [bind hd]. rewrite Z.gtb_ltb. fold (is_rgba q0).
      destruct (is_rgba q0) eqn:Eq.
      + rewrite trns_src. unfold trns_alpha_data.
        destruct (map_res _ (filter is_rgba (q0 :: rest))) as [al|e] eqn:Eal; cbn [bind]; [|reflexivity].
        rewrite py_join_nil_concat, ?s_chunk_is_model.
        assert (Ha : lenZ (concat al) <= 16).
        { pose proof (trns_alpha_ok (q0 :: rest) (concat al)) as Hx. unfold trns_alpha_data in Hx. rewrite Eal in Hx.
          rewrite (Hx eq_refl). unfold lenZ in *. rewrite map_length.
          pose proof (filter_length_le' is_rgba (q0 :: rest)). lia. }
        cbn [map_res]. unfold chunk_bytes at 1. cbn [fst snd]. rewrite Hc0. cbn [bind].
        rewrite map_res_app_inv, Hpb. cbn [bind map_res]. unfold chunk_bytes. cbn [fst snd]. unfold T_PLTE, T_tRNS, T_IDAT, T_IEND.
        rewrite Hc2. cbn [bind].
        destruct (chunk [116; 82; 78; 83] (concat al)) as [c3|e]; cbn [bind]; [|reflexivity].
        destruct (chunk [73; 68; 65; 84] (deflate raw)) as [ci|e]; cbn [bind]; [|reflexivity].
        destruct (chunk [73; 69; 78; 68] []) as [ce|e]; cbn [bind]; [|reflexivity].
        fin_stream.
      + destruct (pl_transparent p) eqn:Et.
        * destruct (Htt eq_refl) as [ti Hti]. rewrite Hti. cbn [py_struct_int bind]. rewrite pack_B.
          destruct (pack_u8 ti) as [t|e] eqn:Eti; cbn [bind]; [|reflexivity]. rewrite ?s_chunk_is_model.
          cbn [map_res]. unfold chunk_bytes at 1. cbn [fst snd]. rewrite Hc0. cbn [bind].
          rewrite map_res_app_inv, Hpb. cbn [bind map_res]. unfold chunk_bytes. cbn [fst snd]. unfold T_PLTE, T_tRNS, T_IDAT, T_IEND.
          rewrite Hc2. cbn [bind].
          destruct (chunk [116; 82; 78; 83] t) as [c3|e]; cbn [bind]; [|reflexivity].
          destruct (chunk [73; 68; 65; 84] (deflate raw)) as [ci|e]; cbn [bind]; [|reflexivity].
          destruct (chunk [73; 69; 78; 68] []) as [ce|e]; cbn [bind]; [|reflexivity].
          fin_stream.
        * rewrite (Htf eq_refl). cbn [bind map_res]. rewrite ?s_chunk_is_model. unfold chunk_bytes at 1. cbn [fst snd]. rewrite Hc0. cbn [bind].
          rewrite map_res_app_inv, Hpb. cbn [bind map_res]. unfold chunk_bytes. cbn [fst snd]. unfold T_PLTE, T_IDAT, T_IEND.
          rewrite Hc2. cbn [bind].
          destruct (chunk [73; 68; 65; 84] (deflate raw)) as [ci|e]; cbn [bind]; [|reflexivity].
          destruct (chunk [73; 69; 78; 68] []) as [ce|e]; cbn [bind]; [|reflexivity].
          fin_stream.
  Qed.
End Tail.

(* ================================================================== 10. the function *)
Lemma ci_values p verbose ci : png_color_index p verbose = Ok ci ->
  forall k v, getZ k ci = Ok v -> exists c, index_of c (pl_palette p) = Ok v.
Proof.
  unfold png_color_index. destruct verbose.
  - revert ci. induction (pl_clr_map p) as [|[mt c] l IH]; intros ci H k v Hv; cbn [map_res] in H.
    + injection H as <-. discriminate Hv.
    + destruct (index_of c (pl_palette p)) as [i|e] eqn:Ei; cbn [bind] in H; [|discriminate].
      destruct (map_res _ l) as [ci'|e] eqn:El; cbn [bind] in H; [|discriminate]. injection H as <-.
      unfold getZ in Hv. cbn [assocZ] in Hv. destruct (k =? mt).
      * injection Hv as <-. now exists c.
      * apply (IH ci' eq_refl k v). exact Hv.
  - intros H k v Hv.
    destruct (getZ TYPE_QUIET_ZONE (pl_clr_map p)) as [qc|e]; cbn [bind] in H; [|discriminate].
    destruct (index_of qc (pl_palette p)) as [qi|e] eqn:Eq; cbn [bind] in H; [|discriminate].
    destruct (getZ TYPE_FINDER_PATTERN_DARK (pl_clr_map p)) as [dc|e]; cbn [bind] in H; [|discriminate].
    destruct (index_of dc (pl_palette p)) as [di|e] eqn:Ed; cbn [bind] in H; [|discriminate]. injection H as <-.
    unfold getZ in Hv. cbn [assocZ] in Hv.
    destruct (k =? 0); [injection Hv as <-; now exists qc|]. destruct (k =? 1); [injection Hv as <-; now exists dc|].
    destruct (k =? TYPE_QUIET_ZONE); [injection Hv as <-; now exists qc|discriminate].
Qed.

Lemma palette_nonempty p verbose ci (pal0 : list (list Z)) : png_use_verbose p = Ok verbose -> png_color_index p verbose = Ok ci ->
  length (pl_palette p) = length pal0 -> pl_ncolors p = lenZ pal0 -> pl_palette p <> [].
Proof.
  intros Hv Hci Hlen Hn Hnil. unfold png_use_verbose in Hv. rewrite Hnil in Hlen. unfold lenZ in Hn. cbn [length] in Hlen. rewrite <- Hlen in Hn.
  rewrite Hn in Hv. cbn [Z.of_nat Z.ltb Z.compare] in Hv. unfold png_color_index in Hci. rewrite Hnil in Hci.
  destruct (pl_clr_map p) as [|[mt c] l].
  - cbn [any_differs] in Hv. injection Hv as <-. cbn [getZ assocZ bind] in Hci. discriminate.
  - destruct verbose.
    + cbn [map_res index_of bind] in Hci. discriminate.
    + destruct (getZ TYPE_QUIET_ZONE ((mt, c) :: l)); cbn [bind index_of] in Hci; discriminate.
Qed.

Lemma map_res_rows_equiv a b : ci_equiv a b -> forall xs,
  map_res (fun row => map_res (fun k => getZ k a) row) xs = map_res (fun row => map_res (fun k => getZ k b) row) xs.
Proof.
  intros H. assert (Hr : forall r, map_res (fun k => getZ k a) r = map_res (fun k => getZ k b) r).
  { induction r as [|k r IH]; cbn [map_res]; [reflexivity|]. now rewrite (getZ_equiv a b k H), IH. }
  induction xs as [|r xs IH]; cbn [map_res]; [reflexivity|]. now rewrite Hr, IH.
Qed.

Lemma png_dpi_nonzero dpi v : png_dpi dpi = Ok (Some v) -> v <> 0.
Proof.
  unfold png_dpi. destruct dpi as [d|]; [|discriminate]. destruct (d =? 0) eqn:E0; [discriminate|].
  destruct (d <? 0) eqn:En; [discriminate|]. intros H. injection H as <-. unfold dpi_to_ppm.
  assert (1 <= d) by lia. assert (39 <= d * 5000 / 127) by (apply Z.div_le_lower_bound; lia). lia.
Qed.

(* the guard about the set order (see 4b), on the colour map: once converted, no two distinct RGBA colours share their (R, G, B) *)
Definition colours_ok (cm : list (Z * ocolor)) : Prop :=
  forall clr_map, png_clr_map cm = Ok clr_map -> rgba_keys_distinct (map snd clr_map).

Lemma option_eq_dec_z0 (dpi : option Z) : {dpi = Some 0} + {dpi <> Some 0}.
Proof. destruct dpi as [d|]; [|right; discriminate]. destruct (Z.eq_dec d 0) as [->|H]; [now left|right; congruence]. Qed.

Section Main.
  Variable deflate : list Z -> list Z.
  Variable crc : list Z -> Z.
  Variable comp : list Z -> Z -> list Z.
  Variable compresslevel : Z.
  Variable seto : list (list Z) -> list (list Z).
  Hypothesis Hcrc : forall b, crc b = Png.crc32 b.
  Hypothesis Hcomp : forall d, comp d compresslevel = deflate d.
  Hypothesis Hseto : forall l, Permutation (seto l) (py_set_items l).

  Lemma s_after_dpi0 ext matrix ms colormap scale w h b :
    s_after ext crc comp seto matrix ms colormap scale compresslevel w h b (Some 0)
    = s_after ext crc comp seto matrix ms colormap scale compresslevel w h b None.
  Proof. reflexivity. Qed.

  (* the part of the model after the checks and the dpi conversion *)
  Definition m_after (matrix am : list (list Z)) (size scale b : Z) (ppm : option Z) (cm : list (Z * ocolor)) : res (list Z) :=
    let width := (size + 2 * b) * scale in
    do clr_map <- png_clr_map cm;
    do p <- png_make_plan clr_map;
    do verbose <- png_use_verbose p;
    do ci <- png_color_index p verbose;
    do qz <- (if 0 <? b then getZ TYPE_QUIET_ZONE ci else Ok 0);
    do rows <- png_index_rows verbose ci matrix am size;
    m_tail deflate p width ppm (png_idat (pl_depth p) width scale b qz rows).

  Lemma write_png_cm_unfold matrix am size scale border dpi cm :
    write_png_cm deflate matrix am size scale border dpi cm
    = do _ <- check_valid_scale (PInt scale);
      do _ <- check_valid_border (match border with Some b => Some (PInt b) | None => None end);
      do ppm <- png_dpi dpi;
      m_after matrix am size scale (get_border size size border) ppm cm.
  Proof.
    unfold write_png_cm, png_layout_of, m_after, m_tail. cbv zeta.
    destruct (check_valid_scale (PInt scale)) as [[]|e]; cbn [bind]; [|reflexivity].
    destruct (check_valid_border _) as [[]|e]; cbn [bind]; [|reflexivity].
    destruct (png_dpi dpi) as [ppm|e]; cbn [bind]; [|reflexivity].
    destruct (png_clr_map cm) as [clr_map|e]; cbn [bind]; [|reflexivity].
    destruct (png_make_plan clr_map) as [p|e]; cbn [bind]; [|reflexivity].
    destruct (png_use_verbose p) as [verbose|e]; cbn [bind]; [|reflexivity].
    destruct (png_color_index p verbose) as [ci|e]; cbn [bind]; [|reflexivity].
    destruct (if 0 <? get_border size size border then getZ TYPE_QUIET_ZONE ci else Ok 0) as [qz|e]; cbn [bind]; [|reflexivity].
    destruct (png_index_rows verbose ci matrix am size) as [rows|e]; cbn [bind]; [|reflexivity].
    destruct (png_pre_chunks p _ ppm) as [pre|e]; cbn [bind pn_pre pn_raw]; reflexivity.
  Qed.

  Lemma s_after_is_model ext matrix am0 am size scale b ppm cm :
    ext_ok ext ->
    src_make_matrix size size false false = Ok am0 -> src_add_alignment_patterns am0 size size = Ok am ->
    NoDup (map fst cm) -> (length cm <= 16)%nat -> colours_ok cm -> 1 <= scale -> 0 <= b -> (forall v, ppm = Some v -> v <> 0) ->
    s_after ext crc comp seto matrix [size; size] (to_py_colormap cm) scale compresslevel
            ((size + 2 * b) * scale) ((size + 2 * b) * scale) b ppm
    = m_after matrix am size scale b ppm cm.
  Proof.
    intros Hext Ham0 Ham Hnd H16 Hcol Hs Hb Hppm. unfold s_after, m_after. cbv zeta.
    rewrite (s_clr_map_is_model ext cm Hext Hnd).
    destruct (png_clr_map cm) as [clr_map|e] eqn:Ecm; cbn [bind]; [|reflexivity].
    destruct (clr_map_facts cm clr_map Ecm) as [Hkeys Hlen].
    pose proof (Hcol clr_map Ecm) as Hdist.
    rewrite (s_palette_is_model seto clr_map (seto_len34 seto clr_map (Hseto _) Hlen)). cbn [bind].
    destruct (flags_perm seto clr_map (Hseto _)) as (Hfm & Hfl & Hfg).
    change (py_mem_list s_transparent (palette_src seto clr_map)) with (clr_mem png_transparent (palette_src seto clr_map)).
    rewrite Hfm, Hfl, Hfg, (s_plan_perm seto clr_map (Hseto _) Hlen Hdist).
    rewrite (s_plan_is_model clr_map) by (try rewrite Hkeys; assumption).
    destruct (png_make_plan clr_map) as [p|e] eqn:Ep; cbn [bind plan_tuple]; [|reflexivity].
    destruct (plan_facts clr_map p Ep) as (Hg & Ht & Hn & Hplen & Hd & Htf & Htt & Hpk). cbv zeta in Hg, Ht, Hn, Hplen, Hd.
    assert (H16' : (length clr_map <= 16)%nat).
    { rewrite <- (map_length fst clr_map), Hkeys, map_length. exact H16. }
    destruct (plan_depth clr_map p Ep H16') as [Hbd Hpal2].
    rewrite <- Hg, <- Ht, <- Hn. rewrite s_verbose_is_model.
    destruct (png_use_verbose p) as [verbose|e] eqn:Ev; cbn [bind]; [|reflexivity].
    pose proof (s_index_is_model p verbose matrix [size; size]) as Hidx.
    destruct (s_index verbose matrix [size; size] (pl_clr_map p) (pl_palette p)) as [[ci1 miter]|e1];
      destruct (png_color_index p verbose) as [ci|e2] eqn:Eci; cbn [bind]; try (now destruct Hidx).
    destruct Hidx as [Heq ->].
    assert (Hci : ci_ok (pl_depth p) ci1).
    { intros k v Hv. rewrite (getZ_equiv ci1 ci k Heq) in Hv. destruct (ci_values p verbose ci Eci k v Hv) as [c Hc].
      destruct (index_of_spec c (pl_palette p) v Hc) as [Hr _]. unfold sample_ok. destruct Hr as [Hr1 Hr2]. split; [exact Hr1|eapply Z.lt_le_trans; eassumption]. }
    assert (Hs0 : 0 <= scale) by lia.
    rewrite (s_borders_is_model _ _ _ _ _ Hbd Hci Hb Hs0). rewrite (getZ_equiv ci1 ci TYPE_QUIET_ZONE Heq).
    destruct (if 0 <? b then getZ TYPE_QUIET_ZONE ci else Ok 0) as [qz|e] eqn:Eqz; cbn [bind]; [|reflexivity].
    assert (Hqz : 0 <? b = true -> sample_ok (pl_depth p) qz).
    { intros Hb0. rewrite Hb0 in Eqz. apply (Hci TYPE_QUIET_ZONE). now rewrite (getZ_equiv ci1 ci _ Heq). }
    rewrite (s_scale_is_model _ _ _ _ _ Hbd Hs). cbn [bind].
    assert (Hmiter : s_miter verbose matrix [size; size]
                     = Ok (if verbose then iter_verbose_rows matrix am size size 1 0 else matrix)).
    { unfold s_miter. destruct verbose; [|reflexivity].
      apply (TieWrNetpbm.src_matrix_iter_verbose_after_whb matrix am0 am size size 1 (Some 0) (size + 2 * 0, size + 2 * 0, 0)); try assumption.
      unfold TextFmt.valid_width_height_and_border. cbn [TextFmt.oborder option_map get_border]. rewrite !Z.mul_1_r. reflexivity. }
    rewrite Hmiter. cbn [bind].
    assert (Hvb : Forall (sample_ok (pl_depth p)) (m_vb scale b qz)).
    { unfold m_vb. destruct (0 <? b) eqn:Eb0; [apply Forall_repeat; now apply Hqz|].
      replace b with 0 by lia. constructor. }
    rewrite (idat_loop _ _ _ _ _ Hbd Hci Hvb). unfold png_index_rows.
    rewrite (map_res_rows_equiv ci1 ci Heq).
    destruct (map_res _ (if verbose then iter_verbose_rows matrix am size size 1 0 else matrix)) as [rows|e]; cbn [bind]; [|reflexivity].
    replace ((m_hb (pl_depth p) ((size + 2 * b) * scale) scale b qz ++
              flat_map (fun r => scanline (pl_depth p) 0 (m_vb scale b qz ++ repeat_each scale r ++ m_vb scale b qz)
                                 ++ m_same (pl_depth p) ((size + 2 * b) * scale) scale) rows)
             ++ m_hb (pl_depth p) ((size + 2 * b) * scale) scale b qz)
      with (png_idat (pl_depth p) ((size + 2 * b) * scale) scale b qz rows)
      by (unfold png_idat, m_hb, m_vb, m_same; now rewrite <- app_assoc).
    apply (s_tail_is_model deflate crc comp compresslevel Hcrc Hcomp); try assumption.
    - intros Ht'. destruct (Htt Ht') as [ti [Hti _]]. now exists ti.
    - intros _. apply (palette_nonempty p verbose ci (palette0 clr_map) Ev Eci Hplen Hn).
    - unfold lenZ in *. rewrite Hplen. pose proof (palette0_length clr_map). lia.
  Qed.

  Theorem src_write_png_cm_is_model_gen : forall ext (matrix am0 am : list (list Z)) (size scale : Z) (border dpi : option Z)
      (cm : list (Z * ocolor)),
    ext_ok ext ->
    src_make_matrix size size false false = Ok am0 -> src_add_alignment_patterns am0 size size = Ok am ->
    NoDup (map fst cm) -> (length cm <= 16)%nat -> colours_ok cm -> dpi_float_ok dpi ->
    src_write_png ext crc comp seto matrix [size; size] (to_py_colormap cm) scale border compresslevel dpi
    = write_png_cm deflate matrix am size scale border dpi cm.
  Proof.
    intros ext matrix am0 am size scale border dpi cm Hext Ham0 Ham Hnd H16 Hcol Hdpi.
    rewrite src_write_png_unfold, write_png_cm_unfold. unfold s_write_png.
    rewrite src_valid_whb_is_model. unfold TextFmt.valid_width_height_and_border, TextFmt.oborder.
    replace (match border with Some b => Some (PInt b) | None => None end) with (option_map PInt border) by (now destruct border).
    destruct (check_valid_scale (PInt scale)) as [[]|e] eqn:Es; cbn [bind]; [|reflexivity].
    destruct (check_valid_border (option_map PInt border)) as [[]|e] eqn:Eb; cbn [bind]; [|reflexivity].
    assert (Hv : TextFmt.valid_width_height_and_border size size scale border
                 = Ok ((size + 2 * get_border size size border) * scale, (size + 2 * get_border size size border) * scale,
                       get_border size size border)).
    { unfold TextFmt.valid_width_height_and_border, TextFmt.oborder. now rewrite Es, Eb. }
    destruct (valid_whb_ok _ _ _ _ _ Hv) as (Hs & Hbpos & _).
    assert (Hb0 : 0 <= get_border size size border).
    { destruct border as [b1|]; cbn [get_border]; [now apply Hbpos|]. unfold get_default_border_size. destruct ((17 <? size) && (size =? size)); lia. }
    cbn [whb_list py_unpack3 bind].
    destruct (option_eq_dec_z0 dpi) as [->|Hnz].
    - (* dpi = 0: no pHYs chunk *)
      rewrite s_dpi_zero. cbn [bind png_dpi Z.eqb]. rewrite s_after_dpi0.
      apply (s_after_is_model ext matrix am0 am size scale _ None cm); try assumption. discriminate.
    - rewrite (s_dpi_is_model dpi Hdpi Hnz).
      destruct (png_dpi dpi) as [ppm|e] eqn:Ed; cbn [bind]; [|reflexivity].
      apply (s_after_is_model ext matrix am0 am size scale _ ppm cm); try assumption.
      intros v ->. now apply (png_dpi_nonzero dpi v).
  Qed.
End Main.

(* ================================================================== 11. the theorems *)
(* _make_colormap yields a dict: distinct module types, at most 15 of them *)
Lemma make_colormap_NoDup size o : NoDup (map fst (make_colormap size o)).
Proof.
  unfold make_colormap.
  match goal with |- NoDup (map fst (filter ?f ?l)) => set (ff := f); set (full := l) end.
  assert (Hfull : NoDup (map fst full)).
  { unfold full. cbn [map fst].
    repeat (constructor; [cbn [In]; intros Hin; repeat (destruct Hin as [Hin|Hin]; [discriminate Hin|]); exact Hin|]). constructor. }
  clearbody full. induction full as [|[k c] l IH]; cbn [filter map fst]; [constructor|].
  cbn [map fst] in Hfull. inversion Hfull as [|? ? Hni Hnd]; subst.
  destruct (ff (k, c)); cbn [map fst]; [|now apply IH]. constructor; [|now apply IH].
  intros Hin. apply Hni. apply in_map_iff in Hin. destruct Hin as ([k' c'] & Hk & Hin). cbn [fst] in Hk. subst k'.
  apply filter_In in Hin. destruct Hin as [Hin _]. apply in_map_iff. now exists (k, c').
Qed.

Section Theorems.
  Variable deflate : list Z -> list Z.                   (* the model's zlib.compress(_, compresslevel) *)
  Variable ext_crc32 : list Z -> Z.                      (* zlib.crc32 *)
  Variable ext_compress : list Z -> Z -> list Z.         (* zlib.compress *)
  Variable ext_set_order : list (list Z) -> list (list Z).   (* the order in which CPython iterates over set(xs) *)
  Variable compresslevel : Z.
  Hypothesis Hcrc : forall b, ext_crc32 b = Png.crc32 b.
  Hypothesis Hcomp : forall d, ext_compress d compresslevel = deflate d.
  Hypothesis Hset : forall l, Permutation (ext_set_order l) (py_set_items l).

  Lemma ext_ok_src : ext_ok src_rgb_or_rgba_opt.
  Proof. intros c. apply src_rgb_or_rgba_false_is_model. Qed.

  (* write_png under its decorator: the function that takes the colormap dict; the colour conversion is the translated one *)
  Theorem src_write_png_cm_is_model : forall (matrix am0 am : list (list Z)) (size scale : Z) (border dpi : option Z)
      (cm : list (Z * ocolor)),
    src_make_matrix size size false false = Ok am0 -> src_add_alignment_patterns am0 size size = Ok am ->
    NoDup (map fst cm) -> (length cm <= 16)%nat -> colours_ok cm -> dpi_float_ok dpi ->
    src_write_png src_rgb_or_rgba_opt ext_crc32 ext_compress ext_set_order matrix [size; size] (to_py_colormap cm) scale border
                  compresslevel dpi
    = write_png_cm deflate matrix am size scale border dpi cm.
  Proof.
    intros matrix am0 am size scale border dpi cm Ham0 Ham Hnd H16 Hcol Hdpi.
    apply (src_write_png_cm_is_model_gen deflate ext_crc32 ext_compress compresslevel ext_set_order Hcrc Hcomp Hset src_rgb_or_rgba_opt
             matrix am0 am size scale border dpi cm ext_ok_src Ham0 Ham Hnd H16 Hcol Hdpi).
  Qed.

  (* write_png as the user calls it: the wrapper of @colorful(dark='#000', light='#fff') builds the colormap with the translated
     _make_colormap *)
  Theorem src_write_png_is_model_gen : forall (matrix am0 am : list (list Z)) (size scale : Z) (border dpi : option Z) (o : color_opts),
    src_make_matrix size size false false = Ok am0 -> src_add_alignment_patterns am0 size size = Ok am ->
    colours_ok (make_colormap size o) -> dpi_float_ok dpi ->
    src_write_png_colorful src_rgb_or_rgba_opt ext_crc32 ext_compress ext_set_order matrix [size; size] (to_oc (o_dark o)) (to_oc (o_light o))
      (to_ooc (o_finder_dark o)) (to_ooc (o_finder_light o)) (to_ooc (o_data_dark o)) (to_ooc (o_data_light o))
      (to_ooc (o_version_dark o)) (to_ooc (o_version_light o)) (to_ooc (o_format_dark o)) (to_ooc (o_format_light o))
      (to_ooc (o_alignment_dark o)) (to_ooc (o_alignment_light o)) (to_ooc (o_timing_dark o)) (to_ooc (o_timing_light o))
      (to_ooc (o_separator o)) (to_ooc (o_dark_module o)) (to_ooc (o_quiet_zone o)) scale border compresslevel dpi
    = Png.write_png deflate matrix am size scale border dpi o.
  Proof.
    intros matrix am0 am size scale border dpi o Ham0 Ham Hcol Hdpi. unfold src_write_png_colorful, Png.write_png.
    cbn [py_star_args2 bind]. cbv zeta. rewrite src_make_colormap_is_model. rewrite bind_ret'.
    apply (src_write_png_cm_is_model matrix am0 am size scale border dpi (make_colormap size o) Ham0 Ham);
      [apply make_colormap_NoDup|apply make_colormap_length|exact Hcol|exact Hdpi].
  Qed.

  (* without a hypothesis about floats: dpi None, zero, negative (ValueError) or at most DPI_SWEPT *)
  Theorem src_write_png_is_model : forall (matrix am0 am : list (list Z)) (size scale : Z) (border dpi : option Z) (o : color_opts),
    src_make_matrix size size false false = Ok am0 -> src_add_alignment_patterns am0 size size = Ok am ->
    colours_ok (make_colormap size o) -> dpi_swept dpi ->
    src_write_png_colorful src_rgb_or_rgba_opt ext_crc32 ext_compress ext_set_order matrix [size; size] (to_oc (o_dark o)) (to_oc (o_light o))
      (to_ooc (o_finder_dark o)) (to_ooc (o_finder_light o)) (to_ooc (o_data_dark o)) (to_ooc (o_data_light o))
      (to_ooc (o_version_dark o)) (to_ooc (o_version_light o)) (to_ooc (o_format_dark o)) (to_ooc (o_format_light o))
      (to_ooc (o_alignment_dark o)) (to_ooc (o_alignment_light o)) (to_ooc (o_timing_dark o)) (to_ooc (o_timing_light o))
      (to_ooc (o_separator o)) (to_ooc (o_dark_module o)) (to_ooc (o_quiet_zone o)) scale border compresslevel dpi
    = Png.write_png deflate matrix am size scale border dpi o.
  Proof.
    intros matrix am0 am size scale border dpi o Ham0 Ham Hcol Hdpi.
    apply (src_write_png_is_model_gen matrix am0 am size scale border dpi o Ham0 Ham Hcol). now apply dpi_swept_ok.
  Qed.

  Theorem src_write_png_cm_is_model_swept : forall (matrix am0 am : list (list Z)) (size scale : Z) (border dpi : option Z)
      (cm : list (Z * ocolor)),
    src_make_matrix size size false false = Ok am0 -> src_add_alignment_patterns am0 size size = Ok am ->
    NoDup (map fst cm) -> (length cm <= 16)%nat -> colours_ok cm -> dpi_swept dpi ->
    src_write_png src_rgb_or_rgba_opt ext_crc32 ext_compress ext_set_order matrix [size; size] (to_py_colormap cm) scale border
                  compresslevel dpi
    = write_png_cm deflate matrix am size scale border dpi cm.
  Proof.
    intros matrix am0 am size scale border dpi cm Ham0 Ham Hnd H16 Hcol Hdpi.
    apply (src_write_png_cm_is_model matrix am0 am size scale border dpi cm Ham0 Ham Hnd H16 Hcol). now apply dpi_swept_ok.
  Qed.

  (* the refusals, read off the bridge (the png_err theorems of PngLemmas): scale < 1, border < 0, dpi < 0, an unparsable colour *)
  Section Refusals.
    Variables (matrix am0 am : list (list Z)) (size : Z) (cm : list (Z * ocolor)).
    Hypothesis Ham0 : src_make_matrix size size false false = Ok am0.
    Hypothesis Ham : src_add_alignment_patterns am0 size size = Ok am.
    Hypothesis Hnd : NoDup (map fst cm).
    Hypothesis H16 : (length cm <= 16)%nat.
    Hypothesis Hcol : colours_ok cm.
    Let src scale border dpi :=
      src_write_png src_rgb_or_rgba_opt ext_crc32 ext_compress ext_set_order matrix [size; size] (to_py_colormap cm) scale border
                    compresslevel dpi.

    Corollary src_write_png_err_scale scale border dpi : dpi_float_ok dpi -> scale < 1 -> src scale border dpi = Err ValueError.
    Proof.
      intros Hdpi Hs. unfold src. rewrite (src_write_png_cm_is_model matrix am0 am size scale border dpi cm Ham0 Ham Hnd H16 Hcol Hdpi).
      now apply png_err_scale.
    Qed.
    Corollary src_write_png_err_border scale b dpi : dpi_float_ok dpi -> 1 <= scale -> b < 0 -> src scale (Some b) dpi = Err ValueError.
    Proof.
      intros Hdpi Hs Hb. unfold src. rewrite (src_write_png_cm_is_model matrix am0 am size scale (Some b) dpi cm Ham0 Ham Hnd H16 Hcol Hdpi).
      now apply png_err_border.
    Qed.
    Corollary src_write_png_err_dpi scale border d : 1 <= scale -> border_valid border -> d < 0 -> src scale border (Some d) = Err ValueError.
    Proof.
      intros Hs Hb Hd. unfold src. rewrite (src_write_png_cm_is_model matrix am0 am size scale border (Some d) cm Ham0 Ham Hnd H16 Hcol).
      - now apply png_err_dpi.
      - cbn [dpi_float_ok]. lia.
    Qed.
    Corollary src_write_png_err_colour scale border dpi e :
      dpi_float_ok dpi -> 1 <= scale -> border_valid border -> dpi_valid dpi -> png_clr_map cm = Err e ->
      src scale border dpi = Err ValueError.
    Proof.
      intros Hdpi Hs Hb Hd Hc. unfold src. rewrite (src_write_png_cm_is_model matrix am0 am size scale border dpi cm Ham0 Ham Hnd H16 Hcol Hdpi).
      rewrite (png_err_colour deflate matrix am size scale border dpi cm e Hs Hb Hd Hc). f_equal. now apply (png_clr_map_err_class cm).
    Qed.
  End Refusals.
End Theorems.

(* the guard is met, e.g., when every colour is opaque or None (then the placeholder is the only tuple of four items) *)
Lemma colours_ok_opaque cm :
  (forall clr_map c, png_clr_map cm = Ok clr_map -> In c (map snd clr_map) -> length c = 4%nat -> c = png_transparent) -> colours_ok cm.
Proof.
  intros H clr_map Hc a b Ha Hb La Lb _. rewrite (H clr_map a Hc Ha La), (H clr_map b Hc Hb Lb). reflexivity.
Qed.

Print Assumptions src_write_png_cm_is_model_gen.
Print Assumptions src_write_png_cm_is_model.
Print Assumptions src_write_png_is_model_gen.
Print Assumptions src_write_png_is_model.
Print Assumptions src_write_png_cm_is_model_swept.
Print Assumptions src_write_png_err_colour.
