(* Shared by the bridge files Tie/TieVersion.v ... TieMaskArg.v: tactics, generic facts about the [res] monad and
   PySem, and the view of the objects of encoder.py (Buffer, _Segment, Segments) from the model. *)
From Coq Require Import String.
From Coq Require Import ZArith List Bool Lia ZifyBool.
From Segno Require Import Base.PyLite Base.PySem Ref.IsoData Model.Bits Model.Segment Model.Stream.
From Segno Require Tie.TieTables.
Import ListNotations.
Open Scope Z_scope.

(* all tables the translated functions mention, replaced by the frozen reference copies (TieTables) *)
Ltac tie_tables :=
  rewrite ?TieTables.tie_FORMAT_INFO, ?TieTables.tie_FORMAT_INFO_MICRO, ?TieTables.tie_ERROR_LEVEL_TO_MICRO_MAPPING,
          ?TieTables.tie_TERMINATOR_LENGTH, ?TieTables.tie_SUPPORTED_MODES, ?TieTables.tie_MICRO_VERSIONS,
          ?TieTables.tie_CHAR_COUNT_INDICATOR_LENGTH, ?TieTables.tie_SYMBOL_CAPACITY,
          ?TieTables.tie_DEFAULT_BYTE_ENCODING.

Ltac split_ifs :=
  repeat match goal with
         | |- context [if ?c then _ else _] => let E := fresh "E" in destruct c eqn:E
         end.

(* ------------------------------------------------------------------ generic facts *)
Lemma bind_ret {A} (r : res A) : bind r (fun x => Ok x) = r.
Proof. now destruct r. Qed.

Lemma py_index_nonneg {A} (l : list A) i : 0 <= i -> py_index l i = nthZ l i.
Proof. intros Hi. unfold py_index. destruct (i <? 0) eqn:E; [lia|reflexivity]. Qed.

Lemma assocZ_In' {A} k (l : list (Z * A)) x : assocZ k l = Some x -> In (k, x) l.
Proof.
  induction l as [|[k' v] r IH]; cbn [assocZ]; [discriminate|].
  destruct (k =? k') eqn:E.
  - intros [= ->]. apply Z.eqb_eq in E. subst. now left.
  - intros H. right. now apply IH.
Qed.
Lemma assocOZ_In' {A} k (l : list (option Z * A)) x : assocOZ k l = Some x -> exists k', In (k', x) l.
Proof.
  induction l as [|[k' v] r IH]; cbn [assocOZ]; [discriminate|].
  destruct (oz_eqb k k') eqn:E.
  - intros [= ->]. exists k'. now left.
  - intros H. destruct (IH H) as [k2 Hk2]. exists k2. now right.
Qed.

(* the Buffer holds the bits as the integers 0/1 *)
Definition bitsZ (b : bits) : list Z := map bit_z b.

Lemma lenZ_bitsZ b : lenZ (bitsZ b) = lenZ b.
Proof. unfold lenZ, bitsZ. now rewrite map_length. Qed.

Lemma bitsZ_app a b : bitsZ (a ++ b) = bitsZ a ++ bitsZ b.
Proof. apply map_app. Qed.

Lemma bitsZ_zeros n : bitsZ (zeros n) = repeat 0 (Z.to_nat n).
Proof. unfold bitsZ, zeros. induction (Z.to_nat n) as [|k IH]; cbn; [reflexivity|]. now rewrite IH. Qed.

Lemma extend_zeros b n : py_buf_extend (bitsZ b) (py_repeat [0] n) = Ok (bitsZ (b ++ zeros n)).
Proof.
  unfold py_buf_extend. rewrite py_repeat_zeros, forallb_is_byte_repeat0, bitsZ_app, bitsZ_zeros. reflexivity.
Qed.


(* the objects of encoder.py seen from the model: a Segments instance built by add_segment keeps
   modes = [s.mode for s in segments] and bit_length = sum(len(s.bits)) *)
Definition to_py_seg (s : segment) : py_seg :=
  {| seg_bits := bitsZ (s_bits s); seg_char_count := s_count s; seg_mode := s_mode s;
     seg_encoding := option_map e_name (s_enc s) |}.
Definition to_py_segs (segs : list segment) : py_segs :=
  {| segs_segments := map to_py_seg segs; segs_bit_length := seg_bit_length segs; segs_modes := seg_modes segs |}.

