(* find_and_apply_best_mask without assumed parts: the parameter [ext] (= evaluate_mask) of the translated
   find_and_apply_best_mask (SegnoSrc.SrcMask, bridge theorem Tie/TieMask.v) is instantiated with the translated
   evaluate_mask / mask_scores (SegnoSrc.SrcMaskScores), whose bridge theorem is Tie/TieMaskScores.v.
   See DESIGN.md 11.7.2. *)
From Coq Require Import ZArith List Bool Lia ZifyBool.
From Segno Require Import Base.PyLite Base.PySem Ref.Geometry Ref.Spec Model.Bits Model.Matrix.
From Segno Require Import Lemmas.MaskLemmas Tie.TieMat Tie.TieFnPat Tie.TieMask Tie.TieMaskScores.
From SegnoSrc Require Import SrcMask SrcMaskScores.
Import ListNotations.
Open Scope Z_scope.

(* a matrix in which every module has a value, as the translated code sees it: the rows of 0/1 integers *)
Lemma to_rows_full size m : full size m -> to_rows size m = map zbits (rows_of size m).
Proof.
  intros Hfull. unfold to_rows, rows_of. rewrite map_map. apply map_ext_in. intros i Hi. apply zrange_In_inv in Hi.
  unfold row_of, zbits. rewrite map_map. apply map_ext_in. intros j Hj. apply zrange_In_inv in Hj.
  specialize (Hfull i j Hi Hj). destruct (mget size m i j); [reflexivity|congruence].
Qed.

(* the hypothesis that Tie/TieMask.v (and Tie/TieEncode.v, for the size in use) makes about evaluate_mask *)
Theorem src_evaluate_mask_to_rows : forall (fuel : nat) (size : Z) (mk : mat),
  In size all_sizes -> full size mk -> (Z.to_nat size + 2 <= fuel)%nat ->
  src_evaluate_mask fuel (to_rows size mk) size size = Ok (Matrix.evaluate_mask size (rows_of size mk)).
Proof.
  intros fuel size mk Hin Hfull Hfuel. pose proof (all_sizes_nonneg size Hin) as Hs.
  rewrite to_rows_full by assumption.
  destruct (rows_of_square size mk ltac:(lia)) as [Hlen Hall].
  now apply src_evaluate_mask_is_model.
Qed.

Theorem src_mask_scores_to_rows : forall (fuel : nat) (size : Z) (mk : mat),
  In size all_sizes -> full size mk -> (Z.to_nat size + 2 <= fuel)%nat ->
  src_mask_scores fuel (to_rows size mk) size size = Ok (scores_list (Matrix.mask_scores size (rows_of size mk))).
Proof.
  intros fuel size mk Hin Hfull Hfuel. pose proof (all_sizes_nonneg size Hin) as Hs.
  rewrite to_rows_full by assumption.
  destruct (rows_of_square size mk ltac:(lia)) as [Hlen Hall].
  now apply src_mask_scores_is_model.
Qed.

(* guards: one of the 44 symbol sizes; every module has a value (as after add_codewords); a requested mask is in range
   (normalize_mask); the fuel of the while loop in n3_pattern_occurrences is at least size + 2 *)
Theorem src_find_and_apply_best_mask_full :
  forall (fuel : nat) (size : Z) (m : mat) (proposed : option Z),
  In size all_sizes -> full size m -> (Z.to_nat size + 2 <= fuel)%nat ->
  match proposed with Some k => 0 <= k < (if size <? 21 then 4 else 8) | None => True end ->
  src_find_and_apply_best_mask (src_evaluate_mask fuel) (to_rows size m) size size proposed
  = do r <- Matrix.find_and_apply_best_mask size m proposed; Ok (fst r, Some (to_rows size (snd r))).
Proof.
  intros fuel size m proposed Hin Hfull Hfuel Hprop.
  apply src_find_and_apply_best_mask_is_model; try assumption.
  intros mk Hmk. now apply src_evaluate_mask_to_rows.
Qed.

(* 179 iterations are enough for every symbol (size <= 177) *)
Corollary src_find_and_apply_best_mask_179 :
  forall (size : Z) (m : mat) (proposed : option Z),
  In size all_sizes -> full size m ->
  match proposed with Some k => 0 <= k < (if size <? 21 then 4 else 8) | None => True end ->
  src_find_and_apply_best_mask (src_evaluate_mask 179) (to_rows size m) size size proposed
  = do r <- Matrix.find_and_apply_best_mask size m proposed; Ok (fst r, Some (to_rows size (snd r))).
Proof.
  intros size m proposed Hin Hfull Hprop. apply src_find_and_apply_best_mask_full; try assumption.
  pose proof (all_sizes_nonneg size Hin). lia.
Qed.

(* with the automatic choice the mask applied is the lowest-numbered optimum of the ISO penalty (QR) / score (Micro QR):
   MaskLemmas.find_and_apply_best_mask_is_iso speaks about the right-hand side above *)

Print Assumptions src_evaluate_mask_to_rows.
Print Assumptions src_find_and_apply_best_mask_full.
Print Assumptions src_find_and_apply_best_mask_179.
