(* TieVecEps: the mechanically translated segno.writers.write_eps (build/gen/SrcVecEps.v, written by gen/translate_vector.py
   from the current source) is the hand-written model Model/Vector.v write_eps -- for EVERY non-empty matrix (any number of
   rows of any lengths, any cell values), matrix size, scale (int or float), border, dark / light colour of the model's
   typed domain, ALL error cases included (scale <= 0, negative border, malformed colours: [src_write_eps_error]).

   Parameters of the translated function (C code / library code that is not translated) and what is assumed about them:
   * ext_time_strftime  -- time.strftime(format): arbitrary; the model's opaque `date` is [eps_date] = its value on the format
                           string of the source, "%Y-%m-%d %H:%M:%S" (a changed format string breaks the bridge);
   * ext_textwrap_wrap  -- textwrap.wrap(content, 254) (regular-expression based library code): assumed to behave as the
                           model treats it, on the contents THIS run writes ([eps_params_ok]): every line other than the path
                           line comes back as itself ([eps_singles]: short lines of blank-separated words), and the path line
                           `join sp words` comes back as the greedy filling [wrap254 words] of its words;
   * ext_q_repr         -- repr of a float given by its exact value: assumed to print the exact decimal expansion
                           (Vector.float_repr) on the floats this run prints: y = height + border - 0.5 (the first `moveto`), and
                           for a float scale the scale and the bounding box.
   NOT parameters: the colour operands `'{:f}'.format(1 / 255.0 * c)` are computed -- binary64 arithmetic by the kernel and
   PySemColor.py_fmt_pct_f 6 -- and agree with the model's exact-rational [eps_component] on all 256 bytes ([fmt_f6_sweep]).
   The hypotheses are needed only when the call succeeds: [eps_params_ok] asks for them under the three "= Ok" equations.
   The empty matrix: Python raises StopIteration at next(line_iter); PyLite.exn has no such constructor, the translation
   uses PySemSeg.py_stop_iteration (= TypeErr), Model/Vector.v uses AssertErr: the theorem is for matrix <> []
   ([src_write_eps_empty]: on [] the translated function is the model up to that renaming, without hypotheses). *)
From Coq Require Import String.
From Coq Require Import ZArith QArith List Bool Lia.
From Coq Require PrimFloat.
From Segno Require Import Base.PyLite Base.PySem Base.PySemExt Base.PySemGen Base.PySemIO Base.PySemSeg Base.PySemColor Base.PySemVec.
From Segno Require Import Model.Iter Model.Color Model.Vector.
From Segno Require Lemmas.NetpbmLemmas Lemmas.IterLemmas Lemmas.VectorLemmas Tie.TieColor.
From Segno Require Import Tie.TieUtils Tie.TieUtilsIter Tie.TieWrCommon Tie.TieVecCommon.
From SegnoSrc Require SrcTables.
From SegnoSrc Require Import SrcUtils SrcUtilsIter SrcColor SrcVecCommon SrcVecEps.
Import ListNotations.
Open Scope Z_scope.
Import TieColor.

Ltac eval_lit :=
  repeat match goal with
         | |- context [lit ?s] => let v := eval vm_compute in (lit s) in change (lit s) with v
         end.
Ltac norm_app := unfold py_write, py_stream_new; repeat rewrite <- app_assoc; cbn [app].

(* ------------------------------------------------------------------ 1. '{:f}'.format(1 / 255.0 * c) is the model's eps_component *)
Lemma py_list_eqb_eq a : forall b, py_list_eqb a b = true -> a = b.
Proof.
  induction a as [|x a IH]; intros [|y b] H; cbn [py_list_eqb] in H; try discriminate; [reflexivity|].
  apply andb_prop in H. destruct H as [H1 H2]. apply Z.eqb_eq in H1. subst. f_equal. now apply IH.
Qed.
Lemma fmt_f6_sweep : forallb (fun c => py_list_eqb (py_fmt_pct_f 6 (c255 c)) (eps_component c)) (zrange 0 256) = true.
Proof. vm_compute. reflexivity. Qed.
Lemma fmt_f6_byte c : 0 <= c <= 255 -> py_fmt_pct_f 6 (c255 c) = eps_component c.
Proof.
  intros H. apply py_list_eqb_eq. pose proof fmt_f6_sweep as S. rewrite forallb_forall in S. apply S. apply zrange_In. lia.
Qed.

(* ------------------------------------------------------------------ 2. write_line: one call appends the wrapped lines *)
Definition WL (wrap : list Z -> Z -> list (list Z)) (c : list Z) : list Z := write_lines (wrap c 254).
Lemma write_line_ok wrap c f :
  py_for (A:=void) (wrap c 254) (fun line st' => Ok (CNext (py_write (py_write st' line) [10]))) f = Ok (inr (f ++ WL wrap c)).
Proof.
  unfold WL, write_lines. apply py_for_emit_ok. intros l acc _. unfold py_write, nl. now rewrite <- app_assoc.
Qed.

(* ------------------------------------------------------------------ 3. the path *)
Lemma qz_int q n : (q == inject_Z n)%Q -> qz q = n.
Proof. intros H. unfold qz. now apply IterLemmas.py_int_integral. Qed.
Lemma qz_sub p q m n : (p == inject_Z m)%Q -> (q == inject_Z n)%Q -> qz (p - q) = qz p - qz q.
Proof.
  intros Hp Hq. rewrite (qz_int p m Hp), (qz_int q n Hq). apply qz_int. rewrite Hp, Hq. unfold Zminus. rewrite inject_Z_plus, inject_Z_opp. ring.
Qed.

Definition int_line (l : line) : Prop := exists a c, (l_x1 l == inject_Z a)%Q /\ (l_x2 l == inject_Z c)%Q.
Lemma lines_int matrix (b : Z) y d : Forall int_line (Iter.matrix_to_lines matrix (inject_Z b) y d).
Proof.
  pose proof (VectorLemmas.lines_all_runs matrix (inject_Z b) y d) as H.
  induction H as [|l [[r a] c] ls ts Hl _ IH]; constructor; [|assumption].
  destruct Hl as (_ & H1 & H2). exists (b + a), (b + c). rewrite !inject_Z_plus. now split.
Qed.

Definition T4 : Type := (py_vnum * py_vnum) * (py_vnum * py_vnum).
Definition eps_item (ext : Q -> list Z) (x y : py_vnum) (it : T4) : list Z :=
  let '((x1, y1), (x2, y2)) := it in
  [32] ++ py_vnum_str ext (py_vnum_sub x1 x) ++ [32] ++ py_str_int (py_vnum_int (py_vnum_sub y1 y)) ++ [32; 109; 32]
  ++ py_vnum_str ext (py_vnum_sub x2 x1) ++ [32; 48; 32; 108].
Fixpoint eps_texts (ext : Q -> list Z) (items : list T4) (x y : py_vnum) : list (list Z) :=
  match items with
  | [] => []
  | it :: r => eps_item ext x y it :: eps_texts ext r (fst (snd it)) (snd (snd it))
  end.

Lemma join_cons_flat (w : str) ws : Vector.join sp (w :: ws) = w ++ flat_map (fun v => sp ++ v) ws.
Proof.
  revert w. induction ws as [|v r IH]; intros w; [cbn [Vector.join flat_map]; now rewrite app_nil_r|].
  change (Vector.join sp (w :: v :: r)) with (w ++ sp ++ Vector.join sp (v :: r)). rewrite IH. cbn [flat_map].
  now rewrite <- !app_assoc.
Qed.

Lemma tag_line_ft l : tag_line false true l = ((PVInt (qz (l_x1 l)), PVFlt (l_y l)), (PVInt (qz (l_x2 l)), PVFlt (l_y l))).
Proof. reflexivity. Qed.

Lemma eps_rest_texts ext : forall (r : list line) (xq yq : Q) (m : Z),
  Forall int_line r -> (xq == inject_Z m)%Q ->
  concat (eps_texts ext (map (tag_line false true) r) (PVInt (qz xq)) (PVFlt yq)) = flat_map (fun v => sp ++ v) (eps_rest r xq yq).
Proof.
  induction r as [|l r IH]; intros xq yq m Hr Hx; [reflexivity|].
  inversion Hr as [|? ? (a & c & H1 & H2) Hr']; subst.
  cbn [map eps_texts concat eps_rest flat_map]. rewrite tag_line_ft. cbn [fst snd].
  rewrite (IH (l_x2 l) (l_y l) c Hr' H2).
  unfold eps_item. cbn [py_vnum_sub py_vnum_bin py_vnum_q py_vnum_int py_vnum_str].
  change (py_int_q (l_y l - yq)) with (qz (l_y l - yq)).
  rewrite <- (qz_sub (l_x1 l) xq a m H1 Hx), <- (qz_sub (l_x2 l) (l_x1 l) c a H2 H1).
  rewrite !py_str_int_vdec. unfold sp. eval_lit. cbn [flat_map app]. repeat first [rewrite <- app_assoc | progress cbn [app]]. reflexivity.
Qed.

(* the first line comes from the first row: its y is the start value *)
Lemma lines_row_y row : forall x1 x2 lb y, Forall (fun l => l_y l = y) (fst (lines_row row x1 x2 lb y)).
Proof.
  induction row as [|bit r IH]; intros x1 x2 lb y; cbn [lines_row fst]; [constructor|].
  match goal with |- context [lines_row r ?a ?b0 ?c y] => specialize (IH a b0 c y); destruct (lines_row r a b0 c y) as [ls st] end.
  cbn [fst] in *. apply Forall_app. split; [|assumption]. destruct (negb (lb =? bit) && (bit =? 0)); repeat constructor.
Qed.
Lemma lines_row_emits row : forall x1 x2 lb y, lb <> 0 ->
  fst (lines_row row x1 x2 lb y) <> [] \/ snd (snd (lines_row row x1 x2 lb y)) <> 0.
Proof.
  induction row as [|bit r IH]; intros x1 x2 lb y Hlb; cbn [lines_row]; [right; assumption|].
  destruct (bit =? 0) eqn:Eb.
  - apply Z.eqb_eq in Eb. subst bit. assert (E : negb (lb =? 0) = true) by (destruct (lb =? 0) eqn:E; [lia|reflexivity]).
    rewrite E. cbn [andb]. match goal with |- context [lines_row r ?a ?b0 ?c y] => destruct (lines_row r a b0 c y) as [ls st] end.
    left. cbn [fst app]. discriminate.
  - rewrite andb_false_r. assert (Hb : bit <> 0) by lia.
    match goal with |- context [lines_row r ?a ?b0 ?c y] => specialize (IH a b0 c y Hb); destruct (lines_row r a b0 c y) as [ls st] end.
    cbn [fst snd app] in *. exact IH.
Qed.
Lemma first_line_y matrix x y d : matrix <> [] ->
  exists l0 r, Iter.matrix_to_lines matrix x y d = l0 :: r /\ l_y l0 = (y - d + d)%Q.
Proof.
  intros Hm. destruct matrix as [|row rows]; [congruence|]. unfold Iter.matrix_to_lines. cbn [lines_rows]. cbv zeta.
  pose proof (lines_row_y row x x 1 (y - d + d)%Q) as Hy.
  pose proof (lines_row_emits row x x 1 (y - d + d)%Q ltac:(lia)) as He.
  destruct (lines_row row x x 1 (y - d + d)%Q) as [ls [[x1 x2] lb]]. cbn [fst snd] in *.
  destruct ls as [|l0 ls'].
  - destruct He as [He|He]; [congruence|]. destruct (lb =? 0) eqn:E; [lia|]. cbn [negb app]. eexists _, _. split; reflexivity.
  - inversion Hy as [|? ? Hl0 Hrest]; subst. cbn [app]. eexists _, _. split; [reflexivity|exact Hl0].
Qed.

(* the loop over the remaining lines: a fold whose first component collects the texts *)
Definition S7 : Type := list (list Z) * py_vnum * py_vnum * py_vnum * py_vnum * py_vnum * py_vnum.
Definition eps_step (ext : Q -> list Z) (it : T4) (s : S7) : S7 :=
  let '(coord, x, _, _, y7, _, _) := s in
  let '((x4, y10), (x5, y11)) := it in
  (coord ++ [eps_item ext x y7 it], x5, x4, x5, y11, y10, y11).
Lemma eps_fold ext : forall (items : list T4) c0 x0 a b0 y0 c d,
  exists x' a' b' y' c' d',
    fold_left (fun s it => eps_step ext it s) items (c0, x0, a, b0, y0, c, d) = (c0 ++ eps_texts ext items x0 y0, x', a', b', y', c', d').
Proof.
  induction items as [|[[x4 y10] [x5 y11]] r IH]; intros c0 x0 a b0 y0 c d; cbn [fold_left eps_texts].
  - rewrite app_nil_r. now exists x0, a, b0, y0, c, d.
  - cbn [eps_step fst snd]. destruct (IH (c0 ++ [eps_item ext x0 y0 (x4, y10, (x5, y11))]) x5 x4 x5 y11 y10 y11) as (x' & a' & b' & y' & c' & d' & E).
    rewrite E. rewrite <- app_assoc. cbn [app]. now exists x', a', b', y', c', d'.
Qed.

(* ------------------------------------------------------------------ 4. write_eps *)
Definition eps_date (strf : list Z -> list Z) : str := strf (lit "%Y-%m-%d %H:%M:%S").
Definition eps_fill_res (light : option pycolor) : res (option (list Z)) :=
  match light with Some c => do rgb <- color_to_rgb c; Ok (Some rgb) | None => Ok None end.
Definition eps_stroke_res (dark : pycolor) : res (list Z) := if color_is_black dark then Ok [] else color_to_rgb dark.
(* the lines, other than the path line, that a successful run writes (each through textwrap.wrap) *)
Definition eps_singles (date : str) (scale W H : pynum) (black : bool) (stroke : list Z) (fill : option (list Z)) : list str :=
  [lit "%!PS-Adobe-3.0 EPSF-3.0"; lit "%%Creator: " ++ CREATOR; lit "%%CreationDate: " ++ date; lit "%%DocumentData: Clean7Bit";
   lit "%%BoundingBox: 0 0 " ++ pn_text W ++ sp ++ pn_text H; lit "/m { rmoveto } bind def"; lit "/l { rlineto } bind def"]
  ++ (match fill with
      | Some rgb => [Vector.join sp (eps_color_words rgb ++ [lit "setrgbcolor"; lit "clippath"; lit "fill"])]
                    ++ (if black then [lit "0 0 0 setrgbcolor"] else [])
      | None => [] end)
  ++ (if black then [] else [Vector.join sp (eps_color_words stroke ++ [lit "setrgbcolor"])])
  ++ (if pn_ne_one scale then [Vector.join sp [pn_text scale; pn_text scale; lit "scale"]] else [])
  ++ [lit "newpath"; lit "stroke"; lit "%%EOF"].
Definition eps_params_ok (ext_q : Q -> list Z) (wrap : list Z -> Z -> list (list Z)) (date : str)
    (matrix : list (list Z)) (w h : Z) (scale : pynum) (border : option Z) (dark : pycolor) (light : option pycolor) : Prop :=
  forall W H b stroke fill,
    valid_width_height_and_border w h scale border = Ok (W, H, b) -> eps_stroke_res dark = Ok stroke -> eps_fill_res light = Ok fill ->
    let y := (inject_Z (h + b) - (1 # 2))%Q in
    let pathws := eps_path_words (Iter.matrix_to_lines matrix (inject_Z b) y (-1 # 1)%Q) y in
    (repr_ok ext_q scale /\ repr_ok ext_q W /\ repr_ok ext_q H /\ repr_okq ext_q y) /\
    (forall c, In c (eps_singles date scale W H (color_is_black dark) stroke fill) -> wrap c 254 = [c]) /\
    wrap (Vector.join sp pathws) 254 = wrap254 pathws.

Lemma WL_single wrap c : wrap c 254 = [c] -> WL wrap c = c ++ nl.
Proof. intros H. unfold WL. rewrite H. cbn [write_lines flat_map]. now rewrite app_nil_r. Qed.


Lemma bind_ok {A B} (a : A) (f : A -> res B) : bind (Ok a) f = f a.
Proof. reflexivity. Qed.
Lemma match_nonempty {A B} (l : list A) (a b0 : B) : l <> [] -> match l with [] => a | _ :: _ => b0 end = b0.
Proof. destruct l; [congruence|reflexivity]. Qed.

Theorem src_write_eps_gen :
  forall ext_q strf wrap matrix w h scale border dark light,
  matrix <> [] ->
  eps_params_ok ext_q wrap (eps_date strf) matrix w h scale border dark light ->
  src_write_eps ext_q strf wrap matrix [w; h] (to_vnum scale) border (to_py_color dark) (option_map to_py_color light)
  = Vector.write_eps matrix w h (eps_date strf) scale border dark light.
Proof.
  intros ext_q strf wrap matrix w h scale border dark light Hm Hok.
  unfold src_write_eps, Vector.write_eps. cbv zeta beta.
  rewrite src_valid_whb_v_is_model.
  destruct (valid_width_height_and_border w h scale border) as [[[W H] b]|e] eqn:Ewhb; cbn [bind whb_v]; [|reflexivity].
  specialize (Hok W H b). cbv zeta in Hok.
  rewrite src_color_is_black_is_model. cbn [bind].
  unfold eps_stroke_res in Hok.
  remember (color_is_black dark) as blk eqn:Eblk.
  match goal with |- bind ?X _ = _ =>
    assert (HX : X = do s <- (if blk then Ok [] else color_to_rgb dark);
                     Ok (if blk then inl (to_py_color dark) else inr (map c255 s))) end.
  { destruct blk; [reflexivity|]. rewrite src_to_floats_is_model. destruct (color_to_rgb dark); reflexivity. }
  rewrite HX. clear HX.
  destruct (if blk then Ok [] else color_to_rgb dark) as [stroke|e] eqn:Estroke; cbn [bind]; [|reflexivity].
  specialize (Hok stroke).
  assert (Hstroke3 : blk = false -> exists r g b0, stroke = [r; g; b0] /\ 0 <= r <= 255 /\ 0 <= g <= 255 /\ 0 <= b0 <= 255).
  { intros Eb. rewrite Eb in Estroke. now apply rgb3 in Estroke. }
  (* the header lines *)
  repeat (rewrite ?bind_ok; rewrite write_line_ok; cbv beta iota; cbn [bind]).
  match goal with |- context [py_for _ _ ?f] => set (F0 := f) end.
  set (y := (inject_Z (h + b) - (1 # 2))%Q) in *.
  set (ls := Iter.matrix_to_lines matrix (inject_Z b) y (-1 # 1)%Q) in *.
  set (pathws := eps_path_words ls y) in *.
  match goal with |- bind ?X1 (fun c => bind (@?X2 c) (fun c2 => bind (@?X3 c2) ?R)) = _ => set (rest := R) end.
  assert (Hrest : repr_okq ext_q y -> forall f, rest f =
            Ok ((((f ++ WL wrap (lit "newpath")) ++ WL wrap (Vector.join sp pathws)) ++ WL wrap (lit "stroke")) ++ WL wrap (lit "%%EOF"))).
  { intros Hry f. subst rest. cbv beta.
    rewrite write_line_ok; cbv beta iota; cbn [bind].
    rewrite src_get_symbol_size_v_unit. cbn [bind].
    match goal with |- context [py_index [?a; ?b0] 1] => change (py_index [a; b0] 1) with (Ok b0) end. cbn [bind].
    replace (h + 2 * 0) with h by lia. cbn [py_vnum_add py_vnum_sub py_vnum_bin py_vnum_q py_vnum_is_float]. fold y.
    change (inject_Z (-1)) with (-1 # 1)%Q.
    rewrite lines_tag_is_model. cbn [bind]. fold ls.
    destruct (first_line_y matrix (inject_Z b) y (-1 # 1)%Q Hm) as (l0 & r & Els & Hy0). fold ls in Els.
    pose proof (lines_int matrix b y (-1 # 1)%Q) as Hint. fold ls in Hint. rewrite Els in Hint.
    inversion Hint as [|? ? (a0 & c0 & Ha0 & Hc0) Hintr]; subst.
    assert (Hy0' : (l_y l0 == y)%Q) by (rewrite Hy0; ring).
    pose proof (repr_okq_Qeq ext_q (l_y l0) y Hy0' Hry) as Hry0.
    rewrite Els. cbn [map py_next bind]. rewrite tag_line_ft.
    erewrite py_for_fold with (step := eps_step ext_q).
    2:{ intros [[x4 y10] [x5 y11]] [[[[[[cc xx] aa] bb] yy] c1] d1] _. reflexivity. }
    match goal with |- context [fold_left _ ?items (?c, ?x0, ?a, ?b0, ?yy, ?c1, ?d1)] =>
      destruct (eps_fold ext_q items c x0 a b0 yy c1 d1) as (x' & a' & b' & y' & c' & d' & Efold); rewrite Efold end.
    cbv beta iota.
    repeat (rewrite ?bind_ok; rewrite write_line_ok; cbv beta iota; cbn [bind]).
    do 4 f_equal. rewrite py_join_nil_concat. cbn [concat app].
    rewrite (eps_rest_texts ext_q r (l_x2 l0) y c0 Hintr Hc0).
    unfold pathws. rewrite Els. cbn [eps_path_words]. cbn [app]. rewrite join_cons_flat. cbn [flat_map].
    cbn [py_vnum_sub py_vnum_bin py_vnum_str]. rewrite <- (qz_sub (l_x2 l0) (l_x1 l0) c0 a0 Hc0 Ha0).
    rewrite Hry0, !py_str_int_vdec. unfold sp. eval_lit. repeat first [rewrite <- app_assoc | progress cbn [app]]. reflexivity. }
  clearbody rest.
  destruct light as [cl|]; cbn [option_map].
  - rewrite src_to_floats_is_model.
    destruct (color_to_rgb cl) as [rgbl|e] eqn:El; cbn [bind]; [|reflexivity].
    destruct (rgb3 cl rgbl El) as (lr & lg & lb & -> & Hlr & Hlg & Hlb).
    cbn [map].
    change (nthZ [c255 lr; c255 lg; c255 lb] 0) with (Ok (c255 lr)).
    change (nthZ [c255 lr; c255 lg; c255 lb] 1) with (Ok (c255 lg)).
    change (nthZ [c255 lr; c255 lg; c255 lb] 2) with (Ok (c255 lb)). cbn [bind].
    rewrite write_line_ok; cbv beta iota; cbn [bind].
    destruct blk.
    +
      assert (stroke = []) by (inversion Estroke; reflexivity). subst stroke.
      cbn [negb]. repeat (rewrite ?bind_ok; rewrite write_line_ok; cbv beta iota; cbn [bind]).
      rewrite vnum_ne_one. destruct (pn_ne_one scale) eqn:Esc; repeat (rewrite ?bind_ok; rewrite write_line_ok; cbv beta iota; cbn [bind]).
      {
      assert (HP := Hok (Some [lr; lg; lb]) Ewhb eq_refl (eq_trans (f_equal (fun x => do rgb <- x; Ok (Some rgb)) El) eq_refl)). destruct HP as ((Hrs & HrW & HrH & Hry) & Hsingles & Hpath).
      rewrite ?bind_ok. rewrite (Hrest Hry).
      destruct (first_line_y matrix (inject_Z b) y (-1 # 1)%Q Hm) as (l0 & r0 & Els & _). fold ls in Els.
      rewrite match_nonempty by (rewrite Els; discriminate).
      f_equal. unfold F0, py_stream_new.
      rewrite ?(vnum_str_pn ext_q _ Hrs), ?(vnum_str_pn ext_q W HrW), ?(vnum_str_pn ext_q H HrH).
      rewrite ?fmt_f6_byte by assumption.
      change (WL wrap (Vector.join sp pathws)) with (write_lines (wrap (Vector.join sp pathws) 254)). rewrite Hpath.
      repeat match goal with |- context [WL wrap ?c] =>
        rewrite (WL_single wrap c) by (apply Hsingles; unfold eps_singles; rewrite ?Esc; cbn [app]; repeat first [left; reflexivity | right])
      end.
      unfold write_lines. rewrite !flat_map_app. cbn [flat_map]. rewrite ?Esc. cbn [flat_map app].
      unfold eps_date, eps_color_words, Vector.CREATOR, SrcTables.CREATOR, sp, nl. cbn [map Vector.join app]. eval_lit.
      repeat first [rewrite <- app_assoc | progress cbn [app]]. reflexivity.
      }
      {
      assert (HP := Hok (Some [lr; lg; lb]) Ewhb eq_refl (eq_trans (f_equal (fun x => do rgb <- x; Ok (Some rgb)) El) eq_refl)). destruct HP as ((Hrs & HrW & HrH & Hry) & Hsingles & Hpath).
      rewrite ?bind_ok. rewrite (Hrest Hry).
      destruct (first_line_y matrix (inject_Z b) y (-1 # 1)%Q Hm) as (l0 & r0 & Els & _). fold ls in Els.
      rewrite match_nonempty by (rewrite Els; discriminate).
      f_equal. unfold F0, py_stream_new.
      rewrite ?(vnum_str_pn ext_q _ Hrs), ?(vnum_str_pn ext_q W HrW), ?(vnum_str_pn ext_q H HrH).
      rewrite ?fmt_f6_byte by assumption.
      change (WL wrap (Vector.join sp pathws)) with (write_lines (wrap (Vector.join sp pathws) 254)). rewrite Hpath.
      repeat match goal with |- context [WL wrap ?c] =>
        rewrite (WL_single wrap c) by (apply Hsingles; unfold eps_singles; rewrite ?Esc; cbn [app]; repeat first [left; reflexivity | right])
      end.
      unfold write_lines. rewrite !flat_map_app. cbn [flat_map]. rewrite ?Esc. cbn [flat_map app].
      unfold eps_date, eps_color_words, Vector.CREATOR, SrcTables.CREATOR, sp, nl. cbn [map Vector.join app]. eval_lit.
      repeat first [rewrite <- app_assoc | progress cbn [app]]. reflexivity.
      }
    +
      destruct (Hstroke3 eq_refl) as (sr & sg & sb & -> & Hsr & Hsg & Hsb).
      cbn [negb map]. cbv iota.
      change (nthZ [c255 sr; c255 sg; c255 sb] 0) with (Ok (c255 sr)).
      change (nthZ [c255 sr; c255 sg; c255 sb] 1) with (Ok (c255 sg)).
      change (nthZ [c255 sr; c255 sg; c255 sb] 2) with (Ok (c255 sb)). cbn [bind].
      repeat (rewrite ?bind_ok; rewrite write_line_ok; cbv beta iota; cbn [bind]).
      rewrite vnum_ne_one. destruct (pn_ne_one scale) eqn:Esc; repeat (rewrite ?bind_ok; rewrite write_line_ok; cbv beta iota; cbn [bind]).
      {
      assert (HP := Hok (Some [lr; lg; lb]) Ewhb eq_refl (eq_trans (f_equal (fun x => do rgb <- x; Ok (Some rgb)) El) eq_refl)). destruct HP as ((Hrs & HrW & HrH & Hry) & Hsingles & Hpath).
      rewrite ?bind_ok. rewrite (Hrest Hry).
      destruct (first_line_y matrix (inject_Z b) y (-1 # 1)%Q Hm) as (l0 & r0 & Els & _). fold ls in Els.
      rewrite match_nonempty by (rewrite Els; discriminate).
      f_equal. unfold F0, py_stream_new.
      rewrite ?(vnum_str_pn ext_q _ Hrs), ?(vnum_str_pn ext_q W HrW), ?(vnum_str_pn ext_q H HrH).
      rewrite ?fmt_f6_byte by assumption.
      change (WL wrap (Vector.join sp pathws)) with (write_lines (wrap (Vector.join sp pathws) 254)). rewrite Hpath.
      repeat match goal with |- context [WL wrap ?c] =>
        rewrite (WL_single wrap c) by (apply Hsingles; unfold eps_singles; rewrite ?Esc; cbn [app]; repeat first [left; reflexivity | right])
      end.
      unfold write_lines. rewrite !flat_map_app. cbn [flat_map]. rewrite ?Esc. cbn [flat_map app].
      unfold eps_date, eps_color_words, Vector.CREATOR, SrcTables.CREATOR, sp, nl. cbn [map Vector.join app]. eval_lit.
      repeat first [rewrite <- app_assoc | progress cbn [app]]. reflexivity.
      }
      {
      assert (HP := Hok (Some [lr; lg; lb]) Ewhb eq_refl (eq_trans (f_equal (fun x => do rgb <- x; Ok (Some rgb)) El) eq_refl)). destruct HP as ((Hrs & HrW & HrH & Hry) & Hsingles & Hpath).
      rewrite ?bind_ok. rewrite (Hrest Hry).
      destruct (first_line_y matrix (inject_Z b) y (-1 # 1)%Q Hm) as (l0 & r0 & Els & _). fold ls in Els.
      rewrite match_nonempty by (rewrite Els; discriminate).
      f_equal. unfold F0, py_stream_new.
      rewrite ?(vnum_str_pn ext_q _ Hrs), ?(vnum_str_pn ext_q W HrW), ?(vnum_str_pn ext_q H HrH).
      rewrite ?fmt_f6_byte by assumption.
      change (WL wrap (Vector.join sp pathws)) with (write_lines (wrap (Vector.join sp pathws) 254)). rewrite Hpath.
      repeat match goal with |- context [WL wrap ?c] =>
        rewrite (WL_single wrap c) by (apply Hsingles; unfold eps_singles; rewrite ?Esc; cbn [app]; repeat first [left; reflexivity | right])
      end.
      unfold write_lines. rewrite !flat_map_app. cbn [flat_map]. rewrite ?Esc. cbn [flat_map app].
      unfold eps_date, eps_color_words, Vector.CREATOR, SrcTables.CREATOR, sp, nl. cbn [map Vector.join app]. eval_lit.
      repeat first [rewrite <- app_assoc | progress cbn [app]]. reflexivity.
      }
  - cbn [bind]. destruct blk.
    +
      assert (stroke = []) by (inversion Estroke; reflexivity). subst stroke.
      cbn [negb]. repeat (rewrite ?bind_ok; rewrite write_line_ok; cbv beta iota; cbn [bind]).
      rewrite vnum_ne_one. destruct (pn_ne_one scale) eqn:Esc; repeat (rewrite ?bind_ok; rewrite write_line_ok; cbv beta iota; cbn [bind]).
      {
      assert (HP := Hok None Ewhb eq_refl eq_refl). destruct HP as ((Hrs & HrW & HrH & Hry) & Hsingles & Hpath).
      rewrite ?bind_ok. rewrite (Hrest Hry).
      destruct (first_line_y matrix (inject_Z b) y (-1 # 1)%Q Hm) as (l0 & r0 & Els & _). fold ls in Els.
      rewrite match_nonempty by (rewrite Els; discriminate).
      f_equal. unfold F0, py_stream_new.
      rewrite ?(vnum_str_pn ext_q _ Hrs), ?(vnum_str_pn ext_q W HrW), ?(vnum_str_pn ext_q H HrH).
      rewrite ?fmt_f6_byte by assumption.
      change (WL wrap (Vector.join sp pathws)) with (write_lines (wrap (Vector.join sp pathws) 254)). rewrite Hpath.
      repeat match goal with |- context [WL wrap ?c] =>
        rewrite (WL_single wrap c) by (apply Hsingles; unfold eps_singles; rewrite ?Esc; cbn [app]; repeat first [left; reflexivity | right])
      end.
      unfold write_lines. rewrite !flat_map_app. cbn [flat_map]. rewrite ?Esc. cbn [flat_map app].
      unfold eps_date, eps_color_words, Vector.CREATOR, SrcTables.CREATOR, sp, nl. cbn [map Vector.join app]. eval_lit.
      repeat first [rewrite <- app_assoc | progress cbn [app]]. reflexivity.
      }
      {
      assert (HP := Hok None Ewhb eq_refl eq_refl). destruct HP as ((Hrs & HrW & HrH & Hry) & Hsingles & Hpath).
      rewrite ?bind_ok. rewrite (Hrest Hry).
      destruct (first_line_y matrix (inject_Z b) y (-1 # 1)%Q Hm) as (l0 & r0 & Els & _). fold ls in Els.
      rewrite match_nonempty by (rewrite Els; discriminate).
      f_equal. unfold F0, py_stream_new.
      rewrite ?(vnum_str_pn ext_q _ Hrs), ?(vnum_str_pn ext_q W HrW), ?(vnum_str_pn ext_q H HrH).
      rewrite ?fmt_f6_byte by assumption.
      change (WL wrap (Vector.join sp pathws)) with (write_lines (wrap (Vector.join sp pathws) 254)). rewrite Hpath.
      repeat match goal with |- context [WL wrap ?c] =>
        rewrite (WL_single wrap c) by (apply Hsingles; unfold eps_singles; rewrite ?Esc; cbn [app]; repeat first [left; reflexivity | right])
      end.
      unfold write_lines. rewrite !flat_map_app. cbn [flat_map]. rewrite ?Esc. cbn [flat_map app].
      unfold eps_date, eps_color_words, Vector.CREATOR, SrcTables.CREATOR, sp, nl. cbn [map Vector.join app]. eval_lit.
      repeat first [rewrite <- app_assoc | progress cbn [app]]. reflexivity.
      }
    +
      destruct (Hstroke3 eq_refl) as (sr & sg & sb & -> & Hsr & Hsg & Hsb).
      cbn [negb map]. cbv iota.
      change (nthZ [c255 sr; c255 sg; c255 sb] 0) with (Ok (c255 sr)).
      change (nthZ [c255 sr; c255 sg; c255 sb] 1) with (Ok (c255 sg)).
      change (nthZ [c255 sr; c255 sg; c255 sb] 2) with (Ok (c255 sb)). cbn [bind].
      repeat (rewrite ?bind_ok; rewrite write_line_ok; cbv beta iota; cbn [bind]).
      rewrite vnum_ne_one. destruct (pn_ne_one scale) eqn:Esc; repeat (rewrite ?bind_ok; rewrite write_line_ok; cbv beta iota; cbn [bind]).
      {
      assert (HP := Hok None Ewhb eq_refl eq_refl). destruct HP as ((Hrs & HrW & HrH & Hry) & Hsingles & Hpath).
      rewrite ?bind_ok. rewrite (Hrest Hry).
      destruct (first_line_y matrix (inject_Z b) y (-1 # 1)%Q Hm) as (l0 & r0 & Els & _). fold ls in Els.
      rewrite match_nonempty by (rewrite Els; discriminate).
      f_equal. unfold F0, py_stream_new.
      rewrite ?(vnum_str_pn ext_q _ Hrs), ?(vnum_str_pn ext_q W HrW), ?(vnum_str_pn ext_q H HrH).
      rewrite ?fmt_f6_byte by assumption.
      change (WL wrap (Vector.join sp pathws)) with (write_lines (wrap (Vector.join sp pathws) 254)). rewrite Hpath.
      repeat match goal with |- context [WL wrap ?c] =>
        rewrite (WL_single wrap c) by (apply Hsingles; unfold eps_singles; rewrite ?Esc; cbn [app]; repeat first [left; reflexivity | right])
      end.
      unfold write_lines. rewrite !flat_map_app. cbn [flat_map]. rewrite ?Esc. cbn [flat_map app].
      unfold eps_date, eps_color_words, Vector.CREATOR, SrcTables.CREATOR, sp, nl. cbn [map Vector.join app]. eval_lit.
      repeat first [rewrite <- app_assoc | progress cbn [app]]. reflexivity.
      }
      {
      assert (HP := Hok None Ewhb eq_refl eq_refl). destruct HP as ((Hrs & HrW & HrH & Hry) & Hsingles & Hpath).
      rewrite ?bind_ok. rewrite (Hrest Hry).
      destruct (first_line_y matrix (inject_Z b) y (-1 # 1)%Q Hm) as (l0 & r0 & Els & _). fold ls in Els.
      rewrite match_nonempty by (rewrite Els; discriminate).
      f_equal. unfold F0, py_stream_new.
      rewrite ?(vnum_str_pn ext_q _ Hrs), ?(vnum_str_pn ext_q W HrW), ?(vnum_str_pn ext_q H HrH).
      rewrite ?fmt_f6_byte by assumption.
      change (WL wrap (Vector.join sp pathws)) with (write_lines (wrap (Vector.join sp pathws) 254)). rewrite Hpath.
      repeat match goal with |- context [WL wrap ?c] =>
        rewrite (WL_single wrap c) by (apply Hsingles; unfold eps_singles; rewrite ?Esc; cbn [app]; repeat first [left; reflexivity | right])
      end.
      unfold write_lines. rewrite !flat_map_app. cbn [flat_map]. rewrite ?Esc. cbn [flat_map app].
      unfold eps_date, eps_color_words, Vector.CREATOR, SrcTables.CREATOR, sp, nl. cbn [map Vector.join app]. eval_lit.
      repeat first [rewrite <- app_assoc | progress cbn [app]]. reflexivity.
      }

Qed.

(* every error case, without any hypothesis about the parameters: invalid scale / border, malformed colours *)
Corollary src_write_eps_error :
  forall ext_q strf wrap matrix w h scale border dark light e,
  matrix <> [] ->
  Vector.write_eps matrix w h (eps_date strf) scale border dark light = Err e ->
  src_write_eps ext_q strf wrap matrix [w; h] (to_vnum scale) border (to_py_color dark) (option_map to_py_color light) = Err e.
Proof.
  intros ext_q strf wrap matrix w h scale border dark light e Hm He.
  rewrite (src_write_eps_gen ext_q strf wrap); [exact He|exact Hm|].
  intros W H b stroke fill E1 E2 E3. exfalso.
  unfold Vector.write_eps in He. rewrite E1 in He. cbn [bind] in He.
  unfold eps_stroke_res in E2. rewrite E2 in He. cbn [bind] in He.
  unfold eps_fill_res in E3. rewrite E3 in He. cbn [bind] in He. cbv zeta in He.
  destruct (first_line_y matrix (inject_Z b) (inject_Z (h + b) - (1 # 2))%Q (-1 # 1)%Q Hm) as (l0 & r0 & Els & _).
  rewrite Els in He. discriminate.
Qed.

(* ------------------------------------------------------------------ 5. the empty matrix *)
(* Python: StopIteration at next(line_iter), after the header has been written.  PyLite.exn has no such constructor: the
   translation reports PySemSeg.py_stop_iteration (= TypeErr), Model/Vector.v reports AssertErr, in that single case (every
   other error of the model is ValueError).  Up to this renaming of the stand-in the translated function is the model on [] too,
   for all arguments and WITHOUT any hypothesis about the parameters. *)
Definition stop_as (r : res (list Z)) : res (list Z) := match r with Err AssertErr => Err py_stop_iteration | _ => r end.

Lemma valid_whb_err_eps w h scale border e : valid_width_height_and_border w h scale border = Err e -> e = ValueError.
Proof.
  unfold valid_width_height_and_border, Iter.check_valid_scale, Iter.check_valid_border.
  destruct (q_lebz (q_of scale) 0); cbn [bind]; [intros E; now inversion E|].
  destruct border as [b|]; cbn [option_map bind]; [|discriminate].
  destruct (negb _ || _); cbn [bind]; [intros E; now inversion E|discriminate].
Qed.

Theorem src_write_eps_empty :
  forall ext_q strf wrap w h scale border dark light,
  src_write_eps ext_q strf wrap [] [w; h] (to_vnum scale) border (to_py_color dark) (option_map to_py_color light)
  = stop_as (Vector.write_eps [] w h (eps_date strf) scale border dark light).
Proof.
  intros ext_q strf wrap w h scale border dark light.
  unfold src_write_eps, Vector.write_eps. cbv zeta beta.
  rewrite src_valid_whb_v_is_model.
  destruct (valid_width_height_and_border w h scale border) as [[[W H] b]|e] eqn:Ewhb; cbn [bind whb_v].
  2:{ rewrite (valid_whb_err_eps _ _ _ _ _ Ewhb). reflexivity. }
  rewrite src_color_is_black_is_model. cbn [bind].
  remember (color_is_black dark) as blk eqn:Eblk.
  match goal with |- bind ?X _ = _ =>
    assert (HX : X = do s <- (if blk then Ok [] else color_to_rgb dark);
                     Ok (if blk then inl (to_py_color dark) else inr (map c255 s))) end.
  { destruct blk; [reflexivity|]. rewrite src_to_floats_is_model. destruct (color_to_rgb dark); reflexivity. }
  rewrite HX. clear HX.
  destruct (if blk then Ok [] else color_to_rgb dark) as [stroke|e] eqn:Estroke; cbn [bind].
  2:{ assert (e = ValueError) by (destruct blk; [discriminate|]; eapply NetpbmLemmas.color_to_rgb_err; eassumption).
      subst e. reflexivity. }
  assert (Hstroke3 : blk = false -> exists r g b0, stroke = [r; g; b0] /\ 0 <= r <= 255 /\ 0 <= g <= 255 /\ 0 <= b0 <= 255).
  { intros Eb. rewrite Eb in Estroke. now apply rgb3 in Estroke. }
  repeat (rewrite ?bind_ok; rewrite write_line_ok; cbv beta iota; cbn [bind]).
  match goal with |- bind ?X1 (fun c => bind (@?X2 c) (fun c2 => bind (@?X3 c2) ?R)) = _ => set (rest := R) end.
  assert (Hrest : forall f, rest f = Err py_stop_iteration).
  { intros f. subst rest. cbv beta.
    rewrite write_line_ok; cbv beta iota; cbn [bind].
    rewrite src_get_symbol_size_v_unit. cbn [bind].
    match goal with |- context [py_index [?a; ?b0] 1] => change (py_index [a; b0] 1) with (Ok b0) end. cbn [bind].
    cbn [py_vnum_add py_vnum_sub py_vnum_bin py_vnum_q py_vnum_is_float].
    change (inject_Z (-1)) with (-1 # 1)%Q.
    rewrite lines_tag_is_model. cbn [bind]. reflexivity. }
  clearbody rest.
  destruct light as [cl|]; cbn [option_map].
  - rewrite src_to_floats_is_model.
    destruct (color_to_rgb cl) as [rgbl|e] eqn:El; cbn [bind].
    2:{ rewrite (NetpbmLemmas.color_to_rgb_err _ _ El). reflexivity. }
    destruct (rgb3 cl rgbl El) as (lr & lg & lb & -> & Hlr & Hlg & Hlb).
    cbn [map].
    change (nthZ [c255 lr; c255 lg; c255 lb] 0) with (Ok (c255 lr)).
    change (nthZ [c255 lr; c255 lg; c255 lb] 1) with (Ok (c255 lg)).
    change (nthZ [c255 lr; c255 lg; c255 lb] 2) with (Ok (c255 lb)). cbn [bind].
    rewrite write_line_ok; cbv beta iota; cbn [bind].
    destruct blk.
    + cbn [negb]. repeat (rewrite ?bind_ok; rewrite write_line_ok; cbv beta iota; cbn [bind]).
      rewrite vnum_ne_one. destruct (pn_ne_one scale);
        repeat (rewrite ?bind_ok; rewrite write_line_ok; cbv beta iota; cbn [bind]); rewrite ?bind_ok, Hrest; reflexivity.
    + destruct (Hstroke3 eq_refl) as (sr & sg & sb & -> & Hsr & Hsg & Hsb).
      cbn [negb map]. cbv iota.
      change (nthZ [c255 sr; c255 sg; c255 sb] 0) with (Ok (c255 sr)).
      change (nthZ [c255 sr; c255 sg; c255 sb] 1) with (Ok (c255 sg)).
      change (nthZ [c255 sr; c255 sg; c255 sb] 2) with (Ok (c255 sb)). cbn [bind].
      repeat (rewrite ?bind_ok; rewrite write_line_ok; cbv beta iota; cbn [bind]).
      rewrite vnum_ne_one. destruct (pn_ne_one scale);
        repeat (rewrite ?bind_ok; rewrite write_line_ok; cbv beta iota; cbn [bind]); rewrite ?bind_ok, Hrest; reflexivity.
  - cbn [bind]. destruct blk.
    + cbn [negb]. repeat (rewrite ?bind_ok; rewrite write_line_ok; cbv beta iota; cbn [bind]).
      rewrite vnum_ne_one. destruct (pn_ne_one scale);
        repeat (rewrite ?bind_ok; rewrite write_line_ok; cbv beta iota; cbn [bind]); rewrite ?bind_ok, Hrest; reflexivity.
    + destruct (Hstroke3 eq_refl) as (sr & sg & sb & -> & Hsr & Hsg & Hsb).
      cbn [negb map]. cbv iota.
      change (nthZ [c255 sr; c255 sg; c255 sb] 0) with (Ok (c255 sr)).
      change (nthZ [c255 sr; c255 sg; c255 sb] 1) with (Ok (c255 sg)).
      change (nthZ [c255 sr; c255 sg; c255 sb] 2) with (Ok (c255 sb)). cbn [bind].
      repeat (rewrite ?bind_ok; rewrite write_line_ok; cbv beta iota; cbn [bind]).
      rewrite vnum_ne_one. destruct (pn_ne_one scale);
        repeat (rewrite ?bind_ok; rewrite write_line_ok; cbv beta iota; cbn [bind]); rewrite ?bind_ok, Hrest; reflexivity.
Qed.

Print Assumptions src_write_eps_gen.
Print Assumptions src_write_eps_error.
Print Assumptions src_write_eps_empty.
