(* Bridge theorems: matrix_iter_verbose of segno/utils.py.  Its nested function get_bit is translated by gen/translate.py
   (SrcFuns.src_get_bit, a function of the variables it captures), its outer structure -- argument checks, the alignment
   matrix built with encoder.make_matrix / encoder.add_alignment_patterns, the two loops around `yield` -- by
   gen/translate_utils.py (SrcUtilsVerbose.src_matrix_iter_verbose, which calls src_get_bit with the captured variables
   and the translations of the two encoder functions from SrcFnPat.v).  Both equal the hand-written model Model/Iter.v
   for ALL arguments.  Re-checked by coqc on every run.  See DESIGN.md 11.8. *)
From Coq Require Import ZArith QArith List Bool Lia.
From Segno Require Import Base.PyLite Base.PySem Base.PySemGen Ref.IsoData Model.Iter.
From Segno Require Import Tie.TieUtils Tie.TieUtilsIter.
From SegnoSrc Require SrcFuns.
From SegnoSrc Require Import SrcUtils SrcFnPat SrcUtilsVerbose.
Import ListNotations.
Open Scope Z_scope.

(* ------------------------------------------------------------------ 1. the closure get_bit *)
Theorem src_get_bit_is_model : forall (m am : Z -> Z -> Z) (w h : Z) (sq mi : bool) (i j : Z),
  SrcFuns.src_get_bit m am w h sq mi i j = Iter.get_bit m am w h sq mi i j.
Proof.
  intros m am w h sq mi i j. unfold SrcFuns.src_get_bit, Iter.get_bit. cbv beta zeta.
  rewrite !Z.gtb_ltb.
  destruct mi, sq; cbn [negb andb orb]; rewrite ?andb_assoc, ?orb_assoc;
    destruct ((0 <=? i) && (i <? h) && (0 <=? j) && (j <? w)); try reflexivity;
    destruct (am i j =? 2); cbn [negb andb orb]; try reflexivity;
    destruct (41 <? w); cbn [negb andb orb]; try reflexivity;
    repeat match goal with
           | |- (if ?c then _ else _) = (if ?c then _ else _) => destruct c; [reflexivity|]
           | |- (if ?c then _ else _) = (if ?c && ?d then _ else _) => destruct c; cbn [andb]
           end; try reflexivity.
Qed.

(* ------------------------------------------------------------------ 2. the generator around it *)
Lemma py_tab_is_mcell (m : list (list Z)) : py_tab m = mcell m.
Proof. reflexivity. Qed.

Theorem src_matrix_iter_verbose_is_model : forall (matrix : list (list Z)) (w h : Z) (scale : pynum) (border : option Z),
  src_matrix_iter_verbose matrix [w; h] (q_of scale) border =
  (do _ <- Iter.check_valid_border (option_map PInt border);
   do _ <- Iter.check_valid_scale (PInt (py_int scale));
   do am0 <- src_make_matrix w h false false;
   do am <- src_add_alignment_patterns am0 w h;
   Ok (Iter.iter_verbose_rows matrix am w h (py_int scale) (Iter.get_border w h border))).
Proof.
  intros matrix w h scale border. unfold src_matrix_iter_verbose. cbv zeta.
  rewrite src_check_valid_border_int.
  destruct (check_valid_border (option_map PInt border)) as [[]|e]; cbn [bind]; [|reflexivity].
  rewrite py_int_q_of. set (s := py_int scale).
  change (inject_Z s) with (q_of (PInt s)). rewrite src_check_valid_scale_is_model.
  destruct (check_valid_scale (PInt s)) as [[]|e]; cbn [bind]; [|reflexivity].
  rewrite src_get_border_is_model. cbn [bind py_unpack2].
  set (b := get_border w h border).
  destruct (src_make_matrix w h false false) as [am0|e]; cbn [bind]; [|reflexivity].
  destruct (src_add_alignment_patterns am0 w h) as [am|e]; cbn [bind]; [|reflexivity].
  set (cell := fun i j => get_bit (mcell matrix) (mcell am) w h (w =? h) ((w =? h) && (w <? 21)) i j).
  set (rowf := fun i => repeat_each s (map (cell i) (zrange (- b) (w + b)))).
  erewrite py_for_yield with (g := fun i => repeat (rowf i) (Z.to_nat s)).
  - cbn [app]. unfold iter_verbose_rows, repeat_each at 1. cbv zeta. fold cell. now rewrite flat_map_map.
  - intros i acc _.
    rewrite (map_ext _ (fun j => py_it_repeat (cell i j) s)).
    + rewrite py_chain_repeat. fold (rowf i).
      rewrite (yield_row_loop (rowf i) s); [reflexivity|]. intros; reflexivity.
    + intros j. rewrite src_get_bit_is_model. reflexivity.
Qed.

Print Assumptions src_get_bit_is_model.
Print Assumptions src_matrix_iter_verbose_is_model.
