(* Bridge theorems: functions translated from the CURRENT source (SegnoSrc.SrcFuns) against the
   reference definitions, over their complete finite domains. Re-checked by coqc on every run. *)
From Coq Require Import ZArith List Bool Lia.
From Segno Require Import Base.PyLite Ref.MaskCond Ref.Geometry.
From SegnoSrc Require Import SrcFuns.
Import ListNotations.
Open Scope Z_scope.

Definition src_mask (micro : bool) (k : Z) : Z -> Z -> bool :=
  nth (Z.to_nat k) (if micro then src_mask_fns_micro else src_mask_fns_qr) (fun _ _ => false).

Lemma mask_count : length src_mask_fns_qr = 8%nat /\ length src_mask_fns_micro = 4%nat.
Proof. split; reflexivity. Qed.

Lemma masks_qr_ok :
  forallb (fun k => forallb (fun i => forallb (fun j =>
     Bool.eqb (src_mask false k i j) (iso_mask_for false k i j)) (zrange 0 177)) (zrange 0 177)) (zrange 0 8) = true.
Proof. vm_compute. reflexivity. Qed.
Lemma masks_micro_ok :
  forallb (fun k => forallb (fun i => forallb (fun j =>
     Bool.eqb (src_mask true k i j) (iso_mask_for true k i j)) (zrange 0 17)) (zrange 0 17)) (zrange 0 4) = true.
Proof. vm_compute. reflexivity. Qed.

Definition nmasks (micro : bool) : Z := if micro then 4 else 8.
Definition maxsize (micro : bool) : Z := if micro then 17 else 177.
Theorem src_masks_are_iso micro k i j :
  0 <= k < nmasks micro -> 0 <= i < maxsize micro -> 0 <= j < maxsize micro ->
  src_mask micro k i j = iso_mask_for micro k i j.
Proof.
  destruct micro; unfold nmasks, maxsize; intros Hk Hi Hj.
  - pose proof masks_micro_ok as H. rewrite forallb_forall in H. specialize (H k (zrange_In _ _ _ Hk)).
    rewrite forallb_forall in H. specialize (H i (zrange_In _ _ _ Hi)).
    rewrite forallb_forall in H. specialize (H j (zrange_In _ _ _ Hj)). now apply Bool.eqb_prop in H.
  - pose proof masks_qr_ok as H. rewrite forallb_forall in H. specialize (H k (zrange_In _ _ _ Hk)).
    rewrite forallb_forall in H. specialize (H i (zrange_In _ _ _ Hi)).
    rewrite forallb_forall in H. specialize (H j (zrange_In _ _ _ Hj)). now apply Bool.eqb_prop in H.
Qed.

Lemma size_ok : forallb (fun v => src_calc_matrix_size v =? size_of_version v) all_versions = true.
Proof. vm_compute. reflexivity. Qed.
Theorem src_size_is_iso v : -3 <= v <= 40 -> src_calc_matrix_size v = size_of_version v.
Proof.
  intros Hv. pose proof size_ok as H. rewrite forallb_forall in H.
  apply Z.eqb_eq. apply H. apply zrange_In. lia.
Qed.
