(* Bridge theorems: encode() of segno/encoder.py, translated statement by statement from the CURRENT source
   (SegnoSrc.SrcEncodeTop, written by gen/translate_glue.py) for content given as bytes / as a list of items and error,
   version, mode, mask given as None or ints, equals the hand-written model Model/Args.v [encode_args] up to the final call of
   _encode: every argument check (Micro QR + `micro=False`, non-Micro version + `micro=True`, mode / version
   compatibility, level H or ECI with Micro QR, data overflow against the requested version, the capacity check after the
   version is fixed, the mask range) is made in the same order with the same exception, and _encode is called on
   [to_py_segs] of the model's segments with the model's error / version / mask.  Composed with Tie/TieEncodeFinal.v
   (src_encode_is_encode_core) this gives the whole of encode() = encode_args.  Re-checked by coqc on every run.
   See DESIGN.md 11.11. *)
From Coq Require Import String.
From Coq Require Import ZArith List Bool Lia ZifyBool.
From Segno Require Import Base.PyLite Base.PySem Base.PySemSeg Base.PySemGlue Ref.IsoData Model.Bits Model.Segment Model.Version
  Model.Stream Model.Matrix Model.Encode Model.Color Model.Args.
From Segno Require Tie.TieTables.
From Segno Require Import Tie.TieBase Tie.TieVersion Tie.TieFit Tie.TieMode Tie.TieSegMake Tie.TieSegments Tie.TieNorm.
From Segno Require Import Tie.TieMaskScores Tie.TieEncodeFinal.
From SegnoSrc Require SrcTables.
From SegnoSrc Require Import SrcVersion SrcFit SrcMode SrcSegMake SrcEncode SrcMaskScores SrcSegments SrcNorm SrcEncodeTop.
Import ListNotations.
Open Scope Z_scope.

Definition pyval_of_obool (v : option bool) : pyval := match v with None => VNone | Some b => VBool b end.

(* ------------------------------------------------------------------ 0. the model with its last step as a parameter *)
(* Args.encode_args, literally, except that the final `encode_core segs error version mask eci boost_error None` is [k] *)
Definition encode_args_k {R} (k : list segment -> option Z -> Z -> option Z -> res R)
           (parts_of_mode : option Z -> list part) (error version mode mask : pyval) (eci : bool) (micro : pyval) : res R :=
  do version <- normalize_version version;
  let in_micro v := match v with Some x => memZ x MICRO_VERSIONS | None => false end in
  let mic := micro_of micro in
  if (match mic with Some false => true | _ => false end) && in_micro version then Err ValueError else
  if otruthy mic && (match version with Some x => negb (memZ x MICRO_VERSIONS) | None => false end) then Err ValueError else
  do error <- normalize_errorlevel error true;
  do mode <- normalize_mode mode;
  do _ <- (match mode, version with
           | Some m, Some v => do b <- is_mode_supported m v; if b then Ok tt else Err ValueError
           | _, _ => Ok tt end);
  if oz_eqb error (Some ERROR_LEVEL_H) && (otruthy mic || in_micro version) then Err ValueError else
  if eci && (otruthy mic || in_micro version) then Err ValueError else
  do segs <- prepare_data (parts_of_mode mode);
  do guessed <- find_version segs error eci mic false;
  do version <- (match version with
                 | None => Ok guessed
                 | Some v => if v <? guessed then Err DataOverflow else Ok v end);
  let error := match error with None => if version =? VERSION_M1 then None else Some ERROR_LEVEL_L | e => e end in
  do cap <- capacity version error;
  do len <- bit_length_with_overhead segs version eci false;
  if cap <? len then Err DataOverflow else
  do mask <- normalize_mask mask (version <? 1);
  k segs error version mask.

Lemma encode_args_is_k pom error version mode mask eci micro boost :
  encode_args pom error version mode mask eci micro boost
  = encode_args_k (fun segs e v mk => encode_core segs e v mk eci boost None) pom error version mode mask eci micro.
Proof. reflexivity. Qed.

(* what the last step may assume about its arguments *)
Lemma encode_args_k_ext {R} (k1 k2 : list segment -> option Z -> Z -> option Z -> res R) pom error version mode mask eci micro :
  (forall m segs e v mk c, prepare_data (pom m) = Ok segs -> capacity v e = Ok c ->
                           normalize_mask mask (v <? 1) = Ok mk -> k1 segs e v mk = k2 segs e v mk) ->
  encode_args_k k1 pom error version mode mask eci micro = encode_args_k k2 pom error version mode mask eci micro.
Proof.
  intros Hk. unfold encode_args_k.
  destruct (normalize_version version) as [v0|]; cbn [bind]; [|reflexivity]. cbv zeta.
  destruct (_ && _); [reflexivity|]. destruct (_ && _); [reflexivity|].
  destruct (normalize_errorlevel error true) as [e0|]; cbn [bind]; [|reflexivity].
  destruct (normalize_mode mode) as [m0|]; cbn [bind]; [|reflexivity].
  destruct (match m0 with Some m => _ | None => _ end) as [[]|]; cbn [bind]; [|reflexivity].
  destruct (_ && _); [reflexivity|]. destruct (_ && _); [reflexivity|].
  destruct (prepare_data (pom m0)) as [segs|] eqn:Ep; cbn [bind]; [|reflexivity].
  destruct (find_version segs e0 eci (micro_of micro) false) as [g|]; cbn [bind]; [|reflexivity].
  destruct (match v0 with Some v => _ | None => _ end) as [v1|]; cbn [bind]; [|reflexivity].
  destruct (capacity v1 _) as [cap|] eqn:Ec; cbn [bind]; [|reflexivity].
  destruct (bit_length_with_overhead segs v1 eci false) as [len|]; cbn [bind]; [|reflexivity].
  destruct (cap <? len); [reflexivity|].
  destruct (normalize_mask mask (v1 <? 1)) as [mk|] eqn:Em; cbn [bind]; [|reflexivity].
  eapply Hk; eassumption.
Qed.

Lemma encode_args_k_bind {R S} (k : list segment -> option Z -> Z -> option Z -> res R) (g : R -> res S)
      pom error version mode mask eci micro :
  (do x <- encode_args_k k pom error version mode mask eci micro; g x)
  = encode_args_k (fun segs e v mk => do x <- k segs e v mk; g x) pom error version mode mask eci micro.
Proof.
  unfold encode_args_k.
  destruct (normalize_version version) as [v0|]; cbn [bind]; [|reflexivity]. cbv zeta.
  destruct (_ && _); [reflexivity|]. destruct (_ && _); [reflexivity|].
  destruct (normalize_errorlevel error true) as [e0|]; cbn [bind]; [|reflexivity].
  destruct (normalize_mode mode) as [m0|]; cbn [bind]; [|reflexivity].
  destruct (match m0 with Some m => _ | None => _ end) as [[]|]; cbn [bind]; [|reflexivity].
  destruct (_ && _); [reflexivity|]. destruct (_ && _); [reflexivity|].
  destruct (prepare_data (pom m0)) as [segs|]; cbn [bind]; [|reflexivity].
  destruct (find_version segs e0 eci (micro_of micro) false) as [gv|]; cbn [bind]; [|reflexivity].
  destruct (match v0 with Some v => _ | None => _ end) as [v1|]; cbn [bind]; [|reflexivity].
  destruct (capacity v1 _) as [cap|]; cbn [bind]; [|reflexivity].
  destruct (bit_length_with_overhead segs v1 eci false) as [len|]; cbn [bind]; [|reflexivity].
  destruct (cap <? len); [reflexivity|].
  destruct (normalize_mask mask (v1 <? 1)) as [mk|]; cbn [bind]; reflexivity.
Qed.

(* ------------------------------------------------------------------ 1. facts about versions *)
Definition valid_version (v : Z) : bool := (0 <? v) && (v <? 41) || memZ v MICRO_VERSIONS.

Lemma valid_version_range v : valid_version v = true <-> -3 <= v <= 40.
Proof.
  unfold valid_version, memZ, MICRO_VERSIONS. cbn [existsb]. split.
  - intros H. lia.
  - intros H. lia.
Qed.

Lemma normalize_version_valid pv v : normalize_version pv = Ok (Some v) -> valid_version v = true.
Proof.
  unfold normalize_version, valid_version. destruct pv as [|b|z|s]; [discriminate| | |].
  all: match goal with |- context [match ?r with Some _ => _ | None => Err ValueError end] => destruct r as [w|] end;
       [|discriminate].
  all: destruct ((0 <? w) && (w <? 41) || memZ w MICRO_VERSIONS) eqn:E; [|discriminate].
  all: intros [= <-]; exact E.
Qed.

Lemma capacity_keys_valid :
  forallb (fun row => valid_version (fst row)) SYMBOL_CAPACITY = true.
Proof. vm_compute. reflexivity. Qed.

Lemma capacity_ok_valid v e c : capacity v e = Ok c -> valid_version v = true.
Proof.
  unfold capacity, getZ. destruct (assocZ v SYMBOL_CAPACITY) as [row|] eqn:Er; cbn [bind]; [|discriminate]. intros _.
  pose proof capacity_keys_valid as H. rewrite forallb_forall in H. exact (H _ (assocZ_In' _ _ _ Er)).
Qed.

Lemma find_version_loop_valid segs eci is_sa : forall vs error g,
  find_version_loop segs eci is_sa vs error = Ok g -> valid_version g = true.
Proof.
  induction vs as [|v r IH]; intros error g; cbn [find_version_loop]; [discriminate|]. cbv zeta.
  set (error' := match error with None => if v =? VERSION_M1 then None else Some ERROR_LEVEL_L | e => e end).
  destruct (capacity v error') as [cap|[]] eqn:Ec; try discriminate; [|apply IH].
  destruct (bit_length_with_overhead segs v eci is_sa) as [len|[]]; try discriminate; [|apply IH].
  destruct (len <=? cap); [|apply IH]. intros [= <-]. exact (capacity_ok_valid _ _ _ Ec).
Qed.

Lemma find_version_valid segs error eci micro is_sa g :
  find_version segs error eci micro is_sa = Ok g -> valid_version g = true.
Proof.
  unfold find_version. destruct (eci && otruthy micro); [discriminate|]. cbv zeta.
  match goal with |- bind ?M _ = _ -> _ => destruct M as [mv|]; cbn [bind]; [|discriminate] end.
  apply find_version_loop_valid.
Qed.

Lemma name_effect_valid v : valid_version v = true -> src_get_version_name_effect (Some v) = Ok tt.
Proof. intros H. rewrite src_get_version_name_effect_spec. fold (valid_version v). now rewrite H. Qed.

Lemma name_effect_in_message {A} (v : Z) (k : unit -> res A) :
  (forall u, k u = Err ValueError) -> (do u <- src_get_version_name_effect (Some v); k u) = Err ValueError.
Proof.
  intros Hk. rewrite src_get_version_name_effect_spec. destruct (_ || _); cbn [bind]; [apply Hk|reflexivity].
Qed.

(* ------------------------------------------------------------------ 2. encode() with the preparation of the data as a parameter *)
(* the generated text of src_encode_bytes / src_encode_items with `src_prepare_data_* content mode encoding` replaced by
   [prep mode]; checked against the generated text by conversion below *)
Definition src_encode_generic (prep : option Z -> res py_segs)
    (ext_get_eci_assignment_number : option String.string -> res Z) (ext_evaluate_mask : list (list Z) -> Z -> Z -> res Z)
    (error version mode mask : option Z) (eci : bool) (micro : option bool) (boost_error : bool)
    : res (list (list Z) * Z * option Z * Z * py_segs) :=
 (do t'1 <- (src_normalize_version_int version);
 (let version := t'1 in
 (do _ <- (if (andb (negb (match micro with None => false | Some x_ => x_ end)) (match micro with Some micro => (orb (match version with Some x_ => Z.eqb x_ (-3) | None => false end) (orb (match version with Some x_ => Z.eqb x_ (-2) | None => false end) (orb (match version with Some x_ => Z.eqb x_ (-1) | None => false end) (orb (match version with Some x_ => Z.eqb x_ 0 | None => false end) false)))) | None => false end))
 then (do t'2 <- (src_get_version_name_effect version);
 Err ValueError)
 else (Ok tt));
 (do _ <- (if (andb (match micro with None => false | Some x_ => x_ end) (match version with Some version => (negb (orb (Z.eqb version (-3)) (orb (Z.eqb version (-2)) (orb (Z.eqb version (-1)) (orb (Z.eqb version 0) false))))) | None => false end))
 then (do t'3 <- (src_get_version_name_effect version);
 Err ValueError)
 else (Ok tt));
 (do t'4 <- (src_normalize_errorlevel_int error true);
 (let error := t'4 in
 (do t'5 <- (src_normalize_mode_int mode);
 (let mode := t'5 in
 (do _ <- (match mode with
 | Some mode => (do _ <- (match version with
 | Some version => (do t'6 <- (src_is_mode_supported mode version);
 (do _ <- (if (negb t'6)
 then (do t'7 <- (src_get_mode_name mode);
 (do t'8 <- (src_get_version_name_effect (Some version));
 Err ValueError))
 else (Ok tt));
 (Ok tt)))
 | None => (Ok tt)
 end);
 (Ok tt))
 | None => (Ok tt)
 end);
 (do _ <- (if (andb (match error with Some x_ => Z.eqb x_ 2 | None => false end) (orb (match micro with None => false | Some x_ => x_ end) (orb (match version with Some x_ => Z.eqb x_ (-3) | None => false end) (orb (match version with Some x_ => Z.eqb x_ (-2) | None => false end) (orb (match version with Some x_ => Z.eqb x_ (-1) | None => false end) (orb (match version with Some x_ => Z.eqb x_ 0 | None => false end) false))))))
 then Err ValueError
 else (Ok tt));
 (do _ <- (if (andb eci (orb (match micro with None => false | Some x_ => x_ end) (orb (match version with Some x_ => Z.eqb x_ (-3) | None => false end) (orb (match version with Some x_ => Z.eqb x_ (-2) | None => false end) (orb (match version with Some x_ => Z.eqb x_ (-1) | None => false end) (orb (match version with Some x_ => Z.eqb x_ 0 | None => false end) false))))))
 then Err ValueError
 else (Ok tt));
 (do t'9 <- (prep mode);
 (let segments := t'9 in
 (do t'10 <- (src_find_version segments error eci micro false);
 (let guessed_version := t'10 in
 (do version <- (match version with
 | Some version => (do _ <- (if (Z.gtb guessed_version version)
 then (do t'11 <- (src_get_version_name_effect (Some version));
 (do t'12 <- (src_get_version_name_effect (Some guessed_version));
 Err DataOverflow))
 else (Ok tt));
 (Ok version))
 | None => (let version := guessed_version in
 (Ok version))
 end);
 (let error := (if (andb (match error with None => true | Some _ => false end) ((fun a b => negb (Z.eqb a b)) version (-3)))
 then (let error := 1 in
 (Some error))
 else error) in
 (do t'13 <- (getZ version SrcTables.SYMBOL_CAPACITY);
 (do t'14 <- (getOZ error t'13);
 (do t'15 <- (src_Segments_bit_length_with_overhead segments version eci false);
 (do _ <- (if (Z.ltb t'14 t'15)
 then (do t'16 <- (src_get_version_name_effect (Some version));
 Err DataOverflow)
 else (Ok tt));
 (let is_micro := (Z.ltb version 1) in
 (do t'17 <- (src_normalize_mask_int mask is_micro);
 (let mask := t'17 in
 (do t'18 <- (src__encode ext_get_eci_assignment_number ext_evaluate_mask segments error version mask eci boost_error None);
 Ok t'18))))))))))))))))))))))))).

Lemma src_encode_bytes_unfold ext_eci ext_eval content error version mode mask encoding eci micro boost :
  src_encode_bytes ext_eci ext_eval content error version mode mask encoding eci micro boost
  = src_encode_generic (fun m => src_prepare_data_bytes content m encoding) ext_eci ext_eval error version mode mask eci micro boost.
Proof. reflexivity. Qed.

Lemma src_encode_items_unfold ext_eci ext_eval content error version mode mask encoding eci micro boost :
  src_encode_items ext_eci ext_eval content error version mode mask encoding eci micro boost
  = src_encode_generic (fun m => src_prepare_data_items content m encoding) ext_eci ext_eval error version mode mask eci micro boost.
Proof. reflexivity. Qed.

Lemma in_micro_src (v : option Z) :
  (match v with Some x_ => x_ =? -3 | None => false end)
  || ((match v with Some x_ => x_ =? -2 | None => false end)
      || ((match v with Some x_ => x_ =? -1 | None => false end) || ((match v with Some x_ => x_ =? 0 | None => false end) || false)))
  = match v with Some x => memZ x MICRO_VERSIONS | None => false end.
Proof. destruct v; reflexivity. Qed.

Theorem src_encode_generic_is_model :
  forall (prep : option Z -> res py_segs) (pom : option Z -> list part) ext_eci ext_eval
         (error version mode mask : option Z) (eci : bool) (micro : option bool) (boost : bool),
  (forall m, prep m = do segs <- prepare_data (pom m); Ok (to_py_segs segs)) ->
  src_encode_generic prep ext_eci ext_eval error version mode mask eci micro boost
  = encode_args_k (fun segs e v mk => src__encode ext_eci ext_eval (to_py_segs segs) e v mk eci boost None)
                  pom (pyval_of_oz error) (pyval_of_oz version) (pyval_of_oz mode) (pyval_of_oz mask) eci (pyval_of_obool micro).
Proof.
  intros prep pom ext_eci ext_eval error version mode mask eci micro boost Hprep.
  unfold src_encode_generic, encode_args_k.
  rewrite src_normalize_version_int_is_model.
  destruct (normalize_version (pyval_of_oz version)) as [v0|ex] eqn:Env; cbn [bind]; [|reflexivity]. cbv zeta.
  assert (Hmic : micro_of (pyval_of_obool micro) = micro) by (destruct micro as [[|]|]; reflexivity). rewrite Hmic.
  rewrite !in_micro_src.
  set (inm := match v0 with Some x => memZ x MICRO_VERSIONS | None => false end).
  assert (Hv0 : forall v, v0 = Some v -> valid_version v = true).
  { intros v ->. exact (normalize_version_valid _ _ Env). }
  (* check 1: a Micro version although micro=False *)
  assert (C1 : (negb (match micro with None => false | Some x_ => x_ end) && match micro with Some _ => inm | None => false end)
               = (match micro with Some false => true | _ => false end) && inm) by (destruct micro as [[|]|]; reflexivity).
  rewrite C1. destruct ((match micro with Some false => true | _ => false end) && inm) eqn:E1.
  { destruct v0 as [v|]; [|unfold inm in E1; rewrite andb_false_r in E1; discriminate].
    rewrite (name_effect_valid v (Hv0 v eq_refl)). reflexivity. }
  cbn [bind].
  (* check 2: micro=True although the version is not a Micro version *)
  assert (C2 : (match micro with None => false | Some x_ => x_ end)
               && match v0 with Some version0 => negb ((version0 =? -3) || ((version0 =? -2) || ((version0 =? -1) || ((version0 =? 0) || false)))) | None => false end
               = otruthy micro && match v0 with Some x => negb (memZ x MICRO_VERSIONS) | None => false end).
  { destruct micro as [[|]|], v0; reflexivity. }
  rewrite C2. destruct (otruthy micro && match v0 with Some x => negb (memZ x MICRO_VERSIONS) | None => false end) eqn:E2.
  { destruct v0 as [v|]; [|rewrite andb_false_r in E2; discriminate].
    rewrite (name_effect_valid v (Hv0 v eq_refl)). reflexivity. }
  cbn [bind].
  rewrite src_normalize_errorlevel_int_is_model.
  destruct (normalize_errorlevel (pyval_of_oz error) true) as [e0|ex]; cbn [bind]; [|reflexivity].
  rewrite src_normalize_mode_int_is_model.
  destruct (normalize_mode (pyval_of_oz mode)) as [m0|ex]; cbn [bind]; [|reflexivity].
  (* check 3: the mode is available in the version *)
  assert (C3 : (match m0 with
                | Some mode0 => do _ <- match v0 with
                                        | Some version0 => do t'6 <- src_is_mode_supported mode0 version0;
                                                           do _ <- (if negb t'6
                                                                    then do t'7 <- src_get_mode_name mode0;
                                                                         do t'8 <- src_get_version_name_effect (Some version0);
                                                                         Err ValueError
                                                                    else Ok tt); Ok tt
                                        | None => Ok tt end; Ok tt
                | None => Ok tt end)
               = match m0, v0 with
                 | Some m, Some v => do b <- is_mode_supported m v; if b then Ok tt else Err ValueError
                 | _, _ => Ok tt end).
  { destruct m0 as [m|], v0 as [v|]; try reflexivity. rewrite src_is_mode_supported_is_model.
    destruct (is_mode_supported m v) as [[|]|ex]; cbn [bind negb]; try reflexivity.
    rewrite get_mode_name_in_message; [reflexivity|]. intros n. now apply name_effect_in_message. }
  rewrite C3. clear C3.
  match goal with |- bind ?M _ = bind ?M _ => destruct M as [[]|ex] end; cbn [bind]; [|reflexivity].
  (* checks 4, 5: level H / ECI with Micro QR *)
  assert (C4 : (match e0 with Some x_ => x_ =? 2 | None => false end) = oz_eqb e0 (Some ERROR_LEVEL_H)) by (destruct e0; reflexivity).
  assert (C5 : (match micro with None => false | Some x_ => x_ end) = otruthy micro) by (destruct micro as [[|]|]; reflexivity).
  rewrite C4, C5.
  destruct (oz_eqb e0 (Some ERROR_LEVEL_H) && (otruthy micro || inm)); [reflexivity|]. cbn [bind].
  destruct (eci && (otruthy micro || inm)); [reflexivity|]. cbn [bind].
  rewrite Hprep.
  destruct (prepare_data (pom m0)) as [segs|ex]; cbn [bind]; [|reflexivity].
  rewrite src_find_version_is_model.
  destruct (find_version segs e0 eci micro false) as [g|ex] eqn:Eg; cbn [bind]; [|reflexivity].
  pose proof (find_version_valid _ _ _ _ _ _ Eg) as Hg.
  (* check 6: the data does not fit the requested version *)
  assert (C6 : (match v0 with
                | Some version0 => do _ <- (if g >? version0
                                            then do t'11 <- src_get_version_name_effect (Some version0);
                                                 do t'12 <- src_get_version_name_effect (Some g); Err DataOverflow
                                            else Ok tt); Ok version0
                | None => Ok g end)
               = match v0 with None => Ok g | Some v => if v <? g then Err DataOverflow else Ok v end).
  { destruct v0 as [v|]; [|reflexivity]. rewrite Z.gtb_ltb. destruct (v <? g); [|reflexivity].
    rewrite (name_effect_valid v (Hv0 v eq_refl)), (name_effect_valid g Hg). reflexivity. }
  rewrite C6. clear C6.
  match goal with |- bind ?M _ = bind ?M _ => destruct M as [v1|ex] end; cbn [bind]; [|reflexivity].
  assert (C7 : (if (match e0 with None => true | Some _ => false end) && negb (v1 =? -3) then Some 1 else e0)
               = match e0 with None => if v1 =? VERSION_M1 then None else Some ERROR_LEVEL_L | e => e end).
  { destruct e0; [reflexivity|]. unfold VERSION_M1, ERROR_LEVEL_L. cbn [andb]. destruct (v1 =? -3); reflexivity. }
  rewrite C7. set (e1 := match e0 with None => if v1 =? VERSION_M1 then None else Some ERROR_LEVEL_L | e => e end).
  tie_tables. unfold capacity.
  destruct (getZ v1 SYMBOL_CAPACITY) as [row|ex] eqn:Erow; cbn [bind]; [|reflexivity].
  destruct (getOZ e1 row) as [cap|ex] eqn:Ecap; cbn [bind]; [|reflexivity].
  assert (Hcap : capacity v1 e1 = Ok cap) by (unfold capacity; rewrite Erow; cbn [bind]; exact Ecap).
  rewrite src_bit_length_with_overhead_is_model.
  destruct (bit_length_with_overhead segs v1 eci false) as [len|ex]; cbn [bind]; [|reflexivity].
  destruct (cap <? len); cbn [bind].
  { rewrite (name_effect_valid v1 (capacity_ok_valid _ _ _ Hcap)). reflexivity. }
  rewrite src_normalize_mask_int_is_model.
  destruct (normalize_mask (pyval_of_oz mask) (v1 <? 1)) as [mk|ex]; cbn [bind]; [|reflexivity].
  now rewrite bind_ret.
Qed.

(* ------------------------------------------------------------------ 3. encode() up to the call of _encode *)
Definition parts_bytes (content : list Z) (encoding : option enc) (m : option Z) : list part :=
  [{| p_content := PBytes content; p_mode := m; p_enc := encoding |}].
Definition parts_items (items : list mitem) (encoding : option enc) (m : option Z) : list part :=
  map (part_of m encoding) items.

Theorem src_encode_bytes_is_model :
  forall ext_eci ext_eval (content : list Z) (error version mode mask : option Z) (encoding : option enc)
         (eci : bool) (micro : option bool) (boost : bool),
  enc_named encoding ->
  src_encode_bytes ext_eci ext_eval content error version mode mask (option_map e_name encoding) eci micro boost
  = encode_args_k (fun segs e v mk => src__encode ext_eci ext_eval (to_py_segs segs) e v mk eci boost None)
                  (parts_bytes content encoding)
                  (pyval_of_oz error) (pyval_of_oz version) (pyval_of_oz mode) (pyval_of_oz mask) eci (pyval_of_obool micro).
Proof.
  intros. rewrite src_encode_bytes_unfold. apply src_encode_generic_is_model.
  intros m. now apply src_prepare_data_bytes_is_model.
Qed.

Theorem src_encode_items_is_model :
  forall ext_eci ext_eval (items : list mitem) (error version mode mask : option Z) (encoding : option enc)
         (eci : bool) (micro : option bool) (boost : bool),
  enc_named encoding -> Forall item_named items ->
  src_encode_items ext_eci ext_eval (map to_pitem items) error version mode mask (option_map e_name encoding) eci micro boost
  = encode_args_k (fun segs e v mk => src__encode ext_eci ext_eval (to_py_segs segs) e v mk eci boost None)
                  (parts_items items encoding)
                  (pyval_of_oz error) (pyval_of_oz version) (pyval_of_oz mode) (pyval_of_oz mask) eci (pyval_of_obool micro).
Proof.
  intros. rewrite src_encode_items_unfold. apply src_encode_generic_is_model.
  intros m. now apply src_prepare_data_items_is_model.
Qed.

(* ------------------------------------------------------------------ 4. the whole of encode(): = Args.encode_args *)
(* with the translated evaluate_mask (fuel 179) in place of the parameter; what remains assumed is codecs.lookup
   (eci_lookup_agrees, see Tie/TieEncodeFinal.v) for the segments prepare_data builds *)
Definition code_view (c : code) : list (list Z) * Z * option Z * Z * py_segs :=
  (map zbits (c_matrix c), c_version c, c_error c, c_mask c, to_py_segs (c_segments c)).

Lemma normalize_mask_range mask is_micro mk :
  normalize_mask mask is_micro = Ok mk -> match mk with Some k => 0 <= k < (if is_micro then 4 else 8) | None => True end.
Proof.
  unfold normalize_mask. destruct mask as [|b|z|s]; [intros [= <-]; exact I| | |].
  all: destruct (py_int_val _) as [k|]; cbn [bind]; [|discriminate].
  all: destruct ((0 <=? k) && (k <? (if is_micro then 4 else 8))) eqn:E; [|discriminate].
  all: intros [= <-]; lia.
Qed.

Lemma encode_top_final ext_eci pom error version mode mask eci micro boost :
  (forall m segs, prepare_data (pom m) = Ok segs -> eci_lookup_agrees ext_eci segs) ->
  encode_args_k (fun segs e v mk => src__encode ext_eci (src_evaluate_mask 179) (to_py_segs segs) e v mk eci boost None)
                pom error version mode mask eci micro
  = do c <- encode_args pom error version mode mask eci micro boost; Ok (code_view c).
Proof.
  intros Heci. rewrite encode_args_is_k, encode_args_k_bind. apply encode_args_k_ext.
  intros m segs e v mk c Hp Hc Hm.
  apply (src_encode_is_encode_core ext_eci segs e v mk eci boost None).
  - apply valid_version_range. exact (capacity_ok_valid _ _ _ Hc).
  - exact (Heci m segs Hp).
  - apply normalize_mask_range in Hm. destruct (v <? 1); exact Hm.
Qed.

Theorem src_encode_bytes_is_encode_args :
  forall ext_eci (content : list Z) (error version mode mask : option Z) (encoding : option enc)
         (eci : bool) (micro : option bool) (boost : bool),
  enc_named encoding ->
  (forall m segs, prepare_data (parts_bytes content encoding m) = Ok segs -> eci_lookup_agrees ext_eci segs) ->
  src_encode_bytes ext_eci (src_evaluate_mask 179) content error version mode mask (option_map e_name encoding) eci micro boost
  = do c <- encode_args (parts_bytes content encoding) (pyval_of_oz error) (pyval_of_oz version) (pyval_of_oz mode)
                        (pyval_of_oz mask) eci (pyval_of_obool micro) boost;
    Ok (code_view c).
Proof. intros. rewrite src_encode_bytes_is_model by assumption. now apply encode_top_final. Qed.

Theorem src_encode_items_is_encode_args :
  forall ext_eci (items : list mitem) (error version mode mask : option Z) (encoding : option enc)
         (eci : bool) (micro : option bool) (boost : bool),
  enc_named encoding -> Forall item_named items ->
  (forall m segs, prepare_data (parts_items items encoding m) = Ok segs -> eci_lookup_agrees ext_eci segs) ->
  src_encode_items ext_eci (src_evaluate_mask 179) (map to_pitem items) error version mode mask (option_map e_name encoding)
                   eci micro boost
  = do c <- encode_args (parts_items items encoding) (pyval_of_oz error) (pyval_of_oz version) (pyval_of_oz mode)
                        (pyval_of_oz mask) eci (pyval_of_obool micro) boost;
    Ok (code_view c).
Proof. intros. rewrite src_encode_items_is_model by assumption. now apply encode_top_final. Qed.

Print Assumptions src_encode_bytes_is_model.
Print Assumptions src_encode_items_is_model.
Print Assumptions src_encode_bytes_is_encode_args.
Print Assumptions src_encode_items_is_encode_args.
