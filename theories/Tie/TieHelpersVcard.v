(* Bridge theorem: make_vcard_data of segno/helpers.py, translated statement by statement from the CURRENT source
   (SegnoSrc.SrcHelpersVcard, written by gen/translate_helpers.py), equals the hand-written model (Model/Helpers.v) for ALL
   arguments of the declared types: name / displayname a str; memo / nickname / birthday / the six address parts / org /
   source / rev a str or None; the multi-valued arguments (email, phone, fax, videophone, url, title, photo_uri, cellphone,
   homephone, workphone) given as the list of their strings (the argument encoding of the model; `isinstance(val, str)` is
   decided by that typing); lat / lng None or an object given by its str() (f'{lat}').
   Parameter: `_looks_like_datetime` (a compiled regular expression: CPython's re) is the function [looks] the translated
   function takes as its first argument -- ANY function from strings to bool; the model takes the match result as an
   input next to the string (vc_birthday / vc_rev : option (str * bool)), the theorem supplies [looks s].  No hypothesis
   in the argument form; the record form asks that the recorded results are those of [looks].
   What the proof goes through: the order of the lines, `make_multifield`, N with _VCARD_ESCAPE_NAME, the `if x:` tests,
   `'ADR:{0};;{1};{2};{3};{4};{5}'.format( *adr_data)`, try / except AttributeError around `.strftime` for birthday and rev,
   `isinstance(birthday, str)` (true by typing), the ValueError of a date that does not look like one, the ValueError
   for exactly one of lat / lng, GEO only when both are given (`is not None`, not truthiness), SOURCE, NOTE, REV, END:VCARD,
   the final empty line and '\r\n'.join.
   Re-checked by coqc on every run.  See DESIGN.md 11.13. *)
From Coq Require Import ZArith List Bool Lia.
From Segno Require Import Base.PyLite Base.PySem Base.PySemStr Model.Color Model.Helpers.
From Segno Require Import Tie.TieHelpersEsc.
From SegnoSrc Require Import SrcHelpersEsc SrcHelpersVcard.
Import ListNotations.
Open Scope Z_scope.

Lemma vcard_multi_piece (esc : list Z -> list Z) K l : (forall s, esc s = escape_vcard s) ->
  map (fun i => K ++ [58] ++ esc i) l = vcard_multi K l.
Proof. intros He. apply map_ext. intros i. unfold vline. now rewrite He. Qed.

Lemma vcard_adr_true props : existsb py_ostr_truthy props = true ->
  vcard_adr props = match map (fun o => escape_vcard (or_empty o)) props with
                    | p0 :: rest => [vline K_ADR (Helpers.join [59] (p0 :: [] :: rest))]
                    | [] => []
                    end.
Proof. intros H. unfold vcard_adr. change (existsb truthy props) with (existsb py_ostr_truthy props). now rewrite H. Qed.
Lemma vcard_adr_false props : existsb py_ostr_truthy props = false -> vcard_adr props = [].
Proof. intros H. unfold vcard_adr. change (existsb truthy props) with (existsb py_ostr_truthy props). now rewrite H. Qed.

Lemma py_ostr_or_empty o : py_ostr_or o [] = or_empty o.
Proof. destruct o as [[|c s]|]; reflexivity. Qed.

(* the lines up to and including ADR, as Model.Helpers.vcard_lines builds them *)
Definition vcard_head (a : vcard_args) : list str :=
  [K_BEGIN; K_VERSION; vline K_N (escape_vcard_name (vc_name a)); vline K_FN (escape_vcard (vc_displayname a))]
  ++ vcard_opt K_ORG (vc_org a)
  ++ vcard_multi K_EMAIL (vc_email a)
  ++ vcard_multi K_TEL (vc_phone a)
  ++ vcard_multi K_TELFAX (vc_fax a)
  ++ vcard_multi K_TELVIDEO (vc_videophone a)
  ++ vcard_multi K_TELCELL (vc_cellphone a)
  ++ vcard_multi K_TELHOME (vc_homephone a)
  ++ vcard_multi K_TELWORK (vc_workphone a)
  ++ vcard_multi K_URL (vc_url a)
  ++ vcard_multi K_TITLE (vc_title a)
  ++ vcard_multi K_PHOTO (vc_photo_uri a)
  ++ vcard_opt K_NICKNAME (vc_nickname a)
  ++ vcard_adr (vcard_adr_props a).

Definition vcard_tail (a : vcard_args) (head : list str) : res (list str) :=
  do bday <- vcard_date K_BDAY (vc_birthday a);
  let lat := geo_given (vc_lat a) in
  let lng := geo_given (vc_lng a) in
  if negb (Bool.eqb lat lng) then Err ValueError else
  let geo := if lat && lng then [vline K_GEO (geo_text (vc_lat a) ++ [59] ++ geo_text (vc_lng a))] else [] in
  let tail1 := vcard_opt K_SOURCE (vc_source a) ++ vcard_opt K_NOTE (vc_memo a) in
  do rev <- vcard_date K_REV (vc_rev a);
  Ok (head ++ bday ++ geo ++ tail1 ++ rev ++ [K_END; []]).

Lemma vcard_lines_split a : vcard_lines a = vcard_tail a (vcard_head a).
Proof. reflexivity. Qed.

Theorem src_make_vcard_data_is_model_args :
  forall (looks : list Z -> bool) (blat blng : bool)
         (name displayname : list Z) (email phone fax videophone : list (list Z)) (memo nickname birthday : option (list Z))
         (url : list (list Z)) (pobox street city region zipcode country org lat lng source rev : option (list Z))
         (title photo_uri cellphone homephone workphone : list (list Z)),
  src_make_vcard_data looks name displayname email phone fax videophone memo nickname birthday url pobox street city region
                      zipcode country org lat lng source rev title photo_uri cellphone homephone workphone
  = make_vcard_data {| vc_name := name; vc_displayname := displayname; vc_email := email; vc_phone := phone; vc_fax := fax;
                       vc_videophone := videophone; vc_memo := memo; vc_nickname := nickname;
                       vc_birthday := option_map (fun s => (s, looks s)) birthday; vc_url := url; vc_pobox := pobox;
                       vc_street := street; vc_city := city; vc_region := region; vc_zipcode := zipcode;
                       vc_country := country; vc_org := org; vc_lat := option_map (fun s => (blat, s)) lat;
                       vc_lng := option_map (fun s => (blng, s)) lng; vc_source := source;
                       vc_rev := option_map (fun s => (s, looks s)) rev; vc_title := title; vc_photo_uri := photo_uri;
                       vc_cellphone := cellphone; vc_homephone := homephone; vc_workphone := workphone |}.
Proof.
  intros.
  match goal with |- _ = make_vcard_data ?r => set (a := r) end.
  unfold src_make_vcard_data.
  pose proof src_escape_vcard_is_model as He. set (esc := src__escape_vcard) in *. clearbody esc.
  cbv zeta. cbv beta.
  rewrite src_escape_vcard_name_is_model.
  rewrite !multifield_map, !(vcard_multi_piece esc _ _ He).
  rewrite !(opt_append _ _ (fun x => _ ++ esc x)).
  match goal with |- bind ?X _ = _ => assert (Hhead : X = Ok (vcard_head a)) end.
  { destruct (existsb py_ostr_truthy [pobox; street; city; region; zipcode; country]) eqn:Eadr.
    all: cbn [map]; rewrite ?py_ostr_or_empty.
    all: cbv [py_str_format nth_error Z.to_nat Pos.to_nat Pos.iter_op Init.Nat.add Z.ltb Z.compare bind].
    all: rewrite ?He; f_equal; unfold vcard_head.
    all: first [rewrite (vcard_adr_true (vcard_adr_props a) Eadr) | rewrite (vcard_adr_false (vcard_adr_props a) Eadr)].
    all: unfold vcard_adr_props, vcard_opt, vline, a.
    all: cbn [vc_name vc_displayname vc_email vc_phone vc_fax vc_videophone vc_memo vc_nickname vc_birthday vc_url vc_pobox
              vc_street vc_city vc_region vc_zipcode vc_country vc_org vc_lat vc_lng vc_source vc_rev vc_title vc_photo_uri
              vc_cellphone vc_homephone vc_workphone].
    all: rewrite <- ?app_assoc; cbn [map Helpers.join]; rewrite ?app_nil_r; reflexivity. }
  rewrite Hhead. clear Hhead. cbn [bind].
  unfold make_vcard_data. rewrite vcard_lines_split.
  set (H := vcard_head a). clearbody H.
  unfold vcard_tail, a.
  cbn [vc_name vc_displayname vc_email vc_phone vc_fax vc_videophone vc_memo vc_nickname vc_birthday vc_url vc_pobox
       vc_street vc_city vc_region vc_zipcode vc_country vc_org vc_lat vc_lng vc_source vc_rev vc_title vc_photo_uri
       vc_cellphone vc_homephone vc_workphone].
  clear a.
  destruct birthday as [[|bc bs]|];
    cbn [py_ostr_truthy py_ostr_get py_str_no_attr bind option_map vcard_date nonempty negb orb];
    [ | destruct (looks (bc :: bs)) eqn:Elb; cbn [negb orb bind]; [|reflexivity] | ].
  all: destruct lat as [la|], lng as [ln|]; cbn [option_map geo_given geo_text Bool.eqb negb andb bind py_strof_opt];
    try reflexivity.
  all: rewrite !(opt_append _ _ (fun x => _ ++ esc x)), ?He.
  all: destruct rev as [[|rc rs]|];
    cbn [py_ostr_truthy py_ostr_get py_str_no_attr bind option_map vcard_date nonempty negb orb];
    [ | destruct (looks (rc :: rs)) eqn:Elr; cbn [negb orb bind]; [|reflexivity] | ].
  all: rewrite py_str_join_is_model; do 2 f_equal; unfold vcard_opt, vline.
  all: rewrite <- ?app_assoc; cbn [app]; rewrite ?app_nil_r.
  all: reflexivity.
Qed.

(* the same statement over the argument record of the model: the str of birthday / rev, the str() of lat / lng *)
Theorem src_make_vcard_data_is_model : forall (looks : list Z -> bool) (a : vcard_args),
  (forall s b, vc_birthday a = Some (s, b) -> b = looks s) ->
  (forall s b, vc_rev a = Some (s, b) -> b = looks s) ->
  src_make_vcard_data looks (vc_name a) (vc_displayname a) (vc_email a) (vc_phone a) (vc_fax a) (vc_videophone a) (vc_memo a)
                      (vc_nickname a) (option_map fst (vc_birthday a)) (vc_url a) (vc_pobox a) (vc_street a) (vc_city a)
                      (vc_region a) (vc_zipcode a) (vc_country a) (vc_org a) (option_map snd (vc_lat a))
                      (option_map snd (vc_lng a)) (vc_source a) (option_map fst (vc_rev a)) (vc_title a) (vc_photo_uri a)
                      (vc_cellphone a) (vc_homephone a) (vc_workphone a)
  = make_vcard_data a.
Proof.
  intros looks [nm dn em ph fx vp memo nick bd url po st ci re zi co org lat lng src rv ti pu ce ho wo] Hb Hr.
  cbn [vc_name vc_displayname vc_email vc_phone vc_fax vc_videophone vc_memo vc_nickname vc_birthday vc_url vc_pobox
       vc_street vc_city vc_region vc_zipcode vc_country vc_org vc_lat vc_lng vc_source vc_rev vc_title vc_photo_uri
       vc_cellphone vc_homephone vc_workphone] in *.
  rewrite (src_make_vcard_data_is_model_args looks (match lat with Some (b, _) => b | None => true end)
                                             (match lng with Some (b, _) => b | None => true end)).
  f_equal. f_equal.
  - destruct bd as [[s b]|]; cbn [option_map fst]; [rewrite (Hb s b eq_refl)|]; reflexivity.
  - destruct lat as [[b s]|]; reflexivity.
  - destruct lng as [[b s]|]; reflexivity.
  - destruct rv as [[s b]|]; cbn [option_map fst]; [rewrite (Hr s b eq_refl)|]; reflexivity.
Qed.

Print Assumptions src_make_vcard_data_is_model.
