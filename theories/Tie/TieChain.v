(* The end-to-end chain for the headline properties C01 / C02 / C03 / C06, stated about the TRANSLATED functions
   (build/gen/Src*.v, regenerated from /repo/segno/encoder.py on every run):

     bytes --src_make_segment--> _Segment objects --(Segments)--> src_find_version --> version
           --src__encode (with src_boost_error_level, src_evaluate_mask ... inside)--> (matrix, version, level, mask, segments)

   For segments built by the translated make_segment from byte strings, the version found by the translated find_version
   and the level boosted by the translated boost_error_level (called inside _encode), the matrix the translated _encode
   returns
     (a) is the matrix of the model's Encode.encode_core, cell by cell (as rows of 0/1 integers);
     (b) is read back by the reference decoder Ref/Decoder.decode_symbol (written from ISO/IEC 18004, independent of the
         encoder) as exactly the given byte strings, in order, with the version / level / mask the call reports (C01);
     (c) passes Ref/Spec.c02_check: ISO size, every function-pattern module, both format copies = BCH(15,5) of
         (level, mask), both version copies = Golay(18,6) of the version (C02);
     (d) with mask=None carries the lowest-numbered optimum of the ISO 7.8.3 penalty / Micro QR score (C06);
     (e) holds, block by block in the Table 9 layout, Reed-Solomon codewords over GF(256) (C03).

   The proofs only compose existing theorems: the bridges Tie/TieSegMake.src_make_segment_is_model,
   Tie/TieFit.src_find_version_is_model, Tie/TieBoost.src_boost_error_level_is_model,
   Tie/TieEncodeFinal.src_encode_is_encode_core, Tie/TieMaskFull.src_find_and_apply_best_mask_179 and the model-level
   theorems Lemmas/RoundTrip.decode_of_encode_core_requested (C01), Lemmas/GeomLemmas.encode_core_c02 (C02),
   Lemmas/MaskLemmas.find_and_apply_best_mask_is_iso (C06), Lemmas/BlockLemmas.read_blocks_of_final_message (C03).

   WHAT IS NOT IN THE CHAIN (hand-modelled in theories/Model, tied to /repo only by the differential runs of the extracted
   model, see DESIGN.md 11.10):
     * encode(): argument normalisation (normalize_version / normalize_errorlevel / normalize_mode / the micro, eci, boost
       checks), the default level L (None for M1) -- here [IdemLemmas.default_level], the version >= guessed test, the
       final `capacity < bit length' test (here a consequence of find_version, see [find_version_fits]);
     * prepare_data / Segments.add_segment: the Segments object is [py_segments_of psegs] below (segments, modes and
       bit_length kept as add_segment keeps them when it does NOT merge); merging of neighbouring segments of the same
       mode is modelled (Segment.add_segment, RoundTrip.add_segment_pre) but not translated;
     * the str path of data_to_bytes (CPython codecs: str -> bytes; the model takes the codec results as inputs) and
       codecs.lookup in get_eci_assignment_number (parameter [ext_eci], hypothesis [codec_lookup_agrees]);
     * encode_sequence / Structured Append splitting (Model/Sequence.v; _encode itself is bridged for sa_info too);
     * QRCode / the serializers are other properties (C09 ..). *)
From Coq Require Import String.
From Coq Require Import ZArith List Bool Lia ZifyBool FMapPositive.
From Segno Require Import Base.PyLite Base.PySem Ref.IsoData Ref.Geometry Ref.Bch Ref.MaskCond Ref.Decoder Ref.Spec
     Model.Bits Model.Segment Model.Version Model.Stream Model.Matrix Model.Encode.
From Segno Require Lemmas.GeomLemmas Lemmas.MaskLemmas Lemmas.VersionLemmas Lemmas.ExnLemmas Lemmas.IdemLemmas
     Lemmas.ParseLemmas Lemmas.BlockLemmas Lemmas.PlaceLemmas Lemmas.RoundTrip.
From Segno Require Import Tie.TieBase Tie.TieMat Tie.TieFnPat Tie.TieMask Tie.TieFit Tie.TieBoost Tie.TieSegMake
     Tie.TieEncode Tie.TieMaskScores Tie.TieMaskFull Tie.TieEncodeFinal.
From SegnoSrc Require Import SrcFit SrcBoost SrcSegMake SrcMask SrcMaskScores SrcEncode.
Import ListNotations.
Open Scope Z_scope.

(* ------------------------------------------------------------------ the objects *)
(* one call make_segment(data, mode, encoding) with bytes content *)
Record seg_in := { i_data : list Z; i_mode : option Z; i_enc : option enc }.

(* what the typing of the translation and the model theorems ask of such a call: the bytes are bytes; the mode is None or
   one of the five mode constants (what normalize_mode returns); an encoding name is not the empty string
   (TieSegMake.empty_encoding_name_differs) *)
Definition input_ok (i : seg_in) : Prop :=
  ExnLemmas.bytes_ok (i_data i) /\ ExnLemmas.omode_ok (i_mode i) /\ (forall e, i_enc i = Some e -> e_name e <> EmptyString).

(* [p] is the _Segment the TRANSLATED make_segment returns for the call [i] *)
Definition built (i : seg_in) (p : py_seg) : Prop :=
  src_make_segment (i_data i) (i_mode i) (option_map e_name (i_enc i)) = Ok p.

(* the Segments object holding these segments: `segments', `modes' and `bit_length' as Segments.add_segment maintains
   them when no two neighbours are merged (HAND MODEL of add_segment, the one piece of glue between make_segment and
   find_version / _encode) *)
Definition py_segments_of (psegs : list py_seg) : py_segs :=
  {| segs_segments := psegs;
     segs_bit_length := fold_left (fun a p => a + lenZ (seg_bits p)) psegs 0;
     segs_modes := map seg_mode psegs |}.

Lemma py_segments_of_model segs : py_segments_of (map to_py_seg segs) = to_py_segs segs.
Proof.
  unfold py_segments_of, to_py_segs, seg_bit_length, seg_modes. f_equal.
  - generalize 0. induction segs as [|s r IH]; intros a; [reflexivity|].
    cbn [map fold_left to_py_seg seg_bits]. rewrite lenZ_bitsZ. apply IH.
  - rewrite map_map. reflexivity.
Qed.

(* the remaining assumed callee (Python's codecs.lookup inside get_eci_assignment_number), for the encodings the
   segments of these calls carry: the given encoding, or the default `iso-8859-1' / `gb2312' (Hanzi), None for the
   non-byte modes.  [e_canon] is the canonical codec name, an oracle input of the model. *)
Definition codec_lookup_agrees (ext_eci : option String.string -> res Z) (inputs : list seg_in) : Prop :=
  forall i s, In i inputs -> make_segment (PBytes (i_data i)) (i_mode i) (i_enc i) = Ok s ->
              ext_eci (option_map e_name (s_enc s)) = eci_number (s_enc s).

(* ------------------------------------------------------------------ step 1: make_segment *)
(* the Python segments are the views of model segments, each the model's make_segment of the same call *)
Lemma built_is_model : forall inputs psegs,
  Forall input_ok inputs -> Forall2 built inputs psegs ->
  exists segs, psegs = map to_py_seg segs /\
    Forall2 (fun i s => make_segment (PBytes (i_data i)) (i_mode i) (i_enc i) = Ok s) inputs segs.
Proof.
  intros inputs psegs Hok Hb. induction Hb as [|i p inputs psegs Hip _ IH].
  - exists []. split; [reflexivity|constructor].
  - apply Forall_cons_iff in Hok. destruct Hok as [(_ & _ & Hname) Hok].
    destruct (IH Hok) as (segs & -> & HF).
    unfold built in Hip. rewrite (src_make_segment_is_model _ _ _ Hname) in Hip.
    destruct (make_segment (PBytes (i_data i)) (i_mode i) (i_enc i)) as [s|e] eqn:Hs; cbn [bind] in Hip; [|discriminate Hip].
    apply GeomLemmas.Ok_inj in Hip. subst p. exists (s :: segs). split; [reflexivity|]. constructor; assumption.
Qed.

(* what the model knows about such segments: each is a packing of its byte string in a mode that represents it
   (RoundTrip / ParseLemmas), well formed, and never an empty numeric segment *)
Lemma model_segments_facts : forall inputs segs,
  Forall input_ok inputs ->
  Forall2 (fun i s => make_segment (PBytes (i_data i)) (i_mode i) (i_enc i) = Ok s) inputs segs ->
  Forall2 ParseLemmas.seg_of_data segs (map i_data inputs) /\ Forall VersionLemmas.wf_seg segs
  /\ Forall ParseLemmas.count_sane segs.
Proof.
  intros inputs segs Hok HF. induction HF as [|i s inputs segs His _ IH].
  - repeat split; constructor.
  - apply Forall_cons_iff in Hok. destruct Hok as [(Hbytes & Hmode & _) Hok].
    destruct (IH Hok) as (Hd & Hwf & Hsane).
    pose proof (ExnLemmas.make_segment_cases (PBytes (i_data i)) (i_mode i) (i_enc i) Hmode) as Hc. rewrite His in Hc.
    destruct Hc as [Hwfs _].
    destruct (RoundTrip.make_segment_pre _ _ _ _ (Hbytes : ExnLemmas.wf_content (PBytes (i_data i))) His)
      as (data & senc & Hdata & Hpre).
    cbn [data_to_bytes] in Hdata. injection Hdata as <- _.
    cbn [map]. split; [|split].
    + constructor; [exact (RoundTrip.seg_pre_of_data s _ (proj1 Hwfs) Hpre)|exact Hd].
    + constructor; assumption.
    + constructor; [exact (ParseLemmas.make_segment_count_sane _ _ _ _ His)|exact Hsane].
Qed.

(* ------------------------------------------------------------------ step 2: find_version *)
(* a version returned by find_version holds the content at the level encode() continues with (the requested one, or the
   default L / None for M1): the `fits' premise of the round-trip theorem; encode()'s own final test can never fire for a
   guessed version *)
Lemma find_version_fits segs error eci micro v :
  Forall VersionLemmas.wf_seg segs -> find_version segs error eci micro false = Ok v ->
  -3 <= v <= 40 /\ (v <= 0 -> eci = false) /\ IdemLemmas.fits_at segs v eci (IdemLemmas.default_level error v).
Proof.
  intros Hwf Hfv.
  destruct (ExnLemmas.find_version_ok_facts _ _ _ _ _ Hwf Hfv) as (Hv & Hfit & Hmic & _ & Hm1).
  split; [exact Hv|]. split; [intros Hle; exact (proj2 (Hmic Hle))|].
  rewrite VersionLemmas.spec_fits_unfold in Hfit. apply andb_prop in Hfit. destruct Hfit as [Hav Hcap].
  assert (Hlvl : VersionLemmas.eff_level v error = IdemLemmas.default_level error v).
  { unfold VersionLemmas.eff_level, IdemLemmas.default_level, VERSION_M1, ERROR_LEVEL_L.
    destruct (v =? -3) eqn:E3.
    - assert (E : v = -3) by lia. rewrite (Hm1 E). reflexivity.
    - destruct error; reflexivity. }
  rewrite Hlvl in Hcap.
  destruct (spec_capacity v (IdemLemmas.default_level error v)) as [cap|] eqn:Ec; [|discriminate Hcap].
  exists cap, (spec_bits v (map (VersionLemmas.abs_seg eci) segs) false).
  split; [apply VersionLemmas.capacity_ok_iff; exact Ec|].
  split; [rewrite (VersionLemmas.bit_length_spec segs v eci false Hv Hwf), Hav; reflexivity|lia].
Qed.

Lemma Forall2_len {A B} (R : A -> B -> Prop) l1 l2 : Forall2 R l1 l2 -> List.length l1 = List.length l2.
Proof. induction 1 as [|a b l1 l2 _ _ IH]; [reflexivity|]. cbn [List.length]. now rewrite IH. Qed.

(* the decoded byte strings *)
Lemma d_bytes_expected eci : forall (segs : list segment) (datas : list (list Z)),
  List.length segs = List.length datas ->
  map d_bytes (ParseLemmas.expected_dsegs eci (combine segs datas)) = datas.
Proof.
  unfold ParseLemmas.expected_dsegs. induction segs as [|s r IH]; intros [|d ds] Hlen; try discriminate Hlen; [reflexivity|].
  cbn [combine map ParseLemmas.expected_dseg d_bytes fst snd]. f_equal. apply IH. cbn [List.length] in Hlen. lia.
Qed.

(* ------------------------------------------------------------------ (d0) C06 on the translated mask selection alone *)
(* the translated find_and_apply_best_mask, calling the translated evaluate_mask / evaluate_micro_mask, picks on EVERY
   matrix of a symbol size in which all modules have a value the lowest-numbered optimum of the independently written ISO
   7.8.3 scores, and returns the matrix masked with the ISO Table 10 condition of that index *)
Theorem src_best_mask_is_iso :
  forall (size : Z) (m fm : mat),
  In size all_sizes -> full size m -> function_matrix size = Ok fm ->
  let micro := size <? 21 in
  let reg := region size fm in
  let best := best_index micro (MaskLemmas.iso_scores size micro m reg (zrange 0 (if micro then 4 else 8))) in
  src_find_and_apply_best_mask (src_evaluate_mask 179) (to_rows size m) size size None
  = Ok (best, Some (to_rows size (apply_mask size m reg (iso_mask_for micro best)))).
Proof.
  intros size m fm Hin Hfull Hfm micro reg best.
  rewrite (src_find_and_apply_best_mask_179 size m None Hin Hfull I).
  pose proof (all_sizes_nonneg size Hin) as Hs.
  pose proof (MaskLemmas.find_and_apply_best_mask_is_iso size m fm ltac:(lia) Hfm) as Hiso. cbv zeta in Hiso.
  rewrite Hiso. reflexivity.
Qed.

(* ------------------------------------------------------------------ the model's symbol before masking *)
(* function patterns, data and error correction codewords placed, no mask yet (the steps of encode_core up to
   add_codewords, each of them bridged to its translated counterpart inside TieEncode.src_encode_is_model_at) *)
Definition placed_matrix (segs : list segment) (level : option Z) (version : Z) (eci : bool) : res mat :=
  let size := calc_matrix_size version in
  do buff <- data_stream segs level version eci None;
  do final <- make_final_message version level buff;
  do m1 <- add_finder_patterns size (make_matrix size true true);
  do m2 <- add_alignment_patterns size m1;
  add_codewords size version m2 final.

(* with mask=None the mask of a run of encode_core is the ISO optimum over the placed matrix *)
Lemma encode_core_mask_is_iso segs error version eci boost code :
  -3 <= version <= 40 ->
  encode_core segs error version None eci boost None = Ok code ->
  let size := calc_matrix_size version in
  let micro := size <? 21 in
  exists m3 fm,
    placed_matrix segs (c_error code) version eci = Ok m3 /\ function_matrix size = Ok fm /\
    c_mask code = best_index micro (MaskLemmas.iso_scores size micro m3 (region size fm) (zrange 0 (if micro then 4 else 8))).
Proof.
  intros Hv H size micro. unfold encode_core in H. cbv zeta in H. fold size in H.
  apply GeomLemmas.bind_ok in H. destruct H as (e' & _ & H).
  apply GeomLemmas.bind_ok in H. destruct H as (buff & Hbuff & H).
  apply GeomLemmas.bind_ok in H. destruct H as (final & Hfinal & H).
  apply GeomLemmas.bind_ok in H. destruct H as (m1 & Hm1 & H).
  apply GeomLemmas.bind_ok in H. destruct H as (m2 & Hm2 & H).
  apply GeomLemmas.bind_ok in H. destruct H as (m3 & Hm3 & H).
  apply GeomLemmas.bind_ok in H. destruct H as ([k m4] & Hm4 & H).
  apply GeomLemmas.bind_ok in H. destruct H as (m5 & _ & H).
  apply GeomLemmas.bind_ok in H. destruct H as (m6 & _ & H).
  apply GeomLemmas.Ok_inj in H. subst code. cbn [c_error c_mask].
  destruct (GeomLemmas.find_best_mask_shape _ _ _ _ _ Hm4) as (fm & Hfm & _ & _).
  exists m3, fm. split; [|split; [exact Hfm|]].
  - unfold placed_matrix. cbv zeta. fold size. rewrite Hbuff. cbn [bind]. rewrite Hfinal. cbn [bind].
    rewrite Hm1. cbn [bind]. rewrite Hm2. cbn [bind]. exact Hm3.
  - destruct (size_facts version Hv) as (_ & Hin & _). fold size in Hin.
    pose proof (all_sizes_nonneg size Hin) as Hs.
    pose proof (MaskLemmas.find_and_apply_best_mask_is_iso size m3 fm ltac:(lia) Hfm) as Hiso. cbv zeta in Hiso.
    rewrite Hiso in Hm4. apply GeomLemmas.Ok_inj in Hm4. injection Hm4 as Hk _. symmetry. exact Hk.
Qed.

(* ------------------------------------------------------------------ C03 through encode_core *)
(* the codeword stream an ISO reader takes off the symbol (Decoder.read_stream: release the mask, walk the zig-zag),
   de-interleaved by Table 9 (Decoder.read_blocks), consists of Reed-Solomon codewords over GF(256) of the prescribed
   lengths.  Composition of PlaceLemmas.read_stream_of_encode_core_exact, BlockLemmas.make_final_message_total,
   RoundTrip.data_positions_count and BlockLemmas.read_blocks_of_final_message, as inside RoundTrip.decode_frame. *)
Lemma encode_core_blocks segs error version mask eci boost code :
  -3 <= version <= 40 ->
  encode_core segs error version mask eci boost None = Ok code ->
  Forall VersionLemmas.wf_seg segs -> IdemLemmas.fits_at segs version eci error ->
  exists lvl, level_code lvl = c_error code /\
    let rb := read_blocks version lvl (read_stream (c_matrix code) (c_mask code)) in
    let shapes := block_shapes version lvl in
    Forall (fun '(d, e) => syndromes_zero (lenZ e) (d ++ e) = true) (combine (rb_data rb) (rb_ec rb)) /\
    map lenZ (rb_data rb) = map snd shapes /\
    map lenZ (rb_ec rb) = map (fun '(t, d) => t - d) shapes /\
    rb_rest rb = repeat false (Z.to_nat (remainder_bits version)).
Proof.
  intros Hv Henc Hwf Hfit0.
  destruct (IdemLemmas.encode_core_inv _ _ _ _ _ _ _ Henc) as (e' & Hb & _ & He' & _).
  assert (Hfit : IdemLemmas.fits_at segs version eci (c_error code)).
  { rewrite He'. destruct boost.
    - exact (IdemLemmas.boost_keeps_fit version error segs eci e' Hb Hfit0).
    - apply GeomLemmas.Ok_inj in Hb. subst e'. exact Hfit0. }
  destruct Hfit as (cap & len & Hcap & Hblen & Hlencap).
  destruct (PlaceLemmas.read_stream_of_encode_core_exact _ _ _ _ _ _ _ _ Hv Henc) as (buff & final & Hds & Hfm & Hrs).
  destruct (RoundTrip.data_stream_inv _ _ _ _ _ _ Hv Hds) as (body & cap' & b1 & Hbody & Hcap' & _ & _ & _ & _ & Hle & Hm13).
  rewrite Hcap in Hcap'. apply GeomLemmas.Ok_inj in Hcap'. subst cap'.
  assert (Hm13' : is_m1_m3 version = true -> lenZ buff = cap).
  { intros Hm. apply Hm13; [exact Hm|]. cbn [RoundTrip.sa_hdr app].
    rewrite (RoundTrip.stream_length segs version eci len body Hv Hwf Hblen Hbody). exact Hlencap. }
  destruct (RoundTrip.level_code_of_key _ (RoundTrip.capacity_level_key _ _ _ Hcap)) as (lvl & Hlvl).
  exists lvl. split; [exact Hlvl|].
  destruct (BlockLemmas.make_final_message_total version (c_error code) lvl buff cap Hv Hlvl Hcap Hle Hm13')
    as (final' & infos & Hfm' & Hinfos & _ & Hlenf).
  rewrite Hfm in Hfm'. apply GeomLemmas.Ok_inj in Hfm'. subst final'.
  pose proof (RoundTrip.data_positions_count version (c_error code) infos Hinfos) as Hdp.
  assert (Hexact : List.length final = List.length (data_positions (calc_matrix_size version))).
  { rewrite PlaceLemmas.calc_matrix_size_eq. unfold lenZ in Hlenf, Hdp. lia. }
  rewrite (Hrs Hexact).
  pose proof (BlockLemmas.read_blocks_of_final_message version (c_error code) lvl buff cap final [] Hv Hlvl Hcap Hle Hm13' Hfm)
    as Hrb.
  cbv zeta in Hrb |- *. rewrite !app_nil_r in Hrb.
  destruct Hrb as (_ & _ & _ & _ & _ & Hsyn & Hld & Hle' & _ & _ & _ & Hrest).
  split; [exact Hsyn|]. split; [exact Hld|]. split; [exact Hle'|exact Hrest].
Qed.

(* ------------------------------------------------------------------ THE CHAIN *)
(* Hypotheses, all about translated functions or the inputs:
     Hin     the calls are well typed (bytes, mode None or a mode constant, non-empty encoding names);
     Hbuilt  psegs are the results of the TRANSLATED make_segment;
     Hver    version is the result of the TRANSLATED find_version on the Segments object holding them
             (error: the requested level or None; micro: None / Some true / Some false);
     Hmask   a requested mask is in range (what the translated normalize_mask admits, TieMaskArg.v);
     Hcodec  codecs.lookup (not translated);
     Hrun    the TRANSLATED _encode, called as encode() calls it -- level [default_level error version] (encode()'s
             default, hand modelled), eci, boost_error, no Structured Append -- returned (mx, v', e', k', so).
   Remaining premises that are NOT discharged here: none of the model theorems' premises is left open; what is outside is
   listed in the header (encode() glue, add_segment, codecs, encode_sequence). *)
Theorem translated_chain :
  forall (ext_eci : option String.string -> res Z) (inputs : list seg_in) (psegs : list py_seg)
         (error : option Z) (eci : bool) (micro : option bool) (version : Z) (mask : option Z) (boost : bool)
         (mx : list (list Z)) (v' : Z) (e' : option Z) (k' : Z) (so : py_segs),
  forall (Hin : Forall input_ok inputs)
         (Hbuilt : Forall2 built inputs psegs)
         (Hver : src_find_version (py_segments_of psegs) error eci micro false = Ok version)
         (Hmask : ExnLemmas.mask_ok version mask)
         (Hcodec : codec_lookup_agrees ext_eci inputs)
         (Hrun : src__encode ext_eci (src_evaluate_mask 179) (py_segments_of psegs) (IdemLemmas.default_level error version)
                             version mask eci boost None = Ok (mx, v', e', k', so)),
  exists (segs : list segment) (code : code) (d : decoded),
    (* (a) the model: same segments, same run, same matrix *)
    psegs = map to_py_seg segs /\
    encode_core segs (IdemLemmas.default_level error version) version mask eci boost None = Ok code /\
    mx = map zbits (c_matrix code) /\ v' = version /\ e' = c_error code /\ k' = c_mask code /\ so = py_segments_of psegs /\
    (* the level is the one the TRANSLATED boost_error_level returns (the requested / default one without boosting) *)
    (if boost then src_boost_error_level version (IdemLemmas.default_level error version) (py_segments_of psegs) eci false
     else Ok (IdemLemmas.default_level error version)) = Ok e' /\
    (* (b) C01: the reference decoder reads the symbol: the reported version, level, mask, and exactly the given bytes *)
    decode_symbol (c_matrix code) = Some d /\
    dec_version d = v' /\ level_code (dec_level d) = e' /\ dec_mask d = k' /\ dec_sa d = None /\
    map d_bytes (dec_segments d) = map i_data inputs /\
    dec_segments d = ParseLemmas.expected_dsegs eci (combine segs (map i_data inputs)) /\
    (* (c) C02: ISO size, function patterns, format and version information *)
    c02_check (c_matrix code) v' e' k' = [] /\
    (* (d) C06: the automatic mask is the ISO optimum over the unmasked symbol *)
    (mask = None ->
     let size := calc_matrix_size version in
     let micro := size <? 21 in
     exists m3 fm, placed_matrix segs e' version eci = Ok m3 /\ function_matrix size = Ok fm /\
       k' = best_index micro (MaskLemmas.iso_scores size micro m3 (region size fm) (zrange 0 (if micro then 4 else 8)))) /\
    (* (e) C03: the blocks an ISO reader takes off the symbol are Reed-Solomon codewords in the Table 9 layout *)
    (let rb := read_blocks version (dec_level d) (read_stream (c_matrix code) k') in
     let shapes := block_shapes version (dec_level d) in
     Forall (fun '(dw, ew) => syndromes_zero (lenZ ew) (dw ++ ew) = true) (combine (rb_data rb) (rb_ec rb)) /\
     map lenZ (rb_data rb) = map snd shapes /\ map lenZ (rb_ec rb) = map (fun '(t, dd) => t - dd) shapes /\
     rb_rest rb = repeat false (Z.to_nat (remainder_bits version))).
Proof.
  intros ext_eci inputs psegs error eci micro version mask boost mx v' e' k' so Hin Hbuilt Hver Hmask Hcodec Hrun.
  (* step 1: make_segment *)
  destruct (built_is_model inputs psegs Hin Hbuilt) as (segs & -> & Hmk).
  destruct (model_segments_facts inputs segs Hin Hmk) as (Hdat & Hwf & Hsane).
  rewrite py_segments_of_model in *.
  (* step 2: find_version *)
  rewrite src_find_version_is_model in Hver.
  destruct (find_version_fits segs error eci micro version Hwf Hver) as (Hv & Hmic & Hfit).
  set (error0 := IdemLemmas.default_level error version) in *.
  (* step 3: _encode *)
  assert (Heci : eci_lookup_agrees ext_eci segs).
  { intros s Hs. clear - Hmk Hcodec Hs. induction Hmk as [|i s0 inputs segs His _ IH]; [destruct Hs|].
    destruct Hs as [<-|Hs].
    - apply (Hcodec i s0); [now left|exact His].
    - apply IH; [|exact Hs]. intros i' s' Hi' Hs'. apply (Hcodec i' s'); [now right|exact Hs']. }
  change (@None (list Z)) with (option_map sa_list None) in Hrun.
  rewrite (src_encode_is_encode_core ext_eci segs error0 version mask eci boost None Hv Heci Hmask) in Hrun.
  destruct (encode_core segs error0 version mask eci boost None) as [code|x] eqn:Hcore; cbn [bind] in Hrun; [|discriminate Hrun].
  apply GeomLemmas.Ok_inj in Hrun. injection Hrun as <- <- <- <- <-.
  destruct (IdemLemmas.encode_core_inv _ _ _ _ _ _ _ Hcore) as (e1 & Hboost & Hcv & Hce & Hcs & _ & _).
  (* (b) *)
  destruct (RoundTrip.decode_of_encode_core_requested segs error0 version mask eci boost code (map i_data inputs)
              Hv Hcore Hdat Hfit Hmask (fun Hle => conj (Hmic Hle) Hsane))
    as (d & Hdec & Hdv & Hdl & Hdm & Hdsa & Hdseg).
  exists segs, code, d.
  rewrite Hcv, Hcs.
  split; [reflexivity|]. split; [exact Hcore|]. split; [reflexivity|]. split; [reflexivity|].
  split; [reflexivity|]. split; [reflexivity|]. split; [reflexivity|].
  split.
  { rewrite Hce. destruct boost; [rewrite src_boost_error_level_is_model|]; exact Hboost. }
  split; [exact Hdec|]. split; [exact Hdv|]. split; [exact Hdl|]. split; [exact Hdm|]. split; [exact Hdsa|].
  split.
  { rewrite Hdseg. apply d_bytes_expected. exact (Forall2_len _ _ _ Hdat). }
  split; [exact Hdseg|].
  split.
  { pose proof (GeomLemmas.encode_core_c02 _ _ _ _ _ _ _ _ Hv Hcore) as Hc02. rewrite Hcv in Hc02. exact Hc02. }
  split; [intros ->; exact (encode_core_mask_is_iso segs error0 version eci boost code Hv Hcore)|].
  destruct (encode_core_blocks segs error0 version mask eci boost code Hv Hcore Hwf Hfit) as (lvl & Hlvl & Hblocks).
  rewrite <- Hdl in Hlvl. apply RoundTrip.level_code_inj in Hlvl. subst lvl. exact Hblocks.
Qed.

(* the same read from the model side: whenever the model's run succeeds, the translated _encode returns that very symbol
   (so the conclusions above are about a call that does return; the model's run succeeds for every content that fits:
   ExnLemmas.stage_encode_core_exn lists the only exceptions, ValueError / LookupError of an unknown ECI codec) *)
Theorem translated_chain_returns :
  forall (ext_eci : option String.string -> res Z) (inputs : list seg_in) (psegs : list py_seg)
         (error : option Z) (eci : bool) (micro : option bool) (version : Z) (mask : option Z) (boost : bool),
  Forall input_ok inputs -> Forall2 built inputs psegs ->
  src_find_version (py_segments_of psegs) error eci micro false = Ok version ->
  ExnLemmas.mask_ok version mask -> codec_lookup_agrees ext_eci inputs ->
  exists segs, psegs = map to_py_seg segs /\
    src__encode ext_eci (src_evaluate_mask 179) (py_segments_of psegs) (IdemLemmas.default_level error version)
                version mask eci boost None
    = do code <- encode_core segs (IdemLemmas.default_level error version) version mask eci boost None;
      Ok (map zbits (c_matrix code), c_version code, c_error code, c_mask code, py_segments_of psegs).
Proof.
  intros ext_eci inputs psegs error eci micro version mask boost Hin Hbuilt Hver Hmask Hcodec.
  destruct (built_is_model inputs psegs Hin Hbuilt) as (segs & -> & Hmk).
  destruct (model_segments_facts inputs segs Hin Hmk) as (_ & Hwf & _).
  rewrite py_segments_of_model in *. rewrite src_find_version_is_model in Hver.
  destruct (find_version_fits segs error eci micro version Hwf Hver) as (Hv & _ & _).
  assert (Heci : eci_lookup_agrees ext_eci segs).
  { intros s Hs. clear - Hmk Hcodec Hs. induction Hmk as [|i s0 inputs segs His _ IH]; [destruct Hs|].
    destruct Hs as [<-|Hs].
    - apply (Hcodec i s0); [now left|exact His].
    - apply IH; [|exact Hs]. intros i' s' Hi' Hs'. apply (Hcodec i' s'); [now right|exact Hs']. }
  exists segs. split; [reflexivity|].
  change (@None (list Z)) with (option_map sa_list None).
  rewrite (src_encode_is_encode_core ext_eci segs _ version mask eci boost None Hv Heci Hmask).
  destruct (encode_core segs _ version mask eci boost None) as [code|x] eqn:Hcore; cbn [bind]; [|reflexivity].
  destruct (IdemLemmas.encode_core_inv _ _ _ _ _ _ _ Hcore) as (e1 & _ & _ & _ & Hcs & _ & _).
  rewrite Hcs. reflexivity.
Qed.

(* ------------------------------------------------------------------ Examples: the statements are not vacuous *)
(* (1) b"12345", no level, no version, mask=None, boost_error=True: an M1 symbol with one numeric segment.
   Every hypothesis of [translated_chain] is discharged by evaluation of the TRANSLATED functions. *)
Definition ex1_in : seg_in := {| i_data := [49; 50; 51; 52; 53]; i_mode := None; i_enc := None |}.
Definition ex1_psegs : list py_seg :=
  [{| seg_bits := [0; 0; 0; 1; 1; 1; 1; 0; 1; 1; 0; 1; 0; 1; 1; 0; 1]; seg_char_count := 5; seg_mode := 1; seg_encoding := None |}].
(* codecs.lookup is never reached for a numeric segment: any function satisfies the hypothesis (None has no codec) *)
Definition ex_no_codec : option String.string -> res Z := fun _ => Err TypeErr.

Lemma ex1_input_ok : Forall input_ok [ex1_in].
Proof.
  constructor; [|constructor]. split; [|split; [exact I|intros e He; discriminate He]].
  unfold ExnLemmas.bytes_ok. cbn [i_data ex1_in]. repeat (constructor; [lia|]). constructor.
Qed.
Lemma ex1_built : Forall2 built [ex1_in] ex1_psegs.
Proof. constructor; [vm_compute; reflexivity|constructor]. Qed.
Lemma ex1_version : src_find_version (py_segments_of ex1_psegs) None false None false = Ok (-3).
Proof. vm_compute. reflexivity. Qed.
Lemma ex1_codec : codec_lookup_agrees ex_no_codec [ex1_in].
Proof.
  intros i s [<-|[]] Hs. vm_compute in Hs. apply GeomLemmas.Ok_inj in Hs. subst s. reflexivity.
Qed.

(* what the translated _encode returns, by evaluation: version M1, no level, mask 2 *)
Example ex1_run :
  match src__encode ex_no_codec (src_evaluate_mask 179) (py_segments_of ex1_psegs) None (-3) None false true None with
  | Ok (mx, v, e, k, so) =>
      (v =? -3) && (match e with None => true | Some _ => false end) && (k =? 2) && (lenZ mx =? 11)
      && (* the reference decoder on the returned rows of 0/1 integers *)
         match decode_symbol (map (map (Z.eqb 1)) mx) with
         | Some d => match dec_segments d with
                     | [ds] => (d_count ds =? 5) && (if list_eq_dec Z.eq_dec (d_bytes ds) [49; 50; 51; 52; 53] then true else false)
                     | _ => false end
         | None => false end
  | Err _ => false end = true.
Proof. vm_compute. reflexivity. Qed.

(* the chain theorem instantiated: (a) - (d) for this call *)
Example ex1_chain :
  exists mx e' k' so segs code d,
    src__encode ex_no_codec (src_evaluate_mask 179) (py_segments_of ex1_psegs) None (-3) None false true None
      = Ok (mx, -3, e', k', so) /\
    ex1_psegs = map to_py_seg segs /\ mx = map zbits (c_matrix code) /\
    decode_symbol (c_matrix code) = Some d /\ dec_version d = -3 /\ level_code (dec_level d) = e' /\ dec_mask d = k' /\
    map d_bytes (dec_segments d) = [[49; 50; 51; 52; 53]] /\
    c02_check (c_matrix code) (-3) e' k' = [] /\
    exists m3 fm, placed_matrix segs e' (-3) false = Ok m3 /\ function_matrix 11 = Ok fm /\
      k' = best_index true (MaskLemmas.iso_scores 11 true m3 (region 11 fm) (zrange 0 4)).
Proof.
  destruct (src__encode ex_no_codec (src_evaluate_mask 179) (py_segments_of ex1_psegs) None (-3) None false true None)
    as [[[[[mx v'] e'] k'] so]|x] eqn:Hrun; [|vm_compute in Hrun; discriminate Hrun].
  destruct (translated_chain ex_no_codec [ex1_in] ex1_psegs None false None (-3) None true mx v' e' k' so
              ex1_input_ok ex1_built ex1_version I ex1_codec Hrun)
    as (segs & code & d & Hp & _ & Hmx & Hv' & _ & _ & _ & _ & Hdec & Hdv & Hdl & Hdm & _ & Hbytes & _ & Hc02 & Hbest & _).
  subst v'. exists mx, e', k', so, segs, code, d.
  split; [reflexivity|]. split; [exact Hp|]. split; [exact Hmx|]. split; [exact Hdec|]. split; [exact Hdv|].
  split; [exact Hdl|]. split; [exact Hdm|]. split; [exact Hbytes|]. split; [exact Hc02|]. exact (Hbest eq_refl).
Qed.

(* (2) b"hi!" at level M, micro=False, requested mask 5, no boosting: a 1-M symbol with one byte segment whose encoding
   is the default `iso-8859-1'.  Here the segment carries an encoding, so the codec hypothesis has content: the function
   below answers 3 (consts.ECI_ASSIGNMENT_NUM['iso8859-1']) for that name. *)
Definition ex2_in : seg_in := {| i_data := [104; 105; 33]; i_mode := None; i_enc := None |}.
Definition ex2_psegs : list py_seg :=
  [{| seg_bits := [0; 1; 1; 0; 1; 0; 0; 0; 0; 1; 1; 0; 1; 0; 0; 1; 0; 0; 1; 0; 0; 0; 0; 1]; seg_char_count := 3; seg_mode := 4;
      seg_encoding := Some "iso-8859-1"%string |}].
Definition ex_latin1_codec : option String.string -> res Z :=
  fun name => match name with
              | Some n => if String.eqb n "iso-8859-1" then Ok 3 else Err LookupErr
              | None => Err TypeErr end.

Lemma ex2_input_ok : Forall input_ok [ex2_in].
Proof.
  constructor; [|constructor]. split; [|split; [exact I|intros e He; discriminate He]].
  unfold ExnLemmas.bytes_ok. cbn [i_data ex2_in]. repeat (constructor; [lia|]). constructor.
Qed.
Lemma ex2_built : Forall2 built [ex2_in] ex2_psegs.
Proof. constructor; [vm_compute; reflexivity|constructor]. Qed.
Lemma ex2_version : src_find_version (py_segments_of ex2_psegs) (Some 0) false (Some false) false = Ok 1.
Proof. vm_compute. reflexivity. Qed.
Lemma ex2_codec : codec_lookup_agrees ex_latin1_codec [ex2_in].
Proof.
  intros i s [<-|[]] Hs. vm_compute in Hs. apply GeomLemmas.Ok_inj in Hs. subst s. vm_compute. reflexivity.
Qed.

Example ex2_chain :
  exists mx so segs code d,
    src__encode ex_latin1_codec (src_evaluate_mask 179) (py_segments_of ex2_psegs) (Some 0) 1 (Some 5) false false None
      = Ok (mx, 1, Some 0, 5, so) /\
    mx = map zbits (c_matrix code) /\ ex2_psegs = map to_py_seg segs /\
    decode_symbol (c_matrix code) = Some d /\ dec_version d = 1 /\ level_code (dec_level d) = Some 0 /\ dec_mask d = 5 /\
    map d_bytes (dec_segments d) = [[104; 105; 33]] /\
    c02_check (c_matrix code) 1 (Some 0) 5 = [] /\
    (* one block of 26 codewords, 16 of them data (1-M), a Reed-Solomon codeword *)
    exists dw ew, rb_data (read_blocks 1 (dec_level d) (read_stream (c_matrix code) 5)) = [dw] /\
                  rb_ec (read_blocks 1 (dec_level d) (read_stream (c_matrix code) 5)) = [ew] /\
                  lenZ dw = 16 /\ lenZ ew = 10 /\ syndromes_zero 10 (dw ++ ew) = true.
Proof.
  destruct (src__encode ex_latin1_codec (src_evaluate_mask 179) (py_segments_of ex2_psegs) (Some 0) 1 (Some 5) false false None)
    as [[[[[mx v'] e'] k'] so]|x] eqn:Hrun; [|vm_compute in Hrun; discriminate Hrun].
  assert (Hmask : ExnLemmas.mask_ok 1 (Some 5)) by (cbn; lia).
  destruct (translated_chain ex_latin1_codec [ex2_in] ex2_psegs (Some 0) false (Some false) 1 (Some 5) false mx v' e' k' so
              ex2_input_ok ex2_built ex2_version Hmask ex2_codec Hrun)
    as (segs & code & d & Hp & Hcore & Hmx & Hv' & He' & Hk' & _ & Hlvl & Hdec & Hdv & Hdl & Hdm & _ & Hbytes & _ & Hc02 & _ & Hblocks).
  cbn [IdemLemmas.default_level] in Hlvl. apply GeomLemmas.Ok_inj in Hlvl.
  destruct (IdemLemmas.encode_core_inv _ _ _ _ _ _ _ Hcore) as (_ & _ & _ & _ & _ & Hk5 & _).
  subst v' e'. rewrite Hk5 in Hk'. subst k'. rewrite <- Hlvl in Hdl, Hc02 |- *.
  exists mx, so, segs, code, d.
  split; [reflexivity|]. split; [exact Hmx|]. split; [exact Hp|]. split; [exact Hdec|]. split; [exact Hdv|].
  split; [exact Hdl|]. split; [exact Hdm|]. split; [exact Hbytes|]. split; [exact Hc02|].
  assert (Hlv : dec_level d = Some LvM).
  { apply RoundTrip.level_code_inj. rewrite Hdl. reflexivity. }
  cbv zeta in Hblocks. rewrite Hlv in Hblocks |- *. destruct Hblocks as (Hsyn & Hld & Hle & _).
  set (rb := read_blocks 1 (Some LvM) (read_stream (c_matrix code) 5)) in *.
  change (map snd (block_shapes 1 (Some LvM))) with [16] in Hld.
  change (map (fun '(t, dd) => t - dd) (block_shapes 1 (Some LvM))) with [10] in Hle.
  destruct (rb_data rb) as [|dw [|? ?]]; try discriminate Hld. destruct (rb_ec rb) as [|ew [|? ?]]; try discriminate Hle.
  injection Hld as Hld. injection Hle as Hle.
  exists dw, ew. split; [reflexivity|]. split; [reflexivity|]. split; [exact Hld|]. split; [exact Hle|].
  apply Forall_cons_iff in Hsyn. destruct Hsyn as [Hsyn _]. rewrite Hle in Hsyn. exact Hsyn.
Qed.

(* (d0) instantiated on the unmasked M1 symbol of example (1), by evaluation of the translated mask selection *)
Example ex1_best_mask :
  match make_segment (PBytes [49; 50; 51; 52; 53]) None None with
  | Ok s => match placed_matrix [s] None (-3) false, function_matrix 11 with
            | Ok m3, Ok fm =>
                match src_find_and_apply_best_mask (src_evaluate_mask 179) (to_rows 11 m3) 11 11 None with
                | Ok (k, _) => (k =? 2) && (k =? best_index true (MaskLemmas.iso_scores 11 true m3 (region 11 fm) (zrange 0 4)))
                | Err _ => false end
            | _, _ => false end
  | Err _ => false end = true.
Proof. vm_compute. reflexivity. Qed.

Print Assumptions src_best_mask_is_iso.
Print Assumptions translated_chain.
Print Assumptions translated_chain_returns.
