(* Bridge theorems: Segments.__init__, Segments.add_segment and prepare_data of segno/encoder.py, translated statement by
   statement from the CURRENT source (SegnoSrc.SrcSegments, written by gen/translate_glue.py with the Python semantics of
   Base/PySem.v, PySemSeg.v, PySemGlue.v), equal the hand-written model (Model/Segment.v).  Re-checked by coqc on every run.
   This file also proves the invariant that Tie/TieFit.v and Tie/TieBoost.v assume about a `Segments` object
   (TieBase.to_py_segs): the object reached by any sequence of add_segment calls from the empty Segments() is
   [to_py_segs] of the model's segment list.  See DESIGN.md 11.11. *)
From Coq Require Import String.
From Coq Require Import ZArith List Bool Lia ZifyBool.
From Segno Require Import Base.PyLite Base.PySem Base.PySemSeg Base.PySemGlue Ref.IsoData Model.Bits Model.Segment.
From Segno Require Tie.TieTables.
From Segno Require Import Tie.TieBase Tie.TieSegMake.
From SegnoSrc Require SrcTables.
From SegnoSrc Require Import SrcMode SrcSegMake SrcSegments.
Import ListNotations.
Open Scope Z_scope.

(* ------------------------------------------------------------------ 1. Segments() *)
Theorem src_segments_init_is_model : src_Segments_init = to_py_segs [].
Proof. reflexivity. Qed.

(* ------------------------------------------------------------------ 2. the invariant of a Segments object, for ANY segments *)
(* modes = [s.mode for s in segments], bit_length = sum(len(s.bits) for s in segments) *)
Definition segs_bits_sum (l : list py_seg) : Z := fold_left (fun a s => a + lenZ (seg_bits s)) l 0.
Definition segs_wf (o : py_segs) : Prop :=
  segs_modes o = map seg_mode (segs_segments o) /\ segs_bit_length o = segs_bits_sum (segs_segments o).

Lemma fold_left_add_shift {A} (f : A -> Z) (l : list A) : forall a,
  fold_left (fun a s => a + f s) l a = a + fold_left (fun a s => a + f s) l 0.
Proof.
  induction l as [|x r IH]; intros a; cbn [fold_left]; [lia|]. rewrite IH, (IH (0 + f x)). lia.
Qed.

Lemma segs_bits_sum_app l x : segs_bits_sum (l ++ [x]) = segs_bits_sum l + lenZ (seg_bits x).
Proof. unfold segs_bits_sum. rewrite fold_left_app. reflexivity. Qed.

Lemma seg_bit_length_app l x : seg_bit_length (l ++ [x]) = seg_bit_length l + lenZ (s_bits x).
Proof. unfold seg_bit_length. rewrite fold_left_app. reflexivity. Qed.

Lemma to_py_segs_wf segs : segs_wf (to_py_segs segs).
Proof.
  split; cbn [to_py_segs segs_modes segs_segments segs_bit_length].
  - unfold seg_modes. rewrite map_map. reflexivity.
  - unfold seg_bit_length, segs_bits_sum. generalize 0.
    induction segs as [|s r IH]; intros a; cbn [map fold_left]; [reflexivity|].
    rewrite IH. cbn [to_py_seg seg_bits]. now rewrite lenZ_bitsZ.
Qed.

(* a well-formed object whose segments are images of model segments IS to_py_segs of them *)
Lemma wf_is_to_py_segs o segs : segs_wf o -> segs_segments o = map to_py_seg segs -> o = to_py_segs segs.
Proof.
  intros [Hm Hb] Hs. destruct o as [ss bl ms]. cbn [segs_modes segs_segments segs_bit_length] in *. subst ss.
  destruct (to_py_segs_wf segs) as [Hm2 Hb2]. cbn [to_py_segs segs_modes segs_segments segs_bit_length] in Hm2, Hb2.
  unfold to_py_segs. now rewrite Hm, Hb, Hm2, Hb2.
Qed.

Lemma removelast_app_one {A} (l : list A) x : removelast (l ++ [x]) = l.
Proof. rewrite removelast_app by congruence. cbn. apply app_nil_r. Qed.

Lemma app_one_not_nil {A} (l : list A) x : l ++ [x] <> [].
Proof. destruct l; discriminate. Qed.

Lemma lenZ_app_one_nonzero {A} (l : list A) x : (lenZ (l ++ [x]) =? 0) = false.
Proof. unfold lenZ. rewrite app_length. cbn [length]. apply Z.eqb_neq. lia. Qed.

Lemma group_nonzero m : py_dict_get [(1, 3); (2, 2)] m 1 <> 0.
Proof.
  unfold py_dict_get. cbn [assocZ]. destruct (m =? 1); [lia|]. destruct (m =? 2); lia.
Qed.

(* add_segment never raises, and keeps the invariant -- for arbitrary segment objects *)
Theorem src_add_segment_wf : forall (o : py_segs) (s : py_seg),
  segs_wf o -> exists o', src_Segments_add_segment o s = Ok o' /\ segs_wf o'.
Proof.
  intros [ss bl ms] s [Hm Hb]. cbn [segs_modes segs_segments segs_bit_length] in Hm, Hb. subst ms bl.
  unfold src_Segments_add_segment. cbn [segs_modes segs_segments segs_bit_length]. cbv zeta.
  destruct ss as [|x0 r0] using rev_ind.
  - cbn. eexists. split; [reflexivity|]. split; reflexivity.
  - clear IHr0. rewrite map_app. cbn [map]. rewrite lenZ_app_one_nonzero. cbn [negb]. rewrite py_index_last. cbn [bind].
    unfold py_mod_res.
    destruct (py_dict_get [(1, 3); (2, 2)] (seg_mode s) 1 =? 0) eqn:Eg;
      [apply Z.eqb_eq in Eg; now apply group_nonzero in Eg|].
    set (g := py_dict_get [(1, 3); (2, 2)] (seg_mode s) 1).
    destruct (seg_mode x0 =? seg_mode s); cbn [bind];
      [destruct (py_ostr_eqb (seg_encoding x0) (seg_encoding s)); cbn [bind];
       [destruct (seg_char_count x0 mod g =? 0); cbn [bind]|]|].
    + rewrite !py_del_item_last by apply app_one_not_nil.
      cbn [bind]. rewrite !removelast_app_one. eexists. split; [reflexivity|].
      split; cbn [segs_modes segs_segments segs_bit_length].
      * rewrite map_app. reflexivity.
      * rewrite !segs_bits_sum_app. cbn [seg_bits]. lia.
    + eexists. split; [reflexivity|]. split; cbn [segs_modes segs_segments segs_bit_length].
      * rewrite !map_app. reflexivity.
      * rewrite !segs_bits_sum_app. reflexivity.
    + eexists. split; [reflexivity|]. split; cbn [segs_modes segs_segments segs_bit_length].
      * rewrite !map_app. reflexivity.
      * rewrite !segs_bits_sum_app. reflexivity.
    + eexists. split; [reflexivity|]. split; cbn [segs_modes segs_segments segs_bit_length].
      * rewrite !map_app. reflexivity.
      * rewrite !segs_bits_sum_app. reflexivity.
Qed.

(* ------------------------------------------------------------------ 3. add_segment against the model *)
Lemma group_is_merge_group m : py_dict_get [(1, 3); (2, 2)] m 1 = merge_group m.
Proof.
  unfold py_dict_get, merge_group, MODE_NUMERIC, MODE_ALPHANUMERIC. cbn [assocZ].
  destruct (m =? 1); [reflexivity|]. destruct (m =? 2); reflexivity.
Qed.

Lemma ostr_eqb_is_oenc_eqb a b : py_ostr_eqb (option_map e_name a) (option_map e_name b) = oenc_eqb a b.
Proof. destruct a, b; reflexivity. Qed.

(* the model keeps the list reversed while building; the object holds it in order *)
Theorem src_add_segment_is_model : forall (acc : list segment) (s : segment),
  src_Segments_add_segment (to_py_segs (rev acc)) (to_py_seg s) = Ok (to_py_segs (rev (Segment.add_segment acc s))).
Proof.
  intros acc s.
  destruct (src_add_segment_wf (to_py_segs (rev acc)) (to_py_seg s) (to_py_segs_wf _)) as [o' [Ho' Hwf]].
  rewrite Ho'. f_equal. apply wf_is_to_py_segs; [exact Hwf|].
  revert Ho'. unfold src_Segments_add_segment. cbn [to_py_segs segs_modes segs_segments segs_bit_length]. cbv zeta.
  destruct acc as [|prev rest].
  - cbn. intros [= <-]. reflexivity.
  - cbn [rev Segment.add_segment]. unfold seg_modes. rewrite !map_app. cbn [map]. rewrite lenZ_app_one_nonzero. cbn [negb].
    rewrite py_index_last. cbn [bind]. unfold py_mod_res.
    change (seg_mode (to_py_seg s)) with (s_mode s). change (seg_mode (to_py_seg prev)) with (s_mode prev).
    change (seg_encoding (to_py_seg s)) with (option_map e_name (s_enc s)).
    change (seg_encoding (to_py_seg prev)) with (option_map e_name (s_enc prev)).
    change (seg_char_count (to_py_seg prev)) with (s_count prev).
    rewrite group_is_merge_group, ostr_eqb_is_oenc_eqb.
    destruct (merge_group (s_mode s) =? 0) eqn:Eg.
    { exfalso. apply Z.eqb_eq in Eg. unfold merge_group in Eg.
      destruct (s_mode s =? MODE_NUMERIC); [lia|]. destruct (s_mode s =? MODE_ALPHANUMERIC); lia. }
    destruct (s_mode prev =? s_mode s); cbn [bind andb];
      [destruct (oenc_eqb (s_enc prev) (s_enc s)); cbn [bind andb];
       [destruct (s_count prev mod merge_group (s_mode s) =? 0); cbn [bind andb]|]|].
    + rewrite !py_del_item_last by apply app_one_not_nil. cbn [bind]. rewrite !removelast_app_one.
      intros [= <-]. cbn [segs_segments rev]. rewrite map_app. cbn [map]. f_equal. f_equal.
      unfold to_py_seg. cbn [s_bits s_count s_mode s_enc seg_bits seg_char_count seg_mode seg_encoding].
      now rewrite bitsZ_app.
    + intros [= <-]. cbn [segs_segments rev]. rewrite !map_app. reflexivity.
    + intros [= <-]. cbn [segs_segments rev]. rewrite !map_app. reflexivity.
    + intros [= <-]. cbn [segs_segments rev]. rewrite !map_app. reflexivity.
Qed.

(* ------------------------------------------------------------------ 4. any sequence of add_segment calls *)
Fixpoint src_add_all (o : py_segs) (ss : list py_seg) : res py_segs :=
  match ss with [] => Ok o | s :: r => do o' <- src_Segments_add_segment o s; src_add_all o' r end.

(* for arbitrary segment objects: never an exception, always a well-formed object *)
Theorem segments_object_wf : forall (ss : list py_seg),
  exists o, src_add_all src_Segments_init ss = Ok o /\ segs_wf o.
Proof.
  intros ss. assert (H0 : segs_wf src_Segments_init) by (split; reflexivity).
  revert H0. generalize src_Segments_init as o0.
  induction ss as [|s r IH]; intros o0 H0; cbn [src_add_all].
  - exists o0. split; [reflexivity|exact H0].
  - destruct (src_add_segment_wf o0 s H0) as [o1 [H1 Hwf1]]. rewrite H1. cbn [bind]. apply IH. exact Hwf1.
Qed.

(* for the segments make_segment builds: the object is to_py_segs of the model's list *)
Theorem segments_object_is_model : forall (ss : list segment),
  src_add_all src_Segments_init (map to_py_seg ss) = Ok (to_py_segs (rev (fold_left Segment.add_segment ss []))).
Proof.
  intros ss. rewrite src_segments_init_is_model. change (@nil segment) with (rev (@nil segment)) at 1.
  generalize (@nil segment) as acc.
  induction ss as [|s r IH]; intros acc; cbn [map src_add_all fold_left]; [reflexivity|].
  rewrite src_add_segment_is_model. cbn [bind]. apply IH.
Qed.

(* ------------------------------------------------------------------ 5. prepare_data, content given as bytes *)
Definition enc_named (encoding : option enc) : Prop := forall e, encoding = Some e -> e_name e <> EmptyString.

Theorem src_prepare_data_bytes_is_model : forall (content : list Z) (mode : option Z) (encoding : option enc),
  enc_named encoding ->
  src_prepare_data_bytes content mode (option_map e_name encoding)
  = do segs <- Segment.prepare_data [{| p_content := PBytes content; p_mode := mode; p_enc := encoding |}];
    Ok (to_py_segs segs).
Proof.
  intros content mode encoding Henc. unfold src_prepare_data_bytes, Segment.prepare_data. cbn [prepare_aux p_content p_mode p_enc].
  cbv zeta. rewrite src_make_segment_is_model by exact Henc.
  destruct (make_segment (PBytes content) mode encoding) as [s|ex]; cbn [bind]; [|reflexivity].
  rewrite src_segments_init_is_model. change (@nil segment) with (rev (@nil segment)) at 1.
  rewrite src_add_segment_is_model. reflexivity.
Qed.

(* ------------------------------------------------------------------ 6. prepare_data, content given as a list of items *)
(* an item with its encoding as the model's [enc]; [to_pitem] is what the Python code sees *)
Inductive mitem :=
| MBytes (b : list Z)
| MTuple1 (c : list Z)
| MTuple2 (c : list Z) (m : option Z)
| MTuple3 (c : list Z) (m : option Z) (e : option enc).

Definition to_pitem (i : mitem) : py_pitem :=
  match i with
  | MBytes b => PIBytes b
  | MTuple1 c => PITuple1 c
  | MTuple2 c m => PITuple2 c m
  | MTuple3 c m e => PITuple3 c m (option_map e_name e)
  end.

(* the effective mode / encoding of a part: item[1] or mode, item[2] or encoding *)
Definition enc_or (e encoding : option enc) : option enc := match e with Some _ => e | None => encoding end.
Definition part_of (mode : option Z) (encoding : option enc) (i : mitem) : part :=
  match i with
  | MBytes b => {| p_content := PBytes b; p_mode := mode; p_enc := encoding |}
  | MTuple1 c => {| p_content := PBytes c; p_mode := mode; p_enc := encoding |}
  | MTuple2 c m => {| p_content := PBytes c; p_mode := py_oz_or m mode; p_enc := encoding |}
  | MTuple3 c m e => {| p_content := PBytes c; p_mode := py_oz_or m mode; p_enc := enc_or e encoding |}
  end.
Definition item_named (i : mitem) : Prop := match i with MTuple3 _ _ e => enc_named e | _ => True end.

Lemma ostr_or_enc e encoding : enc_named e ->
  py_ostr_or (option_map e_name e) (option_map e_name encoding) = option_map e_name (enc_or e encoding).
Proof.
  intros He. destruct e as [x|]; cbn; [|reflexivity].
  destruct (String.eqb (e_name x) EmptyString) eqn:E; [|reflexivity].
  apply String.eqb_eq in E. now destruct (He x eq_refl).
Qed.

Lemma prepare_items_loop (mode : option Z) (encoding : option enc)
      (body : py_pitem -> py_segs -> res (ctl void py_segs)) :
  enc_named encoding ->
  (forall i o, item_named i ->
     body (to_pitem i) o
     = do s <- src_make_segment (match part_of mode encoding i with {| p_content := PBytes c |} => c | _ => [] end)
                                (p_mode (part_of mode encoding i)) (option_map e_name (p_enc (part_of mode encoding i)));
       do o' <- src_Segments_add_segment o s; Ok (CNext o')) ->
  forall items acc, Forall item_named items ->
  match py_for (map to_pitem items) body (to_py_segs (rev acc)) with
  | Err e' => Err e'
  | Ok (inl r') => match r' return res py_segs with end
  | Ok (inr st') => Ok st'
  end = do segs <- prepare_aux (map (part_of mode encoding) items) acc; Ok (to_py_segs segs).
Proof.
  intros Henc Hbody. induction items as [|i r IH]; intros acc Hall; cbn [map py_for prepare_aux]; [reflexivity|].
  inversion Hall as [|? ? Hi Hr]; subst. rewrite (Hbody i _ Hi).
  assert (Hpart : exists c, p_content (part_of mode encoding i) = PBytes c
                            /\ match part_of mode encoding i with {| p_content := PBytes c |} => c | _ => [] end = c).
  { destruct i; eexists; split; reflexivity. }
  destruct Hpart as [c [Hc1 Hc2]]. rewrite Hc2, Hc1.
  assert (Hn : enc_named (p_enc (part_of mode encoding i))).
  { destruct i as [b|c0|c0 m|c0 m e]; cbn [part_of p_enc]; try exact Henc.
    destruct e as [x|]; cbn [enc_or]; [exact Hi|exact Henc]. }
  rewrite src_make_segment_is_model by exact Hn.
  destruct (make_segment (PBytes c) (p_mode (part_of mode encoding i)) (p_enc (part_of mode encoding i))) as [s|ex];
    cbn [bind]; [|reflexivity].
  rewrite src_add_segment_is_model. cbn [bind]. apply IH. exact Hr.
Qed.

Theorem src_prepare_data_items_is_model : forall (items : list mitem) (mode : option Z) (encoding : option enc),
  enc_named encoding -> Forall item_named items ->
  src_prepare_data_items (map to_pitem items) mode (option_map e_name encoding)
  = do segs <- Segment.prepare_data (map (part_of mode encoding) items); Ok (to_py_segs segs).
Proof.
  intros items mode encoding Henc Hall. unfold src_prepare_data_items, Segment.prepare_data. cbv zeta.
  rewrite src_segments_init_is_model. change (@nil segment) with (rev (@nil segment)) at 1.
  match goal with |- context [py_for _ ?b _] => set (body := b) end.
  assert (Hbody : forall i o, item_named i ->
     body (to_pitem i) o
     = do s <- src_make_segment (match part_of mode encoding i with {| p_content := PBytes c |} => c | _ => [] end)
                                (p_mode (part_of mode encoding i)) (option_map e_name (p_enc (part_of mode encoding i)));
       do o' <- src_Segments_add_segment o s; Ok (CNext o')).
  { intros i o Hi. unfold body.
    destruct i as [b|c|c m|c m e]; cbn [to_pitem py_pitem_is_tuple py_pitem_len py_pitem_get0 py_pitem_get1 py_pitem_get2
                                         py_pitem_as_bytes part_of p_content p_mode p_enc bind]; cbv zeta.
    - reflexivity.
    - reflexivity.
    - reflexivity.
    - rewrite ostr_or_enc by exact Hi. reflexivity. }
  rewrite <- (prepare_items_loop mode encoding body Henc Hbody items [] Hall).
  destruct (py_for (map to_pitem items) body (to_py_segs (rev []))) as [[r0|st0]|ex]; try reflexivity; destruct r0.
Qed.

(* the typed fragment: an item that is a tuple used as data, or item[0] of a bytes object, is outside it *)

Print Assumptions src_segments_init_is_model.
Print Assumptions src_add_segment_wf.
Print Assumptions src_add_segment_is_model.
Print Assumptions segments_object_wf.
Print Assumptions segments_object_is_model.
Print Assumptions src_prepare_data_bytes_is_model.
Print Assumptions src_prepare_data_items_is_model.
