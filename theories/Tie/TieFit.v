(* Bridge theorems: Segments.__len__, Segments.bit_length_with_overhead, find_version of segno/encoder.py, translated statement by statement from the CURRENT source
   (SegnoSrc.SrcFit, written by gen/translate.py with the Python semantics of Base/PySem.v), equal the hand-written
   model.  Re-checked by coqc on every run: a change of the Python source changes the generated file, and a change
   of behaviour breaks the theorem.  The proofs case-split on the comparisons instead of relying on syntactic
   equality, so behaviour-preserving rewrites of the source do not break them.  See DESIGN.md 11.7. *)
From Coq Require Import String.
From Coq Require Import ZArith List Bool Lia ZifyBool.
From Segno Require Import Base.PyLite Base.PySem Ref.IsoData Model.Bits Model.Segment Model.Version Model.Stream Model.Matrix Model.Encode.
From Segno Require Tie.TieTables.
From Segno Require Import Tie.TieBase Tie.TieVersion.
From SegnoSrc Require SrcTables.
From SegnoSrc Require Import SrcVersion SrcFit.
Import ListNotations.
Open Scope Z_scope.

(* ------------------------------------------------------------------ 4b. Segments.bit_length_with_overhead *)
Lemma filter_map_comm {A B} (f : B -> bool) (g : A -> B) l :
  filter f (map g l) = map g (filter (fun x => f (g x)) l).
Proof. induction l as [|a r IH]; cbn; [reflexivity|]. destruct (f (g a)); cbn; now rewrite IH. Qed.

Lemma py_sum_ones {A} (l : list A) : py_sum (map (fun _ => 1) l) = lenZ l.
Proof.
  unfold py_sum, lenZ. induction l as [|a r IH]; [reflexivity|].
  cbn [map fold_right length]. rewrite IH. lia.
Qed.

Lemma py_sum_res_is_sum_res l : py_sum_res l = sum_res l.
Proof. induction l as [|x r IH]; cbn; [reflexivity|]. now rewrite IH. Qed.

Lemma src_len_is_model segs : src_Segments_len (to_py_segs segs) = lenZ segs.
Proof. unfold src_Segments_len, to_py_segs, lenZ. cbn. now rewrite map_length. Qed.

Lemma eci_headers_src segs :
  py_sum (map (fun _ : py_seg => 1)
    (filter (fun segment => (seg_mode segment =? 4) &&
               negb (match seg_encoding segment with
                     | Some x_ => String.eqb x_ DEFAULT_BYTE_ENCODING | None => false end))
            (segs_segments (to_py_segs segs))))
  = count_eci_headers segs.
Proof.
  rewrite py_sum_ones. unfold count_eci_headers, to_py_segs. cbn [segs_segments].
  rewrite filter_map_comm. unfold lenZ. rewrite map_length. do 2 f_equal.
  apply filter_ext. intros s. unfold to_py_seg, enc_is_default, MODE_BYTE. cbn.
  destruct (s_enc s); reflexivity.
Qed.

Theorem src_bit_length_with_overhead_is_model : forall (segs : list segment) (version : Z) (eci is_sa : bool),
  src_Segments_bit_length_with_overhead (to_py_segs segs) version eci is_sa
  = Version.bit_length_with_overhead segs version eci is_sa.
Proof.
  intros segs version eci is_sa.
  unfold src_Segments_bit_length_with_overhead, Version.bit_length_with_overhead. tie_tables.
  cbv zeta. rewrite eci_headers_src. rewrite !Z.gtb_ltb.
  change (segs_modes (to_py_segs segs)) with (seg_modes segs).
  change (segs_bit_length (to_py_segs segs)) with (seg_bit_length segs).
  rewrite src_version_range_is_model, bind_ret.
  destruct (if 0 <? version then Version.version_range version else Ok version) as [vr|ex]; cbn [bind]; [|reflexivity].
  rewrite py_sum_res_is_sum_res.
  replace (map (fun mode => do t'3 <- getZ mode CHAR_COUNT_INDICATOR_LENGTH; do t'4 <- getZ vr t'3; Ok t'4) (seg_modes segs))
    with (map (fun m => cci_length m vr) (seg_modes segs)).
  2:{ apply map_ext. intros m. unfold cci_length. destruct (getZ m CHAR_COUNT_INDICATOR_LENGTH); cbn [bind]; [|reflexivity].
      now rewrite bind_ret. }
  destruct (sum_res (map (fun m => cci_length m vr) (seg_modes segs))) as [cci|ex]; cbn [bind]; [|reflexivity].
  f_equal. unfold py_count, MODE_HANZI, VERSION_M1.
  destruct eci, is_sa, (0 <? version), (-3 <? version); lia.
Qed.

(* ------------------------------------------------------------------ 4d. find_version *)
Definition find_step (segs : list segment) (eci is_sa : bool) (version : Z) (error : option Z)
  : res (ctl Z (option Z)) :=
  let error' := match error with None => if version =? VERSION_M1 then None else Some ERROR_LEVEL_L | e => e end in
  match capacity version error' with
  | Err KeyErr => Ok (CNext error')
  | Err e => Err e
  | Ok cap => match Version.bit_length_with_overhead segs version eci is_sa with
              | Err KeyErr => Ok (CNext error')
              | Err e => Err e
              | Ok len => if len <=? cap then Ok (CRet version) else Ok (CNext error')
              end
  end.

Lemma find_loop_generic segs eci is_sa (body : Z -> option Z -> res (ctl Z (option Z))) :
  (forall version error, body version error = find_step segs eci is_sa version error) ->
  forall vs error,
  match py_for vs body error with
  | Err e' => Err e'
  | Ok (inl r') => Ok r'
  | Ok (inr _) => Err DataOverflow
  end = find_version_loop segs eci is_sa vs error.
Proof.
  intros Hbody. induction vs as [|v r IH]; intros error; cbn [py_for find_version_loop]; [reflexivity|].
  rewrite Hbody. unfold find_step. cbv zeta.
  set (error' := match error with None => if v =? VERSION_M1 then None else Some ERROR_LEVEL_L | e => e end).
  clearbody error'.
  destruct (capacity v error') as [cap|[]]; try reflexivity; [|apply IH].
  destruct (Version.bit_length_with_overhead segs v eci is_sa) as [len|[]]; try reflexivity; [|apply IH].
  destruct (len <=? cap); [reflexivity|apply IH].
Qed.

Lemma py_max_list_is_max_list l : py_max_list l = max_list l.
Proof. induction l as [|x r IH]; [reflexivity|]. cbn [py_max_list max_list]. now rewrite IH. Qed.

Lemma py_seq_res_is_seq_res {A} (l : list (res A)) : py_seq_res l = seq_res l.
Proof. induction l as [|x r IH]; cbn; [reflexivity|]. now rewrite IH. Qed.

Lemma min_version_src modes :
  (do t'2 <- py_seq_res (map (fun mode => do t'1 <- src_find_minimum_version_for_mode mode; Ok t'1) modes);
   do t'3 <- py_max_list t'2; Ok t'3)
  = (do ms <- seq_res (map Version.find_minimum_version_for_mode modes); max_list ms).
Proof.
  rewrite py_seq_res_is_seq_res.
  replace (map (fun mode => do t'1 <- src_find_minimum_version_for_mode mode; Ok t'1) modes)
    with (map Version.find_minimum_version_for_mode modes)
    by (apply map_ext; intros m; now rewrite bind_ret, src_find_minimum_version_for_mode_is_model).
  destruct (seq_res (map Version.find_minimum_version_for_mode modes)) as [ms|ex]; cbn [bind]; [|reflexivity].
  now rewrite bind_ret, py_max_list_is_max_list.
Qed.

Ltac find_body :=
  let version := fresh "version" in let err := fresh "err" in
  intros version err; unfold find_step, capacity, VERSION_M1, ERROR_LEVEL_L; cbv zeta;
  destruct err as [?e|]; [|destruct (version =? -3)]; cbv iota;
  (destruct (getZ version SYMBOL_CAPACITY) as [?row|[]]; cbn [bind]; try reflexivity);
  (match goal with |- context [getOZ ?k ?r] => destruct (getOZ k r) as [?cap|[]] end; cbn [bind]; try reflexivity);
  rewrite src_bit_length_with_overhead_is_model;
  (match goal with |- context [Version.bit_length_with_overhead ?a ?b ?c ?d] =>
     destruct (Version.bit_length_with_overhead a b c d) as [?len|[]] end; cbn [bind]; try reflexivity);
  rewrite Z.geb_leb;
  match goal with |- context [?a <=? ?b] => destruct (a <=? b) end; reflexivity.

Theorem src_find_version_is_model :
  forall (segs : list segment) (error : option Z) (eci : bool) (micro : option bool) (is_sa : bool),
  src_find_version (to_py_segs segs) error eci micro is_sa
  = Version.find_version segs error eci micro is_sa.
Proof.
  intros segs error eci micro is_sa.
  unfold src_find_version, Version.find_version. tie_tables.
  change (segs_modes (to_py_segs segs)) with (seg_modes segs).
  unfold VERSION_M4, VERSION_M2.
  destruct eci, micro as [[|]|]; cbv beta iota zeta delta [andb orb negb otruthy]; try reflexivity.
  all: try change (1 <? 1) with false; try change (-3 <? 1) with true; cbv iota.
  all: rewrite ?min_version_src.
  all: match goal with |- bind ?M _ = bind ?M _ => destruct M as [mv|ex]; cbn [bind]; [|reflexivity] end.
  all: destruct error as [e|]; cbv iota.
  all: apply find_loop_generic.
  all: find_body.
Qed.

Print Assumptions src_bit_length_with_overhead_is_model.
Print Assumptions src_find_version_is_model.
