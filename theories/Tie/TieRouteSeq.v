(* Bridge: the mechanically translated QRCodeSequence.save (build/gen/SrcRouteSeq.v, gen/translate_route.py) against the hand
   model Model/Route.v [sequence_filename].  The translated function is the WHOLE method -- the two lambdas (the second closes
   over prefix / suffix / m), the f-string '{prefix}-{m:02d}-{n:02d}{suffix}', the loop over enumerate(self, start=1) -- with
   `qrcode.save(name, kind=kind, **kw)` as the parameter [ext_save qrcode name].  NO guard: every file name, every number of symbols.

   History: until /repo 7f5d13e the method built the names with str.format on the USER's file name, so a name containing `{` or `}`
   was read as a format string ('a{b}.svg': KeyError, 'a}.svg': ValueError, 'x{0}.png': 'x<count>-<count>-<n>.png'); the bridge of
   that version carried the guard [no_brace].  Found here, repaired there; [brace_name_agrees] below replays the three names. *)
From Coq Require Import ZArith List Bool Lia.
From Segno Require Import Base.PyLite Base.PySem Base.PySemRoute Model.Color Model.Route.
From Segno Require Import Tie.TieRouteSave.
From SegnoSrc Require SrcRouteSeq.
Import ListNotations.
Open Scope Z_scope.

Local Arguments pyr_pad_zero : simpl never.
Local Arguments pyr_str_int : simpl never.
Local Arguments pyr_str_nat : simpl never.

(* ------------------------------------------------------------------ '{n:02d}' is the model's dec02, for every n >= 0 *)
Lemma dec_aux_src f : forall n acc, dec_aux f n acc = pyr_dec_digits f n acc.
Proof. induction f as [|f IH]; intros n acc; cbn [dec_aux pyr_dec_digits]; [reflexivity|]. now rewrite IH. Qed.
Lemma str_nat_dec n : pyr_str_nat n = dec n.
Proof. unfold pyr_str_nat, dec. symmetry. apply dec_aux_src. Qed.

Lemma dec_digits_mono f : forall k acc, (length acc <= length (pyr_dec_digits f k acc))%nat.
Proof.
  induction f as [|f IH]; intros k acc; cbn [pyr_dec_digits]; [lia|].
  destruct (k <? 10); cbn [length]; [lia|]. specialize (IH (k / 10) ((48 + k mod 10) :: acc)). cbn [length] in IH. lia.
Qed.

Lemma str_nat_two_digits n : 10 <= n -> 2 <= lenZ (pyr_str_nat n).
Proof.
  intros Hn. unfold pyr_str_nat, lenZ.
  assert (HL : 0 < Z.log2 n) by (apply Z.log2_pos; lia).
  destruct (Z.to_nat (Z.log2 n)) as [|f] eqn:EL; [lia|].
  cbn [pyr_dec_digits]. replace (n <? 10) with false by (symmetry; apply Z.ltb_ge; lia).
  cbn [pyr_dec_digits]. destruct (n / 10 <? 10); cbn [length]; [lia|].
  pose proof (dec_digits_mono f (n / 10 / 10) [48 + n / 10 mod 10; 48 + n mod 10]) as H. cbn [length] in H. lia.
Qed.

Lemma pad_zero_dec02 n : 0 <= n -> pyr_pad_zero 2 n = dec02 n.
Proof.
  intros Hn. unfold pyr_pad_zero, dec02. cbv zeta.
  replace (n <? 0) with false by (symmetry; apply Z.ltb_ge; lia).
  rewrite Z.abs_eq by lia. cbn [app]. change (lenZ (@nil Z)) with 0. change (dec n) with (pyr_str_nat n).
  destruct (n <? 10) eqn:E.
  - apply Z.ltb_lt in E. unfold pyr_str_nat. cbn [pyr_dec_digits].
    replace (n <? 10) with true by (symmetry; apply Z.ltb_lt; lia). reflexivity.
  - apply Z.ltb_ge in E. pose proof (str_nat_two_digits n E) as H2.
    replace (Z.to_nat (2 - 0 - lenZ (pyr_str_nat n))) with O by lia. reflexivity.
Qed.

(* ------------------------------------------------------------------ loops that only call out *)
Fixpoint py_foreach {X} (xs : list X) (f : X -> res unit) : res unit :=
  match xs with [] => Ok tt | x :: r => do _ <- f x; py_foreach r f end.

Lemma py_for_foreach {X} (xs : list X) (body : X -> unit -> res (ctl void unit)) (f : X -> res unit) :
  (forall x, In x xs -> body x tt = do _ <- f x; Ok (CNext tt)) ->
  (match py_for (A:=void) xs body tt with
   | Err e' => Err e'
   | Ok (inl r') => (match r' return _ with end)
   | Ok (inr st') => Ok tt
   end) = py_foreach xs f.
Proof.
  induction xs as [|x r IH]; intros Hb; cbn [py_for py_foreach]; [reflexivity|].
  rewrite (Hb x (or_introl eq_refl)). destruct (f x) as [[]|e]; cbn [bind]; [|reflexivity].
  apply IH. intros y Hy. apply Hb. now right.
Qed.

Lemma py_foreach_ext {X} (xs : list X) (f g : X -> res unit) :
  (forall x, In x xs -> f x = g x) -> py_foreach xs f = py_foreach xs g.
Proof.
  induction xs as [|x r IH]; intros H; cbn [py_foreach]; [reflexivity|].
  rewrite (H x (or_introl eq_refl)), IH; [reflexivity|]. intros y Hy. apply H. now right.
Qed.

Lemma enumerate_start_In {A} (l : list A) : forall k n q, In (n, q) (pyr_enumerate_start k l) -> k <= n < k + lenZ l.
Proof.
  induction l as [|x r IH]; intros k n q H; cbn [pyr_enumerate_start] in H; [destruct H|].
  unfold lenZ. cbn [length]. destruct H as [H|H].
  - injection H as <- _. lia.
  - apply IH in H. unfold lenZ in H. lia.
Qed.

(* ------------------------------------------------------------------ QRCodeSequence.save *)
(* the name symbol n of m is saved under: a str goes through the model's sequence_filename, a stream object is passed on *)
Definition seq_out (o : py_out) (m n : Z) : py_out :=
  match o with POStr s => POStr (sequence_filename s m n) | POStream x => POStream x end.

Lemma slice_to_dot (s : list Z) d : 0 <= d <= lenZ s -> py_slice s 0 d = firstn (Z.to_nat d) s.
Proof.
  intros Hd. unfold py_slice, py_clip. cbv zeta.
  replace (0 <? 0) with false by reflexivity. replace (d <? 0) with false by (symmetry; apply Z.ltb_ge; lia).
  rewrite (Z.min_l 0) by (unfold lenZ; lia). rewrite (Z.min_l d) by lia. rewrite Z.sub_0_r. reflexivity.
Qed.
Lemma slice_from_dot (s : list Z) d : 0 <= d -> py_slice_from s d = skipn (Z.to_nat d) s.
Proof. intros Hd. unfold py_slice_from. replace (d <? 0) with false by (symmetry; apply Z.ltb_ge; lia). reflexivity. Qed.

Theorem src_sequence_save_is_model ext_save (self : list py_obj) (out : py_out) :
  SrcRouteSeq.src_QRCodeSequence_save ext_save self out
  = py_foreach (pyr_enumerate_start 1 self) (fun p => ext_save (snd p) (seq_out out (lenZ self) (fst p))).
Proof.
  unfold SrcRouteSeq.src_QRCodeSequence_save. cbv zeta.
  set (m := lenZ self) in *.
  assert (Hm0 : 0 <= m) by (unfold m, lenZ; lia).
  (* the unchanged name: filename = lambda o, n: o *)
  assert (Hid : forall o, (forall n, seq_out o m n = o) ->
            (match py_for (A:=void) (pyr_enumerate_start 1 self)
                     (fun unp_4 (st' : unit) => let '(n, qrcode) := unp_4 in
                        do t'5 <- (fun (o0 : py_out) (_ : Z) => Ok o0) o n; do _ <- ext_save qrcode t'5; Ok (CNext tt)) tt with
             | Err e' => Err e' | Ok (inl r') => (match r' return _ with end) | Ok (inr st') => Ok tt end)
            = py_foreach (pyr_enumerate_start 1 self) (fun p => ext_save (snd p) (seq_out o m (fst p)))).
  { intros o Ho. apply py_for_foreach. intros [n q] _. cbn [bind fst snd]. rewrite Ho. reflexivity. }
  destruct out as [s|x].
  2:{ cbn [pyr_out_is_str]. rewrite andb_false_r. cbn [bind]. apply Hid. reflexivity. }
  cbn [pyr_out_is_str pyr_out_str bind]. rewrite andb_true_r, pyr_rfind_dot.
  pose proof (rfind_dot_lower s) as Hlo. pose proof (rfind_dot_upper s) as Hup.
  destruct (m >? 1) eqn:Em.
  2:{ cbn [bind]. apply Hid. intros n. unfold seq_out, sequence_filename.
      replace (1 <? m) with false by (rewrite Z.gtb_ltb in Em; now rewrite Em). reflexivity. }
  destruct (rfind_dot s >? -1) eqn:Ed.
  2:{ cbn [bind]. apply Hid. intros n. unfold seq_out, sequence_filename.
      replace (-1 <? rfind_dot s) with false by (rewrite Z.gtb_ltb in Ed; now rewrite Ed). now rewrite andb_false_r. }
  rewrite Z.gtb_ltb in Em, Ed. pose proof Ed as Ed'. apply Z.ltb_lt in Ed'.
  cbn [bind].
  rewrite slice_to_dot by lia. rewrite slice_from_dot by lia.
  apply py_for_foreach. intros [n q] Hin. cbn [bind fst snd].
  apply enumerate_start_In in Hin.
  unfold seq_out, sequence_filename. rewrite Em, Ed. cbn [andb].
  rewrite !pad_zero_dec02 by lia. reflexivity.
Qed.

(* the three names that the version before /repo 7f5d13e mishandled: two symbols saved to 'a{b}.svg', 'a}.svg', 'x{0}.png' now go
   to 'a{b}-02-0n.svg', 'a}-02-0n.svg', 'x{0}-02-0n.png' -- evaluated on the TRANSLATED code, and what the model says *)
Definition expect_names (pre suf : list Z) (q : py_obj) (name : py_out) : res unit :=
  match name with
  | POStr s => if pyr_str_eqb s (pre ++ [45; 48; 50; 45; 48; 49 + q] ++ suf) then Ok tt else Err AssertErr
  | _ => Err AssertErr
  end.
Example brace_name_agrees :
  SrcRouteSeq.src_QRCodeSequence_save (expect_names [97; 123; 98; 125] [46; 115; 118; 103]) [0; 1] (POStr [97; 123; 98; 125; 46; 115; 118; 103]) = Ok tt
  /\ SrcRouteSeq.src_QRCodeSequence_save (expect_names [97; 125] [46; 115; 118; 103]) [0; 1] (POStr [97; 125; 46; 115; 118; 103]) = Ok tt
  /\ SrcRouteSeq.src_QRCodeSequence_save (expect_names [120; 123; 48; 125] [46; 112; 110; 103]) [0; 1] (POStr [120; 123; 48; 125; 46; 112; 110; 103]) = Ok tt
  /\ sequence_filename [120; 123; 48; 125; 46; 112; 110; 103] 2 1 = [120; 123; 48; 125; 45; 48; 50; 45; 48; 49; 46; 112; 110; 103].
Proof. vm_compute. repeat split; reflexivity. Qed.

(* not vacuous: three symbols saved to 'sa.svg' *)
Example sequence_save_example :
  SrcRouteSeq.src_QRCodeSequence_save
    (fun q name => match name with
                   | POStr s => if pyr_str_eqb s [115; 97; 45; 48; 51; 45; 48; 49 + q; 46; 115; 118; 103] then Ok tt else Err AssertErr
                   | _ => Err AssertErr end)
    [0; 1; 2] (POStr [115; 97; 46; 115; 118; 103]) = Ok tt.
Proof. vm_compute. reflexivity. Qed.

Print Assumptions src_sequence_save_is_model.
