(* Bridge theorems: the helpers nested in encode_sequence of segno/encoder.py -- divide_into_chunks,
   calc_qrcode_bit_length, number_of_symbols_by_version, one_item_segments -- and calc_structured_append_parity, translated
   statement by statement from the CURRENT source as functions of their free variables (SegnoSrc.SrcSeq, written by
   gen/translate_glue.py), equal the hand-written model Model/Sequence.v, for content given as bytes.
   Re-checked by coqc on every run.  See DESIGN.md 11.11.

   Known finding D14 (make_sequence(version=v) underestimates the bits per symbol) lives in
   number_of_symbols_by_version: the bridge holds for the code AS IT IS -- the model reproduces the estimate, and
   [d14_on_translated_code] replays the witness of Lemmas/SeqLemmas.v (C08_refuted_fit) on the translated functions. *)
From Coq Require Import String.
From Coq Require Import ZArith List Bool Lia ZifyBool.
From Segno Require Import Base.PyLite Base.PySem Base.PySemSeg Base.PySemGlue Ref.IsoData Model.Bits Model.Segment Model.Version
  Model.Stream Model.Matrix Model.Encode Model.Sequence.
From Segno Require Tie.TieTables.
From Segno Require Import Tie.TieBase Tie.TieVersion Tie.TieFit Tie.TieSegMake Tie.TieSegments.
From SegnoSrc Require SrcTables.
From SegnoSrc Require Import SrcVersion SrcFit SrcMode SrcSegMake SrcSegments SrcSeq.
Import ListNotations.
Open Scope Z_scope.

(* ------------------------------------------------------------------ 1. divide_into_chunks *)
Lemma py_slice_is_slice_z {A} (l : list A) a b : 0 <= a <= b -> py_slice l a b = slice_z l a b.
Proof.
  intros Hab. unfold py_slice, slice_z, py_clip, lenZ.
  destruct (a <? 0) eqn:Ea; [lia|]. destruct (b <? 0) eqn:Eb; [lia|].
  destruct (Z_le_gt_dec a (Z.of_nat (length l))) as [Hal|Hal].
  - rewrite (Z.min_l a) by lia.
    destruct (Z_le_gt_dec b (Z.of_nat (length l))) as [Hbl|Hbl].
    + now rewrite (Z.min_l b) by lia.
    + rewrite (Z.min_r b) by lia.
      rewrite !firstn_all2; [reflexivity| |]; rewrite skipn_length; lia.
  - rewrite (skipn_all2 l (n := Z.to_nat a)) by lia.
    rewrite (skipn_all2 l (n := Z.to_nat (Z.min a (Z.of_nat (length l))))) by lia.
    now rewrite !firstn_nil.
Qed.

Theorem src_divide_into_chunks_is_model : forall (data : list Z) (num : Z), num <> 0 ->
  src_divide_into_chunks data num = Ok (divide_list data num).
Proof.
  intros data num Hn. unfold src_divide_into_chunks, py_divmod_res, divide_list.
  destruct (num =? 0) eqn:E0; [lia|]. cbn [bind]. cbv zeta. f_equal.
  apply map_ext_in. intros i Hi. apply zrange_In_inv in Hi.
  assert (Hpos : 0 < num) by lia.
  set (len := lenZ data). assert (Hlen : 0 <= len) by (unfold len, lenZ; lia).
  assert (Hk : 0 <= len / num) by (apply Z.div_pos; lia).
  assert (Hm : 0 <= len mod num < num) by (apply Z.mod_pos_bound; lia).
  apply py_slice_is_slice_z. nia.
Qed.

(* num = 0: divmod raises ZeroDivisionError, which PyLite.exn does not have *)
Lemma src_divide_into_chunks_zero data : src_divide_into_chunks data 0 = Err py_unmodelled.
Proof. reflexivity. Qed.

(* ------------------------------------------------------------------ 2. calc_qrcode_bit_length *)
(* the raw `encoding` argument equals 'iso-8859-1' (None does not) *)
Definition ostr_is_default (encoding : option String.string) : bool :=
  match encoding with Some x => String.eqb x DEFAULT_BYTE_ENCODING | None => false end.

Lemma ostr_is_default_enc (e : option enc) : ostr_is_default (option_map e_name e) = enc_is_default e.
Proof. destruct e; reflexivity. Qed.

Theorem src_calc_qrcode_bit_length_is_model :
  forall (char_count ver_range mode : Z) (encoding : option String.string) (is_eci is_sa : bool),
  src_calc_qrcode_bit_length char_count ver_range mode encoding is_eci is_sa
  = Sequence.calc_qrcode_bit_length char_count ver_range mode (ostr_is_default encoding) is_eci is_sa.
Proof.
  intros cc vr mode encoding is_eci is_sa.
  unfold src_calc_qrcode_bit_length, Sequence.calc_qrcode_bit_length, cci_length. tie_tables.
  destruct (getZ mode CHAR_COUNT_INDICATOR_LENGTH) as [row|ex]; cbn [bind]; [|reflexivity].
  destruct (getZ vr row) as [cci|ex]; cbn [bind]; [|reflexivity].
  cbv zeta. f_equal. fold (ostr_is_default encoding).
  unfold MODE_BYTE, MODE_NUMERIC, MODE_ALPHANUMERIC, MODE_KANJI, MODE_HANZI.
  set (q3 := cc / 3). set (q2 := cc / 2). set (r3 := cc mod 3). set (r2 := cc mod 2). clearbody q3 q2 r3 r2.
  rewrite orb_false_r.
  assert (Hr2 : negb (r2 =? 0) = if r2 =? 0 then false else true) by (destruct (r2 =? 0); reflexivity). rewrite Hr2.
  destruct (is_eci && ((mode =? 4) && negb (ostr_is_default encoding))) eqn:Ee.
  - replace (is_eci && (mode =? 4) && negb (ostr_is_default encoding)) with true by (rewrite <- Ee; apply andb_assoc).
    destruct is_sa, (mode =? 1), (mode =? 2), (mode =? 4), ((mode =? 8) || (mode =? 13)), (r3 =? 1), (r2 =? 0); lia.
  - replace (is_eci && (mode =? 4) && negb (ostr_is_default encoding)) with false by (rewrite <- Ee; apply andb_assoc).
    destruct is_sa, (mode =? 1), (mode =? 2), (mode =? 4), ((mode =? 8) || (mode =? 13)), (r3 =? 1), (r2 =? 0); lia.
Qed.

(* ------------------------------------------------------------------ 3. number_of_symbols_by_version *)
Lemma cci_table_bounded :
  forallb (fun row => forallb (fun kv => (0 <=? snd kv) && (snd kv <=? 16)) (snd row)) CHAR_COUNT_INDICATOR_LENGTH = true.
Proof. vm_compute. reflexivity. Qed.

Lemma capacity_table_bounded :
  forallb (fun row => forallb (fun kv => (0 <? snd kv) && (snd kv <? 4503599627370496)) (snd row)) SYMBOL_CAPACITY = true.
Proof. vm_compute. reflexivity. Qed.

Lemma assocZ_In_snd {A} k (l : list (Z * A)) v : assocZ k l = Some v -> In (k, v) l.
Proof. apply assocZ_In'. Qed.

Lemma cci_bounded mode vr c : cci_length mode vr = Ok c -> 0 <= c <= 16.
Proof.
  unfold cci_length, getZ. destruct (assocZ mode CHAR_COUNT_INDICATOR_LENGTH) as [row|] eqn:Er; cbn [bind]; [|discriminate].
  destruct (assocZ vr row) as [v|] eqn:Ev; [|discriminate]. intros [= <-].
  pose proof cci_table_bounded as H. rewrite forallb_forall in H.
  specialize (H _ (assocZ_In' _ _ _ Er)). cbn [snd] in H. rewrite forallb_forall in H.
  specialize (H _ (assocZ_In' _ _ _ Ev)). cbn [snd] in H. lia.
Qed.

Lemma capacity_bounded version error cap : capacity version error = Ok cap -> 0 < cap < 4503599627370496.
Proof.
  unfold capacity, getZ, getOZ. destruct (assocZ version SYMBOL_CAPACITY) as [row|] eqn:Er; cbn [bind]; [|discriminate].
  destruct (assocOZ error row) as [v|] eqn:Ev; [|discriminate]. intros [= <-].
  pose proof capacity_table_bounded as H. rewrite forallb_forall in H.
  specialize (H _ (assocZ_In' _ _ _ Er)). cbn [snd] in H. rewrite forallb_forall in H.
  destruct (assocOZ_In' _ _ _ Ev) as [k' Hk']. specialize (H _ Hk'). cbn [snd] in H. lia.
Qed.

Lemma ok_inj {A} (a b : A) : Ok a = Ok b -> a = b.
Proof. congruence. Qed.

Lemma bit_length_bounded cc vr mode d e bl : 0 <= cc ->
  Sequence.calc_qrcode_bit_length cc vr mode d e true = Ok bl -> 24 <= bl <= 13 * cc + 60.
Proof.
  intros Hcc. unfold Sequence.calc_qrcode_bit_length.
  destruct (cci_length mode vr) as [c|ex] eqn:Ec; cbn [bind]; [|discriminate].
  apply cci_bounded in Ec. intros H. apply ok_inj in H. subst bl.
  assert (H3 : 0 <= cc / 3 /\ 3 * (cc / 3) <= cc) by (split; [apply Z.div_pos; lia|apply Z.mul_div_le; lia]).
  assert (H2 : 0 <= cc / 2 /\ 2 * (cc / 2) <= cc) by (split; [apply Z.div_pos; lia|apply Z.mul_div_le; lia]).
  set (q3 := cc / 3) in *. set (q2 := cc / 2) in *. clearbody q3 q2. change (if true then 20 else 0) with 20.
  repeat match goal with |- context [if ?c then _ else _] => destruct c end; lia.
Qed.

Theorem src_number_of_symbols_by_version_is_model :
  forall (encoding : option String.string) (eci : bool) (content : list Z) (version : Z) (error : option Z) (mode : Z),
  lenZ content < 1099511627776 ->       (* 2^40 bytes: keeps the quotients inside the range where math.ceil(a / b) is exact *)
  src_number_of_symbols_by_version encoding eci content version error mode
  = Sequence.number_of_symbols_by_version (lenZ content) version error mode (ostr_is_default encoding) eci.
Proof.
  intros encoding eci content version error mode Hlen.
  unfold src_number_of_symbols_by_version, Sequence.number_of_symbols_by_version. cbv zeta.
  rewrite src_version_range_is_model.
  destruct (Version.version_range version) as [vr|ex]; cbn [bind]; [|reflexivity].
  rewrite src_calc_qrcode_bit_length_is_model.
  destruct (Sequence.calc_qrcode_bit_length (lenZ content) vr mode (ostr_is_default encoding) eci true) as [bl|ex] eqn:Ebl;
    cbn [bind]; [|reflexivity].
  tie_tables. unfold capacity.
  destruct (getZ version SYMBOL_CAPACITY) as [row|ex] eqn:Erow; cbn [bind]; [|reflexivity].
  destruct (getOZ error row) as [cap|ex] eqn:Ecap; cbn [bind]; [|reflexivity].
  assert (Hcap : capacity version error = Ok cap) by (unfold capacity; rewrite Erow; cbn [bind]; exact Ecap).
  assert (Hl0 : 0 <= lenZ content) by (unfold lenZ; lia).
  pose proof (bit_length_bounded _ _ _ _ _ _ Hl0 Ebl) as Hbl.
  pose proof (capacity_bounded _ _ _ Hcap) as Hc.
  rewrite (py_ceil_truediv_spec bl cap) by lia. cbn [bind]. fold (ceil_div bl cap).
  assert (Hcnt : 1 <= ceil_div bl cap <= bl).
  { unfold ceil_div. split.
    - apply Z.div_le_lower_bound; lia.
    - apply Z.div_le_upper_bound; [lia|nia]. }
  set (cnt := ceil_div bl cap) in *.
  replace (bl + (5 * 4 * (cnt - 1) + (if eci then 12 * (cnt - 1) else 0)))
    with (bl + 20 * (cnt - 1) + (if eci then 12 * (cnt - 1) else 0)) by (destruct eci; lia).
  rewrite py_ceil_truediv_spec; [reflexivity| |lia]. destruct eci; lia.
Qed.

(* ------------------------------------------------------------------ 4. one_item_segments *)
Theorem src_one_item_segments_is_model : forall (encoding : option enc) (chunk : list Z) (mode : Z),
  enc_named encoding ->
  src_one_item_segments (option_map e_name encoding) chunk mode
  = do segs <- Sequence.one_item_segments (SBytes chunk) mode encoding; Ok (to_py_segs segs).
Proof.
  intros encoding chunk mode Henc. unfold src_one_item_segments, Sequence.one_item_segments. cbn [pcontent_of]. cbv zeta.
  rewrite src_make_segment_is_model by exact Henc.
  destruct (make_segment (PBytes chunk) (Some mode) encoding) as [s|ex]; cbn [bind]; [|reflexivity].
  rewrite src_segments_init_is_model. change (@nil segment) with (rev (@nil segment)) at 1.
  rewrite src_add_segment_is_model. reflexivity.
Qed.

(* ------------------------------------------------------------------ 5. calc_structured_append_parity *)
Lemma fold_lxor_shift : forall r x y, fold_left Z.lxor r (Z.lxor x y) = Z.lxor x (fold_left Z.lxor r y).
Proof.
  induction r as [|w r IH]; intros x y; cbn [fold_left]; [reflexivity|].
  rewrite Z.lxor_assoc. apply IH.
Qed.

Lemma xor_all_is_fold : forall r x, xor_all (x :: r) = Ok (fold_left Z.lxor r x).
Proof.
  induction r as [|y r IH]; intros x; [reflexivity|].
  change (xor_all (x :: y :: r)) with (do z <- xor_all (y :: r); Ok (Z.lxor x z)).
  rewrite IH. cbn [bind fold_left]. now rewrite fold_lxor_shift.
Qed.

Theorem src_calc_structured_append_parity_is_model : forall (content : list Z) (encoding : option String.string),
  src_calc_structured_append_parity content encoding = xor_all content.
Proof.
  intros content encoding. unfold src_calc_structured_append_parity, src_data_to_bytes. cbn [bind]. rewrite bind_ret.
  destruct content as [|x r]; [reflexivity|]. cbn [py_reduce_xor]. now rewrite xor_all_is_fold.
Qed.

(* as encode_sequence uses it: the XOR of the bytes data_to_bytes returns for the whole content *)
Corollary src_parity_of_content : forall (content : list Z) (encoding : option enc),
  src_calc_structured_append_parity content (option_map e_name encoding)
  = do p <- Segment.data_to_bytes (PBytes content) encoding; xor_all (fst p).
Proof. intros. rewrite src_calc_structured_append_parity_is_model. reflexivity. Qed.

(* ------------------------------------------------------------------ 6. D14 on the translated code *)
(* 71 digits, version 1, level L: the translated estimate says two symbols, the translated division gives chunks of 36 and
   35 digits, and the Segments object the translated one_item_segments builds for the first chunk needs 154 bits with
   the Structured Append header (translated bit_length_with_overhead) where the symbol holds 152 *)
Definition d14_bytes : list Z := map (fun i => 48 + i mod 10) (zrange 0 71).

Example d14_on_translated_code :
  src_number_of_symbols_by_version None false d14_bytes 1 (Some 1) 1 = Ok 2
  /\ (do chunks <- src_divide_into_chunks d14_bytes 2; Ok (map (@lenZ Z) chunks)) = Ok [36; 35]
  /\ (do chunks <- src_divide_into_chunks d14_bytes 2; do c <- nthZ chunks 0;
      do sg <- src_one_item_segments None c 1; src_Segments_bit_length_with_overhead sg 1 false true) = Ok 154
  /\ (do row <- getZ 1 SrcTables.SYMBOL_CAPACITY; getOZ (Some 1) row) = Ok 152.
Proof. vm_compute. repeat split; reflexivity. Qed.

Print Assumptions src_divide_into_chunks_is_model.
Print Assumptions src_calc_qrcode_bit_length_is_model.
Print Assumptions src_number_of_symbols_by_version_is_model.
Print Assumptions src_one_item_segments_is_model.
Print Assumptions src_calc_structured_append_parity_is_model.
