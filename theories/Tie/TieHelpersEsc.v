(* Bridge theorems: _escape_mecard / _escape_vcard of segno/helpers.py and the three dicts they and make_vcard_data use with
   str.translate (_MECARD_ESCAPE, _VCARD_ESCAPE, _VCARD_ESCAPE_NAME), translated / dumped from the CURRENT source
   (SegnoSrc.SrcHelpersEsc, written by gen/translate_helpers.py), equal the hand-written model (Model/Helpers.v) for
   ARBITRARY strings (lists of code points of any length, any code points).  The dicts are compared as mappings
   (PySemStr.py_tbl_equiv: same lookup result for every key), so the order of their entries in the source does not matter.
   Also: the correspondences between the str semantics of Base/PySemStr.v and the helper functions of the model that the
   other TieHelpers*.v files share.  Re-checked by coqc on every run.  See DESIGN.md 11.13. *)
From Coq Require Import ZArith List Bool Lia.
From Segno Require Import Base.PyLite Base.PySem Base.PySemStr Model.Color Model.Helpers.
From SegnoSrc Require Import SrcHelpersEsc.
Import ListNotations.
Open Scope Z_scope.

(* ------------------------------------------------------------------ the dumped dicts are the model's tables *)
Lemma tbl_mecard_is_model : py_tbl_equiv tbl_MECARD_ESCAPE MECARD_ESCAPE = true.
Proof. vm_compute. reflexivity. Qed.
Lemma tbl_vcard_is_model : py_tbl_equiv tbl_VCARD_ESCAPE VCARD_ESCAPE = true.
Proof. vm_compute. reflexivity. Qed.
(* the model computes the name table with the same comprehension as the source: filter on the keys ',' and ';' *)
Lemma tbl_vcard_name_is_model : py_tbl_equiv tbl_VCARD_ESCAPE_NAME VCARD_ESCAPE_NAME = true.
Proof. vm_compute. reflexivity. Qed.

Lemma py_str_translate_is_model tbl s : py_str_translate tbl s = Helpers.translate tbl s.
Proof. reflexivity. Qed.

(* ------------------------------------------------------------------ the escape functions, for arbitrary strings *)
Theorem src_escape_mecard_is_model : forall s, src__escape_mecard s = escape_mecard s.
Proof.
  intros s. unfold src__escape_mecard, escape_mecard.
  rewrite (py_str_translate_equiv _ _ s tbl_mecard_is_model). apply py_str_translate_is_model.
Qed.

Theorem src_escape_vcard_is_model : forall s, src__escape_vcard s = escape_vcard s.
Proof.
  intros s. unfold src__escape_vcard, escape_vcard.
  rewrite (py_str_translate_equiv _ _ s tbl_vcard_is_model). apply py_str_translate_is_model.
Qed.

(* str(name).translate(_VCARD_ESCAPE_NAME): not a function of its own in helpers.py (inline in make_vcard_data) *)
Theorem src_escape_vcard_name_is_model : forall s, py_str_translate tbl_VCARD_ESCAPE_NAME s = escape_vcard_name s.
Proof.
  intros s. unfold escape_vcard_name.
  rewrite (py_str_translate_equiv _ _ s tbl_vcard_name_is_model). apply py_str_translate_is_model.
Qed.

(* as functions (for rewriting under `map` / inside local definitions) *)
Lemma src_escape_mecard_ext : forall {A} (f : (list Z -> list Z) -> A),
  (forall g h, (forall s, g s = h s) -> f g = f h) -> f src__escape_mecard = f escape_mecard.
Proof. intros A f Hf. apply Hf. exact src_escape_mecard_is_model. Qed.

(* ------------------------------------------------------------------ PySemStr vs. the helper functions of the model *)
Lemma py_str_join_is_model sep l : py_str_join sep l = Helpers.join sep l.
Proof. induction l as [|x r IH]; cbn [py_str_join Helpers.join]; [reflexivity|]. destruct r; [reflexivity|]. now rewrite IH. Qed.

Lemma py_ostr_truthy_is_model o : py_ostr_truthy o = truthy o.
Proof. reflexivity. Qed.
Lemma py_ostr_get_is_model o : py_ostr_get o = or_empty o.
Proof. reflexivity. Qed.

Lemma py_str_eqb_is_model a : forall b, py_str_eqb a b = str_eqb a b.
Proof. induction a as [|x a IH]; intros [|y b]; cbn [py_str_eqb str_eqb]; try reflexivity; now rewrite IH. Qed.

Lemma py_str_rstrip_char s c : py_str_rstrip s [c] = rstrip_char c s.
Proof.
  unfold rstrip_char. induction s as [|x r IH]; cbn [py_str_rstrip rstrip_by]; [reflexivity|].
  rewrite IH. destruct (rstrip_by (Z.eqb c) r); [|reflexivity].
  cbn [memZ existsb]. rewrite orb_false_r, Z.eqb_sym. reflexivity.
Qed.

(* ''.join(data) *)
Lemma join_nil_concat (l : list (list Z)) : Helpers.join [] l = concat l.
Proof.
  induction l as [|x r IH]; cbn [Helpers.join concat]; [reflexivity|].
  destruct r as [|y r']; [cbn [concat]; now rewrite app_nil_r|]. rewrite IH. reflexivity.
Qed.

(* `if x: data.append(e)` for a str-or-None x, after the narrowing `let x := py_ostr_get x` *)
Lemma opt_append {A} (o : option (list Z)) (data : list A) (f : list Z -> A) :
  (if py_ostr_truthy o then data ++ [f (py_ostr_get o)] else data) = data ++ (if truthy o then [f (or_empty o)] else []).
Proof. destruct o as [[|c s]|]; cbn; try rewrite app_nil_r; reflexivity. Qed.

(* `if not val: return ()` ... `return [f(i) for i in val]` *)
Lemma multifield_map {A B} (val : list A) (f : A -> B) :
  (if negb (negb (lenZ val =? 0)) then [] else map f val) = map f val.
Proof. destruct val; reflexivity. Qed.

Print Assumptions src_escape_mecard_is_model.
Print Assumptions src_escape_vcard_is_model.
Print Assumptions src_escape_vcard_name_is_model.
