(* Bridge theorems: mask_scores (with its nested n3_pattern_occurrences) and evaluate_mask of segno/encoder.py, translated
   statement by statement from the CURRENT source (SegnoSrc.SrcMaskScores), equal the hand-written model
   (Model/Matrix.v: mask_scores / evaluate_mask), which Lemmas/MaskLemmas.v proves equal to the independent ISO 7.8.3.1
   scorer (evaluate_mask_is_iso).  Re-checked by coqc on every run.  See DESIGN.md 11.7.2.

   The source scores in ONE double loop: per row i it scans row i and column i together (N1 run counters for both, the
   dark count, N2 against the previous row, the column collected into a bytearray), then searches row and column for
   1011101 (N3, bytearray.find in a while loop).  The model scores line by line over the rows and over the transposed
   matrix.  The proof: (0) the translated definition is restated with named loop bodies (checked by conversion);
   (A) n3_pattern_occurrences = n3_line; (B) one iteration of the inner loop is a pure step, and every component of
   the folded state has its own lemma (dark count, column, N1 runs, N2); (C) one iteration of the outer loop; (D) the
   outer loop and the model's sums; (E) N4: the float computation agrees with the exact integer formula for every
   dark count of every symbol size (kernel evaluation of the primitive floats, finite sweep). *)
From Coq Require Import ZArith List Bool Lia ZifyBool.
From Segno Require Import Base.PyLite Base.PySem Base.PySemExt Ref.Geometry Ref.Spec Model.Bits Model.Matrix.
From Segno Require Import Lemmas.MaskLemmas Tie.TieBase Tie.TieLoops.
From SegnoSrc Require Import SrcMaskScores.
Import ListNotations.
Open Scope Z_scope.

(* ================================================================== 0. the translated definition, restated *)
Definition n3_step (qr_size : Z) (n3_pattern seq : list Z) (st' : Z * Z) : res (ctl void (Z * Z)) :=
  let '(count, idx) := st' in
  if negb (Z.eqb idx (-1))
  then (let offset := Z.add idx 7 in
        let count := (if orb (orb (Z.eqb idx 0) (orb (Z.eqb idx (Z.sub qr_size 7)) false))
                             (orb (negb (py_any (py_slice seq (Z.max (Z.sub idx 4) 0) (Z.min idx qr_size))))
                                  (negb (py_any (py_slice seq (Z.max offset 0) (Z.min (Z.add offset 4) qr_size)))))
                      then Z.add count 40 else count) in
        let idx := py_bytes_find seq n3_pattern (Z.add idx 4) in
        Ok (CNext (count, idx)))
  else Ok (CBrk (count, idx)).

Definition n3_occ (fuel : nat) (qr_size : Z) (n3_pattern seq : list Z) : res Z :=
  match py_while (A:=void) fuel (n3_step qr_size n3_pattern seq) (0, py_bytes_find seq n3_pattern 0) with
  | Err e' => Err e'
  | Ok (inl r') => (match r' return _ with end)
  | Ok (inr st') => (let '(count, idx) := st' in Ok count)
  end.

Definition inner_state : Type := (Z * Z * Z * Z * list Z * Z * Z * Z)%type.
Definition outer_state : Type := (Z * option (list Z) * list Z * Z * Z * Z)%type.

Definition inner_body (matrix : list (list Z)) (i : Z) (row : list Z) (last_row : option (list Z)) (j : Z) (st' : inner_state)
  : res (ctl void inner_state) :=
  let '(col_prev_bit, dark_module_counter, n1_col_counter, n1_row_counter, n3_column, row_prev_bit, score_n1, score_n2) := st' in
  do t'4 <- py_index row j;
  let row_current_bit := t'4 in
  do t'5 <- py_index matrix j;
  do t'6 <- py_index t'5 i;
  let col_current_bit := t'6 in
  do n3_column <- py_set_item n3_column j col_current_bit;
  let dark_module_counter := Z.add dark_module_counter row_current_bit in
  let '(n1_row_counter, score_n1) :=
    (if Z.eqb row_current_bit row_prev_bit then (Z.add n1_row_counter 1, score_n1)
     else (1, if Z.geb n1_row_counter 5 then Z.add score_n1 (Z.sub n1_row_counter 2) else score_n1)) in
  let '(n1_col_counter, score_n1) :=
    (if Z.eqb col_current_bit col_prev_bit then (Z.add n1_col_counter 1, score_n1)
     else (1, if Z.geb n1_col_counter 5 then Z.add score_n1 (Z.sub n1_col_counter 2) else score_n1)) in
  do t'14 <- (if (match last_row with None => false | Some x_ => negb (Z.eqb (lenZ x_) 0) end)
              then (do t'13 <- (if negb (Z.eqb j 0)
                                then (do t'12 <- (if Z.eqb row_current_bit row_prev_bit
                                                  then (do t'7 <- (match last_row with Some x_ => Ok x_ | None => Err TypeErr end);
                                                        do t'8 <- py_index t'7 j;
                                                        do t'11 <- (if Z.eqb row_prev_bit t'8
                                                                    then (do t'9 <- (match last_row with Some x_ => Ok x_ | None => Err TypeErr end);
                                                                          do t'10 <- py_index t'9 (Z.sub j 1);
                                                                          Ok (Z.eqb t'8 t'10))
                                                                    else Ok false);
                                                        Ok t'11)
                                                  else Ok false);
                                      Ok t'12)
                                else Ok false);
                    Ok t'13)
              else Ok false);
  let score_n2 := (if (t'14 : bool) then Z.add score_n2 3 else score_n2) in
  Ok (CNext (col_current_bit, dark_module_counter, n1_col_counter, n1_row_counter, n3_column, row_current_bit, score_n1, score_n2)).

Definition outer_body (fuel : nat) (matrix : list (list Z)) (qr_size : Z) (n3_pattern : list Z) (i : Z) (st' : outer_state)
  : res (ctl void outer_state) :=
  let '(dark_module_counter, last_row, n3_column, score_n1, score_n2, score_n3) := st' in
  do t'3 <- py_index matrix i;
  let row := t'3 in
  match py_for (A:=void) (zrange 0 qr_size) (inner_body matrix i row last_row)
               (-1, dark_module_counter, 0, 0, n3_column, -1, score_n1, score_n2) with
  | Err e' => Err e'
  | Ok (inl r') => (match r' return _ with end)
  | Ok (inr st') =>
      let '(col_prev_bit, dark_module_counter, n1_col_counter, n1_row_counter, n3_column, row_prev_bit, score_n1, score_n2) := st' in
      let last_row := Some row in
      do t'15 <- n3_occ fuel qr_size n3_pattern row;
      let score_n3 := Z.add score_n3 t'15 in
      do t'16 <- n3_occ fuel qr_size n3_pattern n3_column;
      let score_n3 := Z.add score_n3 t'16 in
      let score_n1 := (if Z.geb n1_row_counter 5 then Z.add score_n1 (Z.sub n1_row_counter 2) else score_n1) in
      let score_n1 := (if Z.geb n1_col_counter 5 then Z.add score_n1 (Z.sub n1_col_counter 2) else score_n1) in
      Ok (CNext (dark_module_counter, last_row, n3_column, score_n1, score_n2, score_n3))
  end.

(* N4 = 10 * int(abs(float(dark) / (size ** 2) * 100 - 50) / 5), in binary64 arithmetic *)
Definition n4_src (dark qr_size : Z) : res Z :=
  do t'17 <- py_float_of_int dark;
  do t'18 <- py_float_of_int (Z.pow qr_size 2);
  do t'19 <- py_float_div t'17 t'18;
  let percent := t'19 in
  do t'20 <- py_float_div (py_float_abs (py_float_sub (py_float_mul percent (py_float_of_Z 100)) (py_float_of_Z 50))) (py_float_of_Z 5);
  do t'21 <- py_int_of_float t'20;
  Ok (Z.mul 10 t'21).

Lemma src_mask_scores_unfold (fuel : nat) (matrix : list (list Z)) (width height : Z) :
  src_mask_scores fuel matrix width height =
  do n3_pattern <- py_bytearray [1; 0; 1; 1; 1; 0; 1];
  if Z.eqb width height then
    do col0 <- py_bytearray_zeros width;
    match py_for (A:=void) (zrange 0 width) (outer_body fuel matrix width n3_pattern) (0, None, col0, 0, 0, 0) with
    | Err e' => Err e'
    | Ok (inl r') => (match r' return _ with end)
    | Ok (inr st') =>
        let '(dark_module_counter, last_row, n3_column, score_n1, score_n2, score_n3) := st' in
        do score_n4 <- n4_src dark_module_counter width;
        Ok [score_n1; score_n2; score_n3; score_n4]
    end
  else Err AssertErr.
Proof.
  unfold src_mask_scores. destruct (py_bytearray [1; 0; 1; 1; 1; 0; 1]) as [pat|e]; cbn [bind]; [|reflexivity].
  destruct (Z.eqb width height); [|reflexivity].
  destruct (py_bytearray_zeros width) as [col0|e]; cbn [bind]; [|reflexivity].
  match goal with |- match ?a with _ => _ end = match ?b with _ => _ end => change a with b end.
  destruct (py_for _ _ _) as [[r|[[[[[dark last] col] s1] s2] s3]]|e]; [destruct r| |reflexivity].
  unfold n4_src.
  destruct (py_float_of_int dark) as [f1|e]; cbn [bind]; [|reflexivity].
  destruct (py_float_of_int (width ^ 2)) as [f2|e]; cbn [bind]; [|reflexivity].
  destruct (py_float_div f1 f2) as [f3|e]; cbn [bind]; [|reflexivity].
  destruct (py_float_div _ _) as [f4|e]; cbn [bind]; [|reflexivity].
  destruct (py_int_of_float f4) as [v|e]; cbn [bind]; reflexivity.
Qed.

(* ================================================================== A. n3_pattern_occurrences *)
Definition zbits (l : list bool) : list Z := map bit_z l.

Lemma bit_z_eqb a b : (bit_z a =? bit_z b) = Bool.eqb a b.
Proof. destruct a, b; reflexivity. Qed.

Lemma lenZ_zbits l : lenZ (zbits l) = lenZ l.
Proof. unfold lenZ, zbits. now rewrite map_length. Qed.

Lemma py_starts_with_bits : forall p l, py_starts_with (zbits p) (zbits l) = starts_with p l.
Proof.
  induction p as [|a p IH]; intros l; [reflexivity|]. destruct l as [|b l]; [reflexivity|].
  cbn [zbits map py_starts_with starts_with]. rewrite bit_z_eqb. f_equal. apply IH.
Qed.

Lemma pat_bits : [1; 0; 1; 1; 1; 0; 1] = zbits n3_pattern.
Proof. reflexivity. Qed.

Definition enc_opt (o : option Z) : Z := match o with Some i => i | None => -1 end.

Lemma py_find_suffix_bits : forall suf pos,
  py_find_suffix (zbits n3_pattern) (zbits suf) pos = enc_opt (find_from suf pos).
Proof.
  induction suf as [|a r IH]; intros pos; [reflexivity|].
  cbn [zbits map py_find_suffix find_from]. change (bit_z a :: map bit_z r) with (zbits (a :: r)).
  rewrite py_starts_with_bits. destruct (starts_with n3_pattern (a :: r)); [reflexivity|]. apply IH.
Qed.

Lemma starts_with_len : forall p l, starts_with p l = true -> (length p <= length l)%nat.
Proof.
  induction p as [|a p IH]; intros l H; [cbn; lia|]. destruct l as [|b l]; [discriminate|].
  cbn [starts_with] in H. apply andb_true_iff in H. destruct H as [_ H]. apply IH in H. cbn [length]. lia.
Qed.

Lemma find_from_short suf pos : (length suf < 7)%nat -> find_from suf pos = None.
Proof.
  intros Hlen. pose proof (find_from_spec suf pos) as H. destruct (find_from suf pos) as [idx|]; [|reflexivity].
  destruct H as [k [_ [Hm _]]]. apply starts_with_len in Hm. rewrite skipn_length in Hm. cbn [n3_pattern length] in Hm. lia.
Qed.

Definition enc_find (l : list bool) (start : Z) : Z := enc_opt (find_from (skipn (Z.to_nat start) l) start).

Lemma py_bytes_find_bits l start : 0 <= start ->
  py_bytes_find (zbits l) (zbits n3_pattern) start = enc_find l start.
Proof.
  intros Hs. unfold py_bytes_find, enc_find. destruct (start <? 0) eqn:E; [lia|]. rewrite lenZ_zbits.
  change (lenZ (zbits n3_pattern)) with 7.
  destruct (lenZ l <? start + 7) eqn:E1.
  - rewrite find_from_short; [reflexivity|]. rewrite skipn_length. unfold lenZ in E1. lia.
  - unfold zbits at 2. rewrite skipn_map. apply py_find_suffix_bits.
Qed.

Lemma py_slice_model {A} (l : list A) a b : 0 <= a -> 0 <= b -> py_slice l a b = slice l a b.
Proof.
  intros Ha Hb. unfold py_slice, py_clip, slice. destruct (a <? 0) eqn:E1; [lia|]. destruct (b <? 0) eqn:E2; [lia|].
  unfold lenZ. set (n := length l).
  destruct (Z_lt_le_dec a (Z.of_nat n)) as [Hlt|Hge].
  - rewrite (Z.min_l a) by lia. destruct (Z_le_gt_dec b (Z.of_nat n)) as [Hb1|Hb1].
    + rewrite Z.min_l by lia. reflexivity.
    + rewrite Z.min_r by lia. rewrite !firstn_all2; [reflexivity| |]; rewrite skipn_length; fold n; lia.
  - rewrite (skipn_all2 l (n:=Z.to_nat a)) by (fold n; lia).
    rewrite (skipn_all2 l (n:=Z.to_nat (Z.min a (Z.of_nat n)))) by (fold n; lia).
    now rewrite !firstn_nil.
Qed.

Lemma py_any_bits l : py_any (zbits l) = any_dark l.
Proof.
  unfold py_any, any_dark, zbits. induction l as [|b l IH]; [reflexivity|]. cbn [map existsb]. rewrite IH. now destruct b.
Qed.

Lemma slice_bits l a b : slice (zbits l) a b = zbits (slice l a b).
Proof. unfold slice, zbits. now rewrite skipn_map, firstn_map. Qed.

Lemma n3_while l size : 0 <= size -> forall f F count start,
  0 <= start -> lenZ l - start <= Z.of_nat f - 1 -> (f < F)%nat ->
  py_while (A:=void) F (n3_step size (zbits n3_pattern) (zbits l)) (count, enc_find l start)
  = Ok (inr (count + n3_loop f l size start, -1)).
Proof.
  intros Hsize. induction f as [|f IH]; intros F count start Hs Hlen HF; (destruct F as [|F]; [lia|]).
  - assert (E : enc_find l start = -1).
    { unfold enc_find. rewrite skipn_all2 by (unfold lenZ in Hlen; lia). reflexivity. }
    rewrite E. cbn [py_while n3_step n3_loop]. change (negb (-1 =? -1)) with false. cbv iota. now rewrite Z.add_0_r.
  - cbn [n3_loop]. pose proof (find_from_Z l start Hs) as Hf. unfold enc_find at 1.
    destruct (find_from (skipn (Z.to_nat start) l) start) as [idx|] eqn:Efind; cbn [enc_opt].
    + destruct Hf as [Hidx _]. cbn [py_while]. unfold n3_step at 1.
      destruct (idx =? -1) eqn:E1; [lia|]. cbn [negb]. cbv zeta.
      rewrite py_bytes_find_bits by lia.
      rewrite !py_slice_model by lia. rewrite !slice_bits, !py_any_bits.
      rewrite IH by lia. do 2 f_equal. f_equal.
      rewrite orb_false_r, <- !orb_assoc.
      destruct (_ || _); lia.
    + cbn [py_while n3_step]. change (negb (-1 =? -1)) with false. cbv iota. now rewrite Z.add_0_r.
Qed.

Theorem n3_occ_is_model : forall (fuel : nat) (size : Z) (l : list bool),
  0 <= size -> (length l + 2 <= fuel)%nat ->
  n3_occ fuel size [1; 0; 1; 1; 1; 0; 1] (zbits l) = Ok (n3_line size l).
Proof.
  intros fuel size l Hsize Hfuel. unfold n3_occ. rewrite pat_bits. rewrite py_bytes_find_bits by lia.
  rewrite (n3_while l size Hsize (S (length l)) fuel 0 0); [reflexivity|lia|unfold lenZ; lia|lia].
Qed.

(* ================================================================== B. the inner loop *)
Definition zn (l : list Z) (j : Z) : Z := nth (Z.to_nat j) l 0.
Definition colv (M : list (list Z)) (i : Z) : list Z := map (fun r => zn r i) M.

Lemma py_index_nth {A} (d : A) (l : list A) j : 0 <= j < lenZ l -> py_index l j = Ok (nth (Z.to_nat j) l d).
Proof.
  intros Hj. rewrite py_index_nonneg by lia. unfold nthZ. destruct (j <? 0) eqn:E; [lia|].
  unfold lenZ in Hj. destruct (nth_error l (Z.to_nat j)) as [v|] eqn:En.
  - now rewrite (nth_error_nth _ _ d En).
  - apply nth_error_None in En. lia.
Qed.
Lemma py_index_zn l j : 0 <= j < lenZ l -> py_index l j = Ok (zn l j).
Proof. apply py_index_nth. Qed.

Lemma zn_nil i : zn [] i = 0.
Proof. unfold zn. now destruct (Z.to_nat i). Qed.
Lemma zn_colv M i j : zn (colv M i) j = zn (nth (Z.to_nat j) M []) i.
Proof. unfold colv, zn at 1. rewrite <- (zn_nil i). exact (map_nth (fun r => zn r i) M [] (Z.to_nat j)). Qed.
Lemma zn_zbits l j : zn (zbits l) j = bit_z (nth (Z.to_nat j) l false).
Proof. unfold zn, zbits. exact (map_nth bit_z l false (Z.to_nat j)). Qed.

Lemma upd_nat_length {A} (x : A) : forall l k, length (upd_nat l k x) = length l.
Proof. induction l as [|y l IH]; intros k; [reflexivity|]. destruct k; cbn [upd_nat length]; [reflexivity|]. now rewrite IH. Qed.

Definition n2_hit (last : option (list Z)) (row : list Z) (j rp : Z) : bool :=
  match last with
  | None => false
  | Some l => negb (lenZ l =? 0) && (negb (j =? 0) && ((zn row j =? rp) && ((rp =? zn l j) && (zn l j =? zn l (j - 1)))))
  end.

Definition inner_step (row cv : list Z) (last : option (list Z)) (j : Z) (st : inner_state) : inner_state :=
  let '(cp, d, cc, rc, col, rp, s1, s2) := st in
  let x := zn row j in
  let y := zn cv j in
  let '(rc', s1a) := (if x =? rp then (rc + 1, s1) else (1, if rc >=? 5 then s1 + (rc - 2) else s1)) in
  let '(cc', s1b) := (if y =? cp then (cc + 1, s1a) else (1, if cc >=? 5 then s1a + (cc - 2) else s1a)) in
  (y, d + x, cc', rc', upd_nat col (Z.to_nat j) y, x, s1b, if n2_hit last row j rp then s2 + 3 else s2).

Definition st_col (st : inner_state) : list Z := let '(_, _, _, _, col, _, _, _) := st in col.
Definition st_d (st : inner_state) : Z := let '(_, d, _, _, _, _, _, _) := st in d.
Definition st_rp (st : inner_state) : Z := let '(_, _, _, _, _, rp, _, _) := st in rp.
Definition st_rc (st : inner_state) : Z := let '(_, _, _, rc, _, _, _, _) := st in rc.
Definition st_cp (st : inner_state) : Z := let '(cp, _, _, _, _, _, _, _) := st in cp.
Definition st_cc (st : inner_state) : Z := let '(_, _, cc, _, _, _, _, _) := st in cc.
Definition st_s1 (st : inner_state) : Z := let '(_, _, _, _, _, _, s1, _) := st in s1.
Definition st_s2 (st : inner_state) : Z := let '(_, _, _, _, _, _, _, s2) := st in s2.

(* one iteration, symbolically: all lookups are in range *)
Lemma inner_body_step M i row last j st :
  0 <= j < lenZ row -> 0 <= j < lenZ M -> 0 <= i < lenZ (nth (Z.to_nat j) M []) ->
  0 <= j < lenZ (st_col st) -> is_byte (zn (nth (Z.to_nat j) M []) i) = true ->
  (forall l, last = Some l -> lenZ l = lenZ row) ->
  inner_body M i row last j st = Ok (CNext (inner_step row (colv M i) last j st)).
Proof.
  destruct st as [[[[[[[cp d] cc] rc] col] rp] s1] s2]. cbn [st_col]. intros Hrow HM Hi Hcol Hbyte Hlast.
  unfold inner_body, inner_step, n2_hit.
  rewrite (py_index_zn row j Hrow). cbn [bind]. rewrite (py_index_nth [] M j HM). cbn [bind].
  rewrite (py_index_zn _ i Hi). cbn [bind]. rewrite zn_colv.
  unfold py_set_item. rewrite Hbyte. unfold py_norm_index.
  destruct (j <? 0) eqn:E0; [lia|]. destruct ((0 <=? j) && (j <? lenZ col)) eqn:E1; [|lia]. cbn [bind]. cbv zeta.
  set (x := zn row j). set (y := zn (nth (Z.to_nat j) M []) i).
  destruct last as [l|].
  2:{ cbn [bind]. destruct (x =? rp); destruct (y =? cp); reflexivity. }
  specialize (Hlast l eq_refl).
  destruct (lenZ l =? 0) eqn:El; cbn [negb andb bind].
  { destruct (x =? rp); destruct (y =? cp); reflexivity. }
  destruct (j =? 0) eqn:Ej; cbn [negb andb bind].
  { destruct (x =? rp); destruct (y =? cp); reflexivity. }
  destruct (x =? rp) eqn:Ex; cbn [negb andb bind].
  2:{ destruct (y =? cp); reflexivity. }
  rewrite (py_index_zn l j) by lia. cbn [bind].
  destruct (rp =? zn l j) eqn:Er; cbn [negb andb bind].
  2:{ destruct (y =? cp); reflexivity. }
  rewrite (py_index_zn l (j - 1)) by lia. cbn [bind].
  destruct (y =? cp); reflexivity.
Qed.

Lemma inner_step_col_len row cv last j st : lenZ (st_col (inner_step row cv last j st)) = lenZ (st_col st).
Proof.
  destruct st as [[[[[[[cp d] cc] rc] col] rp] s1] s2]. unfold inner_step. cbv zeta.
  destruct (zn row j =? rp); destruct (zn cv j =? cp); cbn [st_col]; unfold lenZ; now rewrite upd_nat_length.
Qed.

Definition inner_fold (row cv : list Z) (last : option (list Z)) (js : list Z) (st : inner_state) : inner_state :=
  fold_left (fun st j => inner_step row cv last j st) js st.

Lemma inner_fold_col_len row cv last : forall js st, lenZ (st_col (inner_fold row cv last js st)) = lenZ (st_col st).
Proof.
  induction js as [|j js IH]; intros st; [reflexivity|]. unfold inner_fold in *. cbn [fold_left]. rewrite IH. apply inner_step_col_len.
Qed.

Lemma inner_loop M i row last size : forall js st,
  lenZ row = size -> lenZ M = size -> Forall (fun r => lenZ r = size) M -> 0 <= i < size ->
  Forall (fun r => Forall (fun v => is_byte v = true) r) M ->
  lenZ (st_col st) = size -> (forall l, last = Some l -> lenZ l = size) ->
  Forall (fun j => 0 <= j < size) js ->
  py_for (A:=void) js (inner_body M i row last) st = Ok (inr (inner_fold row (colv M i) last js st)).
Proof.
  induction js as [|j js IH]; intros st Hrow HM Hsq Hi Hbytes Hcol Hlast Hjs; [reflexivity|].
  pose proof (Forall_inv Hjs) as Hj. pose proof (Forall_inv_tail Hjs) as Hjs'. cbv beta in Hj. cbn [py_for].
  assert (Hr : In (nth (Z.to_nat j) M []) M) by (apply nth_In; unfold lenZ in HM; lia).
  rewrite inner_body_step.
  - unfold inner_fold. cbn [fold_left]. apply IH; try assumption. now rewrite inner_step_col_len.
  - lia.
  - lia.
  - rewrite (proj1 (Forall_forall _ _) Hsq _ Hr). lia.
  - lia.
  - pose proof (proj1 (Forall_forall _ _) Hbytes _ Hr) as Hb. rewrite Forall_forall in Hb. apply Hb.
    unfold zn. apply nth_In. pose proof (proj1 (Forall_forall _ _) Hsq _ Hr) as Hl. unfold lenZ in Hl. lia.
  - intros l Hl. rewrite (Hlast l Hl). lia.
Qed.

(* ---- component: the dark count *)
Lemma inner_step_d row cv last j st : st_d (inner_step row cv last j st) = st_d st + zn row j.
Proof.
  destruct st as [[[[[[[cp d] cc] rc] col] rp] s1] s2]. unfold inner_step. cbv zeta.
  destruct (zn row j =? rp); destruct (zn cv j =? cp); reflexivity.
Qed.
Lemma inner_fold_dark row cv last : forall js st,
  st_d (inner_fold row cv last js st) = st_d st + lsum (zn row) js.
Proof.
  induction js as [|j js IH]; intros st; [rewrite lsum_nil; cbn; lia|].
  unfold inner_fold in *. cbn [fold_left]. rewrite IH, inner_step_d, lsum_cons. lia.
Qed.

(* ---- component: the column collected into n3_column *)
Lemma inner_step_col row cv last j st :
  st_col (inner_step row cv last j st) = upd_nat (st_col st) (Z.to_nat j) (zn cv j).
Proof.
  destruct st as [[[[[[[cp d] cc] rc] col] rp] s1] s2]. unfold inner_step. cbv zeta.
  destruct (zn row j =? rp); destruct (zn cv j =? cp); reflexivity.
Qed.
Lemma inner_fold_col row cv last : forall js st,
  st_col (inner_fold row cv last js st) = fold_left (fun c j => upd_nat c (Z.to_nat j) (zn cv j)) js (st_col st).
Proof.
  induction js as [|j js IH]; intros st; [reflexivity|].
  unfold inner_fold in *. cbn [fold_left]. now rewrite IH, inner_step_col.
Qed.
Lemma upd_nat_mid {A} (a : list A) x b v : upd_nat (a ++ x :: b) (length a) v = a ++ v :: b.
Proof. induction a as [|y a IH]; cbn [app length upd_nat]; [reflexivity|]. now rewrite IH. Qed.
Lemma fill_all (cv : list Z) : forall n pre suf cpre cs,
  length pre = length cpre -> length suf = n -> length cs = n -> cv = cpre ++ cs ->
  fold_left (fun c j => upd_nat c (Z.to_nat j) (zn cv j)) (zrange_aux n (Z.of_nat (length pre))) (pre ++ suf) = pre ++ cs.
Proof.
  induction n as [|n IH]; intros pre suf cpre cs Hpre Hsuf Hcs Hcv.
  - destruct suf; [|discriminate]. destruct cs; [|discriminate]. reflexivity.
  - destruct suf as [|x suf]; [discriminate|]. destruct cs as [|y cs]; [discriminate|].
    cbn [zrange_aux fold_left]. rewrite Nat2Z.id, upd_nat_mid.
    assert (Hy : zn cv (Z.of_nat (length pre)) = y).
    { unfold zn. rewrite Nat2Z.id, Hcv, Hpre, app_nth2 by lia. now rewrite Nat.sub_diag. }
    rewrite Hy.
    replace (Z.of_nat (length pre) + 1) with (Z.of_nat (length (pre ++ [y]))) by (rewrite app_length; cbn [length]; lia).
    replace (pre ++ y :: suf) with ((pre ++ [y]) ++ suf) by (now rewrite <- app_assoc).
    rewrite (IH (pre ++ [y]) suf (cpre ++ [y]) cs).
    + now rewrite <- app_assoc.
    + rewrite !app_length. cbn [length]. lia.
    + cbn [length] in Hsuf. lia.
    + cbn [length] in Hcs. lia.
    + rewrite Hcv. now rewrite <- app_assoc.
Qed.
Lemma inner_fold_col_full row cv last size st : 0 <= size -> lenZ (st_col st) = size -> lenZ cv = size ->
  st_col (inner_fold row cv last (zrange 0 size) st) = cv.
Proof.
  intros Hs Hc Hv. rewrite inner_fold_col. unfold zrange. rewrite Z.sub_0_r.
  pose proof (fill_all cv (Z.to_nat size) [] (st_col st) [] cv) as H. cbn [length app] in H.
  apply H; try reflexivity; unfold lenZ in *; lia.
Qed.

(* ---- component: N1, the run counters of the row and of the column and the points collected so far *)
Definition post (c : Z) : Z := if c >=? 5 then c - 2 else 0.
Fixpoint n1Z_aux (p c : Z) (l : list Z) : Z :=
  match l with
  | [] => post c
  | x :: r => if x =? p then n1Z_aux p (c + 1) r else post c + n1Z_aux x 1 r
  end.

Lemma inner_step_runs row cv last j st :
  let st1 := inner_step row cv last j st in
  st_rp st1 = zn row j /\ st_cp st1 = zn cv j /\
  forall L L', st_s1 st1 + n1Z_aux (st_rp st1) (st_rc st1) L + n1Z_aux (st_cp st1) (st_cc st1) L'
             = st_s1 st + n1Z_aux (st_rp st) (st_rc st) (zn row j :: L) + n1Z_aux (st_cp st) (st_cc st) (zn cv j :: L').
Proof.
  destruct st as [[[[[[[cp d] cc] rc] col] rp] s1] s2]. unfold inner_step. cbv zeta.
  destruct (zn row j =? rp) eqn:Ex; destruct (zn cv j =? cp) eqn:Ey; cbn [st_rp st_cp st_rc st_cc st_s1];
    (split; [reflexivity|split; [reflexivity|]]); intros L L'; cbn [n1Z_aux]; rewrite Ex, Ey; unfold post;
    repeat match goal with |- context [?a >=? 5] => destruct (a >=? 5) end;
    try (apply Z.eqb_eq in Ex; rewrite Ex); try (apply Z.eqb_eq in Ey; rewrite Ey); lia.
Qed.

Lemma inner_fold_n1 row cv last : forall js st,
  let st' := inner_fold row cv last js st in
  st_s1 st' + post (st_rc st') + post (st_cc st')
  = st_s1 st + n1Z_aux (st_rp st) (st_rc st) (map (zn row) js) + n1Z_aux (st_cp st) (st_cc st) (map (zn cv) js).
Proof.
  induction js as [|j js IH]; intros st; [reflexivity|].
  cbv zeta in *. unfold inner_fold in *. cbn [fold_left map]. rewrite IH.
  apply (proj2 (proj2 (inner_step_runs row cv last j st))).
Qed.

Lemma n1Z_aux_bits : forall l p c, n1Z_aux (bit_z p) c (zbits l) = n1_line_aux p c l.
Proof.
  induction l as [|b l IH]; intros p c; cbn [zbits map n1Z_aux n1_line_aux]; unfold post.
  - destruct (c >=? 5) eqn:E1; destruct (5 <=? c) eqn:E2; lia.
  - rewrite bit_z_eqb. fold (zbits l). destruct (Bool.eqb b p); rewrite IH; [reflexivity|].
    destruct (c >=? 5) eqn:E1; destruct (5 <=? c) eqn:E2; lia.
Qed.
Lemma n1Z_line l : n1Z_aux (-1) 0 (zbits l) = n1_line l.
Proof.
  destruct l as [|b l]; [reflexivity|]. cbn [zbits map n1Z_aux n1_line]. fold (zbits l).
  replace (bit_z b =? -1) with false by (now destruct b). rewrite n1Z_aux_bits. reflexivity.
Qed.

(* ---- component: N2 against the previous row *)
Definition n2w (last : option (list Z)) (row : list Z) (j : Z) : Z := if n2_hit last row j (zn row (j - 1)) then 3 else 0.

Lemma inner_step_s2 row cv last j st :
  st_s2 (inner_step row cv last j st) = st_s2 st + (if n2_hit last row j (st_rp st) then 3 else 0).
Proof.
  destruct st as [[[[[[[cp d] cc] rc] col] rp] s1] s2]. unfold inner_step. cbv zeta.
  destruct (zn row j =? rp); destruct (zn cv j =? cp); cbn [st_s2 st_rp]; destruct (n2_hit last row j rp); lia.
Qed.
Lemma n2_hit_0 last row rp rp' : n2_hit last row 0 rp = n2_hit last row 0 rp'.
Proof. unfold n2_hit. destruct last as [l|]; [|reflexivity]. cbn [Z.eqb negb andb]. now rewrite !andb_false_r. Qed.

Lemma inner_fold_n2 row cv last : forall n k st, 0 <= k -> (0 < k -> st_rp st = zn row (k - 1)) ->
  st_s2 (inner_fold row cv last (zrange_aux n k) st) = st_s2 st + lsum (n2w last row) (zrange_aux n k).
Proof.
  induction n as [|n IH]; intros k st Hk Hrp; [cbn [zrange_aux]; rewrite lsum_nil; cbn; lia|].
  unfold inner_fold in *. cbn [zrange_aux fold_left]. rewrite IH.
  - rewrite inner_step_s2, lsum_cons. unfold n2w at 2.
    destruct (Z.eq_dec k 0) as [->|Hne].
    + rewrite (n2_hit_0 last row (st_rp st) (zn row (0 - 1))). lia.
    + rewrite Hrp by lia. lia.
  - lia.
  - intros _. rewrite (proj1 (inner_step_runs row cv last k st)). f_equal. lia.
Qed.

Lemma inner_fold_n2_range row cv last size st :
  st_s2 (inner_fold row cv last (zrange 0 size) st) = st_s2 st + lsum (n2w last row) (zrange 0 size).
Proof. unfold zrange. apply inner_fold_n2; lia. Qed.

(* ---- sums over ranges and lists *)
Lemma lsum_zrange_aux (f : Z -> Z) n a : lsum f (zrange_aux n a) = zsum f n a.
Proof. unfold lsum. rewrite fold_zrange_aux_sum. lia. Qed.
Lemma lsum_map {A B} (f : B -> Z) (g : A -> B) l : lsum f (map g l) = lsum (fun x => f (g x)) l.
Proof. induction l as [|x l IH]; cbn [map]; rewrite ?lsum_nil, ?lsum_cons; [reflexivity|]. now rewrite IH. Qed.
Lemma lsum_zero {A} (f : A -> Z) l : (forall x, In x l -> f x = 0) -> lsum f l = 0.
Proof.
  induction l as [|x l IH]; intros H; rewrite ?lsum_nil, ?lsum_cons; [reflexivity|].
  rewrite (H x (or_introl eq_refl)), IH; [reflexivity|]. intros y Hy. apply H. now right.
Qed.
Lemma map_nth_zrange_aux {A} (d : A) : forall l pre,
  map (fun j => nth (Z.to_nat j) (pre ++ l) d) (zrange_aux (length l) (Z.of_nat (length pre))) = l.
Proof.
  induction l as [|x l IH]; intros pre; [reflexivity|]. cbn [length zrange_aux map]. f_equal.
  - rewrite Nat2Z.id, app_nth2 by lia. now rewrite Nat.sub_diag.
  - replace (Z.of_nat (length pre) + 1) with (Z.of_nat (length (pre ++ [x]))) by (rewrite app_length; cbn [length]; lia).
    replace (pre ++ x :: l) with ((pre ++ [x]) ++ l) by (now rewrite <- app_assoc). apply IH.
Qed.
Lemma map_nth_zrange {A} (d : A) l : map (fun j => nth (Z.to_nat j) l d) (zrange 0 (lenZ l)) = l.
Proof.
  unfold zrange, lenZ. rewrite Z.sub_0_r, Nat2Z.id. exact (map_nth_zrange_aux d l []).
Qed.
Lemma map_zn_zrange l size : lenZ l = size -> map (zn l) (zrange 0 size) = l.
Proof. intros <-. exact (map_nth_zrange 0 l). Qed.
Lemma lsum_nth_zrange {A} (f : A -> Z) (d : A) l : lsum (fun i => f (nth (Z.to_nat i) l d)) (zrange 0 (lenZ l)) = lsum f l.
Proof. rewrite <- (lsum_map f (fun i => nth (Z.to_nat i) l d)). now rewrite map_nth_zrange. Qed.

(* ---- N2 of a pair of rows *)
Lemma n2w_none row js : lsum (n2w None row) js = 0.
Proof. apply lsum_zero. intros j _. reflexivity. Qed.

Lemma n2w_rows prev cur size : lenZ prev = size -> lenZ cur = size ->
  lsum (n2w (Some (zbits prev)) (zbits cur)) (zrange 0 size) = n2_rows prev cur.
Proof.
  intros Hp Hc. rewrite n2_rows_zsum by (unfold lenZ in *; lia).
  unfold zrange. rewrite Z.sub_0_r, lsum_zrange_aux.
  destruct (Z.to_nat size) as [|m] eqn:Em.
  - replace (length prev - 1)%nat with O by (unfold lenZ in Hp; lia). reflexivity.
  - replace (length prev - 1)%nat with m by (unfold lenZ in Hp; lia). cbn [zsum].
    assert (H0 : n2w (Some (zbits prev)) (zbits cur) 0 = 0).
    { unfold n2w, n2_hit. cbn [Z.eqb negb andb]. now rewrite andb_false_r. }
    rewrite H0, Z.add_0_l, zsum_shift. apply zsum_ext. intros j Hj.
    unfold n2w, n2_hit, blk. rewrite lenZ_zbits.
    replace (lenZ prev =? 0) with false by (unfold lenZ in *; lia).
    replace (j + 1 =? 0) with false by lia. cbn [negb andb].
    replace (j + 1 - 1) with j by lia. rewrite !zn_zbits, !bit_z_eqb.
    destruct (nth (Z.to_nat j) prev false), (nth (Z.to_nat (j + 1)) prev false),
             (nth (Z.to_nat j) cur false), (nth (Z.to_nat (j + 1)) cur false); reflexivity.
Qed.

(* ================================================================== C. one iteration of the outer loop *)
Section Outer.
Variable rows : list (list bool).
Variable size : Z.
Hypothesis Hsize : 0 <= size.
Hypothesis Hlen : lenZ rows = size.
Hypothesis Hall : Forall (fun r => lenZ r = size) rows.

Let M : list (list Z) := map zbits rows.
Definition brow (i : Z) : list bool := nth (Z.to_nat i) rows [].

Lemma M_row i : nth (Z.to_nat i) M [] = zbits (brow i).
Proof. unfold M, brow. exact (map_nth zbits rows [] (Z.to_nat i)). Qed.
Lemma M_len : lenZ M = size.
Proof. unfold M, lenZ. rewrite map_length. exact Hlen. Qed.
Lemma brow_len i : 0 <= i < size -> lenZ (brow i) = size.
Proof.
  intros Hi. rewrite Forall_forall in Hall. apply Hall. unfold brow. apply nth_In. unfold lenZ in Hlen. lia.
Qed.
Lemma M_square : Forall (fun r => lenZ r = size) M.
Proof.
  unfold M. apply Forall_forall. intros r Hr. apply in_map_iff in Hr. destruct Hr as [b [<- Hb]].
  rewrite lenZ_zbits. rewrite Forall_forall in Hall. now apply Hall.
Qed.
Lemma M_bytes : Forall (fun r => Forall (fun v => is_byte v = true) r) M.
Proof.
  unfold M. apply Forall_forall. intros r Hr. apply in_map_iff in Hr. destruct Hr as [b [<- _]].
  apply Forall_forall. intros v Hv. unfold zbits in Hv. apply in_map_iff in Hv. destruct Hv as [c [<- _]]. now destruct c.
Qed.
Lemma M_col i : colv M i = zbits (column rows i).
Proof.
  unfold colv, M, column, zbits. rewrite !map_map. apply map_ext. intros r. exact (zn_zbits r i).
Qed.
Lemma column_len i : lenZ (column rows i) = size.
Proof. unfold lenZ. rewrite column_length. exact Hlen. Qed.

Definition last_of (k : Z) : option (list Z) := if k =? 0 then None else Some (zbits (brow (k - 1))).
Definition n2_term (i : Z) : Z := if i =? 0 then 0 else n2_rows (brow (i - 1)) (brow i).

Lemma outer_body_step fuel i d col s1 s2 s3 :
  0 <= i < size -> lenZ col = size -> (Z.to_nat size + 2 <= fuel)%nat ->
  outer_body fuel M size [1; 0; 1; 1; 1; 0; 1] i (d, last_of i, col, s1, s2, s3)
  = Ok (CNext (d + lsum bit_z (brow i), last_of (i + 1), zbits (column rows i),
               s1 + (n1_line (brow i) + n1_line (column rows i)), s2 + n2_term i,
               s3 + (n3_line size (brow i) + n3_line size (column rows i)))).
Proof.
  intros Hi Hcol Hfuel. unfold outer_body.
  rewrite (py_index_nth [] M i) by (rewrite M_len; lia). cbn [bind]. cbv zeta. rewrite M_row.
  pose proof (brow_len i Hi) as Hrow.
  rewrite (inner_loop M i (zbits (brow i)) (last_of i) size).
  2:{ now rewrite lenZ_zbits. }
  2:{ exact M_len. }
  2:{ exact M_square. }
  2:{ exact Hi. }
  2:{ exact M_bytes. }
  2:{ exact Hcol. }
  2:{ intros l Hl. unfold last_of in Hl. destruct (i =? 0) eqn:E; [discriminate|]. injection Hl as <-.
      rewrite lenZ_zbits. apply brow_len. lia. }
  2:{ apply Forall_forall. intros j Hj. now apply zrange_In_inv in Hj. }
  set (st0 := (-1, d, 0, 0, col, -1, s1, s2) : inner_state).
  pose proof (inner_fold_dark (zbits (brow i)) (colv M i) (last_of i) (zrange 0 size) st0) as Hd.
  pose proof (inner_fold_col_full (zbits (brow i)) (colv M i) (last_of i) size st0 Hsize Hcol) as Hc.
  pose proof (inner_fold_n1 (zbits (brow i)) (colv M i) (last_of i) (zrange 0 size) st0) as H1.
  pose proof (inner_fold_n2_range (zbits (brow i)) (colv M i) (last_of i) size st0) as H2.
  cbv zeta in H1.
  destruct (inner_fold (zbits (brow i)) (colv M i) (last_of i) (zrange 0 size) st0)
    as [[[[[[[cp' d'] cc'] rc'] col'] rp'] s1'] s2'].
  cbn [st_d st_col st_s1 st_s2 st_rp st_rc st_cp st_cc st0] in Hd, Hc, H1, H2.
  (* the column *)
  rewrite M_col in Hc, H1. rewrite Hc by (rewrite lenZ_zbits; apply column_len).
  (* N3 *)
  rewrite n3_occ_is_model; [|exact Hsize|unfold lenZ in Hrow; lia]. cbn [bind].
  rewrite n3_occ_is_model; [|exact Hsize|pose proof (column_len i) as Hcl; unfold lenZ in Hcl; lia]. cbn [bind].
  (* N1 *)
  rewrite !map_zn_zrange in H1 by (rewrite lenZ_zbits; first [exact Hrow|apply column_len]).
  rewrite !n1Z_line in H1. unfold post in H1.
  (* the dark count *)
  assert (Hdark : lsum (zn (zbits (brow i))) (zrange 0 size) = lsum bit_z (brow i)).
  { rewrite <- (lsum_map (fun x => x) (zn (zbits (brow i)))). rewrite map_zn_zrange by (now rewrite lenZ_zbits).
    unfold zbits. now rewrite lsum_map. }
  rewrite Hdark in Hd.
  (* N2 *)
  assert (Hn2 : lsum (n2w (last_of i) (zbits (brow i))) (zrange 0 size) = n2_term i).
  { unfold last_of, n2_term. destruct (i =? 0) eqn:E; [apply n2w_none|].
    apply n2w_rows; [apply brow_len; lia|exact Hrow]. }
  rewrite Hn2 in H2.
  assert (Hlast : Some (zbits (brow i)) = last_of (i + 1)).
  { unfold last_of. destruct (i + 1 =? 0) eqn:E; [lia|]. do 3 f_equal. lia. }
  rewrite Hlast. do 2 f_equal.
  destruct (rc' >=? 5); destruct (cc' >=? 5); repeat (f_equal; try lia).
Qed.

(* ================================================================== D. the outer loop *)
Lemma outer_loop fuel : (Z.to_nat size + 2 <= fuel)%nat -> forall n k d col s1 s2 s3,
  0 <= k -> k + Z.of_nat n = size -> lenZ col = size ->
  exists last' col',
  py_for (A:=void) (zrange_aux n k) (outer_body fuel M size [1; 0; 1; 1; 1; 0; 1]) (d, last_of k, col, s1, s2, s3)
  = Ok (inr (d + lsum (fun i => lsum bit_z (brow i)) (zrange_aux n k), last', col',
             s1 + lsum (fun i => n1_line (brow i) + n1_line (column rows i)) (zrange_aux n k),
             s2 + lsum n2_term (zrange_aux n k),
             s3 + lsum (fun i => n3_line size (brow i) + n3_line size (column rows i)) (zrange_aux n k))).
Proof.
  intros Hfuel. induction n as [|n IH]; intros k d col s1 s2 s3 Hk Hkn Hcol.
  - exists (last_of k), col. cbn [zrange_aux py_for]. rewrite !lsum_nil, !Z.add_0_r. reflexivity.
  - cbn [zrange_aux py_for]. rewrite outer_body_step by (try assumption; lia).
    destruct (IH (k + 1) (d + lsum bit_z (brow k)) (zbits (column rows k))
                 (s1 + (n1_line (brow k) + n1_line (column rows k))) (s2 + n2_term k)
                 (s3 + (n3_line size (brow k) + n3_line size (column rows k)))
                 ltac:(lia) ltac:(lia) ltac:(rewrite lenZ_zbits; apply column_len)) as [last' [col' HL]].
    exists last', col'. rewrite HL. rewrite !lsum_cons. do 2 f_equal. repeat (f_equal; try lia).
Qed.

(* the model's scores as sums over the row / column index *)
Lemma lsum_rows (f : list bool -> Z) : lsum f rows = lsum (fun i => f (brow i)) (zrange 0 size).
Proof. unfold brow. rewrite <- Hlen. symmetry. apply lsum_nth_zrange. Qed.

Lemma n2_all_terms : n2_all rows = lsum n2_term (zrange 0 size).
Proof.
  destruct (square_nat rows size Hsize Hlen Hall) as [Hlen' _].
  rewrite n2_all_zsum. unfold zrange. rewrite Z.sub_0_r, lsum_zrange_aux.
  destruct (Z.to_nat size) as [|m] eqn:Em.
  - replace (length rows - 1)%nat with O by lia. reflexivity.
  - replace (length rows - 1)%nat with m by lia. cbn [zsum]. unfold n2_term at 1. cbn [Z.eqb]. rewrite Z.add_0_l, zsum_shift.
    apply zsum_ext. intros p Hp. unfold n2_term, brow. replace (p + 1 =? 0) with false by lia.
    now replace (p + 1 - 1) with p by lia.
Qed.

Lemma model_scores :
  mask_scores size rows =
  (lsum (fun i => n1_line (brow i) + n1_line (column rows i)) (zrange 0 size),
   lsum n2_term (zrange 0 size),
   lsum (fun i => n3_line size (brow i) + n3_line size (column rows i)) (zrange 0 size),
   n4_score size (lsum (fun i => lsum bit_z (brow i)) (zrange 0 size))).
Proof.
  destruct (square_nat rows size Hsize Hlen Hall) as [Hlen' Hall'].
  unfold mask_scores. cbv zeta. rewrite (transpose_is_columns rows (Z.to_nat size) Hlen' Hall').
  change (fold_left (fun a r => a + n1_line r) rows 0) with (lsum n1_line rows).
  change (fold_left (fun a r => a + n1_line r) (columns rows) 0) with (lsum n1_line (columns rows)).
  change (fold_left (fun a r => a + n3_line size r) rows 0) with (lsum (n3_line size) rows).
  change (fold_left (fun a r => a + n3_line size r) (columns rows) 0) with (lsum (n3_line size) (columns rows)).
  rewrite (lsum_add (fun i => n1_line (brow i))), (lsum_add (fun i => n3_line size (brow i))).
  unfold columns. rewrite !lsum_map, Hlen.
  rewrite (lsum_rows n1_line), (lsum_rows (n3_line size)), dark_count_lsum, (lsum_rows (fun r => lsum bit_z r)), n2_all_terms.
  reflexivity.
Qed.
End Outer.

(* ================================================================== E. N4 and the theorems *)
(* The source computes N4 with binary64 floats: percent = float(dark) / size ** 2 (one rounding),
   percent * 100 (a second), - 50 (a third), abs, / 5 (a fourth), then int().  The model (Matrix.n4_score) is the exact
   integer formula 10 * (|100 dark - 50 size^2| / (5 size^2)).  They agree for every dark count 0 .. size^2 of every one
   of the 44 symbol sizes (478 168 cases): checked here by evaluating the translated float code (n4_src, which is
   literally the tail of src_mask_scores, see src_mask_scores_unfold) in the kernel, whose primitive float operations
   are the machine's binary64 operations.  No float axiom is used. *)
Lemma n4_sweep :
  forallb (fun size => forallb (fun d => match n4_src d size with Ok v => v =? n4_score size d | Err _ => false end)
                               (zrange 0 (size * size + 1))) all_sizes = true.
Proof. vm_compute. reflexivity. Qed.

Lemma n4_src_is_model size d : In size all_sizes -> 0 <= d <= size * size -> n4_src d size = Ok (n4_score size d).
Proof.
  intros Hin Hd. pose proof n4_sweep as H. rewrite forallb_forall in H. specialize (H size Hin).
  rewrite forallb_forall in H. specialize (H d (zrange_In 0 (size * size + 1) d ltac:(lia))).
  destruct (n4_src d size) as [v|e]; [|discriminate]. apply Z.eqb_eq in H. now subst v.
Qed.

Definition scores_list (s : Z * Z * Z * Z) : list Z := let '(n1, n2, n3, n4) := s in [n1; n2; n3; n4].

(* any size: the guard about N4 is that the float computation gives the exact value for THIS dark count *)
Theorem src_mask_scores_is_model_gen : forall (fuel : nat) (size : Z) (rows : list (list bool)),
  0 <= size -> lenZ rows = size -> Forall (fun r => lenZ r = size) rows ->
  (Z.to_nat size + 2 <= fuel)%nat ->
  n4_src (dark_count rows) size = Ok (n4_score size (dark_count rows)) ->
  src_mask_scores fuel (map zbits rows) size size = Ok (scores_list (mask_scores size rows)).
Proof.
  intros fuel size rows Hsize Hlen Hall Hfuel Hn4.
  rewrite src_mask_scores_unfold.
  change (py_bytearray [1; 0; 1; 1; 1; 0; 1]) with (Ok [1; 0; 1; 1; 1; 0; 1]). cbn [bind]. rewrite Z.eqb_refl.
  unfold py_bytearray_zeros. destruct (size <? 0) eqn:E; [lia|]. cbn [bind].
  destruct (outer_loop rows size Hsize Hlen Hall fuel Hfuel (Z.to_nat size) 0 0 (repeat 0 (Z.to_nat size)) 0 0 0
              ltac:(lia) ltac:(lia) ltac:(unfold lenZ; rewrite repeat_length; lia)) as [last' [col' HL]].
  change (last_of rows 0) with (@None (list Z)) in HL.
  replace (zrange_aux (Z.to_nat size) 0) with (zrange 0 size) in HL by (unfold zrange; now rewrite Z.sub_0_r).
  rewrite HL. rewrite !Z.add_0_l.
  rewrite (model_scores rows size Hsize Hlen Hall). cbn [scores_list].
  rewrite dark_count_lsum, (lsum_rows rows size Hlen (fun r => lsum bit_z r)) in Hn4. rewrite Hn4. reflexivity.
Qed.

(* the 44 symbol sizes (Micro QR included): no guard about N4 *)
Theorem src_mask_scores_is_model : forall (fuel : nat) (size : Z) (rows : list (list bool)),
  In size all_sizes -> lenZ rows = size -> Forall (fun r => lenZ r = size) rows ->
  (Z.to_nat size + 2 <= fuel)%nat ->
  src_mask_scores fuel (map zbits rows) size size = Ok (scores_list (mask_scores size rows)).
Proof.
  intros fuel size rows Hin Hlen Hall Hfuel.
  assert (Hsize : 0 <= size) by (rewrite <- Hlen; apply lenZ_nonneg).
  apply src_mask_scores_is_model_gen; try assumption.
  apply n4_src_is_model; [assumption|]. now apply dark_count_bounds.
Qed.

Theorem src_evaluate_mask_is_model : forall (fuel : nat) (size : Z) (rows : list (list bool)),
  In size all_sizes -> lenZ rows = size -> Forall (fun r => lenZ r = size) rows ->
  (Z.to_nat size + 2 <= fuel)%nat ->
  src_evaluate_mask fuel (map zbits rows) size size = Ok (evaluate_mask size rows).
Proof.
  intros fuel size rows Hin Hlen Hall Hfuel. unfold src_evaluate_mask.
  rewrite src_mask_scores_is_model by assumption. cbn [bind]. unfold evaluate_mask.
  destruct (mask_scores size rows) as [[[n1 n2] n3] n4]. cbn [scores_list py_sum fold_right]. f_equal. lia.
Qed.

(* the sum is the ISO 7.8.3.1 penalty (Ref/Spec.v), through MaskLemmas.evaluate_mask_is_iso *)
Corollary src_evaluate_mask_is_iso : forall (fuel : nat) (size : Z) (rows : list (list bool)),
  In size all_sizes -> lenZ rows = size -> Forall (fun r => lenZ r = size) rows ->
  (Z.to_nat size + 2 <= fuel)%nat ->
  src_evaluate_mask fuel (map zbits rows) size size = Ok (iso_penalty rows).
Proof.
  intros fuel size rows Hin Hlen Hall Hfuel. rewrite src_evaluate_mask_is_model by assumption. f_equal.
  apply evaluate_mask_is_iso; try assumption.
  assert (H : forallb (fun s => 0 <? s) all_sizes = true) by (vm_compute; reflexivity).
  rewrite forallb_forall in H. specialize (H size Hin). lia.
Qed.

(* the assertion at the top of mask_scores *)
Theorem src_mask_scores_not_square : forall fuel matrix width height,
  width <> height -> src_mask_scores fuel matrix width height = Err AssertErr.
Proof.
  intros fuel matrix width height Hne. rewrite src_mask_scores_unfold.
  change (py_bytearray [1; 0; 1; 1; 1; 0; 1]) with (Ok [1; 0; 1; 1; 1; 0; 1]). cbn [bind].
  destruct (width =? height) eqn:E; [lia|reflexivity].
Qed.

Print Assumptions n3_occ_is_model.
Print Assumptions src_mask_scores_is_model_gen.
Print Assumptions src_mask_scores_is_model.
Print Assumptions src_evaluate_mask_is_model.
Print Assumptions src_evaluate_mask_is_iso.
Print Assumptions src_mask_scores_not_square.
