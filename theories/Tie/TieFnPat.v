(* Bridge theorems: make_matrix, add_timing_pattern, add_finder_patterns, add_alignment_patterns, add_format_info,
   add_version_info of segno/encoder.py, translated statement by statement from the CURRENT source (SegnoSrc.SrcFnPat,
   written by gen/translate.py with the Python semantics of Base/PySem.v: the matrix is a list of rows mutated through
   py_set2 / py_set_slice2), equal the hand-written model (Model/Matrix.v, a finite map of the cells that are set), seen
   through [to_rows] (Tie/TieMat.v).  Re-checked by coqc on every run.  See DESIGN.md 11.7. *)
From Coq Require Import ZArith List Bool Lia ZifyBool FMapPositive.
From Segno Require Import Base.PyLite Base.PySem Ref.IsoData Ref.Geometry Model.Bits Model.Matrix.
From Segno Require Tie.TieTables.
From Segno Require Import Tie.TieBase Tie.TieMat Tie.TieFormat.
From SegnoSrc Require SrcTables.
From SegnoSrc Require Import SrcFormat SrcFnPat.
Import ListNotations.
Open Scope Z_scope.

(* ------------------------------------------------------------------ decidable equality of row lists (finite sweeps) *)
Fixpoint zlist_eqb (a b : list Z) : bool :=
  match a, b with [], [] => true | x :: a', y :: b' => (x =? y) && zlist_eqb a' b' | _, _ => false end.
Fixpoint rows_eqb (a b : list (list Z)) : bool :=
  match a, b with [], [] => true | x :: a', y :: b' => zlist_eqb x y && rows_eqb a' b' | _, _ => false end.
Lemma zlist_eqb_eq a : forall b, zlist_eqb a b = true -> a = b.
Proof.
  induction a as [|x a IH]; intros [|y b] H; cbn in H; try discriminate; [reflexivity|].
  apply andb_true_iff in H. destruct H as [H1 H2]. apply Z.eqb_eq in H1. subst. f_equal. now apply IH.
Qed.
Lemma rows_eqb_eq a : forall b, rows_eqb a b = true -> a = b.
Proof.
  induction a as [|x a IH]; intros [|y b] H; cbn in H; try discriminate; [reflexivity|].
  apply andb_true_iff in H. destruct H as [H1 H2]. apply zlist_eqb_eq in H1. subst. f_equal. now apply IH.
Qed.

Lemma all_sizes_nonneg size : In size all_sizes -> 11 <= size <= 177.
Proof.
  assert (H : forallb (fun s => (11 <=? s) && (s <=? 177)) all_sizes = true) by (vm_compute; reflexivity).
  rewrite forallb_forall in H. intros Hin. specialize (H _ Hin). lia.
Qed.

(* ------------------------------------------------------------------ make_matrix: the 44 symbol sizes x both flags *)
Lemma make_matrix_all :
  forallb (fun size => forallb (fun rr => forallb (fun tm =>
    match src_make_matrix size size rr tm with
    | Ok M => rows_eqb M (to_rows size (Matrix.make_matrix size rr tm))
    | Err _ => false
    end) [true; false]) [true; false]) all_sizes = true.
Proof. vm_compute. reflexivity. Qed.

Theorem src_make_matrix_is_model : forall (size : Z) (reserve_regions add_timing : bool),
  In size all_sizes ->
  src_make_matrix size size reserve_regions add_timing
  = Ok (to_rows size (Matrix.make_matrix size reserve_regions add_timing)).
Proof.
  intros size rr tm Hin.
  assert (Hrr : In rr [true; false]) by (destruct rr; cbn; auto).
  assert (Htm : In tm [true; false]) by (destruct tm; cbn; auto).
  pose proof make_matrix_all as H.
  rewrite forallb_forall in H. specialize (H _ Hin).
  rewrite forallb_forall in H. specialize (H _ Hrr).
  rewrite forallb_forall in H. specialize (H _ Htm).
  destruct (src_make_matrix size size rr tm) as [M|e]; [|discriminate H].
  f_equal. now apply rows_eqb_eq.
Qed.

(* ------------------------------------------------------------------ finder and alignment patterns
   Both are only ever applied to the matrix that make_matrix(width, height) returns (in _encode and for the function
   matrix of find_and_apply_best_mask), so they are compared on exactly those inputs, for the 44 symbol sizes. *)
Lemma finder_all :
  forallb (fun size =>
    match src_add_finder_patterns (to_rows size (Matrix.make_matrix size true true)) size size,
          Matrix.add_finder_patterns size (Matrix.make_matrix size true true) with
    | Ok M, Ok m' => rows_eqb M (to_rows size m')
    | _, _ => false
    end) all_sizes = true.
Proof. vm_compute. reflexivity. Qed.

Theorem src_add_finder_patterns_is_model : forall size : Z,
  In size all_sizes ->
  src_add_finder_patterns (to_rows size (Matrix.make_matrix size true true)) size size
  = do m' <- Matrix.add_finder_patterns size (Matrix.make_matrix size true true); Ok (to_rows size m').
Proof.
  intros size Hin. pose proof finder_all as H. rewrite forallb_forall in H. specialize (H _ Hin).
  destruct (src_add_finder_patterns _ size size) as [M|e]; [|discriminate H].
  destruct (Matrix.add_finder_patterns size _) as [m'|e]; [|discriminate H].
  cbn [bind]. f_equal. now apply rows_eqb_eq.
Qed.

Lemma alignment_all :
  forallb (fun size =>
    match Matrix.add_finder_patterns size (Matrix.make_matrix size true true) with
    | Ok m1 =>
        match src_add_alignment_patterns (to_rows size m1) size size, Matrix.add_alignment_patterns size m1 with
        | Ok M, Ok m' => rows_eqb M (to_rows size m')
        | _, _ => false
        end
    | Err _ => false
    end) all_sizes = true.
Proof. vm_compute. reflexivity. Qed.

Theorem src_add_alignment_patterns_is_model : forall (size : Z) (m1 : mat),
  In size all_sizes ->
  Matrix.add_finder_patterns size (Matrix.make_matrix size true true) = Ok m1 ->
  src_add_alignment_patterns (to_rows size m1) size size
  = do m' <- Matrix.add_alignment_patterns size m1; Ok (to_rows size m').
Proof.
  intros size m1 Hin Hm1. pose proof alignment_all as H. rewrite forallb_forall in H. specialize (H _ Hin).
  rewrite Hm1 in H.
  destruct (src_add_alignment_patterns _ size size) as [M|e]; [|discriminate H].
  destruct (Matrix.add_alignment_patterns size m1) as [m'|e]; [|discriminate H].
  cbn [bind]. f_equal. now apply rows_eqb_eq.
Qed.

(* ------------------------------------------------------------------ timing pattern: any matrix, any size >= 7 *)
Lemma bit_flip b : Z.lxor (bit_z b) 1 = bit_z (negb b).
Proof. now destruct b. Qed.

Lemma timing_loop size j : 0 <= j < size -> forall n a m, 0 <= a -> a + Z.of_nat n <= size ->
  py_for (A:=void) (zrange_aux n a)
    (fun i st' => let '(bit, matrix) := st' in
       do matrix0 <- py_set2 matrix i j bit;
       do matrix1 <- py_set2 matrix0 j i bit;
       let bit0 := Z.lxor bit 1 in Ok (CNext (bit0, matrix1)))
    (bit_z (Z.even (a - 8)), to_rows size m)
  = Ok (inr (bit_z (Z.even (a + Z.of_nat n - 8)),
             to_rows size (set_all size m
               (flat_map (fun i => let bit := Z.even (i - 8) in [(i, j, bit); (j, i, bit)]) (zrange_aux n a))))).
Proof.
  intros Hj. induction n as [|n IH]; intros a m Ha Hn; cbn [zrange_aux py_for flat_map].
  - rewrite set_all_nil. replace (a + Z.of_nat 0 - 8) with (a - 8) by lia. reflexivity.
  - rewrite set2_repr_pos by lia. cbn [bind].
    rewrite set2_repr_pos by lia. cbn [bind]. cbv zeta. rewrite bit_flip.
    replace (negb (Z.even (a - 8))) with (Z.even (a + 1 - 8))
      by (replace (a + 1 - 8) with (Z.succ (a - 8)) by lia; rewrite Z.even_succ, <- Z.negb_even; reflexivity).
    rewrite IH by lia. cbn [app]. rewrite !set_all_cons.
    replace (a + 1 + Z.of_nat n - 8) with (a + Z.of_nat (S n) - 8) by lia. reflexivity.
Qed.

Theorem src_add_timing_pattern_is_model : forall (size : Z) (m : mat) (is_micro : bool),
  8 <= size -> (is_micro = false -> 16 <= size) ->
  src_add_timing_pattern (to_rows size m) is_micro = Ok (to_rows size (Matrix.add_timing_pattern size is_micro m)).
Proof.
  intros size m is_micro Hs Hq. unfold src_add_timing_pattern, Matrix.add_timing_pattern.
  rewrite lenZ_to_rows by lia.
  destruct is_micro; cbn [py_unpack2 bind]; rewrite row_index_repr_pos by lia; cbn [bind]; cbv zeta; unfold zrange.
  - change 1 with (bit_z (Z.even (8 - 8))) at 1.
    rewrite timing_loop by lia. reflexivity.
  - specialize (Hq eq_refl). change 1 with (bit_z (Z.even (8 - 8))) at 1.
    rewrite timing_loop by lia. reflexivity.
Qed.

(* ------------------------------------------------------------------ format information: any matrix, any size >= 9 *)
Lemma py_shiftr_nonneg x n : 0 <= n -> py_shiftr x n = Ok (Z.shiftr x n).
Proof. intros H. unfold py_shiftr. destruct (n <? 0) eqn:E; [lia|reflexivity]. Qed.

Lemma land1_testbit x n : 0 <= n -> Z.land (Z.shiftr x n) 1 = bit_z (Z.testbit x n).
Proof.
  intros Hn. change 1 with (Z.ones 1). rewrite Z.land_ones by lia. change (2 ^ 1) with 2.
  rewrite <- Z.bit0_mod, Z.shiftr_spec by lia. cbn [Z.add]. now destruct (Z.testbit x n).
Qed.

Definition off_in (micro : bool) (a : Z) : Z := if micro then 1 else if 7 <=? a then 1 else 0.

Definition format_cells (size fi : Z) (micro : bool) (i : Z) : list (Z * Z * bool) :=
  let vbit := Z.testbit fi i in
  let hbit := Z.testbit fi (14 - i) in
  let voffset := if micro then 1 else if 6 <=? i then 1 else 0 in
  let hoffset := if micro then 1 else if 6 <=? i then 1 else 0 in
  [(i + voffset, 8, vbit); (8, i + hoffset, hbit)] ++
  (if micro then [] else [(8, size - 1 - i, vbit); (size - 1 - i, 8, hbit)]).

Definition format_body (fi : Z) (micro : bool) :=
  fun (i : Z) (st' : Z * list (list Z) * Z) => let '(hoffset, matrix, voffset) := st' in
       let vbit := Z.land (Z.shiftr fi i) 1 in
       do t'4 <- py_shiftr fi (14 - i);
       let hbit := Z.land t'4 1 in
       let '(hoffset0, voffset0) :=
         (if (i =? 6) && negb micro
          then (let voffset1 := voffset + 1 in let hoffset1 := 1 in (hoffset1, voffset1))
          else (hoffset, voffset)) in
       do matrix0 <- py_set2 matrix (i + voffset0) 8 vbit;
       do matrix1 <- py_set2 matrix0 8 (i + hoffset0) hbit;
       do matrix2 <- (if negb micro
                      then do matrix3 <- py_set2 matrix1 8 (-1 - i) vbit;
                           do matrix4 <- py_set2 matrix3 (-1 - i) 8 hbit; Ok matrix4
                      else Ok matrix1);
       Ok (@CNext void _ (hoffset0, matrix2, voffset0)).

Lemma format_step size fi micro a m : 9 <= size -> 0 <= a < 8 ->
  format_body fi micro a (off_in micro a, to_rows size m, off_in micro a)
  = Ok (CNext (off_in micro (a + 1), to_rows size (set_all size m (format_cells size fi micro a)), off_in micro (a + 1))).
Proof.
  intros Hs Ha. unfold format_body. rewrite !py_shiftr_nonneg by lia. cbn [bind]. cbv zeta.
  rewrite !land1_testbit by lia.
  assert (Hoff : (if (a =? 6) && negb micro then (1, off_in micro a + 1) else (off_in micro a, off_in micro a))
                 = (off_in micro (a + 1), off_in micro (a + 1))).
  { unfold off_in. destruct micro; cbn [negb andb]; [now rewrite andb_false_r|]. rewrite andb_true_r.
    destruct (a =? 6) eqn:E6, (7 <=? a) eqn:E7, (7 <=? a + 1) eqn:E6'; try reflexivity; lia. }
  rewrite Hoff. clear Hoff.
  assert (Hoffr : 0 <= off_in micro (a + 1) <= 1) by (unfold off_in; destruct micro; [lia|destruct (7 <=? a + 1); lia]).
  assert (Hoff2 : (if micro then 1 else if 6 <=? a then 1 else 0) = off_in micro (a + 1)).
  { unfold off_in. destruct micro; [reflexivity|]. destruct (6 <=? a) eqn:E1, (7 <=? a + 1) eqn:E2; try reflexivity; lia. }
  unfold format_cells. cbv zeta. rewrite Hoff2.
  rewrite set2_repr_pos by lia. cbn [bind]. rewrite set2_repr_pos by lia. cbn [bind].
  rewrite set_all_app, !set_all_cons, set_all_nil.
  destruct micro; cbn [negb bind].
  - rewrite set_all_nil. reflexivity.
  - rewrite set2_repr_nn by pyi_solve. cbn [bind].
    rewrite set2_repr by pyi_solve. cbn [bind].
    rewrite !pyi_neg by lia. rewrite (pyi_nonneg size 8) by lia.
    replace (-1 - a + size) with (size - 1 - a) by lia.
    rewrite !set_all_cons, !set_all_nil. reflexivity.
Qed.

Lemma format_loop size fi micro : 9 <= size -> forall n a m, 0 <= a -> a + Z.of_nat n <= 8 ->
  py_for (zrange_aux n a) (format_body fi micro) (off_in micro a, to_rows size m, off_in micro a)
  = Ok (inr (off_in micro (a + Z.of_nat n),
             to_rows size (set_all size m (flat_map (format_cells size fi micro) (zrange_aux n a))),
             off_in micro (a + Z.of_nat n))).
Proof.
  intros Hs. induction n as [|n IH]; intros a m Ha Hn; cbn [zrange_aux py_for flat_map].
  - rewrite set_all_nil. now replace (a + Z.of_nat 0) with a by lia.
  - rewrite format_step by lia. rewrite IH by lia. rewrite set_all_app.
    now replace (a + 1 + Z.of_nat n) with (a + Z.of_nat (S n)) by lia.
Qed.

Theorem src_add_format_info_is_model : forall (size : Z) (m : mat) (version : Z) (error : option Z) (mask : Z),
  9 <= size -> 0 <= mask ->
  src_add_format_info (to_rows size m) version error mask
  = do m' <- Matrix.add_format_info size version error mask m; Ok (to_rows size m').
Proof.
  intros size m version error mask Hs Hmask. unfold src_add_format_info, Matrix.add_format_info.
  rewrite src_calc_format_info_is_model by assumption.
  destruct (Matrix.calc_format_info version error mask) as [fi|e]; cbn [bind]; [|reflexivity].
  cbv zeta. rewrite row_index_repr_pos by lia. cbn [bind].
  pose proof (format_loop size fi (version <? 1) Hs 8 0 m (Z.le_refl 0)) as HL.
  unfold format_body in HL. unfold zrange. change (Z.to_nat (8 - 0)) with 8%nat.
  replace (if version <? 1 then 1 else 0) with (off_in (version <? 1) 0) by (unfold off_in; now destruct (version <? 1)).
  rewrite HL by (cbn; lia). clear HL.
  fold (format_cells size fi (version <? 1)).
  destruct (version <? 1); cbn [negb bind]; [reflexivity|].
  change 1 with (bit_z true). rewrite set2_repr by pyi_solve. cbn [bind].
  rewrite pyi_neg, pyi_nonneg by lia. now replace (-8 + size) with (size - 8) by lia.
Qed.

(* ------------------------------------------------------------------ version information: any matrix, any size >= 11 *)
Definition version_cells (size vi i : Z) : list (Z * Z * bool) :=
  let b1 := Z.testbit vi (i * 3) in
  let b2 := Z.testbit vi (i * 3 + 1) in
  let b3 := Z.testbit vi (i * 3 + 2) in
  [(size - 11, i, b1); (size - 10, i, b2); (size - 9, i, b3);
   (i, size - 11, b1); (i, size - 10, b2); (i, size - 9, b3)].

Definition version_body (vi : Z) :=
  fun (i : Z) (st' : list (list Z)) => let matrix := st' in
    do t'2 <- py_shiftr vi (i * 3);
    let bit1 := Z.land t'2 1 in
    do t'3 <- py_shiftr vi (i * 3 + 1);
    let bit2 := Z.land t'3 1 in
    do t'4 <- py_shiftr vi (i * 3 + 2);
    let bit3 := Z.land t'4 1 in
    do matrix0 <- py_set2 matrix (-11) i bit1;
    do matrix1 <- py_set2 matrix0 (-10) i bit2;
    do matrix2 <- py_set2 matrix1 (-9) i bit3;
    do t'5 <- py_row_index matrix2 i;
    do matrix3 <- py_set2 matrix2 t'5 (-11) bit1;
    do matrix4 <- py_set2 matrix3 t'5 (-10) bit2;
    do matrix5 <- py_set2 matrix4 t'5 (-9) bit3;
    Ok (@CNext void _ matrix5).

Lemma version_step size vi a m : 11 <= size -> 0 <= a < 6 ->
  version_body vi a (to_rows size m) = Ok (CNext (to_rows size (set_all size m (version_cells size vi a)))).
Proof.
  intros Hs Ha. unfold version_body. rewrite !py_shiftr_nonneg by lia. cbn [bind]. cbv zeta.
  rewrite !land1_testbit by lia.
  do 3 (rewrite set2_repr by pyi_solve; cbn [bind]).
  rewrite row_index_repr_pos by lia. cbn [bind].
  do 3 (rewrite set2_repr_nn by pyi_solve; cbn [bind]).
  rewrite (pyi_neg size (-11)), (pyi_neg size (-10)), (pyi_neg size (-9)) by lia. rewrite ?(pyi_nonneg size a) by lia.
  unfold version_cells. cbv zeta. rewrite !set_all_cons, set_all_nil.
  replace (-11 + size) with (size - 11) by lia. replace (-10 + size) with (size - 10) by lia.
  replace (-9 + size) with (size - 9) by lia. reflexivity.
Qed.

Lemma version_loop size vi : 11 <= size -> forall n a m, 0 <= a -> a + Z.of_nat n <= 6 ->
  py_for (zrange_aux n a) (version_body vi) (to_rows size m)
  = Ok (inr (to_rows size (set_all size m (flat_map (version_cells size vi) (zrange_aux n a))))).
Proof.
  intros Hs. induction n as [|n IH]; intros a m Ha Hn; cbn [zrange_aux py_for flat_map].
  - now rewrite set_all_nil.
  - rewrite version_step by lia. rewrite IH by lia. now rewrite set_all_app.
Qed.

Theorem src_add_version_info_is_model : forall (size : Z) (m : mat) (version : Z),
  11 <= size ->
  src_add_version_info (to_rows size m) version
  = do m' <- Matrix.add_version_info size version m; Ok (to_rows size m').
Proof.
  intros size m version Hs. unfold src_add_version_info, Matrix.add_version_info.
  rewrite TieTables.tie_VERSION_INFO.
  destruct (version <? 7) eqn:Ev; [reflexivity|].
  rewrite py_index_nonneg by lia.
  destruct (nthZ VERSION_INFO (version - 7)) as [vi|e]; cbn [bind]; [|reflexivity].
  cbv zeta.
  pose proof (version_loop size vi Hs 6 0 m (Z.le_refl 0)) as HL. unfold version_body in HL.
  unfold zrange. change (Z.to_nat (6 - 0)) with 6%nat.
  rewrite HL by (cbn; lia). reflexivity.
Qed.

Print Assumptions src_make_matrix_is_model.
Print Assumptions src_add_finder_patterns_is_model.
Print Assumptions src_add_alignment_patterns_is_model.
Print Assumptions src_add_timing_pattern_is_model.
Print Assumptions src_add_format_info_is_model.
Print Assumptions src_add_version_info_is_model.
