(* The translated writers with the translated colour helpers as their callees: src_write_xpm / src_write_pam / src_write_ppm of
   build/gen/SrcWrText.v / SrcWrNetpbm.v take the colour conversion as a parameter `ext__color_to_rgb..` typed "returns a tuple
   of ints" (gen/translate_writers.py); theories/Tie/TieWrText.v / TieWrNetpbm.v assumed that parameter equal to Model/Color.v.
   Here the parameter is the function translated from the current source (build/gen/SrcColor.v, gen/translate_colors.py), and
   the assumption is discharged by the bridge theorems of Tie/TieColor.v.

   Typing shim.  The translated helpers return tuples of numbers (py_cnum: int or float, as Python does); the writers only
   use them where every item is an int (_color_to_rgb; _color_to_rgb_or_rgba with alpha_float=False).  [ints_of] reads such a
   tuple as the tuple of its ints; [rgb_items_are_ints] / [rgba_false_items_are_ints] show that nothing is lost: in these
   calls every item IS an int.  A colour argument that is None never reaches the conversion in the writers (write_pam /
   write_xpm test it before, write_ppm refuses a colormap with None); for the option-typed parameters of SrcWrNetpbm.v the
   None case is Python's AttributeError (None has no .lower). *)
From Coq Require Import ZArith QArith List Bool Lia.
From Segno Require Import Base.PyLite Base.PySem Base.PySemGen Base.PySemIO Base.PySemExt Base.PySemColor.
From Segno Require Import Model.Iter Model.Color Model.TextFmt Model.Netpbm.
From Segno Require Import Tie.TieUtils Tie.TieUtilsIter Tie.TieWrCommon Tie.TieColor.
From Segno Require Tie.TieWrText Tie.TieWrNetpbm.
From SegnoSrc Require Import SrcUtils SrcUtilsIter SrcFnPat SrcWrCommon SrcWrText SrcWrNetpbm SrcColor SrcColorful.
Import ListNotations.
Open Scope Z_scope.

(* ------------------------------------------------------------------ the shim *)
Definition cnum_int (c : py_cnum) : Z := match c with PyNInt z => z | PyNFlt _ => 0 end.
Definition ints_of (r : res (list py_cnum)) : res (list Z) := do l <- r; Ok (map cnum_int l).

Lemma ints_roundtrip (l : list Z) : map cnum_int (map PyNInt l) = l.
Proof. rewrite map_map. cbn [cnum_int]. apply map_id. Qed.

Lemma ints_of_tagged (r : res (list Z)) : ints_of (do l <- r; Ok (map PyNInt l)) = r.
Proof. destruct r as [l|e]; cbn [ints_of bind]; [|reflexivity]. now rewrite ints_roundtrip. Qed.

Lemma tag_rgba_false l : tag_rgba false l = map PyNInt l.
Proof. destruct l as [|r [|g [|b [|a [|x t]]]]]; reflexivity. Qed.

(* the translated callees at the types the translated writers declare for them *)
Definition src_rgb (c : py_color) : res (list Z) := ints_of (src__color_to_rgb c).
Definition src_rgb_opt (oc : option py_color) : res (list Z) :=
  match oc with Some c => src_rgb c | None => Err AttributeErr end.
Definition src_rgb_or_rgba_opt (oc : option py_color) (alpha_float : bool) : res (list Z) :=
  match oc with Some c => ints_of (src__color_to_rgb_or_rgba c alpha_float) | None => Err AttributeErr end.

Theorem src_rgb_is_model (c : pycolor) : src_rgb (to_py_color c) = color_to_rgb c.
Proof. unfold src_rgb. rewrite src_color_to_rgb_is_model. apply ints_of_tagged. Qed.

Theorem src_rgb_or_rgba_false_is_model (c : pycolor) :
  src_rgb_or_rgba_opt (Some (to_py_color c)) false = color_to_rgb_or_rgba c false.
Proof.
  unfold src_rgb_or_rgba_opt. rewrite src_color_to_rgb_or_rgba_is_model.
  replace (do r <- color_to_rgb_or_rgba c false; Ok (tag_rgba false r)) with (do r <- color_to_rgb_or_rgba c false; Ok (map PyNInt r)).
  - apply ints_of_tagged.
  - destruct (color_to_rgb_or_rgba c false); cbn [bind]; [|reflexivity]. now rewrite tag_rgba_false.
Qed.

(* nothing is lost by the shim: in these calls every item of the returned tuple is an int *)
Theorem rgb_items_are_ints (c : pycolor) (l : list py_cnum) :
  src__color_to_rgb (to_py_color c) = Ok l -> l = map PyNInt (map cnum_int l).
Proof.
  rewrite src_color_to_rgb_is_model. destruct (color_to_rgb c) as [r|e]; cbn [bind]; [|discriminate].
  intros [= <-]. now rewrite ints_roundtrip.
Qed.
Theorem rgba_false_items_are_ints (c : pycolor) (l : list py_cnum) :
  src__color_to_rgb_or_rgba (to_py_color c) false = Ok l -> l = map PyNInt (map cnum_int l).
Proof.
  rewrite src_color_to_rgb_or_rgba_is_model. destruct (color_to_rgb_or_rgba c false) as [r|e]; cbn [bind]; [|discriminate].
  intros [= <-]. now rewrite tag_rgba_false, ints_roundtrip.
Qed.

(* ------------------------------------------------------------------ write_xpm, color_to_rgb_hex *)
Lemma ext_rgb_ok_text : TieWrText.ext_rgb_ok src_rgb.
Proof. intros c. apply (src_rgb_is_model c). Qed.

Theorem src_color_to_rgb_hex_is_model_full : forall (c : pycolor),
  src_color_to_rgb_hex src_rgb (to_py_color c) = TextFmt.color_to_rgb_hex c.
Proof. intros c. apply (TieWrText.src_color_to_rgb_hex_is_model src_rgb c ext_rgb_ok_text). Qed.

Theorem src_write_xpm_is_model_full : forall (matrix : list (list Z)) (w h scale : Z) (border : option Z)
    (dark light : option pycolor) (name : list Z),
  well_formed matrix w h ->
  src_write_xpm src_rgb matrix [w; h] scale border (option_map to_py_color dark) (option_map to_py_color light) name
  = TextFmt.write_xpm matrix w h scale border dark light name.
Proof.
  intros matrix w h scale border dark light name Hwf.
  apply (TieWrText.src_write_xpm_is_model src_rgb matrix w h scale border dark light name ext_rgb_ok_text Hwf).
Qed.
Print Assumptions src_write_xpm_is_model_full.

(* ------------------------------------------------------------------ write_ppm *)
Lemma ext_rgb_ok_netpbm : TieWrNetpbm.ext_rgb_ok src_rgb_opt.
Proof. intros c. apply (src_rgb_is_model c). Qed.

Theorem src_write_ppm_is_model_full : forall (matrix am0 am : list (list Z)) (w h scale : Z) (border : option Z)
    (colormap : list (Z * ocolor)),
  src_make_matrix w h false false = Ok am0 -> src_add_alignment_patterns am0 w h = Ok am ->
  src_write_ppm src_rgb_opt matrix [w; h] (TieWrNetpbm.to_py_colormap colormap) scale border
  = Netpbm.write_ppm matrix am w h scale border colormap.
Proof.
  intros matrix am0 am w h scale border colormap Ham0 Ham.
  apply (TieWrNetpbm.src_write_ppm_is_model src_rgb_opt matrix am0 am w h scale border colormap ext_rgb_ok_netpbm Ham0 Ham).
Qed.
Print Assumptions src_write_ppm_is_model_full.

(* write_ppm as the user calls it: the wrapper of @colorful(dark='#000', light='#fff') builds the colormap with the translated
   _make_colormap and hands it to the function above (square symbols: matrix_size = (w, w)) *)
Theorem src_write_ppm_colorful_is_model : forall (matrix am0 am : list (list Z)) (w scale : Z) (border : option Z) (o : color_opts),
  src_make_matrix w w false false = Ok am0 -> src_add_alignment_patterns am0 w w = Ok am ->
  src_write_ppm_colorful src_rgb_opt matrix [w; w] (to_oc (o_dark o)) (to_oc (o_light o))
    (to_ooc (o_finder_dark o)) (to_ooc (o_finder_light o)) (to_ooc (o_data_dark o)) (to_ooc (o_data_light o))
    (to_ooc (o_version_dark o)) (to_ooc (o_version_light o)) (to_ooc (o_format_dark o)) (to_ooc (o_format_light o))
    (to_ooc (o_alignment_dark o)) (to_ooc (o_alignment_light o)) (to_ooc (o_timing_dark o)) (to_ooc (o_timing_light o))
    (to_ooc (o_separator o)) (to_ooc (o_dark_module o)) (to_ooc (o_quiet_zone o)) scale border
  = Netpbm.write_ppm matrix am w w scale border (make_colormap w o).
Proof.
  intros matrix am0 am w scale border o Ham0 Ham. unfold src_write_ppm_colorful. cbn [py_star_args2 bind]. cbv zeta.
  rewrite src_make_colormap_is_model. rewrite bind_ret'.
  apply (src_write_ppm_is_model_full matrix am0 am w w scale border (make_colormap w o) Ham0 Ham).
Qed.
Print Assumptions src_write_ppm_colorful_is_model.

Lemma src_write_ppm_colorful_bad_size ext matrix ms d l a1 a2 a3 a4 a5 a6 a7 a8 a9 a10 a11 a12 a13 a14 a15 scale border :
  length ms <> 2%nat ->
  src_write_ppm_colorful ext matrix ms d l a1 a2 a3 a4 a5 a6 a7 a8 a9 a10 a11 a12 a13 a14 a15 scale border = Err TypeErr.
Proof.
  intros Hl. unfold src_write_ppm_colorful. destruct ms as [|x [|y [|z0 t]]]; cbn [length] in Hl; try congruence; reflexivity.
Qed.

(* ------------------------------------------------------------------ write_pam *)
(* src_write_pam calls the conversion with alpha_float=False only *)
Lemma src_write_pam_ext ext1 ext2 matrix ms scale border dark light :
  (forall oc, ext1 oc false = ext2 oc false) ->
  src_write_pam ext1 matrix ms scale border dark light = src_write_pam ext2 matrix ms scale border dark light.
Proof.
  intros H. unfold src_write_pam. destruct light as [lc|]; rewrite ?H; reflexivity.
Qed.

(* a proof device: agrees with the translated callee at alpha_float=False, and is the model elsewhere *)
Definition of_py_color (c : py_color) : pycolor := match c with PyCStr s => CStr s | PyCTuple t => CTuple t end.
Definition rgba_device (oc : option py_color) (af : bool) : res (list Z) :=
  if af then match oc with Some c => color_to_rgb_or_rgba (of_py_color c) true | None => Err AttributeErr end
  else src_rgb_or_rgba_opt oc false.
Lemma rgba_device_ok : TieWrNetpbm.ext_rgba_ok rgba_device.
Proof.
  intros c [|]; unfold rgba_device.
  - now destruct c.
  - apply (src_rgb_or_rgba_false_is_model c).
Qed.

Theorem src_write_pam_is_model_full : forall (matrix : list (list Z)) (w h scale : Z) (border : option Z) (dark light : ocolor),
  well_formed matrix w h -> TieWrNetpbm.bits matrix ->
  src_write_pam src_rgb_or_rgba_opt matrix [w; h] scale border (option_map to_py_color dark) (option_map to_py_color light)
  = Netpbm.write_pam matrix w h scale border dark light.
Proof.
  intros matrix w h scale border dark light Hwf Hbits.
  rewrite (src_write_pam_ext src_rgb_or_rgba_opt rgba_device) by reflexivity.
  apply (TieWrNetpbm.src_write_pam_is_model rgba_device matrix w h scale border dark light rgba_device_ok Hwf Hbits).
Qed.
Print Assumptions src_write_pam_is_model_full.
