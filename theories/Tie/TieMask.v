(* Bridge theorems: apply_mask, evaluate_micro_mask, find_and_apply_best_mask of segno/encoder.py, translated statement
   by statement from the CURRENT source (SegnoSrc.SrcMask), equal the hand-written model (Model/Matrix.v), the matrix
   seen through [to_rows] (Tie/TieMat.v).  Re-checked by coqc on every run.  See DESIGN.md 11.7. *)
From Coq Require Import ZArith List Bool Lia ZifyBool FMapPositive.
From Segno Require Import Base.PyLite Base.PySem Ref.IsoData Ref.Geometry Model.Bits Model.Matrix.
From Segno Require Import Tie.TieBase Tie.TieMat Tie.TieLoops Tie.TieFnPat.
From Segno Require Tie.TieBits.
From SegnoSrc Require Import SrcFuns SrcFnPat SrcMask.
Import ListNotations.
Open Scope Z_scope.

(* every module of the symbol has a value (after add_codewords) *)
Definition full (size : Z) (m : mat) : Prop := forall i j, 0 <= i < size -> 0 <= j < size -> mget size m i j <> None.

(* ------------------------------------------------------------------ apply_mask *)
Definition mask_cell_at (er : Z -> Z -> res bool) (f : Z -> Z -> bool) (t1 i j : Z) (M : list (list Z)) : res (list (list Z)) :=
  do t2 <- er i j;
  if (t2 : bool) then do t3 <- py_get2 M t1 j; py_set2 M t1 j (Z.lxor t3 (if f i j then 1 else 0)) else Ok M.

Definition mcell (size : Z) (inreg : Z -> Z -> bool) (f : Z -> Z -> bool) (m : mat) (ij : Z * Z) : mat :=
  let '(i, j) := ij in
  if inreg i j then match mget size m i j with Some b => mset size m i j (xorb b (f i j)) | None => m end else m.

Lemma lxor_bit (b c : bool) : Z.lxor (bit_z b) (if c then 1 else 0) = bit_z (xorb b c).
Proof. destruct b, c; reflexivity. Qed.

Lemma mask_cell_repr size er inreg f m i j : 0 <= i < size -> 0 <= j < size ->
  er i j = Ok (inreg i j) -> (inreg i j = true -> mget size m i j <> None) ->
  mask_cell_at er f i i j (to_rows size m) = Ok (to_rows size (mcell size inreg f m (i, j))).
Proof.
  intros Hi Hj Her Hset. unfold mask_cell_at, mcell. rewrite Her. cbn [bind].
  destruct (inreg i j); [|reflexivity]. rewrite get2_repr by pyi_solve. cbn [bind]. rewrite !pyi_nonneg by lia.
  destruct (mget size m i j) as [b|]; [|exfalso; now apply Hset].
  cbn [cellZ]. rewrite lxor_bit. now rewrite set2_repr_pos by lia.
Qed.

Lemma mcell_keeps size inreg f m c i j : 0 <= fst c < size -> 0 <= snd c < size -> 0 <= i < size -> 0 <= j < size ->
  mget size m i j <> None -> mget size (mcell size inreg f m c) i j <> None.
Proof.
  destruct c as [ci cj]. cbn [fst snd]. intros Hci Hcj Hi Hj H. unfold mcell.
  destruct (inreg ci cj); [|exact H]. destruct (mget size m ci cj) as [b|] eqn:Hb; [|exact H].
  rewrite mget_mset by lia. destruct ((ci =? i) && (cj =? j)); [discriminate|exact H].
Qed.

Lemma mask_cells_fold size er inreg f : forall cells m,
  Forall (fun ij => 0 <= fst ij < size /\ 0 <= snd ij < size) cells ->
  (forall i j, 0 <= i < size -> 0 <= j < size -> er i j = Ok (inreg i j)) ->
  (forall i j, 0 <= i < size -> 0 <= j < size -> inreg i j = true -> mget size m i j <> None) ->
  fold_res (fun ij M => mask_cell_at er f (fst ij) (fst ij) (snd ij) M) cells (to_rows size m)
  = Ok (to_rows size (fold_left (mcell size inreg f) cells m)).
Proof.
  induction cells as [|[i j] r IH]; intros m Hc Her Hset; cbn [fold_res fold_left fst snd]; [reflexivity|].
  inversion Hc as [|? ? [Hi Hj] Hr]; subst. cbn [fst snd] in Hi, Hj.
  rewrite (mask_cell_repr size er inreg f m i j) by auto. cbn [bind].
  apply IH; [assumption|assumption|].
  intros i' j' Hi' Hj' Hin. apply (mcell_keeps size inreg f m (i, j)); cbn [fst snd]; auto.
Qed.

Lemma fold_mcell_filter size inreg f : forall cells m,
  fold_left (mcell size inreg f) cells m
  = fold_left (fun m '(i, j) => match mget size m i j with Some b => mset size m i j (xorb b (f i j)) | None => m end)
              (filter (fun '(i, j) => inreg i j) cells) m.
Proof.
  induction cells as [|[i j] r IH]; intros m; cbn [fold_left filter]; [reflexivity|].
  unfold mcell at 2. destruct (inreg i j); cbn [fold_left]; apply IH.
Qed.

Lemma all_cells_in_range size : Forall (fun ij => 0 <= fst ij < size /\ 0 <= snd ij < size) (all_cells size).
Proof.
  apply Forall_forall. intros [i j] Hin. unfold all_cells in Hin. apply in_flat_map in Hin.
  destruct Hin as [i' [Hi Hin]]. apply in_map_iff in Hin. destruct Hin as [j' [Heq Hj]].
  injection Heq as <- <-. apply zrange_In_inv in Hi. apply zrange_In_inv in Hj. cbn [fst snd]. lia.
Qed.

Theorem src_apply_mask_is_model :
  forall (size : Z) (m : mat) (f : Z -> Z -> bool) (er : Z -> Z -> res bool) (inreg : Z -> Z -> bool),
  0 <= size ->
  (forall i j, 0 <= i < size -> 0 <= j < size -> er i j = Ok (inreg i j)) ->
  (forall i j, 0 <= i < size -> 0 <= j < size -> inreg i j = true -> mget size m i j <> None) ->
  src_apply_mask (to_rows size m) f size size er
  = Ok (to_rows size (Matrix.apply_mask size m (filter (fun '(i, j) => inreg i j) (all_cells size)) f)).
Proof.
  intros size m f er inreg Hs Her Hset. unfold src_apply_mask, Matrix.apply_mask. cbv zeta.
  rewrite (py_for_fold (fun i M => do t1 <- py_row_index M i;
                                    fold_res (fun j M1 => mask_cell_at er f t1 i j M1) (zrange 0 size) M)).
  2:{ intros i M. destruct (py_row_index M i) as [t1|e]; cbn [bind]; [|reflexivity].
      rewrite (py_for_fold (fun j M1 => mask_cell_at er f t1 i j M1)).
      2:{ intros j M1. unfold mask_cell_at. destruct (er i j) as [[|]|e]; cbn [bind]; try reflexivity.
          destruct (py_get2 M1 t1 j) as [t3|e]; cbn [bind]; [|reflexivity].
          destruct (py_set2 M1 t1 j _); reflexivity. }
      destruct (fold_res _ (zrange 0 size) M); reflexivity. }
  rewrite <- fold_mcell_filter.
  (* rows one after the other, each through [to_rows] *)
  assert (Hrows : forall rows m0, Forall (fun i => 0 <= i < size) rows ->
     (forall i j, 0 <= i < size -> 0 <= j < size -> inreg i j = true -> mget size m0 i j <> None) ->
     fold_res (fun i M => do t1 <- py_row_index M i; fold_res (fun j M1 => mask_cell_at er f t1 i j M1) (zrange 0 size) M)
              rows (to_rows size m0)
     = Ok (to_rows size (fold_left (mcell size inreg f) (flat_map (fun i => map (fun j => (i, j)) (zrange 0 size)) rows) m0))).
  { induction rows as [|i r IH]; intros m0 Hr Hs0; cbn [fold_res flat_map]; [reflexivity|].
    inversion Hr as [|? ? Hi Hr']; subst. rewrite row_index_repr_pos by lia. cbn [bind].
    rewrite fold_left_app.
    assert (Hrow : Forall (fun ij => 0 <= fst ij < size /\ 0 <= snd ij < size) (map (fun j => (i, j)) (zrange 0 size))).
    { apply Forall_forall. intros [a b] Hin. apply in_map_iff in Hin. destruct Hin as [j [Heq Hj]]. injection Heq as <- <-.
      apply zrange_In_inv in Hj. cbn [fst snd]. lia. }
    pose proof (mask_cells_fold size er inreg f (map (fun j => (i, j)) (zrange 0 size)) m0 Hrow Her Hs0) as HF.
    rewrite fold_res_map in HF. cbn [fst snd] in HF. rewrite HF. cbn [bind].
    apply IH; [assumption|].
    intros i' j' Hi' Hj' Hin. clear HF.
    revert Hrow. generalize (map (fun j => (i, j)) (zrange 0 size)) as cells. intros cells. revert m0 Hs0.
    induction cells as [|c cs IHc]; intros m0 Hs0 Hc; cbn [fold_left]; [now apply Hs0|].
    inversion Hc as [|? ? [Hc1 Hc2] Hcs]; subst. apply IHc; [|assumption].
    intros a b Ha Hb Hab. apply mcell_keeps; auto. }
  unfold all_cells. rewrite Hrows; [reflexivity| |assumption].
  apply Forall_forall. intros i Hi. now apply zrange_In_inv in Hi.
Qed.

(* ------------------------------------------------------------------ evaluate_micro_mask *)
Definition bval (size : Z) (m : mat) (i j : Z) : bool := match mget size m i j with Some b => b | None => false end.

Lemma cellZ_full size m i j : mget size m i j <> None -> cellZ (mget size m i j) = bit_z (bval size m i j).
Proof. unfold bval. destruct (mget size m i j); [reflexivity|congruence]. Qed.

Lemma zrange_cons a b : a < b -> zrange a b = a :: zrange (a + 1) b.
Proof.
  intros H. unfold zrange. replace (Z.to_nat (b - a)) with (S (Z.to_nat (b - (a + 1)))) by lia. reflexivity.
Qed.
Lemma zrange_snoc a b : a < b -> zrange a b = zrange a (b - 1) ++ [b - 1].
Proof.
  intros H. unfold zrange. replace (Z.to_nat (b - a)) with (S (Z.to_nat (b - 1 - a))) by lia.
  rewrite TieBits.zrange_aux_snoc. do 2 f_equal. lia.
Qed.

Lemma py_sum_res_ok (F : Z -> res Z) (h : Z -> Z) : forall l, (forall i, In i l -> F i = Ok (h i)) ->
  py_sum_res (map F l) = Ok (fold_right (fun x s => h x + s) 0 l).
Proof.
  induction l as [|x r IH]; intros H; cbn [map py_sum_res fold_right]; [reflexivity|].
  rewrite (H x (or_introl eq_refl)). cbn [bind]. rewrite IH by (intros i Hi; apply H; now right). reflexivity.
Qed.
Lemma fold_left_sum {A} (h : A -> Z) : forall l acc, fold_left (fun a x => a + h x) l acc = acc + fold_right (fun x s => h x + s) 0 l.
Proof. induction l as [|x r IH]; intros acc; cbn [fold_left fold_right]; [lia|]. rewrite IH. lia. Qed.

Lemma get2_chain M i j : (do t'2 <- py_index M i; do t'3 <- py_index t'2 j; Ok t'3) = py_get2 M i j.
Proof. unfold py_get2. destruct (py_index M i); cbn [bind]; [apply bind_ret|reflexivity]. Qed.

Lemma fold_right_map_sum {A B} (f : A -> B) (g : B -> Z) l :
  fold_right (fun x s => g x + s) 0 (map f l) = fold_right (fun x s => g (f x) + s) 0 l.
Proof. induction l as [|x r IH]; cbn [map fold_right]; [reflexivity|]. now rewrite IH. Qed.
Lemma fold_right_ext_sum {A} (g h : A -> Z) l : (forall x, g x = h x) ->
  fold_right (fun x s => g x + s) 0 l = fold_right (fun x s => h x + s) 0 l.
Proof. intros H. induction l as [|x r IH]; cbn [fold_right]; [reflexivity|]. now rewrite IH, H. Qed.

Theorem src_evaluate_micro_mask_is_model : forall (size : Z) (m : mat),
  1 <= size -> full size m ->
  src_evaluate_micro_mask (to_rows size m) size size = Ok (Matrix.evaluate_micro_mask size (rows_of size m)).
Proof.
  intros size m Hs Hfull. unfold src_evaluate_micro_mask, Matrix.evaluate_micro_mask. cbv zeta.
  (* the last row *)
  unfold py_index at 1. change (Z.of_nat (length (to_rows size m))) with (lenZ (to_rows size m)).
  rewrite lenZ_to_rows by lia. cbn [Z.ltb Z.compare]. unfold to_rows at 1. rewrite nthZ_map_zrange by lia. cbn [bind].
  (* sum1: the last column *)
  rewrite (py_sum_res_ok _ (fun i => bit_z (bval size m i (size - 1)))).
  2:{ intros i Hi. apply zrange_In_inv in Hi.
      rewrite get2_chain. rewrite get2_repr by pyi_solve. rewrite pyi_nonneg, pyi_neg by lia.
      replace (-1 + size) with (size - 1) by lia. now rewrite cellZ_full by (apply Hfull; lia). }
  cbn [bind].
  (* sum2: the last row *)
  rewrite (py_sum_res_ok _ (fun i => bit_z (bval size m (size - 1) i))).
  2:{ intros i Hi. apply zrange_In_inv in Hi. rewrite bind_ret. rewrite py_index_nonneg by lia.
      unfold row_of. rewrite nthZ_map_zrange by lia. replace (-1 + size) with (size - 1) by lia.
      now rewrite cellZ_full by (apply Hfull; lia). }
  cbn [bind]. f_equal.
  (* the model's sums *)
  assert (Hrows : rows_of size m = map (fun i => map (fun j => bval size m i j) (zrange 0 size)) (zrange 0 size)) by reflexivity.
  assert (Hlastc : forall i, last (map (fun j => bval size m i j) (zrange 0 size)) false = bval size m i (size - 1)).
  { intros i. rewrite (zrange_snoc 0 size) by lia. rewrite map_app. cbn [map]. now rewrite last_last. }
  assert (S1 : fold_left (fun a (r : list bool) => a + bit_z (last r false)) (tl (rows_of size m)) 0
               = fold_right (fun x s => bit_z (bval size m x (size - 1)) + s) 0 (zrange 1 size)).
  { rewrite Hrows. rewrite (zrange_cons 0 size) at 1 by lia. cbn [map tl]. change (0 + 1) with 1.
    rewrite fold_left_sum, Z.add_0_l, fold_right_map_sum. apply fold_right_ext_sum. intros x. now rewrite Hlastc. }
  assert (S2 : fold_left (fun a (b : bool) => a + bit_z b) (tl (last (rows_of size m) [])) 0
               = fold_right (fun x s => bit_z (bval size m (size - 1) x) + s) 0 (zrange 1 size)).
  { rewrite Hrows. rewrite (zrange_snoc 0 size) at 1 by lia. rewrite map_app. cbn [map]. rewrite last_last.
    rewrite (zrange_cons 0 size) by lia. cbn [map tl]. change (0 + 1) with 1.
    now rewrite fold_left_sum, Z.add_0_l, fold_right_map_sum. }
  rewrite S1, S2. reflexivity.
Qed.

(* ------------------------------------------------------------------ find_and_apply_best_mask *)
Lemma apply_mask_full size m reg f : Forall (fun ij => 0 <= fst ij < size /\ 0 <= snd ij < size) reg ->
  full size m -> full size (Matrix.apply_mask size m reg f).
Proof.
  unfold Matrix.apply_mask. revert m. induction reg as [|[i j] r IH]; intros m Hr Hf; cbn [fold_left]; [exact Hf|].
  inversion Hr as [|? ? [Hi Hj] Hr']; subst. cbn [fst snd] in Hi, Hj. apply IH; [assumption|].
  destruct (mget size m i j) as [b|] eqn:Hb; [|exact Hf].
  intros a c Ha Hc. rewrite mget_mset by lia. destruct ((i =? a) && (j =? c)); [discriminate|now apply Hf].
Qed.

Lemma region_in_range size fm : Forall (fun ij => 0 <= fst ij < size /\ 0 <= snd ij < size) (region size fm).
Proof.
  unfold region. apply Forall_forall. intros ij Hin. apply filter_In in Hin. destruct Hin as [Hin _].
  exact (proj1 (Forall_forall _ _) (all_cells_in_range size) ij Hin).
Qed.

Definition inreg_of (size : Z) (fm : mat) (i j : Z) : bool := match mget size fm i j with None => true | Some _ => false end.

Lemma region_filter size fm : region size fm = filter (fun '(i, j) => inreg_of size fm i j) (all_cells size).
Proof. reflexivity. Qed.

Lemma er_repr size fm i j : 0 <= i < size -> 0 <= j < size ->
  (do t'102 <- py_index (to_rows size fm) i; do t'103 <- py_index t'102 j; Ok (t'103 >? 1)) = Ok (inreg_of size fm i j).
Proof.
  intros Hi Hj.
  assert (H : (do t'102 <- py_index (to_rows size fm) i; do t'103 <- py_index t'102 j; Ok (t'103 >? 1))
              = do v <- py_get2 (to_rows size fm) i j; Ok (v >? 1)).
  { unfold py_get2. destruct (py_index (to_rows size fm) i); reflexivity. }
  rewrite H, get2_repr by pyi_solve. cbn [bind]. rewrite !pyi_nonneg by lia. unfold inreg_of.
  destruct (mget size fm i j) as [[|]|]; reflexivity.
Qed.

Definition score_of (size : Z) (micro : bool) (mk : mat) : Z :=
  if micro then Matrix.evaluate_micro_mask size (rows_of size mk) else Matrix.evaluate_mask size (rows_of size mk).

Definition enc_best (size : Z) (best : option (Z * mat)) : option (list (list Z)) * option Z :=
  match best with None => (None, None) | Some (k, mk) => (Some (to_rows size mk), Some k) end.

Definition best_body (size : Z) (M : list (list Z)) (er : Z -> Z -> res bool)
           (eval : list (list Z) -> Z -> Z -> res Z) (better : Z -> Z -> bool) :=
  fun (unp : Z * (Z -> Z -> bool)) (st' : option (list (list Z)) * option Z * Z) =>
    let '(best_matrix, best_pattern, best_score) := st' in
    let '(mask_number, mask_pattern) := unp in
    let m := map (fun ba : list Z => ba) M in
    do m0 <- src_apply_mask m mask_pattern size size er;
    do t'4 <- eval m0 size size;
    let score := t'4 in
    let '(best_matrix0, best_pattern0, best_score0) :=
      (if better score best_score then (Some m0, Some mask_number, score) else (best_matrix, best_pattern, best_score)) in
    Ok (@CNext void _ (best_matrix0, best_pattern0, best_score0)).

Lemma best_loop size micro m fm er eval better : 1 <= size -> full size m ->
  (forall i j, 0 <= i < size -> 0 <= j < size -> er i j = Ok (inreg_of size fm i j)) ->
  (forall mk, full size mk -> eval (to_rows size mk) size size = Ok (score_of size micro mk)) ->
  (forall a b, better a b = if micro then b <? a else a <? b) ->
  forall ps best bs, Forall (fun p => snd p = mask_fn micro (fst p)) ps ->
  exists bs', py_for ps (best_body size (to_rows size m) er eval better)
                     (fst (enc_best size best), snd (enc_best size best), bs)
              = Ok (inr (fst (enc_best size (best_mask_loop size micro m (region size fm) (map fst ps) bs best)),
                         snd (enc_best size (best_mask_loop size micro m (region size fm) (map fst ps) bs best)), bs')).
Proof.
  intros Hs Hfull Her Heval Hbetter. induction ps as [|[k f] r IH]; intros best bs Hps; cbn [py_for map best_mask_loop fst].
  - exists bs. reflexivity.
  - inversion Hps as [|? ? Hf Hr]; subst. cbn [fst snd] in Hf. subst f.
    unfold best_body at 1. rewrite map_id.
    rewrite (src_apply_mask_is_model size m (mask_fn micro k) er (inreg_of size fm)); [|lia|assumption|].
    2:{ intros i j Hi Hj _. now apply Hfull. }
    cbn [bind]. rewrite <- region_filter.
    set (mk := Matrix.apply_mask size m (region size fm) (mask_fn micro k)).
    assert (Hmk : full size mk) by (apply apply_mask_full; [apply region_in_range|assumption]).
    rewrite Heval by assumption. cbn [bind]. cbv zeta. rewrite Hbetter.
    fold (score_of size micro mk).
    replace (if micro then evaluate_micro_mask size (rows_of size mk) else evaluate_mask size (rows_of size mk))
      with (score_of size micro mk) by reflexivity.
    destruct (if micro then bs <? score_of size micro mk else score_of size micro mk <? bs).
    + destruct (IH (Some (k, mk)) (score_of size micro mk) Hr) as [bs' Hbs']. exists bs'. exact Hbs'.
    + destruct (IH best bs Hr) as [bs' Hbs']. exists bs'. destruct best as [[k0 m0]|]; exact Hbs'.
Qed.
Lemma enum_qr : py_enumerate src_mask_fns_qr =
  [(0, src_fn0); (1, src_fn1); (2, src_fn2); (3, src_fn3); (4, src_fn4); (5, src_fn5); (6, src_fn6); (7, src_fn7)].
Proof. reflexivity. Qed.
Lemma enum_micro : py_enumerate src_mask_fns_micro = [(0, src_fn1); (1, src_fn4); (2, src_fn6); (3, src_fn7)].
Proof. reflexivity. Qed.
Lemma masks_qr_model : Forall (fun p => snd p = mask_fn false (fst p)) (py_enumerate src_mask_fns_qr).
Proof. rewrite enum_qr. repeat constructor. Qed.
Lemma masks_micro_model : Forall (fun p => snd p = mask_fn true (fst p)) (py_enumerate src_mask_fns_micro).
Proof. rewrite enum_micro. repeat constructor. Qed.

Lemma src_function_matrix size : In size all_sizes ->
  (do t'1 <- src_make_matrix size size true true;
   do fm1 <- src_add_finder_patterns t'1 size size;
   do fm2 <- src_add_alignment_patterns fm1 size size;
   do fm3 <- (if negb (size <? 21) then do fm4 <- py_set2 fm2 (-8) 8 1; Ok fm4 else Ok fm2);
   Ok fm3)
  = do fm <- Matrix.function_matrix size; Ok (to_rows size fm).
Proof.
  intros Hin. pose proof (all_sizes_nonneg size Hin) as Hs. unfold Matrix.function_matrix.
  rewrite src_make_matrix_is_model by assumption. cbn [bind].
  rewrite src_add_finder_patterns_is_model by assumption.
  destruct (Matrix.add_finder_patterns size (Matrix.make_matrix size true true)) as [m1|e] eqn:Hm1; cbn [bind]; [|reflexivity].
  rewrite (src_add_alignment_patterns_is_model size m1) by assumption.
  destruct (Matrix.add_alignment_patterns size m1) as [m2|e]; cbn [bind]; [|reflexivity].
  destruct (size <? 21); cbn [negb bind]; [reflexivity|].
  change 1 with (bit_z true). rewrite set2_repr by pyi_solve. cbn [bind].
  rewrite pyi_neg, pyi_nonneg by lia. now replace (-8 + size) with (size - 8) by lia.
Qed.

(* guards: one of the 44 symbol sizes; every module has a value (as after add_codewords); a requested mask is in
   range (normalize_mask); evaluate_mask (mask_scores) is a parameter [ext] of the translated function, assumed to
   compute the model's score on full matrices *)
Theorem src_find_and_apply_best_mask_is_model :
  forall (ext : list (list Z) -> Z -> Z -> res Z) (size : Z) (m : mat) (proposed : option Z),
  In size all_sizes -> full size m ->
  (forall mk, full size mk -> ext (to_rows size mk) size size = Ok (Matrix.evaluate_mask size (rows_of size mk))) ->
  match proposed with Some k => 0 <= k < (if size <? 21 then 4 else 8) | None => True end ->
  src_find_and_apply_best_mask ext (to_rows size m) size size proposed
  = do r <- Matrix.find_and_apply_best_mask size m proposed; Ok (fst r, Some (to_rows size (snd r))).
Proof.
  intros ext size m proposed Hin Hfull Hext Hprop. pose proof (all_sizes_nonneg size Hin) as Hs.
  unfold src_find_and_apply_best_mask, Matrix.find_and_apply_best_mask. cbv zeta. rewrite Z.eqb_refl. cbn [andb].
  pose proof (src_function_matrix size Hin) as HFM.
  destruct (Matrix.function_matrix size) as [fm|e] eqn:Hfm; cbn [bind] in HFM |- *.
  2:{ (* the function matrix cannot be built: the same error on both sides *)
      destruct (src_make_matrix size size true true) as [t1|e1]; cbn [bind] in HFM |- *; [|destruct (size <? 21); congruence].
      destruct (src_add_finder_patterns t1 size size) as [f1|e1]; cbn [bind] in HFM |- *; [|destruct (size <? 21); congruence].
      destruct (src_add_alignment_patterns f1 size size) as [f2|e1]; cbn [bind] in HFM |- *; [|destruct (size <? 21); congruence].
      destruct (size <? 21); cbn [negb bind] in HFM |- *; [discriminate HFM|].
      destruct (py_set2 f2 (-8) 8 1); cbn [bind] in HFM |- *; [discriminate HFM|congruence]. }
  assert (HFM' : exists FM, FM = to_rows size fm /\
     (do t'1 <- src_make_matrix size size true true;
      do fm1 <- src_add_finder_patterns t'1 size size;
      do fm2 <- src_add_alignment_patterns fm1 size size;
      do fm3 <- (if negb (size <? 21) then do fm4 <- py_set2 fm2 (-8) 8 1; Ok fm4 else Ok fm2); Ok fm3) = Ok FM)
    by (eexists; split; [reflexivity|exact HFM]).
  clear HFM. destruct HFM' as [FM [HFMeq HFM]].
  destruct (src_make_matrix size size true true) as [t1|e1]; cbn [bind] in HFM |- *; [|discriminate].
  destruct (src_add_finder_patterns t1 size size) as [f1|e1]; cbn [bind] in HFM |- *; [|discriminate].
  destruct (src_add_alignment_patterns f1 size size) as [f2|e1]; cbn [bind] in HFM |- *; [|discriminate].
  destruct (size <? 21) eqn:Emicro; cbn [negb bind] in HFM |- *.
  - (* Micro QR *)
    injection HFM as ->. subst FM.
    destruct proposed as [k|].
    + assert (Hk : k = 0 \/ k = 1 \/ k = 2 \/ k = 3) by lia.
      destruct Hk as [-> | [-> | [-> | ->]]]; (match goal with |- context [py_index ?l ?k] => let v := eval cbv in (py_index l k) in change (py_index l k) with v end); cbn [bind];
        (rewrite (src_apply_mask_is_model size m _ _ (inreg_of size fm));
          [cbn [bind]; rewrite <- region_filter; reflexivity | lia | intros i j Hi Hj; now apply er_repr | intros i j Hi Hj _; now apply Hfull]).
    + cbn [bind].
      destruct (best_loop size true m fm _ src_evaluate_micro_mask Z.gtb ltac:(lia) Hfull
                  (fun i j Hi Hj => er_repr size fm i j Hi Hj)
                  (fun mk Hmk => src_evaluate_micro_mask_is_model size mk ltac:(lia) Hmk)
                  (fun a b => Z.gtb_ltb a b)
                  (py_enumerate src_mask_fns_micro) None (-1) masks_micro_model) as [bs' HL].
      rewrite (py_for_ext _ _ (best_body size (to_rows size m) _ src_evaluate_micro_mask Z.gtb))
        by (intros [k f] [[bm bp] bs0] _; reflexivity).
      cbn [enc_best fst snd] in HL. rewrite HL. clear HL.
      rewrite enum_micro. cbn [map fst].
      change (zrange 0 4) with [0; 1; 2; 3].
      destruct (best_mask_loop size true m (region size fm) [0; 1; 2; 3] (-1) None) as [[k mk]|]; reflexivity.
  - (* QR Code *)
    destruct (py_set2 f2 (-8) 8 1) as [f3|e1]; cbn [bind] in HFM |- *; [|discriminate]. injection HFM as ->. subst FM.
    destruct proposed as [k|].
    + assert (Hk : k = 0 \/ k = 1 \/ k = 2 \/ k = 3 \/ k = 4 \/ k = 5 \/ k = 6 \/ k = 7) by lia.
      destruct Hk as [-> | [-> | [-> | [-> | [-> | [-> | [-> | ->]]]]]]]; (match goal with |- context [py_index ?l ?k] => let v := eval cbv in (py_index l k) in change (py_index l k) with v end); cbn [bind];
        (rewrite (src_apply_mask_is_model size m _ _ (inreg_of size fm));
          [cbn [bind]; rewrite <- region_filter; reflexivity | lia | intros i j Hi Hj; now apply er_repr | intros i j Hi Hj _; now apply Hfull]).
    + cbn [bind].
      destruct (best_loop size false m fm _ ext Z.ltb ltac:(lia) Hfull
                  (fun i j Hi Hj => er_repr size fm i j Hi Hj)
                  Hext (fun a b => eq_refl)
                  (py_enumerate src_mask_fns_qr) None max_penalty masks_qr_model) as [bs' HL].
      rewrite (py_for_ext _ _ (best_body size (to_rows size m) _ ext Z.ltb))
        by (intros [k f] [[bm bp] bs0] _; reflexivity).
      cbn [enc_best fst snd] in HL. unfold max_penalty in HL. rewrite HL. clear HL.
      rewrite enum_qr. cbn [map fst].
      change (zrange 0 8) with [0; 1; 2; 3; 4; 5; 6; 7].
      destruct (best_mask_loop size false m (region size fm) [0; 1; 2; 3; 4; 5; 6; 7] _ None) as [[k mk]|]; reflexivity.
Qed.

Print Assumptions src_apply_mask_is_model.
Print Assumptions src_evaluate_micro_mask_is_model.
Print Assumptions src_find_and_apply_best_mask_is_model.
