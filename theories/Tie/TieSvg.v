(* Bridge theorems: the SVG serializer write_svg of segno/writers.py (with its nested helpers svg_color / matrix_to_lines_verbose
   and the wrapper that @colorful puts around it), translated statement by statement from the CURRENT source (SegnoSrc.SrcSvg,
   written by gen/translate_svg.py; Python semantics Base/PySemSvg.v), equals the hand-written model Model/Svg.v for EVERY matrix
   (any number of rows of any lengths, any cell values), border, scale, colour set and option set of the model's typed domain
   (induction over the rows, the line segments, the colours; no sampling), all error cases included: both sides raise the same
   exception.

   Parameters of the translated function (C code) and what is assumed of them:
     ext_q_repr      repr / str of a float given by its exact value      per run: [scale_repr_ok] (a float scale t/2: the scale and
                                                                         the symbol size print as Model/Svg.v float_half_repr),
                                                                         [Rver] (a float svgversion q prints as <ip>.<frac>, ip <= q < ip + 1),
                                                                         [y_repr_ok] (the y coordinates k + 0.5 THIS run prints)
     ext_float_repr  repr of a binary64 value (alpha of a colour)        TieColor.float_repr_ok (the 103 possible alpha values)
     ext_re_sub      re.sub(pattern, repl, s)                            [re_ok]: forall s, ext_re_sub <the class pattern> "" s = Svg.re_sub_class s
   Fixed semantics with a fingerprint of the library source (gen/translate_svg.py SAXUTILS_EXPECTED): xml.sax.saxutils.escape /
   quoteattr are PySemSvg.py_xml_escape / py_xml_quoteattr (successive str.replace calls); [xml_escape_is_model] /
   [xml_quoteattr_is_model] prove them equal to the per-character maps of Model/Svg.v for every str.
   Guards: square symbols (matrix_size = (size, size), as the model); in the multi-colour case the alignment matrix is the one the
   translated make_matrix / add_alignment_patterns build (the model takes it as a parameter, as TieWrNetpbm.src_write_ppm_is_model);
   write_svg_cm (the function under @colorful, on the colormap dict): the dict has the keys TYPE_QUIET_ZONE and TYPE_DATA_DARK
   (every dict that _make_colormap builds has them, so write_svg itself has no such guard).
   Re-checked by coqc on every run.  See DESIGN.md 11.18. *)
From Coq Require Import String.
From Coq Require Import ZArith QArith Qround List Bool Lia ZifyBool PrimFloat.
From Segno Require Import Base.PyLite Base.PySem Base.PySemExt Base.PySemGen Base.PySemIO Base.PySemSeg Base.PySemColor
                          Base.PySemPng Base.PySemVec Base.PySemSvg.
From Segno Require Import Ref.IsoData Model.Iter Model.Color Model.Svg Lemmas.SvgLemmas.
From Segno Require Model.Vector.
From Segno Require Import Tie.TieUtils Tie.TieUtilsIter Tie.TieUtilsVerbose Tie.TieColor Tie.TieVecCommon.
From SegnoSrc Require Import SrcUtils SrcUtilsIter SrcUtilsVerbose SrcFnPat SrcColor SrcVecCommon SrcSvg.
From SegnoSrc Require SrcTables.
Import ListNotations.
Open Scope Z_scope.

(* ================================================================== 0. the generated definition, stage by stage *)
(* The stages below restate the text of build/gen/SrcSvg.v with names; [src_write_svg_unfold] checks the restatement against
   the generated definition by conversion -- this is where every textual change of the source is caught first. *)
Notation key := (option py_color) (only parsing).
Notation seg3 := (py_vnum * py_vnum * py_vnum)%type (only parsing).
Notation item := (option py_color * (py_vnum * py_vnum * py_vnum))%type (only parsing).

Section Stages.
  Variable extq : Q -> list Z.
  Variable extf : py_float -> list Z.
  Variable extre : list Z -> list Z -> list Z -> list Z.

  (* ---- matrix_to_lines_verbose: one module of a row *)
  Definition s_vcell (invalid_color : Z) (j : py_vnum) (c : key) (st : (Z + key) * Z * Z * list item)
    : res (ctl void ((Z + key) * Z * Z * list item)) :=
    let '(last_color, x1, x2, yielded) := st in
    do (x1, yielded) <- (if andb (negb (match last_color with inl x_ => Z.eqb x_ invalid_color | inr _ => false end))
                                 (negb (match last_color with inl _ => false | inr c_ => py_ocolor_eqb c_ c end))
                         then do t <- (match last_color with inr c_ => Ok c_ | inl _ => Err py_unmodelled end);
                              let yielded := yielded ++ [(t, (PVInt x1, PVInt x2, j))] in
                              let x1 := x2 in
                              Ok (x1, yielded)
                         else Ok (x1, yielded));
    let x2 := Z.add x2 1 in
    let last_color := inr c in
    Ok (CNext (last_color, x1, x2, yielded)).

  (* one row *)
  Definition s_vrow (colormap : list (Z * key)) (invalid_color : Z) (row : list Z) (st : py_vnum * list item)
    : res (ctl void (py_vnum * list item)) :=
    let '(j, yielded) := st in
    let last_color := @inl Z key invalid_color in
    let x1 := 0 in
    let x2 := 0 in
    let j := py_vnum_add j (PVInt 1) in
    do cs <- py_seq_res (map (fun mt => do t <- getZ mt colormap; Ok t) row);
    match py_for (A:=void) cs (s_vcell invalid_color j) (last_color, x1, x2, yielded) with
    | Err e' => Err e'
    | Ok (inl r') => match r' return _ with end
    | Ok (inr st') =>
        let '(last_color, x1, x2, yielded) := st' in
        do t <- (match last_color with inr c_ => Ok c_ | inl _ => Err py_unmodelled end);
        let yielded := yielded ++ [(t, (PVInt x1, PVInt x2, j))] in
        Ok (CNext (j, yielded))
    end.

  Definition s_verbose (matrix : list (list Z)) (matrix_size : list Z) (colormap : list (Z * key)) (border : Z)
    : res (list item) :=
    let yielded := @nil item in
    let j := PVFlt ((-1) # 2)%Q in
    let invalid_color := (-1) in
    do rows <- src_matrix_iter_verbose matrix matrix_size (inject_Z 1) (Some border);
    match py_for (A:=void) rows (s_vrow colormap invalid_color) (j, yielded) with
    | Err e' => Err e'
    | Ok (inl r') => match r' return _ with end
    | Ok (inr st') => let '(j, yielded) := st' in Ok yielded
    end.

  (* ---- svg_color *)
  Definition s_svg_color (allow_css3_colors : bool) (clr : key) : res (option py_webcolor) :=
    do t <- (match clr with
             | Some clr => do w <- src__color_to_webcolor extf clr allow_css3_colors true; Ok (Some w)
             | None => Ok None
             end);
    Ok t.

  (* ---- is_multicolor / need_background *)
  Definition s_is_multi (colormap : list (Z * key)) : res bool :=
    if Z.gtb (py_set_len py_ocolor_eqb (map snd colormap)) 2 then Ok true
    else do t <- py_any_res (map (fun '(mt, clr) =>
                                    do t2 <- getZ (if negb (Z.eqb (Z.shiftr mt 8) 0) then 1024 else 18) colormap;
                                    Ok (negb (py_ocolor_eqb clr t2))) colormap);
         Ok t.

  Definition s_need_bg (colormap : list (Z * key)) (is_multicolor : bool) : res bool :=
    if negb is_multicolor
    then do t <- getZ 18 colormap; Ok (negb (match t with None => true | Some _ => false end))
    else Ok false.

  (* ---- miter *)
  Definition s_miter (matrix : list (list Z)) (colormap : list (Z * key)) (border : Z) (is_multicolor : bool)
                     (verbose : res (list item)) : res (res (list item)) :=
    if is_multicolor
    then (let miter := verbose in Ok miter)
    else (let x := border in
          let y := py_vnum_add (PVInt border) (PVFlt (1 # 2)%Q) in
          do dark <- getZ 1024 colormap;
          do ls <- py_lines_tag false (py_vnum_is_float y) (src_matrix_to_lines matrix (inject_Z x) (py_vnum_q y) (inject_Z 1));
          let miter := Ok (map (fun '((x1, y1), (x2, y2)) => (dark, (x1, x2, y1))) ls) in
          Ok miter).

  (* ---- the loop that collects the relative coordinates per colour *)
  Definition s_acc_body (unp : item) (st : list (key * list seg3) * list (key * (py_vnum * py_vnum)))
    : res (ctl void (list (key * list seg3) * list (key * (py_vnum * py_vnum)))) :=
    let '(coordinates, xy) := st in
    let '(clr, (x1, x2, y1)) := unp in
    do (t, xy) <- Ok (py_dd_getitem (let '(a, b) := (0, 0) in (PVInt a, PVInt b)) clr xy);
    let '(x, y) := t in
    do (t2, coordinates) <- Ok (py_dd_getitem (@nil seg3) clr coordinates);
    let coordinates := py_cd_set clr (t2 ++ [(py_vnum_sub x1 x, py_vnum_sub y1 y, py_vnum_sub x2 x1)]) coordinates in
    let xy := py_cd_set clr (x2, y1) xy in
    Ok (CNext (coordinates, xy)).

  (* ---- the background entry, the transparent entry *)
  Definition s_bg_coords (matrix_size : list Z) (colormap : list (Z * key)) (border : Z) (need_background : bool)
                         (coordinates : list (key * list seg3))
    : res (list (key * list seg3) * option py_vnum * option py_vnum) :=
    if need_background
    then do sz <- src_get_symbol_size_v matrix_size (PVInt 1) (Some border);
         do (mwidth, mheight) <- py_unpack2 sz;
         do k <- getZ 18 colormap;
         let coordinates := py_cd_set k (map (fun x_ => let '(a, b, c) := x_ in (PVInt a, PVInt b, c)) [(0, 0, mwidth)])
                                      coordinates in
         Ok (coordinates, Some mheight, Some mwidth)
    else Ok (coordinates, None, None).

  Definition s_del (draw_transparent : bool) (coordinates : list (key * list seg3)) : res (list (key * list seg3)) :=
    if negb draw_transparent
    then match py_cd_del None coordinates with
         | Ok coordinates => Ok coordinates
         | Err KeyErr => Ok coordinates
         | Err e' => Err e'
         end
    else Ok coordinates.

  (* ---- one path *)
  Definition s_path_d (coord : list seg3) : list Z :=
    py_join (@nil Z)
      (map (fun '(i, (x, y, length_py)) =>
              (if Z.gtb i 0 then [109] else [77]) ++ py_vnum_str extq x ++ [32]
              ++ py_vnum_str extq (if py_vnum_eqb (PVInt (py_vnum_int y)) y then PVInt (py_vnum_int y) else y)
              ++ [104] ++ py_vnum_str extq length_py)
           (py_enumerate_from 0 coord)).

  Definition s_path_stroke (path : list Z) (clr : option py_webcolor) : option (list Z) * list Z :=
    match clr with
    | Some clr =>
        match clr with
        | PyWAlpha s_ a_ =>
            let clr := (s_, a_) in
            let '(clr, opacity) := clr in
            let path := path ++ ([32; 115; 116; 114; 111; 107; 101; 61] ++ py_xml_quoteattr clr) in
            let path := path ++ ([32; 115; 116; 114; 111; 107; 101; 45; 111; 112; 97; 99; 105; 116; 121; 61]
                                 ++ py_xml_quoteattr (py_cnum_str extf opacity)) in
            (Some clr, path)
        | PyWPlain clr =>
            let path := path ++ ([32; 115; 116; 114; 111; 107; 101; 61] ++ py_xml_quoteattr clr) in
            (Some clr, path)
        end
    | None => (None, path)
    end.

  Definition s_path_body (p : list Z) (svg_color : key -> res (option py_webcolor)) (unp : key * list seg3)
                         (paths : list (key * list Z)) : res (ctl void (list (key * list Z))) :=
    let '(color, coord) := unp in
    let path := p in
    do clr <- svg_color color;
    let '(clr, path) := s_path_stroke path clr in
    let path := path ++ [32; 100; 61; 34] in
    let path := path ++ s_path_d coord in
    let path := path ++ [34; 47; 62] in
    let paths := py_cd_set color path paths in
    Ok (CNext paths).

  (* ---- the background path: fill instead of stroke, closed, no class *)
  Definition s_bgfix (colormap : list (Z * key)) (need_background : bool) (mheight mwidth : option py_vnum)
                     (paths : list (key * list Z)) : res (list (key * list Z)) :=
    if need_background
    then do k <- getZ 18 colormap;
         do pk <- py_cd_get k paths;
         do mh <- (match mheight with Some x_ => Ok x_ | None => Err TypeErr end);
         do mw <- (match mwidth with Some x_ => Ok x_ | None => Err TypeErr end);
         let paths := py_cd_set k (extre [92; 115; 99; 108; 97; 115; 115; 61; 34; 91; 94; 34; 93; 43; 34] (@nil Z)
                                     (py_str_replace (py_str_replace pk [115; 116; 114; 111; 107; 101] [102; 105; 108; 108])
                                        [34; 47; 62]
                                        ([118] ++ py_vnum_str extq mh ++ [104; 45] ++ py_vnum_str extq mw ++ [122; 34; 47; 62])))
                                 paths in
         Ok paths
    else Ok paths.

  (* ---- the document: one function per statement group, so that the steps compose without duplicating the text so far *)
  Definition d_decl (xmldecl omit_encoding : bool) (encoding : option (list Z)) (svg : list Z) : res (list Z) :=
    if xmldecl
    then (let svg := svg ++ [60; 63; 120; 109; 108; 32; 118; 101; 114; 115; 105; 111; 110; 61; 34; 49; 46; 48; 34] in
          do svg <- (if negb omit_encoding
                     then do t <- (match encoding with Some x_ => Ok x_ | None => Err AttributeErr end);
                          let svg := svg ++ ([32; 101; 110; 99; 111; 100; 105; 110; 103; 61] ++ py_xml_quoteattr t) in
                          Ok svg
                     else Ok svg);
          let svg := svg ++ [63; 62; 10] in
          Ok svg)
    else Ok svg.
  Definition d_ns (svgns : bool) (svg : list Z) : list Z :=
    if svgns
    then (let svg := svg ++ [32; 120; 109; 108; 110; 115; 61; 34; 104; 116; 116; 112; 58; 47; 47; 119; 119; 119; 46;
                             119; 51; 46; 111; 114; 103; 47; 50; 48; 48; 48; 47; 115; 118; 103; 34] in svg)
    else svg.
  Definition d_ver (svgversion : option py_vnum) (svg : list Z) : list Z :=
    if match svgversion with Some svgversion => py_vnum_ltb svgversion (PVFlt (2 # 1)%Q) | None => false end
    then (let svg := svg ++ ([32; 118; 101; 114; 115; 105; 111; 110; 61]
                             ++ py_xml_quoteattr (match svgversion with
                                                  | Some v_ => py_vnum_str extq v_
                                                  | None => [78; 111; 110; 101] end)) in svg)
    else svg.
  Definition d_size (omitsize : bool) (unit_py : list Z) (width height : py_vnum) (svg : list Z) : list Z :=
    if negb omitsize
    then (let svg := svg ++ ([32; 119; 105; 100; 116; 104; 61; 34] ++ py_vnum_str extq width ++ unit_py
                             ++ [34; 32; 104; 101; 105; 103; 104; 116; 61; 34] ++ py_vnum_str extq height ++ unit_py
                             ++ [34]) in svg)
    else svg.
  Definition d_vbox (omitsize : bool) (unit_py : list Z) (width height : py_vnum) (svg : list Z) : list Z :=
    if orb omitsize (negb (Z.eqb (lenZ unit_py) 0))
    then (let svg := svg ++ ([32; 118; 105; 101; 119; 66; 111; 120; 61; 34; 48; 32; 48; 32] ++ py_vnum_str extq width
                             ++ [32] ++ py_vnum_str extq height ++ [34]) in svg)
    else svg.
  Definition d_id (svgid : option (list Z)) (svg : list Z) : res (list Z) :=
    if match svgid with Some s_ => negb (Z.eqb (lenZ s_) 0) | None => false end
    then do t <- (match svgid with Some x_ => Ok x_ | None => Err AttributeErr end);
         let svg := svg ++ ([32; 105; 100; 61] ++ py_xml_quoteattr t) in
         Ok svg
    else Ok svg.
  Definition d_class (svgclass : option (list Z)) (svg : list Z) : res (list Z) :=
    if match svgclass with Some s_ => negb (Z.eqb (lenZ s_) 0) | None => false end
    then do t <- (match svgclass with Some x_ => Ok x_ | None => Err AttributeErr end);
         let svg := svg ++ ([32; 99; 108; 97; 115; 115; 61] ++ py_xml_quoteattr t) in
         Ok svg
    else Ok svg.
  Definition d_title (title : option (list Z)) (svg : list Z) : list Z :=
    match title with
    | Some title => (let svg := svg ++ ([60; 116; 105; 116; 108; 101; 62] ++ py_xml_escape title
                                        ++ [60; 47; 116; 105; 116; 108; 101; 62]) in svg)
    | None => svg
    end.
  Definition d_desc (desc : option (list Z)) (svg : list Z) : list Z :=
    match desc with
    | Some desc => (let svg := svg ++ ([60; 100; 101; 115; 99; 62] ++ py_xml_escape desc
                                       ++ [60; 47; 100; 101; 115; 99; 62]) in svg)
    | None => svg
    end.
  Definition d_gopen (need_svg_group : bool) (scale_info svg : list Z) : list Z :=
    if need_svg_group then (let svg := svg ++ ([60; 103] ++ scale_info ++ [62]) in svg) else svg.
  Definition d_gclose (need_svg_group : bool) (svg : list Z) : list Z :=
    if need_svg_group then (let svg := svg ++ [60; 47; 103; 62] in svg) else svg.
  Definition d_nl (nl : bool) (svg : list Z) : list Z := if nl then (let svg := svg ++ [10] in svg) else svg.

  Definition s_doc (xmldecl svgns : bool) (title desc svgid svgclass : option (list Z)) (omitsize : bool) (unit_py : list Z)
                   (omit_encoding : bool) (encoding : option (list Z)) (svgversion : option py_vnum) (nl : bool)
                   (width height : py_vnum) (need_svg_group : bool) (scale_info : list Z) (paths : list (key * list Z))
    : res (option (list Z) * list Z) :=
    let svg := @nil Z in
    do svg <- d_decl xmldecl omit_encoding encoding svg;
    let svg := svg ++ [60; 115; 118; 103] in
    let svg := d_ns svgns svg in
    let svg := d_ver svgversion svg in
    let svg := d_size omitsize unit_py width height svg in
    let svg := d_vbox omitsize unit_py width height svg in
    do svg <- d_id svgid svg;
    do svg <- d_class svgclass svg;
    let svg := svg ++ [62] in
    let svg := d_title title svg in
    let svg := d_desc desc svg in
    let svg := d_gopen need_svg_group scale_info svg in
    do sorted <- py_sorted_by_key Z.ltb py_len_key (map snd paths);
    let svg := svg ++ py_join (@nil Z) sorted in
    let svg := d_gclose need_svg_group svg in
    let svg := svg ++ [60; 47; 115; 118; 103; 62] in
    let svg := d_nl nl svg in
    let f := py_stream_new in
    let f := py_write f svg in
    Ok (encoding, f).

  (* ---- the whole function *)
  Definition s_write_svg (matrix : list (list Z)) (matrix_size : list Z) (colormap : list (Z * key)) (scale : py_vnum)
                         (border : option Z) (xmldecl svgns : bool) (title desc svgid svgclass lineclass : option (list Z))
                         (omitsize : bool) (unit_py encoding : option (list Z)) (svgversion : option py_vnum)
                         (nl draw_transparent : bool) : res (option (list Z) * list Z) :=
    do whb <- src__valid_width_height_and_border_v matrix_size scale border;
    let '(width, height, border) := whb in
    let matrix_to_lines_verbose := s_verbose matrix matrix_size colormap border in
    let unit_py := (match unit_py with Some s_ => if negb (Z.eqb (lenZ s_) 0) then s_ else @nil Z | None => @nil Z end) in
    if andb (negb (Z.eqb (lenZ unit_py) 0)) omitsize then Err ValueError else
    let omit_encoding := (match encoding with None => true | Some _ => false end) in
    let encoding := (if omit_encoding then (let encoding := [117; 116; 102; 45; 56] in Some encoding) else encoding) in
    let allow_css3_colors := (match svgversion with
                              | Some svgversion => py_vnum_leb (PVFlt (2 # 1)%Q) svgversion
                              | None => false end) in
    let svg_color := s_svg_color allow_css3_colors in
    do is_multicolor <- s_is_multi colormap;
    do need_background <- s_need_bg colormap is_multicolor;
    let need_svg_group := andb (negb (py_vnum_eqb scale (PVInt 1))) (orb need_background is_multicolor) in
    do miter <- s_miter matrix colormap border is_multicolor matrix_to_lines_verbose;
    let xy := @nil (key * (py_vnum * py_vnum)) in
    let coordinates := @nil (key * list seg3) in
    do items <- miter;
    match py_for (A:=void) items s_acc_body (coordinates, xy) with
    | Err e' => Err e'
    | Ok (inl r') => match r' return _ with end
    | Ok (inr st') =>
        let '(coordinates, xy) := st' in
        do (coordinates, mheight, mwidth) <- s_bg_coords matrix_size colormap border need_background coordinates;
        do coordinates <- s_del draw_transparent coordinates;
        let paths := @nil (key * list Z) in
        let scale_info := (if negb (py_vnum_eqb scale (PVInt 1))
                           then [32; 116; 114; 97; 110; 115; 102; 111; 114; 109; 61; 34; 115; 99; 97; 108; 101; 40]
                                ++ py_vnum_str extq scale ++ [41; 34]
                           else @nil Z) in
        do cls <- (if negb (match lineclass with Some s_ => negb (Z.eqb (lenZ s_) 0) | None => false end)
                   then Ok (@nil Z)
                   else do t <- (match lineclass with Some x_ => Ok x_ | None => Err AttributeErr end);
                        Ok ([32; 99; 108; 97; 115; 115; 61] ++ py_xml_quoteattr t));
        let p := [60; 112; 97; 116; 104] ++ (if negb need_svg_group then scale_info else @nil Z) ++ cls in
        match py_for (A:=void) coordinates (s_path_body p svg_color) paths with
        | Err e' => Err e'
        | Ok (inl r') => match r' return _ with end
        | Ok (inr st') =>
            let paths := st' in
            do paths <- s_bgfix colormap need_background mheight mwidth paths;
            s_doc xmldecl svgns title desc svgid svgclass omitsize unit_py omit_encoding encoding svgversion nl width height
                  need_svg_group scale_info paths
        end
    end.
End Stages.

Lemma src_write_svg_unfold extq extf extre matrix matrix_size colormap scale border xmldecl svgns title desc svgid svgclass lineclass
                           omitsize unit_py encoding svgversion nl draw_transparent :
  src_write_svg extq extf extre matrix matrix_size colormap scale border xmldecl svgns title desc svgid svgclass lineclass omitsize
                unit_py encoding svgversion nl draw_transparent
  = s_write_svg extq extf extre matrix matrix_size colormap scale border xmldecl svgns title desc svgid svgclass lineclass omitsize
                unit_py encoding svgversion nl draw_transparent.
Proof. reflexivity. Qed.

(* ================================================================== 1. small correspondences *)
Lemma bind_ok {A B} (a : A) (f : A -> res B) : bind (Ok a) f = f a.
Proof. reflexivity. Qed.

(* ---- str(int) *)
Lemma py_dec_digits_svg f : forall n acc, 0 <= n -> py_dec_digits f n acc = dec_digits f n ++ acc.
Proof.
  induction f as [|f IH]; intros n acc Hn; [reflexivity|].
  cbn [py_dec_digits dec_digits]. destruct (n <? 10) eqn:E.
  - cbn [app]. f_equal. f_equal. apply Z.mod_small. lia.
  - rewrite IH by (apply Z.div_pos; lia). now rewrite <- app_assoc.
Qed.

Lemma str_int_dec n : py_str_int n = Svg.dec n.
Proof.
  unfold py_str_int, Svg.dec, dec_nat, py_digit_fuel. destruct (n <? 0) eqn:E.
  - f_equal. rewrite py_dec_digits_svg by lia. apply app_nil_r.
  - rewrite py_dec_digits_svg by lia. apply app_nil_r.
Qed.

(* ---- str.replace *)
Lemma starts_with_prefix : forall p s, py_starts_with p s = is_prefix p s.
Proof. reflexivity. Qed.      (* the two definitions are the same fixpoint *)

Lemma replace_fuel_model old new : forall f s, py_replace_fuel f old new s = replace_fuel f old new s.
Proof.
  induction f as [|f IH]; intros s; [reflexivity|]. cbn [py_replace_fuel replace_fuel].
  destruct s as [|c r]; [reflexivity|]. rewrite starts_with_prefix. now rewrite !IH.
Qed.

Lemma str_replace_model s old new : old <> [] -> py_str_replace s old new = str_replace old new s.
Proof.
  intros H. unfold py_str_replace, str_replace. destruct old as [|a o]; [congruence|]. apply replace_fuel_model.
Qed.

(* a one-character pattern: every occurrence is replaced, character by character *)
Definition repl1 (c : Z) (rep : list Z) (x : Z) : list Z := if x =? c then rep else [x].

Lemma replace_char_fuel c rep : forall f s, (length s <= f)%nat -> py_replace_fuel f [c] rep s = flat_map (repl1 c rep) s.
Proof.
  induction f as [|f IH]; intros s Hf.
  - destruct s; [reflexivity|cbn in Hf; lia].
  - destruct s as [|x r]; [reflexivity|]. cbn [py_replace_fuel py_starts_with flat_map length skipn]. cbn [length] in Hf.
    unfold repl1 at 1. rewrite Z.eqb_sym. destruct (x =? c); cbn [andb].
    + destruct r; now rewrite IH by (cbn [length] in *; lia).
    + cbn [app]. now rewrite IH by lia.
Qed.

Lemma replace_char s c rep : py_str_replace s [c] rep = flat_map (repl1 c rep) s.
Proof. unfold py_str_replace. now apply replace_char_fuel. Qed.

Lemma flat_map_flat_map {A B C} (f : A -> list B) (g : B -> list C) (l : list A) :
  flat_map g (flat_map f l) = flat_map (fun x => flat_map g (f x)) l.
Proof. induction l as [|x l IH]; cbn [flat_map]; [reflexivity|]. now rewrite flat_map_app, IH. Qed.

Lemma flat_map_ext' {A B} (f g : A -> list B) (l : list A) : (forall x, f x = g x) -> flat_map f l = flat_map g l.
Proof. intros H. induction l as [|x l IH]; cbn [flat_map]; [reflexivity|]. now rewrite H, IH. Qed.

Theorem xml_escape_is_model s : py_xml_escape s = Svg.escape s.
Proof.
  unfold py_xml_escape, Svg.escape. rewrite !replace_char, !flat_map_flat_map. apply flat_map_ext'. intros c.
  unfold escape_cp. unfold repl1 at 3.
  destruct (c =? 38) eqn:E1; [reflexivity|]. cbn [flat_map app]. unfold repl1 at 2.
  destruct (c =? 62) eqn:E2; [reflexivity|]. cbn [flat_map app]. unfold repl1.
  destruct (c =? 60) eqn:E3; reflexivity.
Qed.

Lemma memZ_str_in c s : py_str_in [c] s = memZ c s.
Proof. apply py_str_in_single. Qed.

Theorem xml_quoteattr_is_model s : py_xml_quoteattr s = Svg.quoteattr s.
Proof.
  unfold py_xml_quoteattr, Svg.quoteattr. rewrite xml_escape_is_model. unfold Svg.escape.
  assert (Hd : py_str_replace (py_str_replace (py_str_replace (flat_map escape_cp s) [10] [38; 35; 49; 48; 59]) [13] [38; 35; 49; 51; 59])
                              [9] [38; 35; 57; 59] = flat_map attr_cp s).
  { rewrite !replace_char, !flat_map_flat_map. apply flat_map_ext'. intros c. unfold attr_cp, escape_cp.
    destruct (c =? 10) eqn:E1.
    { assert (c = 10) by lia. subst c. reflexivity. }
    destruct (c =? 13) eqn:E2.
    { assert (c = 13) by lia. subst c. reflexivity. }
    destruct (c =? 9) eqn:E3.
    { assert (c = 9) by lia. subst c. reflexivity. }
    destruct (c =? 38) eqn:E4; [reflexivity|]. destruct (c =? 62) eqn:E5; [reflexivity|].
    destruct (c =? 60) eqn:E6; [reflexivity|].
    cbn [flat_map app]. unfold repl1. rewrite E1. cbn [flat_map app]. rewrite E2. cbn [flat_map app]. now rewrite E3. }
  cbv zeta. rewrite Hd. rewrite !memZ_str_in. rewrite replace_char. reflexivity.
Qed.

(* ---- colours as keys *)
Lemma ocolor_eqb_src a b : py_ocolor_eqb (to_oc a) (to_oc b) = ocolor_eqb a b.
Proof.
  destruct a as [[x|x]|], b as [[y|y]|]; cbn [to_oc option_map to_py_color py_ocolor_eqb py_color_eqb ocolor_eqb pycolor_eqb];
    try reflexivity; apply py_list_eqb_str_eqb.
Qed.

Lemma set_len_src l : py_set_len py_ocolor_eqb (map to_oc l) = lenZ (distinct_colors l).
Proof.
  unfold py_set_len. f_equal.
  assert (H : py_distinct py_ocolor_eqb (map to_oc l) = map to_oc (distinct_colors l)).
  { induction l as [|x r IH]; [reflexivity|]. cbn [map py_distinct distinct_colors].
    assert (E : existsb (py_ocolor_eqb (to_oc x)) (map to_oc r) = existsb (ocolor_eqb x) r).
    { clear IH. induction r as [|y r IH]; [reflexivity|]. cbn [map existsb]. now rewrite ocolor_eqb_src, IH. }
    rewrite E. destruct (existsb (ocolor_eqb x) r); [exact IH|]. cbn [map]. now rewrite IH. }
  rewrite H. unfold lenZ. now rewrite map_length.
Qed.

Lemma getZ_colormap k cm : getZ k (to_py_colormap cm) = do c <- getZ k cm; Ok (to_oc c).
Proof.
  unfold getZ, to_py_colormap. induction cm as [|[k' v] r IH]; [reflexivity|]. cbn [map assocZ fst snd].
  destruct (k =? k'); [reflexivity|exact IH].
Qed.

(* a dict of the source whose values are related to those of a dict of the model *)
Definition Rdict {B A} (R : B -> A -> Prop) (s : list (key * B)) (d : list (ocolor * A)) : Prop :=
  Forall2 (fun sb da => fst sb = to_oc (fst da) /\ R (snd sb) (snd da)) s d.

Lemma Rdict_find {B A} (R : B -> A -> Prop) k : forall s d, Rdict R s d ->
  match py_cd_find (to_oc k) s, od_get k d with
  | Some b, Some a => R b a
  | None, None => True
  | _, _ => False
  end.
Proof.
  induction 1 as [|[k1 b] [k2 a] s d [Hk Hr] _ IH]; [exact I|]. cbn [fst snd] in Hk, Hr. subst k1.
  cbn [py_cd_find od_get]. rewrite ocolor_eqb_src. destruct (ocolor_eqb k k2); [exact Hr|exact IH].
Qed.

Lemma Rdict_set {B A} (R : B -> A -> Prop) k b a : R b a -> forall s d, Rdict R s d ->
  Rdict R (py_cd_set (to_oc k) b s) (od_set k a d).
Proof.
  intros Hba. induction 1 as [|[k1 b1] [k2 a1] s d [Hk Hr] Hrest IH].
  - cbn [py_cd_set od_set]. constructor; [split; [reflexivity|exact Hba]|constructor].
  - cbn [fst snd] in Hk, Hr. subst k1. cbn [py_cd_set od_set]. rewrite ocolor_eqb_src.
    destruct (ocolor_eqb k k2); constructor; try assumption; split; try reflexivity; assumption.
Qed.

Lemma Rdict_keys {B A} (R : B -> A -> Prop) s d : Rdict R s d -> map fst s = map to_oc (map fst d).
Proof. induction 1 as [|[k1 b1] [k2 a1] s d [Hk _] _ IH]; [reflexivity|]. cbn [map fst] in *. now rewrite Hk, IH. Qed.

(* del d[k]: with distinct keys, removing the first entry with that key removes all of them *)
Lemma od_get_None_filter {A} k : forall (d : list (ocolor * A)), od_get k d = None ->
  filter (fun kv => negb (ocolor_eqb k (fst kv))) d = d.
Proof.
  induction d as [|[k' v] r IH]; intros H; [reflexivity|]. cbn [od_get] in H. cbn [filter fst].
  destruct (ocolor_eqb k k'); [discriminate|]. cbn [negb]. now rewrite IH.
Qed.

Lemma Rdict_del {B A} (R : B -> A -> Prop) k : forall s d, Rdict R s d -> NoDup (map fst d) ->
  match py_cd_del (to_oc k) s with
  | Ok s' => od_get k d <> None /\ Rdict R s' (od_del k d)
  | Err e => e = KeyErr /\ od_get k d = None /\ od_del k d = d
  end.
Proof.
  induction 1 as [|[k1 b1] [k2 a1] s d [Hk Hr] Hrest IH]; intros Hnd.
  - cbn. auto.
  - cbn [fst snd] in Hk, Hr. subst k1. cbn [map fst] in Hnd. inversion Hnd as [|? ? Hnot Hnd']; subst.
    cbn [py_cd_del od_get]. unfold od_del. cbn [filter fst]. rewrite ocolor_eqb_src.
    destruct (ocolor_eqb k k2) eqn:E.
    + apply ocolor_eqb_eq in E. subst k2. cbn [negb]. split; [discriminate|].
      rewrite od_get_None_filter; [exact Hrest|].
      destruct (od_get k d) eqn:G; [|reflexivity]. exfalso. apply Hnot. apply od_get_key. congruence.
    + cbn [negb]. specialize (IH Hnd'). destruct (py_cd_del (to_oc k) s) as [s'|e]; cbn [bind].
      * destruct IH as [Hg Hr']. split; [exact Hg|]. constructor; [split; [reflexivity|exact Hr]|exact Hr'].
      * destruct IH as (-> & Hg & Hd). split; [reflexivity|]. split; [exact Hg|]. unfold od_del in Hd. now rewrite Hd.
Qed.

(* a defaultdict read followed by a store under the same key *)
Lemma py_ocolor_eqb_refl k : py_ocolor_eqb k k = true.
Proof.
  assert (L : forall l, py_list_eqb l l = true) by (induction l as [|x l IH]; cbn; [reflexivity|]; now rewrite Z.eqb_refl, IH).
  destruct k as [[s|s]|]; cbn; auto.
Qed.

Lemma dd_then_set {V} (dflt v : V) k : forall d, py_cd_set k v (snd (py_dd_getitem dflt k d)) = py_cd_set k v d.
Proof.
  intros d. unfold py_dd_getitem. destruct (py_cd_find k d) eqn:F; [reflexivity|]. cbn [snd].
  induction d as [|[k' w] r IH].
  - cbn [app py_cd_set]. now rewrite py_ocolor_eqb_refl.
  - cbn [py_cd_find] in F. cbn [app py_cd_set]. destruct (py_ocolor_eqb k k'); [discriminate|]. now rewrite IH.
Qed.

Lemma dd_value {V} (dflt : V) k d : fst (py_dd_getitem dflt k d) = match py_cd_find k d with Some v => v | None => dflt end.
Proof. unfold py_dd_getitem. now destruct (py_cd_find k d). Qed.

(* ---- sorted(xs, key=len): the insertion sort of PySemPng.v (each item behind the items with a key <= its own, from the left)
        and the one of Model/Svg.v (each item before the items with a key >= its own, from the right) are the same stable sort *)
Definition keyed (x : list Z) : Z * list Z := (lenZ x, x).
Fixpoint ins_after (x : list Z) (l : list (list Z)) : list (list Z) :=
  match l with [] => [x] | y :: r => if lenZ x <? lenZ y then x :: l else y :: ins_after x r end.

Lemma insert_keyed_after x : forall acc, py_insert_keyed Z.ltb (keyed x) (map keyed acc) = map keyed (ins_after x acc).
Proof.
  induction acc as [|y acc IH]; cbn [map py_insert_keyed ins_after]; [reflexivity|].
  cbn [keyed fst]. destruct (lenZ x <? lenZ y); cbn [map]; [reflexivity|]. now rewrite <- IH.
Qed.

Lemma sort_keyed_after : forall l acc,
  fold_left (fun a x => py_insert_keyed Z.ltb x a) (combine (map (@lenZ Z) l) l) (map keyed acc)
  = map keyed (fold_left (fun a x => ins_after x a) l acc).
Proof.
  induction l as [|x l IH]; intros acc; cbn [map combine fold_left]; [reflexivity|].
  change (lenZ x, x) with (keyed x). rewrite insert_keyed_after. apply IH.
Qed.

Lemma ins_commute x y : forall acc, ins_after y (insert_by_len x acc) = insert_by_len x (ins_after y acc).
Proof.
  induction acc as [|a r IH].
  - cbn [insert_by_len ins_after]. destruct (lenZ y <? lenZ x) eqn:E1, (lenZ x <=? lenZ y) eqn:E2; try reflexivity; lia.
  - cbn [insert_by_len ins_after].
    destruct (lenZ x <=? lenZ a) eqn:E1, (lenZ y <? lenZ a) eqn:E2; cbn [insert_by_len ins_after].
    + destruct (lenZ y <? lenZ x) eqn:E3, (lenZ x <=? lenZ y) eqn:E4; try lia; rewrite ?E1, ?E2; reflexivity.
    + destruct (lenZ y <? lenZ x) eqn:E3; [lia|]. now rewrite E1, E2.
    + destruct (lenZ x <=? lenZ y) eqn:E3; [lia|]. now rewrite E1, E2.
    + rewrite E1, E2. now rewrite IH.
Qed.

Lemma fold_ins_commute x : forall l acc,
  fold_left (fun a y => ins_after y a) l (insert_by_len x acc) = insert_by_len x (fold_left (fun a y => ins_after y a) l acc).
Proof. induction l as [|y l IH]; intros acc; cbn [fold_left]; [reflexivity|]. now rewrite ins_commute, IH. Qed.

Lemma sort_after_model : forall l, fold_left (fun a y => ins_after y a) l [] = sort_by_len l.
Proof.
  induction l as [|x l IH]; [reflexivity|]. cbn [fold_left ins_after]. unfold sort_by_len. cbn [fold_right].
  change [x] with (insert_by_len x []). rewrite fold_ins_commute. f_equal. exact IH.
Qed.

Lemma sorted_len_is_model (l : list (list Z)) : py_sorted_by_key Z.ltb py_len_key l = Ok (sort_by_len l).
Proof.
  unfold py_sorted_by_key. rewrite (py_seq_res_map_ok py_len_key (@lenZ Z)) by reflexivity. cbn [bind].
  unfold py_sort_keyed. pose proof (sort_keyed_after l []) as H. cbn [map] in H. rewrite H.
  rewrite map_map. cbn [keyed snd]. rewrite map_id. now rewrite sort_after_model.
Qed.

Lemma py_join_nil (l : list (list Z)) : py_join [] l = concat l.
Proof.
  induction l as [|x l IH]; [reflexivity|]. cbn [concat]. rewrite <- IH. destruct l as [|y l]; [cbn; now rewrite app_nil_r|reflexivity].
Qed.

(* ================================================================== 2. the line iterators *)
(* an item of `miter` as the model has it (colour, (x1, x2, y in half units)) seen as the translation's item *)
Definition to_seg3 (s : seg) : seg3 := let '(x1, x2, yh) := s in (PVInt x1, PVInt x2, PVFlt (yh # 2)).
Definition to_item (it : ocolor * seg) : item := (to_oc (fst it), to_seg3 (snd it)).

(* ---- the two-colour case: utils.matrix_to_lines *)
Definition qseg (s : seg) : line := let '(a, b, yh) := s in qline (yh # 2) (a, b).

Lemma lines_rows_q : forall rows x n lb, lines_rows rows (x # 1) (n # 2) 1 lb = map qseg (zrows rows x n lb).
Proof.
  induction rows as [|row r IH]; intros x n lb; [reflexivity|].
  cbn [lines_rows zrows]. rewrite Qhalf_succ, lines_row_z.
  destruct (zrow row x x lb) as [ls [[a b] l]]. cbn [fst snd].
  rewrite !map_app, IH. f_equal; [|f_equal].
  - rewrite map_map. apply map_ext. intros [a' b']. reflexivity.
  - destruct (negb (l =? 0)); reflexivity.
Qed.

Lemma half_start b : (inject_Z b + (1 # 2))%Q = ((2 * b + 1) # 2).
Proof. unfold Qplus, inject_Z. cbn [Qnum Qden]. change (1 * 2)%positive with 2%positive. f_equal. lia. Qed.

Lemma two_color_items matrix b (dk : key) :
  (do ls <- py_lines_tag false true (src_matrix_to_lines matrix (inject_Z b) ((2 * b + 1) # 2) (inject_Z 1));
   Ok (map (fun '((x1, y1), (x2, y2)) => (dk, (x1, x2, y1))) ls))
  = Ok (map (fun s => (dk, to_seg3 s)) (two_color_lines matrix b)).
Proof.
  rewrite lines_tag_is_model. cbn [bind]. f_equal. rewrite two_color_lines_z.
  unfold matrix_to_lines. change (inject_Z 1) with 1%Q. rewrite Qhalf_pred. replace (2 * b + 1 - 2) with (2 * b - 1) by lia.
  change (inject_Z b) with (b # 1). rewrite lines_rows_q. rewrite !map_map. apply map_ext. intros [[a c] yh].
  unfold tag_line, qseg, qline, py_vnum_tag, to_seg3. cbn [l_x1 l_x2 l_y fst snd]. unfold py_int_q. cbn [Qnum Qden].
  now rewrite !Z.quot_1_r.
Qed.

(* ---- the multi-colour case: matrix_to_lines_verbose *)
Definition enc_last (l : option ocolor) : Z + key := match l with None => inl (-1) | Some c => inr (to_oc c) end.

Lemma vcell_loop (yh : Z) : forall crow last x1 x2 acc,
  exists lc x1' x2' acc',
    py_for (map to_oc crow) (s_vcell (-1) (PVFlt (yh # 2))) (enc_last last, x1, x2, acc) = Ok (inr (enc_last lc, x1', x2', acc'))
    /\ (lc = None -> crow = [] /\ last = None)
    /\ acc' ++ (match lc with Some c => [to_item (c, (x1', x2', yh))] | None => [] end)
       = acc ++ map to_item (verbose_row crow last x1 x2 yh).
Proof.
  induction crow as [|c r IH]; intros last x1 x2 acc.
  - exists last, x1, x2, acc. cbn [map py_for verbose_row]. split; [reflexivity|]. split; [auto|].
    destruct last; reflexivity.
  - cbn [map py_for]. destruct last as [lc|].
    + cbn [enc_last s_vcell negb andb]. rewrite ocolor_eqb_src. cbn [verbose_row].
      destruct (negb (ocolor_eqb lc c)) eqn:E; cbn [bind].
      * destruct (IH (Some c) x2 (x2 + 1) (acc ++ [(to_oc lc, (PVInt x1, PVInt x2, PVFlt (yh # 2)))])) as (l' & a & b & acc' & H1 & H2 & H3).
        exists l', a, b, acc'. split; [exact H1|]. split; [intros ->; destruct (H2 eq_refl); discriminate|].
        rewrite H3. cbn [map]. rewrite <- app_assoc. reflexivity.
      * destruct (IH (Some c) x1 (x2 + 1) acc) as (l' & a & b & acc' & H1 & H2 & H3).
        exists l', a, b, acc'. split; [exact H1|]. split; [intros ->; destruct (H2 eq_refl); discriminate|]. exact H3.
    + cbn [enc_last s_vcell]. change (-1 =? -1) with true. cbn [negb andb bind verbose_row].
      destruct (IH (Some c) x1 (x2 + 1) acc) as (l' & a & b & acc' & H1 & H2 & H3).
      exists l', a, b, acc'. split; [exact H1|]. split; [intros ->; destruct (H2 eq_refl); discriminate|]. exact H3.
Qed.

Lemma row_colours cm row :
  py_seq_res (map (fun mt => do t <- getZ mt (to_py_colormap cm); Ok t) row)
  = do crow <- map_res (fun mt => getZ mt cm) row; Ok (map to_oc crow).
Proof.
  induction row as [|mt r IH]; [reflexivity|]. cbn [map py_seq_res map_res]. rewrite getZ_colormap.
  destruct (getZ mt cm) as [c|e]; cbn [bind]; [|reflexivity]. rewrite IH.
  destruct (map_res (fun mt0 => getZ mt0 cm) r); reflexivity.
Qed.

Lemma half_next n : py_vnum_add (PVFlt (n # 2)) (PVInt 1) = PVFlt ((n + 2) # 2).
Proof. unfold py_vnum_add, py_vnum_bin. cbn [py_vnum_q]. f_equal. apply Qhalf_succ. Qed.

Lemma vrow_ok cm row n acc :
  row <> [] ->
  s_vrow (to_py_colormap cm) (-1) row (PVFlt (n # 2), acc)
  = do crow <- map_res (fun mt => getZ mt cm) row;
    Ok (CNext (PVFlt ((n + 2) # 2), acc ++ map to_item (verbose_row crow None 0 0 (n + 2)))).
Proof.
  intros Hne. unfold s_vrow. cbv zeta. rewrite row_colours, half_next.
  destruct (map_res (fun mt => getZ mt cm) row) as [crow|e] eqn:Ec; cbn [bind]; [|reflexivity].
  assert (Hc : crow <> []).
  { destruct row as [|mt r]; [congruence|]. cbn [map_res] in Ec. destruct (getZ mt cm); cbn [bind] in Ec; [|discriminate].
    destruct (map_res (fun mt0 => getZ mt0 cm) r); cbn [bind] in Ec; [|discriminate]. inversion Ec. discriminate. }
  destruct (vcell_loop (n + 2) crow None 0 0 acc) as (lc & a & b & acc' & H1 & H2 & H3).
  destruct lc as [c|]; [|destruct (H2 eq_refl); contradiction].
  cbn [enc_last] in H1. rewrite H1. cbn [bind]. now rewrite <- H3.
Qed.

Lemma vrows_loop cm : forall rows n acc, Forall (fun r => r <> []) rows ->
  py_for (A:=void) rows (s_vrow (to_py_colormap cm) (-1)) (PVFlt (n # 2), acc)
  = do crows <- map_res (map_res (fun mt => getZ mt cm)) rows;
    Ok (inr (PVFlt ((n + 2 * lenZ rows) # 2), acc ++ map to_item (verbose_rows crows n))).
Proof.
  induction rows as [|row r IH]; intros n acc Hne.
  - cbn [py_for map_res bind verbose_rows map]. rewrite app_nil_r. change (lenZ (@nil (list Z))) with 0. now rewrite Z.mul_0_r, Z.add_0_r.
  - inversion Hne as [|? ? H1 H2]; subst. cbn [py_for map_res]. rewrite (vrow_ok cm row n acc H1).
    destruct (map_res (fun mt => getZ mt cm) row) as [crow|e]; cbn [bind]; [|reflexivity].
    rewrite IH by assumption. destruct (map_res (map_res (fun mt => getZ mt cm)) r) as [crows|e]; cbn [bind]; [|reflexivity].
    cbn [verbose_rows]. rewrite map_app, <- app_assoc.
    replace (n + 2 + 2 * lenZ r) with (n + 2 * lenZ (row :: r)) by (unfold lenZ; cbn [length]; lia). reflexivity.
Qed.

Lemma verbose_rows_nonempty matrix am w b :
  Forall (fun r => r <> []) (iter_verbose_rows matrix am w w 1 b).
Proof.
  unfold iter_verbose_rows, repeat_each. apply Forall_forall. intros r Hr.
  apply in_flat_map in Hr. destruct Hr as (r0 & Hr0 & Hin). cbn in Hin. destruct Hin as [<-|[]].
  apply in_map_iff in Hr0. destruct Hr0 as (i & <- & Hi).
  destruct (zrange (- b) (w + b)) as [|j rest]; [destruct Hi|]. cbn. discriminate.
Qed.

Theorem s_verbose_is_model matrix am0 am size b cm :
  0 <= b -> src_make_matrix size size false false = Ok am0 -> src_add_alignment_patterns am0 size size = Ok am ->
  s_verbose matrix [size; size] (to_py_colormap cm) b
  = do items <- multi_color_lines matrix am size b cm; Ok (map to_item items).
Proof.
  intros Hb Ham0 Ham. unfold s_verbose, multi_color_lines. cbv zeta.
  change (inject_Z 1) with (q_of (PInt 1)). rewrite src_matrix_iter_verbose_is_model.
  unfold check_valid_border, check_valid_scale. cbn [option_map py_int q_of].
  replace (negb (Qeq_bool (inject_Z b) (inject_Z b)) || q_ltz (inject_Z b) 0) with false; cycle 1.
  { symmetry. apply orb_false_iff. split.
    - apply negb_false_iff. apply Qeq_bool_iff. reflexivity.
    - unfold q_ltz, Qle_bool, inject_Z. cbn [Qnum Qden]. lia. }
  cbn [bind]. change (q_lebz (inject_Z 1) 0) with false. cbn [bind]. rewrite Ham0. cbn [bind]. rewrite Ham. cbn [bind get_border].
  rewrite (vrows_loop cm _ (-1) []) by apply verbose_rows_nonempty.
  destruct (map_res (map_res (fun mt => getZ mt cm)) (iter_verbose_rows matrix am size size 1 b)); reflexivity.
Qed.

(* ================================================================== 3. the relative coordinates per colour *)
(* x and the length are ints; y is a float whose exact value is yh / 2 -- given by SOME fraction (the float subtraction of the
   translation leaves unreduced fractions), which is all that printing looks at *)
Definition Rseg (s : py_vnum * py_vnum * py_vnum) (c : coord) : Prop :=
  let '(sx, sy, sl) := s in let '(x, yh, l) := c in sx = PVInt x /\ sl = PVInt l /\ (py_vnum_q sy == yh # 2)%Q.
Definition Rcoords : list (option py_color * list (py_vnum * py_vnum * py_vnum)) -> list (ocolor * list coord) -> Prop :=
  Rdict (Forall2 Rseg).
Definition acc_state := list (ocolor * (list coord * (Z * Z))).
Definition cs_of (d : acc_state) : list (ocolor * list coord) := map (fun kv => (fst kv, fst (snd kv))) d.
Definition xy_of (d : acc_state) : list (option py_color * (py_vnum * py_vnum)) :=
  map (fun kv => (to_oc (fst kv), (PVInt (fst (snd (snd kv))), PVFlt (snd (snd (snd kv)) # 2)))) d.

Lemma od_get_cs k : forall d : acc_state, od_get k (cs_of d) = option_map fst (od_get k d).
Proof.
  unfold cs_of. induction d as [|[k' [cs p]] r IH]; [reflexivity|]. cbn [map od_get fst snd].
  destruct (ocolor_eqb k k'); [reflexivity|exact IH].
Qed.
Lemma od_set_cs k cs p : forall d : acc_state, cs_of (od_set k (cs, p) d) = od_set k cs (cs_of d).
Proof.
  unfold cs_of. induction d as [|[k' [cs' p']] r IH]; [reflexivity|]. cbn [map od_set fst snd].
  destruct (ocolor_eqb k k'); cbn [map fst snd]; [reflexivity|]. now rewrite <- IH.
Qed.
Lemma xy_find k : forall d : acc_state,
  py_cd_find (to_oc k) (xy_of d) = option_map (fun e => (PVInt (fst (snd e)), PVFlt (snd (snd e) # 2))) (od_get k d).
Proof.
  unfold xy_of. induction d as [|[k' [cs p]] r IH]; [reflexivity|]. cbn [map py_cd_find od_get fst snd]. rewrite ocolor_eqb_src.
  destruct (ocolor_eqb k k'); [reflexivity|exact IH].
Qed.
Lemma xy_set k cs x y : forall d : acc_state, py_cd_set (to_oc k) (PVInt x, PVFlt (y # 2)) (xy_of d) = xy_of (od_set k (cs, (x, y)) d).
Proof.
  unfold xy_of. induction d as [|[k' [cs' p']] r IH]; [reflexivity|]. cbn [map py_cd_set od_set fst snd]. rewrite ocolor_eqb_src.
  destruct (ocolor_eqb k k'); cbn [map fst snd]; [reflexivity|]. now rewrite IH.
Qed.

Lemma cd_set_app_absent {V} k (v v' : V) d : py_cd_find k d = None -> py_cd_set k v (d ++ [(k, v')]) = py_cd_set k v d.
Proof. intros F. pose proof (dd_then_set v' v k d) as H. unfold py_dd_getitem in H. now rewrite F in H. Qed.

Lemma acc_step clr (sg : seg) (d : acc_state) coords : Rcoords coords (cs_of d) ->
  exists coords',
    s_acc_body (to_item (clr, sg)) (coords, xy_of d)
    = Ok (CNext (coords', xy_of (accumulate [(clr, sg)] d)))
    /\ Rcoords coords' (cs_of (accumulate [(clr, sg)] d)).
Proof.
  destruct sg as [[x1 x2] y1]. intros HR. unfold s_acc_body, py_dd_getitem. cbn [to_item to_seg3 fst snd accumulate]. rewrite xy_find.
  pose proof (Rdict_find (Forall2 Rseg) clr _ _ HR) as Hf. rewrite od_get_cs in Hf.
  destruct (od_get clr d) as [[cs [x y]]|] eqn:G; cbn [option_map fst snd] in *.
  - destruct (py_cd_find (to_oc clr) coords) as [scs|] eqn:F; [|contradiction]. cbn [bind].
    eexists. split.
    + rewrite (xy_set clr (cs ++ [(x1 - x, y1 - y, x2 - x1)]) x2 y1 d). reflexivity.
    + rewrite od_set_cs. apply Rdict_set; [|exact HR]. apply Forall2_app; [exact Hf|]. constructor; [|constructor].
      cbn [Rseg py_vnum_sub py_vnum_bin py_vnum_q]. repeat split.
      unfold Qeq, Qminus, Qplus, Qopp. cbn [Qnum Qden]. lia.
  - destruct (py_cd_find (to_oc clr) coords) as [scs|] eqn:F; [contradiction|]. cbn [bind].
    assert (Fx : py_cd_find (to_oc clr) (xy_of d) = None) by (rewrite xy_find, G; reflexivity).
    rewrite (cd_set_app_absent _ _ _ _ F), (cd_set_app_absent _ _ _ _ Fx).
    eexists. split.
    + rewrite (xy_set clr ([] ++ [(x1 - 0, y1 - 0, x2 - x1)]) x2 y1 d). reflexivity.
    + rewrite od_set_cs. apply Rdict_set; [|exact HR]. cbn [app]. constructor; [|constructor].
      cbn [Rseg py_vnum_sub py_vnum_bin py_vnum_q]. repeat split.
      unfold Qeq, Qminus, Qplus, Qopp, inject_Z. cbn [Qnum Qden]. lia.
Qed.

Lemma accumulate_app a b : forall d, accumulate (a ++ b) d = accumulate b (accumulate a d).
Proof.
  induction a as [|[clr [[x1 x2] y1]] a IH]; intros d; [reflexivity|]. cbn [app accumulate].
  destruct (match od_get clr d with Some e => e | None => ([], (0, 0)) end) as [cs [x y]]. apply IH.
Qed.

Lemma acc_loop : forall items (d : acc_state) coords, Rcoords coords (cs_of d) ->
  exists coords',
    py_for (A:=void) (map to_item items) s_acc_body (coords, xy_of d) = Ok (inr (coords', xy_of (accumulate items d)))
    /\ Rcoords coords' (cs_of (accumulate items d)).
Proof.
  induction items as [|[clr sg] items IH]; intros d coords HR.
  - exists coords. split; [reflexivity|exact HR].
  - destruct (acc_step clr sg d coords HR) as (c1 & E1 & R1).
    destruct (IH _ c1 R1) as (c2 & E2 & R2).
    exists c2. cbn [map py_for]. rewrite E1. rewrite E2.
    change ((clr, sg) :: items) with ([(clr, sg)] ++ items). rewrite accumulate_app. split; [reflexivity|exact R2].
Qed.

(* ================================================================== 4. the paths *)
(* ---- y: `int(y) if int(y) == y else y`, printed *)
Definition y_ok (ext : Q -> list Z) (yh : Z) : Prop := Z.odd yh = true -> ext (Qred (yh # 2)) = float_half_repr yh.

Lemma print_half_odd h : Z.odd h = true -> print_half h = float_half_repr h.
Proof. intros H. unfold print_half, float_half_repr. rewrite <- Z.negb_odd, H. reflexivity. Qed.

Lemma y_print ext sy yh : (py_vnum_q sy == yh # 2)%Q -> y_ok ext yh ->
  py_vnum_str ext (if py_vnum_eqb (PVInt (py_vnum_int sy)) sy then PVInt (py_vnum_int sy) else sy) = print_half yh.
Proof.
  intros Hq Hy. unfold py_vnum_eqb, py_q_eq. cbn [py_vnum_q].
  destruct (Z.odd yh) eqn:Eo.
  - (* k + 0.5: never equal to an int *)
    assert (Hne : forall i, Qeq_bool (inject_Z i) (py_vnum_q sy) = false).
    { intros i. destruct (Qeq_bool (inject_Z i) (py_vnum_q sy)) eqn:E; [|reflexivity]. apply Qeq_bool_iff in E.
      rewrite Hq in E. unfold Qeq, inject_Z in E. cbn [Qnum Qden] in E.
      exfalso. assert (Z.odd yh = Z.odd (i * 2)) by (f_equal; lia). rewrite Z.odd_mul in H. cbn in H. rewrite andb_false_r in H. congruence. }
    rewrite Hne. destruct sy as [z|q].
    + exfalso. cbn [py_vnum_q] in Hq. unfold Qeq, inject_Z in Hq. cbn [Qnum Qden] in Hq.
      assert (Z.odd yh = Z.odd (z * 2)) by (f_equal; lia). rewrite Z.odd_mul in H. cbn in H. rewrite andb_false_r in H. congruence.
    + cbn [py_vnum_str py_vnum_q] in *. rewrite (Qred_complete _ _ Hq). rewrite (Hy Eo). now rewrite print_half_odd.
  - (* an integral value *)
    assert (He : Z.even yh = true) by (rewrite <- Z.negb_odd, Eo; reflexivity).
    unfold print_half. rewrite He. apply Z.even_spec in He. destruct He as [k ->].
    replace (2 * k / 2) with k by (rewrite Z.mul_comm, Z.div_mul; lia).
    assert (Hi : py_vnum_int sy = k).
    { destruct sy as [z|q]; cbn [py_vnum_int py_vnum_q] in *; unfold Qeq in Hq; cbn [Qnum Qden inject_Z] in Hq.
      - lia.
      - unfold py_int_q. assert (Qnum q = k * Z.pos (Qden q)) by lia. rewrite H. apply Z.quot_mul. lia. }
    rewrite Hi. assert (Ht : Qeq_bool (inject_Z k) (py_vnum_q sy) = true).
    { apply Qeq_bool_iff. rewrite Hq. unfold Qeq, inject_Z. cbn [Qnum Qden]. lia. }
    rewrite Ht. cbn [py_vnum_str]. apply str_int_dec.
Qed.

(* ---- the path data *)
Definition ys_ok (ext : Q -> list Z) (cs : list coord) : Prop := Forall (fun c => y_ok ext (snd (fst c))) cs.

Lemma path_d_from ext : forall scs cs i, Forall2 Rseg scs cs -> ys_ok ext cs -> 0 <= i ->
  concat (map (fun '(i, (x, y, length_py)) =>
                 (if Z.gtb i 0 then [109] else [77]) ++ py_vnum_str ext x ++ [32]
                 ++ py_vnum_str ext (if py_vnum_eqb (PVInt (py_vnum_int y)) y then PVInt (py_vnum_int y) else y)
                 ++ [104] ++ py_vnum_str ext length_py)
              (py_enumerate_from i scs))
  = path_data (i =? 0) cs.
Proof.
  induction scs as [|[[sx sy] sl] scs IH]; intros cs i HR Hy Hi; inversion HR as [|? [[x yh] l] ? cs' H1 H2]; subst.
  - now rewrite TieWrCommon.py_enumerate_from_nil.
  - rewrite TieWrCommon.py_enumerate_from_cons. cbn [map concat path_data]. destruct H1 as (-> & -> & Hq).
    inversion Hy as [|? ? Hy1 Hy2]; subst. cbn [fst snd] in Hy1.
    rewrite (y_print ext sy yh Hq Hy1). cbn [py_vnum_str]. rewrite !str_int_dec.
    rewrite (IH cs' (i + 1)) by (assumption || lia).
    replace (i + 1 =? 0) with false by lia.
    replace (i >? 0) with (negb (i =? 0)) by lia. destruct (i =? 0); cbn [negb]; repeat rewrite <- app_assoc; reflexivity.
Qed.

Lemma s_path_d_is_model ext scs cs : Forall2 Rseg scs cs -> ys_ok ext cs -> s_path_d ext scs = path_data true cs.
Proof. intros HR Hy. unfold s_path_d. rewrite py_join_nil. apply (path_d_from ext scs cs 0 HR Hy). lia. Qed.

(* ---- svg_color and one path *)
Lemma webcolor_alpha c css s a : color_to_webcolor c css = Ok (WAlpha s a) -> In a alpha_units.
Proof.
  unfold color_to_webcolor. destruct (color_is_black c); [discriminate|]. destruct (color_is_white c); [discriminate|].
  destruct (color_to_rgb_or_rgba c true) as [l|e] eqn:El; cbn [bind]; [|discriminate].
  destruct (rgb_or_rgba_full c l El) as [(r & g & b & -> & _)|(r & g & b & a' & -> & _ & _ & _ & Ha)]; [discriminate|].
  destruct css; [discriminate|]. intros [= _ <-]. exact Ha.
Qed.

Lemma s_svg_color_is_model extf allow k : float_repr_ok extf ->
  s_svg_color extf allow (to_oc k) = do w <- Svg.svg_color allow k; Ok (option_map to_py_webcolor w).
Proof.
  intros Hf. unfold s_svg_color, Svg.svg_color. destruct k as [c|]; cbn [to_oc option_map]; [|reflexivity].
  rewrite (src_color_to_webcolor_is_model extf c allow Hf).
  destruct (color_to_webcolor c allow); reflexivity.
Qed.

Definition alpha_ok (w : option webcolor) : Prop := match w with Some (WAlpha _ a) => In a alpha_units | _ => True end.

Lemma svg_color_alpha allow k w : Svg.svg_color allow k = Ok w -> alpha_ok w.
Proof.
  unfold Svg.svg_color. destruct k as [c|]; [|intros [= <-]; exact I].
  destruct (color_to_webcolor c allow) as [w'|e] eqn:E; cbn [bind]; [|discriminate]. intros [= <-].
  destruct w' as [s|s a]; [exact I|]. exact (webcolor_alpha c allow s a E).
Qed.

Lemma path_text_src extq extf p w scs cs : float_repr_ok extf -> alpha_ok w -> Forall2 Rseg scs cs -> ys_ok extq cs ->
  ((snd (s_path_stroke extf p (option_map to_py_webcolor w)) ++ [32; 100; 61; 34]) ++ s_path_d extq scs) ++ [34; 47; 62]
  = path_text p w cs.
Proof.
  intros Hf Ha HR Hy. rewrite (s_path_d_is_model extq scs cs HR Hy). unfold path_text, s_path_stroke.
  destruct w as [[s|s a]|]; cbn [option_map to_py_webcolor snd alpha_ok] in *.
  - rewrite xml_quoteattr_is_model. repeat rewrite <- app_assoc. reflexivity.
  - rewrite !xml_quoteattr_is_model. cbn [py_cnum_str]. rewrite (Hf a Ha). repeat rewrite <- app_assoc. reflexivity.
  - repeat rewrite <- app_assoc. reflexivity.
Qed.

Lemma path_body_ok extq extf p allow k scs cs paths : float_repr_ok extf -> Forall2 Rseg scs cs -> ys_ok extq cs ->
  s_path_body extq extf p (s_svg_color extf allow) (to_oc k, scs) paths
  = do w <- Svg.svg_color allow k; Ok (CNext (py_cd_set (to_oc k) (path_text p w cs) paths)).
Proof.
  intros Hf HR Hy. unfold s_path_body. rewrite (s_svg_color_is_model extf allow k Hf).
  destruct (Svg.svg_color allow k) as [w|e] eqn:E; cbn [bind]; [|reflexivity].
  rewrite (surjective_pairing (s_path_stroke extf p (option_map to_py_webcolor w))).
  rewrite (path_text_src extq extf p w scs cs Hf (svg_color_alpha allow k w E) HR Hy). reflexivity.
Qed.

(* ---- the dict `paths` *)
Definition tpaths (l : list (ocolor * str)) : list (option py_color * list Z) := map (fun kv => (to_oc (fst kv), snd kv)) l.

Lemma tpaths_find k : forall l, py_cd_find (to_oc k) (tpaths l) = od_get k l.
Proof.
  induction l as [|[k' v] r IH]; [reflexivity|]. cbn [tpaths map py_cd_find od_get fst snd]. rewrite ocolor_eqb_src.
  destruct (ocolor_eqb k k'); [reflexivity|exact IH].
Qed.
Lemma tpaths_set k v : forall l, py_cd_set (to_oc k) v (tpaths l) = tpaths (od_set k v l).
Proof.
  induction l as [|[k' v'] r IH]; [reflexivity|]. cbn [tpaths map py_cd_set od_set fst snd]. rewrite ocolor_eqb_src.
  destruct (ocolor_eqb k k'); cbn [map fst snd]; [reflexivity|]. f_equal. exact IH.
Qed.
Lemma od_set_absent {A} k (v : A) : forall l, od_get k l = None -> od_set k v l = l ++ [(k, v)].
Proof.
  induction l as [|[k' v'] r IH]; intros H; [reflexivity|]. cbn [od_get] in H. cbn [od_set app].
  destruct (ocolor_eqb k k'); [discriminate|]. now rewrite IH.
Qed.

Definition ys_all (ext : Q -> list Z) (coords : list (ocolor * list coord)) : Prop := Forall (fun kv => ys_ok ext (snd kv)) coords.

Lemma paths_loop extq extf p allow : float_repr_ok extf -> forall scoords coords acc,
  Rcoords scoords coords -> NoDup (map fst acc ++ map fst coords) -> ys_all extq coords ->
  py_for (A:=void) scoords (s_path_body extq extf p (s_svg_color extf allow)) (tpaths acc)
  = do mp <- map_res (fun kv => do w <- Svg.svg_color allow (fst kv); Ok (fst kv, path_text p w (snd kv))) coords;
    Ok (inr (tpaths (acc ++ mp))).
Proof.
  intros Hf. induction scoords as [|[sk scs] scoords IH]; intros coords acc HR Hnd Hy; inversion HR as [|? [k cs] ? coords' H1 H2]; subst.
  - cbn [py_for map_res bind]. now rewrite app_nil_r.
  - cbn [fst snd] in H1. destruct H1 as [-> Hseg]. inversion Hy as [|? ? Hy1 Hy2]; subst. cbn [snd] in Hy1.
    cbn [py_for map_res fst snd]. rewrite (path_body_ok extq extf p allow k scs cs (tpaths acc) Hf Hseg Hy1).
    destruct (Svg.svg_color allow k) as [w|e]; cbn [bind]; [|reflexivity].
    rewrite tpaths_set. cbn [map] in Hnd.
    assert (Hk : od_get k acc = None).
    { destruct (od_get k acc) eqn:G; [|reflexivity]. exfalso. pose proof (NoDup_remove_2 _ _ _ Hnd) as Hni. apply Hni.
      apply in_or_app. left. cbn [fst]. apply od_get_key. congruence. }
    rewrite (od_set_absent k _ acc Hk).
    rewrite (IH coords' (acc ++ [(k, path_text p w cs)]) H2); cycle 1.
    { rewrite map_app, <- app_assoc. exact Hnd. }
    { exact Hy2. }
    destruct (map_res (fun kv => do w0 <- Svg.svg_color allow (fst kv); Ok (fst kv, path_text p w0 (snd kv))) coords'); cbn [bind]; [|reflexivity].
    now rewrite <- app_assoc.
Qed.

(* ---- the background path *)
Definition re_ok (extre : list Z -> list Z -> list Z -> list Z) : Prop :=
  forall s, extre [92; 115; 99; 108; 97; 115; 115; 61; 34; 91; 94; 34; 93; 43; 34] [] s = re_sub_class s.

Lemma s_bgfix_is_model extq extre cm quiet m paths : re_ok extre -> getZ TYPE_QUIET_ZONE cm = Ok quiet ->
  s_bgfix extq extre (to_py_colormap cm) true (Some (PVInt m)) (Some (PVInt m)) (tpaths paths)
  = match od_get quiet paths with
    | Some pk => Ok (tpaths (od_set quiet (bg_fixup m pk) paths))
    | None => Err KeyErr
    end.
Proof.
  intros Hre Hq. unfold s_bgfix. rewrite getZ_colormap. change 18 with TYPE_QUIET_ZONE. rewrite Hq. cbn [bind].
  unfold py_cd_get. rewrite tpaths_find. destruct (od_get quiet paths) as [pk|]; cbn [bind]; [|reflexivity].
  rewrite Hre. rewrite !str_replace_model by discriminate. cbn [py_vnum_str]. rewrite !str_int_dec. rewrite tpaths_set. reflexivity.
Qed.

(* ================================================================== 5. the model, stage by stage *)
(* Model/Svg.v write_svg restated on the colormap dict, with its last expression (the document) as a function; checked against
   the model by conversion *)
Definition m_doc (o : svg_opts) (unit wstr : str) (need_svg_group : bool) (scale_info : str) (paths : list (ocolor * str)) : str :=
     (if so_xmldecl o
      then lit "<?xml version=""1.0""" ++ opt_str (so_encoding o) (fun e => lit " encoding=" ++ quoteattr e)
           ++ lit "?>" ++ [10]
      else [])
  ++ lit "<svg"
  ++ (if so_svgns o then lit " xmlns=""http://www.w3.org/2000/svg""" else [])
  ++ (match so_svgversion o with
      | Some v => if ver_ge2 v then [] else lit " version=" ++ quoteattr (ver_str v)
      | None => [] end)
  ++ (if so_omitsize o then []
      else lit " width=""" ++ wstr ++ unit ++ lit """ height=""" ++ wstr ++ unit ++ lit """")
  ++ (if so_omitsize o || negb (lenZ unit =? 0)
      then lit " viewBox=""0 0 " ++ wstr ++ [32] ++ wstr ++ lit """" else [])
  ++ opt_str (truthy (so_svgid o)) (fun s => lit " id=" ++ quoteattr s)
  ++ opt_str (truthy (so_svgclass o)) (fun s => lit " class=" ++ quoteattr s)
  ++ [62]
  ++ opt_str (so_title o) (fun t => lit "<title>" ++ escape t ++ lit "</title>")
  ++ opt_str (so_desc o) (fun t => lit "<desc>" ++ escape t ++ lit "</desc>")
  ++ (if need_svg_group then lit "<g" ++ scale_info ++ [62] else [])
  ++ concat (sort_by_len (map snd paths))
  ++ (if need_svg_group then lit "</g>" else [])
  ++ lit "</svg>"
  ++ (if so_nl o then [10] else []).

Definition m_is_multi (cm : list (Z * ocolor)) (quiet ddark : ocolor) : bool :=
  (2 <? lenZ (distinct_colors (map snd cm)))
  || existsb (fun kv => negb (ocolor_eqb (snd kv) (if Z.shiftr (fst kv) 8 =? 0 then quiet else ddark))) cm.

Definition m_items (matrix align : list (list Z)) (size border : Z) (cm : list (Z * ocolor)) (ddark : ocolor) (is_multicolor : bool)
  : res (list (ocolor * seg)) :=
  if is_multicolor then multi_color_lines matrix align size border cm
  else Ok (map (fun s => (ddark, s)) (two_color_lines matrix border)).

Definition m_coords (o : svg_opts) (quiet : ocolor) (m : Z) (need_background : bool) (items : list (ocolor * seg))
  : list (ocolor * list coord) :=
  let coords0 := map (fun kv => (fst kv, fst (snd kv))) (accumulate items []) in
  let coords1 := if need_background then od_set quiet [(0, 0, m)] coords0 else coords0 in
  if so_draw_transparent o then coords1 else od_del None coords1.

Definition write_svg_cm (matrix align : list (list Z)) (size : Z) (colormap : list (Z * ocolor)) (o : svg_opts) : res str :=
  let scale := so_scale o in
  if scale_le0 scale then Err ValueError else
  if match so_border o with Some b => b <? 0 | None => false end then Err ValueError else
  let border := get_border size size (so_border o) in
  let m := size + 2 * border in
  let unit := match so_unit o with Some u => u | None => [] end in
  if negb (lenZ unit =? 0) && so_omitsize o then Err ValueError else
  let allow_css3 := match so_svgversion o with Some v => ver_ge2 v | None => false end in
  do quiet <- getZ TYPE_QUIET_ZONE colormap;
  do ddark <- getZ TYPE_DATA_DARK colormap;
  let is_multicolor := m_is_multi colormap quiet ddark in
  let need_background := negb is_multicolor && (match quiet with Some _ => true | None => false end) in
  let need_svg_group := negb (scale_is_1 scale) && (need_background || is_multicolor) in
  do items <- m_items matrix align size border colormap ddark is_multicolor;
  let coords := m_coords o quiet m need_background items in
  let scale_info := if scale_is_1 scale then [] else lit " transform=""scale(" ++ scale_str scale ++ lit ")""" in
  let p := lit "<path" ++ (if need_svg_group then [] else scale_info)
           ++ opt_str (truthy (so_lineclass o)) (fun c => lit " class=" ++ quoteattr c) in
  do paths <- map_res (fun kv => do w <- svg_color allow_css3 (fst kv); Ok (fst kv, path_text p w (snd kv))) coords;
  let paths := if need_background
               then match od_get quiet paths with Some pk => od_set quiet (bg_fixup m pk) paths | None => paths end
               else paths in
  Ok (m_doc o unit (scaled_str m scale) need_svg_group scale_info paths).

Lemma write_svg_cm_unfold matrix align size colors o :
  Svg.write_svg matrix align size colors o = write_svg_cm matrix align size (make_colormap size colors) o.
Proof. unfold Svg.write_svg, write_svg_cm, m_doc, m_coords, m_items, m_is_multi. cbv zeta. reflexivity. Qed.

(* ================================================================== 6. numbers and options *)
(* the model's typed scale (an int, or the float t / 2) and svgversion seen as the translation's int-or-float numbers *)
Definition to_pn (s : svgscale) : pynum := match s with SInt z => PInt z | SHalf t => PFloat (t # 2) end.
Definition to_vs (s : svgscale) : py_vnum := to_vnum (to_pn s).

(* what is assumed of ext_q_repr for THIS scale: the scale itself and the symbol size m * scale print as the model says *)
Definition scale_repr_ok (ext : Q -> list Z) (s : svgscale) (m : Z) : Prop :=
  match s with
  | SInt _ => True
  | SHalf t => ext (Qred (t # 2)) = float_half_repr t /\ ext (Qred ((m * t) # 2)) = float_half_repr (m * t)
  end.

(* svgversion: an int, or a non-negative float q that CPython prints as <ip>.<frac> (so ip <= q < ip + 1) *)
Inductive Rver (ext : Q -> list Z) : option py_vnum -> option svgver -> Prop :=
| Rver_none : Rver ext None None
| Rver_int z : Rver ext (Some (PVInt z)) (Some (VInt z))
| Rver_flt q ip frac : (inject_Z ip <= q)%Q -> (q < inject_Z (ip + 1))%Q -> ext (Qred q) = dec ip ++ [46] ++ frac ->
                       Rver ext (Some (PVFlt q)) (Some (VFloat ip frac)).

Lemma qle2_ip q ip : (inject_Z ip <= q)%Q -> (q < inject_Z (ip + 1))%Q -> Qle_bool (2 # 1) q = (2 <=? ip).
Proof.
  intros H1 H2. destruct (2 <=? ip) eqn:E.
  - apply Qle_bool_iff. apply Qle_trans with (inject_Z ip); [|exact H1]. unfold Qle, inject_Z. cbn [Qnum Qden]. lia.
  - destruct (Qle_bool (2 # 1) q) eqn:F; [|reflexivity]. apply Qle_bool_iff in F. exfalso.
    assert (H3 : (2 # 1 < inject_Z (ip + 1))%Q) by (eapply Qle_lt_trans; eassumption).
    unfold Qlt, inject_Z in H3. cbn [Qnum Qden] in H3. lia.
Qed.

Lemma ver_allow ext sv v : Rver ext sv v ->
  match sv with Some x => py_vnum_leb (PVFlt (2 # 1)) x | None => false end = match v with Some v => ver_ge2 v | None => false end.
Proof.
  intros [|z|q ip frac H1 H2 _]; [reflexivity| |].
  - unfold py_vnum_leb, py_q_le, Qle_bool. cbn [py_vnum_q ver_ge2 inject_Z Qnum Qden]. lia.
  - unfold py_vnum_leb, py_q_le. cbn [py_vnum_q ver_ge2]. now apply qle2_ip.
Qed.

Lemma ver_lt2 ext sv v : Rver ext sv v ->
  match sv with Some x => py_vnum_ltb x (PVFlt (2 # 1)) | None => false end = match v with Some v => negb (ver_ge2 v) | None => false end.
Proof.
  intros [|z|q ip frac H1 H2 _]; [reflexivity| |].
  - unfold py_vnum_ltb, py_q_lt, Qle_bool. cbn [py_vnum_q ver_ge2 inject_Z Qnum Qden]. lia.
  - unfold py_vnum_ltb, py_q_lt. cbn [py_vnum_q ver_ge2]. f_equal. now apply qle2_ip.
Qed.

Lemma ver_str_src ext x v : Rver ext (Some x) (Some v) -> py_vnum_str ext x = ver_str v.
Proof. intros H. inversion H; subst; cbn [py_vnum_str ver_str]; [apply str_int_dec|assumption]. Qed.

Lemma Qeq_bool_eqb x y : Qeq_bool x y = (Qnum x * QDen y =? Qnum y * QDen x).
Proof.
  unfold Qeq_bool. destruct (Zeq_bool (Qnum x * QDen y) (Qnum y * QDen x)) eqn:E; symmetry.
  - apply Z.eqb_eq. now apply Zeq_bool_eq.
  - apply Z.eqb_neq. now apply Zeq_bool_neq.
Qed.

Lemma scale_is_1_src s : py_vnum_eqb (to_vs s) (PVInt 1) = scale_is_1 s.
Proof. destruct s as [z|t]; unfold py_vnum_eqb, py_q_eq; rewrite Qeq_bool_eqb; cbn [to_vs to_vnum to_pn py_vnum_q scale_is_1 inject_Z Qnum Qden]; lia. Qed.

Lemma scale_str_src ext s m : scale_repr_ok ext s m -> py_vnum_str ext (to_vs s) = scale_str s.
Proof. destruct s as [z|t]; cbn [scale_repr_ok to_vs to_vnum to_pn py_vnum_str scale_str]; [intros _; apply str_int_dec|intros [H _]; exact H]. Qed.

Lemma scaled_str_src ext s m : scale_repr_ok ext s m -> py_vnum_str ext (to_vnum (Vector.pn_mul (PInt m) (to_pn s))) = scaled_str m s.
Proof.
  destruct s as [z|t]; cbn [scale_repr_ok to_pn Vector.pn_mul to_vnum py_vnum_str scaled_str q_of]; [intros _; apply str_int_dec|].
  intros [_ H]. rewrite <- H. apply f_equal. apply Qred_complete. unfold Qeq, Qmult, inject_Z. cbn [Qnum Qden]. lia.
Qed.

Lemma scale_le0_src s : check_valid_scale (to_pn s) = if scale_le0 s then Err ValueError else Ok tt.
Proof.
  unfold check_valid_scale, q_lebz, Qle_bool. destruct s as [z|t]; cbn [to_pn q_of scale_le0 inject_Z Qnum Qden].
  - replace (z * 1 <=? 0 * 1) with (z <=? 0) by lia. reflexivity.
  - replace (t * 1 <=? 0 * 2) with (t <=? 0) by lia. reflexivity.
Qed.

(* ================================================================== 7. the document *)
Lemma if_app {A} (c : bool) (a x : list A) : (if c then a ++ x else a) = a ++ (if c then x else []).
Proof. destruct c; [reflexivity|now rewrite app_nil_r]. Qed.

Lemma opt_app (o : option (list Z)) (a : list Z) (f : list Z -> list Z) :
  match o with Some t => a ++ f t | None => a end = a ++ opt_str o f.
Proof. destruct o; [reflexivity|cbn; now rewrite app_nil_r]. Qed.

(* `if x: svg += f(x)` for a str-or-None x *)
Lemma truthy_block {B} (o : option (list Z)) (a : list Z) (f : list Z -> list Z) (K : list Z -> res B) :
  (do svg <- (if match o with Some s_ => negb (lenZ s_ =? 0) | None => false end
              then do t <- (match o with Some x_ => Ok x_ | None => Err AttributeErr end); Ok (a ++ f t)
              else Ok a);
   K svg)
  = K (a ++ opt_str (truthy o) f).
Proof. destruct o as [[|c s]|]; cbn [truthy opt_str bind]; rewrite ?app_nil_r; reflexivity. Qed.

Lemma tpaths_values l : map snd (tpaths l) = map snd l.
Proof. unfold tpaths. rewrite map_map. reflexivity. Qed.

Lemma d_decl_ok (o : svg_opts) :
  d_decl (so_xmldecl o) (match so_encoding o with None => true | Some _ => false end)
         (if match so_encoding o with None => true | Some _ => false end then Some [117; 116; 102; 45; 56] else so_encoding o) []
  = Ok (if so_xmldecl o
        then lit "<?xml version=""1.0""" ++ opt_str (so_encoding o) (fun e => lit " encoding=" ++ quoteattr e) ++ lit "?>" ++ [10]
        else []).
Proof.
  unfold d_decl. destruct (so_xmldecl o); [|reflexivity]. destruct (so_encoding o) as [e|]; cbn [negb bind opt_str]; cbv zeta.
  - rewrite xml_quoteattr_is_model. cbn [app]. repeat rewrite <- app_assoc. reflexivity.
  - reflexivity.
Qed.

Lemma d_ns_ok c a : d_ns c a = a ++ (if c then lit " xmlns=""http://www.w3.org/2000/svg""" else []).
Proof. unfold d_ns. destruct c; [reflexivity|now rewrite app_nil_r]. Qed.

Lemma d_ver_ok extq sv v a : Rver extq sv v ->
  d_ver extq sv a = a ++ (match v with Some v => if ver_ge2 v then [] else lit " version=" ++ quoteattr (ver_str v) | None => [] end).
Proof.
  intros H. unfold d_ver. rewrite (ver_lt2 extq sv v H).
  destruct v as [v|]; [|now rewrite app_nil_r]. destruct (ver_ge2 v); cbn [negb]; [now rewrite app_nil_r|].
  inversion H as [|z|q ip frac H1 H2 H3]; subst; cbv zeta; rewrite xml_quoteattr_is_model; cbn [py_vnum_str ver_str].
  - now rewrite str_int_dec.
  - now rewrite H3.
Qed.

Lemma d_size_ok extq c unit w a wstr : py_vnum_str extq w = wstr ->
  d_size extq c unit w w a = a ++ (if c then [] else lit " width=""" ++ wstr ++ unit ++ lit """ height=""" ++ wstr ++ unit ++ lit """").
Proof. intros <-. unfold d_size. destruct c; cbn [negb]; [now rewrite app_nil_r|reflexivity]. Qed.

Lemma d_vbox_ok extq c unit w a wstr : py_vnum_str extq w = wstr ->
  d_vbox extq c unit w w a = a ++ (if c || negb (lenZ unit =? 0) then lit " viewBox=""0 0 " ++ wstr ++ [32] ++ wstr ++ lit """" else []).
Proof. intros <-. unfold d_vbox. destruct (c || negb (lenZ unit =? 0)); [reflexivity|now rewrite app_nil_r]. Qed.

Lemma d_id_ok o a : d_id o a = Ok (a ++ opt_str (truthy o) (fun s => lit " id=" ++ quoteattr s)).
Proof. unfold d_id. destruct o as [[|c s]|]; cbn [truthy opt_str bind]; rewrite ?app_nil_r, ?xml_quoteattr_is_model; reflexivity. Qed.
Lemma d_class_ok o a : d_class o a = Ok (a ++ opt_str (truthy o) (fun s => lit " class=" ++ quoteattr s)).
Proof. unfold d_class. destruct o as [[|c s]|]; cbn [truthy opt_str bind]; rewrite ?app_nil_r, ?xml_quoteattr_is_model; reflexivity. Qed.
Lemma d_title_ok o a : d_title o a = a ++ opt_str o (fun t => lit "<title>" ++ escape t ++ lit "</title>").
Proof. unfold d_title. destruct o; cbn [opt_str]; rewrite ?app_nil_r, ?xml_escape_is_model; reflexivity. Qed.
Lemma d_desc_ok o a : d_desc o a = a ++ opt_str o (fun t => lit "<desc>" ++ escape t ++ lit "</desc>").
Proof. unfold d_desc. destruct o; cbn [opt_str]; rewrite ?app_nil_r, ?xml_escape_is_model; reflexivity. Qed.
Lemma d_gopen_ok c si a : d_gopen c si a = a ++ (if c then lit "<g" ++ si ++ [62] else []).
Proof. unfold d_gopen. destruct c; [reflexivity|now rewrite app_nil_r]. Qed.
Lemma d_gclose_ok c a : d_gclose c a = a ++ (if c then lit "</g>" else []).
Proof. unfold d_gclose. destruct c; [reflexivity|now rewrite app_nil_r]. Qed.
Lemma d_nl_ok c a : d_nl c a = a ++ (if c then [10] else []).
Proof. unfold d_nl. destruct c; [reflexivity|now rewrite app_nil_r]. Qed.


Lemma s_doc_is_model extq (o : svg_opts) (unit : str) (sver : option py_vnum) (width : py_vnum) wstr group scale_info paths :
  Rver extq sver (so_svgversion o) -> py_vnum_str extq width = wstr ->
  s_doc extq (so_xmldecl o) (so_svgns o) (so_title o) (so_desc o) (so_svgid o) (so_svgclass o) (so_omitsize o) unit
        (match so_encoding o with None => true | Some _ => false end)
        (if match so_encoding o with None => true | Some _ => false end then Some [117; 116; 102; 45; 56] else so_encoding o)
        sver (so_nl o) width width group scale_info (tpaths paths)
  = Ok (match so_encoding o with None => Some [117; 116; 102; 45; 56] | Some e => Some e end, m_doc o unit wstr group scale_info paths).
Proof.
  intros Hver Hw. unfold s_doc. cbv zeta. rewrite d_decl_ok. cbn [bind]. rewrite d_id_ok. cbn [bind]. rewrite d_class_ok. cbn [bind].
  rewrite sorted_len_is_model. cbn [bind]. rewrite py_join_nil, tpaths_values.
  rewrite d_nl_ok, d_gclose_ok, d_gopen_ok, d_desc_ok, d_title_ok, (d_vbox_ok extq _ _ _ _ wstr Hw), (d_size_ok extq _ _ _ _ wstr Hw),
    (d_ver_ok extq sver _ _ Hver), d_ns_ok.
  unfold py_stream_new, py_write, m_doc. cbn [app]. f_equal. f_equal.
  - now destruct (so_encoding o).
  - repeat rewrite <- app_assoc. reflexivity.
Qed.

(* ================================================================== 8. the remaining stages *)
Lemma any_res_ok {X} (f : X -> res bool) (g : X -> bool) (l : list X) :
  (forall x, In x l -> f x = Ok (g x)) -> py_any_res (map f l) = Ok (existsb g l).
Proof.
  induction l as [|x l IH]; intros H; [reflexivity|]. cbn [map py_any_res existsb]. rewrite (H x (or_introl eq_refl)). cbn [bind].
  destruct (g x); [reflexivity|]. apply IH. intros y Hy. apply H. now right.
Qed.

Lemma s_is_multi_is_model cm quiet ddark : getZ TYPE_QUIET_ZONE cm = Ok quiet -> getZ TYPE_DATA_DARK cm = Ok ddark ->
  s_is_multi (to_py_colormap cm) = Ok (m_is_multi cm quiet ddark).
Proof.
  intros Hq Hd. unfold s_is_multi, m_is_multi.
  replace (map snd (to_py_colormap cm)) with (map to_oc (map snd cm)) by (unfold to_py_colormap; now rewrite !map_map).
  rewrite set_len_src. rewrite Z.gtb_ltb. destruct (2 <? lenZ (distinct_colors (map snd cm))); [reflexivity|]. cbn [orb].
  unfold to_py_colormap at 2. rewrite map_map.
  rewrite (any_res_ok _ (fun kv => negb (ocolor_eqb (snd kv) (if Z.shiftr (fst kv) 8 =? 0 then quiet else ddark)))); [reflexivity|].
  intros [mt clr] _. cbn [fst snd]. rewrite getZ_colormap.
  destruct (Z.shiftr mt 8 =? 0); cbn [negb].
  - change 18 with TYPE_QUIET_ZONE. rewrite Hq. cbn [bind]. now rewrite ocolor_eqb_src.
  - change 1024 with TYPE_DATA_DARK. rewrite Hd. cbn [bind]. now rewrite ocolor_eqb_src.
Qed.

Lemma s_need_bg_is_model cm quiet multi : getZ TYPE_QUIET_ZONE cm = Ok quiet ->
  s_need_bg (to_py_colormap cm) multi = Ok (negb multi && (match quiet with Some _ => true | None => false end)).
Proof.
  intros Hq. unfold s_need_bg. destruct multi; [reflexivity|]. cbn [negb andb]. rewrite getZ_colormap.
  change 18 with TYPE_QUIET_ZONE. rewrite Hq. cbn [bind]. now destruct quiet.
Qed.

Lemma s_miter_two matrix cm b ddark verbose : getZ TYPE_DATA_DARK cm = Ok ddark ->
  s_miter matrix (to_py_colormap cm) b false verbose
  = Ok (Ok (map to_item (map (fun s => (ddark, s)) (two_color_lines matrix b)))).
Proof.
  intros Hd. unfold s_miter. cbv zeta. rewrite getZ_colormap. change 1024 with TYPE_DATA_DARK. rewrite Hd. cbn [bind].
  change (py_vnum_is_float (py_vnum_add (PVInt b) (PVFlt (1 # 2)))) with true.
  change (py_vnum_q (py_vnum_add (PVInt b) (PVFlt (1 # 2)))) with (inject_Z b + (1 # 2))%Q. rewrite half_start.
  pose proof (two_color_items matrix b (to_oc ddark)) as H.
  destruct (py_lines_tag false true (src_matrix_to_lines matrix (inject_Z b) (2 * b + 1 # 2) (inject_Z 1))) as [ls|e]; cbn [bind] in *; [|discriminate].
  inversion H as [H1]. rewrite H1. rewrite map_map. reflexivity.
Qed.

Lemma s_bg_coords_is_model size cm b quiet scoords coords : getZ TYPE_QUIET_ZONE cm = Ok quiet -> Rcoords scoords coords ->
  exists scoords',
    s_bg_coords [size; size] (to_py_colormap cm) b true scoords
    = Ok (scoords', Some (PVInt (size + 2 * b)), Some (PVInt (size + 2 * b)))
    /\ Rcoords scoords' (od_set quiet [(0, 0, size + 2 * b)] coords).
Proof.
  intros Hq HR. unfold s_bg_coords. change (PVInt 1) with (to_vnum (PInt 1)). rewrite src_get_symbol_size_v_is_model.
  cbn [get_border Vector.pn_mul to_vnum bind py_unpack2]. rewrite Z.mul_1_r. rewrite getZ_colormap. change 18 with TYPE_QUIET_ZONE.
  rewrite Hq. cbn [bind map]. eexists. split; [reflexivity|]. apply Rdict_set; [|exact HR].
  constructor; [|constructor]. cbn [Rseg py_vnum_q]. repeat split.
Qed.

Lemma s_del_is_model dt scoords coords : Rcoords scoords coords -> NoDup (map fst coords) ->
  exists scoords', s_del dt scoords = Ok scoords' /\ Rcoords scoords' (if dt then coords else od_del None coords).
Proof.
  intros HR Hnd. unfold s_del. destruct dt; cbn [negb]; [exists scoords; split; [reflexivity|exact HR]|].
  pose proof (Rdict_del (Forall2 Rseg) None scoords coords HR Hnd) as H. cbn [to_oc option_map] in H.
  destruct (py_cd_del None scoords) as [s'|e].
  - exists s'. split; [reflexivity|apply H].
  - destruct H as (-> & _ & Hd). exists scoords. split; [reflexivity|]. now rewrite Hd.
Qed.

Lemma NoDup_map_fst_filter {A B} (P : A * B -> bool) : forall l, NoDup (map fst l) -> NoDup (map fst (filter P l)).
Proof.
  induction l as [|x l IH]; intros H; [constructor|]. cbn [map] in H. inversion H as [|? ? Hn Hd]; subst. cbn [filter].
  destruct (P x); [|now apply IH]. cbn [map]. constructor; [|now apply IH].
  intro Hin. apply Hn. apply in_map_iff in Hin. destruct Hin as (y & Hy & Hf). apply filter_In in Hf. apply in_map_iff. exists y. tauto.
Qed.

Lemma m_coords_NoDup o quiet m nb items : NoDup (map fst (m_coords o quiet m nb items)).
Proof.
  unfold m_coords. cbv zeta.
  assert (H0 : NoDup (map fst (map (fun kv : ocolor * (list coord * (Z * Z)) => (fst kv, fst (snd kv))) (accumulate items [])))).
  { rewrite map_map. cbn [fst]. apply (acc_NoDup items []). constructor. }
  assert (H1 : NoDup (map fst (if nb then od_set quiet [(0, 0, m)] (map (fun kv : ocolor * (list coord * (Z * Z)) => (fst kv, fst (snd kv))) (accumulate items []))
                               else map (fun kv : ocolor * (list coord * (Z * Z)) => (fst kv, fst (snd kv))) (accumulate items [])))).
  { destruct nb; [now apply od_set_NoDup|exact H0]. }
  destruct (so_draw_transparent o); [exact H1|]. unfold od_del. now apply NoDup_map_fst_filter.
Qed.

Lemma map_res_keys {A B} (F : ocolor * A -> res (ocolor * B)) :
  (forall kv r, F kv = Ok r -> fst r = fst kv) -> forall l mp, map_res F l = Ok mp -> map fst mp = map fst l.
Proof.
  intros HF. induction l as [|x l IH]; intros mp H; cbn [map_res] in H; [now inversion H|].
  destruct (F x) as [r|e] eqn:E; cbn [bind] in H; [|discriminate].
  destruct (map_res F l) as [t|e]; cbn [bind] in H; [|discriminate]. inversion H; subst. cbn [map]. now rewrite (HF x r E), (IH t eq_refl).
Qed.

Lemma od_get_del_other {A} k : forall (d : list (ocolor * A)), k <> None -> od_get k (od_del None d) = od_get k d.
Proof.
  intros d Hk. unfold od_del. induction d as [|[k' v] r IH]; [reflexivity|]. cbn [filter fst od_get].
  destruct (ocolor_eqb None k') eqn:E; cbn [negb].
  - apply ocolor_eqb_eq in E. subst k'. destruct (ocolor_eqb k None) eqn:E2; [apply ocolor_eqb_eq in E2; contradiction|exact IH].
  - cbn [od_get]. destruct (ocolor_eqb k k'); [reflexivity|exact IH].
Qed.

Lemma check_valid_border_int border :
  check_valid_border (option_map PInt border) = if match border with Some b => b <? 0 | None => false end then Err ValueError else Ok tt.
Proof.
  destruct border as [b|]; [|reflexivity]. unfold check_valid_border. cbn [option_map py_int q_of].
  replace (negb (Qeq_bool (inject_Z b) (inject_Z b))) with false by (symmetry; apply negb_false_iff, Qeq_bool_iff; reflexivity).
  cbn [orb]. unfold q_ltz, Qle_bool, inject_Z. cbn [Qnum Qden]. replace (negb (0 * 1 <=? b * 1)) with (b <? 0) by lia. reflexivity.
Qed.

Lemma unit_src (u : option str) :
  match u with Some s_ => if negb (lenZ s_ =? 0) then s_ else [] | None => [] end = match u return str with Some u => u | None => [] end.
Proof. destruct u as [[|c s]|]; reflexivity. Qed.

Lemma cls_src (lineclass : option (list Z)) :
  (if negb (match lineclass with Some s_ => negb (lenZ s_ =? 0) | None => false end)
   then Ok []
   else do t <- (match lineclass with Some x_ => Ok x_ | None => Err AttributeErr end);
        Ok ([32; 99; 108; 97; 115; 115; 61] ++ py_xml_quoteattr t))
  = Ok (opt_str (truthy lineclass) (fun c => lit " class=" ++ quoteattr c)).
Proof. destruct lineclass as [[|c s]|]; cbn [truthy opt_str bind negb]; rewrite ?xml_quoteattr_is_model; reflexivity. Qed.

(* ================================================================== 9. the theorems *)
(* the relative coordinates THIS run prints (the model's intermediate `coords`) *)
Definition run_coords (matrix align : list (list Z)) (size : Z) (cm : list (Z * ocolor)) (o : svg_opts) : res (list (ocolor * list coord)) :=
  let border := get_border size size (so_border o) in
  let m := size + 2 * border in
  do quiet <- getZ TYPE_QUIET_ZONE cm;
  do ddark <- getZ TYPE_DATA_DARK cm;
  let is_multicolor := m_is_multi cm quiet ddark in
  let need_background := negb is_multicolor && (match quiet with Some _ => true | None => false end) in
  do items <- m_items matrix align size border cm ddark is_multicolor;
  Ok (m_coords o quiet m need_background items).

(* what is assumed of ext_q_repr about the y coordinates: every k + 0.5 that this run prints is printed as the model says *)
Definition y_repr_ok (ext : Q -> list Z) (matrix align : list (list Z)) (size : Z) (cm : list (Z * ocolor)) (o : svg_opts) : Prop :=
  forall coords, run_coords matrix align size cm o = Ok coords -> ys_all ext coords.

Lemma y_repr_ok_all ext matrix align size cm o :
  (forall h, Z.odd h = true -> ext (Qred (h # 2)) = float_half_repr h) -> y_repr_ok ext matrix align size cm o.
Proof.
  intros H coords _. apply Forall_forall. intros kv _. apply Forall_forall. intros c _. intros Ho. now apply H.
Qed.

Definition enc_of (o : svg_opts) : list Z := match so_encoding o with Some e => e | None => [117; 116; 102; 45; 56] end.

Section Main.
  Variables (extq : Q -> list Z) (extf : py_float -> list Z) (extre : list Z -> list Z -> list Z -> list Z).
  Hypothesis Hf : float_repr_ok extf.
  Hypothesis Hre : re_ok extre.

  Theorem src_write_svg_cm_is_model :
    forall (matrix am0 am : list (list Z)) (size : Z) (cm : list (Z * ocolor)) (o : svg_opts) (sver : option py_vnum) (quiet ddark : ocolor),
    getZ TYPE_QUIET_ZONE cm = Ok quiet -> getZ TYPE_DATA_DARK cm = Ok ddark ->
    (m_is_multi cm quiet ddark = true ->
     src_make_matrix size size false false = Ok am0 /\ src_add_alignment_patterns am0 size size = Ok am) ->
    Rver extq sver (so_svgversion o) ->
    scale_repr_ok extq (so_scale o) (size + 2 * get_border size size (so_border o)) ->
    y_repr_ok extq matrix am size cm o ->
    src_write_svg extq extf extre matrix [size; size] (to_py_colormap cm) (to_vs (so_scale o)) (so_border o) (so_xmldecl o)
                  (so_svgns o) (so_title o) (so_desc o) (so_svgid o) (so_svgclass o) (so_lineclass o) (so_omitsize o) (so_unit o)
                  (so_encoding o) sver (so_nl o) (so_draw_transparent o)
    = do t <- write_svg_cm matrix am size cm o; Ok (Some (enc_of o), t).
  Proof.
    intros matrix am0 am size cm o sver quiet ddark Hq Hd Ham Hver Hsc Hys.
    rewrite src_write_svg_unfold. unfold s_write_svg, write_svg_cm. cbv zeta.
    unfold to_vs. rewrite src_valid_whb_v_is_model. unfold Vector.valid_width_height_and_border.
    rewrite scale_le0_src. destruct (scale_le0 (so_scale o)); cbn [bind]; [reflexivity|].
    rewrite check_valid_border_int.
    destruct (match so_border o with Some b => b <? 0 | None => false end) eqn:Eb; cbn [bind]; [reflexivity|].
    assert (Hb0 : 0 <= get_border size size (so_border o)).
    { destruct (so_border o) as [b|]; cbn [get_border]; [lia|]. unfold get_default_border_size. destruct ((17 <? size) && (size =? size)); lia. }
    set (b := get_border size size (so_border o)) in *. set (m := size + 2 * b) in *. cbn [whb_v].
    rewrite unit_src. set (unit := match so_unit o with Some u => u | None => [] end).
    destruct (negb (lenZ unit =? 0) && so_omitsize o); [reflexivity|].
    rewrite (ver_allow extq sver (so_svgversion o) Hver). set (allow := match so_svgversion o with Some v => ver_ge2 v | None => false end).
    rewrite (s_is_multi_is_model cm quiet ddark Hq Hd). rewrite Hq, Hd. cbn [bind].
    set (multi := m_is_multi cm quiet ddark) in *.
    rewrite (s_need_bg_is_model cm quiet multi Hq). cbn [bind].
    set (nb := negb multi && match quiet with Some _ => true | None => false end).
    fold (to_vs (so_scale o)). rewrite scale_is_1_src.
    set (group := negb (scale_is_1 (so_scale o)) && (nb || multi)).
    (* the items *)
    assert (Hit : (do miter <- s_miter matrix (to_py_colormap cm) b multi (s_verbose matrix [size; size] (to_py_colormap cm) b); miter)
                  = do items <- m_items matrix am size b cm ddark multi; Ok (map to_item items)).
    { unfold m_items. destruct multi eqn:Em.
      - destruct (Ham eq_refl) as [H1 H2]. unfold s_miter. cbn [bind]. apply (s_verbose_is_model matrix am0 am size b cm Hb0 H1 H2).
      - rewrite (s_miter_two matrix cm b ddark _ Hd). reflexivity. }
    match goal with |- (do miter <- ?M; do items <- miter; @?K items) = _ =>
      transitivity (do items <- (do miter <- M; miter); K items); [destruct M as [[?|?]|?]; reflexivity|] end.
    rewrite Hit. clear Hit.
    assert (Hrun : run_coords matrix am size cm o
                   = do items <- m_items matrix am size b cm ddark multi; Ok (m_coords o quiet m nb items)).
    { unfold run_coords. cbv zeta. rewrite Hq, Hd. reflexivity. }
    destruct (m_items matrix am size b cm ddark multi) as [items|e]; cbn [bind]; [|reflexivity].
    cbn [bind] in Hrun. specialize (Hys _ Hrun). clear Hrun.
    (* the coordinates per colour *)
    destruct (acc_loop items [] [] (Forall2_nil _)) as (sc0 & Eacc & R0). cbn [xy_of map] in Eacc. rewrite Eacc. clear Eacc.
    assert (Hnd := m_coords_NoDup o quiet m nb items). unfold m_coords in Hys, Hnd |- *. cbv zeta in Hys, Hnd |- *.
    fold (cs_of (accumulate items [])) in Hys, Hnd |- *. set (c0 := cs_of (accumulate items [])) in *.
    assert (Hbg : exists sc1, s_bg_coords [size; size] (to_py_colormap cm) b nb sc0
                              = Ok (sc1, (if nb then Some (PVInt m) else None), (if nb then Some (PVInt m) else None))
                              /\ Rcoords sc1 (if nb then od_set quiet [(0, 0, m)] c0 else c0)).
    { destruct nb; [apply (s_bg_coords_is_model size cm b quiet sc0 c0 Hq R0)|]. exists sc0. split; [reflexivity|exact R0]. }
    destruct Hbg as (sc1 & Ebg & R1). rewrite Ebg. cbn [bind]. clear Ebg.
    set (c1 := if nb then od_set quiet [(0, 0, m)] c0 else c0) in *.
    assert (Hnd1 : NoDup (map fst c1)).
    { subst c1 c0. destruct nb; [apply od_set_NoDup|]; unfold cs_of; rewrite map_map; cbn [fst]; apply (acc_NoDup items []); constructor. }
    destruct (s_del_is_model (so_draw_transparent o) sc1 c1 R1 Hnd1) as (sc2 & Edel & R2). rewrite Edel. cbn [bind]. clear Edel.
    set (coords := if so_draw_transparent o then c1 else od_del None c1) in *.
    (* the paths *)
    rewrite cls_src. cbn [bind].
    rewrite (scale_str_src extq (so_scale o) m Hsc).
    set (scale_info := if scale_is_1 (so_scale o) then [] else lit " transform=""scale(" ++ scale_str (so_scale o) ++ lit ")""").
    assert (Hsi : (if negb (scale_is_1 (so_scale o))
                   then [32; 116; 114; 97; 110; 115; 102; 111; 114; 109; 61; 34; 115; 99; 97; 108; 101; 40] ++ scale_str (so_scale o) ++ [41; 34]
                   else []) = scale_info).
    { subst scale_info. destruct (scale_is_1 (so_scale o)); reflexivity. }
    rewrite Hsi. clear Hsi.
    set (p := lit "<path" ++ (if group then [] else scale_info) ++ opt_str (truthy (so_lineclass o)) (fun c => lit " class=" ++ quoteattr c)).
    assert (Hp : [60; 112; 97; 116; 104] ++ (if negb group then scale_info else []) ++ opt_str (truthy (so_lineclass o)) (fun c => lit " class=" ++ quoteattr c) = p).
    { subst p. destruct group; reflexivity. }
    rewrite Hp. clear Hp.
    change (@nil (option py_color * list Z)) with (tpaths []).
    rewrite (paths_loop extq extf p allow Hf sc2 coords [] R2 Hnd Hys). cbn [app].
    match goal with |- _ = bind (bind ?M _) _ => set (MR := M) end.
    change (map_res (fun kv => do w <- svg_color allow (fst kv); Ok (fst kv, path_text p w (snd kv))) coords) with MR.
    destruct MR as [mp|e] eqn:Emp; cbn [bind]; [|reflexivity].
    (* the background path *)
    assert (Hfix : s_bgfix extq extre (to_py_colormap cm) nb (if nb then Some (PVInt m) else None) (if nb then Some (PVInt m) else None) (tpaths mp)
                   = Ok (tpaths (if nb then match od_get quiet mp with Some pk => od_set quiet (bg_fixup m pk) mp | None => mp end else mp))).
    { destruct nb eqn:Enb; [|reflexivity].
      rewrite (s_bgfix_is_model extq extre cm quiet m mp Hre Hq).
      assert (Hk : od_get quiet mp <> None).
      { assert (Hkeys : map fst mp = map fst coords).
        { apply (map_res_keys (fun kv : ocolor * list coord => do w <- svg_color allow (fst kv); Ok (fst kv, path_text p w (snd kv)))); [|exact Emp].
          intros kv r. cbv beta. destruct (svg_color allow (fst kv)); cbn [bind]; [|discriminate]. now intros [= <-]. }
        apply od_get_key. rewrite Hkeys. apply od_get_key.
        assert (Hqn : quiet <> None) by (subst nb; destruct quiet; [discriminate|now rewrite andb_false_r in Enb]).
        subst coords c1. destruct (so_draw_transparent o); [|rewrite (od_get_del_other quiet _ Hqn)]; rewrite od_get_set, ocolor_eqb_refl; discriminate. }
      destruct (od_get quiet mp); [reflexivity|contradiction]. }
    rewrite Hfix. cbn [bind]. clear Hfix.
    (* the document *)
    rewrite (s_doc_is_model extq o unit sver _ (scaled_str m (so_scale o)) group scale_info _ Hver (scaled_str_src extq (so_scale o) m Hsc)).
    unfold enc_of. destruct (so_encoding o); reflexivity.
  Qed.
End Main.

(* ---- write_svg as the user calls it: the wrapper of @colorful(dark='#000', light=None) builds the colormap with the translated
        _make_colormap (TieColor.src_make_colormap_is_model); every such dict has the two keys the guard asks for *)
Lemma make_colormap_quiet w c : getZ TYPE_QUIET_ZONE (make_colormap w c) = Ok (pick (o_quiet_zone c) (o_light c)).
Proof. unfold make_colormap. cbv zeta. destruct (w <? 45); [destruct (w <? 21)|]; reflexivity. Qed.
Lemma make_colormap_ddark w c : getZ TYPE_DATA_DARK (make_colormap w c) = Ok (pick (o_data_dark c) (o_dark c)).
Proof. unfold make_colormap. cbv zeta. destruct (w <? 45); [destruct (w <? 21)|]; reflexivity. Qed.

Definition is_multicolor (size : Z) (c : color_opts) : bool :=
  m_is_multi (make_colormap size c) (pick (o_quiet_zone c) (o_light c)) (pick (o_data_dark c) (o_dark c)).

Section Wrapper.
  Variables (extq : Q -> list Z) (extf : py_float -> list Z) (extre : list Z -> list Z -> list Z -> list Z).
  Hypothesis Hf : float_repr_ok extf.
  Hypothesis Hre : re_ok extre.

  Theorem src_write_svg_is_model :
    forall (matrix am0 am : list (list Z)) (size : Z) (c : color_opts) (o : svg_opts) (sver : option py_vnum),
    (is_multicolor size c = true ->
     src_make_matrix size size false false = Ok am0 /\ src_add_alignment_patterns am0 size size = Ok am) ->
    Rver extq sver (so_svgversion o) ->
    scale_repr_ok extq (so_scale o) (size + 2 * get_border size size (so_border o)) ->
    y_repr_ok extq matrix am size (make_colormap size c) o ->
    src_write_svg_colorful extq extf extre matrix [size; size] (to_oc (o_dark c)) (to_oc (o_light c))
      (to_ooc (o_finder_dark c)) (to_ooc (o_finder_light c)) (to_ooc (o_data_dark c)) (to_ooc (o_data_light c))
      (to_ooc (o_version_dark c)) (to_ooc (o_version_light c)) (to_ooc (o_format_dark c)) (to_ooc (o_format_light c))
      (to_ooc (o_alignment_dark c)) (to_ooc (o_alignment_light c)) (to_ooc (o_timing_dark c)) (to_ooc (o_timing_light c))
      (to_ooc (o_separator c)) (to_ooc (o_dark_module c)) (to_ooc (o_quiet_zone c))
      (to_vs (so_scale o)) (so_border o) (so_xmldecl o) (so_svgns o) (so_title o) (so_desc o) (so_svgid o) (so_svgclass o)
      (so_lineclass o) (so_omitsize o) (so_unit o) (so_encoding o) sver (so_nl o) (so_draw_transparent o)
    = do t <- Svg.write_svg matrix am size c o; Ok (Some (enc_of o), t).
  Proof.
    intros matrix am0 am size c o sver Ham Hver Hsc Hys. unfold src_write_svg_colorful. cbn [py_star_args2 bind]. cbv zeta.
    rewrite src_make_colormap_is_model, write_svg_cm_unfold.
    rewrite (src_write_svg_cm_is_model extq extf extre Hf Hre matrix am0 am size (make_colormap size c) o sver _ _
               (make_colormap_quiet size c) (make_colormap_ddark size c) Ham Hver Hsc Hys).
    destruct (write_svg_cm matrix am size (make_colormap size c) o); reflexivity.
  Qed.

  (* the bytes: the stream is opened with the encoding the function returns ('utf-8' when encoding is None); for that
     encoding the file holds Model/Svg.v utf8 of the text, i.e. write_svg_utf8 *)
  Corollary src_write_svg_utf8 :
    forall (matrix am0 am : list (list Z)) (size : Z) (c : color_opts) (o : svg_opts) (sver : option py_vnum),
    (is_multicolor size c = true ->
     src_make_matrix size size false false = Ok am0 /\ src_add_alignment_patterns am0 size size = Ok am) ->
    Rver extq sver (so_svgversion o) ->
    scale_repr_ok extq (so_scale o) (size + 2 * get_border size size (so_border o)) ->
    y_repr_ok extq matrix am size (make_colormap size c) o ->
    (do r <- src_write_svg_colorful extq extf extre matrix [size; size] (to_oc (o_dark c)) (to_oc (o_light c))
               (to_ooc (o_finder_dark c)) (to_ooc (o_finder_light c)) (to_ooc (o_data_dark c)) (to_ooc (o_data_light c))
               (to_ooc (o_version_dark c)) (to_ooc (o_version_light c)) (to_ooc (o_format_dark c)) (to_ooc (o_format_light c))
               (to_ooc (o_alignment_dark c)) (to_ooc (o_alignment_light c)) (to_ooc (o_timing_dark c)) (to_ooc (o_timing_light c))
               (to_ooc (o_separator c)) (to_ooc (o_dark_module c)) (to_ooc (o_quiet_zone c))
               (to_vs (so_scale o)) (so_border o) (so_xmldecl o) (so_svgns o) (so_title o) (so_desc o) (so_svgid o) (so_svgclass o)
               (so_lineclass o) (so_omitsize o) (so_unit o) (so_encoding o) sver (so_nl o) (so_draw_transparent o);
     utf8 (snd r))
    = Svg.write_svg_utf8 matrix am size c o.
  Proof.
    intros matrix am0 am size c o sver Ham Hver Hsc Hys.
    rewrite (src_write_svg_is_model matrix am0 am size c o sver Ham Hver Hsc Hys). unfold write_svg_utf8.
    destruct (Svg.write_svg matrix am size c o); reflexivity.
  Qed.
End Wrapper.

(* ---- the ValueError cases, without any hypothesis about the parameters or the colour map *)
Section Errors.
  Variables (extq : Q -> list Z) (extf : py_float -> list Z) (extre : list Z -> list Z -> list Z -> list Z).
  Variables (matrix : list (list Z)) (size : Z) (cm : list (Z * option py_color)) (o : svg_opts) (sver : option py_vnum).
  Let run := src_write_svg extq extf extre matrix [size; size] cm (to_vs (so_scale o)) (so_border o) (so_xmldecl o)
               (so_svgns o) (so_title o) (so_desc o) (so_svgid o) (so_svgclass o) (so_lineclass o) (so_omitsize o) (so_unit o)
               (so_encoding o) sver (so_nl o) (so_draw_transparent o).

  Theorem src_write_svg_err_scale : scale_le0 (so_scale o) = true -> run = Err ValueError.
  Proof.
    intros H. unfold run. rewrite src_write_svg_unfold. unfold s_write_svg, to_vs. rewrite src_valid_whb_v_is_model.
    unfold Vector.valid_width_height_and_border. rewrite scale_le0_src, H. reflexivity.
  Qed.

  Theorem src_write_svg_err_border b : scale_le0 (so_scale o) = false -> so_border o = Some b -> b < 0 -> run = Err ValueError.
  Proof.
    intros H Hb Hneg. unfold run. rewrite src_write_svg_unfold. unfold s_write_svg, to_vs. rewrite src_valid_whb_v_is_model.
    unfold Vector.valid_width_height_and_border. rewrite scale_le0_src, H. cbn [bind]. rewrite check_valid_border_int, Hb.
    replace (b <? 0) with true by lia. reflexivity.
  Qed.

  Theorem src_write_svg_err_unit u : scale_le0 (so_scale o) = false -> match so_border o with Some b => b <? 0 | None => false end = false ->
    so_unit o = Some u -> u <> [] -> so_omitsize o = true -> run = Err ValueError.
  Proof.
    intros H Hb Hu Hne Hom. unfold run. rewrite src_write_svg_unfold. unfold s_write_svg, to_vs. rewrite src_valid_whb_v_is_model.
    unfold Vector.valid_width_height_and_border. rewrite scale_le0_src, H. cbn [bind]. rewrite check_valid_border_int, Hb. cbn [bind whb_v].
    cbv zeta. rewrite Hu, Hom. destruct u as [|c u]; [congruence|]. reflexivity.
  Qed.
End Errors.

Print Assumptions xml_escape_is_model.
Print Assumptions xml_quoteattr_is_model.
Print Assumptions src_write_svg_cm_is_model.
Print Assumptions src_write_svg_is_model.
Print Assumptions src_write_svg_utf8.
Print Assumptions src_write_svg_err_scale.
Print Assumptions src_write_svg_err_border.
Print Assumptions src_write_svg_err_unit.
