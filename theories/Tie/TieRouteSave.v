(* Bridge: the mechanically translated writers.save (build/gen/SrcRouteSave.v, gen/translate_route.py) against the hand
   model Model/Route.v [resolve].  The translated function is the WHOLE of save(): which serializer is called and whether
   its output goes through gzip; the call itself is the parameter [ext_call key gzip?].
   Also: the facts about Base/PySemRoute.v that the three routing bridges share (str equality, lower, rfind, slices). *)
From Coq Require Import ZArith List Bool Lia.
From Segno Require Import Base.PyLite Base.PySem Base.PySemRoute Ref.IsoData Model.Color Model.Route.
From Segno Require Tie.TieTables.
From SegnoSrc Require SrcTables SrcRouteSave.
Import ListNotations.
Open Scope Z_scope.

(* ------------------------------------------------------------------ PySemRoute against the helper functions of the model *)
Lemma pyr_str_eqb_model a : forall b, pyr_str_eqb a b = str_eqb a b.
Proof. induction a as [|x a IH]; intros [|y b]; cbn [pyr_str_eqb str_eqb]; try reflexivity. all: now rewrite IH. Qed.

Lemma pyr_lower_model s : pyr_lower s = lower s.
Proof. reflexivity. Qed.

Lemma pyr_str_in_model k l : pyr_str_in k l = mem_str k l.
Proof.
  unfold pyr_str_in, mem_str. induction l as [|x r IH]; cbn [existsb]; [reflexivity|].
  now rewrite IH, pyr_str_eqb_model.
Qed.

Lemma pyr_rfind_aux_dot s : forall pos last, pyr_rfind_aux s [46] pos last = rfind_dot_aux s pos last.
Proof.
  induction s as [|c r IH]; intros pos last; cbn [pyr_rfind_aux rfind_dot_aux pyr_starts_with]; [reflexivity|].
  rewrite IH. rewrite andb_true_r, (Z.eqb_sym 46 c). reflexivity.
Qed.
Lemma pyr_rfind_dot s : pyr_rfind s [46] = rfind_dot s.
Proof. apply pyr_rfind_aux_dot. Qed.

Lemma rfind_dot_aux_lower s : forall pos last, -1 <= last -> 0 <= pos -> -1 <= rfind_dot_aux s pos last.
Proof.
  induction s as [|c r IH]; intros pos last Hl Hp; cbn [rfind_dot_aux]; [exact Hl|].
  apply IH; [destruct (c =? 46); lia|lia].
Qed.
Lemma rfind_dot_lower s : -1 <= rfind_dot s.
Proof. apply rfind_dot_aux_lower; lia. Qed.
Lemma rfind_dot_aux_upper s : forall pos last, last < pos -> rfind_dot_aux s pos last < pos + lenZ s.
Proof.
  induction s as [|c r IH]; intros pos last Hl; cbn [rfind_dot_aux]; unfold lenZ; cbn [length]; [lia|].
  specialize (IH (pos + 1) (if c =? 46 then pos else last)). unfold lenZ in IH.
  assert (Hlt : (if c =? 46 then pos else last) < pos + 1) by (destruct (c =? 46); lia).
  specialize (IH Hlt). lia.
Qed.
Lemma rfind_dot_upper s : rfind_dot s < lenZ s.
Proof. unfold rfind_dot. pose proof (rfind_dot_aux_upper s 0 (-1)) as H. lia. Qed.

(* fname[fname.rfind('.') + 1:].lower() *)
Lemma ext_of_src s : pyr_lower (py_slice_from s (Z.add (pyr_rfind s [46]) 1)) = ext_of s.
Proof.
  unfold ext_of, py_slice_from. rewrite pyr_rfind_dot, pyr_lower_model.
  pose proof (rfind_dot_lower s) as Hlo.
  destruct (rfind_dot s + 1 <? 0) eqn:E; [apply Z.ltb_lt in E; lia|reflexivity].
Qed.

Lemma bind_unit_ret (r : res unit) : (do _ <- r; Ok tt) = r.
Proof. destruct r as [[]|e]; reflexivity. Qed.

(* ------------------------------------------------------------------ writers.save *)
(* the file name save() looks at, and whether it came from the `name` attribute of a stream *)
Definition out_fname (o : py_out) : str := match o with POStr s => s | POStream (Some n) => n | POStream None => [] end.
Definition out_named_stream (o : py_out) : bool := match o with POStream (Some _) => true | _ => false end.

(* the part of save() after the extension is known *)
Lemma save_tail ext_call (ext : list Z) (is_stream : bool) :
  (let is_svgz := (andb (negb is_stream) (pyr_str_eqb ext [115; 118; 103; 122])) in
   (match ((do t'10 <- (pyr_strkey_get (if (negb is_svgz) then ext else [115; 118; 103]) SrcTables.VALID_SERIALIZERS);
            (let serializer := t'10 in Ok (CNext serializer))) : res (ctl void _)) with
    | Err KeyErr => Err ValueError
    | Err e' => Err e'
    | Ok (CRet r') => (match r' return _ with end)
    | Ok (CNext st') | Ok (CBrk st') =>
        (let serializer := st' in
         (do _ <- (if is_svgz then (do _ <- (ext_call serializer true); (Ok tt)) else (do _ <- (ext_call serializer false); (Ok tt)));
          Ok tt))
    end))
  = (let is_svgz := negb is_stream && str_eqb ext svgz in
     let key := if is_svgz then svg else ext in
     do p <- (if mem_str key VALID_SERIALIZERS then Ok (key, is_svgz) else Err ValueError); ext_call (fst p) (snd p)).
Proof.
  cbv zeta. rewrite pyr_str_eqb_model. change [115; 118; 103; 122] with svgz. change [115; 118; 103] with svg.
  set (z := negb is_stream && str_eqb ext svgz).
  unfold pyr_strkey_get. rewrite pyr_str_in_model, TieTables.tie_VALID_SERIALIZERS.
  replace (if negb z then ext else svg) with (if z then svg else ext) by (destruct z; reflexivity).
  destruct (mem_str (if z then svg else ext) VALID_SERIALIZERS); cbn [bind fst snd]; [|reflexivity].
  destruct z; rewrite !bind_unit_ret; reflexivity.
Qed.

Theorem src_save_is_model ext_call (out : py_out) (kind : option (list Z)) :
  (kind = None -> out <> POStream None) ->
  SrcRouteSave.src_save ext_call out kind
  = do p <- resolve kind (out_fname out) (out_named_stream out); ext_call (fst p) (snd p).
Proof.
  intros Hnamed. unfold SrcRouteSave.src_save, resolve. cbv zeta.
  destruct kind as [k|].
  - cbn [bind]. rewrite pyr_lower_model. apply (save_tail ext_call (lower k) false).
  - destruct out as [s|[n|]]; cbn [pyr_out_name pyr_out_str bind out_fname out_named_stream].
    + rewrite ext_of_src. apply (save_tail ext_call (ext_of s) false).
    + rewrite ext_of_src. apply (save_tail ext_call (ext_of n) true).
    + exfalso. now apply Hnamed.
Qed.

(* a stream without a `name` and no `kind`: `fname = out`, then `fname.rfind` raises AttributeError (the documented misuse) *)
Theorem src_save_nameless ext_call : SrcRouteSave.src_save ext_call (POStream None) None = Err AttributeErr.
Proof. reflexivity. Qed.

(* with `kind` given the `out` argument is not looked at (a nameless stream included) *)
Corollary src_save_kind ext_call out k :
  SrcRouteSave.src_save ext_call out (Some k) = do p <- resolve (Some k) [] false; ext_call (fst p) (snd p).
Proof. rewrite src_save_is_model by discriminate. reflexivity. Qed.

(* save() reaches a serializer only through the table, and gzip only for a file NAME ending in .svgz (any case) *)
Corollary src_save_calls ext_call out kind :
  (kind = None -> out <> POStream None) ->
  match resolve kind (out_fname out) (out_named_stream out) with
  | Ok (key, gz) => SrcRouteSave.src_save ext_call out kind = ext_call key gz /\ mem_str key VALID_SERIALIZERS = true
  | Err e => SrcRouteSave.src_save ext_call out kind = Err ValueError
  end.
Proof.
  intros Hnamed. rewrite (src_save_is_model ext_call out kind Hnamed).
  destruct (resolve kind (out_fname out) (out_named_stream out)) as [[key gz]|e] eqn:E; cbn [bind fst snd].
  - split; [reflexivity|]. unfold resolve in E.
    destruct (mem_str _ VALID_SERIALIZERS) eqn:M; [|discriminate]. injection E as <- _. exact M.
  - unfold resolve in E. destruct (mem_str _ VALID_SERIALIZERS); [discriminate|]. now injection E as <-.
Qed.

Print Assumptions src_save_is_model.
Print Assumptions src_save_calls.
