(* Bridge: the mechanically translated cli.build_config (build/gen/SrcRouteCli.v, gen/translate_route.py) against the hand
   model Model/Route.v [build_config].  config is typed as the model types it: an association list option name -> repr(value).

   The translated code uses Python's dict (an update keeps the position of the key, Base/PySemRoute.v), the model moves an
   updated key to the end ([cfg_set] = remove ++ [(k, v)]): the two results are EQUAL AS MAPPINGS (what Python's == on dicts
   and the `**config` call of the serializer observe), not as lists.  The theorem is therefore stated on lookups:
   for every key, the value (or absence) in the dict that the translated build_config returns is the model's.

   NO guard: every dict with str keys and repr-given values, every file name.  (Until Model/Route.v [falsy] was completed with the
   reprs of 0.0, -0.0, [], (), {}, set(), b'' the bridge carried a guard on the values: [float_zero_colour_agrees].) *)
From Coq Require Import ZArith List Bool Lia.
From Segno Require Import Base.PyLite Base.PySem Base.PySemRoute Ref.IsoData Model.Color Model.Route.
From Segno Require Tie.TieTables.
From Segno Require Import Tie.TieRouteSave.
From SegnoSrc Require SrcTables SrcRouteCli.
Import ListNotations.
Open Scope Z_scope.

(* ------------------------------------------------------------------ str equality *)
Lemma str_eqb_true a b : str_eqb a b = true <-> a = b.
Proof. rewrite <- pyr_str_eqb_model. apply pyr_str_eqb_eq. Qed.
Lemma str_eqb_rfl a : str_eqb a a = true.
Proof. now apply str_eqb_true. Qed.
Lemma str_eqb_comm a b : str_eqb a b = str_eqb b a.
Proof. rewrite <- !pyr_str_eqb_model. apply pyr_str_eqb_sym. Qed.
Lemma str_eqb_trans_false a b c : str_eqb a b = true -> str_eqb a c = str_eqb b c.
Proof. intros H. apply str_eqb_true in H. now subst. Qed.

(* ------------------------------------------------------------------ lookups after the dict operations *)
Lemma assoc_model {A} k (c : list (list Z * A)) : pyr_assoc k c = assoc_str k c.
Proof. induction c as [|[k' v] r IH]; cbn [pyr_assoc assoc_str]; [reflexivity|]. now rewrite pyr_str_eqb_model, IH. Qed.
Lemma assoc_cfg k (c : config) : pyr_assoc k c = cfg_get k c.
Proof. induction c as [|[k' v] r IH]; cbn [pyr_assoc cfg_get]; [reflexivity|]. now rewrite pyr_str_eqb_model, IH. Qed.

Lemma get_app k (a b : config) : cfg_get k (a ++ b) = match cfg_get k a with Some v => Some v | None => cfg_get k b end.
Proof. induction a as [|[k' v] r IH]; cbn [app cfg_get]; [reflexivity|]. destruct (str_eqb k k'); [reflexivity|exact IH]. Qed.

Lemma get_model_remove k k' (c : config) : cfg_get k' (cfg_remove k c) = if str_eqb k k' then None else cfg_get k' c.
Proof.
  unfold cfg_remove. induction c as [|[k0 v] r IH]; cbn [filter cfg_get]; [now destruct (str_eqb k k')|].
  destruct (str_eqb k k0) eqn:E0; cbn [negb cfg_get].
  - rewrite IH. destruct (str_eqb k k') eqn:E; [reflexivity|].
    replace (str_eqb k' k0) with false; [reflexivity|]. symmetry. rewrite str_eqb_comm, <- (str_eqb_trans_false k k0 k' E0). exact E.
  - rewrite IH. destruct (str_eqb k' k0) eqn:E1; [|reflexivity].
    replace (str_eqb k k') with false; [reflexivity|]. symmetry. rewrite (str_eqb_comm k k'), (str_eqb_trans_false k' k0 k E1), str_eqb_comm. exact E0.
Qed.
Lemma get_model_set k v k' (c : config) : cfg_get k' (cfg_set k v c) = if str_eqb k k' then Some v else cfg_get k' c.
Proof.
  unfold cfg_set. rewrite get_app, get_model_remove. cbn [cfg_get]. rewrite (str_eqb_comm k' k).
  destruct (str_eqb k k'); [reflexivity|]. now destruct (cfg_get k' c).
Qed.

Lemma get_src_remove k k' (c : py_cfg) : cfg_get k' (pyr_cfg_remove c k) = if str_eqb k k' then None else cfg_get k' c.
Proof.
  rewrite <- get_model_remove. unfold pyr_cfg_remove, cfg_remove. f_equal.
  induction c as [|[k0 v] r IH]; cbn [filter fst]; [reflexivity|]. now rewrite pyr_str_eqb_model, IH.
Qed.
Lemma get_src_set k v k' (c : py_cfg) : cfg_get k' (pyr_cfg_set c k v) = if str_eqb k k' then Some v else cfg_get k' c.
Proof.
  induction c as [|[k0 v0] r IH]; cbn [pyr_cfg_set cfg_get].
  - rewrite (str_eqb_comm k' k). reflexivity.
  - rewrite pyr_str_eqb_model. destruct (str_eqb k k0) eqn:E0; cbn [cfg_get].
    + destruct (str_eqb k' k0) eqn:E1.
      * replace (str_eqb k k') with true; [reflexivity|]. symmetry. apply str_eqb_true in E0, E1. subst. apply str_eqb_rfl.
      * replace (str_eqb k k') with false; [reflexivity|]. symmetry.
        rewrite (str_eqb_trans_false k k0 k' E0), str_eqb_comm. exact E1.
    + destruct (str_eqb k' k0) eqn:E1; [|exact IH].
      replace (str_eqb k k') with false; [reflexivity|]. symmetry.
      rewrite (str_eqb_comm k k'), (str_eqb_trans_false k' k0 k E1), str_eqb_comm. exact E0.
Qed.
Lemma get_default_model (c : py_cfg) k d : pyr_cfg_get_default c k d = match cfg_get k c with Some v => v | None => d end.
Proof. unfold pyr_cfg_get_default, pyr_strdict_get_default. now rewrite assoc_cfg. Qed.

Lemma get_filter (P : list Z -> bool) k (c : config) :
  cfg_get k (filter (fun '(k', _) => P k') c) = if P k then cfg_get k c else None.
Proof.
  induction c as [|[k0 v] r IH]; cbn [filter cfg_get]; [now destruct (P k)|].
  destruct (P k0) eqn:E0; cbn [cfg_get]; destruct (str_eqb k k0) eqn:E.
  - apply str_eqb_true in E. subst. now rewrite E0.
  - exact IH.
  - apply str_eqb_true in E. subst. rewrite IH, E0. reflexivity.
  - exact IH.
Qed.

Lemma get_In k v (c : config) : cfg_get k c = Some v -> In (k, v) c.
Proof.
  induction c as [|[k0 v0] r IH]; cbn [cfg_get]; [discriminate|].
  destruct (str_eqb k k0) eqn:E; [|intros H; right; now apply IH].
  intros [= ->]. apply str_eqb_true in E. subst. now left.
Qed.
Lemma get_none_not_key k (c : config) : cfg_get k c = None -> mem_str k (map fst c) = false.
Proof.
  unfold mem_str. induction c as [|[k0 v0] r IH]; cbn [cfg_get map fst existsb]; [reflexivity|].
  destruct (str_eqb k k0); [discriminate|]. exact IH.
Qed.

(* ------------------------------------------------------------------ the stages of the translated function *)
(* for clr in (...): val = config.pop(clr, None); if val in ('transparent', 'trans'): .. elif val: .. *)
Definition src_color_step (config : py_cfg) (clr : list Z) : py_cfg :=
  let p := pyr_cfg_pop config clr r_None in
  if pyr_str_eqb (fst p) r_transparent || (pyr_str_eqb (fst p) r_trans || false) then pyr_cfg_set (snd p) clr r_None
  else if pyr_repr_truthy (fst p) then pyr_cfg_set (snd p) clr (fst p) else snd p.
Definition src_svg_step (config : py_cfg) (name : list Z) : py_cfg :=
  if pyr_repr_is_none (pyr_cfg_get_default config name r_None) then snd (pyr_cfg_pop config name r_None) else config.
Definition src_no_classes (config : py_cfg) : py_cfg :=
  let p := pyr_cfg_pop config k_no_classes r_False in
  if pyr_repr_truthy (fst p) then pyr_cfg_set (pyr_cfg_set (snd p) k_svgclass r_None) k_lineclass r_None else snd p.
Definition src_encoding (config : py_cfg) : py_cfg :=
  let p := pyr_cfg_pop config k_svgencoding r_utf8 in pyr_cfg_set (snd p) k_encoding (fst p).
Definition src_ext (filename : list Z) : list Z :=
  let ext := pyr_lower (py_slice_from filename (Z.add (pyr_rfind filename [46]) 1)) in
  if pyr_str_eqb ext svgz then svg else ext.
Definition src_filter (config : py_cfg) (supported : list (list Z)) : res py_cfg :=
  do items <- py_seq_res (map (fun k => do v <- pyr_cfg_index config k; Ok (k, v))
                              (filter (fun k => pyr_str_in k supported) (pyr_cfg_keys config)));
  Ok (pyr_cfg_of_items items).
Definition src_unit (config : py_cfg) : res py_cfg :=
  if pyr_repr_is_none (pyr_cfg_get_default config k_unit r_empty) then pyr_cfg_del config k_unit else Ok config.
Definition src_common (config : py_cfg) : py_cfg :=
  src_encoding (src_no_classes (fold_left src_svg_step [k_svgid; k_svgclass; k_lineclass] (fold_left src_color_step color_keys config))).

Lemma py_for_fold {X S} (xs : list X) (body : X -> S -> res (ctl void S)) (step : S -> X -> S) :
  (forall x s, body x s = Ok (CNext (step s x))) -> forall s, py_for xs body s = Ok (inr (fold_left step xs s)).
Proof.
  intros Hb. induction xs as [|x r IH]; intros s; cbn [py_for fold_left]; [reflexivity|]. rewrite Hb. apply IH.
Qed.

(* the generated text, restated stage by stage (this is where a textual change of build_config is caught first) *)
(* the loops over the 17 colour keys are never unfolded by the conversions below (each step mentions its state five times) *)
Local Strategy 1000 [fold_left src_color_step src_svg_step].
Lemma src_build_config_stages config filename :
  SrcRouteCli.src_build_config config filename
  = match filename with
    | None => Ok (src_common config)
    | Some f => do c5 <- src_filter (src_common config) (pyr_strdict_get_default SrcTables.EXT_TO_KW (src_ext f) []); src_unit c5
    end.
Proof.
  unfold SrcRouteCli.src_build_config.
  rewrite (py_for_fold _ _ src_color_step) by (intros x s; reflexivity). cbv beta iota zeta.
  rewrite (py_for_fold _ _ src_svg_step) by (intros x s; reflexivity). cbv beta iota zeta.
  match goal with |- context [fold_left src_svg_step ?l ?c0] => set (c2 := fold_left src_svg_step l c0) end.
  unfold src_common.
  change (fold_left src_svg_step [k_svgid; k_svgclass; k_lineclass] (fold_left src_color_step color_keys config)) with c2.
  clearbody c2.
  destruct filename as [f|]; [|reflexivity].
  unfold src_filter, src_unit, src_encoding, src_no_classes, src_ext, pyr_cfg_pop,
         k_no_classes, r_False, k_svgclass, k_lineclass, r_None, k_svgencoding, r_utf8, k_encoding, svgz, svg, k_unit, r_empty.
  cbn [bind fst snd]. cbv beta iota zeta.
  destruct (py_seq_res _) as [items|e]; cbn [bind]; [|reflexivity].
  destruct (pyr_repr_is_none _); [|reflexivity].
  destruct (pyr_cfg_del _ _); reflexivity.
Qed.

(* ------------------------------------------------------------------ truthiness *)
(* Python's truthiness of a value given by its repr (PySemRoute) is the model's [falsy]: the same eleven reprs *)
Lemma truthy_model v : pyr_repr_truthy v = negb (falsy v).
Proof. unfold pyr_repr_truthy, falsy. rewrite pyr_str_in_model. reflexivity. Qed.

(* the case that the model missed until its [falsy] was completed: build_config({'dark': 0.0}) is {'encoding': 'utf-8'} *)
Example float_zero_colour_agrees :
  SrcRouteCli.src_build_config [([100; 97; 114; 107], [48; 46; 48])] None = Ok [(k_encoding, r_utf8)]
  /\ build_config [([100; 97; 114; 107], [48; 46; 48])] None = [(k_encoding, r_utf8)].
Proof. vm_compute. split; reflexivity. Qed.

(* ------------------------------------------------------------------ stage by stage: same lookups as the model *)
Definition same (a : py_cfg) (b : config) : Prop := forall k, cfg_get k a = cfg_get k b.

Definition model_color_step (c : config) (k : str) : config :=
  match cfg_get k c with
  | None => c
  | Some v => let c' := cfg_remove k c in
              if str_eqb v r_transparent || str_eqb v r_trans then cfg_set k r_None c'
              else if falsy v then c' else cfg_set k v c'
  end.
Definition model_svg_step (c : config) (k : str) : config :=
  match cfg_get k c with Some v => if str_eqb v r_None then cfg_remove k c else c | None => c end.

Lemma color_step_same a b k : same a b -> same (src_color_step a k) (model_color_step b k).
Proof.
  intros Hs. unfold src_color_step, model_color_step, pyr_cfg_pop. cbn [fst snd].
  rewrite get_default_model, orb_false_r. change pyr_str_eqb with str_eqb. rewrite <- (Hs k).
  destruct (cfg_get k a) as [v|] eqn:Eg.
  - cbv zeta. destruct (str_eqb v r_transparent || str_eqb v r_trans).
    + intros k'. rewrite get_src_set, get_model_set, get_src_remove, get_model_remove, (Hs k'). reflexivity.
    + rewrite truthy_model. destruct (falsy v); cbn [negb]; intros k'.
      * rewrite get_src_remove, get_model_remove, (Hs k'). reflexivity.
      * rewrite get_src_set, get_model_set, get_src_remove, get_model_remove, (Hs k'). reflexivity.
  - replace (str_eqb r_None r_transparent || str_eqb r_None r_trans) with false by reflexivity.
    replace (pyr_repr_truthy r_None) with false by reflexivity.
    intros k'. rewrite get_src_remove, <- (Hs k').
    destruct (str_eqb k k') eqn:E; [|reflexivity]. apply str_eqb_true in E. subst. now rewrite Eg.
Qed.

Lemma svg_step_same a b k : same a b -> same (src_svg_step a k) (model_svg_step b k).
Proof.
  intros Hs. unfold src_svg_step, model_svg_step, pyr_cfg_pop, pyr_repr_is_none. cbn [snd].
  rewrite get_default_model. change pyr_str_eqb with str_eqb. rewrite <- (Hs k). change pyr_repr_None with r_None.
  destruct (cfg_get k a) as [v|] eqn:Eg.
  - destruct (str_eqb v r_None); [|exact Hs].
    intros k'. rewrite get_src_remove, get_model_remove, (Hs k'). reflexivity.
  - rewrite str_eqb_rfl. intros k'. rewrite get_src_remove, <- (Hs k').
    destruct (str_eqb k k') eqn:E; [|reflexivity]. apply str_eqb_true in E. subst. now rewrite Eg.
Qed.

Lemma fold_same (sstep : py_cfg -> list Z -> py_cfg) (mstep : config -> str -> config) :
  (forall a b k, same a b -> same (sstep a k) (mstep b k)) ->
  forall ks a b, same a b -> same (fold_left sstep ks a) (fold_left mstep ks b).
Proof.
  intros Hstep. induction ks as [|k r IH]; intros a b Hs; cbn [fold_left]; [exact Hs|]. apply IH. now apply Hstep.
Qed.

Definition model_c3 (c2 : config) : config :=
  match cfg_get k_no_classes c2 with
  | Some v => let c' := cfg_remove k_no_classes c2 in
              if falsy v then c' else cfg_set k_lineclass r_None (cfg_set k_svgclass r_None c')
  | None => c2 end.
Definition model_c4 (c3 : config) : config :=
  cfg_set k_encoding (match cfg_get k_svgencoding c3 with Some v => v | None => r_utf8 end) (cfg_remove k_svgencoding c3).

Lemma no_classes_same a b : same a b -> same (src_no_classes a) (model_c3 b).
Proof.
  intros Hs. unfold src_no_classes, model_c3, pyr_cfg_pop. cbn [fst snd].
  rewrite get_default_model. rewrite <- (Hs k_no_classes).
  destruct (cfg_get k_no_classes a) as [v|] eqn:Eg.
  - rewrite truthy_model. cbv zeta. destruct (falsy v); cbn [negb]; intros k'.
    + rewrite get_src_remove, get_model_remove, (Hs k'). reflexivity.
    + rewrite !get_src_set, !get_model_set, get_src_remove, get_model_remove, (Hs k'). reflexivity.
  - replace (pyr_repr_truthy r_False) with false by reflexivity. intros k'. rewrite get_src_remove, <- (Hs k').
    destruct (str_eqb k_no_classes k') eqn:E; [|reflexivity]. apply str_eqb_true in E. subst. now rewrite Eg.
Qed.

Lemma encoding_same a b : same a b -> same (src_encoding a) (model_c4 b).
Proof.
  intros Hs k'. unfold src_encoding, model_c4, pyr_cfg_pop. cbn [fst snd].
  rewrite get_src_set, get_model_set, get_src_remove, get_model_remove, get_default_model, (Hs k_svgencoding), (Hs k'). reflexivity.
Qed.

(* everything before `if filename is not None` *)
Definition model_common (c : config) : config :=
  model_c4 (model_c3 (fold_left model_svg_step [k_svgid; k_svgclass; k_lineclass] (fold_left model_color_step color_keys c))).

Lemma common_same c : same (src_common c) (model_common c).
Proof.
  unfold src_common, model_common. apply encoding_same, no_classes_same.
  apply (fold_same src_svg_step model_svg_step svg_step_same).
  apply (fold_same src_color_step model_color_step color_step_same). intros k. reflexivity.
Qed.

(* ------------------------------------------------------------------ {k: config[k] for k in config if k in supported_args} *)
Lemma seq_res_items (c : py_cfg) : forall ks, (forall k, In k ks -> mem_str k (map fst c) = true) ->
  py_seq_res (map (fun k => do v <- pyr_cfg_index c k; Ok (k, v)) ks)
  = Ok (map (fun k => (k, match cfg_get k c with Some v => v | None => [] end)) ks).
Proof.
  induction ks as [|k r IH]; intros Hin; cbn [map py_seq_res]; [reflexivity|].
  unfold pyr_cfg_index at 1. rewrite assoc_cfg.
  destruct (cfg_get k c) as [v|] eqn:Eg.
  - cbn [bind]. rewrite IH by (intros k' Hk'; apply Hin; now right). reflexivity.
  - apply get_none_not_key in Eg. exfalso. exact (eq_true_false_abs _ (Hin k (or_introl eq_refl)) Eg).
Qed.

Lemma mem_str_In k l : mem_str k l = true <-> In k l.
Proof.
  unfold mem_str. rewrite existsb_exists. split.
  - intros [x [Hx E]]. apply str_eqb_true in E. now subst.
  - intros H. exists k. split; [exact H|apply str_eqb_rfl].
Qed.

Lemma get_of_items (c : py_cfg) k : forall (items : list (list Z * list Z)) (acc : py_cfg),
  (forall k0 v0, In (k0, v0) items -> cfg_get k0 c = Some v0) ->
  cfg_get k (fold_left (fun d kv => pyr_cfg_set d (fst kv) (snd kv)) items acc)
  = if mem_str k (map fst items) then cfg_get k c else cfg_get k acc.
Proof.
  induction items as [|[k0 v0] r IH]; intros acc Hcons; cbn [fold_left map fst snd]; [reflexivity|].
  rewrite IH by (intros k1 v1 H1; apply Hcons; now right).
  unfold mem_str. cbn [existsb]. fold (mem_str k (map fst r)).
  destruct (mem_str k (map fst r)); [now rewrite orb_true_r|]. rewrite orb_false_r.
  rewrite get_src_set, (str_eqb_comm k0 k). destruct (str_eqb k k0) eqn:E; [|reflexivity].
  apply str_eqb_true in E. subst. symmetry. apply Hcons. now left.
Qed.

Lemma filter_same a b supported : same a b ->
  exists r, src_filter a supported = Ok r /\ same r (filter (fun '(k, _) => mem_str k supported) b).
Proof.
  intros Hs. unfold src_filter, pyr_cfg_keys.
  set (ks := filter (fun k => pyr_str_in k supported) (map fst a)).
  assert (Hks : forall k, In k ks -> mem_str k (map fst a) = true).
  { intros k Hk. apply filter_In in Hk. apply mem_str_In. tauto. }
  rewrite (seq_res_items a ks Hks). cbn [bind]. eexists. split; [reflexivity|].
  intros k. unfold pyr_cfg_of_items.
  rewrite (get_of_items a k).
  2:{ intros k0 v0 Hin. apply in_map_iff in Hin. destruct Hin as [k1 [E Hk1]]. injection E as <- <-.
      specialize (Hks _ Hk1). destruct (cfg_get k1 a) as [v|] eqn:Eg; [reflexivity|].
      apply get_none_not_key in Eg. exfalso. exact (eq_true_false_abs _ Hks Eg). }
  rewrite map_map. cbn [fst]. rewrite map_id. cbn [cfg_get].
  transitivity (if mem_str k supported then cfg_get k b else None); [|symmetry; apply (get_filter (fun k' => mem_str k' supported))].
  rewrite <- (Hs k).
  destruct (mem_str k ks) eqn:Em.
  - apply mem_str_In in Em. apply filter_In in Em. destruct Em as [_ Em]. rewrite pyr_str_in_model in Em. now rewrite Em.
  - destruct (mem_str k supported) eqn:Esup; [|reflexivity].
    destruct (cfg_get k a) as [v|] eqn:Eg; [|reflexivity]. exfalso.
    assert (Hin : In k ks).
    { apply filter_In. split; [|now rewrite pyr_str_in_model]. apply get_In in Eg. apply in_map_iff. now exists (k, v). }
    apply mem_str_In in Hin. congruence.
Qed.

Definition model_unit (c5 : config) : config :=
  match cfg_get k_unit c5 with Some v => if str_eqb v r_None then cfg_remove k_unit c5 else c5 | None => c5 end.

Lemma unit_same a b : same a b -> exists r, src_unit a = Ok r /\ same r (model_unit b).
Proof.
  intros Hs. unfold src_unit, model_unit, pyr_repr_is_none, pyr_cfg_del.
  rewrite get_default_model, pyr_str_eqb_model, assoc_cfg. rewrite <- (Hs k_unit). change pyr_repr_None with r_None.
  destruct (cfg_get k_unit a) as [v|] eqn:Eg.
  - destruct (str_eqb v r_None); eexists; (split; [reflexivity|]); [|exact Hs].
    intros k'. rewrite get_src_remove, get_model_remove, (Hs k'). reflexivity.
  - replace (str_eqb r_empty r_None) with false by reflexivity. eexists. split; [reflexivity|exact Hs].
Qed.

Lemma src_ext_model f : src_ext f = (let ext := ext_of f in if str_eqb ext svgz then svg else ext).
Proof. unfold src_ext. cbv zeta. now rewrite ext_of_src, pyr_str_eqb_model. Qed.

(* ------------------------------------------------------------------ cli.build_config *)
Lemma build_config_unfold c filename :
  build_config c filename
  = match filename with
    | None => model_common c
    | Some f => let ext := ext_of f in
                let ext := if str_eqb ext svgz then svg else ext in
                let supported := match assoc_str ext EXT_TO_KW with Some l => l | None => [] end in
                model_unit (filter (fun '(k, _) => mem_str k supported) (model_common c))
    end.
Proof. destruct filename; reflexivity. Qed.

Theorem src_build_config_is_model (config : py_cfg) (filename : option (list Z)) :
  exists r, SrcRouteCli.src_build_config config filename = Ok r
            /\ forall k, cfg_get k r = cfg_get k (build_config config filename).
Proof.
  rewrite src_build_config_stages, build_config_unfold.
  pose proof (common_same config) as Hc.
  destruct filename as [f|]; [|eexists; split; [reflexivity|exact Hc]].
  cbv zeta. rewrite src_ext_model. cbv zeta.
  unfold pyr_strdict_get_default. rewrite assoc_model, TieTables.tie_EXT_TO_KW.
  set (supported := match assoc_str _ EXT_TO_KW with Some l => l | None => [] end).
  destruct (filter_same _ _ supported Hc) as [r5 [E5 H5]]. rewrite E5. cbn [bind].
  destruct (unit_same _ _ H5) as [r6 [E6 H6]]. exists r6. split; [exact E6|exact H6].
Qed.

(* build_config never raises (the `del config['unit']` is guarded by its own test) *)
Corollary src_build_config_total config filename : exists r, SrcRouteCli.src_build_config config filename = Ok r.
Proof. destruct (src_build_config_is_model config filename) as [r [E _]]. now exists r. Qed.

(* ------------------------------------------------------------------ the result is a dict: distinct keys *)
Definition keys_distinct (c : py_cfg) : Prop := NoDup (map fst c).

Lemma set_keys_in c k v x : In x (map fst (pyr_cfg_set c k v)) -> x = k \/ In x (map fst c).
Proof.
  induction c as [|[k0 v0] r IH]; cbn [pyr_cfg_set map fst In]; [intros [<-|[]]; now left|].
  destruct (pyr_str_eqb k k0); cbn [map fst In]; intros [H|H]; auto. destruct (IH H); auto.
Qed.
Lemma set_distinct c k v : keys_distinct c -> keys_distinct (pyr_cfg_set c k v).
Proof.
  unfold keys_distinct. induction c as [|[k0 v0] r IH]; cbn [pyr_cfg_set map fst]; intros Hnd.
  - constructor; [intros []|constructor].
  - inversion Hnd as [|x l Hx Hl]; subst. destruct (pyr_str_eqb k k0) eqn:E; cbn [map fst]; [now constructor|].
    constructor; [|now apply IH]. intros Hin. apply set_keys_in in Hin. destruct Hin as [->|Hin]; [|contradiction].
    now rewrite pyr_str_eqb_refl in E.
Qed.
Lemma remove_distinct c k : keys_distinct c -> keys_distinct (pyr_cfg_remove c k).
Proof.
  unfold keys_distinct, pyr_cfg_remove. induction c as [|[k0 v0] r IH]; cbn [filter map fst]; intros Hnd; [constructor|].
  inversion Hnd as [|x l Hx Hl]; subst. destruct (negb (pyr_str_eqb k k0)); cbn [map fst]; [|now apply IH].
  constructor; [|now apply IH]. intros Hin. apply Hx. apply in_map_iff in Hin. destruct Hin as [kv [E Hin]].
  apply filter_In in Hin. apply in_map_iff. exists kv. tauto.
Qed.
Lemma fold_distinct (step : py_cfg -> list Z -> py_cfg) :
  (forall c k, keys_distinct c -> keys_distinct (step c k)) -> forall ks c, keys_distinct c -> keys_distinct (fold_left step ks c).
Proof. intros Hs. induction ks as [|k r IH]; intros c Hc; cbn [fold_left]; [exact Hc|]. apply IH. now apply Hs. Qed.

Lemma common_distinct c : keys_distinct c -> keys_distinct (src_common c).
Proof.
  intros Hc. unfold src_common, src_encoding, src_no_classes, pyr_cfg_pop. cbn [fst snd].
  apply set_distinct, remove_distinct.
  assert (H2 : keys_distinct (fold_left src_svg_step [k_svgid; k_svgclass; k_lineclass] (fold_left src_color_step color_keys c))).
  { apply fold_distinct.
    - intros c0 k H0. unfold src_svg_step, pyr_cfg_pop. cbn [snd]. destruct (pyr_repr_is_none _); [now apply remove_distinct|exact H0].
    - apply fold_distinct; [|exact Hc]. intros c0 k H0. unfold src_color_step, pyr_cfg_pop. cbn [fst snd].
      destruct (_ || _); [now apply set_distinct, remove_distinct|].
      destruct (pyr_repr_truthy _); [now apply set_distinct, remove_distinct|now apply remove_distinct]. }
  destruct (pyr_repr_truthy _); [now apply set_distinct, set_distinct, remove_distinct|now apply remove_distinct].
Qed.

Theorem src_build_config_distinct config filename r :
  keys_distinct config -> SrcRouteCli.src_build_config config filename = Ok r -> keys_distinct r.
Proof.
  intros Hc. rewrite src_build_config_stages. pose proof (common_distinct config Hc) as H4.
  destruct filename as [f|]; [|intros [= <-]; exact H4].
  unfold src_filter. destruct (py_seq_res _) as [items|e]; cbn [bind]; [|discriminate].
  assert (H5 : keys_distinct (pyr_cfg_of_items items)).
  { unfold pyr_cfg_of_items.
    assert (Hgen : forall acc : py_cfg, keys_distinct acc ->
                     keys_distinct (fold_left (fun d kv => pyr_cfg_set d (fst kv) (snd kv)) items acc)).
    { induction items as [|kv items IH]; intros acc Hacc; cbn [fold_left]; [exact Hacc|]. apply IH. now apply set_distinct. }
    apply Hgen. constructor. }
  unfold src_unit, pyr_cfg_del. destruct (pyr_repr_is_none _); [|intros [= <-]; exact H5].
  destruct (pyr_assoc _ _); [|discriminate]. intros [= <-]. now apply remove_distinct.
Qed.

Print Assumptions src_build_config_is_model.
Print Assumptions src_build_config_distinct.
