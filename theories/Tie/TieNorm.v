(* Bridge theorems: normalize_version, normalize_mode, normalize_errorlevel, normalize_mask (and get_version_name, as far as
   it can raise) of segno/encoder.py, translated statement by statement from the CURRENT source once per input shape
   (SegnoSrc.SrcNorm, written by gen/translate_glue.py: None-or-int / str as the list of its code points / bool), equal the
   hand-written model Model/Args.v on the corresponding [pyval].  Re-checked by coqc on every run.  See DESIGN.md 11.11.

   No guard: the str theorems hold for EVERY list of code points.  int(str) is CPython 3.12's two-path function on both
   sides (Base/PySemGlue.v py_int_ustr, Model/Args.v int_of_str: pure-ASCII text straight to PyLong_FromString, whose
   whitespace is Py_ISSPACE only; any other text first through _PyUnicode_TransformDecimalAndSpaceToASCII; 4300-digit
   limit).  History: the model used to strip all str.isspace characters, \x1c .. \x1f included, and read int('\x1c5') as
   5 where CPython raises ValueError; the theorems then carried a guard `no_sep` and a counterexample
   `int_model_deviates`.  The model was corrected (DESIGN.md 11.11.1); [int_agreement_examples] replays the strings.
   upper() / lower() are Base/PyCase.v py_upper / py_lower on both sides (PySemGlue.py_ustr_upper / py_ustr_lower are
   these functions): Python's as far as ASCII characters go, so `mode='\u212aanji'` is kanji on both sides, as in CPython
   (DESIGN.md 11.14.1; [case_agreement_examples]). *)
From Coq Require Import String.
From Coq Require Import ZArith List Bool Lia ZifyBool.
From Segno Require Import Base.PyLite Base.PyCase Base.PySem Base.PySemSeg Base.PySemGlue Ref.IsoData Model.Bits Model.Segment Model.Version
  Model.Encode Model.Color Model.Args.
From Segno Require Tie.TieTables.
From Segno Require Import Tie.TieBase.
From SegnoSrc Require SrcTables.
From SegnoSrc Require Import SrcNorm.
Import ListNotations.
Open Scope Z_scope.

(* ------------------------------------------------------------------ 0. str: int(), upper(), lower(), dict lookup *)
Lemma ws_agree c : is_ws c = py_is_ascii_space c.
Proof.
  unfold is_ws, py_is_ascii_space, memZ. cbn [existsb].
  apply eq_true_iff_eq. rewrite !orb_true_iff, andb_true_iff, !Z.eqb_eq, !Z.leb_le. lia.
Qed.

Lemma lstrip_is_drop s : lstrip s = py_drop_space s.
Proof.
  induction s as [|c r IH]; [reflexivity|]. cbn [lstrip py_drop_space]. rewrite (ws_agree c).
  destruct (py_is_ascii_space c); [exact IH|reflexivity].
Qed.

(* trailing whitespace removed, without rev *)
Fixpoint rstrip (l : list Z) : list Z :=
  match l with
  | [] => []
  | c :: r => match rstrip r with [] => if py_is_ascii_space c then [] else [c] | r' => c :: r' end
  end.

Lemma drop_space_app_nonspace a c : py_is_ascii_space c = false ->
  forall b, py_drop_space (a ++ c :: b) = py_drop_space a ++ c :: b.
Proof.
  intros Hc b. induction a as [|x r IH]; cbn [app py_drop_space]; [now rewrite Hc|].
  destruct (py_is_ascii_space x); [exact IH|reflexivity].
Qed.

Lemma drop_space_all a : forallb py_is_ascii_space a = true -> py_drop_space a = [].
Proof.
  induction a as [|x r IH]; [reflexivity|]. cbn [forallb py_drop_space]. intros H. apply andb_true_iff in H.
  destruct H as [Hx Hr]. rewrite Hx. now apply IH.
Qed.

Lemma rstrip_nil_iff l : rstrip l = [] <-> forallb py_is_ascii_space l = true.
Proof.
  induction l as [|c r IH]; [split; reflexivity|]. cbn [rstrip forallb].
  destruct (rstrip r) as [|y r'] eqn:E.
  - destruct (py_is_ascii_space c); cbn [andb]; [|split; discriminate].
    split; intros _; [now apply IH|reflexivity].
  - split; [discriminate|]. intros H. apply andb_true_iff in H. destruct H as [_ H]. apply IH in H. discriminate.
Qed.

Lemma rstrip_cons c r : rstrip (c :: r) = if forallb py_is_ascii_space (c :: r) then [] else c :: rstrip r.
Proof.
  cbn [rstrip forallb]. destruct (rstrip r) as [|y r'] eqn:E.
  - assert (H : forallb py_is_ascii_space r = true) by now apply rstrip_nil_iff. rewrite H.
    destruct (py_is_ascii_space c); reflexivity.
  - assert (H : forallb py_is_ascii_space r = false).
    { destruct (forallb py_is_ascii_space r) eqn:F; [|reflexivity]. apply rstrip_nil_iff in F. congruence. }
    rewrite H, andb_false_r. reflexivity.
Qed.

Lemma drop_space_snoc : forall u c,
  py_drop_space (u ++ [c]) = if forallb py_is_ascii_space u && py_is_ascii_space c then [] else py_drop_space u ++ [c].
Proof.
  induction u as [|x u IH]; intros c; cbn [app py_drop_space forallb].
  - destruct (py_is_ascii_space c); reflexivity.
  - destruct (py_is_ascii_space x); cbn [andb]; [apply IH|reflexivity].
Qed.

Lemma forallb_rev {A} (f : A -> bool) l : forallb f (rev l) = forallb f l.
Proof.
  induction l as [|x r IH]; [reflexivity|]. cbn [rev forallb]. rewrite forallb_app, IH. cbn [forallb].
  rewrite andb_true_r. apply andb_comm.
Qed.

Lemma rev_drop_rev_is_rstrip l : rev (py_drop_space (rev l)) = rstrip l.
Proof.
  induction l as [|c r IH]; [reflexivity|]. rewrite rstrip_cons. cbn [rev forallb].
  rewrite drop_space_snoc, forallb_rev, (andb_comm (py_is_ascii_space c)).
  destruct (forallb py_is_ascii_space r && py_is_ascii_space c); [reflexivity|].
  rewrite rev_app_distr. cbn [rev app]. now rewrite IH.
Qed.

Lemma strip_is_rstrip s : strip s = rstrip (py_drop_space s).
Proof. unfold strip. rewrite !lstrip_is_drop. apply rev_drop_rev_is_rstrip. Qed.

Lemma digits_val_false_head x acc :
  match x with d :: _ => if is_dig d then digits_val x acc false else None | [] => None end = digits_val x acc false.
Proof.
  destruct x as [|d r]; [reflexivity|]. cbn [digits_val]. destruct (is_dig d); [reflexivity|].
  now rewrite andb_false_r.
Qed.

Lemma space_not_digit c : py_is_ascii_space c = true -> is_dig c = false /\ (c =? 95) = false.
Proof. unfold py_is_ascii_space, is_dig. intros H. split; lia. Qed.

Lemma body_is_digits_val : forall l acc p, py_int_body l acc p = digits_val (rstrip l) acc p.
Proof.
  induction l as [|c r IH]; intros acc p; [reflexivity|]. rewrite rstrip_cons. cbn [py_int_body forallb].
  change (py_is_ascii_digit c) with (is_dig c).
  destruct (is_dig c) eqn:Ed.
  - assert (Hs : py_is_ascii_space c = false).
    { destruct (py_is_ascii_space c) eqn:E; [|reflexivity]. apply space_not_digit in E. destruct E; congruence. }
    rewrite Hs. cbn [andb digits_val]. rewrite Ed. apply IH.
  - destruct (c =? 95) eqn:E95.
    + assert (Hs : py_is_ascii_space c = false).
      { destruct (py_is_ascii_space c) eqn:E; [|reflexivity]. apply space_not_digit in E. destruct E; congruence. }
      rewrite Hs. cbn [andb digits_val]. rewrite Ed, E95. cbn [andb].
      destruct p; [|reflexivity]. rewrite digits_val_false_head. apply IH.
    + destruct (py_is_ascii_space c) eqn:Es; cbn [andb].
      * destruct (forallb py_is_ascii_space r) eqn:Er.
        -- rewrite andb_true_r. cbn [digits_val]. reflexivity.
        -- rewrite andb_false_r. cbn [digits_val]. rewrite Ed, E95. reflexivity.
      * cbn [digits_val]. rewrite Ed, E95. reflexivity.
Qed.

Lemma drop_space_head s : match py_drop_space s with [] => True | c :: _ => py_is_ascii_space c = false end.
Proof.
  induction s as [|c r IH]; [exact I|]. cbn [py_drop_space]. destruct (py_is_ascii_space c) eqn:E; [exact IH|exact E].
Qed.

Lemma drop_space_idem s : py_drop_space (py_drop_space s) = py_drop_space s.
Proof.
  induction s as [|c r IH]; [reflexivity|]. cbn [py_drop_space]. destruct (py_is_ascii_space c) eqn:E; [exact IH|].
  cbn [py_drop_space]. now rewrite E.
Qed.

Lemma int_bytes_dropped s : py_int_bytes s = py_int_bytes (py_drop_space s).
Proof. unfold py_int_bytes. now rewrite drop_space_idem. Qed.

Lemma int_bytes_cons c r : py_is_ascii_space c = false ->
  py_int_bytes (c :: r)
  = match (if c =? 43 then py_int_body r 0 false
           else if c =? 45 then option_map Z.opp (py_int_body r 0 false)
           else py_int_body (c :: r) 0 false) with Some v => Ok v | None => Err ValueError end.
Proof.
  intros Hc. unfold py_int_bytes. cbn [py_drop_space]. rewrite Hc.
  destruct c as [|q|q]; try reflexivity.
  do 6 (destruct q as [q|q|]; try reflexivity).
  cbn [Z.eqb Pos.eqb]. destruct (py_int_body r 0 false); reflexivity.
Qed.

(* PyLong_FromString on an ASCII text *)
Lemma int_bytes_is_ascii_model t :
  py_int_bytes t = match int_of_ascii t with Some z => Ok z | None => Err ValueError end.
Proof.
  unfold int_of_ascii. rewrite (strip_is_rstrip t), int_bytes_dropped.
  pose proof (drop_space_head t) as Hh. destruct (py_drop_space t) as [|c r]; [reflexivity|].
  rewrite (int_bytes_cons c r Hh).
  rewrite rstrip_cons. cbn [forallb]. rewrite Hh. cbn [andb].
  destruct (c =? 43) eqn:E43.
  - assert (E45 : (c =? 45) = false) by lia. rewrite E45. rewrite body_is_digits_val. reflexivity.
  - destruct (c =? 45) eqn:E45.
    + rewrite body_is_digits_val. destruct (digits_val (rstrip r) 0 false); reflexivity.
    + rewrite body_is_digits_val, rstrip_cons. cbn [forallb]. rewrite Hh. cbn [andb]. reflexivity.
Qed.

(* the rewriting of a non-ASCII str: the two hand-written copies of the Unicode tables are the same lists *)
Lemma tables_agree : py_unicode_spaces = UNI_SPACES /\ py_decimal_zeros = DECIMAL_ZEROS.
Proof. split; reflexivity. Qed.
Lemma to_decimal_is_model c zs : py_to_decimal c zs = decimal_of c zs.
Proof. induction zs as [|z r IH]; [reflexivity|]. cbn [py_to_decimal decimal_of]. now rewrite IH. Qed.
Lemma transform_cp_is_model c : py_transform_cp c = to_ascii_cp c.
Proof.
  unfold py_transform_cp, to_ascii_cp, memZ. destruct tables_agree as [-> ->]. now rewrite to_decimal_is_model.
Qed.
Lemma int_text_is_model s : (if py_ustr_is_ascii s then s else map py_transform_cp s) = int_text s.
Proof.
  unfold int_text. change (py_ustr_is_ascii s) with (is_ascii s). destruct (is_ascii s); [reflexivity|].
  apply map_ext. exact transform_cp_is_model.
Qed.

(* int(s) for a str: every str *)
Theorem int_ustr_is_model : forall s,
  py_int_ustr s = match int_of_str s with Some z => Ok z | None => Err ValueError end.
Proof.
  intros s. unfold py_int_ustr, int_of_str. cbv zeta. rewrite int_text_is_model.
  change py_int_max_str_digits with MAX_STR_DIGITS. change py_is_ascii_digit with is_dig.
  destruct (MAX_STR_DIGITS <? lenZ (filter is_dig (int_text s))); [reflexivity|]. apply int_bytes_is_ascii_model.
Qed.

(* the strings that separate CPython's int(str) from "strip str.isspace characters, then parse" -- each line is the
   behaviour observed with CPython 3.12.1 (ValueError = None); the translated normalize_version agrees with the model *)
Lemma int_agreement_examples :
  let both s r := py_int_ustr s = (match r with Some z => Ok z | None => Err ValueError end) /\ int_of_str s = r in
     both [28; 53] None                   (* '\x1c5': \x1c .. \x1f are str.isspace() but not Py_ISSPACE *)
  /\ both [53; 31] None                   (* '5\x1f' *)
  /\ both [28; 53; 32] None               (* '\x1c5 ' *)
  /\ both [28; 53; 8195] None             (* '\x1c5\u2003': below 127 the rewriting keeps the code point *)
  /\ both [8195; 53; 160] (Some 5)        (* '\u20035\xa0' *)
  /\ both [133; 53; 12288] (Some 5)       (* '\x855\u3000' *)
  /\ both [65301] (Some 5)                (* full-width 5 *)
  /\ both [1637] (Some 5)                 (* Arabic-Indic 5 *)
  /\ both [1633; 1778] (Some 12)          (* Arabic-Indic 1, Extended Arabic-Indic 2 *)
  /\ both [65297; 95; 65296] (Some 10)    (* full-width '1_0' *)
  /\ both [65291; 53] None                (* full-width plus sign *)
  /\ both [8722; 53] None                 (* U+2212 minus sign *)
  /\ both [53; 233] None                  (* '5' e-acute *)
  /\ both [127; 65301] None               (* DEL *)
  /\ both [49; 95; 48] (Some 10)          (* '1_0' *)
  /\ both [95; 49] None                   (* '_1' *)
  /\ both [49; 95; 95; 48] None           (* '1__0' *)
  /\ both [49; 95] None                   (* '1_' *)
  /\ both [43; 53] (Some 5) /\ both [45; 53] (Some (-5)) /\ both [43; 32; 53] None     (* '+5', '-5', '+ 5' *)
  /\ both [] None /\ both [32] None /\ both [9; 10] None /\ both [8195] None           (* '', ' ', '\t\n', '\u2003' *)
  /\ both [9; 55; 10] (Some 7)            (* '\t7\n' *)
  /\ both [48; 48; 55] (Some 7)           (* '007' *)
  /\ both [53; 0] None                    (* '5\0' *)
  /\ both (repeat 48 4299 ++ [53]) (Some 5)                                            (* 4300 digits *)
  /\ both (repeat 48 4300 ++ [53]) None                                                (* 4301 digits *)
  /\ src_normalize_version_str [28; 53] = Err ValueError /\ Args.normalize_version (VStr [28; 53]) = Err ValueError
  /\ src_normalize_version_str [65301] = Ok (Some 5) /\ Args.normalize_version (VStr [65301]) = Ok (Some 5).
Proof. cbv zeta. repeat apply conj; vm_compute; reflexivity. Qed.

Lemma ustr_of_string_is_model k : py_ustr_of_string k = str_of_string k.
Proof. induction k as [|a r IH]; [reflexivity|]. cbn. now rewrite IH. Qed.

Lemma list_eqb_is_str_eqb : forall a b, py_list_eqb a b = str_eqb a b.
Proof. reflexivity. Qed.    (* the two fixpoints have the same body *)

Lemma get_ustr_is_assoc k d : py_get_ustr k d = match assoc_sz k d with Some v => Ok v | None => Err KeyErr end.
Proof.
  induction d as [|[k' v] r IH]; [reflexivity|]. cbn [py_get_ustr assoc_sz].
  rewrite list_eqb_is_str_eqb, ustr_of_string_is_model. destruct (str_eqb k (str_of_string k')); [reflexivity|exact IH].
Qed.

Definition pyval_of_oz (v : option Z) : pyval := match v with None => VNone | Some z => VInt z end.

(* ------------------------------------------------------------------ 1. normalize_version *)
Lemma version_check z :
  (if (z <? 1) || negb ((0 <? z) && (z <? 41)) && negb ((z =? -3) || ((z =? -2) || ((z =? -1) || ((z =? 0) || false))))
   then @Err unit ValueError else Ok tt)
  = match (if z <? 1 then None else Some z) with
    | None => Err ValueError
    | Some v => if (0 <? v) && (v <? 41) || memZ v MICRO_VERSIONS then Ok tt else Err ValueError
    end.
Proof.
  unfold memZ, MICRO_VERSIONS. cbn [existsb].
  destruct (z <? 1) eqn:E1; [reflexivity|]. cbn [orb].
  destruct (0 <? z) eqn:E2; [|lia].
  destruct (z <? 41) eqn:E3; cbn [andb negb orb]; [reflexivity|].
  match goal with |- context [negb ?m] => destruct m end; reflexivity.
Qed.

Theorem src_normalize_version_int_is_model : forall v : option Z,
  src_normalize_version_int v = Args.normalize_version (pyval_of_oz v).
Proof.
  intros [z|]; [|reflexivity]. unfold src_normalize_version_int, Args.normalize_version. cbn [pyval_of_oz py_int_val]. cbv zeta.
  rewrite version_check. destruct (z <? 1); [reflexivity|].
  destruct ((0 <? z) && (z <? 41) || memZ z MICRO_VERSIONS); reflexivity.
Qed.

Theorem src_normalize_version_bool_is_model : forall b : bool,
  src_normalize_version_bool b = Args.normalize_version (VBool b).
Proof. intros [|]; reflexivity. Qed.

Lemma micro_value_check v :
  In v (map snd MICRO_VERSION_MAPPING) ->
  (if false || negb ((0 <? v) && (v <? 41)) && negb ((v =? -3) || ((v =? -2) || ((v =? -1) || ((v =? 0) || false))))
   then @Err unit ValueError else Ok tt)
  = (if (0 <? v) && (v <? 41) || memZ v MICRO_VERSIONS then Ok tt else Err ValueError).
Proof.
  unfold memZ, MICRO_VERSIONS. cbn [existsb orb].
  destruct (0 <? v) eqn:E2, (v <? 41) eqn:E3; cbn [andb negb orb]; try reflexivity.
  all: destruct ((v =? -3) || ((v =? -2) || ((v =? -1) || ((v =? 0) || false)))); reflexivity.
Qed.

Lemma assoc_sz_In k d v : assoc_sz k d = Some v -> In v (map snd d).
Proof.
  induction d as [|[k' w] r IH]; cbn [assoc_sz map snd]; [discriminate|].
  destruct (str_eqb k (str_of_string k')); [intros [= ->]; now left|intros H; right; now apply IH].
Qed.

Theorem src_normalize_version_str_is_model : forall s : list Z,
  src_normalize_version_str s = Args.normalize_version (VStr s).
Proof.
  intros s. unfold src_normalize_version_str, Args.normalize_version. cbn [py_int_val]. cbv zeta.
  rewrite (int_ustr_is_model s). rewrite TieTables.tie_MICRO_VERSION_MAPPING.
  destruct (int_of_str s) as [z|]; cbn [bind].
  - rewrite version_check. destruct (z <? 1); [reflexivity|].
    destruct ((0 <? z) && (z <? 41) || memZ z MICRO_VERSIONS); reflexivity.
  - rewrite get_ustr_is_assoc. change (py_ustr_upper s) with (py_upper s).
    destruct (assoc_sz (py_upper s) MICRO_VERSION_MAPPING) as [v|] eqn:Ea; cbn [bind]; [|reflexivity].
    rewrite (micro_value_check v (assoc_sz_In _ _ _ Ea)).
    destruct ((0 <? v) && (v <? 41) || memZ v MICRO_VERSIONS); reflexivity.
Qed.

(* ------------------------------------------------------------------ 2. normalize_mode *)
Theorem src_normalize_mode_int_is_model : forall m : option Z,
  src_normalize_mode_int m = Args.normalize_mode (pyval_of_oz m).
Proof.
  intros [z|]; [|reflexivity]. unfold src_normalize_mode_int, Args.normalize_mode, mode_values. cbn [pyval_of_oz].
  rewrite TieTables.tie_MODE_MAPPING. cbn [orb]. destruct (memZ z (map snd MODE_MAPPING)); reflexivity.
Qed.

Theorem src_normalize_mode_bool_is_model : forall b : bool,
  src_normalize_mode_bool b = Args.normalize_mode (VBool b).
Proof.
  intros b. unfold src_normalize_mode_bool, Args.normalize_mode, mode_values.
  rewrite TieTables.tie_MODE_MAPPING. cbn [orb]. destruct (memZ (if b then 1 else 0) (map snd MODE_MAPPING)); reflexivity.
Qed.

Theorem src_normalize_mode_str_is_model : forall s : list Z,
  src_normalize_mode_str s = Args.normalize_mode (VStr s).
Proof.
  intros s. unfold src_normalize_mode_str, Args.normalize_mode. rewrite TieTables.tie_MODE_MAPPING. cbn [orb].
  rewrite get_ustr_is_assoc. change (py_ustr_lower s) with (py_lower s).
  destruct (assoc_sz (py_lower s) MODE_MAPPING); reflexivity.
Qed.

(* ------------------------------------------------------------------ 3. normalize_errorlevel *)
Theorem src_normalize_errorlevel_int_is_model : forall (e : option Z) (accept_none : bool),
  src_normalize_errorlevel_int e accept_none = Args.normalize_errorlevel (pyval_of_oz e) accept_none.
Proof.
  intros [z|] accept_none; unfold src_normalize_errorlevel_int, Args.normalize_errorlevel, error_values; cbn [pyval_of_oz].
  - rewrite TieTables.tie_ERROR_MAPPING. cbn [bind]. destruct (memZ z (map snd ERROR_MAPPING)); reflexivity.
  - destruct accept_none; reflexivity.
Qed.

Theorem src_normalize_errorlevel_bool_is_model : forall (b accept_none : bool),
  src_normalize_errorlevel_bool b accept_none = Args.normalize_errorlevel (VBool b) accept_none.
Proof.
  intros b accept_none. unfold src_normalize_errorlevel_bool, Args.normalize_errorlevel, error_values.
  rewrite TieTables.tie_ERROR_MAPPING. cbn [bind]. destruct (memZ (if b then 1 else 0) (map snd ERROR_MAPPING)); reflexivity.
Qed.

Theorem src_normalize_errorlevel_str_is_model : forall (s : list Z) (accept_none : bool),
  src_normalize_errorlevel_str s accept_none = Args.normalize_errorlevel (VStr s) accept_none.
Proof.
  intros s accept_none. unfold src_normalize_errorlevel_str, Args.normalize_errorlevel. rewrite TieTables.tie_ERROR_MAPPING.
  rewrite get_ustr_is_assoc. change (py_ustr_upper s) with (py_upper s).
  destruct (assoc_sz (py_upper s) ERROR_MAPPING); reflexivity.
Qed.

(* ------------------------------------------------------------------ 4. normalize_mask *)
Lemma mask_check (k : Z) (is_micro : bool) :
  bind (if is_micro
        then bind (if negb ((0 <=? k) && (k <? 4)) then Err ValueError else Ok tt) (fun _ : unit => Ok tt)
        else bind (if negb ((0 <=? k) && (k <? 8)) then Err ValueError else Ok tt) (fun _ : unit => Ok tt))
       (fun _ : unit => Ok (Some k))
  = (if (0 <=? k) && (k <? (if is_micro then 4 else 8)) then Ok (Some k) else Err ValueError).
Proof. destruct is_micro; [destruct ((0 <=? k) && (k <? 4))|destruct ((0 <=? k) && (k <? 8))]; reflexivity. Qed.

Theorem src_normalize_mask_int_is_model : forall (m : option Z) (is_micro : bool),
  src_normalize_mask_int m is_micro = Args.normalize_mask (pyval_of_oz m) is_micro.
Proof.
  intros [k|] is_micro; [|reflexivity]. unfold src_normalize_mask_int, Args.normalize_mask. cbn [pyval_of_oz py_int_val bind].
  cbv zeta. apply mask_check.
Qed.

(* the form Model/Encode.v uses after the other arguments are normalised *)
Corollary src_normalize_mask_int_is_encode_model : forall (m : option Z) (is_micro : bool),
  src_normalize_mask_int m is_micro = Encode.normalize_mask_int m is_micro.
Proof.
  intros [k|] is_micro; [|reflexivity]. unfold src_normalize_mask_int, Encode.normalize_mask_int. cbv zeta. apply mask_check.
Qed.

Theorem src_normalize_mask_bool_is_model : forall (b is_micro : bool),
  src_normalize_mask_bool b is_micro = Args.normalize_mask (VBool b) is_micro.
Proof. intros [|] [|]; reflexivity. Qed.

Theorem src_normalize_mask_str_is_model : forall (s : list Z) (is_micro : bool),
  src_normalize_mask_str s is_micro = Args.normalize_mask (VStr s) is_micro.
Proof.
  intros s is_micro. unfold src_normalize_mask_str, Args.normalize_mask. cbn [py_int_val]. cbv zeta.
  rewrite (int_ustr_is_model s). destruct (int_of_str s) as [k|]; cbn [bind]; [|reflexivity]. apply mask_check.
Qed.

(* ------------------------------------------------------------------ 5. get_version_name, as far as it can raise *)
(* (its value -- an int or a str -- only appears inside exception messages, which are not modelled) *)
Theorem src_get_version_name_effect_spec : forall v : option Z,
  src_get_version_name_effect v
  = match v with
    | None => Err TypeErr
    | Some z => if (0 <? z) && (z <? 41) || memZ z MICRO_VERSIONS then Ok tt else Err ValueError
    end.
Proof.
  intros [z|]; [|reflexivity]. unfold src_get_version_name_effect. cbn [bind].
  destruct ((0 <? z) && (z <? 41)) eqn:E; cbn [orb]; [reflexivity|].
  rewrite TieTables.tie_MICRO_VERSION_MAPPING. unfold memZ, MICRO_VERSIONS, MICRO_VERSION_MAPPING. cbn [py_for existsb].
  rewrite (Z.eqb_sym z (-3)), (Z.eqb_sym z (-2)), (Z.eqb_sym z (-1)), (Z.eqb_sym z 0).
  destruct (-3 =? z); [reflexivity|]. destruct (-2 =? z); [reflexivity|]. destruct (-1 =? z); [reflexivity|].
  destruct (0 =? z); reflexivity.
Qed.

(* str.lower() / str.upper() beyond ASCII (DESIGN.md 11.14.1): translated code and model agree, and the value is the one
   observed on CPython 3.12 -- 'Kanji' spelled with the Kelvin sign U+212A is kanji; dotless i, e-acute, long s, the fl
   ligature and H-with-line-below are in no accepted name. *)
Lemma case_agreement_examples :
     src_normalize_mode_str [8490; 97; 110; 106; 105] = Ok (Some 8) /\ Args.normalize_mode (VStr [8490; 97; 110; 106; 105]) = Ok (Some 8)
  /\ src_normalize_mode_str [107; 97; 110; 106; 305] = Err ValueError /\ Args.normalize_mode (VStr [107; 97; 110; 106; 305]) = Err ValueError
  /\ src_normalize_mode_str [107; 97; 110; 106; 304] = Err ValueError /\ Args.normalize_mode (VStr [107; 97; 110; 106; 304]) = Err ValueError
  /\ src_normalize_mode_str [98; 121; 116; 233] = Err ValueError /\ Args.normalize_mode (VStr [98; 121; 116; 233]) = Err ValueError
  /\ src_normalize_errorlevel_str [383] true = Err ValueError /\ Args.normalize_errorlevel (VStr [383]) true = Err ValueError
  /\ src_normalize_errorlevel_str [7830] true = Err ValueError /\ Args.normalize_errorlevel (VStr [7830]) true = Err ValueError
  /\ src_normalize_errorlevel_str [64258] true = Err ValueError /\ Args.normalize_errorlevel (VStr [64258]) true = Err ValueError
  /\ src_normalize_version_str [109; 305] = Err ValueError /\ Args.normalize_version (VStr [109; 305]) = Err ValueError.
Proof. repeat apply conj; vm_compute; reflexivity. Qed.

Print Assumptions int_ustr_is_model.
Print Assumptions src_normalize_version_int_is_model.
Print Assumptions src_normalize_version_bool_is_model.
Print Assumptions src_normalize_version_str_is_model.
Print Assumptions src_normalize_mode_int_is_model.
Print Assumptions src_normalize_mode_bool_is_model.
Print Assumptions src_normalize_mode_str_is_model.
Print Assumptions src_normalize_errorlevel_int_is_model.
Print Assumptions src_normalize_errorlevel_bool_is_model.
Print Assumptions src_normalize_errorlevel_str_is_model.
Print Assumptions src_normalize_mask_int_is_model.
Print Assumptions src_normalize_mask_bool_is_model.
Print Assumptions src_normalize_mask_str_is_model.
Print Assumptions src_get_version_name_effect_spec.
