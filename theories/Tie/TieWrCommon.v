(* Bridge lemmas shared by TieWrText.v and TieWrNetpbm.v: what the translated serializers of segno/writers.py
   (gen/translate_writers.py, Python semantics Base/PySemIO.v) have in common.
   * get_symbol_size of utils.py translated at an int scale (SrcWrCommon.src_get_symbol_size_int) and
     writers._valid_width_height_and_border are the triple both serializer models compute;
   * matrix_iter at an int scale, with its two checks, as the models use it;
   * the formatting functions of PySemIO.v are the ones of the models (str(int) = TextFmt.dec = Netpbm.dec,
     format(n, '02x') = TextFmt.hex02, str.join = TextFmt.join);
   * loops that only write.
   See DESIGN.md 11.12. *)
From Coq Require Import ZArith QArith List Bool Lia.
From Segno Require Import Base.PyLite Base.PySem Base.PySemGen Base.PySemIO Model.Iter.
From Segno Require Model.TextFmt Model.Netpbm.
From Segno Require Import Tie.TieUtils Tie.TieUtilsIter.
From SegnoSrc Require Import SrcUtils SrcUtilsIter SrcWrCommon.
Import ListNotations.
Open Scope Z_scope.

(* ------------------------------------------------------------------ 1. sizes *)
Theorem src_get_symbol_size_int_is_model : forall (w h scale : Z) (border : option Z),
  src_get_symbol_size_int [w; h] scale border =
  let b := Iter.get_border w h border in Ok [(w + 2 * b) * scale; (h + 2 * b) * scale].
Proof.
  intros w h scale border. unfold src_get_symbol_size_int, Iter.get_border.
  destruct border as [b|]; cbn [py_unpack2 bind]; [reflexivity|].
  rewrite src_get_default_border_size_is_model. reflexivity.
Qed.

Definition whb_list (p : Z * Z * Z) : list Z := let '(a, b, c) := p in [a; b; c].

Theorem src_valid_whb_is_model : forall (w h scale : Z) (border : option Z),
  src__valid_width_height_and_border [w; h] scale border =
  do p <- TextFmt.valid_width_height_and_border w h scale border; Ok (whb_list p).
Proof.
  intros w h scale border. unfold src__valid_width_height_and_border, TextFmt.valid_width_height_and_border, TextFmt.oborder.
  change (inject_Z scale) with (q_of (PInt scale)). rewrite src_check_valid_scale_is_model.
  destruct (check_valid_scale (PInt scale)) as [[]|e]; cbn [bind]; [|reflexivity].
  rewrite src_check_valid_border_int.
  destruct (check_valid_border (option_map PInt border)) as [[]|e]; cbn [bind]; [|reflexivity].
  rewrite src_get_border_is_model. cbn [bind].
  rewrite src_get_symbol_size_int_is_model. cbv zeta. cbn [bind py_unpack2 get_border whb_list]. reflexivity.
Qed.

Lemma netpbm_valid_whb w h scale border :
  Netpbm.valid_width_height_and_border w h scale border = TextFmt.valid_width_height_and_border w h scale border.
Proof. unfold Netpbm.valid_width_height_and_border, TextFmt.valid_width_height_and_border, TextFmt.oborder. now destruct border. Qed.

(* what the checks leave: scale >= 1, border None or >= 0 *)
Lemma valid_whb_ok w h scale border p :
  TextFmt.valid_width_height_and_border w h scale border = Ok p ->
  1 <= scale /\ (forall b, border = Some b -> 0 <= b) /\
  p = ((w + 2 * get_border w h border) * scale, (h + 2 * get_border w h border) * scale, get_border w h border).
Proof.
  unfold TextFmt.valid_width_height_and_border, TextFmt.oborder. intros H.
  destruct (check_valid_scale (PInt scale)) as [[]|e] eqn:Es; cbn [bind] in H; [|discriminate].
  destruct (check_valid_border (option_map PInt border)) as [[]|e] eqn:Eb; cbn [bind] in H; [|discriminate].
  injection H as <-. split; [|split; [|reflexivity]].
  - unfold check_valid_scale, q_lebz, q_of, Qle_bool, inject_Z in Es. cbn [Qnum Qden] in Es.
    destruct (scale * 1 <=? 0 * 1) eqn:E; [discriminate|]. lia.
  - intros b ->. pose proof (src_check_valid_border_int (Some b)) as Hx. cbn [option_map] in Hx, Eb.
    rewrite <- Hx, src_check_valid_border_int_spec in Eb. destruct (b <? 0) eqn:E; [discriminate|]. lia.
Qed.

(* ------------------------------------------------------------------ 2. matrix_iter at an int scale *)
Theorem src_matrix_iter_z : forall (matrix : list (list Z)) (w h scale : Z) (border : option Z),
  well_formed matrix w h ->
  src_matrix_iter matrix [w; h] (inject_Z scale) border =
  do _ <- check_valid_border (TextFmt.oborder border);
  do _ <- check_valid_scale (PInt scale);
  Ok (iter_rows matrix w h scale (get_border w h border)).
Proof.
  intros matrix w h scale border Hwf.
  change (inject_Z scale) with (q_of (PInt scale)).
  rewrite (src_matrix_iter_is_model matrix w h (PInt scale) border Hwf). unfold Iter.matrix_iter, TextFmt.oborder.
  cbn [py_int]. now replace (border_z (option_map PInt border)) with border by (now destruct border).
Qed.

(* after _valid_width_height_and_border has accepted scale and border, matrix_iter cannot fail *)
Lemma src_matrix_iter_after_whb matrix w h scale border p :
  well_formed matrix w h ->
  TextFmt.valid_width_height_and_border w h scale border = Ok p ->
  src_matrix_iter matrix [w; h] (inject_Z scale) (Some (get_border w h border)) =
  Ok (iter_rows matrix w h scale (get_border w h border)).
Proof.
  intros Hwf Hp. destruct (valid_whb_ok _ _ _ _ _ Hp) as (Hs & Hb & _).
  rewrite src_matrix_iter_int; [reflexivity|assumption|assumption|].
  intros b0 Hb0. injection Hb0 as <-. destruct border as [b1|]; cbn [get_border].
  - now apply Hb.
  - unfold get_default_border_size. destruct ((17 <? w) && (w =? h)); lia.
Qed.

(* ------------------------------------------------------------------ 3. formatting *)
Lemma py_str_int_dec n : py_str_int n = TextFmt.dec n.
Proof. reflexivity. Qed.
Lemma py_fmt_02x_hex02 n : py_fmt_02x n = TextFmt.hex02 n.
Proof. reflexivity. Qed.
Lemma py_join_join sep l : py_join sep l = TextFmt.join sep l.
Proof. reflexivity. Qed.

Lemma py_dec_digits_dec_nat f : forall n acc, 0 <= n < 2 ^ Z.of_nat (S f) ->
  py_dec_digits (S f) n acc = Netpbm.dec_nat (S f) n ++ acc.
Proof.
  induction f as [|f IH]; intros n acc Hn.
  - cbn [py_dec_digits Netpbm.dec_nat]. change (2 ^ Z.of_nat 1) with 2 in Hn.
    assert (Hm : n mod 10 = n) by (apply Z.mod_small; lia). rewrite Hm.
    destruct (n <? 10) eqn:E; [reflexivity|lia].
  - change (py_dec_digits (S (S f)) n acc) with
      (if n <? 10 then (48 + n mod 10) :: acc else py_dec_digits (S f) (n / 10) ((48 + n mod 10) :: acc)).
    change (Netpbm.dec_nat (S (S f)) n) with
      (if n <? 10 then [48 + n] else Netpbm.dec_nat (S f) (n / 10) ++ [48 + n mod 10]).
    destruct (n <? 10) eqn:E.
    + assert (Hm : n mod 10 = n) by (apply Z.mod_small; lia). now rewrite Hm.
    + rewrite IH.
      * now rewrite <- app_assoc.
      * rewrite Nat2Z.inj_succ, Z.pow_succ_r in Hn by lia.
        split; [apply Z.div_pos; lia|]. apply Z.div_lt_upper_bound; lia.
Qed.

Lemma py_digit_fuel_bound n : 0 <= n -> 0 <= n < 2 ^ Z.of_nat (py_digit_fuel n).
Proof.
  intros Hn. unfold py_digit_fuel. rewrite Nat2Z.inj_succ, Z2Nat.id by apply Z.log2_nonneg.
  split; [assumption|]. destruct (Z.eq_dec n 0) as [->|Hne]; [reflexivity|].
  apply Z.log2_spec. lia.
Qed.

Lemma py_str_int_netpbm_dec n : py_str_int n = Netpbm.dec n.
Proof.
  unfold py_str_int, Netpbm.dec, Netpbm.dec_pos.
  destruct (n <? 0) eqn:E.
  - f_equal. unfold py_digit_fuel at 1. rewrite py_dec_digits_dec_nat.
    + now rewrite app_nil_r.
    + apply (py_digit_fuel_bound (- n)). lia.
  - unfold py_digit_fuel at 1. rewrite py_dec_digits_dec_nat.
    + now rewrite app_nil_r.
    + apply (py_digit_fuel_bound n). lia.
Qed.

(* ------------------------------------------------------------------ 4. sequencing *)
Lemma py_seq_res_text_map_res {A B} (g : A -> res B) (l : list A) : py_seq_res (map g l) = TextFmt.map_res g l.
Proof.
  induction l as [|x r IH]; cbn [map py_seq_res TextFmt.map_res]; [reflexivity|].
  destruct (g x) as [y|e]; cbn [bind]; [|reflexivity]. now rewrite IH.
Qed.
Lemma py_seq_res_netpbm_map_res {A B} (g : A -> res B) (l : list A) : py_seq_res (map g l) = Netpbm.map_res g l.
Proof.
  induction l as [|x r IH]; cbn [map py_seq_res Netpbm.map_res]; [reflexivity|].
  destruct (g x) as [y|e]; cbn [bind]; [|reflexivity]. now rewrite IH.
Qed.

(* a loop that only writes and cannot fail *)
Lemma py_for_emit_ok {X} (xs : list X) (body : X -> list Z -> res (ctl void (list Z))) (g : X -> list Z) :
  (forall x acc, In x xs -> body x acc = Ok (CNext (acc ++ g x))) ->
  forall acc, py_for xs body acc = Ok (inr (acc ++ flat_map g xs)).
Proof. intros Hb acc. now apply py_for_yield. Qed.

Lemma py_seq_res_all_ok {X A} (f : X -> res A) (g : X -> A) (xs : list X) :
  (forall x, In x xs -> f x = Ok (g x)) -> py_seq_res (map f xs) = Ok (map g xs).
Proof. apply py_seq_res_map_ok. Qed.


(* ------------------------------------------------------------------ 5. reduce, grouper, enumerate *)
Lemma fold_left_ext_f {A B} (f g : A -> B -> A) (l : list B) : (forall a b, f a b = g a b) ->
  forall a, fold_left f l a = fold_left g l a.
Proof. intros Hfg. induction l as [|x r IH]; intros a; cbn [fold_left]; [reflexivity|]. now rewrite Hfg, IH. Qed.

(* reduce(lambda x, y: (x << 1) + y, seq) on a non-empty sequence: the binary number with these digits *)
Lemma py_reduce_shift (l : list Z) : l <> [] ->
  py_reduce (fun x y => Z.shiftl x 1 + y) l = Ok (fold_left (fun x y => 2 * x + y) l 0).
Proof.
  destruct l as [|a r]; [congruence|]. intros _. unfold py_reduce. cbn [fold_left]. apply f_equal.
  change (2 * 0 + a) with a. apply fold_left_ext_f. intros x y. now rewrite Z.shiftl_mul_pow2, Z.mul_comm by lia.
Qed.

Lemma py_take_fill_with_length n fill : forall l, length (py_take_fill_with n fill l) = n.
Proof. induction n as [|n IH]; intros l; cbn [py_take_fill_with]; [reflexivity|]. destruct l; cbn [length]; now rewrite IH. Qed.

Lemma py_grouper_fuel_item_length fuel n fill : forall l g, In g (py_grouper_fuel fuel n fill l) -> length g = n.
Proof.
  induction fuel as [|f IH]; intros l g Hg; [destruct Hg|].
  destruct l as [|x r]; cbn [py_grouper_fuel In] in Hg; [destruct Hg|].
  destruct Hg as [<-|Hg]; [apply py_take_fill_with_length|]. now apply IH in Hg.
Qed.
Lemma py_grouper_item_length n fill l g : In g (py_grouper n fill l) -> length g = Z.to_nat n.
Proof. unfold py_grouper. destruct (n <=? 0); [intros []|]. apply py_grouper_fuel_item_length. Qed.

Lemma py_grouper_fuel_nil fuel n fill : py_grouper_fuel fuel n fill [] = [].
Proof. now destruct fuel. Qed.

Lemma py_enumerate_from_cons {A} (i : Z) (x : A) (r : list A) :
  py_enumerate_from i (x :: r) = (i, x) :: py_enumerate_from (i + 1) r.
Proof.
  unfold py_enumerate_from, zrange, lenZ. cbn [length].
  replace (Z.to_nat (i + Z.of_nat (S (length r)) - i)) with (S (length r)) by lia.
  replace (Z.to_nat (i + 1 + Z.of_nat (length r) - (i + 1))) with (length r) by lia.
  reflexivity.
Qed.
Lemma py_enumerate_from_nil {A} (i : Z) : py_enumerate_from i (@nil A) = [].
Proof. unfold py_enumerate_from, zrange, lenZ. cbn [length]. now replace (Z.to_nat (i + Z.of_nat 0 - i)) with O by lia. Qed.

Lemma bind_ret' {A} (r : res A) : bind r (fun x => Ok x) = r.
Proof. now destruct r. Qed.

Lemma py_join_nil_concat (l : list (list Z)) : py_join [] l = concat l.
Proof.
  induction l as [|x l IH]; [reflexivity|].
  destruct l as [|y r]; [cbn [py_join concat]; now rewrite app_nil_r|].
  change (py_join [] (x :: y :: r)) with (x ++ [] ++ py_join [] (y :: r)). rewrite IH. reflexivity.
Qed.


Lemma py_dec_digits_ascii fuel : forall n acc, forallb py_is_ascii acc = true -> forallb py_is_ascii (py_dec_digits fuel n acc) = true.
Proof.
  induction fuel as [|f IH]; intros n acc Hacc; cbn [py_dec_digits]; [assumption|].
  assert (Hd : forallb py_is_ascii ((48 + n mod 10) :: acc) = true).
  { cbn [forallb]. rewrite Hacc, andb_true_r. unfold py_is_ascii.
    pose proof (Z.mod_pos_bound n 10 ltac:(lia)) as Hm.
    destruct (0 <=? 48 + n mod 10) eqn:E1, (48 + n mod 10 <? 128) eqn:E2; try reflexivity; lia. }
  destruct (n <? 10); [assumption|]. now apply IH.
Qed.
Lemma py_str_int_ascii n : forallb py_is_ascii (py_str_int n) = true.
Proof.
  unfold py_str_int. destruct (n <? 0); [cbn [forallb]; change (py_is_ascii 45) with true; cbn [andb]|];
    now apply py_dec_digits_ascii.
Qed.
Lemma py_encode_ascii_ok s : forallb py_is_ascii s = true -> py_encode_ascii s = Ok s.
Proof. intros H. unfold py_encode_ascii. now rewrite H. Qed.

Print Assumptions src_get_symbol_size_int_is_model.
Print Assumptions src_valid_whb_is_model.
Print Assumptions src_matrix_iter_z.
Print Assumptions py_str_int_netpbm_dec.
