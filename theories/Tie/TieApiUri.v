(* Bridge: the mechanically translated API layer of segno/writers.py (build/gen/SrcApiUri.v, gen/translate_api.py): the keyword
   entries of the translated serializers, `save` with the serializer call connected, `as_png_data_uri`, `as_svg_data_uri`.
   No hand-written model exists for most of this layer: the theorems are ROUTE EQUALITIES on the translated code, for ALL keyword
   dictionaries (any keys, any values), plus typed corollaries on the definitions the other translators generated, plus the
   bridge to Model/Svg.v as_svg_data_uri and Model/Route.v resolve.
   Also: the facts about Base/PySemApi.v (keyword dictionaries, the call protocol) that both API bridges share. *)
From Coq Require Import ZArith QArith List Bool Lia String.
From Segno Require Import Base.PyLite Base.PySem Base.PySemExt Base.PySemGen Base.PySemIO Base.PySemColor Base.PySemVec Base.PySemSvg
  Base.PySemRoute Base.PySemApi Ref.IsoData Model.Color Model.Route.
From Segno Require Model.Svg.
From Segno Require Tie.TieTables Tie.TieRouteSave.
From SegnoSrc Require SrcTables SrcSvg SrcPng SrcVecEps SrcVecPdf SrcVecTex SrcWrText SrcWrNetpbm SrcColorful SrcApiUri.
Import ListNotations.
Open Scope Z_scope.

(* ------------------------------------------------------------------ str keys *)
Lemma str_eqb_eq a : forall b, pyr_str_eqb a b = true <-> a = b.
Proof.
  induction a as [|x a IH]; intros [|y b]; cbn [pyr_str_eqb]; split; intros H; try reflexivity; try discriminate.
  - apply andb_true_iff in H as [H1 H2]. apply Z.eqb_eq in H1. apply IH in H2. now subst.
  - injection H as -> ->. rewrite Z.eqb_refl. now apply IH.
Qed.
Lemma str_eqb_refl a : pyr_str_eqb a a = true.
Proof. now apply str_eqb_eq. Qed.
Lemma str_eqb_sym a b : pyr_str_eqb a b = pyr_str_eqb b a.
Proof.
  destruct (pyr_str_eqb a b) eqn:E.
  - apply str_eqb_eq in E. subst. now rewrite str_eqb_refl.
  - destruct (pyr_str_eqb b a) eqn:E'; [|reflexivity]. apply str_eqb_eq in E'. subst. now rewrite str_eqb_refl in E.
Qed.
Lemma str_in_In k l : pyr_str_in k l = true <-> In k l.
Proof.
  unfold pyr_str_in. rewrite existsb_exists. split.
  - intros (x & Hx & E). apply str_eqb_eq in E. now subst.
  - intros H. exists k. split; [exact H|apply str_eqb_refl].
Qed.
Lemma str_in_ext k l1 l2 : (forall x, In x l1 <-> In x l2) -> pyr_str_in k l1 = pyr_str_in k l2.
Proof.
  intros H. destruct (pyr_str_in k l1) eqn:E1, (pyr_str_in k l2) eqn:E2; try reflexivity.
  - apply str_in_In, H, str_in_In in E1. congruence.
  - apply str_in_In, H, str_in_In in E2. congruence.
Qed.
(* two name lists with the same members, decided by evaluation on closed lists *)
Definition same_names (l1 l2 : list (list Z)) : bool :=
  forallb (fun k => pyr_str_in k l2) l1 && forallb (fun k => pyr_str_in k l1) l2.
Lemma same_names_in l1 l2 : same_names l1 l2 = true -> forall k, pyr_str_in k l1 = pyr_str_in k l2.
Proof.
  unfold same_names. intros H k. apply andb_true_iff in H as [H1 H2]. rewrite forallb_forall in H1, H2.
  apply str_in_ext. intros x. split; intros Hx; [apply str_in_In, H1, Hx|apply str_in_In, H2, Hx].
Qed.

(* ------------------------------------------------------------------ keyword dictionaries *)
Lemma kw_find_app k (d1 d2 : py_kw) :
  pya_kw_find k (d1 ++ d2) = match pya_kw_find k d1 with Some v => Some v | None => pya_kw_find k d2 end.
Proof.
  unfold pya_kw_find. induction d1 as [|[k' v] r IH]; cbn [app pyr_assoc]; [reflexivity|].
  destruct (pyr_str_eqb k k'); [reflexivity|exact IH].
Qed.
Lemma kw_find_rest k names (d : py_kw) :
  pya_kw_find k (pya_kw_rest names d) = if pyr_str_in k names then None else pya_kw_find k d.
Proof.
  unfold pya_kw_find, pya_kw_rest. induction d as [|[k' v] r IH]; cbn [filter pyr_assoc fst].
  - now destruct (pyr_str_in k names).
  - destruct (pyr_str_in k' names) eqn:E'; cbn [negb pyr_assoc].
    + rewrite IH. destruct (pyr_str_eqb k k') eqn:E; [|reflexivity]. apply str_eqb_eq in E. subst k'. now rewrite E'.
    + destruct (pyr_str_eqb k k') eqn:E; [|exact IH]. apply str_eqb_eq in E. subst k'. now rewrite E'.
Qed.
Lemma kw_arg_app_nil k dflt (d : py_kw) : pya_kw_arg k dflt ([] ++ d) = pya_kw_arg k dflt d.
Proof. reflexivity. Qed.
Lemma kw_arg_cons_eq k k' v dflt (d : py_kw) : pyr_str_eqb k k' = true -> pya_kw_arg k dflt ((k', v) :: d) = v.
Proof. intros E. unfold pya_kw_arg, pya_kw_find. cbn [pyr_assoc]. now rewrite E. Qed.
Lemma kw_arg_cons_ne k k' v dflt (d : py_kw) : pyr_str_eqb k k' = false -> pya_kw_arg k dflt ((k', v) :: d) = pya_kw_arg k dflt d.
Proof. intros E. unfold pya_kw_arg, pya_kw_find. cbn [pyr_assoc]. now rewrite E. Qed.
Lemma kw_arg_rest k dflt names (d : py_kw) :
  pyr_str_in k names = false -> pya_kw_arg k dflt (pya_kw_rest names d) = pya_kw_arg k dflt d.
Proof. intros E. unfold pya_kw_arg. now rewrite kw_find_rest, E. Qed.
Lemma kw_arg_rest_in k dflt names (d : py_kw) :
  pyr_str_in k names = true -> pya_kw_arg k dflt (pya_kw_rest names d) = dflt.
Proof. intros E. unfold pya_kw_arg. now rewrite kw_find_rest, E. Qed.

Lemma kw_rest_app names (d1 d2 : py_kw) : pya_kw_rest names (d1 ++ d2) = pya_kw_rest names d1 ++ pya_kw_rest names d2.
Proof. apply filter_app. Qed.
Lemma kw_rest_rest n1 n2 (d : py_kw) : pya_kw_rest n2 (pya_kw_rest n1 d) = pya_kw_rest (n1 ++ n2) d.
Proof.
  assert (Happ : forall k, pyr_str_in k (n1 ++ n2) = pyr_str_in k n1 || pyr_str_in k n2)
    by (intros k; unfold pyr_str_in; apply existsb_app).
  unfold pya_kw_rest. induction d as [|[k v] r IH]; cbn [filter fst]; [reflexivity|].
  rewrite Happ. destruct (pyr_str_in k n1); cbn [negb orb filter fst]; [exact IH|].
  destruct (pyr_str_in k n2); cbn [negb]; now rewrite IH.
Qed.
Lemma kw_rest_ext n1 n2 (d : py_kw) : same_names n1 n2 = true -> pya_kw_rest n1 d = pya_kw_rest n2 d.
Proof.
  intros H. unfold pya_kw_rest. apply filter_ext. intros [k v]. cbn [fst]. now rewrite (same_names_in _ _ H).
Qed.
Lemma kw_rest_cons_in names k v (d : py_kw) :
  pyr_str_in k names = true -> pya_kw_rest names ((k, v) :: d) = pya_kw_rest names d.
Proof. intros E. unfold pya_kw_rest. cbn [filter fst]. now rewrite E. Qed.
Lemma kw_rest_cons_out names k v (d : py_kw) :
  pyr_str_in k names = false -> pya_kw_rest names ((k, v) :: d) = (k, v) :: pya_kw_rest names d.
Proof. intros E. unfold pya_kw_rest. cbn [filter fst]. now rewrite E. Qed.
Lemma kw_rest_nil names : pya_kw_rest names [] = [].
Proof. reflexivity. Qed.

(* "some key of d is one of the names", name by name *)
Definition kw_has1 (k : list Z) (d : py_kw) : bool := match pya_kw_find k d with Some _ => true | None => false end.
Lemma kw_has_find names (d : py_kw) : pya_kw_has names d = existsb (fun k => kw_has1 k d) names.
Proof.
  unfold pya_kw_has, kw_has1, pya_kw_find. induction d as [|[k v] r IH]; cbn [existsb pyr_assoc fst].
  - induction names; cbn [existsb]; [reflexivity|assumption].
  - rewrite IH. clear IH. induction names as [|x names IHn]; cbn [pyr_str_in existsb].
    + reflexivity.
    + fold (pyr_str_in k names). rewrite (str_eqb_sym k x). destruct (pyr_str_eqb x k); cbn [orb].
      * reflexivity.
      * destruct (match pyr_assoc x r with Some _ => true | None => false end); cbn [orb]; [now rewrite orb_true_r|].
        exact IHn.
Qed.
Lemma kw_has1_app k (d1 d2 : py_kw) : kw_has1 k (d1 ++ d2) = kw_has1 k d1 || kw_has1 k d2.
Proof. unfold kw_has1. rewrite kw_find_app. now destruct (pya_kw_find k d1). Qed.
Lemma kw_has1_rest k names (d : py_kw) : kw_has1 k (pya_kw_rest names d) = negb (pyr_str_in k names) && kw_has1 k d.
Proof. unfold kw_has1. rewrite kw_find_rest. now destruct (pyr_str_in k names). Qed.
Lemma kw_has1_cons k k' v (d : py_kw) : kw_has1 k ((k', v) :: d) = pyr_str_eqb k k' || kw_has1 k d.
Proof. unfold kw_has1, pya_kw_find. cbn [pyr_assoc]. now destruct (pyr_str_eqb k k'). Qed.
Lemma kw_has1_nil k : kw_has1 k [] = false.
Proof. reflexivity. Qed.

(* reading a value at the type it was injected from *)
Lemma pya_int_of z : pya_int (pya_of_int z) = Ok z. Proof. reflexivity. Qed.
Lemma pya_oint_of o : pya_oint (pya_of_oint o) = Ok o. Proof. now destruct o. Qed.
Lemma pya_bool_of b : pya_bool (pya_of_bool b) = Ok b. Proof. reflexivity. Qed.
Lemma pya_str_of s : pya_str (pya_of_str s) = Ok s. Proof. reflexivity. Qed.
Lemma pya_ostr_of o : pya_ostr (pya_of_ostr o) = Ok o. Proof. now destruct o. Qed.
Lemma pya_vnum_of v : pya_vnum (pya_of_vnum v) = Ok v. Proof. now destruct v. Qed.
Lemma pya_ovnum_of o : pya_ovnum (pya_of_ovnum o) = Ok o. Proof. now destruct o as [[|]|]. Qed.
Lemma pya_color_of c : pya_color (pya_of_color c) = Ok c. Proof. now destruct c. Qed.
Lemma pya_ocolor_of o : pya_ocolor (pya_of_ocolor o) = Ok o. Proof. now destruct o as [[|]|]. Qed.
Lemma pya_oocolor_of o : pya_oocolor (pya_of_oocolor o) = Ok o. Proof. now destruct o as [[[|]|]|]. Qed.

(* ------------------------------------------------------------------ the keyword entries of the translated serializers *)
(* evaluation of the call protocol on a dictionary with closed keys *)
Ltac kw_eval :=
  cbn [pya_kw_check_pos pya_kw_check_unexpected pya_kw_has pya_kw_rest pya_kw_arg pya_kw_find pyr_assoc pyr_str_in pyr_str_eqb
       existsb filter fst snd negb orb andb Z.eqb Pos.eqb bind
       SrcApiUri.K_matrix SrcApiUri.K_matrix_size SrcApiUri.K_out SrcApiUri.K_dark SrcApiUri.K_light SrcApiUri.K_finder_dark
       SrcApiUri.K_finder_light SrcApiUri.K_data_dark SrcApiUri.K_data_light SrcApiUri.K_version_dark SrcApiUri.K_version_light
       SrcApiUri.K_format_dark SrcApiUri.K_format_light SrcApiUri.K_alignment_dark SrcApiUri.K_alignment_light
       SrcApiUri.K_timing_dark SrcApiUri.K_timing_light SrcApiUri.K_separator SrcApiUri.K_dark_module SrcApiUri.K_quiet_zone
       SrcApiUri.K_colormap SrcApiUri.K_scale SrcApiUri.K_border SrcApiUri.K_xmldecl SrcApiUri.K_svgns SrcApiUri.K_title
       SrcApiUri.K_desc SrcApiUri.K_svgid SrcApiUri.K_svgclass SrcApiUri.K_lineclass SrcApiUri.K_omitsize SrcApiUri.K_unit
       SrcApiUri.K_encoding SrcApiUri.K_svgversion SrcApiUri.K_nl SrcApiUri.K_draw_transparent SrcApiUri.K_compresslevel
       SrcApiUri.K_dpi SrcApiUri.K_plain SrcApiUri.K_name SrcApiUri.K_url SrcApiUri.K_encode_minimal SrcApiUri.K_omit_charset
       SrcApiUri.K_kind].
Ltac kw_roundtrip :=
  rewrite ?pya_int_of, ?pya_oint_of, ?pya_bool_of, ?pya_str_of, ?pya_ostr_of, ?pya_vnum_of, ?pya_ovnum_of, ?pya_color_of,
          ?pya_ocolor_of, ?pya_oocolor_of.

(* the keyword entry applied to the dictionary of given typed arguments IS the definition the other translators generated:
   the readings at the declared types lose nothing, every name reaches its own parameter (13 serializers) *)
Lemma src_write_svg_kw_typed ext_q_repr ext_float_repr ext_re_sub m ms dark light finder_dark finder_light data_dark
    data_light version_dark version_light format_dark format_light alignment_dark alignment_light timing_dark timing_light
    separator dark_module quiet_zone scale border xmldecl svgns title desc svgid svgclass lineclass omitsize unit_py encoding
    svgversion nl draw_transparent :
  SrcApiUri.src_write_svg_kw ext_q_repr ext_float_repr ext_re_sub m ms (SrcApiUri.src_write_svg_kwargs dark light
      finder_dark finder_light data_dark data_light version_dark version_light format_dark format_light alignment_dark
      alignment_light timing_dark timing_light separator dark_module quiet_zone scale border xmldecl svgns title desc svgid
      svgclass lineclass omitsize unit_py encoding svgversion nl draw_transparent)
  = do r <- SrcSvg.src_write_svg_colorful ext_q_repr ext_float_repr ext_re_sub m ms dark light finder_dark finder_light
      data_dark data_light version_dark version_light format_dark format_light alignment_dark alignment_light timing_dark
      timing_light separator dark_module quiet_zone scale border xmldecl svgns title desc svgid svgclass lineclass omitsize
      unit_py encoding svgversion nl draw_transparent; Ok (PWText (fst r) (snd r)).
Proof. unfold SrcApiUri.src_write_svg_kw, SrcApiUri.src_write_svg_kwargs. cbv zeta. kw_eval. kw_roundtrip. kw_eval. reflexivity. Qed.

Lemma src_write_png_kw_typed ext__color_to_rgb_or_rgba ext_crc32 ext_compress ext_set_order m ms dark light finder_dark
    finder_light data_dark data_light version_dark version_light format_dark format_light alignment_dark alignment_light
    timing_dark timing_light separator dark_module quiet_zone scale border compresslevel dpi :
  SrcApiUri.src_write_png_kw ext__color_to_rgb_or_rgba ext_crc32 ext_compress ext_set_order m ms
      (SrcApiUri.src_write_png_kwargs dark light finder_dark finder_light data_dark data_light version_dark version_light
      format_dark format_light alignment_dark alignment_light timing_dark timing_light separator dark_module quiet_zone scale
      border compresslevel dpi)
  = do r <- SrcPng.src_write_png_colorful ext__color_to_rgb_or_rgba ext_crc32 ext_compress ext_set_order m ms dark light
      finder_dark finder_light data_dark data_light version_dark version_light format_dark format_light alignment_dark
      alignment_light timing_dark timing_light separator dark_module quiet_zone scale border compresslevel dpi; Ok (PWBytes r).
Proof. unfold SrcApiUri.src_write_png_kw, SrcApiUri.src_write_png_kwargs. cbv zeta. kw_eval. kw_roundtrip. kw_eval. reflexivity. Qed.

Lemma src_write_eps_kw_typed ext_q_repr ext_time_strftime ext_textwrap_wrap m ms scale border dark light :
  SrcApiUri.src_write_eps_kw ext_q_repr ext_time_strftime ext_textwrap_wrap m ms (SrcApiUri.src_write_eps_kwargs scale
      border dark light)
  = do r <- SrcVecEps.src_write_eps ext_q_repr ext_time_strftime ext_textwrap_wrap m ms scale border dark light; Ok (PWText
      None r).
Proof. unfold SrcApiUri.src_write_eps_kw, SrcApiUri.src_write_eps_kwargs. cbv zeta. kw_eval. kw_roundtrip. kw_eval. reflexivity. Qed.

Lemma src_write_pdf_kw_typed ext_q_repr ext_float_repr ext_time_strftime ext_time_timezone ext_zlib_compress m ms scale
    border dark light compresslevel :
  SrcApiUri.src_write_pdf_kw ext_q_repr ext_float_repr ext_time_strftime ext_time_timezone ext_zlib_compress m ms
      (SrcApiUri.src_write_pdf_kwargs scale border dark light compresslevel)
  = do r <- SrcVecPdf.src_write_pdf ext_q_repr ext_float_repr ext_time_strftime ext_time_timezone ext_zlib_compress m ms
      scale border dark light compresslevel; Ok (PWBytes r).
Proof. unfold SrcApiUri.src_write_pdf_kw, SrcApiUri.src_write_pdf_kwargs. cbv zeta. kw_eval. kw_roundtrip. kw_eval. reflexivity. Qed.

Lemma src_write_txt_kw_typed  m ms border dark light :
  SrcApiUri.src_write_txt_kw  m ms (SrcApiUri.src_write_txt_kwargs border dark light)
  = do r <- SrcWrText.src_write_txt  m ms border dark light; Ok (PWText None r).
Proof. unfold SrcApiUri.src_write_txt_kw, SrcApiUri.src_write_txt_kwargs. cbv zeta. kw_eval. kw_roundtrip. kw_eval. reflexivity. Qed.

Lemma src_write_pbm_kw_typed  m ms scale border plain :
  SrcApiUri.src_write_pbm_kw  m ms (SrcApiUri.src_write_pbm_kwargs scale border plain)
  = do r <- SrcWrNetpbm.src_write_pbm  m ms scale border plain; Ok (PWBytes r).
Proof. unfold SrcApiUri.src_write_pbm_kw, SrcApiUri.src_write_pbm_kwargs. cbv zeta. kw_eval. kw_roundtrip. kw_eval. reflexivity. Qed.

Lemma src_write_pam_kw_typed ext__color_to_rgb_or_rgba m ms scale border dark light :
  SrcApiUri.src_write_pam_kw ext__color_to_rgb_or_rgba m ms (SrcApiUri.src_write_pam_kwargs scale border dark light)
  = do r <- SrcWrNetpbm.src_write_pam ext__color_to_rgb_or_rgba m ms scale border dark light; Ok (PWBytes r).
Proof. unfold SrcApiUri.src_write_pam_kw, SrcApiUri.src_write_pam_kwargs. cbv zeta. kw_eval. kw_roundtrip. kw_eval. reflexivity. Qed.

Lemma src_write_ppm_kw_typed ext__color_to_rgb m ms dark light finder_dark finder_light data_dark data_light version_dark
    version_light format_dark format_light alignment_dark alignment_light timing_dark timing_light separator dark_module
    quiet_zone scale border :
  SrcApiUri.src_write_ppm_kw ext__color_to_rgb m ms (SrcApiUri.src_write_ppm_kwargs dark light finder_dark finder_light
      data_dark data_light version_dark version_light format_dark format_light alignment_dark alignment_light timing_dark
      timing_light separator dark_module quiet_zone scale border)
  = do r <- SrcColorful.src_write_ppm_colorful ext__color_to_rgb m ms dark light finder_dark finder_light data_dark
      data_light version_dark version_light format_dark format_light alignment_dark alignment_light timing_dark timing_light
      separator dark_module quiet_zone scale border; Ok (PWBytes r).
Proof. unfold SrcApiUri.src_write_ppm_kw, SrcApiUri.src_write_ppm_kwargs. cbv zeta. kw_eval. kw_roundtrip. kw_eval. reflexivity. Qed.

Lemma src_write_xpm_kw_typed ext__color_to_rgb_xpm m ms scale border dark light name :
  SrcApiUri.src_write_xpm_kw ext__color_to_rgb_xpm m ms (SrcApiUri.src_write_xpm_kwargs scale border dark light name)
  = do r <- SrcWrText.src_write_xpm ext__color_to_rgb_xpm m ms scale border dark light name; Ok (PWText None r).
Proof. unfold SrcApiUri.src_write_xpm_kw, SrcApiUri.src_write_xpm_kwargs. cbv zeta. kw_eval. kw_roundtrip. kw_eval. reflexivity. Qed.

Lemma src_write_xbm_kw_typed  m ms scale border name :
  SrcApiUri.src_write_xbm_kw  m ms (SrcApiUri.src_write_xbm_kwargs scale border name)
  = do r <- SrcWrText.src_write_xbm  m ms scale border name; Ok (PWText None r).
Proof. unfold SrcApiUri.src_write_xbm_kw, SrcApiUri.src_write_xbm_kwargs. cbv zeta. kw_eval. kw_roundtrip. kw_eval. reflexivity. Qed.

Lemma src_write_tex_kw_typed ext_q_repr ext_time_strftime m ms scale border dark unit_py url :
  SrcApiUri.src_write_tex_kw ext_q_repr ext_time_strftime m ms (SrcApiUri.src_write_tex_kwargs scale border dark unit_py url)
  = do r <- SrcVecTex.src_write_tex ext_q_repr ext_time_strftime m ms scale border dark unit_py url; Ok (PWText None r).
Proof. unfold SrcApiUri.src_write_tex_kw, SrcApiUri.src_write_tex_kwargs. cbv zeta. kw_eval. kw_roundtrip. kw_eval. reflexivity. Qed.

Lemma src_write_terminal_kw_typed  m ms border :
  SrcApiUri.src_write_terminal_kw  m ms (SrcApiUri.src_write_terminal_kwargs border)
  = do r <- SrcWrText.src_write_terminal  m ms border; Ok (PWText None r).
Proof. unfold SrcApiUri.src_write_terminal_kw, SrcApiUri.src_write_terminal_kwargs. cbv zeta. kw_eval. kw_roundtrip. kw_eval. reflexivity. Qed.

Lemma src_write_terminal_compact_kw_typed  m ms border :
  SrcApiUri.src_write_terminal_compact_kw  m ms (SrcApiUri.src_write_terminal_compact_kwargs border)
  = do r <- SrcWrText.src_write_terminal_compact  m ms border; Ok (PWText None r).
Proof. unfold SrcApiUri.src_write_terminal_compact_kw, SrcApiUri.src_write_terminal_compact_kwargs. cbv zeta. kw_eval. kw_roundtrip. kw_eval. reflexivity. Qed.

(* the DEFAULTS of the 13 serializers (the documented values, written out here): called without any keyword argument the entry
   is the generated definition at these values -- a changed default in a signature breaks the lemma *)
(* write_svg(matrix, matrix_size, out): dark='#000', light=None, finder_dark=False, finder_light=False, data_dark=False,
   data_light=False, version_dark=False, version_light=False, format_dark=False, format_light=False, alignment_dark=False,
   alignment_light=False, timing_dark=False, timing_light=False, separator=False, dark_module=False, quiet_zone=False,
   scale=1, border=None, xmldecl=True, svgns=True, title=None, desc=None, svgid=None, svgclass='segno', lineclass='qrline',
   omitsize=False, unit=None, encoding='utf-8', svgversion=None, nl=True, draw_transparent=False *)
Lemma src_write_svg_kw_defaults ext_q_repr ext_float_repr ext_re_sub m ms :
  SrcApiUri.src_write_svg_kw ext_q_repr ext_float_repr ext_re_sub m ms []
  = do r <- SrcSvg.src_write_svg_colorful ext_q_repr ext_float_repr ext_re_sub m ms (Some (PyCStr [35; 48; 48; 48])) None
      None None None None None None None None None None None None None None None (PVInt 1) None true true None None None (Some
      [115; 101; 103; 110; 111]) (Some [113; 114; 108; 105; 110; 101]) false None (Some [117; 116; 102; 45; 56]) None true
      false; Ok (PWText (fst r) (snd r)).
Proof. reflexivity. Qed.

(* write_png(matrix, matrix_size, out): dark='#000', light='#fff', finder_dark=False, finder_light=False, data_dark=False,
   data_light=False, version_dark=False, version_light=False, format_dark=False, format_light=False, alignment_dark=False,
   alignment_light=False, timing_dark=False, timing_light=False, separator=False, dark_module=False, quiet_zone=False,
   scale=1, border=None, compresslevel=9, dpi=None *)
Lemma src_write_png_kw_defaults ext__color_to_rgb_or_rgba ext_crc32 ext_compress ext_set_order m ms :
  SrcApiUri.src_write_png_kw ext__color_to_rgb_or_rgba ext_crc32 ext_compress ext_set_order m ms []
  = do r <- SrcPng.src_write_png_colorful ext__color_to_rgb_or_rgba ext_crc32 ext_compress ext_set_order m ms (Some
      (PyCStr [35; 48; 48; 48])) (Some (PyCStr [35; 102; 102; 102])) None None None None None None None None None None None
      None None None None 1 None 9 None; Ok (PWBytes r).
Proof. reflexivity. Qed.

(* write_eps(matrix, matrix_size, out): scale=1, border=None, dark='#000', light=None *)
Lemma src_write_eps_kw_defaults ext_q_repr ext_time_strftime ext_textwrap_wrap m ms :
  SrcApiUri.src_write_eps_kw ext_q_repr ext_time_strftime ext_textwrap_wrap m ms []
  = do r <- SrcVecEps.src_write_eps ext_q_repr ext_time_strftime ext_textwrap_wrap m ms (PVInt 1) None (PyCStr [35; 48;
      48; 48]) None; Ok (PWText None r).
Proof. reflexivity. Qed.

(* write_pdf(matrix, matrix_size, out): scale=1, border=None, dark='#000', light=None, compresslevel=9 *)
Lemma src_write_pdf_kw_defaults ext_q_repr ext_float_repr ext_time_strftime ext_time_timezone ext_zlib_compress m ms :
  SrcApiUri.src_write_pdf_kw ext_q_repr ext_float_repr ext_time_strftime ext_time_timezone ext_zlib_compress m ms []
  = do r <- SrcVecPdf.src_write_pdf ext_q_repr ext_float_repr ext_time_strftime ext_time_timezone ext_zlib_compress m ms
      (PVInt 1) None (PyCStr [35; 48; 48; 48]) None 9; Ok (PWBytes r).
Proof. reflexivity. Qed.

(* write_txt(matrix, matrix_size, out): border=None, dark='1', light='0' *)
Lemma src_write_txt_kw_defaults  m ms :
  SrcApiUri.src_write_txt_kw  m ms []
  = do r <- SrcWrText.src_write_txt  m ms None [49] [48]; Ok (PWText None r).
Proof. reflexivity. Qed.

(* write_pbm(matrix, matrix_size, out): scale=1, border=None, plain=False *)
Lemma src_write_pbm_kw_defaults  m ms :
  SrcApiUri.src_write_pbm_kw  m ms []
  = do r <- SrcWrNetpbm.src_write_pbm  m ms 1 None false; Ok (PWBytes r).
Proof. reflexivity. Qed.

(* write_pam(matrix, matrix_size, out): scale=1, border=None, dark='#000', light='#fff' *)
Lemma src_write_pam_kw_defaults ext__color_to_rgb_or_rgba m ms :
  SrcApiUri.src_write_pam_kw ext__color_to_rgb_or_rgba m ms []
  = do r <- SrcWrNetpbm.src_write_pam ext__color_to_rgb_or_rgba m ms 1 None (Some (PyCStr [35; 48; 48; 48])) (Some (PyCStr
      [35; 102; 102; 102])); Ok (PWBytes r).
Proof. reflexivity. Qed.

(* write_ppm(matrix, matrix_size, out): dark='#000', light='#fff', finder_dark=False, finder_light=False, data_dark=False,
   data_light=False, version_dark=False, version_light=False, format_dark=False, format_light=False, alignment_dark=False,
   alignment_light=False, timing_dark=False, timing_light=False, separator=False, dark_module=False, quiet_zone=False,
   scale=1, border=None *)
Lemma src_write_ppm_kw_defaults ext__color_to_rgb m ms :
  SrcApiUri.src_write_ppm_kw ext__color_to_rgb m ms []
  = do r <- SrcColorful.src_write_ppm_colorful ext__color_to_rgb m ms (Some (PyCStr [35; 48; 48; 48])) (Some (PyCStr [35;
      102; 102; 102])) None None None None None None None None None None None None None None None 1 None; Ok (PWBytes r).
Proof. reflexivity. Qed.

(* write_xpm(matrix, matrix_size, out): scale=1, border=None, dark='#000', light='#fff', name='img' *)
Lemma src_write_xpm_kw_defaults ext__color_to_rgb_xpm m ms :
  SrcApiUri.src_write_xpm_kw ext__color_to_rgb_xpm m ms []
  = do r <- SrcWrText.src_write_xpm ext__color_to_rgb_xpm m ms 1 None (Some (PyCStr [35; 48; 48; 48])) (Some (PyCStr [35;
      102; 102; 102])) [105; 109; 103]; Ok (PWText None r).
Proof. reflexivity. Qed.

(* write_xbm(matrix, matrix_size, out): scale=1, border=None, name='img' *)
Lemma src_write_xbm_kw_defaults  m ms :
  SrcApiUri.src_write_xbm_kw  m ms []
  = do r <- SrcWrText.src_write_xbm  m ms 1 None [105; 109; 103]; Ok (PWText None r).
Proof. reflexivity. Qed.

(* write_tex(matrix, matrix_size, out): scale=1, border=None, dark='black', unit='pt', url=None *)
Lemma src_write_tex_kw_defaults ext_q_repr ext_time_strftime m ms :
  SrcApiUri.src_write_tex_kw ext_q_repr ext_time_strftime m ms []
  = do r <- SrcVecTex.src_write_tex ext_q_repr ext_time_strftime m ms (PVInt 1) None (Some [98; 108; 97; 99; 107]) [112;
      116] None; Ok (PWText None r).
Proof. reflexivity. Qed.

(* write_terminal(matrix, matrix_size, out): border=None *)
Lemma src_write_terminal_kw_defaults  m ms :
  SrcApiUri.src_write_terminal_kw  m ms []
  = do r <- SrcWrText.src_write_terminal  m ms None; Ok (PWText None r).
Proof. reflexivity. Qed.

(* write_terminal_compact(matrix, matrix_size, out): border=None *)
Lemma src_write_terminal_compact_kw_defaults  m ms :
  SrcApiUri.src_write_terminal_compact_kw  m ms []
  = do r <- SrcWrText.src_write_terminal_compact  m ms None; Ok (PWText None r).
Proof. reflexivity. Qed.

(* ------------------------------------------------------------------ writers.save with the serializer call connected *)
Section Save.
  Variable ext_q_repr : Q -> list Z.
  Variable ext_float_repr : py_float -> list Z.
  Variable ext_re_sub : list Z -> list Z -> list Z -> list Z.
  Variable ext__color_to_rgb_or_rgba : option py_color -> bool -> res (list Z).
  Variable ext_crc32 : list Z -> Z.
  Variable ext_compress : list Z -> Z -> list Z.
  Variable ext_set_order : list (list Z) -> list (list Z).
  Variable ext_time_strftime : list Z -> list Z.
  Variable ext_textwrap_wrap : list Z -> Z -> list (list Z).
  Variable ext_time_timezone : Z.
  Variable ext_zlib_compress : list Z -> Z -> list Z.
  Variable ext__color_to_rgb : option py_color -> res (list Z).
  Variable ext__color_to_rgb_xpm : py_color -> res (list Z).
  Variable ext_codec_encode : list Z -> list Z -> res (list Z).
  Variable ext_gzip : py_out -> py_dyn -> list Z -> list Z.

  (* serializer(matrix, matrix_size, <stream>, **kw) for the value of _VALID_SERIALIZERS under `key` *)
  Definition call_serializer (key : list Z) (m : list (list Z)) (ms : list Z) (kw : py_kw) : res py_written :=
    SrcApiUri.src_call_serializer ext_q_repr ext_float_repr ext_re_sub ext__color_to_rgb_or_rgba ext_crc32 ext_compress ext_set_order
      ext_time_strftime ext_textwrap_wrap ext_time_timezone ext_zlib_compress ext__color_to_rgb ext__color_to_rgb_xpm key m ms kw.
  Definition save (m : list (list Z)) (ms : list Z) (out : py_out) (kind : option (list Z)) (kw : py_kw) : res py_written :=
    SrcApiUri.src_save ext_q_repr ext_float_repr ext_re_sub ext__color_to_rgb_or_rgba ext_crc32 ext_compress ext_set_order
      ext_time_strftime ext_textwrap_wrap ext_time_timezone ext_zlib_compress ext__color_to_rgb ext__color_to_rgb_xpm ext_codec_encode
      ext_gzip m ms out kind kw.

  (* what save() does once the serializer key and the gzip decision are known *)
  Definition save_call (m : list (list Z)) (ms : list Z) (out : py_out) (kw : py_kw) (key : list Z) (gz : bool) : res py_written :=
    if gz
    then do w <- call_serializer key m ms (pya_kw_rest [SrcApiUri.K_compresslevel] kw);
         do f <- pya_bin_write ext_codec_encode [] w;
         Ok (PWBytes (ext_gzip out (pya_kw_arg SrcApiUri.K_compresslevel (DInt 9) kw) f))
    else call_serializer key m ms kw.

  Lemma try_key {A} (key : list Z) (F : list Z -> res A) :
    match ((do t <- pyr_strkey_get key SrcTables.VALID_SERIALIZERS; Ok (CNext t)) : res (ctl void (list Z))) with
    | Err KeyErr => Err ValueError
    | Err e' => Err e'
    | Ok (CRet r') => (match r' return _ with end)
    | Ok (CNext st') | Ok (CBrk st') => F st'
    end
    = if mem_str key VALID_SERIALIZERS then F key else Err ValueError.
  Proof.
    unfold pyr_strkey_get. rewrite TieRouteSave.pyr_str_in_model, TieTables.tie_VALID_SERIALIZERS.
    destruct (mem_str key VALID_SERIALIZERS); reflexivity.
  Qed.

  Lemma save_tail m ms out kw (ext : list Z) (is_stream : bool) (R : res py_written) :
    R = (let is_svgz := negb is_stream && str_eqb ext svgz in
         let key := if is_svgz then svg else ext in
         if mem_str key VALID_SERIALIZERS then save_call m ms out kw key is_svgz else Err ValueError) ->
    R = (let is_svgz := negb is_stream && str_eqb ext svgz in
         let key := if is_svgz then svg else ext in
         do p <- (if mem_str key VALID_SERIALIZERS then Ok (key, is_svgz) else Err ValueError); save_call m ms out kw (fst p) (snd p)).
  Proof. intros ->. cbv zeta. destruct (mem_str _ VALID_SERIALIZERS); reflexivity. Qed.

  Lemma bind_ret {A} (r : res A) : (do x <- r; Ok x) = r.
  Proof. now destruct r. Qed.

  Theorem src_save_is_model m ms (out : py_out) (kind : option (list Z)) (kw : py_kw) :
    (kind = None -> out <> POStream None) ->
    save m ms out kind kw
    = do p <- resolve kind (TieRouteSave.out_fname out) (TieRouteSave.out_named_stream out); save_call m ms out kw (fst p) (snd p).
  Proof.
    intros Hnamed. unfold save, SrcApiUri.src_save, resolve. cbv zeta.
    assert (Htail : forall ext is_stream,
      match ((do t'10 <- pyr_strkey_get (if negb (negb is_stream && pyr_str_eqb ext [115; 118; 103; 122]) then ext else [115; 118; 103])
                           SrcTables.VALID_SERIALIZERS; Ok (CNext t'10)) : res (ctl void (list Z))) with
      | Err KeyErr => Err ValueError
      | Err e' => Err e'
      | Ok (CRet r') => (match r' return _ with end)
      | Ok (CNext st') | Ok (CBrk st') =>
          if negb is_stream && pyr_str_eqb ext [115; 118; 103; 122]
          then (do (t'11, kw0) <- Ok (pya_kw_pop kw SrcApiUri.K_compresslevel (DInt 9));
                let f := pya_bin_new in
                do t'12 <- call_serializer st' m ms kw0;
                do f <- pya_bin_write ext_codec_encode f t'12; Ok (PWBytes (ext_gzip out t'11 f)))
          else (do t'13 <- call_serializer st' m ms kw; Ok t'13)
      end
      = (let is_svgz := negb is_stream && str_eqb ext svgz in
         let key := if is_svgz then svg else ext in
         do p <- (if mem_str key VALID_SERIALIZERS then Ok (key, is_svgz) else Err ValueError); save_call m ms out kw (fst p) (snd p))).
    { intros ext is_stream. apply save_tail. rewrite try_key. cbv zeta. rewrite TieRouteSave.pyr_str_eqb_model.
      change [115; 118; 103; 122] with svgz. change [115; 118; 103] with svg.
      destruct (negb is_stream && str_eqb ext svgz); cbn [negb]; destruct (mem_str _ VALID_SERIALIZERS); try reflexivity.
      unfold save_call. now rewrite bind_ret. }
    destruct kind as [k|].
    - cbn [bind]. rewrite TieRouteSave.pyr_lower_model. apply (Htail (lower k) false).
    - destruct out as [s|[n|]]; cbn [pyr_out_name pyr_out_str bind TieRouteSave.out_fname TieRouteSave.out_named_stream].
      + rewrite TieRouteSave.ext_of_src. apply (Htail (ext_of s) false).
      + rewrite TieRouteSave.ext_of_src. apply (Htail (ext_of n) true).
      + exfalso. now apply Hnamed.
  Qed.

  (* ---- save(.., kind=k, **kw) IS the translated writer k called with the same keyword arguments *)
  Lemma save_kind_key m ms out kw (k key : list Z) :
    lower k = key -> str_eqb key svgz = false -> mem_str key VALID_SERIALIZERS = true ->
    save m ms out (Some k) kw = call_serializer key m ms kw.
  Proof.
    intros Hk Hz Hm. rewrite src_save_is_model by discriminate. unfold resolve. rewrite Hk, Hz, andb_false_r, Hm. reflexivity.
  Qed.
  (* the same through the file name (any case of the extension) and through the name of a stream *)
  Lemma save_fname_key m ms kw (name key : list Z) :
    ext_of name = key -> str_eqb key svgz = false -> mem_str key VALID_SERIALIZERS = true ->
    save m ms (POStr name) None kw = call_serializer key m ms kw
    /\ save m ms (POStream (Some name)) None kw = call_serializer key m ms kw.
  Proof.
    intros Hk Hz Hm. rewrite !src_save_is_model by discriminate. unfold resolve, TieRouteSave.out_fname, TieRouteSave.out_named_stream.
    rewrite Hk, Hz, andb_false_r, Hm. cbn [negb andb]. rewrite Hm. split; reflexivity.
  Qed.

  Definition k_svg : list Z := [115; 118; 103].
  Definition k_png : list Z := [112; 110; 103].
  Definition k_eps : list Z := [101; 112; 115].
  Definition k_txt : list Z := [116; 120; 116].
  Definition k_pdf : list Z := [112; 100; 102].
  Definition k_ans : list Z := [97; 110; 115].
  Definition k_pbm : list Z := [112; 98; 109].
  Definition k_pam : list Z := [112; 97; 109].
  Definition k_ppm : list Z := [112; 112; 109].
  Definition k_tex : list Z := [116; 101; 120].
  Definition k_xbm : list Z := [120; 98; 109].
  Definition k_xpm : list Z := [120; 112; 109].

  (* which translated serializer stands behind each key of _VALID_SERIALIZERS (the dispatch is generated from the CURRENT table) *)
  Theorem call_serializer_table m ms kw :
    call_serializer k_svg m ms kw = SrcApiUri.src_write_svg_kw ext_q_repr ext_float_repr ext_re_sub m ms kw
    /\ call_serializer k_png m ms kw = SrcApiUri.src_write_png_kw ext__color_to_rgb_or_rgba ext_crc32 ext_compress ext_set_order m ms kw
    /\ call_serializer k_eps m ms kw = SrcApiUri.src_write_eps_kw ext_q_repr ext_time_strftime ext_textwrap_wrap m ms kw
    /\ call_serializer k_txt m ms kw = SrcApiUri.src_write_txt_kw m ms kw
    /\ call_serializer k_pdf m ms kw
       = SrcApiUri.src_write_pdf_kw ext_q_repr ext_float_repr ext_time_strftime ext_time_timezone ext_zlib_compress m ms kw
    /\ call_serializer k_ans m ms kw = SrcApiUri.src_write_terminal_kw m ms kw
    /\ call_serializer k_pbm m ms kw = SrcApiUri.src_write_pbm_kw m ms kw
    /\ call_serializer k_pam m ms kw = SrcApiUri.src_write_pam_kw ext__color_to_rgb_or_rgba m ms kw
    /\ call_serializer k_ppm m ms kw = SrcApiUri.src_write_ppm_kw ext__color_to_rgb m ms kw
    /\ call_serializer k_tex m ms kw = SrcApiUri.src_write_tex_kw ext_q_repr ext_time_strftime m ms kw
    /\ call_serializer k_xbm m ms kw = SrcApiUri.src_write_xbm_kw m ms kw
    /\ call_serializer k_xpm m ms kw = SrcApiUri.src_write_xpm_kw ext__color_to_rgb_xpm m ms kw.
  Proof. repeat split; reflexivity. Qed.

  (* save(matrix, matrix_size, out, kind='png', **kw) = write_png(matrix, matrix_size, out, **kw), and so on: kind in any case, any
     out (a nameless stream included), every keyword dictionary *)
  Theorem src_save_kind_svg m ms out kw (k : list Z) : lower k = k_svg ->
    save m ms out (Some k) kw = SrcApiUri.src_write_svg_kw ext_q_repr ext_float_repr ext_re_sub m ms kw.
  Proof. intros H. now rewrite (save_kind_key m ms out kw k k_svg H). Qed.
  Theorem src_save_kind_png m ms out kw (k : list Z) : lower k = k_png ->
    save m ms out (Some k) kw = SrcApiUri.src_write_png_kw ext__color_to_rgb_or_rgba ext_crc32 ext_compress ext_set_order m ms kw.
  Proof. intros H. now rewrite (save_kind_key m ms out kw k k_png H). Qed.
  Theorem src_save_kind_eps m ms out kw (k : list Z) : lower k = k_eps ->
    save m ms out (Some k) kw = SrcApiUri.src_write_eps_kw ext_q_repr ext_time_strftime ext_textwrap_wrap m ms kw.
  Proof. intros H. now rewrite (save_kind_key m ms out kw k k_eps H). Qed.
  Theorem src_save_kind_txt m ms out kw (k : list Z) : lower k = k_txt -> save m ms out (Some k) kw = SrcApiUri.src_write_txt_kw m ms kw.
  Proof. intros H. now rewrite (save_kind_key m ms out kw k k_txt H). Qed.
  Theorem src_save_kind_pdf m ms out kw (k : list Z) : lower k = k_pdf ->
    save m ms out (Some k) kw
    = SrcApiUri.src_write_pdf_kw ext_q_repr ext_float_repr ext_time_strftime ext_time_timezone ext_zlib_compress m ms kw.
  Proof. intros H. now rewrite (save_kind_key m ms out kw k k_pdf H). Qed.
  Theorem src_save_kind_ans m ms out kw (k : list Z) : lower k = k_ans -> save m ms out (Some k) kw = SrcApiUri.src_write_terminal_kw m ms kw.
  Proof. intros H. now rewrite (save_kind_key m ms out kw k k_ans H). Qed.
  Theorem src_save_kind_pbm m ms out kw (k : list Z) : lower k = k_pbm -> save m ms out (Some k) kw = SrcApiUri.src_write_pbm_kw m ms kw.
  Proof. intros H. now rewrite (save_kind_key m ms out kw k k_pbm H). Qed.
  Theorem src_save_kind_pam m ms out kw (k : list Z) : lower k = k_pam ->
    save m ms out (Some k) kw = SrcApiUri.src_write_pam_kw ext__color_to_rgb_or_rgba m ms kw.
  Proof. intros H. now rewrite (save_kind_key m ms out kw k k_pam H). Qed.
  Theorem src_save_kind_ppm m ms out kw (k : list Z) : lower k = k_ppm ->
    save m ms out (Some k) kw = SrcApiUri.src_write_ppm_kw ext__color_to_rgb m ms kw.
  Proof. intros H. now rewrite (save_kind_key m ms out kw k k_ppm H). Qed.
  Theorem src_save_kind_tex m ms out kw (k : list Z) : lower k = k_tex ->
    save m ms out (Some k) kw = SrcApiUri.src_write_tex_kw ext_q_repr ext_time_strftime m ms kw.
  Proof. intros H. now rewrite (save_kind_key m ms out kw k k_tex H). Qed.
  Theorem src_save_kind_xbm m ms out kw (k : list Z) : lower k = k_xbm -> save m ms out (Some k) kw = SrcApiUri.src_write_xbm_kw m ms kw.
  Proof. intros H. now rewrite (save_kind_key m ms out kw k k_xbm H). Qed.
  Theorem src_save_kind_xpm m ms out kw (k : list Z) : lower k = k_xpm ->
    save m ms out (Some k) kw = SrcApiUri.src_write_xpm_kw ext__color_to_rgb_xpm m ms kw.
  Proof. intros H. now rewrite (save_kind_key m ms out kw k k_xpm H). Qed.

  (* the gzip route: kind='svgz' (any case), or a file NAME ending in .svgz: write_svg with `compresslevel` taken out of the
     keyword arguments, its bytes (through the codec of the text stream) handed to gzip with that level *)
  Theorem src_save_svgz m ms out kw (k : list Z) : lower k = svgz ->
    save m ms out (Some k) kw
    = do w <- SrcApiUri.src_write_svg_kw ext_q_repr ext_float_repr ext_re_sub m ms (pya_kw_rest [SrcApiUri.K_compresslevel] kw);
      do f <- pya_bin_write ext_codec_encode [] w;
      Ok (PWBytes (ext_gzip out (pya_kw_arg SrcApiUri.K_compresslevel (DInt 9) kw) f)).
  Proof. intros H. rewrite src_save_is_model by discriminate. unfold resolve. rewrite H. reflexivity. Qed.
  Theorem src_save_svgz_name m ms kw (name : list Z) : ext_of name = svgz ->
    save m ms (POStr name) None kw
    = do w <- SrcApiUri.src_write_svg_kw ext_q_repr ext_float_repr ext_re_sub m ms (pya_kw_rest [SrcApiUri.K_compresslevel] kw);
      do f <- pya_bin_write ext_codec_encode [] w;
      Ok (PWBytes (ext_gzip (POStr name) (pya_kw_arg SrcApiUri.K_compresslevel (DInt 9) kw) f)).
  Proof.
    intros H. rewrite src_save_is_model by discriminate. unfold resolve, TieRouteSave.out_fname, TieRouteSave.out_named_stream.
    rewrite H. reflexivity.
  Qed.
  (* an unknown kind / extension: ValueError, no serializer is called *)
  Theorem src_save_unknown m ms out kw (k : list Z) :
    str_eqb (lower k) svgz = false -> mem_str (lower k) VALID_SERIALIZERS = false -> save m ms out (Some k) kw = Err ValueError.
  Proof. intros Hz Hm. rewrite src_save_is_model by discriminate. unfold resolve. rewrite Hz, andb_false_r, Hm. reflexivity. Qed.
End Save.

(* normalisation of the call protocol on a dictionary  <closed-key items> ++ pya_kw_rest <closed names> d:  everything is pushed
   down to the atoms  kw_has1 k d,  pya_kw_arg k dflt d,  pya_kw_rest names d  (the item lists appear unfolded, as pyr_assoc /
   filter over closed keys, and are evaluated) *)
Lemma kw_has1_app' k (l x : py_kw) :
  kw_has1 k (l ++ x) = (match pyr_assoc k l with Some _ => true | None => false end) || kw_has1 k x.
Proof. apply kw_has1_app. Qed.
Lemma kw_arg_app' k dflt (l x : py_kw) :
  pya_kw_arg k dflt (l ++ x) = match pyr_assoc k l with Some v => v | None => pya_kw_arg k dflt x end.
Proof. unfold pya_kw_arg. rewrite kw_find_app. unfold pya_kw_find. now destruct (pyr_assoc k l). Qed.
Lemma kw_arg_rest' k dflt names (d : py_kw) :
  pya_kw_arg k dflt (pya_kw_rest names d) = if pyr_str_in k names then dflt else pya_kw_arg k dflt d.
Proof. unfold pya_kw_arg. rewrite kw_find_rest. now destruct (pyr_str_in k names). Qed.
Lemma kw_rest_app' names (l x : py_kw) :
  pya_kw_rest names (l ++ x) = filter (fun kv => negb (pyr_str_in (fst kv) names)) l ++ pya_kw_rest names x.
Proof. apply kw_rest_app. Qed.
Lemma kw_has1_lit k (l : py_kw) : kw_has1 k l = match pyr_assoc k l with Some _ => true | None => false end.
Proof. reflexivity. Qed.

Ltac kw_keys :=
  cbn [existsb pyr_assoc pyr_str_in pyr_str_eqb filter fst snd negb orb andb app Z.eqb Pos.eqb
       SrcApiUri.K_matrix SrcApiUri.K_matrix_size SrcApiUri.K_out SrcApiUri.K_dark SrcApiUri.K_light SrcApiUri.K_finder_dark
       SrcApiUri.K_finder_light SrcApiUri.K_data_dark SrcApiUri.K_data_light SrcApiUri.K_version_dark SrcApiUri.K_version_light
       SrcApiUri.K_format_dark SrcApiUri.K_format_light SrcApiUri.K_alignment_dark SrcApiUri.K_alignment_light
       SrcApiUri.K_timing_dark SrcApiUri.K_timing_light SrcApiUri.K_separator SrcApiUri.K_dark_module SrcApiUri.K_quiet_zone
       SrcApiUri.K_colormap SrcApiUri.K_scale SrcApiUri.K_border SrcApiUri.K_xmldecl SrcApiUri.K_svgns SrcApiUri.K_title
       SrcApiUri.K_desc SrcApiUri.K_svgid SrcApiUri.K_svgclass SrcApiUri.K_lineclass SrcApiUri.K_omitsize SrcApiUri.K_unit
       SrcApiUri.K_encoding SrcApiUri.K_svgversion SrcApiUri.K_nl SrcApiUri.K_draw_transparent SrcApiUri.K_compresslevel
       SrcApiUri.K_dpi SrcApiUri.K_plain SrcApiUri.K_name SrcApiUri.K_url SrcApiUri.K_encode_minimal SrcApiUri.K_omit_charset
       SrcApiUri.K_kind].
Lemma kw_arg_app_rest k dflt names (l d : py_kw) :
  pya_kw_arg k dflt (l ++ pya_kw_rest names d)
  = match pyr_assoc k l with Some v => v | None => if pyr_str_in k names then dflt else pya_kw_arg k dflt d end.
Proof. now rewrite kw_arg_app', kw_arg_rest'. Qed.
Lemma kw_has1_app_rest k names (l d : py_kw) :
  kw_has1 k (l ++ pya_kw_rest names d)
  = (match pyr_assoc k l with Some _ => true | None => false end) || negb (pyr_str_in k names) && kw_has1 k d.
Proof. now rewrite kw_has1_app', kw_has1_rest. Qed.
Ltac kw_push :=
  rewrite ?kw_has_find, ?kw_rest_app', ?kw_rest_rest, ?kw_has1_app_rest, ?kw_arg_app_rest, ?kw_has1_app', ?kw_has1_rest, ?kw_arg_app',
          ?kw_arg_rest'.
(* the closed-key subterms, evaluated by the VM one at a time (the values inside the items are variables) *)
Ltac kw_vm :=
  repeat match goal with
         | |- context [pyr_assoc ?k ?l] => let v := eval vm_compute in (pyr_assoc k l) in change (pyr_assoc k l) with v
         | |- context [pyr_str_in ?k ?l] => let v := eval vm_compute in (pyr_str_in k l) in change (pyr_str_in k l) with v
         | |- context [@filter (list Z * py_dyn) ?f ?l] =>
             let v := eval vm_compute in (@filter (list Z * py_dyn) f l) in change (@filter (list Z * py_dyn) f l) with v
         end.
Ltac kw_norm :=
  unfold pya_kw_check_pos, pya_kw_check_unexpected, pya_kw_merge; rewrite ?kw_has_find; cbn [existsb]; kw_push; kw_vm;
  cbn [app negb orb andb].

(* the values of the items of a dictionary  [(k, pya_kw_arg k dflt d); ..]  are named while the protocol is normalised (smaller terms) *)
Ltac kw_name_items d :=
  repeat match goal with
         | |- context [(?k, pya_kw_arg ?k ?dflt d)] => let v := fresh "v" in set (v := pya_kw_arg k dflt d)
         end.
Ltac kw_unname_items d := repeat match goal with v := pya_kw_arg _ _ d |- _ => subst v end.

(* two occurrences of pya_kw_rest with name lists that have the same members *)
Ltac kw_rest_same d :=
  repeat match goal with
         | |- context [pya_kw_rest ?A d] =>
             match goal with
             | |- context [pya_kw_rest ?B d] => tryif constr_eq A B then fail else rewrite (kw_rest_ext A B d) by reflexivity
             end
         end.
Lemma kw_has_split names (d : py_kw) : pya_kw_has names d = false -> forall k, pyr_str_in k names = true -> kw_has1 k d = false.
Proof.
  rewrite kw_has_find. intros H k Hk. apply str_in_In in Hk.
  destruct (kw_has1 k d) eqn:E; [|reflexivity]. rewrite <- H. symmetry. apply existsb_exists. now exists k.
Qed.

Section PngUri.
  Variable ext__color_to_rgb_or_rgba : option py_color -> bool -> res (list Z).
  Variable ext_crc32 : list Z -> Z.
  Variable ext_compress : list Z -> Z -> list Z.
  Variable ext_set_order : list (list Z) -> list (list Z).
  Variable ext_codec_encode : list Z -> list Z -> res (list Z).

  Definition write_png_kw := SrcApiUri.src_write_png_kw ext__color_to_rgb_or_rgba ext_crc32 ext_compress ext_set_order.
  Definition as_png_data_uri_kw :=
    SrcApiUri.src_as_png_data_uri_kw ext__color_to_rgb_or_rgba ext_crc32 ext_compress ext_set_order ext_codec_encode.

  (* write_png called with scale / border / compresslevel spelled out (as as_png_data_uri does) is write_png called with the
     dictionary itself: the defaults as_png_data_uri fills in are write_png's own *)
  Lemma write_png_kw_forwarded m ms (d : py_kw) :
    pya_kw_has [SrcApiUri.K_matrix; SrcApiUri.K_matrix_size] d = false ->
    write_png_kw m ms
      ([(SrcApiUri.K_scale, pya_kw_arg SrcApiUri.K_scale (DInt 1) d); (SrcApiUri.K_border, pya_kw_arg SrcApiUri.K_border DNone d);
        (SrcApiUri.K_compresslevel, pya_kw_arg SrcApiUri.K_compresslevel (DInt 9) d)]
       ++ pya_kw_rest [SrcApiUri.K_matrix; SrcApiUri.K_matrix_size; SrcApiUri.K_scale; SrcApiUri.K_border; SrcApiUri.K_compresslevel] d)
    = write_png_kw m ms d.
  Proof.
    intros Hpos. unfold write_png_kw, SrcApiUri.src_write_png_kw. cbv zeta. kw_norm.
    rewrite (kw_has_split _ _ Hpos SrcApiUri.K_matrix), (kw_has_split _ _ Hpos SrcApiUri.K_matrix_size) by reflexivity.
    cbn [orb]. kw_rest_same d. reflexivity.
  Qed.

  Definition png_uri_prefix : list Z := [100; 97; 116; 97; 58; 105; 109; 97; 103; 101; 47; 112; 110; 103; 59; 98; 97; 115; 101; 54; 52; 44].

  (* ROUTE EQUALITY, for every keyword dictionary d (any keys, any values):
     as_png_data_uri(matrix, matrix_size, **d) is "data:image/png;base64," + base64 of what write_png(matrix, matrix_size, <binary
     stream>, **d) writes -- the SAME d; both raise the same exception otherwise *)
  Theorem src_as_png_data_uri_is_write_png m ms (d : py_kw) :
    as_png_data_uri_kw m ms d
    = do w <- write_png_kw m ms d;
      do b <- pya_bin_write ext_codec_encode [] w;
      do t <- pya_decode_ascii (pya_b64encode b);
      Ok (png_uri_prefix ++ t).
  Proof.
    unfold as_png_data_uri_kw, SrcApiUri.src_as_png_data_uri_kw, SrcApiUri.src_as_png_data_uri. cbv zeta.
    unfold pya_kw_check_pos at 1.
    destruct (pya_kw_has [SrcApiUri.K_matrix; SrcApiUri.K_matrix_size] d) eqn:Hpos.
    - (* a positional parameter given again by keyword: TypeError on both routes *)
      cbn [bind]. unfold write_png_kw, SrcApiUri.src_write_png_kw. unfold pya_kw_check_pos at 1.
      replace (pya_kw_has [SrcApiUri.K_matrix; SrcApiUri.K_matrix_size; SrcApiUri.K_out] d) with true; [reflexivity|].
      symmetry. rewrite kw_has_find in *. cbn [existsb] in *. rewrite orb_false_r in Hpos.
      rewrite orb_assoc, Hpos. reflexivity.
    - cbn [bind]. unfold pya_kw_merge. rewrite kw_has_find. cbn [map fst existsb]. rewrite !kw_has1_rest. kw_keys.
      cbn [bind]. rewrite <- (write_png_kw_forwarded m ms d Hpos). reflexivity.
  Qed.

  (* typed corollary: with every keyword argument of the typed domain given, the data URI is the base64 text of the bytes the
     translated write_png (as the user calls it: @colorful wrapper, _make_colormap, the PNG encoder of 11.16) writes *)
  Corollary src_as_png_data_uri_typed m ms
      dark light finder_dark finder_light data_dark data_light version_dark version_light format_dark format_light
        alignment_dark alignment_light timing_dark timing_light separator dark_module quiet_zone scale border compresslevel
        dpi :
    as_png_data_uri_kw m ms
      (SrcApiUri.src_write_png_kwargs dark light finder_dark finder_light data_dark data_light version_dark version_light
        format_dark format_light alignment_dark alignment_light timing_dark timing_light separator dark_module quiet_zone
        scale border compresslevel dpi)
    = do b <- SrcPng.src_write_png_colorful ext__color_to_rgb_or_rgba ext_crc32 ext_compress ext_set_order m ms
                dark light finder_dark finder_light data_dark data_light version_dark version_light format_dark
                  format_light alignment_dark alignment_light timing_dark timing_light separator dark_module quiet_zone
                  scale border compresslevel dpi;
      do t <- pya_decode_ascii (pya_b64encode b);
      Ok (png_uri_prefix ++ t).
  Proof.
    rewrite src_as_png_data_uri_is_write_png. unfold write_png_kw. rewrite src_write_png_kw_typed.
    match goal with |- bind (bind ?X _) _ = _ => destruct X; reflexivity end.
  Qed.
  (* .. and for bytes (every item in range(256)) the text is plain base64, which decodes to exactly these bytes *)
  Corollary src_as_png_data_uri_bytes m ms (d : py_kw) (b : list Z) :
    write_png_kw m ms d = Ok (PWBytes b) -> pya_is_bytes b ->
    as_png_data_uri_kw m ms d = Ok (png_uri_prefix ++ pya_b64encode b) /\ pya_b64decode (pya_b64encode b) = b.
  Proof.
    intros Hw Hb. rewrite src_as_png_data_uri_is_write_png, Hw. cbn [bind pya_bin_write app].
    rewrite (pya_b64_decode_ascii b Hb). cbn [bind]. split; [reflexivity|apply pya_b64_roundtrip, Hb].
  Qed.
End PngUri.

Section SvgUri.
  Variable ext_q_repr : Q -> list Z.
  Variable ext_float_repr : py_float -> list Z.
  Variable ext_re_sub : list Z -> list Z -> list Z -> list Z.
  Variable ext_codec_encode : list Z -> list Z -> res (list Z).
  Variable ext_quote : list Z -> list Z -> list Z.
  Variable ext_replace_quotes : list Z -> list Z.

  Definition write_svg_kw := SrcApiUri.src_write_svg_kw ext_q_repr ext_float_repr ext_re_sub.
  Definition as_svg_data_uri_kw :=
    SrcApiUri.src_as_svg_data_uri_kw ext_q_repr ext_float_repr ext_re_sub ext_codec_encode ext_quote ext_replace_quotes.

  (* the keyword arguments as_svg_data_uri passes on to write_svg: its own two options removed; xmldecl and nl False, unit '' unless
     given (the three defaults of as_svg_data_uri that are not write_svg's: True, True, None) *)
  Definition svg_uri_kw (d : py_kw) : py_kw :=
    [(SrcApiUri.K_xmldecl, pya_kw_arg SrcApiUri.K_xmldecl (DBool false) d); (SrcApiUri.K_nl, pya_kw_arg SrcApiUri.K_nl (DBool false) d);
     (SrcApiUri.K_unit, pya_kw_arg SrcApiUri.K_unit (DStr []) d)]
    ++ pya_kw_rest [SrcApiUri.K_xmldecl; SrcApiUri.K_nl; SrcApiUri.K_unit; SrcApiUri.K_encode_minimal; SrcApiUri.K_omit_charset] d.

  Lemma write_svg_kw_forwarded m ms (d : py_kw) :
    pya_kw_has [SrcApiUri.K_matrix; SrcApiUri.K_matrix_size] d = false ->
    write_svg_kw m ms
      ([(SrcApiUri.K_scale, pya_kw_arg SrcApiUri.K_scale (DInt 1) d); (SrcApiUri.K_border, pya_kw_arg SrcApiUri.K_border DNone d);
        (SrcApiUri.K_xmldecl, pya_kw_arg SrcApiUri.K_xmldecl (DBool false) d);
        (SrcApiUri.K_svgns, pya_kw_arg SrcApiUri.K_svgns (DBool true) d); (SrcApiUri.K_title, pya_kw_arg SrcApiUri.K_title DNone d);
        (SrcApiUri.K_desc, pya_kw_arg SrcApiUri.K_desc DNone d);
        (SrcApiUri.K_svgclass, pya_kw_arg SrcApiUri.K_svgclass (DStr [115; 101; 103; 110; 111]) d);
        (SrcApiUri.K_lineclass, pya_kw_arg SrcApiUri.K_lineclass (DStr [113; 114; 108; 105; 110; 101]) d);
        (SrcApiUri.K_omitsize, pya_kw_arg SrcApiUri.K_omitsize (DBool false) d);
        (SrcApiUri.K_encoding, pya_kw_arg SrcApiUri.K_encoding (DStr [117; 116; 102; 45; 56]) d);
        (SrcApiUri.K_svgid, pya_kw_arg SrcApiUri.K_svgid DNone d); (SrcApiUri.K_unit, pya_kw_arg SrcApiUri.K_unit (DStr []) d);
        (SrcApiUri.K_svgversion, pya_kw_arg SrcApiUri.K_svgversion DNone d); (SrcApiUri.K_nl, pya_kw_arg SrcApiUri.K_nl (DBool false) d)]
       ++ pya_kw_rest [SrcApiUri.K_matrix; SrcApiUri.K_matrix_size; SrcApiUri.K_scale; SrcApiUri.K_border; SrcApiUri.K_xmldecl;
                       SrcApiUri.K_svgns; SrcApiUri.K_title; SrcApiUri.K_desc; SrcApiUri.K_svgid; SrcApiUri.K_svgclass;
                       SrcApiUri.K_lineclass; SrcApiUri.K_omitsize; SrcApiUri.K_unit; SrcApiUri.K_encoding; SrcApiUri.K_svgversion;
                       SrcApiUri.K_nl; SrcApiUri.K_encode_minimal; SrcApiUri.K_omit_charset] d)
    = write_svg_kw m ms (svg_uri_kw d).
  Proof.
    intros Hpos. unfold svg_uri_kw. kw_name_items d. unfold write_svg_kw, SrcApiUri.src_write_svg_kw. cbv zeta. kw_norm.
    kw_unname_items d.
    rewrite (kw_has_split _ _ Hpos SrcApiUri.K_matrix), (kw_has_split _ _ Hpos SrcApiUri.K_matrix_size) by reflexivity.
    cbn [orb]. kw_rest_same d. Timeout 60 reflexivity.
  Qed.

  Definition svg_uri_prefix : list Z := [100; 97; 116; 97; 58; 105; 109; 97; 103; 101; 47; 115; 118; 103; 43; 120; 109; 108].
  Definition svg_uri_charset : list Z := [59; 99; 104; 97; 114; 115; 101; 116; 61].        (* ";charset=" *)
  Definition svg_uri_safe_minimal : list Z := [32; 58; 47; 61; 39].                        (* b" :/='" *)
  Definition utf_8 : list Z := [117; 116; 102; 45; 56].

  (* what as_svg_data_uri makes of the bytes write_svg wrote *)
  Definition svg_uri_of (encode_minimal omit_charset : bool) (charset : res (list Z)) (b : list Z) : res (list Z) :=
    do cs <- (if negb omit_charset then do e <- charset; Ok (svg_uri_charset ++ e) else Ok []);
    Ok ((svg_uri_prefix ++ (cs ++ [44]))
        ++ (if negb encode_minimal then ext_quote (ext_replace_quotes b) [] else ext_quote (ext_replace_quotes b) svg_uri_safe_minimal)).

  (* ROUTE EQUALITY, for every keyword dictionary d: as_svg_data_uri(matrix, matrix_size, **d) percent-encodes what
     write_svg(matrix, matrix_size, <binary stream>, **svg_uri_kw d) writes (in the order of the Python evaluation: the truth value of
     encode_minimal first, omit_charset and `";charset=" + encoding` after the document is written) *)
  Theorem src_as_svg_data_uri_is_write_svg m ms (d : py_kw) :
    as_svg_data_uri_kw m ms d
    = do _ <- pya_kw_check_pos [SrcApiUri.K_matrix; SrcApiUri.K_matrix_size] d;
      do em <- pya_truthy (pya_kw_arg SrcApiUri.K_encode_minimal (DBool false) d);
      do w <- write_svg_kw m ms (svg_uri_kw d);
      do b <- pya_bin_write ext_codec_encode [] w;
      do oc <- pya_truthy (pya_kw_arg SrcApiUri.K_omit_charset (DBool false) d);
      svg_uri_of em oc (pya_str_add [] (pya_kw_arg SrcApiUri.K_encoding (DStr utf_8) d)) b.
  Proof.
    unfold as_svg_data_uri_kw, SrcApiUri.src_as_svg_data_uri_kw, SrcApiUri.src_as_svg_data_uri. cbv zeta.
    unfold pya_kw_check_pos at 1 2.
    destruct (pya_kw_has [SrcApiUri.K_matrix; SrcApiUri.K_matrix_size] d) eqn:Hpos; [reflexivity|]. cbn [bind].
    destruct (pya_truthy (pya_kw_arg SrcApiUri.K_encode_minimal (DBool false) d)) as [em|e]; [|reflexivity]. cbn [bind].
    unfold pya_kw_merge. Timeout 30 rewrite kw_has_find. Timeout 30 cbn [map fst existsb]. Timeout 30 rewrite !kw_has1_rest.
    Timeout 30 kw_vm. Timeout 30 cbn [negb andb orb bind].
    Timeout 30 rewrite <- (write_svg_kw_forwarded m ms d Hpos). unfold write_svg_kw.
    match goal with |- bind ?X _ = bind ?Y _ => change Y with X; destruct X as [w|e]; [|reflexivity] end. cbn [bind].
    destruct (pya_bin_write ext_codec_encode pya_bin_new w) as [b|e] eqn:Eb; unfold pya_bin_new in Eb; rewrite Eb; [|reflexivity].
    cbn [bind].
    destruct (pya_truthy (pya_kw_arg SrcApiUri.K_omit_charset (DBool false) d)) as [oc|e]; [|reflexivity]. cbn [bind].
    unfold svg_uri_of, svg_uri_charset, svg_uri_prefix, svg_uri_safe_minimal, utf_8.
    destruct oc; cbn [negb bind]; [now destruct em|].
    destruct (pya_str_add [] (pya_kw_arg SrcApiUri.K_encoding (DStr [117; 116; 102; 45; 56]) d)); cbn [bind]; [now destruct em|reflexivity].
  Qed.

  (* typed corollary: every keyword argument of the typed domain given, encode_minimal / omit_charset bools *)
  Corollary src_as_svg_data_uri_typed m ms
      dark light finder_dark finder_light data_dark data_light version_dark version_light format_dark format_light
        alignment_dark alignment_light timing_dark timing_light separator dark_module quiet_zone scale border xmldecl svgns
        title desc svgid svgclass lineclass omitsize unit_py encoding svgversion nl draw_transparent (em oc : bool) :
    as_svg_data_uri_kw m ms
      (SrcApiUri.src_write_svg_kwargs dark light finder_dark finder_light data_dark data_light version_dark version_light
        format_dark format_light alignment_dark alignment_light timing_dark timing_light separator dark_module quiet_zone
        scale border xmldecl svgns title desc svgid svgclass lineclass omitsize unit_py encoding svgversion nl
        draw_transparent
       ++ [(SrcApiUri.K_encode_minimal, DBool em); (SrcApiUri.K_omit_charset, DBool oc)])
    = do r <- SrcSvg.src_write_svg_colorful ext_q_repr ext_float_repr ext_re_sub m ms
                dark light finder_dark finder_light data_dark data_light version_dark version_light format_dark
                  format_light alignment_dark alignment_light timing_dark timing_light separator dark_module quiet_zone
                  scale border xmldecl svgns title desc svgid svgclass lineclass omitsize unit_py encoding svgversion nl
                  draw_transparent;
      do b <- pya_bin_write ext_codec_encode [] (PWText (fst r) (snd r));
      svg_uri_of em oc (match encoding with Some e => Ok e | None => Err TypeErr end) b.
  Proof.
    rewrite src_as_svg_data_uri_is_write_svg.
    unfold svg_uri_kw, SrcApiUri.src_write_svg_kwargs, write_svg_kw, SrcApiUri.src_write_svg_kw. cbv zeta. cbn [app].
    kw_eval. kw_roundtrip. kw_eval. cbn [pya_truthy bind].
    match goal with |- bind (bind ?X _) _ = _ => destruct X as [r|e]; [|reflexivity] end.
    cbn [bind]. destruct (pya_bin_write ext_codec_encode [] (PWText (fst r) (snd r))); [|reflexivity]. cbn [bind pya_truthy].
    destruct encoding; reflexivity.
  Qed.
End SvgUri.

(* ------------------------------------------------------------------ bridge to Model/Svg.v as_svg_data_uri *)
From Segno Require Tie.TieColor Tie.TieSvg.
Section SvgUriModel.
  Variable extq : Q -> list Z.
  Variable extf : py_float -> list Z.
  Variable extre : list Z -> list Z -> list Z -> list Z.
  Variable codec : list Z -> list Z -> res (list Z).
  Variable quote : list Z -> list Z -> list Z.
  Variable rq : list Z -> list Z.
  Hypothesis Hf : TieColor.float_repr_ok extf.
  Hypothesis Hre : TieSvg.re_ok extre.
  (* what is assumed about the three pieces of library / C code as_svg_data_uri adds: the utf-8 codec, urllib.parse.quote on bytes,
     the compiled regular expression of _replace_quotes *)
  Hypothesis Hcodec : forall t, codec utf_8 t = Svg.utf8 t.
  Hypothesis Hquote : forall b safe, quote b safe = Svg.url_quote safe b.
  Hypothesis Hrq : forall b, rq b = Svg.replace_quotes b.

  Theorem src_as_svg_data_uri_is_model
      (matrix am0 am : list (list Z)) (size : Z) (c : Color.color_opts) (o : Svg.svg_opts) (sver : option py_vnum) (em oc : bool) :
    (TieSvg.is_multicolor size c = true ->
     SrcFnPat.src_make_matrix size size false false = Ok am0 /\ SrcFnPat.src_add_alignment_patterns am0 size size = Ok am) ->
    TieSvg.Rver extq sver (Svg.so_svgversion o) ->
    TieSvg.scale_repr_ok extq (Svg.so_scale o) (size + 2 * Iter.get_border size size (Svg.so_border o)) ->
    TieSvg.y_repr_ok extq matrix am size (Color.make_colormap size c) o ->
    TieSvg.enc_of o = utf_8 ->
    as_svg_data_uri_kw extq extf extre codec quote rq matrix [size; size]
      (SrcApiUri.src_write_svg_kwargs (TieColor.to_oc (Color.o_dark c)) (TieColor.to_oc (Color.o_light c))
         (TieColor.to_ooc (Color.o_finder_dark c)) (TieColor.to_ooc (Color.o_finder_light c))
         (TieColor.to_ooc (Color.o_data_dark c)) (TieColor.to_ooc (Color.o_data_light c))
         (TieColor.to_ooc (Color.o_version_dark c)) (TieColor.to_ooc (Color.o_version_light c))
         (TieColor.to_ooc (Color.o_format_dark c)) (TieColor.to_ooc (Color.o_format_light c))
         (TieColor.to_ooc (Color.o_alignment_dark c)) (TieColor.to_ooc (Color.o_alignment_light c))
         (TieColor.to_ooc (Color.o_timing_dark c)) (TieColor.to_ooc (Color.o_timing_light c))
         (TieColor.to_ooc (Color.o_separator c)) (TieColor.to_ooc (Color.o_dark_module c)) (TieColor.to_ooc (Color.o_quiet_zone c))
         (TieSvg.to_vs (Svg.so_scale o)) (Svg.so_border o) (Svg.so_xmldecl o) (Svg.so_svgns o) (Svg.so_title o) (Svg.so_desc o)
         (Svg.so_svgid o) (Svg.so_svgclass o) (Svg.so_lineclass o) (Svg.so_omitsize o) (Svg.so_unit o) (Svg.so_encoding o) sver
         (Svg.so_nl o) (Svg.so_draw_transparent o)
       ++ [(SrcApiUri.K_encode_minimal, DBool em); (SrcApiUri.K_omit_charset, DBool oc)])
    = Svg.as_svg_data_uri matrix am size c o em oc.
  Proof.
    intros Ham Hver Hsc Hys Henc. rewrite src_as_svg_data_uri_typed.
    rewrite (TieSvg.src_write_svg_is_model extq extf extre Hf Hre matrix am0 am size c o sver Ham Hver Hsc Hys).
    unfold Svg.as_svg_data_uri, Svg.write_svg_utf8.
    destruct (Svg.write_svg matrix am size c o) as [t|e]; [|reflexivity]. cbn [bind fst snd pya_bin_write].
    rewrite Henc, Hcodec. destruct (Svg.utf8 t) as [b|e]; [|reflexivity]. cbn [bind app].
    unfold svg_uri_of. rewrite !Hquote, Hrq.
    change (Svg.lit "data:image/svg+xml") with svg_uri_prefix. change (Svg.lit ";charset=") with svg_uri_charset.
    change (Svg.lit " :/='") with svg_uri_safe_minimal.
    destruct (Svg.so_encoding o) as [enc|], oc, em; cbn [negb bind app]; try reflexivity; rewrite <- ?app_assoc; reflexivity.
  Qed.
End SvgUriModel.

Print Assumptions src_write_png_kw_typed.
Print Assumptions src_write_svg_kw_defaults.
Print Assumptions src_write_png_kw_defaults.
Print Assumptions src_write_svg_kw_typed.
Print Assumptions src_save_is_model.
Print Assumptions call_serializer_table.
Print Assumptions src_save_kind_png.
Print Assumptions src_save_svgz.
Print Assumptions src_as_png_data_uri_is_write_png.
Print Assumptions src_as_png_data_uri_typed.
Print Assumptions src_as_png_data_uri_bytes.
Print Assumptions src_as_svg_data_uri_is_write_svg.
Print Assumptions src_as_svg_data_uri_typed.
Print Assumptions src_as_svg_data_uri_is_model.
