(* src_encode_is_model (Tie/TieEncode.v) without its hypothesis [Hplaced]: that after add_codewords of the run every
   module of the matrix has a value is PROVED (Lemmas/PlacedLemmas.placed_full: the final message has exactly as many
   bits as the symbol has data modules -- stream length + Table 9 arithmetic for arbitrary data, and one kernel
   computation over the 44 rows of the ECC table for the geometry).  The remaining guards are those of TieEncode.v:
   a version -3 .. 40, a requested mask in range, and the two untranslated callees as parameters.
   Re-checked by coqc on every run.  See DESIGN.md 11.7.3. *)
From Coq Require Import String.
From Coq Require Import ZArith List Bool Lia.
From Segno Require Import Base.PyLite Base.PySem Ref.IsoData Model.Bits Model.Segment Model.Version
     Model.Stream Model.Matrix Model.Encode.
From Segno Require Lemmas.PlacedLemmas.
From Segno Require Import Tie.TieBase Tie.TieMat Tie.TieMask Tie.TieEncode.
From SegnoSrc Require Import SrcEncode.
Import ListNotations.
Open Scope Z_scope.

(* Hplaced, exactly as TieEncode.src_encode_is_model states it (it quantifies over the intermediates of the run) *)
Theorem hplaced_holds :
  forall (segs : list segment) (version : Z) (eci : bool) (sa : option sa_info),
  forall error0 buff final m1 m2 m3,
    data_stream segs error0 version eci sa = Ok buff ->
    Stream.make_final_message version error0 buff = Ok final ->
    Matrix.add_finder_patterns (Encode.calc_matrix_size version) (Matrix.make_matrix (Encode.calc_matrix_size version) true true) = Ok m1 ->
    Matrix.add_alignment_patterns (Encode.calc_matrix_size version) m1 = Ok m2 ->
    Matrix.add_codewords (Encode.calc_matrix_size version) version m2 final = Ok m3 ->
    full (Encode.calc_matrix_size version) m3.
Proof.
  intros segs version eci sa error0 buff final m1 m2 m3 Hbuff Hfinal Hm1 Hm2 Hm3.
  destruct (PlacedLemmas.placed_full segs error0 version eci sa buff final m1 m2 m3 Hbuff Hfinal Hm1 Hm2 Hm3)
    as (_ & _ & Hfull).
  unfold full. exact Hfull.
Qed.
Print Assumptions hplaced_holds.

Theorem src_encode_is_model_full :
  forall (ext_eci : option String.string -> res Z) (ext_eval : list (list Z) -> Z -> Z -> res Z)
         (segs : list segment) (error : option Z) (version : Z) (mask : option Z) (eci boost : bool) (sa : option sa_info),
  -3 <= version <= 40 ->
  (forall s, In s segs -> ext_eci (option_map e_name (s_enc s)) = eci_number (s_enc s)) ->
  (forall size mk, full size mk -> ext_eval (to_rows size mk) size size = Ok (Matrix.evaluate_mask size (rows_of size mk))) ->
  match mask with Some k => 0 <= k < (if version <? 1 then 4 else 8) | None => True end ->
  src__encode ext_eci ext_eval (to_py_segs segs) error version mask eci boost (option_map sa_list sa)
  = do r <- encode_core_mat segs error version mask eci boost sa;
    let '(m6, error', mask') := r in
    Ok (to_rows (Encode.calc_matrix_size version) m6, version, error', mask', to_py_segs segs).
Proof.
  intros ext_eci ext_eval segs error version mask eci boost sa Hv Heci Heval Hmask.
  apply src_encode_is_model; try assumption.
  apply hplaced_holds.
Qed.
Print Assumptions src_encode_is_model_full.
