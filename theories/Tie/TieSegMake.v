(* Bridge theorems: data_to_bytes (for bytes content) and make_segment of segno/encoder.py, translated statement by statement
   from the CURRENT source (SegnoSrc.SrcSegMake, written by gen/translate_seg.py), equal the hand-written model
   (Model/Segment.v) for byte strings of any length, every requested mode (None, a mode constant, any other int) and every
   encoding name -- including the error cases (ValueError for content that the requested mode cannot represent, for an odd
   number of bytes in Kanji / Hanzi mode, for an invalid lead / trail byte; IndexError where the model has it).
   Typing: `data` is a bytes object ([list Z]; the statements hold for every list), `mode : option Z`, `encoding` None or a
   str.  No external parameters.  Guard: an encoding name, if given, is not the empty string (Python's `encoding or
   DEFAULT` replaces '' by the default, the model keeps it).
   The five packing loops (indices 0, step, 2*step, .. with slices / subscripts on the source side, structural recursion in
   the model) are related by induction over the byte list.  Re-checked by coqc on every run.  See DESIGN.md 11.9. *)
From Coq Require Import String.
From Coq Require Import ZArith List Bool Lia ZifyBool.
From Segno Require Import Base.PyLite Base.PySem Base.PySemSeg Ref.IsoData Model.Bits Model.Segment.
From Segno Require Import Lemmas.PackLemmas Lemmas.ModeLemmas.
From Segno Require Tie.TieTables.
From Segno Require Import Tie.TieBase Tie.TieBits Tie.TieMode.
From SegnoSrc Require SrcTables.
From SegnoSrc Require Import SrcMode SrcSegMake.
Import ListNotations.
Open Scope Z_scope.
Ltac Zify.zify_post_hook ::= Z.to_euclidean_division_equations.

(* ------------------------------------------------------------------ slices and subscripts at an offset *)
Lemma py_slice_app {A} (pre suf : list A) k : 0 <= k ->
  py_slice (pre ++ suf) (lenZ pre) (lenZ pre + k) = firstn (Z.to_nat k) suf.
Proof.
  intros Hk. unfold py_slice, py_clip. pose proof (lenZ_nonneg pre) as Hp. pose proof (lenZ_nonneg suf) as Hs.
  rewrite lenZ_app.
  destruct (lenZ pre <? 0) eqn:E1; [lia|]. destruct (lenZ pre + k <? 0) eqn:E2; [lia|].
  rewrite (Z.min_l (lenZ pre)) by lia.
  replace (Z.to_nat (lenZ pre)) with (List.length pre) by (unfold lenZ; lia).
  rewrite skipn_exact by reflexivity.
  destruct (Z.le_gt_cases k (lenZ suf)) as [Hle|Hgt].
  - rewrite Z.min_l by lia. f_equal. lia.
  - rewrite Z.min_r by lia. replace (lenZ pre + lenZ suf - lenZ pre) with (lenZ suf) by lia.
    rewrite !firstn_all2; [reflexivity | unfold lenZ in *; lia | unfold lenZ; lia].
Qed.

Lemma py_index_app {A} (pre suf : list A) j : 0 <= j -> py_index (pre ++ suf) (lenZ pre + j) = nthZ suf j.
Proof.
  intros Hj. pose proof (lenZ_nonneg pre) as Hp. rewrite py_index_nonneg by lia. unfold nthZ.
  destruct (lenZ pre + j <? 0) eqn:E1; [lia|]. destruct (j <? 0) eqn:E2; [lia|].
  replace (Z.to_nat (lenZ pre + j)) with (List.length pre + Z.to_nat j)%nat by (unfold lenZ; lia).
  rewrite nth_error_app2 by lia.
  replace (List.length pre + Z.to_nat j - List.length pre)%nat with (Z.to_nat j) by lia. reflexivity.
Qed.

Lemma py_index_app0 {A} (pre suf : list A) : py_index (pre ++ suf) (lenZ pre) = nthZ suf 0.
Proof. rewrite <- (py_index_app pre suf 0) by lia. f_equal. lia. Qed.

(* ------------------------------------------------------------------ numeric *)
Lemma numeric_loop data (body : Z -> list Z -> res (ctl void (list Z))) :
  (forall i buff, body i buff =
     let chunk := py_slice data i (i + 3) in
     do t <- py_int_bytes chunk;
     do b <- py_buf_extend buff (py_bits_of t (lenZ chunk * 3 + 1));
     Ok (CNext b)) ->
  forall suf pre b0, data = pre ++ suf -> forallb is_digit suf = true ->
  py_for (py_range_aux (Z.to_nat ((lenZ suf + 2) / 3)) (lenZ pre) 3) body (bitsZ b0)
  = Ok (inr (bitsZ (b0 ++ pack_numeric (S (List.length suf)) suf))).
Proof.
  intros Hbody. induction suf as [|a|a b|a b c r IH] using list_ind3; intros pre b0 Hd Hdig.
  - change (Z.to_nat ((lenZ (@nil Z) + 2) / 3)) with 0%nat. cbn [py_range_aux py_for].
    rewrite pack_numeric_nil, app_nil_r. reflexivity.
  - change (Z.to_nat ((lenZ [a] + 2) / 3)) with 1%nat. cbn [py_range_aux py_for].
    rewrite Hbody. cbv zeta. rewrite Hd, py_slice_app by lia. change (firstn (Z.to_nat 3) [a]) with [a].
    rewrite py_int_bytes_digits by (try discriminate; exact Hdig). cbn [bind].
    change (lenZ [a] * 3 + 1) with 4. rewrite append_bits_src. cbn [bind py_for].
    rewrite pack_numeric_1. reflexivity.
  - change (Z.to_nat ((lenZ [a; b] + 2) / 3)) with 1%nat. cbn [py_range_aux py_for].
    rewrite Hbody. cbv zeta. rewrite Hd, py_slice_app by lia. change (firstn (Z.to_nat 3) [a; b]) with [a; b].
    rewrite py_int_bytes_digits by (try discriminate; exact Hdig). cbn [bind].
    change (lenZ [a; b] * 3 + 1) with 7. rewrite append_bits_src. cbn [bind py_for].
    rewrite pack_numeric_2. reflexivity.
  - replace (Z.to_nat ((lenZ (a :: b :: c :: r) + 2) / 3)) with (S (Z.to_nat ((lenZ r + 2) / 3)))
      by (rewrite !lenZ_cons; pose proof (lenZ_nonneg r); lia).
    cbn [py_range_aux py_for]. rewrite Hbody. cbv zeta. rewrite Hd, py_slice_app by lia.
    change (firstn (Z.to_nat 3) (a :: b :: c :: r)) with [a; b; c].
    cbn [forallb] in Hdig. apply andb_true_iff in Hdig. destruct Hdig as [Ha Hdig].
    apply andb_true_iff in Hdig. destruct Hdig as [Hb Hdig]. apply andb_true_iff in Hdig. destruct Hdig as [Hc Hr].
    rewrite py_int_bytes_digits
      by (try discriminate; cbn [forallb]; change py_is_ascii_digit with is_digit; rewrite Ha, Hb, Hc; reflexivity).
    cbn [bind]. change (lenZ [a; b; c] * 3 + 1) with 10. rewrite append_bits_src. cbn [bind].
    replace (lenZ pre + 3) with (lenZ (pre ++ [a; b; c])) by (rewrite lenZ_app; reflexivity).
    rewrite (IH (pre ++ [a; b; c])) by (try exact Hr; rewrite <- app_assoc; exact Hd).
    rewrite pack_numeric_3, (pack_numeric_fuel_std r (List.length (a :: b :: c :: r))) by (cbn [List.length]; lia).
    rewrite <- app_assoc. reflexivity.
Qed.

(* ------------------------------------------------------------------ alphanumeric *)
Lemma find_suffix_single b : forall l k,
  py_find_suffix [b] l k =
  match (fix go (l : list Z) (k : Z) {struct l} : option Z :=
           match l with [] => None | c :: r => if c =? b then Some k else go r (k + 1) end) l k
  with Some j => j | None => -1 end.
Proof.
  induction l as [|c r IH]; intros k; cbn [py_find_suffix py_starts_with]; [reflexivity|].
  rewrite andb_true_r, Z.eqb_sym. destruct (c =? b); [reflexivity|]. apply IH.
Qed.

Lemma find_alnum b : py_find ALPHANUMERIC_CHARS [b] 0 = alnum_val b.
Proof.
  unfold py_find, alnum_val, alnum_index.
  change (py_clip (lenZ ALPHANUMERIC_CHARS) 0) with 0.
  change (lenZ ALPHANUMERIC_CHARS <? 0 + lenZ [b]) with false. cbv iota.
  change (skipn (Z.to_nat 0) ALPHANUMERIC_CHARS) with ALPHANUMERIC_CHARS.
  apply find_suffix_single.
Qed.

Lemma alnum_bytes : forallb is_byte ALPHANUMERIC_CHARS = true.
Proof. vm_compute. reflexivity. Qed.

Lemma find_int_alnum b : is_alnum_char b = true -> py_bytes_find_int ALPHANUMERIC_CHARS b = Ok (alnum_val b).
Proof.
  intros Hb. unfold py_bytes_find_int. apply is_alnum_char_In in Hb.
  pose proof alnum_bytes as Hall. rewrite forallb_forall in Hall. rewrite (Hall b Hb). now rewrite find_alnum.
Qed.

Lemma alnum_loop data (body : Z -> list Z -> res (ctl void (list Z))) :
  (forall i buff, body i buff =
     let chunk := py_slice data i (i + 2) in
     do b' <- (if lenZ chunk >? 1
               then do t9 <- py_index chunk 0;
                    do t10 <- py_bytes_find_int SrcTables.ALPHANUMERIC_CHARS t9;
                    do t11 <- py_index chunk 1;
                    do t12 <- py_bytes_find_int SrcTables.ALPHANUMERIC_CHARS t11;
                    do b <- py_buf_extend buff (py_bits_of (t10 * 45 + t12) 11);
                    Ok b
               else do b <- py_buf_extend buff (py_bits_of (py_bytes_find SrcTables.ALPHANUMERIC_CHARS chunk) 6);
                    Ok b);
     Ok (CNext b')) ->
  forall suf pre b0, data = pre ++ suf -> forallb is_alnum_char suf = true ->
  py_for (py_range_aux (Z.to_nat ((lenZ suf + 1) / 2)) (lenZ pre) 2) body (bitsZ b0)
  = Ok (inr (bitsZ (b0 ++ pack_alnum suf))).
Proof.
  intros Hbody. induction suf as [|a|a b r IH] using list_ind2; intros pre b0 Hd Hal.
  - change (Z.to_nat ((lenZ (@nil Z) + 1) / 2)) with 0%nat. cbn [py_range_aux py_for pack_alnum].
    rewrite app_nil_r. reflexivity.
  - change (Z.to_nat ((lenZ [a] + 1) / 2)) with 1%nat. cbn [py_range_aux py_for].
    rewrite Hbody. cbv zeta. rewrite Hd, py_slice_app by lia. change (firstn (Z.to_nat 2) [a]) with [a].
    change (lenZ [a] >? 1) with false. cbv iota. rewrite TieTables.tie_ALPHANUMERIC_CHARS.
    unfold py_bytes_find. rewrite find_alnum, append_bits_src. cbn [bind py_for pack_alnum]. reflexivity.
  - replace (Z.to_nat ((lenZ (a :: b :: r) + 1) / 2)) with (S (Z.to_nat ((lenZ r + 1) / 2)))
      by (rewrite !lenZ_cons; pose proof (lenZ_nonneg r); lia).
    cbn [py_range_aux py_for]. rewrite Hbody. cbv zeta. rewrite Hd, py_slice_app by lia.
    change (firstn (Z.to_nat 2) (a :: b :: r)) with [a; b].
    change (lenZ [a; b] >? 1) with true. cbv iota. rewrite TieTables.tie_ALPHANUMERIC_CHARS.
    cbn [forallb] in Hal. apply andb_true_iff in Hal. destruct Hal as [Ha Hal].
    apply andb_true_iff in Hal. destruct Hal as [Hb Hr].
    change (py_index [a; b] 0) with (Ok a). change (py_index [a; b] 1) with (Ok b). cbn [bind].
    rewrite (find_int_alnum a Ha). cbn [bind]. rewrite (find_int_alnum b Hb). cbn [bind].
    rewrite append_bits_src. cbn [bind].
    replace (lenZ pre + 2) with (lenZ (pre ++ [a; b])) by (rewrite lenZ_app; reflexivity).
    rewrite (IH (pre ++ [a; b])) by (try exact Hr; rewrite <- app_assoc; exact Hd).
    cbn [pack_alnum]. rewrite <- app_assoc. reflexivity.
Qed.

(* ------------------------------------------------------------------ byte *)
Lemma byte_loop (body : Z -> list Z -> res (ctl void (list Z))) :
  (forall b buff, body b buff = do b' <- py_buf_extend buff (py_bits_of b 8); Ok (CNext b')) ->
  forall data b0,
  py_for data body (bitsZ b0) = Ok (inr (bitsZ (b0 ++ flat_map (fun b => bits_of b 8) data))).
Proof.
  intros Hbody. induction data as [|a r IH]; intros b0; cbn [py_for flat_map].
  - rewrite app_nil_r. reflexivity.
  - rewrite Hbody, append_bits_src. cbn [bind]. rewrite IH, <- app_assoc. reflexivity.
Qed.

(* ------------------------------------------------------------------ hanzi *)
Lemma hanzi_loop data (body : Z -> list Z -> res (ctl void (list Z))) :
  (forall i buff, body i buff =
     do t14 <- py_index data i;
     do t15 <- py_index data (i + 1);
     let code := Z.lor (Z.shiftl t14 8) t15 in
     do t16 <- py_index data (i + 1);
     do _ <- (if negb ((161 <=? t16) && (t16 <=? 254)) then Err ValueError else Ok tt);
     do diff <- (if (41377 <=? code) && (code <=? 43774) then Ok (code - 41377)
                 else do diff <- (if (45217 <=? code) && (code <=? 64254) then Ok (code - 42657) else Err ValueError);
                      Ok diff);
     do b <- py_buf_extend buff (py_bits_of (Z.shiftr diff 8 * 96 + Z.land diff 255) 13);
     Ok (CNext b)) ->
  forall suf pre b0, data = pre ++ suf ->
  py_for (py_range_aux (Z.to_nat ((lenZ suf + 1) / 2)) (lenZ pre) 2) body (bitsZ b0)
  = match pack_hanzi suf with Ok r => Ok (inr (bitsZ (b0 ++ r))) | Err e => Err e end.
Proof.
  intros Hbody. induction suf as [|a|a b r IH] using list_ind2; intros pre b0 Hd.
  - change (Z.to_nat ((lenZ (@nil Z) + 1) / 2)) with 0%nat. cbn [py_range_aux py_for pack_hanzi].
    rewrite app_nil_r. reflexivity.
  - change (Z.to_nat ((lenZ [a] + 1) / 2)) with 1%nat. cbn [py_range_aux py_for pack_hanzi].
    rewrite Hbody, Hd, py_index_app0, py_index_app by lia. reflexivity.
  - replace (Z.to_nat ((lenZ (a :: b :: r) + 1) / 2)) with (S (Z.to_nat ((lenZ r + 1) / 2)))
      by (rewrite !lenZ_cons; pose proof (lenZ_nonneg r); lia).
    cbn [py_range_aux py_for pack_hanzi]. rewrite Hbody, Hd, py_index_app0, !py_index_app by lia.
    change (nthZ (a :: b :: r) 0) with (Ok a). change (nthZ (a :: b :: r) 1) with (Ok b). cbn [bind]. cbv zeta.
    set (code := Z.lor (Z.shiftl a 8) b).
    destruct ((161 <=? b) && (b <=? 254)); cbn [negb bind]; [|reflexivity].
    replace (lenZ pre + 2) with (lenZ (pre ++ [a; b])) by (rewrite lenZ_app; reflexivity).
    assert (Hd' : data = (pre ++ [a; b]) ++ r) by (rewrite <- app_assoc; exact Hd).
    destruct ((41377 <=? code) && (code <=? 43774)); cbn [bind].
    + rewrite append_bits_src. cbn [bind]. rewrite (IH _ _ Hd').
      destruct (pack_hanzi r) as [rest|e]; cbn [bind]; [|reflexivity]. rewrite <- app_assoc. reflexivity.
    + destruct ((45217 <=? code) && (code <=? 64254)); cbn [bind]; [|reflexivity].
      rewrite append_bits_src. cbn [bind]. rewrite (IH _ _ Hd').
      destruct (pack_hanzi r) as [rest|e]; cbn [bind]; [|reflexivity]. rewrite <- app_assoc. reflexivity.
Qed.

(* ------------------------------------------------------------------ kanji *)
Lemma is_kanji_pair a b : is_kanji [a; b] = kanji_pair a b.
Proof. unfold is_kanji. change (Z.even (lenZ [a; b])) with true. cbn [all_pairs andb]. apply andb_true_r. Qed.

Lemma kanji_loop data (body : Z -> list Z -> res (ctl void (list Z))) :
  (forall i buff, body i buff =
     do t18 <- py_index data i;
     do t19 <- py_index data (i + 1);
     let code := Z.lor (Z.shiftl t18 8) t19 in
     do t20 <- src_is_kanji (py_slice data i (i + 2));
     do _ <- (if negb t20 then Err ValueError else Ok tt);
     do diff <- (if (33088 <=? code) && (code <=? 40956) then Ok (code - 33088)
                 else do diff <- (if (57408 <=? code) && (code <=? 60351) then Ok (code - 49472) else Err ValueError);
                      Ok diff);
     do b <- py_buf_extend buff (py_bits_of (Z.shiftr diff 8 * 192 + Z.land diff 255) 13);
     Ok (CNext b)) ->
  forall suf pre b0, data = pre ++ suf ->
  py_for (py_range_aux (Z.to_nat ((lenZ suf + 1) / 2)) (lenZ pre) 2) body (bitsZ b0)
  = match pack_kanji suf with Ok r => Ok (inr (bitsZ (b0 ++ r))) | Err e => Err e end.
Proof.
  intros Hbody. induction suf as [|a|a b r IH] using list_ind2; intros pre b0 Hd.
  - change (Z.to_nat ((lenZ (@nil Z) + 1) / 2)) with 0%nat. cbn [py_range_aux py_for pack_kanji].
    rewrite app_nil_r. reflexivity.
  - change (Z.to_nat ((lenZ [a] + 1) / 2)) with 1%nat. cbn [py_range_aux py_for pack_kanji].
    rewrite Hbody, Hd, py_index_app0, py_index_app by lia. reflexivity.
  - replace (Z.to_nat ((lenZ (a :: b :: r) + 1) / 2)) with (S (Z.to_nat ((lenZ r + 1) / 2)))
      by (rewrite !lenZ_cons; pose proof (lenZ_nonneg r); lia).
    cbn [py_range_aux py_for pack_kanji]. rewrite Hbody, Hd, py_index_app0, py_index_app, py_slice_app by lia.
    change (nthZ (a :: b :: r) 0) with (Ok a). change (nthZ (a :: b :: r) 1) with (Ok b).
    change (firstn (Z.to_nat 2) (a :: b :: r)) with [a; b]. cbn [bind]. cbv zeta.
    rewrite src_is_kanji_is_model, is_kanji_pair. cbn [bind].
    set (code := Z.lor (Z.shiftl a 8) b).
    destruct (kanji_pair a b); cbn [negb bind]; [|reflexivity].
    replace (lenZ pre + 2) with (lenZ (pre ++ [a; b])) by (rewrite lenZ_app; reflexivity).
    assert (Hd' : data = (pre ++ [a; b]) ++ r) by (rewrite <- app_assoc; exact Hd).
    destruct ((33088 <=? code) && (code <=? 40956)); cbn [bind].
    + rewrite append_bits_src. cbn [bind]. rewrite (IH _ _ Hd').
      destruct (pack_kanji r) as [rest|e]; cbn [bind]; [|reflexivity]. rewrite <- app_assoc. reflexivity.
    + destruct ((57408 <=? code) && (code <=? 60351)); cbn [bind]; [|reflexivity].
      rewrite append_bits_src. cbn [bind]. rewrite (IH _ _ Hd').
      destruct (pack_kanji r) as [rest|e]; cbn [bind]; [|reflexivity]. rewrite <- app_assoc. reflexivity.
Qed.

(* ------------------------------------------------------------------ the mode that make_segment settles on *)
Lemma find_mode_range data : find_mode data = 1 \/ find_mode data = 2 \/ find_mode data = 8 \/ find_mode data = 4.
Proof.
  unfold find_mode, MODE_NUMERIC, MODE_ALPHANUMERIC, MODE_KANJI, MODE_BYTE.
  destruct (negb (lenZ data =? 0) && forallb is_digit data); [auto|].
  destruct (negb (lenZ data =? 0) && forallb is_alnum_char data); [auto|].
  destruct (is_kanji data); auto.
Qed.

Lemma find_mode_1 data : find_mode data = 1 -> forallb is_digit data = true.
Proof.
  unfold find_mode, MODE_NUMERIC, MODE_ALPHANUMERIC, MODE_KANJI, MODE_BYTE.
  destruct (negb (lenZ data =? 0)); cbn [andb]; [|destruct (is_kanji data); discriminate].
  destruct (forallb is_digit data); [reflexivity|].
  destruct (forallb is_alnum_char data); [discriminate|]. destruct (is_kanji data); discriminate.
Qed.

Lemma digit_alnum b : is_digit b = true -> is_alnum_char b = true.
Proof.
  intros Hb. apply is_digit_iff in Hb.
  assert (Hc : b = 48 \/ b = 49 \/ b = 50 \/ b = 51 \/ b = 52 \/ b = 53 \/ b = 54 \/ b = 55 \/ b = 56 \/ b = 57) by lia.
  repeat (destruct Hc as [->|Hc]; [reflexivity|]). subst b. reflexivity.
Qed.

Lemma digits_alnum data : forallb is_digit data = true -> forallb is_alnum_char data = true.
Proof.
  rewrite !forallb_forall. intros H b Hb. apply digit_alnum, H, Hb.
Qed.

Lemma find_mode_2 data : find_mode data = 2 -> forallb is_alnum_char data = true.
Proof.
  unfold find_mode, MODE_NUMERIC, MODE_ALPHANUMERIC, MODE_KANJI, MODE_BYTE.
  destruct (negb (lenZ data =? 0)); cbn [andb]; [|destruct (is_kanji data); discriminate].
  destruct (forallb is_digit data); [discriminate|].
  destruct (forallb is_alnum_char data); [reflexivity|]. destruct (is_kanji data); discriminate.
Qed.

Lemma py_str_or_name (e : option enc) :
  (forall x, e = Some x -> e_name x <> EmptyString) ->
  py_str_or (option_map e_name e) DEFAULT_BYTE_ENCODING = e_name (match e with Some x => x | None => enc_latin1 end).
Proof.
  intros H. destruct e as [x|]; cbn [option_map py_str_or]; [|reflexivity].
  destruct (String.eqb (e_name x) EmptyString) eqn:E; [|reflexivity].
  apply String.eqb_eq in E. exfalso. exact (H x eq_refl E).
Qed.

(* the loops as make_segment runs them: from index 0, on an empty buffer, over range(0, len(data), step) *)
Lemma numeric_loop0 data (body : Z -> list Z -> res (ctl void (list Z))) :
  (forall i buff, body i buff =
     let chunk := py_slice data i (i + 3) in
     do t <- py_int_bytes chunk;
     do b <- py_buf_extend buff (py_bits_of t (lenZ chunk * 3 + 1));
     Ok (CNext b)) ->
  forallb is_digit data = true ->
  py_for (py_range_aux (Z.to_nat ((lenZ data - 0 + 3 - 1) / 3)) 0 3) body []
  = Ok (inr (bitsZ (pack_numeric (S (List.length data)) data))).
Proof.
  intros Hb Hd. replace (lenZ data - 0 + 3 - 1) with (lenZ data + 2) by lia.
  exact (numeric_loop data body Hb data [] [] eq_refl Hd).
Qed.

Lemma alnum_loop0 data (body : Z -> list Z -> res (ctl void (list Z))) :
  (forall i buff, body i buff =
     let chunk := py_slice data i (i + 2) in
     do b' <- (if lenZ chunk >? 1
               then do t9 <- py_index chunk 0;
                    do t10 <- py_bytes_find_int SrcTables.ALPHANUMERIC_CHARS t9;
                    do t11 <- py_index chunk 1;
                    do t12 <- py_bytes_find_int SrcTables.ALPHANUMERIC_CHARS t11;
                    do b <- py_buf_extend buff (py_bits_of (t10 * 45 + t12) 11);
                    Ok b
               else do b <- py_buf_extend buff (py_bits_of (py_bytes_find SrcTables.ALPHANUMERIC_CHARS chunk) 6);
                    Ok b);
     Ok (CNext b')) ->
  forallb is_alnum_char data = true ->
  py_for (py_range_aux (Z.to_nat ((lenZ data - 0 + 2 - 1) / 2)) 0 2) body []
  = Ok (inr (bitsZ (pack_alnum data))).
Proof.
  intros Hb Hd. replace (lenZ data - 0 + 2 - 1) with (lenZ data + 1) by lia.
  exact (alnum_loop data body Hb data [] [] eq_refl Hd).
Qed.

Lemma byte_loop0 (body : Z -> list Z -> res (ctl void (list Z))) :
  (forall b buff, body b buff = do b' <- py_buf_extend buff (py_bits_of b 8); Ok (CNext b')) ->
  forall data, py_for data body [] = Ok (inr (bitsZ (flat_map (fun b => bits_of b 8) data))).
Proof. intros Hb data. exact (byte_loop body Hb data []). Qed.

Lemma hanzi_loop0 data (body : Z -> list Z -> res (ctl void (list Z))) :
  (forall i buff, body i buff =
     do t14 <- py_index data i;
     do t15 <- py_index data (i + 1);
     let code := Z.lor (Z.shiftl t14 8) t15 in
     do t16 <- py_index data (i + 1);
     do _ <- (if negb ((161 <=? t16) && (t16 <=? 254)) then Err ValueError else Ok tt);
     do diff <- (if (41377 <=? code) && (code <=? 43774) then Ok (code - 41377)
                 else do diff <- (if (45217 <=? code) && (code <=? 64254) then Ok (code - 42657) else Err ValueError);
                      Ok diff);
     do b <- py_buf_extend buff (py_bits_of (Z.shiftr diff 8 * 96 + Z.land diff 255) 13);
     Ok (CNext b)) ->
  py_for (py_range_aux (Z.to_nat ((lenZ data - 0 + 2 - 1) / 2)) 0 2) body []
  = match pack_hanzi data with Ok r => Ok (inr (bitsZ r)) | Err e => Err e end.
Proof.
  intros Hb. replace (lenZ data - 0 + 2 - 1) with (lenZ data + 1) by lia.
  exact (hanzi_loop data body Hb data [] [] eq_refl).
Qed.

Lemma kanji_loop0 data (body : Z -> list Z -> res (ctl void (list Z))) :
  (forall i buff, body i buff =
     do t18 <- py_index data i;
     do t19 <- py_index data (i + 1);
     let code := Z.lor (Z.shiftl t18 8) t19 in
     do t20 <- src_is_kanji (py_slice data i (i + 2));
     do _ <- (if negb t20 then Err ValueError else Ok tt);
     do diff <- (if (33088 <=? code) && (code <=? 40956) then Ok (code - 33088)
                 else do diff <- (if (57408 <=? code) && (code <=? 60351) then Ok (code - 49472) else Err ValueError);
                      Ok diff);
     do b <- py_buf_extend buff (py_bits_of (Z.shiftr diff 8 * 192 + Z.land diff 255) 13);
     Ok (CNext b)) ->
  py_for (py_range_aux (Z.to_nat ((lenZ data - 0 + 2 - 1) / 2)) 0 2) body []
  = match pack_kanji data with Ok r => Ok (inr (bitsZ r)) | Err e => Err e end.
Proof.
  intros Hb. replace (lenZ data - 0 + 2 - 1) with (lenZ data + 1) by lia.
  exact (kanji_loop data body Hb data [] [] eq_refl).
Qed.

Theorem src_make_segment_is_model : forall (data : list Z) (mode : option Z) (encoding : option enc),
  (forall e, encoding = Some e -> e_name e <> EmptyString) ->
  src_make_segment data mode (option_map e_name encoding)
  = do s <- make_segment (PBytes data) mode encoding; Ok (to_py_seg s).
Proof.
  intros data mode encoding Hname.
  unfold src_make_segment, make_segment, src_data_to_bytes, data_to_bytes.
  rewrite TieTables.tie_HANZI_ENCODING, TieTables.tie_DEFAULT_BYTE_ENCODING.
  cbv zeta.
  (* the effective encoding and the name that data_to_bytes returns *)
  set (enc' := if oz_eqb mode (Some MODE_HANZI) then Some enc_gb2312 else encoding).
  assert (Henc : (if match mode with Some x_ => x_ =? 13 | None => false end then Some HANZI_ENCODING
                  else option_map e_name encoding) = option_map e_name enc').
  { subst enc'. unfold MODE_HANZI. destruct mode as [m|]; cbn [oz_eqb]; [destruct (m =? 13)|]; reflexivity. }
  rewrite Henc. clear Henc.
  assert (Hname' : forall x, enc' = Some x -> e_name x <> EmptyString).
  { subst enc'. destruct (oz_eqb mode (Some MODE_HANZI)); [|exact Hname]. intros x [= <-]. discriminate. }
  rewrite (py_str_or_name enc' Hname'). clearbody enc'. clear Hname Hname' encoding.
  cbv beta iota. cbn [bind].
  (* the guessed mode *)
  rewrite src_find_mode_is_model.
  set (g := if oz_eqb mode (Some MODE_BYTE) then MODE_BYTE else find_mode data).
  match goal with |- bind ?G _ = _ => assert (Hg : G = Ok g) end.
  { subst g. unfold MODE_BYTE. destruct mode as [m|]; cbn [oz_eqb negb bind]; [destruct (m =? 4)|]; reflexivity. }
  rewrite Hg. clear Hg. cbn [bind].
  (* the mode of the segment: requested (refused if below the guessed one) or guessed *)
  set (R := match mode with Some m => if m <? g then Err ValueError else Ok m | None => Ok g end).
  match goal with |- bind ?S _ = _ => assert (Hs : S = R) end.
  { subst R. destruct mode as [m|]; [|reflexivity]. destruct (m <? g); cbn [bind]; [|reflexivity].
    rewrite get_mode_name_in_message by (intros _; cbv beta; apply get_mode_name_in_message; reflexivity). reflexivity. }
  rewrite Hs. clear Hs. destruct R as [smode|e] eqn:HR; cbn [bind]; [|reflexivity].
  assert (Hfacts : (smode = 1 -> find_mode data = 1) /\ (smode = 2 -> find_mode data = 1 \/ find_mode data = 2)).
  { subst R g. pose proof (find_mode_range data) as Hr. unfold MODE_BYTE in HR.
    destruct mode as [m|]; cbn [oz_eqb] in HR.
    - destruct (m =? 4) eqn:E4; match type of HR with (if ?c then _ else _) = _ => destruct c eqn:Elt end;
        try discriminate HR; injection HR as <-; split; intros; lia.
    - injection HR as <-. split; intros; lia. }
  destruct Hfacts as [Hnum Haln]. clear HR R g.
  unfold MODE_NUMERIC, MODE_ALPHANUMERIC, MODE_BYTE, MODE_KANJI, MODE_HANZI. rewrite !orb_false_r.
  destruct (smode =? 8) eqn:E8; destruct (smode =? 13) eqn:E13; destruct (smode =? 4) eqn:E4;
    destruct (smode =? 1) eqn:E1; destruct (smode =? 2) eqn:E2; try (exfalso; lia); cbn [negb andb orb].
  all: rewrite ?andb_true_r, ?andb_false_r; cbv iota.
  all: try (destruct (lenZ data / 2 * 2 =? lenZ data) eqn:Eodd; cbn [negb];
            [|rewrite get_mode_name_in_message by (intros; reflexivity); reflexivity]).
  all: cbn [bind]; rewrite ?bind_ret.
  - (* Kanji *)
    rewrite py_range3_pos by lia. cbn [bind]. erewrite kanji_loop0 by (intros; reflexivity).
    destruct (pack_kanji data) as [bs|e]; cbn [bind]; reflexivity.
  - (* Hanzi *)
    rewrite py_range3_pos by lia. cbn [bind]. erewrite hanzi_loop0 by (intros; reflexivity).
    destruct (pack_hanzi data) as [bs|e]; cbn [bind]; reflexivity.
  - (* byte *)
    erewrite byte_loop0 by (intros; reflexivity). reflexivity.
  - (* numeric: the guessed mode is numeric, so all bytes are digits *)
    rewrite py_range3_pos by lia. cbn [bind].
    erewrite numeric_loop0; [reflexivity|intros; reflexivity|apply find_mode_1, Hnum; lia].
  - (* alphanumeric: the guessed mode is numeric or alphanumeric *)
    rewrite py_range3_pos by lia. cbn [bind].
    erewrite alnum_loop0; [reflexivity|intros; reflexivity|].
    destruct Haln as [H1|H2]; [lia|apply digits_alnum, find_mode_1, H1|apply find_mode_2, H2].
  - (* any other int that passes the comparison with the guessed mode runs the Kanji loop, without the odd-length test *)
    rewrite py_range3_pos by lia. cbn [bind]. erewrite kanji_loop0 by (intros; reflexivity).
    destruct (pack_kanji data) as [bs|e]; cbn [bind]; reflexivity.
Qed.


(* data_to_bytes on bytes content: the data itself, its length, the name of the encoding in force *)
Theorem src_data_to_bytes_is_model : forall (data : list Z) (encoding : option enc),
  (forall e, encoding = Some e -> e_name e <> EmptyString) ->
  (do p <- data_to_bytes (PBytes data) encoding; Ok (fst p, lenZ (fst p), e_name (snd p)))
  = Ok (src_data_to_bytes data (option_map e_name encoding)).
Proof.
  intros data encoding Hname. unfold src_data_to_bytes, data_to_bytes. cbn [bind fst snd].
  rewrite TieTables.tie_DEFAULT_BYTE_ENCODING, (py_str_or_name encoding Hname). reflexivity.
Qed.

(* the guard is needed: with the empty string as encoding name Python falls back to the default name, the model keeps '' *)
Lemma empty_encoding_name_differs :
  src_make_segment [97] None (Some EmptyString)
  <> (do s <- make_segment (PBytes [97]) None (Some {| e_name := EmptyString; e_canon := None |}); Ok (to_py_seg s)).
Proof. vm_compute. discriminate. Qed.

Print Assumptions src_make_segment_is_model.
Print Assumptions src_data_to_bytes_is_model.
