(* Bridge theorem: _encode of segno/encoder.py as the composition of the translated pieces (SegnoSrc.SrcEncode) equals the
   model's encode_core (Model/Encode.v).  Re-checked by coqc on every run.  See DESIGN.md 11.7. *)
From Coq Require Import String.
From Coq Require Import ZArith List Bool Lia ZifyBool FMapPositive.
From Segno Require Import Base.PyLite Base.PySem Ref.IsoData Ref.Geometry Model.Bits Model.Segment Model.Version
     Model.Stream Model.Matrix Model.Encode.
From Segno Require Lemmas.GeomLemmas.
From Segno Require Tie.TieTables Tie.TieFuns.
From Segno Require Import Tie.TieBase Tie.TieBits Tie.TieMat Tie.TieVersion Tie.TieFit Tie.TieBoost Tie.TiePad Tie.TieSeg
     Tie.TieEcc Tie.TieFnPat Tie.TiePlace Tie.TieMask.
From SegnoSrc Require SrcTables.
From SegnoSrc Require Import SrcFuns SrcVersion SrcFit SrcBoost SrcPad SrcSeg SrcEcc SrcFnPat SrcPlace SrcMask SrcEncode.
Import ListNotations.
Open Scope Z_scope.

(* the model's encode_core, keeping the final matrix as a finite map *)
Definition encode_core_mat (segs : list segment) (error : option Z) (version : Z) (mask : option Z)
           (eci boost_error : bool) (sa : option sa_info) : res (mat * option Z * Z) :=
  do error <- (if boost_error then boost_error_level version error segs eci (match sa with Some _ => true | None => false end)
               else Ok error);
  do buff <- data_stream segs error version eci sa;
  do final <- Stream.make_final_message version error buff;
  let size := Encode.calc_matrix_size version in
  do m1 <- Matrix.add_finder_patterns size (Matrix.make_matrix size true true);
  do m2 <- Matrix.add_alignment_patterns size m1;
  do m3 <- Matrix.add_codewords size version m2 final;
  do (mask', m4) <- Matrix.find_and_apply_best_mask size m3 mask;
  do m5 <- Matrix.add_format_info size version error mask' m4;
  do m6 <- Matrix.add_version_info size version m5;
  Ok (m6, error, mask').

Lemma encode_core_mat_spec segs error version mask eci boost sa :
  Encode.encode_core segs error version mask eci boost sa
  = do r <- encode_core_mat segs error version mask eci boost sa;
    let '(m6, error', mask') := r in
    Ok {| c_matrix := rows_of (Encode.calc_matrix_size version) m6; c_version := version; c_error := error';
          c_mask := mask'; c_segments := segs |}.
Proof.
  unfold Encode.encode_core, encode_core_mat. cbv zeta.
  repeat match goal with
         | |- bind ?X _ = bind (bind ?X _) _ => destruct X as [?|?]; cbn [bind]; [|reflexivity]
         | |- context [let (_, _) := ?p in _] => destruct p
         end.
  reflexivity.
Qed.

(* ------------------------------------------------------------------ facts about the symbol sizes *)
Lemma size_facts_all :
  forallb (fun v => let s := Encode.calc_matrix_size v in
             (src_calc_matrix_size v =? s) && existsb (Z.eqb s) all_sizes && Bool.eqb (s <? 21) (v <? 1)
             && Z.odd s && (11 <=? s)) all_versions = true.
Proof. vm_compute. reflexivity. Qed.

Lemma size_facts v : -3 <= v <= 40 ->
  let s := Encode.calc_matrix_size v in
  src_calc_matrix_size v = s /\ In s all_sizes /\ (s <? 21) = (v <? 1) /\ Z.odd s = true /\ 11 <= s.
Proof.
  intros Hv s. pose proof size_facts_all as H. rewrite forallb_forall in H.
  specialize (H v ltac:(apply zrange_In; lia)). cbv zeta in H. fold s in H.
  apply andb_true_iff in H. destruct H as [H H5]. apply andb_true_iff in H. destruct H as [H H4].
  apply andb_true_iff in H. destruct H as [H H3]. apply andb_true_iff in H. destruct H as [H1 H2].
  split; [lia|]. split.
  { apply existsb_exists in H2. destruct H2 as [x [Hx Ex]]. apply Z.eqb_eq in Ex. now subst x. }
  split; [now apply Bool.eqb_prop in H3|]. split; [exact H4|lia].
Qed.

(* ------------------------------------------------------------------ the Structured Append header and the segments *)
Definition sa_list (i : sa_info) : list Z := [MODE_STRUCTURED_APPEND; sa_number i; sa_total i; sa_parity i].

Lemma segments_loop ext ver vr eci : forall segs buff,
  (forall s, In s segs -> ext (option_map e_name (s_enc s)) = eci_number (s_enc s)) ->
  py_for (A:=void) (map to_py_seg segs)
    (fun segment st' => do buff0 <- src_write_segment ext st' segment ver vr eci; Ok (CNext buff0)) (bitsZ buff)
  = do body <- write_segments segs ver vr eci; Ok (inr (bitsZ (buff ++ body))).
Proof.
  induction segs as [|s r IH]; intros buff Hext; cbn [map py_for write_segments].
  - cbn [bind]. now rewrite app_nil_r.
  - rewrite src_write_segment_is_model by (apply Hext; now left).
    destruct (Stream.write_segment s ver vr eci) as [a|e]; cbn [bind]; [|reflexivity].
    rewrite IH by (intros s' Hs'; apply Hext; now right).
    destruct (write_segments r ver vr eci) as [b|e]; cbn [bind]; [|reflexivity]. now rewrite <- app_assoc.
Qed.

Lemma append_bits_nil val len : py_buf_extend [] (py_bits_of val len) = Ok (bitsZ (bits_of val len)).
Proof. apply (append_bits_src [] val len). Qed.

(* ------------------------------------------------------------------ _encode *)
(* guards: a valid version; a requested mask in range (normalize_mask); the two untranslated callees
   (get_eci_assignment_number: codecs.lookup; evaluate_mask / mask_scores) are parameters related to the model by
   hypotheses; [Hplaced]: after add_codewords of THIS run every module has a value, i.e. the final message fills the
   encoding region exactly (ISO capacity arithmetic; assumed here, not proved -- without it the two sides differ on
   modules that stay unset: Python xors the placeholder 2 with the mask, the model leaves the cell absent) *)
(* [src_encode_is_model_at]: the hypothesis about evaluate_mask is only needed for the size of THIS symbol
   (calc_matrix_size version) -- the form Tie/TieEncodeFinal.v instantiates with the translated evaluate_mask, whose
   bridge theorem holds for the 44 symbol sizes.  [src_encode_is_model] below is the earlier statement (hypothesis for
   every size), now a corollary. *)
Theorem src_encode_is_model_at :
  forall (ext_eci : option String.string -> res Z) (ext_eval : list (list Z) -> Z -> Z -> res Z)
         (segs : list segment) (error : option Z) (version : Z) (mask : option Z) (eci boost : bool) (sa : option sa_info),
  -3 <= version <= 40 ->
  (forall s, In s segs -> ext_eci (option_map e_name (s_enc s)) = eci_number (s_enc s)) ->
  (forall mk, full (Encode.calc_matrix_size version) mk ->
     ext_eval (to_rows (Encode.calc_matrix_size version) mk) (Encode.calc_matrix_size version) (Encode.calc_matrix_size version)
     = Ok (Matrix.evaluate_mask (Encode.calc_matrix_size version) (rows_of (Encode.calc_matrix_size version) mk))) ->
  match mask with Some k => 0 <= k < (if version <? 1 then 4 else 8) | None => True end ->
  (forall error0 buff final m1 m2 m3,
     data_stream segs error0 version eci sa = Ok buff ->
     Stream.make_final_message version error0 buff = Ok final ->
     Matrix.add_finder_patterns (Encode.calc_matrix_size version) (Matrix.make_matrix (Encode.calc_matrix_size version) true true) = Ok m1 ->
     Matrix.add_alignment_patterns (Encode.calc_matrix_size version) m1 = Ok m2 ->
     Matrix.add_codewords (Encode.calc_matrix_size version) version m2 final = Ok m3 ->
     full (Encode.calc_matrix_size version) m3) ->
  src__encode ext_eci ext_eval (to_py_segs segs) error version mask eci boost (option_map sa_list sa)
  = do r <- encode_core_mat segs error version mask eci boost sa;
    let '(m6, error', mask') := r in
    Ok (to_rows (Encode.calc_matrix_size version) m6, version, error', mask', to_py_segs segs).
Proof.
  intros ext_eci ext_eval segs error version mask eci boost sa Hv Heci Heval Hmask Hplaced.
  destruct (size_facts version Hv) as [Hsz [Hin [Hmicro [Hodd Hs11]]]].
  set (size := Encode.calc_matrix_size version) in *.
  unfold src__encode, encode_core_mat. cbv zeta. fold size. rewrite Hsz.
  rewrite TieTables.tie_SYMBOL_CAPACITY.
  (* ver / ver_range *)
  rewrite src_version_range_is_model.
  assert (Hvr : exists vr, Version.version_range version = Ok vr \/ (version <? 1) = true).
  { destruct (version <? 1) eqn:E; [exists 0; now right|]. unfold Version.version_range.
    exists (if (0 <? version) && (version <? 10) then VERSION_RANGE_01_09 else if (9 <? version) && (version <? 27) then VERSION_RANGE_10_26 else VERSION_RANGE_27_40).
    left. destruct ((0 <? version) && (version <? 10)) eqn:E1; [reflexivity|].
    destruct ((9 <? version) && (version <? 27)) eqn:E2; [reflexivity|].
    destruct ((26 <? version) && (version <? 41)) eqn:E3; [reflexivity|lia]. }
  set (ver := if version <? 1 then Some version else None).
  assert (Hvr2 : exists vr,
     (if negb (version <? 1) then do t'1 <- Version.version_range version; Ok (@None Z, t'1) else Ok (Some version, version))
       = Ok (ver, vr)
     /\ (if version <? 1 then Ok version else Version.version_range version) = Ok vr).
  { subst ver. destruct (version <? 1) eqn:Em; cbn [negb].
    - exists version. split; reflexivity.
    - destruct Hvr as [vr [H|H]]; [|discriminate]. exists vr. rewrite H. split; reflexivity. }
  clear Hvr. destruct Hvr2 as [vr [Hvr1 Hvr2]].
  rewrite Hvr1. cbn [bind]. clear Hvr1.
  rewrite src_boost_error_level_is_model, bind_ret.
  assert (Hsa : negb (match option_map sa_list sa with Some _ => false | None => true end)
                = match sa with Some _ => true | None => false end) by (destruct sa; reflexivity).
  rewrite Hsa. clear Hsa.
  unfold data_stream at 1. cbv zeta. rewrite Hvr2. cbn [bind]. fold ver.
  match goal with |- bind ?B _ = _ => destruct B as [error0|e] end; cbn [bind]; [|reflexivity].
  (* Structured Append header *)
  set (hdr := match sa with
              | Some i => bits_of MODE_STRUCTURED_APPEND 4 ++ bits_of (sa_number i) 4 ++ bits_of (sa_total i) 4
                          ++ bits_of (sa_parity i) 8
              | None => [] end).
  match goal with |- bind ?H _ = _ => assert (Hhdr : H = Ok (bitsZ hdr)) end.
  { subst hdr. destruct sa as [i|]; cbn [option_map bind]; [|reflexivity].
    unfold sa_list. change (py_slice [MODE_STRUCTURED_APPEND; sa_number i; sa_total i; sa_parity i] 0 3)
      with [MODE_STRUCTURED_APPEND; sa_number i; sa_total i].
    cbn [py_for]. rewrite append_bits_nil. cbn [bind]. rewrite append_bits_src. cbn [bind]. rewrite append_bits_src. cbn [bind].
    change (py_index [MODE_STRUCTURED_APPEND; sa_number i; sa_total i; sa_parity i] 3) with (Ok (sa_parity i)).
    cbn [bind]. rewrite append_bits_src. cbn [bind app]. now rewrite <- !app_assoc. }
  rewrite Hhdr. cbn [bind]. clear Hhdr.
  (* segments *)
  change (segs_segments (to_py_segs segs)) with (map to_py_seg segs).
  rewrite (segments_loop ext_eci ver vr eci segs hdr Heci).
  destruct (write_segments segs ver vr eci) as [body|e] eqn:Hbody; cbn [bind]; [|reflexivity].
  (* capacity, terminator, padding *)
  unfold capacity.
  destruct (getZ version SYMBOL_CAPACITY) as [row|e] eqn:Hrow; cbn [bind]; [|reflexivity].
  destruct (getOZ error0 row) as [cap|e] eqn:Hcap; cbn [bind]; [|reflexivity].
  rewrite lenZ_bitsZ, src_write_terminator_is_model.
  destruct (Stream.write_terminator (hdr ++ body) cap ver) as [b1|e] eqn:Hb1; cbn [bind]; [|reflexivity].
  rewrite lenZ_bitsZ, src_write_padding_bits_is_model. cbn [bind].
  rewrite lenZ_bitsZ, src_write_pad_codewords_is_model. cbn [bind].
  (* final message *)
  rewrite src_make_final_message_is_model.
  destruct (Stream.make_final_message version error0 _) as [final|e] eqn:Hfinal; cbn [bind]; [|reflexivity].
  (* function patterns *)
  rewrite src_make_matrix_is_model by assumption. cbn [bind].
  rewrite src_add_finder_patterns_is_model by assumption.
  destruct (Matrix.add_finder_patterns size (Matrix.make_matrix size true true)) as [m1|e] eqn:Hm1; cbn [bind]; [|reflexivity].
  rewrite (src_add_alignment_patterns_is_model size m1) by assumption.
  destruct (Matrix.add_alignment_patterns size m1) as [m2|e] eqn:Hm2; cbn [bind]; [|reflexivity].
  (* placement *)
  rewrite src_add_codewords_is_model by (assumption || lia).
  destruct (Matrix.add_codewords size version m2 final) as [m3|e] eqn:Hm3; cbn [bind]; [|reflexivity].
  assert (Hstream : data_stream segs error0 version eci sa
                    = Ok (Stream.write_pad_codewords (Stream.write_padding_bits b1 version) version cap)).
  { unfold data_stream. cbv zeta. rewrite Hvr2. cbn [bind]. fold ver. fold hdr. rewrite Hbody. cbn [bind].
    unfold capacity. rewrite Hrow. cbn [bind]. rewrite Hcap. cbn [bind]. rewrite Hb1. reflexivity. }
  pose proof (Hplaced error0 _ final m1 m2 m3 Hstream Hfinal eq_refl Hm2 Hm3) as Hfull3.
  (* mask *)
  rewrite (src_find_and_apply_best_mask_is_model ext_eval size m3 mask Hin Hfull3 Heval)
    by (rewrite Hmicro; exact Hmask).
  destruct (Matrix.find_and_apply_best_mask size m3 mask) as [[k m4]|e] eqn:Hm4; cbn [bind fst snd]; [|reflexivity].
  (* format and version information *)
  assert (Hk : 0 <= k).
  { destruct mask as [k0|].
    - unfold Matrix.find_and_apply_best_mask in Hm4. destruct (Matrix.function_matrix size); cbn [bind] in Hm4; [|discriminate].
      injection Hm4 as <- _. destruct (version <? 1); lia.
    - apply GeomLemmas.find_best_mask_shape in Hm4. destruct Hm4 as (fm & _ & _ & Hk). specialize (Hk eq_refl).
      destruct (size <? 21); lia. }
  rewrite src_add_format_info_is_model by lia.
  destruct (Matrix.add_format_info size version error0 k m4) as [m5|e]; cbn [bind]; [|reflexivity].
  rewrite src_add_version_info_is_model by lia.
  destruct (Matrix.add_version_info size version m5) as [m6|e]; reflexivity.
Qed.

Theorem src_encode_is_model :
  forall (ext_eci : option String.string -> res Z) (ext_eval : list (list Z) -> Z -> Z -> res Z)
         (segs : list segment) (error : option Z) (version : Z) (mask : option Z) (eci boost : bool) (sa : option sa_info),
  -3 <= version <= 40 ->
  (forall s, In s segs -> ext_eci (option_map e_name (s_enc s)) = eci_number (s_enc s)) ->
  (forall size mk, full size mk -> ext_eval (to_rows size mk) size size = Ok (Matrix.evaluate_mask size (rows_of size mk))) ->
  match mask with Some k => 0 <= k < (if version <? 1 then 4 else 8) | None => True end ->
  (forall error0 buff final m1 m2 m3,
     data_stream segs error0 version eci sa = Ok buff ->
     Stream.make_final_message version error0 buff = Ok final ->
     Matrix.add_finder_patterns (Encode.calc_matrix_size version) (Matrix.make_matrix (Encode.calc_matrix_size version) true true) = Ok m1 ->
     Matrix.add_alignment_patterns (Encode.calc_matrix_size version) m1 = Ok m2 ->
     Matrix.add_codewords (Encode.calc_matrix_size version) version m2 final = Ok m3 ->
     full (Encode.calc_matrix_size version) m3) ->
  src__encode ext_eci ext_eval (to_py_segs segs) error version mask eci boost (option_map sa_list sa)
  = do r <- encode_core_mat segs error version mask eci boost sa;
    let '(m6, error', mask') := r in
    Ok (to_rows (Encode.calc_matrix_size version) m6, version, error', mask', to_py_segs segs).
Proof.
  intros ext_eci ext_eval segs error version mask eci boost sa Hv Heci Heval Hmask Hplaced.
  apply src_encode_is_model_at; try assumption.
  intros mk Hmk. apply Heval. exact Hmk.
Qed.

Print Assumptions src_encode_is_model_at.
Print Assumptions src_encode_is_model.
