(* Bridge theorems: the generators matrix_to_lines and matrix_iter of segno/utils.py, translated statement by
   statement from the CURRENT source (SegnoSrc.SrcUtilsIter, written by gen/translate_utils.py: `yield e` appends e to
   the list the function returns, see Base/PySemGen.v), equal the hand-written model Model/Iter.v.  Re-checked by coqc
   on every run.  The loop bodies are not compared syntactically: each is shown to be a step function
   ([py_for_fold] / [py_for_yield]) by case analysis, and the fold of the steps is the model.  See DESIGN.md 11.8. *)
From Coq Require Import ZArith QArith List Bool Lia.
From Segno Require Import Base.PyLite Base.PySem Base.PySemGen Model.Iter.
From Segno Require Import Tie.TieUtils.
From SegnoSrc Require Import SrcUtils SrcUtilsIter.
Import ListNotations.
Open Scope Z_scope.

(* ------------------------------------------------------------------ 1. matrix_to_lines *)
(* the tuple ((x1, y), (x2, y)) that is yielded for a line *)
Definition line_pts (l : line) : list (list Q) := [[l_x1 l; l_y l]; [l_x2 l; l_y l]].

Definition lines_state : Type := (Z * Q * Q * list (list (list Q)))%type.      (* last_bit, x1, x2, yielded *)
Definition step_in (y : Q) (bit : Z) (s : lines_state) : lines_state :=
  let '(lb, x1, x2, acc) := s in
  let emit := negb (lb =? bit) && (bit =? 0) in
  let x1a := if emit then x2 else x1 in
  (bit, (if bit =? 0 then (x1a + 1)%Q else x1a), (x2 + 1)%Q,
   acc ++ (if emit then [[[x1; y]; [x2; y]]] else [])).

Lemma fold_step_in (y : Q) : forall (row : list Z) (lb : Z) (x1 x2 : Q) acc,
  fold_left (fun s bit => step_in y bit s) row (lb, x1, x2, acc) =
  let '(ls, (x1', x2', lb')) := lines_row row x1 x2 lb y in (lb', x1', x2', acc ++ map line_pts ls).
Proof.
  induction row as [|bit r IH]; intros lb x1 x2 acc; cbn [fold_left lines_row].
  - cbn [map]. now rewrite app_nil_r.
  - cbn [step_in]. rewrite IH.
    destruct (lines_row r _ _ bit y) as [ls [[x1' x2'] lb']].
    destruct (negb (lb =? bit) && (bit =? 0)); cbn [map app line_pts l_x1 l_x2 l_y];
      now rewrite <- ?app_assoc.
Qed.

Definition rows_state : Type := (Z * Q * list (list (list Q)))%type.           (* last_bit, y, yielded *)
Definition step_out (x incby : Q) (row : list Z) (s : rows_state) : rows_state :=
  let '(lb, y, acc) := s in
  let y' := (y + incby)%Q in
  let '(ls, (x1, x2, lb')) := lines_row row x x lb y' in
  ((if negb (lb' =? 0) then 0 else lb'), y',
   (acc ++ map line_pts ls) ++ (if negb (lb' =? 0) then [[[x1; y']; [x2; y']]] else [])).

Lemma fold_step_out (x incby : Q) : forall (rows : list (list Z)) (lb : Z) (y : Q) acc,
  snd (fold_left (fun s row => step_out x incby row s) rows (lb, y, acc)) =
  acc ++ map line_pts (lines_rows rows x y incby lb).
Proof.
  induction rows as [|row r IH]; intros lb y acc; cbn [fold_left lines_rows].
  - cbn [snd map]. now rewrite app_nil_r.
  - cbn [step_out].
    destruct (lines_row row x x lb (y + incby)) as [ls [[x1 x2] lb']].
    rewrite IH. rewrite !map_app, <- !app_assoc.
    destruct (negb (lb' =? 0)); reflexivity.
Qed.

Theorem src_matrix_to_lines_is_model : forall (matrix : list (list Z)) (x y incby : Q),
  src_matrix_to_lines matrix x y incby = Ok (map line_pts (Iter.matrix_to_lines matrix x y incby)).
Proof.
  intros matrix x y incby. unfold src_matrix_to_lines, Iter.matrix_to_lines. cbv zeta.
  erewrite py_for_fold with (step := step_out x incby).
  - pose proof (fold_step_out x incby matrix 1 (y - incby)%Q []) as H.
    destruct (fold_left _ matrix _) as [[lb y'] acc]. cbn [snd app] in H. now rewrite H.
  - intros row [[lb y0] acc] _.
    erewrite py_for_fold with (step := step_in (y0 + incby)%Q).
    + rewrite fold_step_in. cbn [step_out].
      destruct (lines_row row x x lb (y0 + incby)) as [ls [[x1 x2] lb']].
      destruct (negb (lb' =? 0)); rewrite ?app_nil_r; reflexivity.
    + intros bit [[[lb1 x1] x2] acc1] _. cbn [step_in].
      destruct (lb1 =? bit), (bit =? 0); cbn [negb andb]; rewrite ?app_nil_r; reflexivity.
Qed.

(* ------------------------------------------------------------------ 2. matrix_iter *)
(* a matrix of the declared size: height rows of width cells (segno passes code.matrix and its own size) *)
Definition well_formed (matrix : list (list Z)) (w h : Z) : Prop :=
  lenZ matrix = h /\ Forall (fun r => lenZ r = w) matrix.

Lemma nthZ_nth {A} (l : list A) (i : Z) (d : A) : 0 <= i < lenZ l -> nthZ l i = Ok (nth (Z.to_nat i) l d).
Proof.
  intros Hi. unfold nthZ, lenZ in *. destruct (i <? 0) eqn:E; [lia|].
  destruct (nth_error l (Z.to_nat i)) as [v|] eqn:En.
  - now rewrite (nth_error_nth _ _ d En).
  - apply nth_error_None in En. lia.
Qed.
Lemma py_index_nth {A} (l : list A) (i : Z) (d : A) : 0 <= i < lenZ l -> py_index l i = Ok (nth (Z.to_nat i) l d).
Proof. intros Hi. unfold py_index. destruct (i <? 0) eqn:E; [lia|]. now apply nthZ_nth. Qed.

Lemma flat_map_map {A B C} (f : B -> list C) (g : A -> B) (l : list A) :
  flat_map f (map g l) = flat_map (fun x => f (g x)) l.
Proof. induction l as [|x r IH]; cbn; [reflexivity|]. now rewrite IH. Qed.

Lemma py_chain_repeat {A B} (cell : A -> B) (n : Z) (xs : list A) :
  py_chain (map (fun j => py_it_repeat (cell j) n) xs) = repeat_each n (map cell xs).
Proof.
  unfold py_chain, repeat_each, py_it_repeat. rewrite flat_map_map. now rewrite flat_map_concat_map.
Qed.

(* the loop `for s in repeat(None, scale): yield row` *)
Lemma yield_row_loop {B} (row : B) (n : Z) (body : option Z -> list B -> res (ctl void (list B))) :
  (forall s acc, body s acc = Ok (CNext (acc ++ [row]))) ->
  forall acc, py_for (py_it_repeat (@None Z) n) body acc = Ok (inr (acc ++ repeat row (Z.to_nat n))).
Proof.
  intros Hb acc. rewrite (py_for_yield _ body (fun _ => [row])); [|intros; apply Hb].
  rewrite flat_map_repeat_const. unfold py_it_repeat. now rewrite repeat_length.
Qed.

Lemma nth_repeat0 (k : nat) (n : Z) : nth k (py_repeat [0] n) 0 = 0.
Proof.
  rewrite py_repeat_zeros. generalize (Z.to_nat n) as m. revert k.
  induction k as [|k IH]; intros [|m]; cbn; auto.
Qed.

Theorem src_matrix_iter_is_model : forall (matrix : list (list Z)) (w h : Z) (scale : pynum) (border : option Z),
  well_formed matrix w h ->
  src_matrix_iter matrix [w; h] (q_of scale) border = Iter.matrix_iter matrix w h scale (option_map PInt border).
Proof.
  intros matrix w h scale border [Hh Hw]. unfold src_matrix_iter, Iter.matrix_iter. cbv zeta.
  rewrite src_check_valid_border_int.
  destruct (check_valid_border (option_map PInt border)) as [[]|e]; cbn [bind]; [|reflexivity].
  rewrite py_int_q_of. set (s := py_int scale).
  change (inject_Z s) with (q_of (PInt s)). rewrite src_check_valid_scale_is_model.
  destruct (check_valid_scale (PInt s)) as [[]|e]; cbn [bind]; [|reflexivity].
  rewrite src_get_border_is_model. cbn [bind py_unpack2].
  replace (border_z (option_map PInt border)) with border by (now destruct border).
  set (b := get_border w h border).
  set (cell := fun i j => if (0 <=? i) && (i <? h) && (0 <=? j) && (j <? w) then mcell matrix i j else 0).
  set (rowf := fun i => repeat_each s (map (cell i) (zrange (- b) (w + b)))).
  erewrite py_for_yield with (g := fun i => repeat (rowf i) (Z.to_nat s)).
  - cbn [app]. unfold iter_rows, repeat_each at 1. fold cell. now rewrite flat_map_map.
  - intros i acc _.
    (* r = matrix[i] if 0 <= i < height else border_row *)
    assert (Hr : (if (0 <=? i) && (i <? h) then do t <- py_index matrix i; Ok t else Ok (py_repeat [0] w))
                 = Ok (if (0 <=? i) && (i <? h) then nth (Z.to_nat i) matrix [] else py_repeat [0] w)).
    { destruct ((0 <=? i) && (i <? h)) eqn:Ei; [|reflexivity].
      rewrite (py_index_nth matrix i []) by lia. reflexivity. }
    rewrite Hr. cbn [bind]. clear Hr.
    set (r := if (0 <=? i) && (i <? h) then nth (Z.to_nat i) matrix [] else py_repeat [0] w).
    (* the cells of the row *)
    rewrite (py_seq_res_map_ok _ (fun j => py_it_repeat (cell i j) s)).
    + cbn [bind]. rewrite py_chain_repeat. fold (rowf i).
      rewrite (yield_row_loop (rowf i) s); [reflexivity|]. intros; reflexivity.
    + intros j _. unfold cell, r.
      destruct ((0 <=? i) && (i <? h)) eqn:Ei; cbn [andb];
        destruct ((0 <=? j) && (j <? w)) eqn:Ej; cbn [bind andb]; try reflexivity.
      * assert (Hin : In (nth (Z.to_nat i) matrix []) matrix) by (apply nth_In; unfold lenZ in Hh; lia).
        rewrite Forall_forall in Hw. specialize (Hw _ Hin).
        rewrite (py_index_nth _ j 0) by lia. reflexivity.
      * assert (Hlen : lenZ (py_repeat [0] w) = w).
        { rewrite py_repeat_zeros. unfold lenZ. rewrite repeat_length. lia. }
        rewrite (py_index_nth _ j 0) by lia. cbn [bind]. now rewrite nth_repeat0.
Qed.

(* integer arguments, as the raster / text serializer models call it: the rows are Iter.iter_rows *)
Corollary src_matrix_iter_int : forall (matrix : list (list Z)) (w h scale : Z) (border : option Z),
  well_formed matrix w h -> 1 <= scale -> (forall b, border = Some b -> 0 <= b) ->
  src_matrix_iter matrix [w; h] (inject_Z scale) border =
  Ok (iter_rows matrix w h scale (get_border w h border)).
Proof.
  intros matrix w h scale border Hwf Hs Hb.
  change (inject_Z scale) with (q_of (PInt scale)).
  rewrite (src_matrix_iter_is_model matrix w h (PInt scale) border Hwf). unfold Iter.matrix_iter.
  rewrite <- src_check_valid_border_int.
  assert (Hvb : src_check_valid_border (option_map inject_Z border) = Ok tt).
  { destruct border as [b0|]; [|reflexivity]. cbn [option_map]. rewrite src_check_valid_border_int_spec.
    specialize (Hb b0 eq_refl). destruct (b0 <? 0) eqn:E; [lia|reflexivity]. }
  rewrite Hvb. cbn [bind py_int]. unfold check_valid_scale, q_lebz, q_of, Qle_bool, inject_Z. cbn [Qnum Qden].
  destruct (scale * 1 <=? 0 * 1) eqn:E; [lia|]. cbn [bind].
  now replace (border_z (option_map PInt border)) with border by (now destruct border).
Qed.

Print Assumptions src_matrix_to_lines_is_model.
Print Assumptions src_matrix_iter_is_model.
Print Assumptions src_matrix_iter_int.
