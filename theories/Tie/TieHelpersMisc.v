(* Bridge theorems: make_geo_data and make_make_email_data of segno/helpers.py, translated statement by statement from the
   CURRENT source (SegnoSrc.SrcHelpersMisc, written by gen/translate_helpers.py), against the hand-written model
   (Model/Helpers.v).

   make_geo_data(lat, lng): lat / lng are numbers given by their exact decimal value (PySemStr.py_num = the model's fnum).
   Parameter: `f'{f:.8f}'` (float.__format__ is CPython library code) is the function [fmt] the translated function takes
   as its first argument.  [src_make_geo_data_spec] holds for ANY [fmt] (no hypothesis): 'geo:', the two numbers formatted
   with precision 8, `.rstrip('0').rstrip('.')` in this order, the comma.  [src_make_geo_data_is_model] adds the
   hypothesis that [fmt 8] is the model's exact decimal formatting [float_fmt8] and concludes the model's function.

   make_make_email_data(to, cc, bcc, subject, body): to / cc / bcc multi-valued arguments given as the list of their strings
   (the argument encoding of the model), subject / body a str or None.  Parameters: `val.encode('utf-8')` ([encode], applied
   to the encoding name and the string; may raise) and `urllib.parse.quote` on bytes ([quote]).  Hypotheses: [encode 'utf-8']
   is the model's UTF-8 encoder (UnicodeEncodeError for lone surrogates) and [quote] is the model's percent-encoding
   [quote_bytes] (safe = letters, digits, '_.-~' and '/').  The proof goes through `multi`, the ValueError for an empty
   `to`, both loops with the '?' / '&' delimiter state, `is not None` for subject / body, and ''.join.
   Re-checked by coqc on every run.  See DESIGN.md 11.13. *)
From Coq Require Import ZArith List Bool Lia.
From Segno Require Import Base.PyLite Base.PySem Base.PySemStr Model.Color Model.Helpers.
From Segno Require Import Tie.TieHelpersEsc.
From SegnoSrc Require Import SrcHelpersMisc.
Import ListNotations.
Open Scope Z_scope.

(* ------------------------------------------------------------------ make_geo_data *)
Definition to_fnum (x : py_num) : fnum :=
  match x with
  | PyFin n m s => NFin {| d_neg := n; d_mant := m; d_scale := s |}
  | PyNan => NNan
  | PyInf n => NInf n
  end.

Theorem src_make_geo_data_spec : forall (fmt : Z -> py_num -> list Z) lat lng,
  src_make_geo_data fmt lat lng = K_geo ++ py_trim (fmt 8 lat) ++ [44] ++ py_trim (fmt 8 lng).
Proof.
  intros fmt lat lng. unfold src_make_geo_data, py_trim. cbv zeta. cbv beta.
  rewrite !py_str_rstrip_char. reflexivity.
Qed.

Theorem src_make_geo_data_is_model : forall (fmt : Z -> py_num -> list Z) lat lng,
  (forall x, fmt 8 x = float_fmt8 (to_fnum x)) ->
  src_make_geo_data fmt lat lng = make_geo_data (to_fnum lat) (to_fnum lng).
Proof.
  intros fmt lat lng Hfmt. rewrite src_make_geo_data_spec, !Hfmt. reflexivity.
Qed.

(* ------------------------------------------------------------------ make_make_email_data *)
Definition K_utf8 : list Z := [117; 116; 102; 45; 56].     (* 'utf-8' *)

Lemma lenZ_cons_nonzero {A} (x : A) l : (lenZ (x :: l) =? 0) = false.
Proof. unfold lenZ. cbn [length]. rewrite Nat2Z.inj_succ. apply Z.eqb_neq. lia. Qed.

Theorem src_make_make_email_data_is_model :
  forall (encode : list Z -> list Z -> res (list Z)) (quote : list Z -> list Z)
         (to cc bcc : list (list Z)) (subject body : option (list Z)),
  (forall s, encode K_utf8 s = utf8_encode s) ->
  (forall b, quote b = quote_bytes b) ->
  src_make_make_email_data encode quote to cc bcc subject body = make_make_email_data to cc bcc subject body.
Proof.
  intros encode quote to cc bcc subject body Henc Hq.
  unfold src_make_make_email_data, make_make_email_data, email_addr_part, email_text_part, quote_utf8. cbv zeta. cbv beta.
  fold K_utf8. 
  destruct to as [|t0 tr]; [reflexivity|]. rewrite lenZ_cons_nonzero. cbn [negb bind].
  destruct cc as [|c0 cr], bcc as [|b0 br]; cbn [py_for]; rewrite ?lenZ_cons_nonzero; cbn [negb lenZ length Z.of_nat Z.eqb].
  all: destruct subject as [sj|]; [rewrite Henc; destruct (utf8_encode sj) as [sb|se]; cbn [bind]; [|reflexivity]|].
  all: destruct body as [bd|]; [rewrite Henc; destruct (utf8_encode bd) as [bb|be]; cbn [bind]; [|reflexivity]|].
  all: cbn [bind]; rewrite ?Hq, py_str_join_is_model, join_nil_concat, ?py_str_join_is_model; f_equal.
  all: cbn [concat app]; rewrite <- ?app_assoc; cbn [app]; rewrite ?app_nil_r; reflexivity.
Qed.

Print Assumptions src_make_geo_data_is_model.
Print Assumptions src_make_make_email_data_is_model.
